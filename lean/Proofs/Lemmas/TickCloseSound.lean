/-
  From the Boolean per-tick checks of Proofs/Lemmas/ClosePred.lean and the enclosure `Enc a l 40` to the closeness
  inequalities of C06 (c), as integer inequalities (no real numbers).

  Notation in comments:  P = 10001, Q = 10000, pa = P^a, qa = Q^a,  X = 2^192·√(qa/pa) (so l ≤ X ≤ l+40),
  ideal sqrt price  I(−a) = X/2^96,  I(+a) = 2^288/X,  β = I(+a)²/2^221 = pa/(2^29·qa).
-/
import Proofs.Lemmas.TickEnc
import Mathlib.Tactic.Linarith
import Mathlib.Tactic.NormNum
import Mathlib.Tactic.Zify
namespace Demeter.TickClose
open Demeter Gen
set_option exponentiation.threshold 600

theorem blt_iff (x y : Nat) : Nat.blt x y = true ↔ x < y := by
  simp [Nat.blt]
  omega

theorem ble_iff (x y : Nat) : Nat.ble x y = true ↔ x ≤ y := by simp

/-! ### tick ≤ 0 -/

/-- `(n−1)·2^96 < l`, `l + 40 < (n+1)·2^96`, `l ≤ X ≤ l + 40`  ⟹  `n − 1 < X/2^96 < n + 1` (on squares) -/
theorem close_neg_sound (a n l : Nat) (hn : 1 ≤ n) (henc : Enc a l 40) (hb : closeNegB n l = true) :
    (n - 1) ^ 2 * 10001 ^ a < 2 ^ 192 * 10000 ^ a ∧ 2 ^ 192 * 10000 ^ a < (n + 1) ^ 2 * 10001 ^ a := by
  unfold closeNegB at hb
  simp only [Bool.and_eq_true, blt_iff, Nat.mul_eq, Nat.add_eq] at hb
  obtain ⟨h1, h2⟩ := hb
  obtain ⟨lo, hi, _⟩ := henc
  have hK : (79228162514264337593543950336 : Nat) = 2 ^ 96 := by decide +kernel
  rw [hK] at h1 h2
  have hpa : 0 < 10001 ^ a := by positivity
  have e384 : (2 : Nat) ^ 384 = (2 ^ 96) ^ 2 * 2 ^ 192 := by rw [← Nat.pow_mul, ← Nat.pow_add]
  have hKpos : 0 < ((2 : Nat) ^ 96) ^ 2 := by positivity
  constructor
  · have h3 : (n - 1) * 2 ^ 96 < l := by
      have : (n - 1) * 2 ^ 96 + 2 ^ 96 = n * 2 ^ 96 := by
        have e := Nat.succ_mul (n - 1) (2 ^ 96)
        rw [Nat.succ_eq_add_one, Nat.sub_add_cancel hn] at e
        exact e.symm
      exact Nat.lt_of_add_lt_add_right (this ▸ h1)
    have h4 : ((n - 1) * 2 ^ 96) ^ 2 < l ^ 2 := Nat.pow_lt_pow_left h3 (by omega)
    have h5 : ((n - 1) * 2 ^ 96) ^ 2 * 10001 ^ a < 2 ^ 384 * 10000 ^ a :=
      Nat.lt_of_lt_of_le (Nat.mul_lt_mul_of_pos_right h4 hpa) lo
    have h6 : (2 ^ 96) ^ 2 * ((n - 1) ^ 2 * 10001 ^ a) < (2 ^ 96) ^ 2 * (2 ^ 192 * 10000 ^ a) := by
      calc (2 ^ 96) ^ 2 * ((n - 1) ^ 2 * 10001 ^ a) = ((n - 1) * 2 ^ 96) ^ 2 * 10001 ^ a := by ring
        _ < 2 ^ 384 * 10000 ^ a := h5
        _ = (2 ^ 96) ^ 2 * (2 ^ 192 * 10000 ^ a) := by rw [e384]; ring
    exact Nat.lt_of_mul_lt_mul_left h6
  · have h4 : (l + 40) ^ 2 < ((n + 1) * 2 ^ 96) ^ 2 := Nat.pow_lt_pow_left h2 (by omega)
    have h5 : 2 ^ 384 * 10000 ^ a < ((n + 1) * 2 ^ 96) ^ 2 * 10001 ^ a :=
      Nat.lt_of_le_of_lt hi (Nat.mul_lt_mul_of_pos_right h4 hpa)
    have h6 : (2 ^ 96) ^ 2 * (2 ^ 192 * 10000 ^ a) < (2 ^ 96) ^ 2 * ((n + 1) ^ 2 * 10001 ^ a) := by
      calc (2 ^ 96) ^ 2 * (2 ^ 192 * 10000 ^ a) = 2 ^ 384 * 10000 ^ a := by rw [e384]; ring
        _ < ((n + 1) * 2 ^ 96) ^ 2 * 10001 ^ a := h5
        _ = (2 ^ 96) ^ 2 * ((n + 1) ^ 2 * 10001 ^ a) := by ring
    exact Nat.lt_of_mul_lt_mul_left h6

/-! ### tick > 0: three algebraic lemmas over ℤ with the powers of two abstracted -/

/-- `1 + e/l² ≤ p`, `l² ≤ X²` ⟹ `β ≤ p − 1` -/
theorem pos_g0 (p l pa qa e B : ℤ) (he : 0 < e) (hpa : 0 ≤ pa) (hl : 0 < l)
    (c3 : e + l ^ 2 ≤ p * l ^ 2) (lo : l ^ 2 * pa ≤ e * B * qa) : pa + B * qa ≤ p * B * qa := by
  have hl2 : 0 < l ^ 2 := by positivity
  have hp1 : 0 < p - 1 := by
    by_contra hcon
    have : (p - 1) * l ^ 2 ≤ 0 := mul_nonpos_of_nonpos_of_nonneg (by linarith) (le_of_lt hl2)
    nlinarith
  have h1 : pa * e ≤ pa * ((p - 1) * l ^ 2) := mul_le_mul_of_nonneg_left (by linarith) hpa
  have h2 : (p - 1) * (l ^ 2 * pa) ≤ (p - 1) * (e * B * qa) := mul_le_mul_of_nonneg_left lo (le_of_lt hp1)
  have h3 : e * pa ≤ e * ((p - 1) * B * qa) := by
    calc e * pa = pa * e := by ring
      _ ≤ pa * ((p - 1) * l ^ 2) := h1
      _ = (p - 1) * (l ^ 2 * pa) := by ring
      _ ≤ (p - 1) * (e * B * qa) := h2
      _ = e * ((p - 1) * B * qa) := by ring
  have := le_of_mul_le_mul_left h3 he
  linarith

/-- `p < k/u + 1 + e/u²`, `X ≤ u` ⟹ `(p − 1 − β)² < I²` given `0 ≤ p − 1 − β` -/
theorem pos_g1 (p u pa qa k e B G : ℤ) (hu : 0 < u) (hqa : 0 < qa) (hpa : 0 < pa) (hB : 0 < B) (he : 0 < e)
    (_hk : 0 < k) (c1 : p * u ^ 2 < k * u + u ^ 2 + e) (hi : e * B * qa ≤ u ^ 2 * pa)
    (rel : k ^ 2 * B ^ 2 = G * (e * B)) (g0 : 0 ≤ (p - 1) * B * qa - pa) :
    ((p - 1) * B * qa - pa) ^ 2 < G * pa * qa := by
  have hD : 0 < B * qa := by positivity
  -- v·u² < k·u·D
  have h1 : ((p - 1) * B * qa - pa) * u ^ 2 < k * u * (B * qa) := by
    have h1a : (p - 1) * u ^ 2 * (B * qa) < (k * u + e) * (B * qa) :=
      mul_lt_mul_of_pos_right (by linarith) hD
    nlinarith
  have h2 : ((p - 1) * B * qa - pa) * u < k * (B * qa) := by
    have : ((p - 1) * B * qa - pa) * u * u < k * (B * qa) * u := by
      calc ((p - 1) * B * qa - pa) * u * u = ((p - 1) * B * qa - pa) * u ^ 2 := by ring
        _ < k * u * (B * qa) := h1
        _ = k * (B * qa) * u := by ring
    exact lt_of_mul_lt_mul_right this (le_of_lt hu)
  have h3 : (((p - 1) * B * qa - pa) * u) ^ 2 < (k * (B * qa)) ^ 2 :=
    pow_lt_pow_left₀ h2 (mul_nonneg g0 (le_of_lt hu)) (by norm_num)
  have h4 : (e * B * qa) * ((p - 1) * B * qa - pa) ^ 2 < (e * B * qa) * (G * pa * qa) := by
    calc (e * B * qa) * ((p - 1) * B * qa - pa) ^ 2
        ≤ (u ^ 2 * pa) * ((p - 1) * B * qa - pa) ^ 2 := mul_le_mul_of_nonneg_right hi (by positivity)
      _ = (((p - 1) * B * qa - pa) * u) ^ 2 * pa := by ring
      _ < (k * (B * qa)) ^ 2 * pa := mul_lt_mul_of_pos_right h3 hpa
      _ = (k ^ 2 * B ^ 2) * (qa ^ 2 * pa) := by ring
      _ = (e * B * qa) * (G * pa * qa) := by rw [rel]; ring
  exact lt_of_mul_lt_mul_left h4 (by positivity)

/-- `k/l − 1 − e/l² < p`, `l ≤ X`, `2k ≤ H·l` ⟹ `I² < (p + 1 + β)²` -/
theorem pos_g2 (p l pa qa k e B H : ℤ) (hl : 0 < l) (hqa : 0 < qa) (hpa : 0 < pa) (hB : 0 < B) (he : 0 < e)
    (hk : 0 < k) (hH : 0 < H) (c2 : k * l < (p + 1) * l ^ 2 + e) (lo : l ^ 2 * pa ≤ e * B * qa)
    (c4 : 2 * k ≤ H * l) (rel : H * e = k ^ 2) :
    H * B * pa * qa < ((p + 1) * B * qa + pa) ^ 2 := by
  have hD : 0 < B * qa := by positivity
  -- δ = e·D − pa·l² ≥ 0,  M = k·l·D − δ
  have hδ : 0 ≤ e * (B * qa) - pa * l ^ 2 := by linarith
  have hkl : 2 * e ≤ l * k := by
    have h1 : H * (2 * e) ≤ H * (l * k) := by
      calc H * (2 * e) = 2 * k ^ 2 := by rw [← rel]; ring
        _ = (2 * k) * k := by ring
        _ ≤ (H * l) * k := mul_le_mul_of_nonneg_right c4 (le_of_lt hk)
        _ = H * (l * k) := by ring
    exact le_of_mul_le_mul_left h1 hH
  have hM0 : 0 ≤ k * l * (B * qa) - (e * (B * qa) - pa * l ^ 2) := by
    have h1 : 2 * e * (B * qa) ≤ l * k * (B * qa) := mul_le_mul_of_nonneg_right hkl (le_of_lt hD)
    have h2 : 0 ≤ pa * l ^ 2 := by positivity
    have h3 : 0 < e * (B * qa) := by positivity
    nlinarith
  have hT : k * l * (B * qa) - (e * (B * qa) - pa * l ^ 2) < ((p + 1) * B * qa + pa) * l ^ 2 := by
    have h1 : (k * l - e) * (B * qa) < (p + 1) * l ^ 2 * (B * qa) :=
      mul_lt_mul_of_pos_right (by linarith) hD
    nlinarith
  have hsq : (k * l * (B * qa) - (e * (B * qa) - pa * l ^ 2)) ^ 2 < (((p + 1) * B * qa + pa) * l ^ 2) ^ 2 :=
    pow_lt_pow_left₀ hT hM0 (by norm_num)
  -- M² − H·B·pa·qa·l⁴ = δ² + D·l·δ·(H·l − 2k) ≥ 0
  have hid : (k * l * (B * qa) - (e * (B * qa) - pa * l ^ 2)) ^ 2 - H * B * pa * qa * l ^ 4
      = (e * (B * qa) - pa * l ^ 2) ^ 2 + (B * qa) * l * (e * (B * qa) - pa * l ^ 2) * (H * l - 2 * k)
        + (B * qa) ^ 2 * l ^ 2 * (k ^ 2 - H * e) := by ring
  have hge : H * B * pa * qa * l ^ 4 ≤ (k * l * (B * qa) - (e * (B * qa) - pa * l ^ 2)) ^ 2 := by
    have h1 : 0 ≤ (B * qa) * l * (e * (B * qa) - pa * l ^ 2) * (H * l - 2 * k) :=
      mul_nonneg (mul_nonneg (by positivity) hδ) (by linarith)
    have h2 : 0 ≤ (e * (B * qa) - pa * l ^ 2) ^ 2 := by positivity
    have h3 : (B * qa) ^ 2 * l ^ 2 * (k ^ 2 - H * e) = 0 := by rw [rel]; ring
    linarith
  have h5 : l ^ 4 * (H * B * pa * qa) < l ^ 4 * ((p + 1) * B * qa + pa) ^ 2 := by
    calc l ^ 4 * (H * B * pa * qa) = H * B * pa * qa * l ^ 4 := by ring
      _ ≤ _ := hge
      _ < _ := hsq
      _ = l ^ 4 * ((p + 1) * B * qa + pa) ^ 2 := by ring
  exact lt_of_mul_lt_mul_left h5 (by positivity)

/-! ### tick > 0 -/

/-- the positive-tick checks and the enclosure give
    `β ≤ p − 1`,  `(p − 1 − β)² < I²`,  `I² < (p + 1 + β)²`  with denominators cleared
    (`I² = 2^192·pa/qa`, `β = pa/(2^29·qa)`, everything multiplied by `(2^29·qa)²`). -/
theorem close_pos_sound (a p l : Nat) (henc : Enc a l 40) (hb : closePosB p l = true) :
    10001 ^ a + 2 ^ 29 * 10000 ^ a ≤ p * 2 ^ 29 * 10000 ^ a ∧
    (p * 2 ^ 29 * 10000 ^ a - 2 ^ 29 * 10000 ^ a - 10001 ^ a) ^ 2 < 2 ^ 250 * 10001 ^ a * 10000 ^ a ∧
    2 ^ 250 * 10001 ^ a * 10000 ^ a < (p * 2 ^ 29 * 10000 ^ a + 2 ^ 29 * 10000 ^ a + 10001 ^ a) ^ 2 := by
  unfold closePosB at hb
  simp only [Bool.and_eq_true, blt_iff, ble_iff, Nat.mul_eq, Nat.add_eq] at hb
  obtain ⟨⟨⟨c1, c2⟩, c3⟩, c4⟩ := hb
  obtain ⟨lo, hi, _⟩ := henc
  have e288 : (497323236409786642155382248146820840100456150797347717440463976893159497012533375533056 : Nat) = 2 ^ 288 := by decide +kernel
  have e355 : (73391955711682288371546268649666782105490079653384995959602842860381532034831513858240593699524021969747968 : Nat) = 2 ^ 355 := by decide +kernel
  have e68 : (295147905179352825856 : Nat) = 2 ^ 68 := by decide +kernel
  rw [e288, e355] at c1 c2
  rw [e355] at c3
  rw [e68] at c4
  generalize hpa : 10001 ^ a = pa at *
  generalize hqa : 10000 ^ a = qa at *
  have hpa0 : 0 < pa := by rw [← hpa]; positivity
  have hqa0 : 0 < qa := by rw [← hqa]; positivity
  have hl0 : 0 < l := by
    have : 0 < 2 ^ 68 := by positivity
    omega
  simp only [← pow_two] at c1 c2 c3
  zify at c1 c2 c3 c4 lo hi hpa0 hqa0 hl0
  have e384 : (2 : ℤ) ^ 384 = 2 ^ 355 * 2 ^ 29 := by norm_num
  rw [e384] at lo hi
  have g0 := pos_g0 p l pa qa (2 ^ 355) (2 ^ 29) (by positivity) (le_of_lt hpa0) hl0 c3 lo
  have g0' : (pa : ℤ) + 2 ^ 29 * qa ≤ p * 2 ^ 29 * qa := g0
  have g0n : pa + 2 ^ 29 * qa ≤ p * 2 ^ 29 * qa := by exact_mod_cast g0'
  have g1 := pos_g1 p (l + 40) pa qa (2 ^ 288) (2 ^ 355) (2 ^ 29) (2 ^ 250) (by positivity) hqa0 hpa0
    (by positivity) (by positivity) (by positivity) (by push_cast at c1 ⊢; linarith) (by push_cast at hi ⊢; linarith)
    (by norm_num) (by linarith)
  have g2 := pos_g2 p l pa qa (2 ^ 288) (2 ^ 355) (2 ^ 29) (2 ^ 221) hl0 hqa0 hpa0
    (by positivity) (by positivity) (by positivity) (by positivity) (by linarith) lo
    (by
      have : (2 : ℤ) ^ 221 * 2 ^ 68 ≤ 2 ^ 221 * l := mul_le_mul_of_nonneg_left c4 (by positivity)
      have e : (2 : ℤ) * 2 ^ 288 = 2 ^ 221 * 2 ^ 68 := by norm_num
      linarith)
    (by norm_num)
  refine ⟨g0n, ?_, ?_⟩
  · have hsub : ((p * 2 ^ 29 * qa - 2 ^ 29 * qa - pa : Nat) : ℤ) = ((p : ℤ) - 1) * 2 ^ 29 * qa - pa := by
      have h1 : 2 ^ 29 * qa ≤ p * 2 ^ 29 * qa := by omega
      have h2 : pa ≤ p * 2 ^ 29 * qa - 2 ^ 29 * qa := by omega
      rw [Nat.cast_sub h2, Nat.cast_sub h1]; push_cast; ring
    zify
    rw [hsub]
    have e : (2 : ℤ) ^ 250 * pa * qa = 2 ^ 250 * pa * qa := rfl
    linarith
  · zify
    have e : ((p : ℤ) * 2 ^ 29 * qa + 2 ^ 29 * qa + pa) = ((p : ℤ) + 1) * 2 ^ 29 * qa + pa := by ring
    have e2 : (2 : ℤ) ^ 250 = 2 ^ 221 * 2 ^ 29 := by norm_num
    rw [e, e2]
    linarith

end Demeter.TickClose
