/-
  The end-of-bar liquidation (`update()` = `_liquidate` → `_do_liquidate`) keeps cache coherence.
  `_do_liquidate` changes the seized supply *before* it resets any cache and before its last `raise`
  (`DemeterError("variable_delt < actual_debt_to_liquidate")`); every other raise precedes the first
  mutation.  Hence: coherence is kept unless that one error is raised (`noBad`).
-/
import Proofs.Lemmas.AaveWrites3
namespace Demeter.Aave
open Demeter M

variable {cx : ACtx} {env : Env}

/-- the indices of the bar are non-zero (the property quantifies over positive indices) -/
def EnvPos (env : Env) : Prop := ∀ k st, env.statusOf k = .ok st → st.liqIdx ≠ 0 ∧ st.varIdx ≠ 0

/-- no raise of `_do_liquidate` comes between a mutation and the cache resets any more (the
    `DemeterError("variable_delt < actual_debt_to_liquidate")` is checked before the seizure): nothing is excluded -/
def noBad (_ : Err) : Prop := False

theorem InvE.toInv {I : St → Prop} {α : Type} {m : M α} (h : InvE I noBad m) : Inv I m :=
  fun s hs => h s hs (fun _ _ hb => hb)

/-! ### pre/post reasoning outside a set of excluded errors -/

def InvToE (P Q : St → Prop) (bad : Err → Prop) {α : Type} (m : M α) : Prop :=
  ∀ s, P s → (∀ e, (m s).1 = .error e → ¬ bad e) → Q (m s).2

section
variable {P Q R : St → Prop} {bad : Err → Prop} {α β : Type}

theorem InvTo.toE {m : M α} (h : InvTo P Q m) : InvToE P Q bad m := fun s hs _ => h s hs

theorem InvToE.bind {m : M α} {f : α → M β} (hm : InvToE P R bad m) (hf : ∀ a, InvToE R Q bad (f a))
    (he : ∀ s, R s → Q s) : InvToE P Q bad (m >>= f) := by
  intro s hs hb
  have h1 := hm s hs
  rcases hms : m s with ⟨r, s1⟩
  rw [hms] at h1
  cases r with
  | ok a =>
    rw [run_bind_ok hms] at hb ⊢
    exact hf a s1 (h1 (fun e he => by simp at he)) hb
  | error e =>
    rw [run_bind_err hms] at hb ⊢
    refine he s1 (h1 (fun e' he' => hb e' ?_))
    simp only [Except.error.injEq] at he' ⊢
    exact he'

theorem InvToE.bind_ofRes {r : Res α} {f : α → M β} (h : ∀ a, r = .ok a → InvToE P Q bad (f a))
    (he : ∀ s, P s → Q s) : InvToE P Q bad (M.ofRes r >>= f) := by
  intro s hs hb
  rw [run_bind] at hb ⊢
  cases r with
  | ok a => exact h a rfl s hs hb
  | error e => exact he s hs

theorem InvToE.bind_require {c : Bool} {e : Err} {f : Unit → M β} (h : c = true → InvToE P Q bad (f ()))
    (he : ∀ s, P s → Q s) : InvToE P Q bad (M.require c e >>= f) := by
  intro s hs hb
  rw [run_bind] at hb ⊢
  cases c with
  | true => exact h rfl s hs hb
  | false => exact he s hs

theorem InvToE.bind_queryPos {q : AList String SupplyInfo → AList String BorrowInfo → Res α} {f : α → M β}
    {sup0 : AList String SupplyInfo} {bor0 : AList String BorrowInfo}
    (hpin : ∀ s, P s → s.supplies = sup0 ∧ s.borrows = bor0)
    (h : ∀ a, q sup0 bor0 = .ok a → InvToE P Q bad (f a)) (he : ∀ s, P s → Q s) :
    InvToE P Q bad (M.queryPos q >>= f) := by
  intro s hs hb
  obtain ⟨h1, h2⟩ := hpin s hs
  rw [run_bind, run_queryPos, h1, h2] at hb ⊢
  cases hq : q sup0 bor0 with
  | ok a => rw [hq] at hb; exact h a hq s hs hb
  | error e => exact he s hs

theorem InvE.catch {I : St → Prop} {m : M Unit} (h : InvE I bad m) (hb : ∀ e, bad e → e.isAssertion = false) :
    InvE I bad (catchAssertion m) := by
  intro s hs hne
  unfold catchAssertion at hne ⊢
  have h1 := h s hs
  rcases hms : m s with ⟨r, s1⟩
  rw [hms] at h1 hne
  cases r with
  | ok a => exact h1 (fun e he => by simp at he)
  | error e =>
    dsimp only at hne ⊢
    cases hc : e.isAssertion with
    | true =>
      simp only [hc, if_true]
      refine h1 (fun e' he' hbad => ?_)
      simp only [Except.error.injEq] at he'
      subst he'
      rw [hb e hbad] at hc; cases hc
    | false =>
      simp only [hc, Bool.false_eq_true, if_false] at hne ⊢
      exact h1 (fun e' he' => hne e' he')

end

/-! ### `_do_liquidate` -/

theorem subBorrowAmount_run {s : St} {tok : String} {info : BorrowInfo} {st : TokStatus} (amt : Rat)
    (hg : AList.get? s.borrows tok = some info) (hst : env.statusOf tok = .ok st) (hnz : st.varIdx ≠ 0) :
    subBorrowAmount cx env tok amt s =
      (.ok (subBase cx info.base (cx.div amt st.varIdx)),
       (commitSubBorrow tok info (subBase cx info.base (cx.div amt st.varIdx)) s).2) := by
  unfold subBorrowAmount
  rw [run_bind, run_queryPos]
  simp only [hg]
  rw [run_bind, run_ofRes, hst]
  simp only []
  rw [run_bind, run_ofRes]
  simp only [divE, hnz, if_false]
  rw [run_bind]
  rfl

theorem aget_of_contains {ν : Type} {m : AList String ν} {k : String} (h : AList.contains m k = true) :
    ∃ v, AList.get? m k = some v := by
  apply aget_some_of_mem_keys
  unfold AList.contains at h
  obtain ⟨p, hp, hk⟩ := List.any_eq_true.mp h
  have : p.1 = k := by simpa using hk
  rw [← this]; exact mem_keys_of_mem hp

/-- result-aware sequencing: the continuation may use what the first part established about its result -/
def PostR {α : Type} (R : α → St → Prop) (Q : St → Prop) (x : Res α × St) : Prop :=
  match x with
  | (.ok a, s') => R a s'
  | (.error _, s') => Q s'

theorem InvToE.bindR {P Q : St → Prop} {bad : Err → Prop} {α β : Type} {m : M α} {f : α → M β} {R : α → St → Prop}
    (hm : ∀ s, P s → PostR R Q (m s))
    (hf : ∀ a, InvToE (R a) Q bad (f a)) : InvToE P Q bad (m >>= f) := by
  intro s hs hb
  have h1 := hm s hs
  rcases hms : m s with ⟨r, s1⟩
  rw [hms] at h1
  unfold PostR at h1
  cases r with
  | ok a =>
    rw [run_bind_ok hms] at hb ⊢
    exact hf a s1 h1 hb
  | error e =>
    rw [run_bind_err hms]
    exact h1

theorem Inv.matchForm {I : St → Prop} {α : Type} {m : M α} (h : Inv I m) (s : St) (hs : I s) :
    PostR (fun _ s' => I s') I (m s) := by
  have := h s hs
  rcases hm : m s with ⟨r, s1⟩
  rw [hm] at this
  unfold PostR
  cases r <;> exact this

theorem liqDebtOf_post (dtok : String) (s0 : St) (s : St) (hs : Pin cx env s0.supplies s0.borrows s) :
    PostR (fun v s' => Pin cx env s0.supplies s0.borrows s' ∧ (v ≠ 0 → AList.contains s0.borrows dtok = true))
      (Good cx env) (liqDebtOf cx env dtok s) := by
  have hR := readInv_pin (cx := cx) (env := env) s0.supplies s0.borrows
  unfold liqDebtOf
  rw [run_bind, run_queryPos]
  dsimp only
  rw [hs.2.2]
  cases hc : AList.contains s0.borrows dtok with
  | true =>
    simp only [if_true]
    have := (Inv.bind (hR.toReadInv3.getBorrow dtok) (fun b => Inv.pure b.amount)).matchForm s hs
    rcases hm : (getBorrow cx env dtok >>= fun b => (pure b.amount : M Rat)) s with ⟨r, s1⟩
    rw [hm] at this
    unfold PostR at this ⊢
    cases r with
    | ok v => exact ⟨this, fun _ => by first | rfl | trivial⟩
    | error e => exact this.1
  | false =>
    simp only [Bool.false_eq_true, if_false]
    unfold PostR
    exact ⟨hs, fun h => absurd rfl h⟩

theorem good_liqCommit (hE : EnvOK env) {s0 s : St} (hs : Pin cx env s0.supplies s0.borrows s)
    {ctok dtok : String} {info : SupplyInfo} {cst dst : TokStatus} (hcst : env.statusOf ctok = .ok cst)
    (hdst : env.statusOf dtok = .ok dst) (hnz : dst.varIdx ≠ 0) (hc : AList.contains s0.borrows dtok = true)
    (nb debtLiq : Rat) :
    Good cx env (liqCommit cx env ctok info nb dtok debtLiq s).2 := by
  obtain ⟨⟨gs, gb⟩, e1, e2⟩ := hs
  obtain ⟨binfo, hbi⟩ := aget_of_contains hc
  have hdc : HasData env ctok := hE ctok cst hcst
  have hdd : HasData env dtok := hE dtok dst hdst
  unfold liqCommit
  rw [run_bind]
  simp only [liqSeize, run_modify]
  rw [run_bind, subBorrowAmount_run debtLiq (by show AList.get? s.borrows dtok = some binfo; rw [e2]; exact hbi) hdst hnz]
  simp only [run_bind, resetAll, run_modify, run_pure]
  refine ⟨⟨?_, ?_, CohC.fresh _, CohC.fresh _, CohC.fresh _⟩, ⟨?_, ?_, CohC.fresh _, CohC.fresh _⟩⟩
  · show (keys (if nb = 0 then _ else _)).Nodup
    split
    · exact nodup_erase gs.nd _
    · exact nodup_set gs.nd _ _
  · show Covers env (if nb = 0 then _ else _)
    split
    · exact covers_erase gs.cv _
    · exact covers_set gs.cv hdc _
  · show (keys (if _ = 0 then _ else _)).Nodup
    split
    · exact nodup_erase gb.nd _
    · exact nodup_set gb.nd _ _
  · show Covers env (if _ = 0 then _ else _)
    split
    · exact covers_erase gb.cv _
    · exact covers_set gb.cv hdd _

theorem invE_doLiquidate (hE : EnvOK env) (hP : EnvPos env) (ck dk : Option String) (dv : Rat) :
    InvE (Good cx env) noBad (doLiquidate cx env ck dk dv) := by
  intro s hs
  have hid : ∀ s', Pin cx env s.supplies s.borrows s' → Good cx env s' := fun _ h => h.1
  have hpin : ∀ s', Pin cx env s.supplies s.borrows s' → s'.supplies = s.supplies ∧ s'.borrows = s.borrows :=
    fun _ h => ⟨h.2.1, h.2.2⟩
  have hR := readInv_pin (cx := cx) (env := env) s.supplies s.borrows
  have hG := readInv_good (cx := cx) (env := env)
  refine (?_ : InvToE (Pin cx env s.supplies s.borrows) (Good cx env) noBad _) s ⟨hs, rfl, rfl⟩
  unfold doLiquidate
  refine InvToE.bind (R := Pin cx env s.supplies s.borrows) hR.toReadInv3.healthFactor.to.toE (fun oldHf => ?_) hid
  refine InvToE.bind_ofRes (fun dtok _ => ?_) hid
  refine InvToE.bind_ofRes (fun dst hdst => ?_) hid
  refine InvToE.bind_ofRes (fun ctok _ => ?_) hid
  refine InvToE.bind_ofRes (fun cst hcst => ?_) hid
  refine InvToE.bind_ofRes (fun cr _ => ?_) hid
  refine InvToE.bindR (R := fun v s' => Pin cx env s.supplies s.borrows s' ∧ (v ≠ 0 → AList.contains s.borrows dtok = true))
    (fun s' hs' => liqDebtOf_post dtok s s' hs') (fun varDebt => ?_)
  have hid2 : ∀ s', (Pin cx env s.supplies s.borrows s' ∧ (varDebt ≠ 0 → AList.contains s.borrows dtok = true)) →
      Good cx env s' := fun _ h => h.1.1
  have hen : Inv (fun s' => Pin cx env s.supplies s.borrows s' ∧ (varDebt ≠ 0 → AList.contains s.borrows dtok = true))
      (liqEnabled ctok cr) := by
    intro s' ⟨h1, h2⟩
    refine ⟨?_, h2⟩
    unfold liqEnabled lookupSupply
    split
    · exact Inv.bind (Inv.queryPos _) (fun _ => Inv.pure _) s' h1
    · exact h1
  refine InvToE.bind (R := _) hen.to.toE (fun enabled => ?_) hid2
  refine InvToE.bind_require (fun _ => ?_) hid2
  refine InvToE.bind_require (fun hvd => ?_) hid2
  have hvd' : varDebt ≠ 0 := by simpa using hvd
  unfold lookupSupply
  refine InvToE.bind_queryPos (fun s' h => hpin s' h.1) (fun info _ => ?_) hid2
  refine InvToE.bind_ofRes (fun pd _ => ?_) hid2
  refine InvToE.bind_ofRes (fun pc _ => ?_) hid2
  refine InvToE.bind_ofRes (fun amts _ => ?_) hid2
  refine InvToE.bind_require (fun _ => ?_) hid2
  refine InvToE.bind_ofRes (fun dBase _ => ?_) hid2
  refine InvToE.bind (R := Good cx env) ?_ (fun remaining => ?_) (fun _ h => h)
  · intro s' ⟨hs', hc⟩ _
    exact good_liqCommit hE hs' hcst hdst (hP dtok dst hdst).2 (hc hvd') _ _
  · refine (Inv.to ?_).toE
    exact Inv.bind hG.toReadInv3.healthFactor (fun _ => Inv.bind (Inv.queryPos _) (fun _ => inv_record _))

/-! ### the loop and `update()` -/

theorem noBad_not_assertion : ∀ e, noBad e → e.isAssertion = false := by
  intro e h; exact absurd h id

theorem invE_liquidateLoop (hE : EnvOK env) (hP : EnvPos env) : ∀ (fuel : Nat) (done : List String) (hf : XRat),
    InvE (Good cx env) noBad (liquidateLoop cx env fuel done hf) := by
  have hG := readInv_good (cx := cx) (env := env)
  intro fuel
  induction fuel with
  | zero => intro done hf; exact (Inv.pure _).toE
  | succ n ih =>
    intro done hf
    unfold liquidateLoop
    split
    · refine InvE.bind hG.bo.toE (fun bv => InvE.bind hG.su.toE (fun sv => ?_))
      dsimp only
      split
      · exact (Inv.pure _).toE
      · exact InvE.bind (InvE.catch (invE_doLiquidate hE hP _ _ _) noBad_not_assertion)
          (fun _ => InvE.bind hG.toReadInv3.healthFactor.toE (fun _ => ih _ _))
    · exact (Inv.pure _).toE

theorem invE_liquidate (hE : EnvOK env) (hP : EnvPos env) : InvE (Good cx env) noBad (liquidate cx env) := by
  have hG := readInv_good (cx := cx) (env := env)
  unfold liquidate guardOpen
  exact InvE.bind (Inv.require _ _).toE (fun _ => InvE.bind hG.toReadInv3.healthFactor.toE (fun _ =>
    InvE.bind (Inv.queryPos _).toE (fun _ => InvE.bind (invE_liquidateLoop hE hP _ _ _) (fun _ => inv_setUpdated.toE))))

/-- `update()` keeps cache coherence, whatever it raises -/
theorem inv_liquidate (hE : EnvOK env) (hP : EnvPos env) : Inv (Good cx env) (liquidate cx env) :=
  (invE_liquidate hE hP).toInv

end Demeter.Aave
