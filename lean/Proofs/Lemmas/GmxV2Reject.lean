/-
  GMX v2: every rejection path of `deposit` / `withdraw` returns the state it was given — for every number type,
  arithmetic context and power function.  The only path that has mutated something when it fails (second wallet debit
  refused after the first succeeded) writes the remembered balance back; `AList.set_set_restore` shows that this is the
  original wallet.
-/
import Demeter.GmxV2
namespace Demeter.Gmx2
open Demeter Demeter.GmxV2

theorem alist_set_restore {ν : Type} (w : AList String ν) (k : String) (b b' : ν)
    (h : AList.get? w k = some b) : AList.set (AList.set w k b') k b = w := by
  induction w with
  | nil => simp [AList.get?] at h
  | cons p rest ih =>
    obtain ⟨k', v'⟩ := p
    unfold AList.get? at h
    by_cases hk : k' = k
    · subst hk
      simp [List.find?] at h
      subst h
      simp [AList.set]
    · have h' : AList.get? rest k = some b := by
        unfold AList.get?
        simpa [List.find?, hk] using h
      simp [AList.set, hk, ih h']

theorem debit_ok_set {cx : NumCtx} {w w1 : Wallet} {k : String} {a : Rat}
    (h : Wallet.debit cx w k a false = .ok w1) : ∃ b b', AList.get? w k = some b ∧ w1 = AList.set w k b' := by
  unfold Wallet.debit at h
  cases hg : AList.get? w k with
  | none => simp [hg] at h
  | some b =>
    simp only [hg] at h
    cases hs : assetSub cx b a false with
    | none => simp [hs] at h
    | some b' =>
      simp only [hs, Except.ok.injEq] at h
      exact ⟨b, b', rfl, h.symm⟩

/-- with `allow_negative_balance` a debit never fails -/
theorem debit_allow_not_error {cx : NumCtx} {w : Wallet} {k : String} {a : Rat} {e : WalletErr} :
    Wallet.debit cx w k a true ≠ .error e := by
  unfold Wallet.debit
  cases AList.get? w k with
  | none => simp
  | some b =>
    have hs : ∃ b', assetSub cx b a true = some b' := by
      unfold assetSub
      simp only [if_true]
      repeat' split
      all_goals exact ⟨_, rfl⟩
    obtain ⟨b', hb'⟩ := hs
    simp [hb']

section
set_option linter.unusedSectionVars false
variable {α : Type} [Add α] [Sub α] [Mul α] [Div α] [Neg α] [LT α] [LE α] [OfNat α 0] [DecidableLT α] [DecidableLE α]

theorem deposit_reject {o : Ops α} {cx : NumCtx} {cfg : Config α} {ps : Pool α} {lk sk : String} {s s' : State α}
    {la sa : α} {e : Err} {an : Bool} (h : deposit o cx cfg ps lk sk s la sa an = (.error e, s')) : s' = s := by
  unfold deposit at h
  split at h
  · cases h; rfl
  split at h
  · cases h; rfl
  · split at h
    · cases h; rfl
    · split at h
      · cases h; rfl
      simp only [] at h
      split at h
      · cases h; rfl
      · cases h; rfl
      · rename_i w1 hw1
        split at h
        · rename_i e2 he2
          cases an with
          | true => exact absurd he2 debit_allow_not_error
          | false =>
          obtain ⟨b, b', hb, rfl⟩ := debit_ok_set hw1
          simp only [Prod.mk.injEq] at h
          rw [← h.2]
          simp only [hb, alist_set_restore _ _ _ _ hb]
        · cases h

theorem withdraw_reject {o : Ops α} {cx : NumCtx} {cfg : Config α} {ps : Pool α} {lk sk : String} {s s' : State α}
    {amt : Option α} {e : Err} (h : withdraw o cx cfg ps lk sk s amt = (.error e, s')) : s' = s := by
  unfold withdraw at h
  simp only [] at h
  split at h
  · cases h; rfl
  split at h
  · cases h; rfl
  · split at h
    · cases h; rfl
    · split at h
      · cases h; rfl
      · split at h
        · cases h; rfl
        · cases h
end

end Demeter.Gmx2
