/-
  Helper lemmas for C20 (max drawdown): the definition `mddSpec` is the maximum of `dd xs i j` over `i ≤ j`,
  and the loop invariant of the code's scan `_withdraw_with_high_low`.
-/
import Demeter.Metrics
import Mathlib.Tactic.Linarith
import Mathlib.Tactic.FieldSimp
import Mathlib.Tactic.Ring
import Mathlib.Tactic.Positivity
import Mathlib.Tactic.NormNum
import Mathlib.Algebra.Order.Field.Rat
namespace Demeter.Metrics

/-- every entry is positive (the property's domain: positive net values) -/
def AllPos (xs : List Rat) : Prop := ∀ x ∈ xs, 0 < x

theorem AllPos.tail {x : Rat} {r : List Rat} (h : AllPos (x :: r)) : AllPos r :=
  fun y hy => h y (List.mem_cons_of_mem _ hy)

theorem AllPos.head {x : Rat} {r : List Rat} (h : AllPos (x :: r)) : 0 < x :=
  h x List.mem_cons_self

theorem nth_zero_cons (x : Rat) (r : List Rat) : nth (x :: r) 0 = x := rfl
theorem nth_succ_cons (x : Rat) (r : List Rat) (i : Nat) : nth (x :: r) (i + 1) = nth r i := rfl

theorem nth_mem {xs : List Rat} {i : Nat} (h : i < xs.length) : nth xs i ∈ xs := by
  unfold nth
  rw [List.getD_eq_getElem?_getD, List.getElem?_eq_getElem h]
  exact List.getElem_mem h

theorem nth_pos {xs : List Rat} (hp : AllPos xs) {i : Nat} (h : i < xs.length) : 0 < nth xs i :=
  hp _ (nth_mem h)

/-! ### the definition is a maximum -/

theorem maxDecl_nonneg (x : Rat) (ys : List Rat) : 0 ≤ maxDecl x ys := by
  cases ys with
  | nil => simp [maxDecl]
  | cons y r => simp only [maxDecl]; exact le_max_of_le_right (maxDecl_nonneg x r)

theorem maxDecl_ge (x : Rat) (ys : List Rat) (j : Nat) (h : j < ys.length) :
    (x - nth ys j) / x ≤ maxDecl x ys := by
  induction ys generalizing j with
  | nil => simp at h
  | cons y r ih =>
    simp only [maxDecl]
    cases j with
    | zero => exact le_max_left _ _
    | succ j =>
      rw [nth_succ_cons]
      exact le_max_of_le_right (ih j (by simpa using h))

theorem maxDecl_attained (x : Rat) (ys : List Rat) :
    maxDecl x ys = 0 ∨ ∃ j, j < ys.length ∧ maxDecl x ys = (x - nth ys j) / x := by
  induction ys with
  | nil => left; rfl
  | cons y r ih =>
    simp only [maxDecl]
    rcases le_total ((x - y) / x) (maxDecl x r) with h | h
    · rw [max_eq_right h]
      rcases ih with h0 | ⟨j, hj, e⟩
      · left; exact h0
      · right; exact ⟨j + 1, by simpa using hj, by rw [nth_succ_cons]; exact e⟩
    · rw [max_eq_left h]
      right; exact ⟨0, by simp, rfl⟩

theorem mddSpec_nonneg (xs : List Rat) : 0 ≤ mddSpec xs := by
  cases xs with
  | nil => simp [mddSpec]
  | cons x r => simp only [mddSpec]; exact le_max_of_le_left (maxDecl_nonneg x r)

theorem dd_self (xs : List Rat) (i : Nat) : dd xs i i = 0 := by simp [dd]

/-- upper bound: every relative decline from a point to a later point is at most `mddSpec` -/
theorem mddSpec_ge (xs : List Rat) (i j : Nat) (hij : i ≤ j) (hj : j < xs.length) : dd xs i j ≤ mddSpec xs := by
  induction xs generalizing i j with
  | nil => simp at hj
  | cons x r ih =>
    simp only [mddSpec]
    cases i with
    | zero =>
      cases j with
      | zero => rw [dd_self]; exact le_max_of_le_left (maxDecl_nonneg x r)
      | succ j =>
        refine le_max_of_le_left ?_
        have := maxDecl_ge x r j (by simpa using hj)
        simpa [dd, nth_zero_cons, nth_succ_cons] using this
    | succ i =>
      cases j with
      | zero => omega
      | succ j =>
        refine le_max_of_le_right ?_
        have := ih i j (by omega) (by simpa using hj)
        simpa [dd, nth_succ_cons] using this

/-- attained: `mddSpec` is the relative decline of some pair `i ≤ j` -/
theorem mddSpec_attained (xs : List Rat) (hne : xs ≠ []) :
    ∃ i j, i ≤ j ∧ j < xs.length ∧ mddSpec xs = dd xs i j := by
  induction xs with
  | nil => exact absurd rfl hne
  | cons x r ih =>
    simp only [mddSpec]
    rcases le_total (maxDecl x r) (mddSpec r) with h | h
    · rw [max_eq_right h]
      cases r with
      | nil =>
        refine ⟨0, 0, le_refl _, by simp, ?_⟩
        simp [mddSpec, dd_self]
      | cons y r' =>
        obtain ⟨i, j, hij, hj, e⟩ := ih (by simp)
        refine ⟨i + 1, j + 1, by omega, by simpa using hj, ?_⟩
        rw [e]; simp [dd, nth_succ_cons]
    · rw [max_eq_left h]
      rcases maxDecl_attained x r with h0 | ⟨j, hj, e⟩
      · exact ⟨0, 0, le_refl _, by simp, by rw [h0, dd_self]⟩
      · exact ⟨0, j + 1, by omega, by simpa using hj, by rw [e]; simp [dd, nth_zero_cons, nth_succ_cons]⟩

/-! ### the scan -/

theorem hlRun_zero (xs : List Rat) : hlRun xs 0 = hlInit := rfl

theorem hlRun_succ (xs : List Rat) (k : Nat) : hlRun xs (k + 1) = hlStep xs (hlRun xs k) (k + 1) := by
  unfold hlRun
  rw [List.range'_concat, List.foldl_append]
  simp [Nat.add_comm]

/-- a decline to `y` is relatively larger from a higher peak -/
theorem decl_le_of_peak_le {p h y : Rat} (hp : 0 < p) (hph : p ≤ h) (hy : 0 ≤ y) : (p - y) / p ≤ (h - y) / h := by
  have hh : 0 < h := lt_of_lt_of_le hp hph
  rw [div_le_div_iff₀ hp hh]
  nlinarith

/-- loop invariant of `_withdraw_with_high_low` after the iterations `1 … k` -/
structure HLInv (xs : List Rat) (k : Nat) (s : HL) : Prop where
  high_le : s.iHigh ≤ k
  peak : ∀ a, a < k ∨ a = 0 → nth xs a ≤ nth xs s.iHigh
  hl : s.gHigh ≤ s.gLow
  low : s.gLow ≤ k
  g_eq : s.g = dd xs s.gHigh s.gLow
  g_max : ∀ a b, a ≤ b → b ≤ k → dd xs a b ≤ s.g

theorem hlInv_init (xs : List Rat) (h0 : hlInit = ⟨0, 0, 0, 0⟩) : HLInv xs 0 hlInit := by
  rw [h0]
  refine ⟨le_refl _, ?_, le_refl _, le_refl _, ?_, ?_⟩
  · intro a ha
    rcases ha with ha | ha
    · omega
    · subst ha; exact le_refl _
  · simp [dd_self]
  · intro a b hab hb
    have : a = b := by omega
    subst this
    simp [dd_self]

theorem hlInv_step (xs : List Rat) (hp : AllPos xs) (k : Nat) (hk : k + 1 < xs.length) (s : HL)
    (inv : HLInv xs k s) : HLInv xs (k + 1) (hlStep xs s (k + 1)) := by
  obtain ⟨high_le, peak, hl, low, g_eq, g_max⟩ := inv
  -- the new running-peak index
  generalize hH : (if nth xs s.iHigh < nth xs (k + 1 - 1) then k + 1 - 1 else s.iHigh) = H
  have hHk : H ≤ k := by
    rw [← hH]; split <;> omega
  have hpeak : ∀ a, a < k + 1 ∨ a = 0 → nth xs a ≤ nth xs H := by
    intro a ha
    rw [← hH]
    simp only [Nat.add_sub_cancel]
    by_cases hak : a = k
    · subst hak
      split
      · exact le_refl _
      · rename_i hn; exact not_lt.mp hn
    · have ha' : a < k ∨ a = 0 := by omega
      split
      · rename_i hlt; exact le_trans (peak a ha') (le_of_lt hlt)
      · exact peak a ha'
  have hHpos : 0 < nth xs H := nth_pos hp (by omega)
  have hstep1 : s.g < dd xs H (k + 1) →
      hlStep xs s (k + 1) = { iHigh := H, g := dd xs H (k + 1), gHigh := H, gLow := k + 1 } := by
    intro hlt
    unfold hlStep
    simp only [hH, hHpos, if_true]
    unfold dd at hlt
    simp only [hlt, if_true, dd]
  have hstep2 : ¬ s.g < dd xs H (k + 1) → hlStep xs s (k + 1) = { s with iHigh := H } := by
    intro hlt
    unfold hlStep
    simp only [hH, hHpos, if_true]
    unfold dd at hlt
    simp only [hlt, if_false]
  have g0 : 0 ≤ s.g := by
    have := g_max 0 0 (le_refl _) (Nat.zero_le _)
    rwa [dd_self] at this
  -- every decline ending at k+1 is at most the one from the running peak
  have hend : ∀ a, a ≤ k + 1 → dd xs a (k + 1) ≤ max s.g (dd xs H (k + 1)) := by
    intro a ha
    by_cases hak : a = k + 1
    · subst hak; rw [dd_self]; exact le_max_of_le_left g0
    · refine le_max_of_le_right ?_
      have hapos : 0 < nth xs a := nth_pos hp (by omega)
      have hypos : 0 < nth xs (k + 1) := nth_pos hp hk
      exact decl_le_of_peak_le hapos (hpeak a (by omega)) (le_of_lt hypos)
  by_cases hlt : s.g < dd xs H (k + 1)
  · rw [hstep1 hlt]
    refine ⟨by simp; omega, by simpa using hpeak, by simp; omega, by simp, by simp, ?_⟩
    intro a b hab hb
    simp only
    by_cases hbk : b = k + 1
    · subst hbk
      exact le_trans (hend a hab) (by rw [max_eq_right (le_of_lt hlt)])
    · exact le_trans (g_max a b hab (by omega)) (le_of_lt hlt)
  · rw [hstep2 hlt]
    have hge : dd xs H (k + 1) ≤ s.g := not_lt.mp hlt
    refine ⟨by simp; omega, by simpa using hpeak, by simpa using hl, by simp; omega, by simpa using g_eq, ?_⟩
    intro a b hab hb
    simp only
    by_cases hbk : b = k + 1
    · subst hbk
      exact le_trans (hend a hab) (by rw [max_eq_left hge])
    · exact g_max a b hab (by omega)

theorem hlInv_run (xs : List Rat) (hp : AllPos xs) (h0 : hlInit = ⟨0, 0, 0, 0⟩) (k : Nat) (hk : k < xs.length) :
    HLInv xs k (hlRun xs k) := by
  induction k with
  | zero => rw [hlRun_zero]; exact hlInv_init xs h0
  | succ k ih =>
    rw [hlRun_succ]
    exact hlInv_step xs hp k hk _ (ih (by omega))

end Demeter.Metrics
