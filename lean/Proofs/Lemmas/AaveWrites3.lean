/-
  withdraw keeps cache coherence: the trial deduction leaves `_supplies_cache` stale *during* the health-factor
  evaluation, but positions and caches are back in a coherent state when it ends — accepted or rejected.
-/
import Proofs.Lemmas.AaveWrites2
namespace Demeter.Aave
open Demeter M

variable {cx : ACtx} {env : Env}

theorem finally'_snd {α : Type} (m : M α) (fin : St → St) (s : St) : (finally' m fin s).2 = fin (m s).2 := by
  unfold finally'
  rcases m s with ⟨r, s1⟩
  rfl

/-- what `health_factor` cannot touch, whatever state it runs in -/
theorem healthFactor_keeps (s1 : St) :
    (healthFactor cx env s1).2.frame = s1.frame ∧ (healthFactor cx env s1).2.supC = s1.supC ∧
    (healthFactor cx env s1).2.borC = s1.borC := by
  have h : ReadInv3 cx env (fun x => x.frame = s1.frame ∧ x.supC = s1.supC ∧ x.borC = s1.borC) :=
    ReadInv3.ofIgnoring (fun _ _ h => h) (fun _ _ h => h) (fun _ _ h => h)
  exact h.healthFactor s1 ⟨rfl, rfl, rfl⟩

theorem inv_trial {sup0 : AList String SupplyInfo} {bor0 : AList String BorrowInfo} {tok : String} {info : SupplyInfo}
    (hg : AList.get? sup0 tok = some info) (tb : Rat) :
    Inv (Pin cx env sup0 bor0) (trialHealthFactor cx env tok info tb) := by
  intro s ⟨⟨gs, gb⟩, e1, e2⟩
  unfold trialHealthFactor
  rw [run_bind]
  simp only [run_modify]
  rw [finally'_snd]
  generalize hs1 : trialSet tok { info with base := tb } s = s1
  have hs1sup : s1.supplies = AList.set sup0 tok { info with base := tb } := by rw [← hs1, ← e1]; rfl
  have hs1bor : s1.borrows = bor0 := by rw [← hs1, ← e2]; rfl
  have hs1supC : s1.supC = s.supC := by rw [← hs1]; rfl
  have gb1 : GoodB cx env s1 := gb.congr (by rw [← hs1]; rfl) (by rw [← hs1]; rfl) (by rw [← hs1]; rfl)
  obtain ⟨k1, k2, k3⟩ := healthFactor_keeps (cx := cx) (env := env) s1
  have gb2 : GoodB cx env (healthFactor cx env s1).2 := readInv3_goodB.healthFactor s1 gb1
  generalize (healthFactor cx env s1).2 = s2 at k1 k2 k3 gb2
  have hsup2 : s2.supplies = s1.supplies := congrArg Frame.supplies k1
  have hbor2 : s2.borrows = s1.borrows := congrArg Frame.borrows k1
  have hfin : AList.set s2.supplies tok info = sup0 := by
    rw [hsup2, hs1sup, aset_aset, aset_of_get hg]
  refine ⟨⟨⟨?_, ?_, CohC.fresh _, CohC.fresh _, ?_⟩, gb2.congr rfl rfl rfl⟩, hfin, by show s2.borrows = bor0; rw [hbor2, hs1bor]⟩
  · show (keys (AList.set s2.supplies tok info)).Nodup
    rw [hfin, ← e1]; exact gs.nd
  · show Covers env (AList.set s2.supplies tok info)
    rw [hfin, ← e1]; exact gs.cv
  · show CohC s2.supC (specSupplies cx env (AList.set s2.supplies tok info))
    rw [hfin, k2, hs1supC, ← e1]; exact gs.su

theorem inv_withdraw (tok : String) (amount? : Option Rat) : Inv (Good cx env) (withdraw cx env tok amount?) := by
  intro s hs
  have hid : ∀ s', Pin cx env s.supplies s.borrows s' → Good cx env s' := fun _ h => h.1
  have htail : ∀ (amount : Rat) (st : TokStatus), InvTo (Pin cx env s.supplies s.borrows) (Good cx env) (do
      let fin ← subSupplyAmount cx env tok amount
      walletCredit cx tok amount
      record (.withdraw tok amount (cx.mul fin st.liqIdx))
      setUpdated) := by
    intro amount st
    refine InvTo.weaken (Inv.to ?_) hid
    exact Inv.bind (inv_subSupplyAmount tok amount) (fun _ => Inv.bind (inv_walletCredit tok amount)
      (fun _ => Inv.bind (inv_record _) (fun _ => inv_setUpdated)))
  refine (?_ : InvTo (Pin cx env s.supplies s.borrows) (Good cx env) _) s ⟨hs, rfl, rfl⟩
  unfold withdraw guardOpen lookupSupply
  refine InvTo.bind_require (fun _ => ?_) hid
  refine InvTo.bind_ofRes (fun st _ => ?_) hid
  refine InvTo.bind (R := Pin cx env s.supplies s.borrows) ((readInv_pin _ _).toReadInv3.getSupply tok) (fun sv => ?_) hid
  refine InvTo.bind_require (fun _ => InvTo.bind_require (fun _ => ?_) hid) hid
  refine InvTo.bind_queryPos (fun _ h => ⟨h.2.1, h.2.2⟩) (fun info hq => ?_) hid
  have hg : AList.get? s.supplies tok = some info := by
    cases h : AList.get? s.supplies tok with
    | none => rw [h] at hq; cases hq
    | some i => rw [h] at hq; cases hq; rfl
  refine InvTo.bind (R := Pin cx env s.supplies s.borrows) ?_ (fun _ => htail _ _) hid
  unfold checkWithdrawHf
  split
  · refine InvTo.bind_ofRes (fun d _ => ?_) (fun _ h => h)
    refine InvTo.bind (R := Pin cx env s.supplies s.borrows) (inv_trial hg _) (fun hf => ?_) (fun _ h => h)
    exact Inv.require _ _
  · exact Inv.pure _

end Demeter.Aave
