/-
  Soundness of the enclosure product of Proofs/Lemmas/ClosePred.lean, without real numbers:

    `Enc m r d`  :=  r² · 10001^m ≤ 2^384 · 10000^m ≤ (r+d)² · 10001^m   ∧   r ≤ 2^192

  i.e. `r ≤ 2^192 · (10000/10001)^(m/2) ≤ r + d`.  Brackets multiply (`enc_step`); the fold over the table keeps
  the invariant given a certificate for every table entry (`encFold_enc`); the bits of `a < 2^20` add up to `a`
  (`expo_total`).  The certificates themselves are kernel-checked in Proofs/C06/CloseCert.lean.
-/
import Proofs.Lemmas.ClosePred
import Mathlib.Tactic.Ring
import Mathlib.Tactic.Positivity
import Mathlib.Data.Nat.Bitwise
namespace Demeter.TickClose
open Demeter Gen

/-- the fold the unrolled `encLowU` stands for -/
def encFold (a : Nat) : List (Nat × Nat) → Nat → Nat
  | [], r => r
  | (mask, c) :: rest, r => encFold a rest (if a &&& mask != 0 then (r * c) >>> 192 else r)

theorem encStepU_eq (a mask c r : Nat) :
    encStepU a mask c r = (if a &&& mask != 0 then (r * c) >>> 192 else r) := by
  unfold encStepU
  by_cases h : a &&& mask = 0
  · have : Nat.land a mask = 0 := h
    simp [h]
  · have h' : Nat.land a mask ≠ 0 := h
    have hb : Nat.beq (Nat.land a mask) 0 = false := by
      cases hbe : Nat.beq (Nat.land a mask) 0 with
      | false => rfl
      | true => exact absurd (Nat.eq_of_beq_eq_true hbe) h'
    simp only [hb, cond_false]
    have : (a &&& mask != 0) = true := by simpa using h
    simp only [this, if_true]
    rfl

theorem encLowU_eq (a : Nat) :
    encLowU a = encFold a encTable (if a &&& 1 != 0 then encStartOdd else encStartEven) := by
  have hstart : (cond (Nat.beq (Nat.land a 1) 0) encStartEven encStartOdd)
      = (if a &&& 1 != 0 then encStartOdd else encStartEven) := by
    by_cases h : a &&& 1 = 0
    · have : Nat.land a 1 = 0 := h
      simp [h]
    · have h' : Nat.land a 1 ≠ 0 := h
      have hb : Nat.beq (Nat.land a 1) 0 = false := by
        cases hbe : Nat.beq (Nat.land a 1) 0 with
        | false => rfl
        | true => exact absurd (Nat.eq_of_beq_eq_true hbe) h'
      have : (a &&& 1 != 0) = true := by simpa using h
      simp only [hb, cond_false, this, if_true]
  unfold encLowU
  simp only [encTable, encFold, ← encStepU_eq]
  rw [← hstart]
  rfl

/-- `r ≤ 2^192·(10000/10001)^(m/2) ≤ r + d`, stated on squares -/
structure Enc (m r d : Nat) : Prop where
  lo : r ^ 2 * 10001 ^ m ≤ 2 ^ 384 * 10000 ^ m
  hi : 2 ^ 384 * 10000 ^ m ≤ (r + d) ^ 2 * 10001 ^ m
  le : r ≤ 2 ^ 192

/-- certificate for one constant: `c ≤ 2^192·(10000/10001)^(n/2) ≤ c + 1` -/
def Cert (n c : Nat) : Prop :=
  c ^ 2 * 10001 ^ n ≤ 2 ^ 384 * 10000 ^ n ∧ 2 ^ 384 * 10000 ^ n ≤ (c + 1) ^ 2 * 10001 ^ n ∧ c + 1 ≤ 2 ^ 192

instance (n c : Nat) : Decidable (Cert n c) := by unfold Cert; infer_instance

theorem enc_mul_lo (w r c r' A B C D : Nat) (hw : 0 < w) (h1 : r' * w ≤ r * c)
    (hA : r ^ 2 * A ≤ w ^ 2 * B) (hC : c ^ 2 * C ≤ w ^ 2 * D) : r' ^ 2 * (A * C) ≤ w ^ 2 * (B * D) := by
  have h2 : (r' * w) ^ 2 ≤ (r * c) ^ 2 := Nat.pow_le_pow_left h1 2
  have h3 : w ^ 2 * (r' ^ 2 * (A * C)) ≤ w ^ 2 * (w ^ 2 * (B * D)) := by
    calc w ^ 2 * (r' ^ 2 * (A * C)) = (r' * w) ^ 2 * (A * C) := by ring
      _ ≤ (r * c) ^ 2 * (A * C) := Nat.mul_le_mul_right _ h2
      _ = (r ^ 2 * A) * (c ^ 2 * C) := by ring
      _ ≤ (w ^ 2 * B) * (w ^ 2 * D) := Nat.mul_le_mul hA hC
      _ = w ^ 2 * (w ^ 2 * (B * D)) := by ring
  exact Nat.le_of_mul_le_mul_left h3 (by positivity)

theorem enc_mul_hi (w u v u' A B C D : Nat) (hw : 0 < w) (h1 : u * v ≤ u' * w)
    (hB : w ^ 2 * B ≤ u ^ 2 * A) (hD : w ^ 2 * D ≤ v ^ 2 * C) : w ^ 2 * (B * D) ≤ u' ^ 2 * (A * C) := by
  have h2 : (u * v) ^ 2 ≤ (u' * w) ^ 2 := Nat.pow_le_pow_left h1 2
  have h3 : w ^ 2 * (w ^ 2 * (B * D)) ≤ w ^ 2 * (u' ^ 2 * (A * C)) := by
    calc w ^ 2 * (w ^ 2 * (B * D)) = (w ^ 2 * B) * (w ^ 2 * D) := by ring
      _ ≤ (u ^ 2 * A) * (v ^ 2 * C) := Nat.mul_le_mul hB hD
      _ = (u * v) ^ 2 * (A * C) := by ring
      _ ≤ (u' * w) ^ 2 * (A * C) := Nat.mul_le_mul_right _ h2
      _ = w ^ 2 * (u' ^ 2 * (A * C)) := by ring
  exact Nat.le_of_mul_le_mul_left h3 (by positivity)

theorem pow384 : (2 : Nat) ^ 384 = (2 ^ 192) ^ 2 := by rw [← Nat.pow_mul]

/-- multiplicativity of the bracket with outward rounding: one multiply-and-shift step costs 2 units of slack -/
theorem enc_step {m r d n c : Nat} (h : Enc m r d) (hc : Cert n c) :
    Enc (m + n) ((r * c) >>> 192) (d + 2) := by
  obtain ⟨hlo, hhi, hle⟩ := h
  obtain ⟨clo, chi, cle⟩ := hc
  rw [pow384] at hlo hhi clo chi
  rw [Nat.shiftRight_eq_div_pow]
  generalize hw : (2 : Nat) ^ 192 = w at *
  have hwpos : 0 < w := by rw [← hw]; positivity
  have hdm : r * c / w * w ≤ r * c := Nat.div_mul_le_self _ _
  have hlt : r * c < (r * c / w + 1) * w := by
    have := Nat.lt_div_mul_add (a := r * c) (b := w) hwpos
    rw [Nat.add_mul]; omega
  refine ⟨?_, ?_, ?_⟩
  · rw [pow384, hw, Nat.pow_add, Nat.pow_add]
    exact enc_mul_lo w r c _ _ _ _ _ hwpos hdm hlo clo
  · rw [pow384, hw, Nat.pow_add, Nat.pow_add]
    refine enc_mul_hi w (r + d) (c + 1) _ _ _ _ _ hwpos ?_ hhi chi
    -- (r+d)(c+1) = rc + r + d(c+1) ≤ rc + w + d·w ≤ (r' + 1)·w + w + d·w
    have e1 : (r + d) * (c + 1) = r * c + r + d * (c + 1) := by ring
    have e2 : (r * c / w + (d + 2)) * w = (r * c / w + 1) * w + w + d * w := by ring
    have h4 : d * (c + 1) ≤ d * w := Nat.mul_le_mul_left _ cle
    rw [e1, e2]; omega
  · have : r * c / w ≤ r := by
      apply Nat.div_le_of_le_mul
      rw [Nat.mul_comm w r]
      exact Nat.mul_le_mul_left _ (by omega)
    omega

theorem enc_weaken {m r d d' : Nat} (h : Enc m r d) (hd : d ≤ d') : Enc m r d' :=
  ⟨h.lo, Nat.le_trans h.hi (Nat.mul_le_mul_right _ (Nat.pow_le_pow_left (by omega) 2)), h.le⟩

/-- the exponent selected by the bits of `a` in a table -/
def expo (a : Nat) : List (Nat × Nat) → Nat
  | [] => 0
  | (mask, _) :: rest => (if a &&& mask != 0 then mask else 0) + expo a rest

theorem encFold_enc (a : Nat) : ∀ (tbl : List (Nat × Nat)) (m r d : Nat),
    (∀ e ∈ tbl, Cert e.1 e.2) → Enc m r d →
    Enc (m + expo a tbl) (encFold a tbl r) (d + 2 * tbl.length) := by
  intro tbl
  induction tbl with
  | nil => intro m r d _ h; simpa [expo, encFold] using h
  | cons e rest ih =>
    intro m r d hc h
    obtain ⟨mask, c⟩ := e
    have hc1 : Cert mask c := hc (mask, c) (by simp)
    have hc2 : ∀ e ∈ rest, Cert e.1 e.2 := fun e he => hc e (by simp [he])
    simp only [expo, encFold, List.length_cons]
    by_cases hb : (a &&& mask != 0) = true
    · simp only [hb, if_true]
      have := ih (m + mask) _ (d + 2) hc2 (enc_step h hc1)
      have e1 : m + (mask + expo a rest) = m + mask + expo a rest := by omega
      have e2 : d + 2 * (rest.length + 1) = d + 2 + 2 * rest.length := by omega
      rw [e1, e2]; exact this
    · simp only [hb]
      have := ih m r (d + 2) hc2 (enc_weaken h (by omega))
      have e2 : d + 2 * (rest.length + 1) = d + 2 + 2 * rest.length := by omega
      simp only [Bool.false_eq_true, if_false, Nat.zero_add]
      rw [e2]; exact this

/-- one selected bit, arithmetically -/
theorem bit_if (a mask i : Nat) (hm : mask = 2 ^ i) :
    (if a &&& mask != 0 then mask else 0) = (a / mask % 2) * mask := by
  subst hm
  rw [Nat.and_two_pow, Nat.toNat_testBit]
  rcases Nat.mod_two_eq_zero_or_one (a / 2 ^ i) with h | h <;> simp [h]

/-- the bits 0 … 19 of `a < 2^20` add up to `a` -/
theorem expo_total (a : Nat) (h : a < 1048576) :
    (if a &&& 1 != 0 then 1 else 0) + expo a encTable = a := by
  simp only [expo, encTable]
  rw [bit_if a 1 0 rfl, bit_if a 2 1 rfl, bit_if a 4 2 rfl, bit_if a 8 3 rfl, bit_if a 16 4 rfl,
    bit_if a 32 5 rfl, bit_if a 64 6 rfl, bit_if a 128 7 rfl, bit_if a 256 8 rfl, bit_if a 512 9 rfl,
    bit_if a 1024 10 rfl, bit_if a 2048 11 rfl, bit_if a 4096 12 rfl, bit_if a 8192 13 rfl,
    bit_if a 16384 14 rfl, bit_if a 32768 15 rfl, bit_if a 65536 16 rfl, bit_if a 131072 17 rfl,
    bit_if a 262144 18 rfl, bit_if a 524288 19 rfl]
  omega

/-- **enclosure**: given certificates for the 20 constants, `L = encLowU a` satisfies
    `L ≤ 2^192·(10000/10001)^(a/2) ≤ L + 40` (on squares), for every `a < 2^20`. -/
theorem enc_bracket_of_cert (h0 : Cert 1 encStartOdd) (ht : ∀ e ∈ encTable, Cert e.1 e.2)
    (a : Nat) (h : a < 1048576) : Enc a (encLowU a) encSlack := by
  rw [encLowU_eq]
  have hstart : Enc (if a &&& 1 != 0 then 1 else 0) (if a &&& 1 != 0 then encStartOdd else encStartEven) 1 := by
    by_cases hb : (a &&& 1 != 0) = true
    · simp only [hb, if_true]
      exact ⟨h0.1, h0.2.1, by have := h0.2.2; omega⟩
    · simp only [hb, Bool.false_eq_true, if_false]
      exact ⟨by decide +kernel, by decide +kernel, by decide +kernel⟩
  have := encFold_enc a encTable _ _ 1 ht hstart
  rw [expo_total a h] at this
  exact enc_weaken this (by simp [encTable, encSlack])

end Demeter.TickClose
