/-
  `Inv`: no holding is negative (wallet balances, vault collateral and debt, pending amounts of the pool's
  positions), and its preservation by every operation body of Demeter.Squeeth under exact arithmetic.
-/
import Proofs.C14.Window
import Proofs.Lemmas.SqueethLong
import Mathlib.Tactic.Linarith
import Mathlib.Tactic.NormNum
import Mathlib.Tactic.Ring
import Mathlib.Tactic.SplitIfs
import Mathlib.Algebra.Order.Field.Rat
namespace Demeter
namespace Squeeth
open Gen

abbrev PosOK (p : UPos) : Prop := 0 ≤ p.pending0 ∧ 0 ≤ p.pending1
abbrev VaultOK (v : Vault) : Prop := 0 ≤ v.coll ∧ 0 ≤ v.short
/-- no holding is negative: wallet balances, vault collateral and debt, pending amounts of pool positions -/
def Inv (s : State) : Prop :=
  AllVals (fun b : Rat => 0 ≤ b) s.wallet ∧ AllVals VaultOK s.vaults ∧ AllVals PosOK s.positions

theorem nat_div3_nonneg (a b c d : Nat) : (0 : Rat) ≤ ((a : Nat) : Rat) / (b : Nat) / (c : Nat) / (d : Nat) :=
  div_nonneg (div_nonneg (div_nonneg (Nat.cast_nonneg _) (Nat.cast_nonneg _)) (Nat.cast_nonneg _)) (Nat.cast_nonneg _)

theorem nat_div2_nonneg (a b c : Nat) : (0 : Rat) ≤ ((a : Nat) : Rat) / (b : Nat) / (c : Nat) :=
  div_nonneg (div_nonneg (Nat.cast_nonneg _) (Nat.cast_nonneg _)) (Nat.cast_nonneg _)

theorem getAmount0_nonneg (sa sb l d : Nat) : 0 ≤ getAmount0 NumCtx.exact sa sb l d := by
  unfold getAmount0
  generalize sortPair sa sb = q
  obtain ⟨x, y⟩ := q
  simp only [NumCtx.exact_div]
  generalize Q96 = z
  exact nat_div3_nonneg _ _ _ _

theorem getAmount1_nonneg (sa sb l d : Nat) : 0 ≤ getAmount1 NumCtx.exact sa sb l d := by
  unfold getAmount1
  generalize sortPair sa sb = q
  obtain ⟨x, y⟩ := q
  simp only [NumCtx.exact_div]
  generalize Q96 = z
  exact nat_div2_nonneg _ _ _

theorem getAmountsS_nonneg (s sa sb l d0 d1 : Nat) :
    0 ≤ (getAmountsS NumCtx.exact s sa sb l d0 d1).1 ∧ 0 ≤ (getAmountsS NumCtx.exact s sa sb l d0 d1).2 := by
  unfold getAmountsS
  generalize sortPair sa sb = q
  obtain ⟨x, y⟩ := q
  simp only []
  split_ifs
  · exact ⟨getAmount0_nonneg _ _ _ _, le_refl 0⟩
  · exact ⟨getAmount0_nonneg _ _ _ _, getAmount1_nonneg _ _ _ _⟩
  · exact ⟨le_refl 0, getAmount1_nonneg _ _ _ _⟩

theorem closePosition_nonneg (s : Nat) (ta tb : Int) (l d0 d1 : Nat) :
    0 ≤ (closePosition NumCtx.exact s ta tb l d0 d1).1 ∧ 0 ≤ (closePosition NumCtx.exact s ta tb l d0 d1).2 := by
  unfold closePosition
  split_ifs
  · exact ⟨le_refl 0, le_refl 0⟩
  · exact getAmountsS_nonneg _ _ _ _ _ _

theorem assetSub_nonneg (b amt b' : Rat) (h : assetSub NumCtx.exact b amt false = some b') (hb : 0 ≤ b) : 0 ≤ b' := by
  unfold assetSub at h
  simp only [Bool.false_eq_true, if_false, NumCtx.exact_sub, NumCtx.exact_div] at h
  have key : ∀ x : Option Rat, x = some b' → (x = some b ∨ x = some 0 ∨ x = (if b - amt < 0 then none else some (b - amt))) → 0 ≤ b' := by
    intro x hx hc
    rcases hc with h1 | h1 | h1
    · rw [h1] at hx; simp only [Option.some.injEq] at hx; rw [← hx]; exact hb
    · rw [h1] at hx; simp only [Option.some.injEq] at hx; rw [← hx]
    · rw [h1] at hx
      split_ifs at hx with h2
      simp only [Option.some.injEq] at hx; rw [← hx]; linarith
  split_ifs at h
  all_goals first
    | exact key _ h (Or.inl rfl)
    | exact key _ h (Or.inr (Or.inl rfl))
    | exact key _ h (Or.inr (Or.inr rfl))

theorem credit_nonneg (w : Wallet) (tok : String) (amt : Rat) (hw : AllVals (fun b : Rat => 0 ≤ b) w) (ha : 0 ≤ amt) :
    AllVals (fun b : Rat => 0 ≤ b) (Wallet.credit NumCtx.exact w tok amt) := by
  unfold Wallet.credit assetAdd
  cases hg : AList.get? w tok with
  | none => simp only [NumCtx.exact_add]; exact hw.set tok (by linarith)
  | some b =>
    simp only [NumCtx.exact_add]
    have : 0 ≤ b := hw.get hg
    exact hw.set tok (by linarith)

theorem debit_nonneg (w w' : Wallet) (tok : String) (amt : Rat) (h : Wallet.debit NumCtx.exact w tok amt false = .ok w')
    (hw : AllVals (fun b : Rat => 0 ≤ b) w) : AllVals (fun b : Rat => 0 ≤ b) w' := by
  unfold Wallet.debit at h
  cases hg : AList.get? w tok with
  | none => simp [hg] at h
  | some b =>
    simp only [hg] at h
    cases ha : assetSub NumCtx.exact b amt false with
    | none => simp [ha] at h
    | some b' =>
      simp only [ha, Except.ok.injEq] at h
      rw [← h]
      exact hw.set tok (assetSub_nonneg b amt b' ha (hw.get hg))

theorem Inv.creditW {s : State} (h : Inv s) (tok : String) (amt : Rat) (ha : 0 ≤ amt) : Inv (creditW NumCtx.exact s tok amt) :=
  ⟨credit_nonneg _ _ _ h.1 ha, h.2.1, h.2.2⟩

theorem Inv.debitW {s s' : State} (h : Inv s) {tok : String} {amt : Rat} (hd : debitW NumCtx.exact s tok amt = .ok s') : Inv s' := by
  unfold Squeeth.debitW at hd
  cases hw : Wallet.debit NumCtx.exact s.wallet tok amt false with
  | error er => cases er <;> simp [hw] at hd
  | ok w =>
    simp only [hw, Except.ok.injEq] at hd
    rw [← hd]
    exact ⟨debit_nonneg _ _ _ _ hw h.1, h.2.1, h.2.2⟩

theorem Inv.setVault {s : State} (h : Inv s) (k : Nat) {v : Vault} (hv : VaultOK v) : Inv (s.setVault k v) :=
  ⟨h.1, h.2.1.set k hv, h.2.2⟩

theorem Inv.setPos {s : State} (h : Inv s) (k : PosKey) {p : UPos} (hp : PosOK p) : Inv (s.setPos k p) :=
  ⟨h.1, h.2.1, h.2.2.set k hp⟩

theorem Inv.record {s : State} (h : Inv s) (a : Action) : Inv (s.record a) := h


/-! ### every operation body keeps `Inv` (exact arithmetic) -/

theorem Inv.vault {s : State} (h : Inv s) {k : Nat} {v : Vault} (hg : AList.get? s.vaults k = some v) : VaultOK v :=
  h.2.1.get hg

theorem Inv.pos {s : State} (h : Inv s) {k : PosKey} {p : UPos} (hg : AList.get? s.positions k = some p) : PosOK p :=
  h.2.2.get hg

/-- peel the state updates off an `Inv` goal, leaving the arithmetic side conditions -/
macro "inv_steps" : tactic =>
  `(tactic| repeat' (first | assumption | apply Inv.record | apply Inv.creditW | apply Inv.setVault | apply Inv.setPos))

theorem mintBody_inv (s : State) (vk : Nat) (m : Rat) (h : Inv s) : Inv (mintBody NumCtx.exact s vk m).st := by
  unfold mintBody
  by_cases hm : m > 0
  · simp only [hm, if_true]
    cases hg : AList.get? s.vaults vk with
    | none => exact h
    | some v =>
      have hv := h.vault hg
      simp only [Res.ok_st, NumCtx.exact_add]
      inv_steps
      · exact ⟨hv.1, by simp only []; linarith [hv.2]⟩
      · exact le_of_lt hm
  · simp only [hm, if_false]; exact h

theorem depositBody_inv (s : State) (vk : Nat) (eth : Rat) (h : Inv s) : Inv (depositBody NumCtx.exact s vk eth).st := by
  unfold depositBody
  by_cases he : eth < 0
  · simp only [he, if_true]; exact h
  · simp only [he, if_false]
    cases hg : AList.get? s.vaults vk with
    | none => exact h
    | some v =>
      have hv := h.vault hg
      have h1 : Inv (s.setVault vk { v with coll := v.coll + eth }) := by
        inv_steps
        exact ⟨by simp only []; linarith [hv.1, not_lt.mp he], hv.2⟩
      simp only [NumCtx.exact_add]
      cases hd : debitW NumCtx.exact (s.setVault vk { v with coll := v.coll + eth }) sqWethName eth with
      | error er => exact h1
      | ok s2 => exact (h1.debitW hd).record _

theorem depositUniBody_inv (s : State) (vk : Nat) (pos : PosKey) (h : Inv s) : Inv (depositUniBody s vk pos).st := by
  unfold depositUniBody
  cases hp : AList.get? s.positions pos with
  | none => exact h
  | some p =>
    have hpp := h.pos hp
    simp only []
    by_cases hl : p.liquidity = 0
    · simp only [hl, if_true]; exact h
    · simp only [hl, if_false]
      cases hg : AList.get? s.vaults vk with
      | none => exact h
      | some v =>
        have hv := h.vault hg
        simp only []
        by_cases hn : v.nft.isSome = true
        · simp only [hn, if_true]; exact h
        · simp only [hn, if_false]
          by_cases ht : p.transferred = true
          · simp only [ht, if_true, Res.fail_st]
            inv_steps
          · simp only [ht, if_false, Res.ok_st]
            inv_steps

theorem checked_inv (e : Env) (s : State) (vk : Nat) (o : List Rat) (h : Inv s) : Inv (checked NumCtx.exact e s vk o).st := by
  unfold checked
  cases checkVault NumCtx.exact e s vk <;> exact h

theorem andThen_inv (r : Res) (f : State → Res) (hr : Inv r.st) (hf : ∀ t, Inv t → Inv (f t).st) : Inv (r.andThen f).st := by
  unfold Res.andThen
  cases r.err with
  | some er => exact hr
  | none => exact hf _ hr

theorem withdrawCollBody_inv (e : Env) (s : State) (vk : Nat) (amount : Rat) (ha : 0 < amount) (h : Inv s) :
    Inv (withdrawCollBody NumCtx.exact e s vk amount).st := by
  unfold withdrawCollBody
  cases hg : AList.get? s.vaults vk with
  | none => exact h
  | some v =>
    have hv := h.vault hg
    simp only [NumCtx.exact_sub]
    have hamt : 0 ≤ (if amount > v.coll then v.coll else amount) ∧ (if amount > v.coll then v.coll else amount) ≤ v.coll := by
      split_ifs with hc
      · exact ⟨hv.1, le_refl _⟩
      · exact ⟨le_of_lt ha, not_lt.mp hc⟩
    apply andThen_inv
    · apply checked_inv
      inv_steps
      · exact ⟨by simp only []; linarith [hamt.2], hv.2⟩
      · exact hamt.1
    · intro t ht; exact ht.record _

theorem withdrawUniBody_inv (e : Env) (s : State) (vk : Nat) (pos : PosKey) (h : Inv s) :
    Inv (withdrawUniBody NumCtx.exact e s vk pos).st := by
  unfold withdrawUniBody
  cases hg : AList.get? s.vaults vk with
  | none => exact h
  | some v =>
    have hv := h.vault hg
    simp only []
    by_cases hn : v.nft = some pos
    · simp only [hn, ne_eq, not_true_eq_false, if_false]
      have h1 : Inv (s.setVault vk { v with nft := none }) := by
        inv_steps
      cases hp : AList.get? (s.setVault vk { v with nft := none }).positions pos with
      | none => exact h1
      | some p =>
        have hpp := h1.pos hp
        simp only []
        by_cases ht : p.transferred = true
        · simp only [ht, Bool.not_true, Bool.false_eq_true, if_false]
          apply andThen_inv
          · apply checked_inv
            inv_steps
          · intro t ht; exact ht.record _
        · simp only [ht, Bool.not_false, if_true]; exact h1
    · simp only [hn, ne_eq, not_false_eq_true, if_true]; exact h

theorem burnBody_inv (s : State) (vk : Nat) (burn : Rat) (h : Inv s) : Inv (burnBody NumCtx.exact s vk burn).st := by
  unfold burnBody
  cases hg : AList.get? s.vaults vk with
  | none => exact h
  | some v =>
    have hv := h.vault hg
    simp only [NumCtx.exact_sub]
    by_cases hb : burn > 0
    · simp only [hb, if_true]
      by_cases hs : v.short ≥ burn
      · simp only [hs, if_true]
        have h1 : Inv (s.setVault vk { v with short := v.short - burn }) := by
          inv_steps
          exact ⟨hv.1, by simp only []; linarith⟩
        cases hd : debitW NumCtx.exact (s.setVault vk { v with short := v.short - burn }) sqOsqthName burn with
        | error er => exact h1
        | ok s2 => exact (h1.debitW hd).record _
      · simp only [hs, if_false]
        have h1 : Inv (s.setVault vk { v with short := 0 }) := by
          inv_steps
          exact ⟨hv.1, le_refl 0⟩
        cases hd : debitW NumCtx.exact (s.setVault vk { v with short := 0 }) sqOsqthName v.short with
        | error er => exact h1
        | ok s2 => exact (h1.debitW hd).record _
    · simp only [hb, if_false]; exact h

theorem burnWithdrawBody_inv (e : Env) (s : State) (vk : Nat) (b w : Rat) (h : Inv s) :
    Inv (burnWithdrawBody NumCtx.exact e s vk b w).st := by
  unfold burnWithdrawBody
  apply andThen_inv _ _ (burnBody_inv s vk b h)
  intro t ht
  apply andThen_inv
  · by_cases hw : w > 0
    · simp only [hw, if_true]; exact withdrawCollBody_inv e t vk w hw ht
    · simp only [hw, if_false]; exact ht
  · intro t2 ht2; exact checked_inv e t2 vk _ ht2

theorem openVault_inv (s : State) (vk? : Option Nat) (h : Inv s) : Inv (openVault s vk?).1 := by
  unfold openVault
  cases vk? with
  | some k => exact h
  | none =>
    refine ⟨h.1, ?_, h.2.2⟩
    exact h.2.1.set _ (show VaultOK { coll := 0, short := 0, nft := none } from ⟨le_refl 0, le_refl 0⟩)

theorem openBody_inv (e : Env) (s : State) (d m : Rat) (vk? : Option Nat) (pos? : Option PosKey) (h : Inv s) :
    Inv (openBody NumCtx.exact e s d m vk? pos?).st := by
  unfold openBody
  simp only []
  apply andThen_inv _ _ (mintBody_inv _ _ m (openVault_inv s vk? h))
  intro t ht
  apply andThen_inv
  · by_cases hd : d > 0
    · simp only [hd, if_true]; exact depositBody_inv t _ d ht
    · simp only [hd, if_false]; exact ht
  · intro t2 ht2
    apply andThen_inv
    · cases pos? with
      | none => exact ht2
      | some p => exact depositUniBody_inv t2 _ p ht2
    · intro t3 ht3; exact checked_inv e t3 _ _ ht3


theorem uniRedeem_inv (e : Env) (s : State) (pos : PosKey) (toUser : Bool) (h : Inv s) :
    Inv (uniRedeem NumCtx.exact e s pos toUser).1.st ∧ 0 ≤ (uniRedeem NumCtx.exact e s pos toUser).2.1 ∧
      0 ≤ (uniRedeem NumCtx.exact e s pos toUser).2.2 := by
  unfold uniRedeem
  by_cases ho : (toUser && !e.uniOpen) = false
  · simp only [ho, Bool.false_eq_true, if_false]
    cases hp : AList.get? s.positions pos with
    | none => exact ⟨h, le_refl 0, le_refl 0⟩
    | some p =>
      have hpp := h.pos hp
      have hc := closePosition_nonneg (uniSqrtP NumCtx.exact e.uniPrice) pos.1 pos.2 p.liquidity sqWethDecimals sqOsqthDecimals
      simp only [NumCtx.exact_add, NumCtx.exact_sub, sub_self, and_self, if_true]
      generalize closePosition NumCtx.exact (uniSqrtP NumCtx.exact e.uniPrice) pos.1 pos.2 p.liquidity sqWethDecimals sqOsqthDecimals = t at hc ⊢
      have hf0 : 0 ≤ p.pending0 + t.1 := by linarith [hpp.1, hc.1]
      have hf1 : 0 ≤ p.pending1 + t.2 := by linarith [hpp.2, hc.2]
      have h1 : Inv (s.setPos pos { p with liquidity := 0, pending0 := p.pending0 + t.1, pending1 := p.pending1 + t.2 }) := by
        inv_steps
        exact ⟨hf0, hf1⟩
      cases hbo : AList.get? (s.setPos pos { p with liquidity := 0, pending0 := p.pending0 + t.1, pending1 := p.pending1 + t.2 }).wallet sqOsqthName with
      | none => exact ⟨h1, le_refl 0, le_refl 0⟩
      | some bo =>
        cases hbw : AList.get? (s.setPos pos { p with liquidity := 0, pending0 := p.pending0 + t.1, pending1 := p.pending1 + t.2 }).wallet sqWethName with
        | none => exact ⟨h1, le_refl 0, le_refl 0⟩
        | some bw =>
          simp only []
          have h3 : Inv (((s.setPos pos { p with liquidity := 0, pending0 := p.pending0 + t.1, pending1 := p.pending1 + t.2 }).record
              (.uniRemove pos t.2 t.1 p.liquidity 0 bo bw)).setPos pos
              { liquidity := 0, pending0 := 0, pending1 := 0, transferred := p.transferred }) := by
            inv_steps
            exact ⟨le_refl 0, le_refl 0⟩
          cases toUser with
          | false =>
            simp only [Bool.false_eq_true, if_false]
            -- the wallet has not changed
            have e1 : AList.get? (((s.setPos pos { p with liquidity := 0, pending0 := p.pending0 + t.1, pending1 := p.pending1 + t.2 }).record
              (.uniRemove pos t.2 t.1 p.liquidity 0 bo bw)).setPos pos
              { liquidity := 0, pending0 := 0, pending1 := 0, transferred := p.transferred }).wallet sqOsqthName = some bo := hbo
            have e2 : AList.get? (((s.setPos pos { p with liquidity := 0, pending0 := p.pending0 + t.1, pending1 := p.pending1 + t.2 }).record
              (.uniRemove pos t.2 t.1 p.liquidity 0 bo bw)).setPos pos
              { liquidity := 0, pending0 := 0, pending1 := 0, transferred := p.transferred }).wallet sqWethName = some bw := hbw
            simp only [e1, e2]
            refine ⟨?_, hf0, hf1⟩
            exact ⟨h3.1, h3.2.1, h3.2.2.erase pos⟩
          | true =>
            simp only [if_true]
            have h4 := (h3.creditW sqWethName _ hf0).creditW sqOsqthName _ hf1
            generalize creditW NumCtx.exact (creditW NumCtx.exact _ sqWethName (p.pending0 + t.1)) sqOsqthName (p.pending1 + t.2) = s4 at h4 ⊢
            cases AList.get? s4.wallet sqOsqthName with
            | none => exact ⟨h4, le_refl 0, le_refl 0⟩
            | some bo' =>
              cases AList.get? s4.wallet sqWethName with
              | none => exact ⟨h4, le_refl 0, le_refl 0⟩
              | some bw' =>
                simp only []
                refine ⟨?_, hf0, hf1⟩
                exact ⟨h4.1, h4.2.1, h4.2.2.erase pos⟩
  · have ho' : (toUser && !e.uniOpen) = true := by simpa using ho
    simp only [ho', if_true]
    exact ⟨h, le_refl 0, le_refl 0⟩


theorem ite_cap_bounds (b0 c1 : Rat) (h0 : 0 ≤ b0) (h1 : 0 ≤ c1) :
    0 ≤ (if b0 > c1 then c1 else b0) ∧ (if b0 > c1 then c1 else b0) ≤ c1 := by
  split_ifs with hc
  · exact ⟨h1, le_refl _⟩
  · exact ⟨h0, not_lt.mp hc⟩

theorem reduceDebtBody_inv (e : Env) (s : State) (vk : Nat) (pb : Bool) (hp : 0 ≤ twap e .osqth) (h : Inv s) :
    Inv (reduceDebtBody NumCtx.exact e s vk pb).1.st ∧ 0 ≤ (reduceDebtBody NumCtx.exact e s vk pb).2 := by
  unfold reduceDebtBody
  cases hg : AList.get? s.vaults vk with
  | none => exact ⟨h, le_refl 0⟩
  | some v =>
    have hv := h.vault hg
    simp only []
    cases hn : v.nft with
    | none => exact ⟨h, le_refl 0⟩
    | some pos =>
      simp only []
      cases hpos : AList.get? s.positions pos with
      | none => exact ⟨h, le_refl 0⟩
      | some p =>
        have hpp := h.pos hpos
        simp only []
        by_cases ht : p.transferred = true
        · simp only [ht, Bool.not_true, Bool.false_eq_true, if_false]
          have h0 : Inv (s.setPos pos { p with transferred := false }) := by
            inv_steps
          obtain ⟨hi, hf0, hf1⟩ := uniRedeem_inv e (s.setPos pos { p with transferred := false }) pos false h0
          generalize uniRedeem NumCtx.exact e (s.setPos pos { p with transferred := false }) pos false = u at hi hf0 hf1 ⊢
          obtain ⟨⟨er, s1, o⟩, f0, f1⟩ := u
          simp only [] at hi hf0 hf1
          cases er with
          | some er => exact ⟨hi, le_refl 0⟩
          | none =>
            dsimp only [NumCtx.add, NumCtx.sub, NumCtx.mul, NumCtx.exact, id_eq, Res.ok]
            have hc1 : 0 ≤ v.coll + f0 := by linarith [hv.1]
            have hb0 : 0 ≤ (if pb = true then (f1 * twap e .osqth + f0) * sqReduceDebtBounty else 0) := by
              split_ifs
              · rw [C14_constants.2.2.2.2.2.1]
                have : 0 ≤ f1 * twap e .osqth := mul_nonneg hf1 hp
                nlinarith
              · exact le_refl 0
            obtain ⟨hb1, hb2⟩ := ite_cap_bounds _ _ hb0 hc1
            have hburn : (if f1 > v.short then v.short else f1) ≤ v.short := by
              split_ifs with hc
              · exact le_refl _
              · exact not_lt.mp hc
            refine ⟨?_, hb1⟩
            apply Inv.record
            by_cases hy : f1 > v.short
            · have hx : (if f1 > v.short then f1 - v.short else 0) > 0 := by rw [if_pos hy]; linarith
              simp only [hx, ↓reduceIte]
              inv_steps
              · exact ⟨sub_nonneg.mpr hb2, sub_nonneg.mpr hburn⟩
              · rw [if_pos hy]; linarith
            · have hx : ¬ (if f1 > v.short then f1 - v.short else 0) > 0 := by rw [if_neg hy]; exact lt_irrefl 0
              simp only [hx, ↓reduceIte]
              inv_steps
              exact ⟨sub_nonneg.mpr hb2, sub_nonneg.mpr hburn⟩
        · simp only [ht, Bool.not_false, if_true]
          exact ⟨h, le_refl 0⟩

theorem liquidationResult_snd_le (cx : NumCtx) (e : Env) (m short coll : Rat) :
    (liquidationResult cx e m short coll).2 ≤ coll := by
  unfold liquidationResult
  simp only []
  by_cases h1 : coll ≥ (singleLiq cx e m (cx.div short sqLiqDivisor)).2 ∧
      cx.sub coll (singleLiq cx e m (cx.div short sqLiqDivisor)).2 < sqMinDeposit
  · rw [if_pos h1]
    by_cases h2 : (singleLiq cx e m short).2 > coll
    · rw [if_pos h2]
    · rw [if_neg h2]; exact not_lt.mp h2
  · rw [if_neg h1]
    by_cases h2 : (singleLiq cx e m (cx.div short sqLiqDivisor)).2 > coll
    · rw [if_pos h2]
    · rw [if_neg h2]; exact not_lt.mp h2

theorem liquidateInner_inv (e : Env) (s : State) (vk : Nat) (maxDebt : Rat)
    (hmax : ∀ v, AList.get? s.vaults vk = some v → maxDebt = v.short) (h : Inv s) :
    Inv (liquidateInner NumCtx.exact e s vk maxDebt).st := by
  unfold liquidateInner
  cases hg : AList.get? s.vaults vk with
  | none => exact h
  | some v =>
    have hv := h.vault hg
    have hm := hmax v hg
    simp only [NumCtx.exact_sub]
    generalize hr : liquidationResult NumCtx.exact e maxDebt v.short v.coll = r
    have hr2 : r.2 ≤ v.coll := by
      rw [← hr]; exact liquidationResult_snd_le _ _ _ _ _
    by_cases hlt : maxDebt < r.1
    · simp only [hlt, if_true]; exact h
    · simp only [hlt, if_false]
      have h1 : Inv (s.setVault vk { v with short := v.short - r.1, coll := v.coll - r.2 }) := by
        inv_steps
        exact ⟨by simp only []; linarith, by simp only []; linarith [not_lt.mp hlt]⟩
      cases vaultStatus NumCtx.exact e (s.setVault vk { v with short := v.short - r.1, coll := v.coll - r.2 }) vk with
      | error er => exact h1
      | ok p =>
        obtain ⟨a, dust⟩ := p
        simp only []
        cases dust with
        | true => exact h1
        | false => exact h1.record _

theorem liquidateBody_inv (e : Env) (s : State) (vk : Nat) (hp : 0 ≤ twap e .osqth) (h : Inv s) :
    Inv (liquidateBody NumCtx.exact e s vk).st := by
  unfold liquidateBody
  cases hg : AList.get? s.vaults vk with
  | none => exact h
  | some v0 =>
    simp only []
    cases vaultStatus NumCtx.exact e s vk with
    | error er => exact h
    | ok p =>
      obtain ⟨safe, d⟩ := p
      simp only []
      cases safe with
      | true => exact h
      | false =>
        simp only [Bool.false_eq_true, if_false]
        obtain ⟨hi, hb⟩ := reduceDebtBody_inv e s vk true hp h
        apply andThen_inv _ _ hi
        intro t ht
        cases vaultStatus NumCtx.exact e t vk with
        | error er => exact ht
        | ok p =>
          obtain ⟨safe1, d1⟩ := p
          simp only []
          cases safe1 with
          | true => exact ht
          | false =>
            simp only [Bool.false_eq_true, if_false]
            cases hg1 : AList.get? t.vaults vk with
            | none => exact ht
            | some v =>
              have hv := ht.vault hg1
              simp only [NumCtx.exact_add]
              apply liquidateInner_inv
              · intro v' hv'
                unfold State.setVault at hv'
                simp only [get?_set_self, Option.some.injEq] at hv'
                rw [← hv']
              · inv_steps
                exact ⟨by simp only []; linarith [hv.1], hv.2⟩

theorem atomic_inv (s : State) (r : Res) (h : Inv s) (hr : Inv r.st) : Inv (atomic s r).st := by
  unfold atomic
  cases r.err with
  | some er => exact h
  | none => exact hr

theorem updateGo_inv (e : Env) (hp : 0 ≤ twap e .osqth) (ks : List Nat) (s : State) (h : Inv s) :
    Inv (updateGo (liquidateOp NumCtx.exact e) NumCtx.exact e ks s).st := by
  induction ks generalizing s with
  | nil => exact h
  | cons k rest ih =>
    rw [updateGo]
    cases vaultStatus NumCtx.exact e s k with
    | error er => exact h
    | ok p =>
      obtain ⟨safe, d⟩ := p
      simp only []
      cases safe with
      | true => simp only [if_true]; exact ih s h
      | false =>
        simp only [Bool.false_eq_true, if_false]
        apply andThen_inv
        · unfold liquidateOp; exact atomic_inv _ _ h (liquidateBody_inv e s k hp h)
        · intro t ht; exact ih t ht

/-- what the long side asks of the pool's data: a non-negative price and a fee rate of at most 100 % -/
def PoolOk (e : Env) : Prop := 0 ≤ e.uniPrice ∧ e.uniFee ≤ 1

theorem inv_of_wallet {s s' : State} (h : Inv s) (hf : s'.vaults = s.vaults ∧ s'.positions = s.positions ∧ s'.maxId = s.maxId)
    (hw : AllVals (fun b : Rat => 0 ≤ b) s'.wallet) : Inv s' := by
  refine ⟨hw, ?_, ?_⟩
  · rw [hf.1]; exact h.2.1
  · rw [hf.2.1]; exact h.2.2

theorem buySqueethOp_inv (e : Env) (s : State) (o q : Option Rat) (hpool : PoolOk e) (h : Inv s) :
    Inv (buySqueethOp NumCtx.exact e s o q).st := by
  cases herr : (buySqueethOp NumCtx.exact e s o q).err with
  | some er => rw [buy_rejected _ e s o q (by rw [herr]; simp)]; exact h
  | none =>
    obtain ⟨a, _, h0 | ⟨ha, hp, hf, hc, w1, _, _, hd, hw, _, _⟩⟩ := buy_ok_exact e s o q herr
    · rw [h0.2]; exact h
    · apply inv_of_wallet h (buy_frame _ e s o q)
      rw [hw]
      apply credit_nonneg _ _ _ (debit_nonneg _ _ _ _ hd h.1)
      have h1 : 0 ≤ 1 - e.uniFee := by linarith [hpool.2]
      have h2 : 0 ≤ 1 / e.uniPrice := by apply div_nonneg <;> linarith [hpool.1]
      have e1 : buyCost e a - buyCost e a * e.uniFee = buyCost e a * (1 - e.uniFee) := by ring
      rw [e1]
      exact mul_nonneg (mul_nonneg hc h1) h2

theorem sellSqueethOp_inv (e : Env) (s : State) (o q : Option Rat) (hpool : PoolOk e) (h : Inv s) :
    Inv (sellSqueethOp NumCtx.exact e s o q).st := by
  cases herr : (sellSqueethOp NumCtx.exact e s o q).err with
  | some er => rw [sell_rejected _ e s o q (by rw [herr]; simp)]; exact h
  | none =>
    obtain ⟨a, _, h0 | ⟨ha, ha0, w1, _, _, hd, hw, _, _⟩⟩ := sell_ok_exact e s o q herr
    · rw [h0.2]; exact h
    · apply inv_of_wallet h (sell_frame _ e s o q)
      rw [hw]
      apply credit_nonneg _ _ _ (debit_nonneg _ _ _ _ hd h.1)
      have h1 : 0 ≤ 1 - e.uniFee := by linarith [hpool.2]
      have e1 : a - a * e.uniFee = a * (1 - e.uniFee) := by ring
      rw [e1]
      exact mul_nonneg (mul_nonneg ha0 h1) hpool.1

theorem stepBody_inv (e : Env) (s : State) (op : Op) (hp : 0 ≤ twap e .osqth) (hq : op.isTrade = true → PoolOk e) (h : Inv s) :
    Inv (stepBody NumCtx.exact e s op).st := by
  cases op with
  | openMint d m vk pos => exact openBody_inv e s d m vk pos h
  | deposit vk eth => exact depositBody_inv s vk eth h
  | depositUni vk pos => exact depositUniBody_inv s vk pos h
  | withdrawUni vk pos => exact withdrawUniBody_inv e s vk pos h
  | burnWithdraw vk b w => exact burnWithdrawBody_inv e s vk b w h
  | liquidate vk => exact liquidateBody_inv e s vk hp h
  | update => exact updateGo_inv e hp _ s h
  | reduceDebt vk pb => exact (reduceDebtBody_inv e s vk pb hp h).1
  | uniRemove pos =>
    simp only [stepBody, uniRemoveOp]
    cases AList.get? s.positions pos with
    | none => exact (uniRedeem_inv e s pos true h).1
    | some p =>
      simp only []
      by_cases ht : p.transferred = true
      · simp only [ht, if_true]; exact h
      · simp only [ht, if_false]; exact (uniRedeem_inv e s pos true h).1
  | buy o q => exact buySqueethOp_inv e s o q (hq rfl) h
  | sell o q => exact sellSqueethOp_inv e s o q (hq rfl) h

end Squeeth
end Demeter
