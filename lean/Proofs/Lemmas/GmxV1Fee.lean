/-
  Real-vs-integer lemmas behind C17's "fee = the Vault's rule within one basis point": the code computes the target,
  the average distance and the rebate as fractions, the contract rounds each of them down.
-/
import Proofs.Lemmas.GmxV1Spec
import Mathlib.Algebra.Order.Floor.Ring
namespace Demeter.Gmx
open Demeter Demeter.GmxV1

/-- rebate branch: real-valued rebate with fractional target vs floored rebate with floored target -/
theorem fee_rebate_close {t v D Dv rv : Rat} (hv : 200 ≤ v) (hvt : v ≤ t) (htv : t < v + 1) (hD : 0 ≤ D) (hDv : 0 ≤ Dv)
    (hd : |D - Dv| ≤ t - v) (hr0 : rv ≤ 60 * Dv / v) (hr1 : 60 * Dv / v < rv + 1) :
    |(if 60 * D / t > 25 then (0 : Rat) else 25 - 60 * D / t) - (if rv > 25 then (0 : Rat) else 25 - rv)| ≤ 1 + 200 / t := by
  have hv0 : 0 < v := by linarith
  have ht0 : 0 < t := by linarith
  have hδ0 : 0 ≤ t - v := by linarith
  have hδ1 : t - v < 1 := by linarith
  set q := 60 * Dv / v with hq
  set r := 60 * D / t with hr
  have hq0 : 0 ≤ q := by positivity
  -- |r - q| ≤ (60 + q) / t
  have hrq : |r - q| ≤ (60 + q) / t := by
    have e : r - q = 60 * ((D - Dv) * v - Dv * (t - v)) / (t * v) := by
      rw [hr, hq]; field_simp; ring
    rw [e, abs_div, abs_of_pos (by positivity : 0 < t * v), div_le_div_iff₀ (by positivity) ht0]
    have h1 : |(D - Dv) * v - Dv * (t - v)| ≤ (t - v) * v + Dv * (t - v) := by
      calc |(D - Dv) * v - Dv * (t - v)| ≤ |(D - Dv) * v| + |Dv * (t - v)| := abs_sub _ _
        _ = |D - Dv| * v + Dv * (t - v) := by
            rw [abs_mul, abs_mul, abs_of_pos hv0, abs_of_nonneg hDv, abs_of_nonneg hδ0]
        _ ≤ (t - v) * v + Dv * (t - v) := by nlinarith
    have h2 : (t - v) * v + Dv * (t - v) ≤ v + Dv := by nlinarith
    have hqv : q * v = 60 * Dv := by rw [hq]; field_simp
    rw [abs_mul, abs_of_pos (by norm_num : (0:Rat) < 60)]
    nlinarith
  have h200 : (60 + q) / t ≤ 200 / t ∨ 26 ≤ q := by
    by_cases hq26 : q < 26
    · left; apply div_le_div_of_nonneg_right _ (le_of_lt ht0); linarith
    · right; linarith
  have habs := abs_le.mp hrq
  have h200t : 0 ≤ 200 / t := by positivity
  by_cases hrv : rv > 25
  · -- vault fee 0; q ≥ rv > 25. show r > 25 too unless small
    rw [if_pos hrv]
    by_cases hr25 : r > 25
    · rw [if_pos hr25]; simp; exact by linarith
    · rw [if_neg hr25]
      -- 25 - r ≤ q - r ≤ (60+q)/t ... need bound in terms of 1 + 200/t
      have hq25 : 25 < q := by linarith
      rw [sub_zero, abs_of_nonneg (by linarith)]
      -- r ≥ q - (60+q)/t
      have : (60 + q) / t ≤ (60 + q) / 200 := by
        apply div_le_div_of_nonneg_left (by linarith) (by norm_num) (by linarith)
      -- 25 - r ≤ 25 - q + (60+q)/t ≤ 25 - q + (60+q)/200; with q > 25: = 25.3 - 0.995 q < 25.3 - 24.875 < 1
      nlinarith [habs.1]
  · rw [if_neg hrv]
    have hrv' : rv ≤ 25 := not_lt.mp hrv
    have hq26 : q < 26 := by linarith
    have hb : (60 + q) / t ≤ 200 / t := by
      apply div_le_div_of_nonneg_right _ (le_of_lt ht0); linarith
    by_cases hr25 : r > 25
    · rw [if_pos hr25]
      rw [zero_sub, abs_neg, abs_of_nonneg (by linarith)]
      linarith [habs.2]
    · rw [if_neg hr25]
      have : 25 - r - (25 - rv) = rv - r := by ring
      rw [this, abs_le]
      constructor <;> linarith [habs.1, habs.2]
theorem floor_close {x y : Rat} (h : |x - y| < 1) : |((⌊x⌋ : Int) : Rat) - ((⌊y⌋ : Int) : Rat)| ≤ 1 := by
  have ha := abs_lt.mp h
  have h1 : ⌊x⌋ ≤ ⌊y⌋ + 1 := by
    have : x ≤ y + 1 := by linarith
    have := Int.floor_mono this
    rwa [Int.floor_add_one] at this
  have h2 : ⌊y⌋ ≤ ⌊x⌋ + 1 := by
    have : y ≤ x + 1 := by linarith
    have := Int.floor_mono this
    rwa [Int.floor_add_one] at this
  rw [abs_le]
  constructor
  · have : ((⌊y⌋ : Int) : Rat) ≤ ((⌊x⌋ + 1 : Int) : Rat) := by exact_mod_cast h2
    push_cast at this; linarith
  · have : ((⌊x⌋ : Int) : Rat) ≤ ((⌊y⌋ + 1 : Int) : Rat) := by exact_mod_cast h1
    push_cast at this; linarith

/-- tax branch: capped average distance over target, fractional vs floored -/
theorem fee_tax_close {t v m avgv : Rat} (hv : 200 ≤ v) (hvt : v ≤ t) (htv : t < v + 1)
    (hm0 : 0 ≤ m) (ha0 : 0 ≤ avgv) (hma : |m - avgv| ≤ 2) :
    |60 * (if m > t then t else m) / t - 60 * (if avgv > v then v else avgv) / v| < 1 := by
  have hv0 : 0 < v := by linarith
  have ht0 : 0 < t := by linarith
  set a := (if m > t then t else m) with ha
  set av := (if avgv > v then v else avgv) with hav
  have hav_le : av ≤ v := by rw [hav]; split <;> linarith
  have hav0 : 0 ≤ av := by rw [hav]; split <;> linarith
  have hdiff : |a - av| ≤ 2 := by
    have := abs_le.mp hma
    rw [ha, hav, abs_le]
    split <;> split <;> constructor <;> linarith
  have e : 60 * a / t - 60 * av / v = 60 * ((a - av) * v - av * (t - v)) / (t * v) := by
    field_simp; ring
  rw [e, abs_div, abs_of_pos (by positivity : 0 < t * v), div_lt_one (by positivity)]
  have e1 : |(a - av) * v| = |a - av| * v := by rw [abs_mul, abs_of_pos hv0]
  have e2 : |av * (t - v)| = av * (t - v) := abs_of_nonneg (mul_nonneg hav0 (by linarith))
  have h1 : |(a - av) * v - av * (t - v)| ≤ 2 * v + v * 1 := by
    calc |(a - av) * v - av * (t - v)| ≤ |(a - av) * v| + |av * (t - v)| := abs_sub _ _
      _ = |a - av| * v + av * (t - v) := by rw [e1, e2]
      _ ≤ 2 * v + v * 1 := by nlinarith
  rw [abs_mul, abs_of_pos (by norm_num : (0:Rat) < 60)]
  nlinarith
theorem natdiv_bounds (a b : Nat) (hb : 0 < b) :
    ((a / b : Nat) : Rat) ≤ (a : Rat) / b ∧ (a : Rat) / b < ((a / b : Nat) : Rat) + 1 := by
  have hbq : (0 : Rat) < b := by exact_mod_cast hb
  constructor
  · rw [le_div_iff₀ hbq]
    exact_mod_cast Nat.div_mul_le_self a b
  · rw [div_lt_iff₀ hbq]
    have : a < (a / b + 1) * b := by
      have := Nat.lt_succ_iff.mpr (le_refl (a / b))
      exact (Nat.div_lt_iff_lt_mul hb).mp this
    exact_mod_cast this

theorem natdiv_cast_floor (a b : Nat) (hb : 0 < b) : ((a / b : Nat) : Rat) = ((⌊(a : Rat) / b⌋ : Int) : Rat) := by
  obtain ⟨h1, h2⟩ := natdiv_bounds a b hb
  have : ⌊(a : Rat) / b⌋ = ((a / b : Nat) : Int) := by
    rw [Int.floor_eq_iff]; push_cast; exact ⟨h1, h2⟩
  rw [this]; push_cast; rfl

/-- `a - b if a > b else b - a` on naturals -/
def natAbsDiff (a b : Nat) : Nat := if a > b then a - b else b - a

theorem natAbsDiff_cast (a b : Nat) : ((natAbsDiff a b : Nat) : Rat) = |(a : Rat) - b| := by
  unfold natAbsDiff
  split
  · rename_i h
    rw [Nat.cast_sub (le_of_lt h), abs_of_pos]
    have : (b : Rat) < a := by exact_mod_cast h
    linarith
  · rename_i h
    have h' : a ≤ b := not_lt.mp h
    rw [Nat.cast_sub h', abs_of_nonpos]
    · ring
    · have : (a : Rat) ≤ b := by exact_mod_cast h'
      linarith

/-- `next_amount` on naturals -/
def natNext (i u : Nat) (inc : Bool) : Nat := if inc then i + u else if u > i then 0 else i - u

theorem nextAmount_cast (i u : Nat) (inc : Bool) : nextAmount NumCtx.exact i u inc = ((natNext i u inc : Nat) : Rat) := by
  unfold nextAmount natNext
  cases inc with
  | true => simp
  | false =>
    simp only [Bool.false_eq_true, if_false, NumCtx.exact_sub]
    by_cases h : u > i
    · have : (u : Rat) > i := by exact_mod_cast h
      simp [h, this]
    · have h' : u ≤ i := not_lt.mp h
      have : ¬ ((u : Rat) > i) := by
        have : (u : Rat) ≤ i := by exact_mod_cast h'
        linarith
      simp [h, this, Nat.cast_sub h']

/-- the rebate/tax branch decision agrees between a target `t` and its floor `v` unless `n + i − 2v ∈ {0, 1}` -/
theorem branch_agree {n i t v : Rat} (hvt : v ≤ t) (htv : t < v + 1) (hk : n + i - 2 * v ≤ -1 ∨ 2 ≤ n + i - 2 * v) :
    (|n - t| < |i - t|) ↔ (|n - v| < |i - v|) := by
  rw [← sq_lt_sq, ← sq_lt_sq]
  have e1 : (n - t) ^ 2 < (i - t) ^ 2 ↔ (n - i) * (n + i - 2 * t) < 0 := by
    constructor <;> intro h <;> nlinarith
  have e2 : (n - v) ^ 2 < (i - v) ^ 2 ↔ (n - i) * (n + i - 2 * v) < 0 := by
    constructor <;> intro h <;> nlinarith
  rw [e1, e2]
  rcases hk with hk | hk
  · -- both second factors negative
    have h1 : n + i - 2 * t < 0 := by linarith
    have h2 : n + i - 2 * v < 0 := by linarith
    rw [mul_neg_iff, mul_neg_iff]
    constructor <;> rintro (⟨ha, hb⟩ | ⟨ha, hb⟩) <;> first | (left; exact ⟨ha, by linarith⟩) | (right; exact ⟨ha, by linarith⟩) | (exfalso; linarith)
  · have h1 : 0 < n + i - 2 * t := by linarith
    have h2 : 0 < n + i - 2 * v := by linarith
    rw [mul_neg_iff, mul_neg_iff]
    constructor <;> rintro (⟨ha, hb⟩ | ⟨ha, hb⟩) <;> first | (left; exact ⟨ha, by linarith⟩) | (right; exact ⟨ha, by linarith⟩) | (exfalso; linarith)
end Demeter.Gmx
