import Proofs.Lemmas.CoreActuator6
namespace Demeter.Core

/-- the `is_open` flags are the ones the first refresh of the bar at `ts` computed -/
def OpenInv (cfg : Cfg) (ts : Int) (ms : List MSt) : Prop :=
  ms.map (·.isOpen) = cfg.markets.map (fun mc => marketOpen cfg mc ts)

/-- what an event says about `is_open`, checked against the market's own time index -/
def OpGate (cfg : Cfg) (ts : Int) : Ev → Prop
  | .opOk _ _ m _ => ∃ mc, cfg.markets[m]? = some mc ∧ marketOpen cfg mc ts = true
  | .opRej _ _ m _ closed => ∃ mc, cfg.markets[m]? = some mc ∧ marketOpen cfg mc ts = !closed
  | .openCb _ m => ∃ mc, cfg.markets[m]? = some mc ∧ mc.openCb = true ∧ marketOpen cfg mc ts = true
  | .set _ m _ o _ => ∃ mc, cfg.markets[m]? = some mc ∧ o = marketOpen cfg mc ts
  | _ => True          -- in particular operations that are not `write_func`s are not gated

theorem gate_nil {P : Ev → Prop} : ∀ e ∈ ([] : List Ev), P e := fun _ he => nomatch he

theorem openInv_lookup {cfg : Cfg} {ts : Int} {ms : List MSt} (h : OpenInv cfg ts ms) {m : Nat} {s : MSt} (hs : ms[m]? = some s) :
    ∃ mc, cfg.markets[m]? = some mc ∧ marketOpen cfg mc ts = s.isOpen := by
  have h1 : (ms.map (·.isOpen))[m]? = some s.isOpen := by rw [List.getElem?_map, hs]; rfl
  rw [h, List.getElem?_map] at h1
  cases hm : cfg.markets[m]? with
  | none => rw [hm] at h1; cases h1
  | some mc => rw [hm] at h1; exact ⟨mc, rfl, by simpa using h1⟩

theorem map_isOpen_set (ms : List MSt) (m : Nat) (s : MSt) (hs : ms[m]? = some s) :
    (ms.set m { s with hasUpdate := true }).map (·.isOpen) = ms.map (·.isOpen) := by
  apply List.ext_getElem?
  intro i
  simp only [List.getElem?_map, List.getElem?_set]
  by_cases hi : m = i
  · subst hi
    simp only [if_true]
    split
    · rw [hs]; rfl
    · rename_i hlt
      have : ms[m]? = none := List.getElem?_eq_none (by omega)
      rw [this] at hs; cases hs
  · simp [hi]

theorem doOp_gate (cfg : Cfg) (ts : Int) (h : Hook) (op : OpSpec) (st : St) (hinv : OpenInv cfg ts st.ms) :
    (∀ e ∈ (doOp ts h op st).1, OpGate cfg ts e) ∧ OpenInv cfg ts (doOp ts h op st).2.ms := by
  unfold doOp
  cases hs : st.ms[op.m]? with
  | none => exact ⟨gate_nil, hinv⟩
  | some s =>
    obtain ⟨mc, hmc, hopen⟩ := openInv_lookup hinv hs
    simp only []
    split
    · split
      · exact ⟨fun e he => by rw [List.mem_singleton.mp he]; trivial, hinv⟩
      · exact ⟨fun e he => by rw [List.mem_singleton.mp he]; trivial, hinv⟩
    · split
      · rename_i hc
        have ho : s.isOpen = false := by simpa using hc
        refine ⟨?_, hinv⟩
        intro e he
        rw [List.mem_singleton.mp he]
        exact ⟨mc, hmc, by rw [hopen, ho]; rfl⟩
      · rename_i hc
        have ho : s.isOpen = true := by simpa using hc
        split
        · refine ⟨?_, hinv⟩
          intro e he
          rw [List.mem_singleton.mp he]
          exact ⟨mc, hmc, by rw [hopen, ho]; rfl⟩
        · refine ⟨?_, ?_⟩
          · intro e he
            rw [List.mem_singleton.mp he]
            exact ⟨mc, hmc, by rw [hopen, ho]⟩
          · show OpenInv cfg ts (st.ms.set op.m { s with hasUpdate := true })
            unfold OpenInv
            rw [map_isOpen_set st.ms op.m s hs]
            exact hinv

theorem runOps_gate (cfg : Cfg) (ts : Int) (h : Hook) : ∀ (ops : List OpSpec) (st : St), OpenInv cfg ts st.ms →
    (∀ e ∈ (runOps ts h ops st).1, OpGate cfg ts e) ∧ OpenInv cfg ts (runOps ts h ops st).2.ms
  | [], st, hinv => ⟨gate_nil, hinv⟩
  | op :: ops, st, hinv => by
    obtain ⟨a1, a2⟩ := doOp_gate cfg ts h op st hinv
    obtain ⟨b1, b2⟩ := runOps_gate cfg ts h ops _ a2
    refine ⟨?_, b2⟩
    intro e he
    rcases List.mem_append.mp he with h' | h'
    · exact a1 e h'
    · exact b1 e h'

theorem runFires_gate (cfg : Cfg) (sc : Script) (ts : Int) (row : Nat) : ∀ (fs : List Fire) (st : St), OpenInv cfg ts st.ms →
    (∀ e ∈ (runFires sc ts row fs st).1, OpGate cfg ts e) ∧ OpenInv cfg ts (runFires sc ts row fs st).2.ms
  | [], st, hinv => ⟨gate_nil, hinv⟩
  | f :: fs, st, hinv => by
    obtain ⟨a1, a2⟩ := runOps_gate cfg ts (.fire f.id) (sc.fire row f.id) st hinv
    obtain ⟨b1, b2⟩ := runFires_gate cfg sc ts row fs _ a2
    refine ⟨?_, b2⟩
    intro e he
    simp only [runFires, List.mem_cons, List.mem_append] at he
    rcases he with (rfl | h') | h'
    · trivial
    · exact a1 e h'
    · exact b1 e h'

theorem drop_cons_info {α : Type} {l : List α} {i : Nat} {a : α} {r : List α} (h : l.drop i = a :: r) :
    l[i]? = some a ∧ l.drop (i + 1) = r := by
  constructor
  · have := @List.getElem?_drop _ l i 0
    rw [h] at this
    simpa using this.symm
  · have : l.drop (i + 1) = (l.drop i).drop 1 := by rw [List.drop_drop]
    rw [this, h]; rfl

theorem openAt_of_inv {cfg : Cfg} {ts : Int} {st : St} (h : OpenInv cfg ts st.ms) {i : Nat} {mc : MarketCfg}
    (hmc : cfg.markets[i]? = some mc) : st.openAt i = marketOpen cfg mc ts := by
  unfold St.openAt
  have hlen : st.ms.length = cfg.markets.length := by
    have := congrArg List.length h; simpa using this
  cases hs : st.ms[i]? with
  | none =>
    have : i < cfg.markets.length := by
      by_contra hc
      have : cfg.markets[i]? = none := List.getElem?_eq_none (by omega)
      rw [this] at hmc; cases hmc
    have : st.ms[i]? ≠ none := by
      intro hn
      have := List.getElem?_eq_none_iff.mp hn
      omega
    exact absurd hs this
  | some s =>
    obtain ⟨mc', h1, h2⟩ := openInv_lookup h hs
    rw [hmc] at h1
    cases h1
    exact h2.symm

theorem runOpenFrom_gate (cfg : Cfg) (sc : Script) (ts : Int) (row : Nat) : ∀ (i : Nat) (ms : List MarketCfg) (st : St),
    cfg.markets.drop i = ms → OpenInv cfg ts st.ms →
    (∀ e ∈ (runOpenFrom sc ts row i ms st).1, OpGate cfg ts e) ∧ OpenInv cfg ts (runOpenFrom sc ts row i ms st).2.ms
  | _, [], st, _, hinv => ⟨gate_nil, hinv⟩
  | i, mc :: rest, st, hd, hinv => by
    obtain ⟨hmc, hd'⟩ := drop_cons_info hd
    by_cases hc : (mc.openCb && st.openAt i) = true
    · simp only [runOpenFrom, hc, if_true]
      obtain ⟨a1, a2⟩ := runOps_gate cfg ts (.openCb i) (sc.openCb row i) st hinv
      obtain ⟨b1, b2⟩ := runOpenFrom_gate cfg sc ts row (i + 1) rest _ hd' a2
      refine ⟨?_, b2⟩
      intro e he
      simp only [List.mem_cons, List.mem_append] at he
      rcases he with (rfl | h') | h'
      · simp only [Bool.and_eq_true] at hc
        exact ⟨mc, hmc, hc.1, by rw [← openAt_of_inv hinv hmc]; exact hc.2⟩
      · exact a1 e h'
      · exact b1 e h'
    · simp only [runOpenFrom, hc]
      exact runOpenFrom_gate cfg sc ts row (i + 1) rest st hd' hinv

theorem setAllFrom_gate (cfg : Cfg) (ts : Int) (stage : Nat) : ∀ (i : Nat) (ms : List MarketCfg), cfg.markets.drop i = ms →
    (∀ e ∈ (setAllFrom cfg ts stage i ms).1, OpGate cfg ts e) ∧
    (setAllFrom cfg ts stage i ms).2.map (·.isOpen) = ms.map (fun mc => marketOpen cfg mc ts)
  | _, [], _ => ⟨gate_nil, rfl⟩
  | i, mc :: rest, hd => by
    obtain ⟨hmc, hd'⟩ := drop_cons_info hd
    obtain ⟨b1, b2⟩ := setAllFrom_gate cfg ts stage (i + 1) rest hd'
    refine ⟨?_, ?_⟩
    · intro e he
      simp only [setAllFrom, List.mem_cons] at he
      rcases he with rfl | h'
      · exact ⟨mc, hmc, rfl⟩
      · exact b1 e h'
    · simp only [setAllFrom, List.map_cons, b2]

theorem setUpdatedFrom_gate (cfg : Cfg) (ts : Int) : ∀ (i : Nat) (ms : List MarketCfg) (ss : List MSt), cfg.markets.drop i = ms →
    ss.map (·.isOpen) = ms.map (fun mc => marketOpen cfg mc ts) →
    (∀ e ∈ (setUpdatedFrom cfg ts i ms ss).1, OpGate cfg ts e) ∧
    (setUpdatedFrom cfg ts i ms ss).2.map (·.isOpen) = ms.map (fun mc => marketOpen cfg mc ts)
  | _, [], ss, _, hs => by unfold setUpdatedFrom; exact ⟨gate_nil, hs⟩
  | _, _ :: _, [], _, hs => by unfold setUpdatedFrom; exact ⟨gate_nil, hs⟩
  | i, mc :: rest, s :: ss, hd, hs => by
    obtain ⟨hmc, hd'⟩ := drop_cons_info hd
    simp only [List.map_cons, List.cons.injEq] at hs
    obtain ⟨b1, b2⟩ := setUpdatedFrom_gate cfg ts (i + 1) rest ss hd' hs.2
    unfold setUpdatedFrom
    split
    · refine ⟨?_, ?_⟩
      · intro e he
        simp only [List.mem_cons] at he
        rcases he with rfl | h'
        · exact ⟨mc, hmc, rfl⟩
        · exact b1 e h'
      · simp only [List.map_cons, b2]
    · exact ⟨b1, by simp only [List.map_cons, b2, hs.1]⟩

end Demeter.Core
