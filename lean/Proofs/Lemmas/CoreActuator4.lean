import Proofs.Lemmas.CoreActuator3
namespace Demeter.Core

/-! ### projections that see one stretch of a bar only -/

def updateOf : Ev → Option (Int × Nat) | .update ts m => some (ts, m) | _ => none
def set1Of : Ev → Option (Int × Nat) | .set ts m 1 _ _ => some (ts, m) | _ => none
def set2Of : Ev → Option (Int × Nat) | .set ts m 2 _ _ => some (ts, m) | _ => none
def fireOfEv : Ev → Option Fire | .fire ts id kw => some ⟨ts, id, kw⟩ | _ => none

theorem updateOf_phase (e : Ev) (h : (updateOf e).isSome) : e.phase = 11 := by
  cases e <;> simp [updateOf] at h
  rfl
theorem set1Of_phase (e : Ev) (h : (set1Of e).isSome) : e.phase = 3 := by
  cases e with
  | set ts m stage o src =>
    by_cases h1 : stage = 1
    · subst h1; rfl
    · unfold set1Of at h; split at h <;> simp_all
  | _ => simp [set1Of] at h
theorem set2Of_phase (e : Ev) (h : (set2Of e).isSome) : e.phase = 10 := by
  cases e with
  | set ts m stage o src =>
    by_cases h1 : stage = 2
    · subst h1; rfl
    · unfold set2Of at h; split at h <;> simp_all
  | _ => simp [set2Of] at h
theorem fireOfEv_phase (e : Ev) (h : (fireOfEv e).isSome) : e.phase = 6 := by
  cases e <;> simp [fireOfEv] at h
  rfl

/-- the stretch of a bar's trace whose events have phase `c` (for the phases that are stretches) -/
def segOf (c : Nat) (p : BarParts) : List Ev :=
  if c = 3 then p.s1.1 else if c = 5 then p.b.1 else if c = 6 then p.f.1 else if c = 7 then p.o.1 else if c = 9 then p.n.1
  else if c = 10 then p.s2.1 else if c = 11 then p.u.1 else if c = 13 then p.a.1 else []

/-- a projection of phase `c ∈ {3, 5, 6, 7, 9, 10, 11, 13}` sees, in a bar, only the stretch of that phase -/
theorem barTrace_fm_seg {α : Type} (P : Ev → Option α) (c : Nat) (hP : ∀ e, (P e).isSome → e.phase = c)
    (hc : c = 3 ∨ c = 5 ∨ c = 6 ∨ c = 7 ∨ c = 9 ∨ c = 10 ∨ c = 11 ∨ c = 13)
    (cfg : Cfg) (sc : Script) (row : Nat) (ts : Int) (st : St) (price : Option Int) :
    ((barParts cfg sc row ts st price).trace row ts).filterMap P = (segOf c (barParts cfg sc row ts st price)).filterMap P := by
  have none_of : ∀ e : Ev, e.phase ≠ c → P e = none := by
    intro e he
    cases hq : P e with
    | none => rfl
    | some x => exact absurd (hP e (by rw [hq]; rfl)) he
  have seg : ∀ {l : List Ev} {c' : Nat}, AllAt ts c' l → c ≠ c' → l.filterMap P = [] :=
    fun hl hne => fm_nil_of_allAt hP hl (fun h => hne h.symm)
  generalize hp : barParts cfg sc row ts st price = p
  have k_s1 : c ≠ 3 → p.s1.1.filterMap P = [] := by rw [← hp]; exact seg (setAllFrom_at cfg ts 1 0 cfg.markets)
  have k_b : c ≠ 5 → p.b.1.filterMap P = [] := by rw [← hp]; exact seg (runOps_at ts .before _ _)
  have k_f : c ≠ 6 → p.f.1.filterMap P = [] := by rw [← hp]; exact seg (runFires_at sc ts row _ _)
  have k_o : c ≠ 7 → p.o.1.filterMap P = [] := by rw [← hp]; exact seg (runOpenFrom_at sc ts row 0 _ _)
  have k_n : c ≠ 9 → p.n.1.filterMap P = [] := by rw [← hp]; exact seg (runOps_at ts .on _ _)
  have k_s2 : c ≠ 10 → p.s2.1.filterMap P = [] := by rw [← hp]; exact seg (setUpdatedFrom_at cfg ts 0 _ _)
  have k_u : c ≠ 11 → p.u.1.filterMap P = [] := by rw [← hp]; exact seg (runUpdFrom_at sc ts row 0 _ _)
  have k_a : c ≠ 13 → p.a.1.filterMap P = [] := by rw [← hp]; exact seg (runOps_at ts .after _ _)
  have k9 : p.nt.1.filterMap P = [] := by
    rw [← hp]; exact fm_nil_of_allAt hP (runNotify_at sc ts row _ _ _) (by omega)
  have e1 : P (Ev.before ts row p.price) = none := none_of _ (by simp [Ev.phase]; omega)
  have e2 : P (Ev.on ts row p.price) = none := none_of _ (by simp [Ev.phase]; omega)
  have e3 : P (Ev.after ts row p.price) = none := none_of _ (by simp [Ev.phase]; omega)
  have e4 : P (Ev.row ts p.price) = none := none_of _ (by simp [Ev.phase]; omega)
  rcases hc with hc3 | hc5 | hc6 | hc7 | hc9 | hc10 | hc11 | hc13
  · subst hc3
    simp only [BarParts.trace, List.filterMap_append, List.filterMap_cons, e1, e2, e3, e4, k9, List.append_nil,
      k_b (by omega), k_f (by omega), k_o (by omega), k_n (by omega), k_s2 (by omega), k_u (by omega), k_a (by omega), segOf]
    simp
  · subst hc5
    simp only [BarParts.trace, List.filterMap_append, List.filterMap_cons, e1, e2, e3, e4, k9, List.append_nil,
      k_s1 (by omega), k_f (by omega), k_o (by omega), k_n (by omega), k_s2 (by omega), k_u (by omega), k_a (by omega), segOf]
    simp
  · subst hc6
    simp only [BarParts.trace, List.filterMap_append, List.filterMap_cons, e1, e2, e3, e4, k9, List.append_nil,
      k_s1 (by omega), k_b (by omega), k_o (by omega), k_n (by omega), k_s2 (by omega), k_u (by omega), k_a (by omega), segOf]
    simp
  · subst hc7
    simp only [BarParts.trace, List.filterMap_append, List.filterMap_cons, e1, e2, e3, e4, k9, List.append_nil,
      k_s1 (by omega), k_b (by omega), k_f (by omega), k_n (by omega), k_s2 (by omega), k_u (by omega), k_a (by omega), segOf]
    simp
  · subst hc9
    simp only [BarParts.trace, List.filterMap_append, List.filterMap_cons, e1, e2, e3, e4, k9, List.append_nil,
      k_s1 (by omega), k_b (by omega), k_f (by omega), k_o (by omega), k_s2 (by omega), k_u (by omega), k_a (by omega), segOf]
    simp
  · subst hc10
    simp only [BarParts.trace, List.filterMap_append, List.filterMap_cons, e1, e2, e3, e4, k9, List.append_nil,
      k_s1 (by omega), k_b (by omega), k_f (by omega), k_o (by omega), k_n (by omega), k_u (by omega), k_a (by omega), segOf]
    simp
  · subst hc11
    simp only [BarParts.trace, List.filterMap_append, List.filterMap_cons, e1, e2, e3, e4, k9, List.append_nil,
      k_s1 (by omega), k_b (by omega), k_f (by omega), k_o (by omega), k_n (by omega), k_s2 (by omega), k_a (by omega), segOf]
    simp
  · subst hc13
    simp only [BarParts.trace, List.filterMap_append, List.filterMap_cons, e1, e2, e3, e4, k9, List.append_nil,
      k_s1 (by omega), k_b (by omega), k_f (by omega), k_o (by omega), k_n (by omega), k_s2 (by omega), k_u (by omega), segOf]
    simp

end Demeter.Core
