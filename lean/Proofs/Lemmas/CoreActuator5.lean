import Proofs.Lemmas.CoreActuator4
namespace Demeter.Core

/-- a projection whose image of one bar's trace does not depend on the state: its image of the loop's trace -/
theorem runBars_fm_of_bar {α : Type} (P : Ev → Option α) (cfg : Cfg) (sc : Script) (g : Int → Nat → List α)
    (hbar : ∀ row ts st price, ((barParts cfg sc row ts st price).trace row ts).filterMap P = g ts row) :
    ∀ (bars : List Int) (row : Nat) (st : St), (runBars cfg sc row bars st).2.2 = none →
      (runBars cfg sc row bars st).1.filterMap P = (bars.zipIdx row).flatMap (fun x => g x.1 x.2)
  | [], _, _, _ => rfl
  | ts :: bars, row, st, h => by
    obtain ⟨h1, h2, h3⟩ := runBars_cons_ok h
    obtain ⟨price, _, _, hstep⟩ := barStep_ok h1
    have ih := runBars_fm_of_bar P cfg sc g hbar bars (row + 1) _ h2
    rw [h3]
    simp only [List.filterMap_append, ih, List.zipIdx_cons, List.flatMap_cons]
    rw [hstep]
    simp only []
    rw [hbar]

theorem segOf_3 (p : BarParts) : segOf 3 p = p.s1.1 := by simp [segOf]
theorem segOf_6 (p : BarParts) : segOf 6 p = p.f.1 := by simp [segOf]
theorem segOf_10 (p : BarParts) : segOf 10 p = p.s2.1 := by simp [segOf]
theorem segOf_11 (p : BarParts) : segOf 11 p = p.u.1 := by simp [segOf]

theorem runUpdFrom_updates (sc : Script) (ts : Int) (row : Nat) : ∀ (i : Nat) (ms : List MarketCfg) (st : St),
    (runUpdFrom sc ts row i ms st).1.filterMap updateOf = (List.range' i ms.length).map (fun m => (ts, m))
  | _, [], _ => rfl
  | i, _ :: rest, st => by
    have hrec : ∀ (tags : List String) (st' : St), (recUpd ts i tags st').1.filterMap updateOf = [] := by
      intro tags
      induction tags with
      | nil => intro _; rfl
      | cons t tl ih => intro st'; simp only [recUpd, List.filterMap_cons, updateOf]; exact ih _
    simp only [runUpdFrom, List.filterMap_cons, updateOf, List.filterMap_append, hrec,
      runUpdFrom_updates sc ts row (i + 1) rest, List.length_cons, List.range'_succ, List.map_cons]
    rfl

theorem setAllFrom_sets (cfg : Cfg) (ts : Int) : ∀ (i : Nat) (ms : List MarketCfg),
    (setAllFrom cfg ts 1 i ms).1.filterMap set1Of = (List.range' i ms.length).map (fun m => (ts, m))
  | _, [] => rfl
  | i, _ :: rest => by
    simp only [setAllFrom, List.filterMap_cons, setEv, set1Of, setAllFrom_sets cfg ts (i + 1) rest, List.length_cons,
      List.range'_succ, List.map_cons]

theorem barTrace_updates (cfg : Cfg) (sc : Script) (row : Nat) (ts : Int) (st : St) (price : Option Int) :
    ((barParts cfg sc row ts st price).trace row ts).filterMap updateOf = (List.range cfg.markets.length).map (fun m => (ts, m)) := by
  rw [barTrace_fm_seg updateOf 11 updateOf_phase (by omega)]
  rw [segOf_11]
  show (runUpdFrom sc ts row 0 cfg.markets _).1.filterMap updateOf = _
  rw [runUpdFrom_updates, List.range_eq_range']

theorem barTrace_sets (cfg : Cfg) (sc : Script) (row : Nat) (ts : Int) (st : St) (price : Option Int) :
    ((barParts cfg sc row ts st price).trace row ts).filterMap set1Of = (List.range cfg.markets.length).map (fun m => (ts, m)) := by
  rw [barTrace_fm_seg set1Of 3 set1Of_phase (by omega)]
  rw [segOf_3]
  show (setAllFrom cfg ts 1 0 cfg.markets).1.filterMap set1Of = _
  rw [setAllFrom_sets, List.range_eq_range']

/-! ### the trigger part of the loop is `trigRun` -/

theorem doOp_noFire (ts : Int) (h : Hook) (op : OpSpec) (st : St) : (doOp ts h op st).1.filterMap fireOfEv = [] := by
  unfold doOp
  split
  · rfl
  · split
    · split <;> rfl
    · split
      · rfl
      · split <;> rfl

theorem runOps_noFire (ts : Int) (h : Hook) : ∀ (ops : List OpSpec) (st : St), (runOps ts h ops st).1.filterMap fireOfEv = []
  | [], _ => rfl
  | op :: ops, st => by
    simp only [runOps, List.filterMap_append, doOp_noFire, runOps_noFire ts h ops, List.append_nil]

/-- the trigger actions the loop calls in a bar are the calls `trigPhase` makes -/
theorem runFires_fires (sc : Script) (ts : Int) (row : Nat) : ∀ (fs : List Fire) (st : St), (∀ f ∈ fs, f.ts = ts) →
    (runFires sc ts row fs st).1.filterMap fireOfEv = fs
  | [], _, _ => rfl
  | f :: fs, st, h => by
    have hf := h f (List.mem_cons_self ..)
    have ih := runFires_fires sc ts row fs (runOps ts (.fire f.id) (sc.fire row f.id) st).2 (fun x hx => h x (List.mem_cons_of_mem _ hx))
    simp only [runFires, List.filterMap_cons, fireOfEv, List.filterMap_append, runOps_noFire, ih]
    cases f
    simp only at hf
    subst hf
    rfl

theorem fireLoop_ts (now : Int) : ∀ trigs : List Trig, ∀ f ∈ (fireLoop now trigs).1, f.ts = now
  | [], f, h => by cases h
  | t :: rest, f, h => by
    unfold fireLoop at h
    split at h
    · cases h
    · simp only [List.mem_append] at h
      rcases h with h' | h'
      · split at h'
        · rw [List.mem_singleton.mp h']
        · cases h'
      · exact fireLoop_ts now rest f h'

theorem trigPhase_ts (now : Int) (trigs : List Trig) : ∀ f ∈ (trigPhase now trigs).1, f.ts = now := by
  intro f h
  have e : (trigPhase now trigs).1 = (fireLoop now trigs).1 := by
    unfold trigPhase
    simp only []
    cases (fireLoop now trigs).2.2 <;> rfl
  rw [e] at h
  exact fireLoop_ts now trigs f h

/-- in a bar the loop calls exactly the actions `trigPhase` fires, and leaves exactly the triggers it retains -/
theorem barParts_trig (cfg : Cfg) (sc : Script) (row : Nat) (ts : Int) (st : St) (price : Option Int) :
    (barParts cfg sc row ts st price).tp = trigPhase ts st.trigs ∧
    ((barParts cfg sc row ts st price).trace row ts).filterMap fireOfEv = (trigPhase ts st.trigs).1 ∧
    ((barParts cfg sc row ts st price).final ts).trigs = (trigPhase ts st.trigs).2.1 := by
  generalize hp : barParts cfg sc row ts st price = p
  have fb : Frame { st with ms := p.s1.2 } p.b := by rw [← hp]; exact runOps_frame ts .before _ _
  have fo : Frame { p.f.2 with trigs := p.tp.2.1 } p.o := by rw [← hp]; exact runOpenFrom_frame sc ts row 0 _ _
  have fn : Frame p.o.2 p.n := by rw [← hp]; exact runOps_frame ts .on _ _
  have fu : Frame { p.n.2 with ms := p.s2.2 } p.u := by rw [← hp]; exact runUpdFrom_frame sc ts row 0 _ _
  have fa : Frame p.u.2 p.a := by rw [← hp]; exact runOps_frame ts .after _ _
  have htp : p.tp = trigPhase ts st.trigs := by
    have : p.tp = trigPhase ts p.b.2.trigs := by rw [← hp]; rfl
    rw [this, fb.2.1]
  refine ⟨htp, ?_, ?_⟩
  · rw [← hp, barTrace_fm_seg fireOfEv 6 fireOfEv_phase (by omega), segOf_6, hp]
    have : p.f = runFires sc ts row p.tp.1 p.b.2 := by rw [← hp]; rfl
    rw [this, runFires_fires sc ts row _ _ (by rw [htp]; exact trigPhase_ts ts st.trigs), htp]
  · show p.nt.2.1.trigs = _
    have hnt : p.nt.2.1.trigs = p.a.2.trigs := by rw [← hp]; exact (runNotify_trigs sc ts row _ _ _).1
    rw [hnt, fa.2.1, fu.2.1, fn.2.1, fo.2.1, htp]

/-- **the trigger part of the bar loop is `trigRun`** (for runs that end normally) -/
theorem runBars_trig (cfg : Cfg) (sc : Script) :
    ∀ (bars : List Int) (row : Nat) (st : St), (runBars cfg sc row bars st).2.2 = none →
      (runBars cfg sc row bars st).1.filterMap fireOfEv = (trigRun bars st.trigs).1 ∧
      (runBars cfg sc row bars st).2.1.trigs = (trigRun bars st.trigs).2.1 ∧
      (trigRun bars st.trigs).2.2 = none
  | [], _, _, _ => ⟨rfl, rfl, rfl⟩
  | ts :: bars, row, st, h => by
    obtain ⟨h1, h2, h3⟩ := runBars_cons_ok h
    obtain ⟨price, _, htpn, hstep⟩ := barStep_ok h1
    obtain ⟨b1, b2, b3⟩ := barParts_trig cfg sc row ts st price
    obtain ⟨ih1, ih2, ih3⟩ := runBars_trig cfg sc bars (row + 1) _ h2
    rw [b1] at htpn
    rw [h3]
    rw [hstep] at ih1 ih2 ih3 ⊢
    simp only [] at ih1 ih2 ih3 ⊢
    rw [b3] at ih1 ih2 ih3
    simp only [trigRun, htpn, List.filterMap_append, b2, ih1, ih2, ih3]
    exact ⟨trivial, trivial, trivial⟩

end Demeter.Core
