/-
  The exact arithmetic context (`rnd = id`): the rational semantics the theorems are stated for.
  Shared by every proof file (define it nowhere else: all proof modules are imported together by Proofs.lean).
-/
import Demeter.Num
namespace Demeter

def NumCtx.exact : NumCtx := { rnd := id, dsqrt := dsqrt35 }

@[simp] theorem NumCtx.exact_add (a b : Rat) : NumCtx.exact.add a b = a + b := rfl
@[simp] theorem NumCtx.exact_sub (a b : Rat) : NumCtx.exact.sub a b = a - b := rfl
@[simp] theorem NumCtx.exact_mul (a b : Rat) : NumCtx.exact.mul a b = a * b := rfl
@[simp] theorem NumCtx.exact_div (a b : Rat) : NumCtx.exact.div a b = a / b := rfl
@[simp] theorem NumCtx.exact_rnd (a : Rat) : NumCtx.exact.rnd a = a := rfl

end Demeter
