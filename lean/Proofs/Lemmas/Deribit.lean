/-
  Helper lemmas for the Deribit proofs (C15, C16, C01/C03/C04 Deribit parts).
  `DCtx.exact` = Decimal arithmetic exact, book floats as real numbers.
-/
import Demeter.Deribit
import Demeter.Deribit.Run
import Proofs.Lemmas.Exact
import Mathlib.Tactic.Linarith
import Mathlib.Tactic.Ring
import Mathlib.Algebra.Order.Field.Rat
import Mathlib.Tactic.NormNum
import Mathlib.Tactic.Positivity
namespace Demeter.Deribit
open Demeter

/-- the context the arithmetic theorems are stated for -/
def DCtx.exact : DCtx := DCtx.ideal NumCtx.exact

@[simp] theorem exact_num : DCtx.exact.num = NumCtx.exact := rfl
@[simp] theorem exact_toF (x : Rat) : DCtx.exact.toF x = x := rfl
@[simp] theorem exact_fsub (a b : Rat) : DCtx.exact.fsub a b = a - b := rfl
@[simp] theorem exact_fdiv (a b : Rat) : DCtx.exact.fdiv a b = a / b := rfl
@[simp] theorem exact_reprD (x : Rat) : DCtx.exact.reprD x = x := rfl
@[simp] theorem exact_fadd (a b : Rat) : DCtx.exact.fadd a b = a + b := rfl

/-- sum of the fill sizes -/
def fillSum (fs : List Fill) : Rat := (fs.map (·.amount)).sum
/-- Σ price × size -/
def fillCost (fs : List Fill) : Rat := (fs.map (fun f => f.amount * f.price)).sum

theorem foldl_add_eq (fs : List Fill) (g : Fill → Rat) (a : Rat) :
    fs.foldl (fun acc f => acc + g f) a = a + (fs.map g).sum := by
  induction fs generalizing a with
  | nil => simp
  | cons f fs ih => simp [List.foldl, ih, add_assoc]

theorem premiumOf_exact (fs : List Fill) : premiumOf DCtx.exact fs = fillCost fs := by
  unfold premiumOf fillCost
  simp only [exact_num, NumCtx.exact_add, NumCtx.exact_mul]
  rw [foldl_add_eq fs (fun f => f.amount * f.price) 0]; simp

theorem amountOf_exact (fs : List Fill) : amountOf DCtx.exact fs = fillSum fs := by
  unfold amountOf fillSum
  simp only [exact_num, NumCtx.exact_add]
  rw [foldl_add_eq fs (fun f => f.amount) 0]; simp

/-- sum of the displayed sizes -/
def sizeSum (ls : List Level) : Rat := (ls.map (·.size)).sum

theorem sumSizes_exact (ls : List Level) : sumSizes DCtx.exact ls = sizeSum ls := by
  unfold sumSizes sizeSum
  simp only [exact_num, NumCtx.exact_add, exact_reprD]
  have : ∀ a : Rat, ls.foldl (fun acc l => acc + l.size) a = a + (ls.map (·.size)).sum := by
    induction ls with
    | nil => simp
    | cons l ls ih => intro a; simp [List.foldl, ih, add_assoc]
  rw [this 0]; simp


/-- what an accepted `check_transaction` guarantees -/
theorem checkTx_ok {cx : DCtx} {c : TokenCfg} {book : List Instr} {r : Req} {isBuy : Bool} {ck : Checked}
    (h : checkTx cx c book r isBuy = .ok ck) :
    (∃ ins0, findInstr book r.name = some ins0 ∧ ck.ins = normInstr cx ins0) ∧ ck.ins.stateOpen = true ∧
    c.minAmount ≤ r.amount ∧
    ck.amount = roundDec c.tradeExp r.amount ∧
    ∃ avail, availSide cx ck.ins r.mult isBuy = .ok avail ∧
      ((reqPrice cx ck.ins r = .ok none ∧ ck.price = none ∧ ck.amount ≤ sumSizes cx avail) ∨
       (∃ p l rest, reqPrice cx ck.ins r = .ok (some p) ∧ findAvailable cx p avail = l :: rest ∧
          ck.price = some (cx.reprD l.price) ∧ ck.amount ≤ cx.reprD l.size)) := by
  unfold checkTx at h
  split at h
  · exact absurd h (by simp)
  · rename_i ins0 hfind
    simp only [] at h
    split at h
    · exact absurd h (by simp)
    · rename_i hopen
      split at h
      · exact absurd h (by simp)
      · rename_i hmin
        have hta : tradeAmount c r.amount = roundDec c.tradeExp r.amount := by
          unfold tradeAmount; rw [if_neg hmin]
        split at h
        · exact absurd h (by simp)
        · rename_i price hprice
          split at h
          · exact absurd h (by simp)
          · rename_i avail havail
            split at h
            · rename_i p
              split at h
              · exact absurd h (by simp)
              · rename_i l rest hfa
                split at h
                · exact absurd h (by simp)
                · rename_i hle
                  simp only [Except.ok.injEq] at h
                  subst h
                  exact ⟨⟨ins0, hfind, rfl⟩, by simpa using hopen, not_lt.mp hmin, hta, avail, havail,
                    Or.inr ⟨p, l, rest, hprice, hfa, rfl, not_lt.mp hle⟩⟩
            · split at h
              · exact absurd h (by simp)
              · rename_i hle
                simp only [Except.ok.injEq] at h
                subst h
                exact ⟨⟨ins0, hfind, rfl⟩, by simpa using hopen, not_lt.mp hmin, hta, avail, havail,
                  Or.inl ⟨hprice, rfl, not_lt.mp hle⟩⟩


/-- inversion of an accepted `buy` -/
theorem buy_ok {cx : DCtx} {c : TokenCfg} {s s' : DState} {r : Req} {res : Res}
    (h : buy cx c s r = (.ok res, s')) :
    s.flagOpen = true ∧ ∃ ck, checkTx cx c s.book r true = .ok ck ∧
      ∃ fills prem fee, fills = deduct cx ck.amount (availAsks cx ck.ins r.mult) ck.price ∧
        prem = premiumOf cx fills ∧ fee = tradeFee cx c ck.amount prem ∧
        res = .trade fills fee ∧
        s'.cash = cx.num.sub s.cash (cx.num.add prem fee) ∧ 0 ≤ s'.cash ∧
        s' = { s with cash := s'.cash
                      book := setAsks s.book r.name (newOrderList cx ck.ins.asks fills)
                      positions := AList.set s.positions r.name
                        (boughtPosition cx (AList.get? s.positions r.name) r ck (avgPrice cx fills))
                      cache := none
                      actions := s.actions ++ [.buy (tradeRec cx r ck fills prem fee)] } := by
  unfold buy at h
  split at h
  · simp at h
  · rename_i hopen
    split at h
    · simp at h
    · rename_i ck hck
      simp only [] at h
      split at h
      · simp at h
      · rename_i hneg
        simp only [Prod.mk.injEq, Except.ok.injEq] at h
        obtain ⟨hres, hs⟩ := h
        subst hs
        exact ⟨by simpa using hopen, ck, hck, _, _, _, rfl, rfl, rfl, hres.symm, rfl, not_lt.mp hneg, rfl⟩

/-- a rejected `buy` returns the state it was given -/
theorem buy_err {cx : DCtx} {c : TokenCfg} {s s' : DState} {r : Req} {e : Err}
    (h : buy cx c s r = (.error e, s')) : s' = s := by
  unfold buy at h
  split at h
  · simp only [Prod.mk.injEq] at h; exact h.2.symm
  · split at h
    · simp only [Prod.mk.injEq] at h; exact h.2.symm
    · simp only [] at h
      split at h
      · simp only [Prod.mk.injEq] at h; exact h.2.symm
      · simp at h

/-- inversion of an accepted `sell` -/
theorem sell_ok {cx : DCtx} {c : TokenCfg} {s s' : DState} {r : Req} {res : Res}
    (h : sell cx c s r = (.ok res, s')) :
    s.flagOpen = true ∧ ∃ ck p bids, checkTx cx c s.book r false = .ok ck ∧
      AList.get? s.positions r.name = some p ∧ ck.amount ≤ p.amount ∧ availBids cx ck.ins r.mult = .ok bids ∧
      ∃ fills prem fee, fills = deduct cx ck.amount bids ck.price ∧
        prem = premiumOf cx fills ∧ fee = tradeFee cx c ck.amount prem ∧
        res = .trade fills fee ∧
        s' = { s with cash := cx.num.add s.cash (cx.num.sub prem fee)
                      book := setBids s.book r.name (newOrderList cx ck.ins.bids fills)
                      positions := if (soldPosition cx p ck.amount (avgPrice cx fills)).amount ≤ 0
                                   then AList.erase s.positions r.name
                                   else AList.set s.positions r.name (soldPosition cx p ck.amount (avgPrice cx fills))
                      cache := none
                      actions := s.actions ++ [.sell (tradeRec cx r ck fills prem fee)] } := by
  unfold sell at h
  split at h
  · simp at h
  · rename_i hopen
    split at h
    · simp at h
    · rename_i ck hck
      split at h
      · simp at h
      · rename_i p hp
        split at h
        · simp at h
        · rename_i hle
          split at h
          · simp at h
          · rename_i bids hb
            simp only [Prod.mk.injEq, Except.ok.injEq] at h
            obtain ⟨hres, hs⟩ := h
            subst hs
            exact ⟨by simpa using hopen, ck, p, bids, hck, hp, not_lt.mp hle, hb, _, _, _, rfl, rfl, rfl, hres.symm, rfl⟩

theorem sell_err {cx : DCtx} {c : TokenCfg} {s s' : DState} {r : Req} {e : Err}
    (h : sell cx c s r = (.error e, s')) : s' = s := by
  unfold sell at h
  split at h
  · simp only [Prod.mk.injEq] at h; exact h.2.symm
  · split at h
    · simp only [Prod.mk.injEq] at h; exact h.2.symm
    · split at h
      · simp only [Prod.mk.injEq] at h; exact h.2.symm
      · split at h
        · simp only [Prod.mk.injEq] at h; exact h.2.symm
        · split at h
          · simp only [Prod.mk.injEq] at h; exact h.2.symm
          · simp at h

theorem deposit_err {cx : DCtx} {c : TokenCfg} {s s' : DState} {a : Rat} {e : Err}
    (h : deposit cx c s a = (.error e, s')) : s' = s := by
  unfold deposit at h
  split at h
  · simp only [Prod.mk.injEq] at h; exact h.2.symm
  · split at h
    · simp only [Prod.mk.injEq] at h; exact h.2.symm
    · simp only [Prod.mk.injEq] at h; exact h.2.symm
    · simp at h

theorem withdraw_err {cx : DCtx} {c : TokenCfg} {s s' : DState} {a : Rat} {e : Err}
    (h : withdraw cx c s a = (.error e, s')) : s' = s := by
  unfold withdraw at h
  split at h
  · simp only [Prod.mk.injEq] at h; exact h.2.symm
  · simp only [] at h
    split at h
    · simp only [Prod.mk.injEq] at h; exact h.2.symm
    · simp at h

theorem quantHalfUp_nonneg (k : Nat) {x : Rat} (hx : 0 ≤ x) : 0 ≤ quantHalfUp k x := by
  unfold quantHalfUp
  have hn : ¬ x.num < 0 := not_lt.mpr (Rat.num_nonneg.mpr hx)
  simp only [hn, if_false]
  apply Rat.mkRat_nonneg
  exact Int.natCast_nonneg _

theorem tenPow_pos (e : Int) : 0 < tenPow e := by
  unfold tenPow pow10
  split <;> positivity

theorem roundDec_nonneg (e : Int) {x : Rat} (hx : 0 ≤ x) : 0 ≤ roundDec e x := by
  unfold roundDec
  split
  · exact quantHalfUp_nonneg _ hx
  · exact mul_nonneg (quantHalfUp_nonneg _ (div_nonneg hx (tenPow_pos e).le)) (tenPow_pos e).le

theorem minAmount_pos (c : TokenCfg) : 0 < c.minAmount := tenPow_pos _

/-- all displayed sizes of the book are non-negative -/
def BookNonneg (book : List Instr) : Prop :=
  ∀ i ∈ book, (∀ l ∈ i.asks, 0 ≤ l.size) ∧ (∀ l ∈ i.bids, 0 ≤ l.size)

theorem findInstr_mem {book : List Instr} {n : String} {i : Instr} (h : findInstr book n = some i) : i ∈ book := by
  unfold findInstr at h; exact List.mem_of_find?_eq_some h

theorem deductMarket_mem {cx : DCtx} {rem : Rat} {ls : List Level} {f : Fill} (h : f ∈ deductMarket cx rem ls) :
    ∃ l ∈ ls, l.size ≠ 0 ∧ f.price = cx.reprD l.price ∧ f.amount ≤ cx.reprD l.size := by
  induction ls generalizing rem with
  | nil => simp [deductMarket] at h
  | cons l ls ih =>
    unfold deductMarket at h
    by_cases hz : l.size = 0
    · simp only [hz, if_true] at h
      obtain ⟨l', hl', h'⟩ := ih h
      exact ⟨l', List.mem_cons_of_mem _ hl', h'⟩
    · simp only [hz, if_false] at h
      rcases List.mem_cons.mp h with rfl | h
      · exact ⟨l, List.mem_cons_self, hz, rfl, min_le_left _ _⟩
      · split at h
        · simp at h
        · obtain ⟨l', hl', h'⟩ := ih h
          exact ⟨l', List.mem_cons_of_mem _ hl', h'⟩

theorem deductLimit_mem {cx : DCtx} {p a : Rat} {ls : List Level} {f : Fill} (h : f ∈ deductLimit cx p a ls) :
    f = ⟨p, a⟩ := by
  induction ls with
  | nil => simp [deductLimit] at h
  | cons l ls ih =>
    unfold deductLimit at h
    split at h
    · rcases List.mem_cons.mp h with rfl | h
      · rfl
      · exact ih h
    · exact ih h

/-- every fill of an accepted order carries the printed price of a level the order was allowed to touch -/
theorem fills_from_avail {cx : DCtx} {c : TokenCfg} {book : List Instr} {r : Req} {isBuy : Bool} {ck : Checked}
    (h : checkTx cx c book r isBuy = .ok ck) {avail : List Level} (ha : availSide cx ck.ins r.mult isBuy = .ok avail)
    {f : Fill} (hf : f ∈ deduct cx ck.amount avail ck.price) :
    ∃ l ∈ avail, f.price = cx.reprD l.price := by
  obtain ⟨_, _, _, _, avail', ha', hcase⟩ := checkTx_ok h
  rw [ha] at ha'
  simp only [Except.ok.injEq] at ha'
  subst ha'
  rcases hcase with ⟨_, hp, _⟩ | ⟨p, l, rest, _, hfa, hp, _⟩
  · rw [hp] at hf
    obtain ⟨l, hl, _, hpr, _⟩ := deductMarket_mem hf
    exact ⟨l, hl, hpr⟩
  · rw [hp] at hf
    have := deductLimit_mem hf
    have hl : l ∈ findAvailable cx p avail := by rw [hfa]; exact List.mem_cons_self
    unfold findAvailable at hl
    exact ⟨l, (List.mem_filter.mp hl).1, by rw [this]⟩

/-- displayed size of the (first) level at price `p` -/
def sizeAt (ls : List Level) (p : Rat) : Option Rat := (ls.find? (fun l => l.price = p)).map (·.size)

/-- what a list of fills takes at price `p` -/
def taken (fs : List Fill) (p : Rat) : Rat := ((fs.filter (fun f => f.price = p)).map (·.amount)).sum

theorem applyFill_prices (cx : DCtx) (x : Fill) (ls : List Level) :
    (applyFill cx x ls).map (·.price) = ls.map (·.price) := by
  induction ls with
  | nil => simp [applyFill]
  | cons l ls ih =>
    unfold applyFill
    split
    · simp
    · simp [ih]

theorem sizeAt_applyFill (x : Fill) (ls : List Level) (p : Rat) :
    sizeAt (applyFill DCtx.exact x ls) p =
      if p = x.price then (sizeAt ls p).map (fun s => s - x.amount) else sizeAt ls p := by
  induction ls with
  | nil => simp [applyFill, sizeAt]
  | cons l ls ih =>
    unfold applyFill
    simp only [exact_toF, exact_fsub]
    by_cases hx : x.price = l.price
    · simp only [hx, if_true]
      by_cases hp : p = l.price
      · simp [sizeAt, hp]
      · have hp' : ¬ l.price = p := fun h => hp h.symm
        simp [sizeAt, hp, hp']
    · simp only [hx, if_false]
      by_cases hp : l.price = p
      · have : ¬ p = x.price := fun h => hx (h ▸ hp.symm)
        simp [sizeAt, hp, this]
      · have ih' := ih
        simp only [sizeAt] at ih' ⊢
        simp only [List.find?_cons, hp, decide_false]
        exact ih'


theorem AList_get_set (m : AList String Position) (k : String) (v : Position) :
    AList.get? (AList.set m k v) k = some v := by
  induction m with
  | nil => simp [AList.set, AList.get?]
  | cons kv m ih =>
    obtain ⟨k', v'⟩ := kv
    unfold AList.set
    by_cases h : k' = k
    · simp [h, AList.get?]
    · simp only [h, if_false]
      simp only [AList.get?, List.find?_cons, h, decide_false] at ih ⊢
      exact ih

/-- a rejected operation returns the state it was given -/
theorem step_err {cx : DCtx} {c : TokenCfg} {s s' : DState} {op : Op} {e : Err}
    (h : step cx c s op = (.error e, s')) : s' = s := by
  cases op with
  | buy r => exact buy_err h
  | sell r => exact sell_err h
  | deposit a => exact deposit_err h
  | withdraw a => exact withdraw_err h
  | balance =>
    simp only [step, getMarketBalance] at h
    split at h
    · simp at h
    · split at h
      · simp at h
      · split at h <;> simp at h
  | update => simp [step] at h

end Demeter.Deribit
