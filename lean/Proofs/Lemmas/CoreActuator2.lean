/-
  Lemmas about Demeter.Actuator (builder `core`), part 2: the run as a whole, phase order of the whole trace, projections of
  the trace, the bookkeeping of rows and action lists (`Frame`).
-/
import Proofs.Lemmas.CoreActuator
namespace Demeter.Core


/-! ### the run as a whole -/

def initSt (cfg : Cfg) (trigs : List Trig) (ts0 : Int) : St := ⟨(setAllFrom cfg ts0 0 0 cfg.markets).2, trigs, [], [], []⟩

/-- what `initialize` does -/
def initRun (cfg : Cfg) (trigs : List Trig) (sc : Script) (ts0 : Int) : List Ev × St :=
  runOps ts0 .init sc.init (initSt cfg trigs ts0)

def loopRun (cfg : Cfg) (trigs : List Trig) (sc : Script) (ts0 : Int) (bars : List Int) : List Ev × St × Option PyErr :=
  runBars cfg sc 0 (ts0 :: bars) (initRun cfg trigs sc ts0).2

theorem run_ok {cfg : Cfg} {trigs : List Trig} {sc : Script} (h : (run cfg trigs sc).err = none) :
    ∃ ts0 bars, barIndex cfg = ts0 :: bars ∧ checkBacktest cfg = none ∧ (priceAt cfg ts0).isSome ∧
      (loopRun cfg trigs sc ts0 bars).2.2 = none ∧
      (run cfg trigs sc).trace = (setAllFrom cfg ts0 0 0 cfg.markets).1 ++ Ev.initialize ts0 :: (initRun cfg trigs sc ts0).1
          ++ (loopRun cfg trigs sc ts0 bars).1 ++ [Ev.finalize ((ts0 :: bars).getLast?.getD ts0)] ∧
      (run cfg trigs sc).rows = (loopRun cfg trigs sc ts0 bars).2.1.rows ∧
      (run cfg trigs sc).actions = (loopRun cfg trigs sc ts0 bars).2.1.all ∧
      (run cfg trigs sc).trigsLeft = (loopRun cfg trigs sc ts0 bars).2.1.trigs := by
  unfold run at h ⊢
  cases hc : checkBacktest cfg with
  | some e => rw [hc] at h; cases h
  | none =>
    rw [hc] at h
    simp only [] at h ⊢
    cases hb : barIndex cfg with
    | nil => rw [hb] at h; cases h
    | cons ts0 bars =>
      rw [hb] at h
      simp only [] at h ⊢
      cases hp : priceAt cfg ts0 with
      | none => rw [hp] at h; cases h
      | some pr =>
        rw [hp] at h
        simp only [] at h ⊢
        have hl : (loopRun cfg trigs sc ts0 bars).2.2 = none := h
        refine ⟨ts0, bars, ?_, ?_, ?_, hl, ?_, ?_, ?_, ?_⟩ <;> try first | rfl | trivial | (rw [hp]; rfl)
        have : (runBars cfg sc 0 (ts0 :: bars) (runOps ts0 Hook.init sc.init
            { ms := (setAllFrom cfg ts0 0 0 cfg.markets).2, trigs := trigs, cur := [], all := [], rows := [] }).2).2.2 = none := hl
        rw [this]
        rfl

/-! ### phase order of the whole trace -/

theorem getLast_ge_of_pairwise : ∀ (l : List Int) (d : Int), l.Pairwise (· < ·) → ∀ t ∈ l, t ≤ l.getLast?.getD d
  | [], _, _, t, h => by cases h
  | [a], _, _, t, h => by simp at h; simp [h]
  | a :: b :: l, d, hp, t, h => by
    have hp' := List.pairwise_cons.mp hp
    have ih := getLast_ge_of_pairwise (b :: l) d hp'.2
    have e : (a :: b :: l).getLast?.getD d = (b :: l).getLast?.getD d := by simp [List.getLast?_cons_cons]
    rw [e]
    rcases List.mem_cons.mp h with rfl | h'
    · have := ih b (List.mem_cons_self ..)
      have := hp'.1 b (List.mem_cons_self ..)
      omega
    · exact ih t h'

/-- the whole trace of a run that ended normally is ordered by (bar, phase) -/
theorem runTrace_sorted (cfg : Cfg) (trigs : List Trig) (sc : Script) (ts0 : Int) (bars : List Int)
    (hp : (ts0 :: bars).Pairwise (· < ·)) (hl : (loopRun cfg trigs sc ts0 bars).2.2 = none) :
    ((setAllFrom cfg ts0 0 0 cfg.markets).1 ++ Ev.initialize ts0 :: (initRun cfg trigs sc ts0).1
          ++ (loopRun cfg trigs sc ts0 bars).1 ++ [Ev.finalize ((ts0 :: bars).getLast?.getD ts0)]).Pairwise KeyLe := by
  have h0 : SegOK ts0 0 0 (setAllFrom cfg ts0 0 0 cfg.markets).1 := segOK_of_allAt (setAllFrom_at cfg ts0 0 0 _)
  have hi : SegOK ts0 2 2 (initRun cfg trigs sc ts0).1 := segOK_of_allAt (runOps_at ts0 .init _ _)
  have hpre := segOK_append h0 (segOK_cons (c := 1) (e := Ev.initialize ts0) rfl rfl hi (by omega) (by omega)) (by omega) (by omega) (by omega)
  obtain ⟨hs, hm⟩ := runBars_sorted cfg sc (ts0 :: bars) 0 _ hp hl
  have hp' := List.pairwise_cons.mp hp
  refine List.pairwise_append.mpr ⟨List.pairwise_append.mpr ⟨hpre.1, hs, ?_⟩, List.pairwise_singleton _ _, ?_⟩
  · intro a ha b hb
    obtain ⟨a1, _, a3⟩ := hpre.2 a ha
    obtain ⟨t, ht, b1, b2, _⟩ := hm b hb
    unfold KeyLe
    rw [a1, b1]
    rcases List.mem_cons.mp ht with rfl | ht'
    · right; exact ⟨rfl, by omega⟩
    · left; exact hp'.1 t ht'
  · intro a ha b hb
    rw [List.mem_singleton.mp hb]
    show a.ts.getD 0 < (ts0 :: bars).getLast?.getD ts0 ∨ (a.ts.getD 0 = (ts0 :: bars).getLast?.getD ts0 ∧ a.phase ≤ 16)
    rcases List.mem_append.mp ha with h' | h'
    · obtain ⟨a1, _, a3⟩ := hpre.2 a h'
      rw [a1]
      have := getLast_ge_of_pairwise (ts0 :: bars) ts0 hp ts0 (List.mem_cons_self ..)
      simp only [Option.getD_some]
      rcases Int.lt_or_eq_of_le this with h1 | h1
      · left; exact h1
      · right; exact ⟨h1, by omega⟩
    · obtain ⟨t, ht, b1, _, b3⟩ := hm a h'
      rw [b1]
      have := getLast_ge_of_pairwise (ts0 :: bars) ts0 hp t ht
      simp only [Option.getD_some]
      rcases Int.lt_or_eq_of_le this with h1 | h1
      · left; exact h1
      · right; exact ⟨h1, by omega⟩

/-! ### projections of the trace -/

/-- a projection that only sees events of phase `c` sees nothing in a stretch of another phase -/
theorem fm_nil_of_allAt {α : Type} {P : Ev → Option α} {c c' : Nat} {ts : Int} {l : List Ev}
    (hP : ∀ e, (P e).isSome → e.phase = c) (h : AllAt ts c' l) (hne : c' ≠ c) : l.filterMap P = [] := by
  apply List.filterMap_eq_nil_iff.mpr
  intro e he
  cases hpe : P e with
  | none => rfl
  | some x =>
    have := hP e (by rw [hpe]; rfl)
    rw [(h e he).2] at this
    exact absurd this hne

/-- the calls a projection of phase 4, 8, 12 or 14 (the hook calls and the account row) sees in a bar -/
theorem barTrace_fm_hook {α : Type} (P : Ev → Option α) (c : Nat) (hP : ∀ e, (P e).isSome → e.phase = c)
    (hc : c = 4 ∨ c = 8 ∨ c = 12 ∨ c = 14)
    (cfg : Cfg) (sc : Script) (row : Nat) (ts : Int) (st : St) (price : Option Int) :
    ((barParts cfg sc row ts st price).trace row ts).filterMap P =
      [Ev.before ts row price, .on ts row price, .after ts row price, .row ts price].filterMap P := by
  have k1 := fm_nil_of_allAt hP (setAllFrom_at cfg ts 1 0 cfg.markets) (c' := stagePhase 1) (by simp [stagePhase]; omega)
  have k2 := fun ops st' => fm_nil_of_allAt hP (runOps_at ts .before ops st') (by simp [Hook.phase]; omega)
  have k3 := fun fs st' => fm_nil_of_allAt hP (runFires_at sc ts row fs st') (by omega)
  have k4 := fun ms st' => fm_nil_of_allAt hP (runOpenFrom_at sc ts row 0 ms st') (by omega)
  have k5 := fun ops st' => fm_nil_of_allAt hP (runOps_at ts .on ops st') (by simp [Hook.phase]; omega)
  have k6 := fun ms ss => fm_nil_of_allAt hP (setUpdatedFrom_at cfg ts 0 ms ss) (by omega)
  have k7 := fun ms st' => fm_nil_of_allAt hP (runUpdFrom_at sc ts row 0 ms st') (by omega)
  have k8 := fun ops st' => fm_nil_of_allAt hP (runOps_at ts .after ops st') (by simp [Hook.phase]; omega)
  have k9 := fun fuel i st' => fm_nil_of_allAt hP (runNotify_at sc ts row fuel i st') (by omega)
  simp only [BarParts.trace, barParts, List.filterMap_append, List.filterMap_cons, k1, k2, k3, k4, k5, k6, k7, k8, k9,
    List.filterMap_nil, List.nil_append, List.append_nil]
  cases P (Ev.before ts row price) <;> cases P (Ev.on ts row price) <;> cases P (Ev.after ts row price) <;>
    cases P (Ev.row ts price) <;> rfl



/-- the action an event records (`_record_action_list`): accepted operations and what `update()` records -/
def recordedAct : Ev → Option Act
  | .opOk ts _ m tag => some ⟨tag, ts, m⟩
  | .opFree ts _ m tag true => some ⟨tag, ts, m⟩
  | .uact ts m tag => some ⟨tag, ts, m⟩
  | _ => none

/-- the action a `notify` call delivers -/
def notifyAct : Ev → Option Act
  | .notify _ tag stamp m => some ⟨tag, stamp, m⟩
  | _ => none

def recOf (l : List Ev) : List Act := l.filterMap recordedAct

theorem recOf_append (a b : List Ev) : recOf (a ++ b) = recOf a ++ recOf b := by simp [recOf]

/-- what a phase may do to the bookkeeping: rows and triggers untouched, the two action lists extended by exactly what was
    recorded -/
def Frame (st : St) (r : List Ev × St) : Prop :=
  r.2.rows = st.rows ∧ r.2.trigs = st.trigs ∧ r.2.cur = st.cur ++ recOf r.1 ∧ r.2.all = st.all ++ recOf r.1

theorem Frame.trans {st : St} {r1 r2 : List Ev × St} (h1 : Frame st r1) (h2 : Frame r1.2 r2) :
    Frame st (r1.1 ++ r2.1, r2.2) := by
  obtain ⟨a1, a2, a3, a4⟩ := h1
  obtain ⟨b1, b2, b3, b4⟩ := h2
  refine ⟨by rw [b1, a1], by rw [b2, a2], ?_, ?_⟩
  · show r2.2.cur = st.cur ++ recOf (r1.1 ++ r2.1)
    rw [b3, a3, recOf_append, List.append_assoc]
  · show r2.2.all = st.all ++ recOf (r1.1 ++ r2.1)
    rw [b4, a4, recOf_append, List.append_assoc]

theorem Frame.refl (st : St) : Frame st ([], st) := ⟨rfl, rfl, by simp [recOf], by simp [recOf]⟩

/-- prefixing an event that records nothing -/
theorem Frame.cons_silent {st : St} {r : List Ev × St} (e : Ev) (he : recordedAct e = none) (h : Frame st r) :
    Frame st (e :: r.1, r.2) := by
  obtain ⟨a1, a2, a3, a4⟩ := h
  refine ⟨a1, a2, ?_, ?_⟩
  · show r.2.cur = st.cur ++ recOf (e :: r.1)
    rw [a3]; simp [recOf, he]
  · show r.2.all = st.all ++ recOf (e :: r.1)
    rw [a4]; simp [recOf, he]

theorem doOp_frame (ts : Int) (h : Hook) (op : OpSpec) (st : St) : Frame st (doOp ts h op st) := by
  unfold doOp
  split
  · exact Frame.refl st
  · split
    · split
      · exact ⟨rfl, rfl, by simp [recOf, recordedAct], by simp [recOf, recordedAct]⟩
      · exact ⟨rfl, rfl, by simp [recOf, recordedAct], by simp [recOf, recordedAct]⟩
    · split
      · exact ⟨rfl, rfl, by simp [recOf, recordedAct], by simp [recOf, recordedAct]⟩
      · split
        · exact ⟨rfl, rfl, by simp [recOf, recordedAct], by simp [recOf, recordedAct]⟩
        · exact ⟨rfl, rfl, by simp [recOf, recordedAct], by simp [recOf, recordedAct]⟩

theorem runOps_frame (ts : Int) (h : Hook) : ∀ (ops : List OpSpec) (st : St), Frame st (runOps ts h ops st)
  | [], st => Frame.refl st
  | op :: ops, st => Frame.trans (doOp_frame ts h op st) (runOps_frame ts h ops _)

theorem runFires_frame (sc : Script) (ts : Int) (row : Nat) : ∀ (fs : List Fire) (st : St), Frame st (runFires sc ts row fs st)
  | [], st => Frame.refl st
  | f :: fs, st => by
    have h := Frame.trans (runOps_frame ts (.fire f.id) (sc.fire row f.id) st) (runFires_frame sc ts row fs _)
    exact Frame.cons_silent (Ev.fire ts f.id f.kw) rfl h

theorem runOpenFrom_frame (sc : Script) (ts : Int) (row : Nat) : ∀ (i : Nat) (ms : List MarketCfg) (st : St),
    Frame st (runOpenFrom sc ts row i ms st)
  | _, [], st => Frame.refl st
  | i, mc :: rest, st => by
    by_cases hc : (mc.openCb && st.openAt i) = true
    · simp only [runOpenFrom, hc, if_true]
      have h := Frame.trans (runOps_frame ts (.openCb i) (sc.openCb row i) st) (runOpenFrom_frame sc ts row (i + 1) rest _)
      exact Frame.cons_silent (Ev.openCb ts i) rfl h
    · simp only [runOpenFrom, hc]
      exact runOpenFrom_frame sc ts row (i + 1) rest st

theorem recUpd_frame (ts : Int) (i : Nat) : ∀ (tags : List String) (st : St), Frame st (recUpd ts i tags st)
  | [], st => Frame.refl st
  | tag :: tags, st => by
    obtain ⟨a1, a2, a3, a4⟩ := recUpd_frame ts i tags
      { st with cur := st.cur ++ [⟨tag, ts, i⟩], all := st.all ++ [⟨tag, ts, i⟩] }
    refine ⟨a1, a2, ?_, ?_⟩
    · show (recUpd ts i tags _).2.cur = st.cur ++ recOf (Ev.uact ts i tag :: (recUpd ts i tags _).1)
      rw [a3]; simp [recOf, recordedAct]
    · show (recUpd ts i tags _).2.all = st.all ++ recOf (Ev.uact ts i tag :: (recUpd ts i tags _).1)
      rw [a4]; simp [recOf, recordedAct]

theorem runUpdFrom_frame (sc : Script) (ts : Int) (row : Nat) : ∀ (i : Nat) (ms : List MarketCfg) (st : St),
    Frame st (runUpdFrom sc ts row i ms st)
  | _, [], st => Frame.refl st
  | i, _ :: rest, st => by
    have h := Frame.trans (recUpd_frame ts i (sc.upd row i) st) (runUpdFrom_frame sc ts row (i + 1) rest _)
    exact Frame.cons_silent (Ev.update ts i) rfl h

/-- set events record nothing -/
theorem recOf_setAllFrom (cfg : Cfg) (ts : Int) (stage : Nat) : ∀ (i : Nat) (ms : List MarketCfg),
    recOf (setAllFrom cfg ts stage i ms).1 = []
  | _, [] => rfl
  | i, _ :: rest => by
    have ih := recOf_setAllFrom cfg ts stage (i + 1) rest
    simp only [setAllFrom, recOf, List.filterMap_cons, setEv, recordedAct] at ih ⊢
    exact ih

theorem recOf_setUpdatedFrom (cfg : Cfg) (ts : Int) : ∀ (i : Nat) (ms : List MarketCfg) (ss : List MSt),
    recOf (setUpdatedFrom cfg ts i ms ss).1 = []
  | _, [], _ => by unfold setUpdatedFrom; rfl
  | _, _ :: _, [] => by unfold setUpdatedFrom; rfl
  | i, mc :: rest, s :: ss => by
    have ih := recOf_setUpdatedFrom cfg ts (i + 1) rest ss
    unfold setUpdatedFrom
    split
    · simp only [recOf, List.filterMap_cons, setEv, recordedAct] at ih ⊢
      exact ih
    · exact ih

theorem doOp_noNotify (ts : Int) (h : Hook) (op : OpSpec) (st : St) : (doOp ts h op st).1.filterMap notifyAct = [] := by
  unfold doOp
  split
  · rfl
  · split
    · split <;> rfl
    · split
      · rfl
      · split <;> rfl

theorem runOps_noNotify (ts : Int) (h : Hook) : ∀ (ops : List OpSpec) (st : St), (runOps ts h ops st).1.filterMap notifyAct = []
  | [], _ => rfl
  | op :: ops, st => by
    simp only [runOps, List.filterMap_append, doOp_noNotify, runOps_noNotify ts h ops, List.append_nil]

theorem cur_drop_of_getElem? {l : List Act} {i : Nat} {a : Act} (h : l[i]? = some a) (x : List Act) :
    (l ++ x).drop i = a :: (l ++ x).drop (i + 1) := by
  obtain ⟨hi, ha⟩ := List.getElem?_eq_some_iff.mp h
  have hi' : i < (l ++ x).length := by rw [List.length_append]; omega
  rw [List.drop_eq_getElem_cons hi', List.getElem_append_left hi, ha]

/-- whatever the `notify` hook does, and whether or not the loop comes to an end: the installed triggers and the account rows stay -/
theorem runNotify_trigs (sc : Script) (ts : Int) (row : Nat) : ∀ (fuel i : Nat) (st : St),
    (runNotify sc ts row fuel i st).2.1.trigs = st.trigs ∧ (runNotify sc ts row fuel i st).2.1.rows = st.rows
  | 0, _, _ => ⟨rfl, rfl⟩
  | fuel + 1, i, st => by
    unfold runNotify
    split
    · exact ⟨rfl, rfl⟩
    · rename_i a _
      have f0 := runOps_frame ts .notify (sc.notify row a.tag) st
      obtain ⟨h1, h2⟩ := runNotify_trigs sc ts row fuel (i + 1) (runOps ts .notify (sc.notify row a.tag) st).2
      exact ⟨by simp only []; rw [h1, f0.2.1], by simp only []; rw [h2, f0.1]⟩

/-- a hook that does nothing in `notify`: the loop ends as soon as the fuel covers what is left of the list -/
theorem runNotify_quiet (sc : Script) (ts : Int) (row : Nat) (hq : ∀ r t, sc.notify r t = []) : ∀ (fuel i : Nat) (st : St),
    st.cur.length ≤ i + fuel → (runNotify sc ts row fuel i st).2.2 = true
  | 0, i, st, h => by
    simp only [runNotify]
    have : st.cur[i]? = none := List.getElem?_eq_none_iff.mpr (by omega)
    simp [this]
  | fuel + 1, i, st, h => by
    unfold runNotify
    split
    · rfl
    · rename_i a _
      simp only [hq, runOps]
      exact runNotify_quiet sc ts row hq fuel (i + 1) st (by omega)

/-- **the `notify` loop** (a loop that came to an end): rows and triggers untouched, the two action lists extended by exactly what the hook's
    own operations recorded, and the deliveries are — in order, once each — the entries of `_currents.actions` from the iterator's start
    position on, INCLUDING the ones appended while the loop ran -/
theorem runNotify_book (sc : Script) (ts : Int) (row : Nat) : ∀ (fuel i : Nat) (st : St),
    (runNotify sc ts row fuel i st).2.2 = true →
    Frame st ((runNotify sc ts row fuel i st).1, (runNotify sc ts row fuel i st).2.1) ∧
    (runNotify sc ts row fuel i st).1.filterMap notifyAct = (runNotify sc ts row fuel i st).2.1.cur.drop i
  | 0, i, st, h => by
    simp only [runNotify] at h ⊢
    refine ⟨Frame.refl st, ?_⟩
    have : st.cur.length ≤ i := List.getElem?_eq_none_iff.mp (by simpa using h)
    simp [List.drop_eq_nil_of_le this]
  | fuel + 1, i, st, h => by
    unfold runNotify at h ⊢
    split at h
    · rename_i hn
      simp only [hn]
      refine ⟨Frame.refl st, ?_⟩
      have : st.cur.length ≤ i := List.getElem?_eq_none_iff.mp hn
      simp [List.drop_eq_nil_of_le this]
    · rename_i a ha
      simp only [ha]
      simp only [] at h
      obtain ⟨f1, f2⟩ := runNotify_book sc ts row fuel (i + 1) _ h
      have f0 := runOps_frame ts .notify (sc.notify row a.tag) st
      refine ⟨Frame.cons_silent _ rfl (Frame.trans f0 f1), ?_⟩
      simp only [List.filterMap_cons, notifyAct, List.filterMap_append, runOps_noNotify, List.nil_append, f2]
      have hc : (runNotify sc ts row fuel (i + 1) (runOps ts .notify (sc.notify row a.tag) st).2).2.1.cur
          = st.cur ++ (recOf (runOps ts .notify (sc.notify row a.tag) st).1 ++
              recOf (runNotify sc ts row fuel (i + 1) (runOps ts .notify (sc.notify row a.tag) st).2).1) := by
        rw [f1.2.2.1, f0.2.2.1, List.append_assoc]
      rw [hc, cur_drop_of_getElem? ha]
      cases a; rfl

theorem notifyAct_phase (e : Ev) (h : (notifyAct e).isSome) : e.phase = 15 := by
  cases e <;> simp [notifyAct] at h
  rfl

/-- the bookkeeping of one bar whose `notify` loop came to an end: rows untouched until the end, both action lists extended by what the bar
    recorded (operations issued from inside `notify` included), and the `notify` calls deliver exactly the final `_currents.actions` -/
theorem barParts_book (cfg : Cfg) (sc : Script) (row : Nat) (ts : Int) (st : St) (price : Option Int)
    (hdone : (barParts cfg sc row ts st price).nt.2.2 = true) :
    let p := barParts cfg sc row ts st price
    p.nt.2.1.rows = st.rows ∧
    p.nt.2.1.cur = st.cur ++ recOf (p.trace row ts) ∧
    p.nt.2.1.all = st.all ++ recOf (p.trace row ts) ∧
    (p.trace row ts).filterMap notifyAct = p.nt.2.1.cur := by
  intro p
  have fb : Frame { st with ms := p.s1.2 } p.b := runOps_frame ts .before _ _
  have ff : Frame p.b.2 p.f := runFires_frame sc ts row _ _
  have fo : Frame { p.f.2 with trigs := p.tp.2.1 } p.o := runOpenFrom_frame sc ts row 0 _ _
  have fn : Frame p.o.2 p.n := runOps_frame ts .on _ _
  have fu : Frame { p.n.2 with ms := p.s2.2 } p.u := runUpdFrom_frame sc ts row 0 _ _
  have fa : Frame p.u.2 p.a := runOps_frame ts .after _ _
  obtain ⟨fnt, hdel⟩ := runNotify_book sc ts row (p.a.2.cur.length + sc.fuel) 0 p.a.2 hdone
  have fnt' : Frame p.a.2 (p.nt.1, p.nt.2.1) := fnt
  have hdel' : p.nt.1.filterMap notifyAct = p.nt.2.1.cur := by
    have : p.nt.1.filterMap notifyAct = p.nt.2.1.cur.drop 0 := hdel
    simpa using this
  have hs1 : recOf p.s1.1 = [] := recOf_setAllFrom cfg ts 1 0 _
  have hs2 : recOf p.s2.1 = [] := recOf_setUpdatedFrom cfg ts 0 _ _
  have hrec : recOf (p.trace row ts) = recOf p.b.1 ++ recOf p.f.1 ++ recOf p.o.1 ++ recOf p.n.1 ++ recOf p.u.1 ++ recOf p.a.1 ++ recOf p.nt.1 := by
    simp only [BarParts.trace, recOf_append, hs1, hs2, List.nil_append, List.append_nil]
    simp only [recOf, List.filterMap_cons, recordedAct]
  have hno : (p.trace row ts).filterMap notifyAct = p.nt.1.filterMap notifyAct := by
    have k1 := fm_nil_of_allAt notifyAct_phase (setAllFrom_at cfg ts 1 0 cfg.markets) (c' := stagePhase 1) (by simp [stagePhase])
    have k2 := fun ops st' => fm_nil_of_allAt notifyAct_phase (runOps_at ts .before ops st') (by simp [Hook.phase])
    have k3 := fun fs st' => fm_nil_of_allAt notifyAct_phase (runFires_at sc ts row fs st') (by omega)
    have k4 := fun ms st' => fm_nil_of_allAt notifyAct_phase (runOpenFrom_at sc ts row 0 ms st') (by omega)
    have k5 := fun ops st' => fm_nil_of_allAt notifyAct_phase (runOps_at ts .on ops st') (by simp [Hook.phase])
    have k6 := fun ms ss => fm_nil_of_allAt notifyAct_phase (setUpdatedFrom_at cfg ts 0 ms ss) (by omega)
    have k7 := fun ms st' => fm_nil_of_allAt notifyAct_phase (runUpdFrom_at sc ts row 0 ms st') (by omega)
    have k8 := fun ops st' => fm_nil_of_allAt notifyAct_phase (runOps_at ts .after ops st') (by simp [Hook.phase])
    have e : p = barParts cfg sc row ts st price := rfl
    rw [e]
    simp only [BarParts.trace, barParts, List.filterMap_append, List.filterMap_cons, k1, k2, k3, k4, k5, k6, k7, k8,
      notifyAct, List.nil_append, List.append_nil]
  have hcur : p.nt.2.1.cur = st.cur ++ recOf (p.trace row ts) := by
    rw [hrec, fnt'.2.2.1, fa.2.2.1, fu.2.2.1, fn.2.2.1, fo.2.2.1, ff.2.2.1, fb.2.2.1]
    simp only [List.append_assoc]
  refine ⟨?_, hcur, ?_, ?_⟩
  · rw [fnt'.1, fa.1, fu.1, fn.1, fo.1, ff.1, fb.1]
  · rw [hrec, fnt'.2.2.2, fa.2.2.2, fu.2.2.2, fn.2.2.2, fo.2.2.2, ff.2.2.2, fb.2.2.2]
    simp only [List.append_assoc]
  · rw [hno, hdel']


end Demeter.Core
