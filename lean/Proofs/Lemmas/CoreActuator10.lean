import Proofs.Lemmas.CoreActuator9
namespace Demeter.Core

theorem setAllFrom_hu (cfg : Cfg) (ts : Int) (stage : Nat) : ∀ (i : Nat) (ms : List MarketCfg),
    (setAllFrom cfg ts stage i ms).2.length = ms.length ∧ ∀ s ∈ (setAllFrom cfg ts stage i ms).2, s.hasUpdate = false
  | _, [] => ⟨rfl, fun _ h => nomatch h⟩
  | i, _ :: rest => by
    obtain ⟨a1, a2⟩ := setAllFrom_hu cfg ts stage (i + 1) rest
    refine ⟨by simp [setAllFrom, a1], ?_⟩
    intro s hs
    simp only [setAllFrom, List.mem_cons] at hs
    rcases hs with rfl | h'
    · rfl
    · exact a2 s h'

/-- accepted operations among the events of phase ≤ 9 (before the second refresh) -/
def okEarly (m : Nat) (e : Ev) : Bool := okOn m e && decide (e.phase ≤ 9)

theorem any_okEarly_of_allAt {ts : Int} {c : Nat} {l : List Ev} (h : AllAt ts c l) (m : Nat) :
    l.any (okEarly m) = (decide (c ≤ 9) && anyOk m l) := by
  induction l with
  | nil => simp [anyOk]
  | cons e l ih =>
    have he := (h e (List.mem_cons_self ..)).2
    have ih' := ih (fun x hx => h x (List.mem_cons_of_mem _ hx))
    simp only [List.any_cons, ih', anyOk, okEarly, he]
    cases okOn m e <;> cases decide (c ≤ 9) <;> simp

theorem anyOk_setAllFrom (cfg : Cfg) (ts : Int) (stage : Nat) (m : Nat) : ∀ (i : Nat) (ms : List MarketCfg),
    anyOk m (setAllFrom cfg ts stage i ms).1 = false
  | _, [] => rfl
  | i, _ :: rest => by
    have := anyOk_setAllFrom cfg ts stage m (i + 1) rest
    simp only [anyOk, setAllFrom, List.any_cons, setEv, okOn, Bool.false_or] at this ⊢
    exact this

/-- the `is_open` flags before the second refresh are still the ones of the first -/
theorem barParts_openInv_n (cfg : Cfg) (sc : Script) (row : Nat) (ts : Int) (st : St) (price : Option Int) :
    OpenInv cfg ts (barParts cfg sc row ts st price).n.2.ms := by
  have g1 := setAllFrom_gate cfg ts 1 0 cfg.markets List.drop_zero
  obtain ⟨_, ib⟩ := runOps_gate cfg ts .before (sc.before row) ({ st with ms := (setAllFrom cfg ts 1 0 cfg.markets).2 } : St) g1.2
  obtain ⟨_, if_⟩ := runFires_gate cfg sc ts row (barParts cfg sc row ts st price).tp.1 _ ib
  obtain ⟨_, io⟩ := runOpenFrom_gate cfg sc ts row 0 cfg.markets
    { (barParts cfg sc row ts st price).f.2 with trigs := (barParts cfg sc row ts st price).tp.2.1 } List.drop_zero if_
  exact (runOps_gate cfg ts .on (sc.on row) _ io).2

/-- **second refresh ⇔ has_update**: in every bar, from every state, the second status refresh touches exactly the markets on
    which an operation was accepted earlier in that bar (in `before_bar`, a trigger action, an open callback or `on_bar`), once
    each, in broker order -/
theorem barTrace_second_refresh (cfg : Cfg) (sc : Script) (row : Nat) (ts : Int) (st : St) (price : Option Int) :
    ((barParts cfg sc row ts st price).trace row ts).filterMap set2Of =
      ((List.range cfg.markets.length).filter
        (fun m => ((barParts cfg sc row ts st price).trace row ts).any (okEarly m))).map (fun m => (ts, m)) := by
  rw [barTrace_fm_seg set2Of 10 set2Of_phase (by omega), segOf_10]
  generalize hp : barParts cfg sc row ts st price = p
  have hinv : OpenInv cfg ts p.n.2.ms := by rw [← hp]; exact barParts_openInv_n cfg sc row ts st price
  have hlen : p.n.2.ms.length = cfg.markets.length := by
    have := congrArg List.length hinv; simpa using this
  have hs2 : p.s2 = setUpdatedFrom cfg ts 0 cfg.markets p.n.2.ms := by rw [← hp]; rfl
  -- the flags before the second refresh
  have hs1 := setAllFrom_hu cfg ts 1 0 cfg.markets
  have rb : HURel p.b.1 p.s1.2 p.b.2.ms := by rw [← hp]; exact runOps_hu ts .before _ _
  have rf : HURel p.f.1 p.b.2.ms p.f.2.ms := by rw [← hp]; exact runFires_hu sc ts row _ _
  have ro : HURel p.o.1 p.f.2.ms p.o.2.ms := by rw [← hp]; exact runOpenFrom_hu sc ts row 0 _ _
  have rn : HURel p.n.1 p.o.2.ms p.n.2.ms := by rw [← hp]; exact runOps_hu ts .on _ _
  have rall := HURel.trans (HURel.trans (HURel.trans rb rf) ro) rn
  have hs1e : p.s1 = setAllFrom cfg ts 1 0 cfg.markets := by rw [← hp]; rfl
  -- the early accepted operations of the whole bar trace are those four stretches
  have hany : ∀ m, (p.trace row ts).any (okEarly m) = anyOk m (p.b.1 ++ p.f.1 ++ p.o.1 ++ p.n.1) := by
    intro m
    have a_s1 := any_okEarly_of_allAt (show AllAt ts 3 p.s1.1 by rw [hs1e]; exact setAllFrom_at cfg ts 1 0 _) m
    have a_b := any_okEarly_of_allAt (show AllAt ts 5 p.b.1 by rw [← hp]; exact runOps_at ts .before _ _) m
    have a_f := any_okEarly_of_allAt (show AllAt ts 6 p.f.1 by rw [← hp]; exact runFires_at sc ts row _ _) m
    have a_o := any_okEarly_of_allAt (show AllAt ts 7 p.o.1 by rw [← hp]; exact runOpenFrom_at sc ts row 0 _ _) m
    have a_n := any_okEarly_of_allAt (show AllAt ts 9 p.n.1 by rw [← hp]; exact runOps_at ts .on _ _) m
    have a_s2 := any_okEarly_of_allAt (show AllAt ts 10 p.s2.1 by rw [hs2]; exact setUpdatedFrom_at cfg ts 0 _ _) m
    have a_u := any_okEarly_of_allAt (show AllAt ts 11 p.u.1 by rw [← hp]; exact runUpdFrom_at sc ts row 0 _ _) m
    have a_a := any_okEarly_of_allAt (show AllAt ts 13 p.a.1 by rw [← hp]; exact runOps_at ts .after _ _) m
    have a_no : p.nt.1.any (okEarly m) = false := by
      have := any_okEarly_of_allAt (show AllAt ts 15 p.nt.1 by rw [← hp]; exact runNotify_at sc ts row _ _ _) m
      simpa using this
    have z1 : anyOk m p.s1.1 = false := by rw [hs1e]; exact anyOk_setAllFrom cfg ts 1 m 0 _
    simp only [BarParts.trace, List.any_append, List.any_cons, a_s1, a_b, a_f, a_o, a_n, a_s2, a_u, a_a, a_no, z1, okEarly, okOn,
      anyOk_append]
    simp
  rw [hs2, setUpdatedFrom_sets cfg ts 0 cfg.markets p.n.2.ms hlen.symm, hlen, ← List.range_eq_range']
  congr 1
  apply List.filter_congr
  intro k hk
  have hk' : k < cfg.markets.length := List.mem_range.mp hk
  rw [hany k, Nat.sub_zero, rall k]
  have hk1 : k < p.s1.2.length := by rw [hs1e, hs1.1]; exact hk'
  have hget : p.s1.2[k]? = some p.s1.2[k] := List.getElem?_eq_getElem hk1
  have hfalse : (p.s1.2[k]).hasUpdate = false := by
    have := hs1.2 (p.s1.2[k]) (by rw [← hs1e]; exact List.getElem_mem hk1)
    exact this
  rw [hget]
  simp only [Option.map_some, hfalse, Bool.false_or]
  cases anyOk k (p.b.1 ++ p.f.1 ++ p.o.1 ++ p.n.1) <;> simp

end Demeter.Core
