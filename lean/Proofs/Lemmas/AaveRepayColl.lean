/-
  Inversion of an accepted `repay(..., repay_with_collateral=True)`: next to what `repay_inv` says (positions afterwards), the
  *amount actually paid back* — the amount asked for, or, when that is worth more than the collateral supply holds, the
  counter-value of the whole supply ("contract will change payback amount instead of raise an error").  Any arithmetic context.
-/
import Proofs.Lemmas.AaveInv
namespace Demeter.Aave
open Demeter M

variable {cx : ACtx} {env : Env}

/-- the pay-back amount `repay` settles on when repaying `a0` of `tok` out of the collateral supply `(cinfo, cst)` of `ctok` -/
def CappedPayback (cx : ACtx) (env : Env) (tok ctok : String) (a0 : Rat) (cinfo : SupplyInfo) (cst : TokStatus) (p : Rat) : Prop :=
  ∃ need, swapAmount cx env tok ctok a0 = .ok need ∧
    ((need > cx.mul cinfo.base cst.liqIdx ∧ swapAmount cx env ctok tok (cx.mul cinfo.base cst.liqIdx) = .ok p) ∨
     (¬ need > cx.mul cinfo.base cst.liqIdx ∧ p = a0))

theorem repayCollateralCap_ok_inv {s s1 : St} (hs : Good cx env s) {tok ctok : String} {a0 p : Rat}
    (h : repayCollateralCap cx env tok ctok a0 s = (.ok p, s1)) :
    ∃ cinfo cst, AList.get? s.supplies ctok = some cinfo ∧ env.statusOf ctok = .ok cst ∧
      CappedPayback cx env tok ctok a0 cinfo cst p := by
  unfold repayCollateralCap at h
  obtain ⟨sv, s2, h1, h⟩ := bind_ok_inv h
  obtain ⟨_, g2, p2, _⟩ := reads_suppliesView (cx := cx) (env := env) s hs
  rw [h1] at g2 p2
  dsimp only at g2 p2
  obtain ⟨_, s3, h2, h⟩ := bind_ok_inv h
  obtain ⟨_, rfl⟩ := require_ok_inv h2
  obtain ⟨sv', s3, h3, h⟩ := bind_ok_inv h
  obtain ⟨_, g3, p3, _⟩ := reads_suppliesView (cx := cx) (env := env) s2 g2
  rw [h3] at g3 p3
  dsimp only at g3 p3
  obtain ⟨c, s4, h4, h⟩ := bind_ok_inv h
  obtain ⟨_, rfl⟩ := ofRes_ok_inv h4
  obtain ⟨_, s4, h5, h⟩ := bind_ok_inv h
  obtain ⟨_, rfl⟩ := require_ok_inv h5
  obtain ⟨need, s4, h6, h⟩ := bind_ok_inv h
  obtain ⟨hneed, rfl⟩ := ofRes_ok_inv h6
  obtain ⟨sup, s5, h7, h⟩ := bind_ok_inv h
  obtain ⟨cinfo, cst, hci, hcst, hamt, _⟩ := getSupply_ok_good g3 h7
  rw [p3, p2] at hci
  refine ⟨cinfo, cst, hci, hcst, need, hneed, ?_⟩
  rw [hamt] at h
  by_cases hc : need > cx.mul cinfo.base cst.liqIdx
  · simp only [hc, if_true] at h
    obtain ⟨hp, _⟩ := ofRes_ok_inv h
    exact Or.inl ⟨hc, hp⟩
  · simp only [hc, if_false] at h
    obtain ⟨hp, _⟩ := pure_ok_inv h
    exact Or.inr ⟨hc, hp.symm⟩

/-- `repay_inv` for a repayment out of collateral, with the amount paid back made explicit -/
theorem repay_coll_inv {s s' : St} (hs : Good cx env s) {tok : String} {amount? : Option Rat}
    {collTok? : Option String} (h : repay cx env tok amount? true collTok? s = (.ok (), s')) :
    ∃ st info cinfo cst payback inColl, env.statusOf tok = .ok st ∧ st.varIdx ≠ 0 ∧
      AList.get? s.borrows tok = some info ∧
      AList.get? s.supplies (collTok?.getD tok) = some cinfo ∧ env.statusOf (collTok?.getD tok) = .ok cst ∧ cst.liqIdx ≠ 0 ∧
      CappedPayback cx env tok (collTok?.getD tok) (amount?.getD (cx.mul info.base st.varIdx)) cinfo cst payback ∧
      swapAmount cx env tok (collTok?.getD tok) payback = .ok inColl ∧
      s'.core = ⟨supAfterSub s.supplies (collTok?.getD tok) cinfo (subBase cx cinfo.base (cx.div inColl cst.liqIdx)),
                 borAfterSub s.borrows tok info (subBase cx info.base (cx.div payback st.varIdx)), s.wallet,
                 s.actions ++ [.repay tok payback (cx.mul (subBase cx info.base (cx.div payback st.varIdx)) st.varIdx)]⟩ := by
  obtain ⟨st, info, payback, nb, _, hst, hnz, hg, _, _, hnb, _, hcoll⟩ := repay_inv hs h
  obtain ⟨cinfo, cst, inColl, cnb, hci, hcst, hcnz, hsw, hcnb, hc⟩ := hcoll rfl
  refine ⟨st, info, cinfo, cst, payback, inColl, hst, hnz, hg, hci, hcst, hcnz, ?_, hsw, by rw [← hnb, ← hcnb]; exact hc⟩
  -- second pass over the prefix of `repay`: which amount the cap settled on; it is the amount of the recorded action
  unfold repay guardOpen at h
  obtain ⟨_, s1, h1, h⟩ := bind_ok_inv h
  obtain ⟨_, rfl⟩ := require_ok_inv h1
  obtain ⟨st', s1, h1, h⟩ := bind_ok_inv h
  obtain ⟨hst', rfl⟩ := ofRes_ok_inv h1
  rw [hst] at hst'; cases hst'
  obtain ⟨bv, s1, h1, h⟩ := bind_ok_inv h
  obtain ⟨info', st', hg', hst', hamt, c1, g1⟩ := getBorrow_ok_good hs h1
  rw [hst] at hst'; cases hst'
  rw [hg] at hg'; cases hg'
  dsimp only at h
  rw [hamt] at h
  obtain ⟨payback', s2, h1, h⟩ := bind_ok_inv h
  unfold repayAmountOf at h1
  simp only [if_true] at h1
  obtain ⟨cinfo', cst', hci', hcst', hcap⟩ := repayCollateralCap_ok_inv g1 h1
  rw [show s1.supplies = s.supplies from congrArg Core.supplies c1, hci] at hci'; cases hci'
  rw [hcst] at hcst'; cases hcst'
  -- the rest of the call records `payback'`
  suffices hpp : payback' = payback by rw [← hpp]; exact hcap
  obtain ⟨pbBase, s3, h1, h⟩ := bind_ok_inv h
  obtain ⟨_, rfl⟩ := ofRes_ok_inv h1
  obtain ⟨_, s3, h1, h⟩ := bind_ok_inv h
  obtain ⟨_, rfl⟩ := require_ok_inv h1
  obtain ⟨info2, s3, h1, h⟩ := bind_ok_inv h
  obtain ⟨_, rfl⟩ := queryPos_ok_inv h1
  obtain ⟨_, s3, h1, h⟩ := bind_ok_inv h
  obtain ⟨_, rfl⟩ := require_ok_inv h1
  obtain ⟨rr, s3, h1, h⟩ := bind_ok_inv h
  obtain ⟨_, rfl⟩ := ofRes_ok_inv h1
  obtain ⟨_, s3, h1, h⟩ := bind_ok_inv h
  obtain ⟨_, rfl⟩ := require_ok_inv h1
  obtain ⟨_, s3, h1, h⟩ := bind_ok_inv h
  obtain ⟨debt, s4, h2, h⟩ := bind_ok_inv h
  obtain ⟨_, s5, h3, h⟩ := bind_ok_inv h
  have e5 := modify_ok_inv h3
  have e6 := modify_ok_inv h
  have hact : s'.actions = s4.actions ++ [.repay tok payback' (cx.mul debt st.varIdx)] := by
    rw [← e6, ← e5]
  have hact' : s'.actions = s.actions ++ [.repay tok payback (cx.mul nb st.varIdx)] := congrArg Core.actions hc
  rw [hact] at hact'
  have := List.append_inj' hact' rfl
  have h2' := this.2
  simp only [List.cons.injEq, Action.repay.injEq, and_true, true_and] at h2'
  exact h2'.1

end Demeter.Aave
