/-
  Reasoning kit for the Aave state machine's monad `M α = St → Except Err α × St`:
  `run_*` unfolding lemmas, invariants (`Inv`), invariants outside a set of excluded errors (`InvE`),
  and the `inv_step` tactic that walks a `do` block.
-/
import Demeter.Aave
namespace Demeter.Aave
open M

/-! ### unfolding -/

theorem run_bind {α β : Type} (m : M α) (f : α → M β) (s : St) :
    (m >>= f) s = match m s with
      | (.ok a, s') => f a s'
      | (.error e, s') => (.error e, s') := rfl

theorem run_bind_ok {α β : Type} {m : M α} {f : α → M β} {s s' : St} {a : α} (h : m s = (.ok a, s')) :
    (m >>= f) s = f a s' := by rw [run_bind, h]

theorem run_bind_err {α β : Type} {m : M α} {f : α → M β} {s s' : St} {e : Err} (h : m s = (.error e, s')) :
    (m >>= f) s = (.error e, s') := by rw [run_bind, h]

@[simp] theorem run_pure {α : Type} (a : α) (s : St) : (pure a : M α) s = (.ok a, s) := rfl
@[simp] theorem run_throw {α : Type} (e : Err) (s : St) : (M.throw e : M α) s = (.error e, s) := rfl
@[simp] theorem run_get (s : St) : M.get s = (.ok s, s) := rfl
@[simp] theorem run_modify (f : St → St) (s : St) : M.modify f s = (.ok (), f s) := rfl
@[simp] theorem run_ofRes {α : Type} (r : Res α) (s : St) : M.ofRes r s = (r, s) := rfl
@[simp] theorem run_queryPos {α : Type} (q : AList String SupplyInfo → AList String BorrowInfo → Res α) (s : St) :
    M.queryPos q s = (q s.supplies s.borrows, s) := rfl
theorem run_require (c : Bool) (e : Err) (s : St) :
    M.require c e s = if c then (.ok (), s) else (.error e, s) := rfl
@[simp] theorem run_require_true (e : Err) (s : St) : M.require true e s = (.ok (), s) := rfl
@[simp] theorem run_require_false (e : Err) (s : St) : M.require false e s = (.error e, s) := rfl

theorem run_onError {α : Type} (m : M α) (fin : St → St) (s : St) :
    onError m fin s = match m s with
      | (.ok a, s1) => (.ok a, s1)
      | (.error e, s1) => (.error e, fin s1) := rfl
theorem run_onError_ok {α : Type} {m : M α} {fin : St → St} {s s1 : St} {a : α} (h : m s = (.ok a, s1)) :
    onError m fin s = (.ok a, s1) := by rw [run_onError, h]
theorem run_onError_err {α : Type} {m : M α} {fin : St → St} {s s1 : St} {e : Err} (h : m s = (.error e, s1)) :
    onError m fin s = (.error e, fin s1) := by rw [run_onError, h]

/-- `checkCanCollateral` reads the risk table only -/
theorem checkCanCollateral_snd (env : Env) (tok : String) (coll : Bool) (s : St) :
    (checkCanCollateral env tok coll s).2 = s := by
  unfold checkCanCollateral
  cases coll with
  | false => rfl
  | true =>
    simp only [if_true]
    rw [run_bind, run_ofRes]
    cases env.riskOf tok with
    | error e => rfl
    | ok r => simp only [run_require]; split <;> rfl

/-! ### invariants -/

/-- `m` keeps `I`, whatever it returns or raises -/
def Inv (I : St → Prop) {α : Type} (m : M α) : Prop := ∀ s, I s → I (m s).2

theorem Inv.bind {I : St → Prop} {α β : Type} {m : M α} {f : α → M β}
    (hm : Inv I m) (hf : ∀ a, Inv I (f a)) : Inv I (m >>= f) := by
  intro s hs
  rw [run_bind]
  have h1 := hm s hs
  split
  · rename_i a s' heq
    rw [heq] at h1
    exact hf a s' h1
  · rename_i e s' heq
    rw [heq] at h1
    exact h1

theorem Inv.pure {I : St → Prop} {α : Type} (a : α) : Inv I (pure a : M α) := fun _ h => h
theorem Inv.ofRes {I : St → Prop} {α : Type} (r : Res α) : Inv I (M.ofRes r) := fun _ h => h
theorem Inv.throw {I : St → Prop} {α : Type} (e : Err) : Inv I (M.throw e : M α) := fun _ h => h
theorem Inv.get {I : St → Prop} : Inv I M.get := fun _ h => h
theorem Inv.queryPos {I : St → Prop} {α : Type} (q : AList String SupplyInfo → AList String BorrowInfo → Res α) :
    Inv I (M.queryPos q) := fun _ h => h
theorem Inv.require {I : St → Prop} (c : Bool) (e : Err) : Inv I (M.require c e) := by
  intro s h; rw [run_require]; split <;> exact h
theorem Inv.modify {I : St → Prop} (f : St → St) (h : ∀ s, I s → I (f s)) : Inv I (M.modify f) := fun s hs => h s hs

theorem Inv.checkCanCollateral {I : St → Prop} (env : Env) (tok : String) (coll : Bool) :
    Inv I (checkCanCollateral env tok coll) := fun s h => by rw [checkCanCollateral_snd]; exact h
theorem Inv.onError {I : St → Prop} {α : Type} {m : M α} {fin : St → St} (hm : Inv I m) (hf : ∀ s, I s → I (fin s)) :
    Inv I (onError m fin) := by
  intro s hs
  have h1 := hm s hs
  rw [run_onError]
  rcases hms : m s with ⟨r, s1⟩
  rw [hms] at h1
  cases r with
  | ok a => exact h1
  | error e => exact hf s1 h1

/-- `m` keeps `I` unless it raises one of the excluded errors -/
def InvE (I : St → Prop) (bad : Err → Prop) {α : Type} (m : M α) : Prop :=
  ∀ s, I s → (∀ e, (m s).1 = .error e → ¬ bad e) → I (m s).2

theorem Inv.toE {I : St → Prop} {bad : Err → Prop} {α : Type} {m : M α} (h : Inv I m) : InvE I bad m :=
  fun s hs _ => h s hs

theorem InvE.bind {I : St → Prop} {bad : Err → Prop} {α β : Type} {m : M α} {f : α → M β}
    (hm : InvE I bad m) (hf : ∀ a, InvE I bad (f a)) : InvE I bad (m >>= f) := by
  intro s hs hb
  have h1 := hm s hs
  rcases hms : m s with ⟨r, s'⟩
  rw [hms] at h1
  cases r with
  | ok a =>
    rw [run_bind_ok hms] at hb ⊢
    exact hf a s' (h1 (fun e he => by simp at he)) hb
  | error e =>
    rw [run_bind_err hms] at hb ⊢
    refine h1 (fun e' he' => hb e' ?_)
    simp only [Except.error.injEq] at he' ⊢
    exact he'

theorem Inv.bind_ofRes {I : St → Prop} {α β : Type} {r : Res α} {f : α → M β}
    (h : ∀ a, r = .ok a → Inv I (f a)) : Inv I (M.ofRes r >>= f) := by
  intro s hs
  rw [run_bind]
  cases r with
  | ok a => exact h a rfl s hs
  | error e => exact hs

/-- one step through a `do` block whose pieces keep the invariant -/
macro "inv_step" : tactic => `(tactic| first
  | assumption
  | exact Inv.pure _ | exact Inv.ofRes _ | exact Inv.throw _ | exact Inv.get | exact Inv.require _ _
  | exact Inv.queryPos _ | exact Inv.checkCanCollateral _ _ _
  | refine Inv.bind_ofRes (fun _ _ => ?_)
  | refine Inv.bind ?_ (fun _ => ?_)
  | split
  | dsimp only)

end Demeter.Aave
