/-
  Lemmas for Proofs/C05/Hooks.lean: sequencing (`Res.andThen`), the relation "the same calls, or stopped by an exception after a prefix of
  them" between two runs (`Cut`), and the bookkeeping of the action list / account history along any run, failed or not (`Book`).
-/
import Demeter.Actuator.Hooks
import Proofs.C05
namespace Demeter.Core

theorem andThen_err {r : Res} {k : St → Res} {e : PyErr} (h : r.2.2 = some e) : r.andThen k = r := by
  unfold Res.andThen; rw [h]

theorem andThen_ok {r : Res} {k : St → Res} (h : r.2.2 = none) :
    r.andThen k = (r.1 ++ (k r.2.1).1, (k r.2.1).2.1, (k r.2.1).2.2) := by
  unfold Res.andThen; rw [h]

theorem andThen_okRes (evs : List Ev) (st : St) (k : St → Res) :
    (Res.ok evs st).andThen k = (evs ++ (k st).1, (k st).2.1, (k st).2.2) := rfl

/-! ### `Cut` -/

/-- `r'` is `r`, or `r'` was stopped by an exception after a prefix of the calls of `r` -/
def Cut (r' r : Res) : Prop := r' = r ∨ (r'.2.2 ≠ none ∧ r'.1 <+: r.1)

theorem Cut.refl (r : Res) : Cut r r := Or.inl rfl

theorem Cut.andThen {r' r : Res} {k' k : St → Res} (h1 : Cut r' r) (h2 : ∀ st, Cut (k' st) (k st)) :
    Cut (r'.andThen k') (r.andThen k) := by
  rcases h1 with rfl | ⟨he, hp⟩
  · cases hr : r'.2.2 with
    | some e => rw [andThen_err hr, andThen_err hr]; exact Or.inl rfl
    | none =>
      rw [andThen_ok hr, andThen_ok hr]
      rcases h2 r'.2.1 with heq | ⟨he, hp⟩
      · rw [heq]; exact Or.inl rfl
      · exact Or.inr ⟨he, (List.prefix_append_right_inj _).mpr hp⟩
  · cases hr' : r'.2.2 with
    | none => exact absurd hr' he
    | some e =>
      rw [andThen_err hr']
      refine Or.inr ⟨he, ?_⟩
      cases hr : r.2.2 with
      | some e2 => rw [andThen_err hr]; exact hp
      | none => rw [andThen_ok hr]; exact hp.trans (List.prefix_append _ _)

/-- cutting a hook body short with a raise -/
theorem runStmts_cut (ts : Int) (h : Hook) (e : PyErr) : ∀ (j : Nat) (body : List HStmt) (st : St),
    Cut (runStmts ts h (cutBody j e body) st) (runStmts ts h body st)
  | 0, body, st => Or.inr ⟨by simp [cutBody, runStmts, doStmt, Res.andThen], by simp [cutBody, runStmts, doStmt, Res.andThen]⟩
  | j + 1, [], st => Or.inr ⟨by simp [cutBody, runStmts, doStmt, Res.andThen], by simp [cutBody, runStmts, doStmt, Res.andThen]⟩
  | j + 1, s :: ss, st => by
    have : cutBody (j + 1) e (s :: ss) = s :: cutBody j e ss := by simp [cutBody]
    rw [this]
    simp only [runStmts]
    exact Cut.andThen (Cut.refl _) (fun st' => runStmts_cut ts h e j ss st')

/-- hook by hook, `b'` does what `b` does or stops earlier with an exception -/
structure BarCut (b' b : BarScript) : Prop where
  before : ∀ ts st, Cut (runStmts ts .before b'.before st) (runStmts ts .before b.before st)
  fire : ∀ ts id st, Cut (runStmts ts (.fire id) (b'.fire id) st) (runStmts ts (.fire id) (b.fire id) st)
  openCb : ∀ ts m st, Cut (runStmts ts (.openCb m) (b'.openCb m) st) (runStmts ts (.openCb m) (b.openCb m) st)
  on : ∀ ts st, Cut (runStmts ts .on b'.on st) (runStmts ts .on b.on st)
  after : ∀ ts st, Cut (runStmts ts .after b'.after st) (runStmts ts .after b.after st)
  notify : ∀ ts tag st, Cut (runStmts ts .notify (b'.notify tag) st) (runStmts ts .notify (b.notify tag) st)
  upd : b'.upd = b.upd

theorem BarCut.refl (b : BarScript) : BarCut b b :=
  ⟨fun _ _ => Cut.refl _, fun _ _ _ => Cut.refl _, fun _ _ _ => Cut.refl _, fun _ _ => Cut.refl _, fun _ _ => Cut.refl _,
   fun _ _ _ => Cut.refl _, rfl⟩

theorem fireLoopG_cut {b' b : BarScript} (hb : BarCut b' b) (ts : Int) : ∀ (fuel i : Nat) (st : St),
    Cut (fireLoopG b' ts fuel i st) (fireLoopG b ts fuel i st)
  | 0, i, st => Cut.refl _
  | fuel + 1, i, st => by
    unfold fireLoopG
    split
    · exact Cut.refl _
    · split
      · exact Cut.refl _
      · simp only []
        split
        · exact Cut.andThen (Cut.andThen (Cut.refl _) (fun st' => hb.fire ts _ st')) (fun st' => fireLoopG_cut hb ts fuel (i + 1) st')
        · exact fireLoopG_cut hb ts fuel (i + 1) _

theorem runOpenFromG_cut {b' b : BarScript} (hb : BarCut b' b) (ts : Int) : ∀ (i : Nat) (ms : List MarketCfg) (st : St),
    Cut (runOpenFromG b' ts i ms st) (runOpenFromG b ts i ms st)
  | _, [], st => Cut.refl _
  | i, mc :: rest, st => by
    unfold runOpenFromG
    split
    · exact Cut.andThen (Cut.andThen (Cut.refl _) (fun st' => hb.openCb ts i st')) (fun st' => runOpenFromG_cut hb ts (i + 1) rest st')
    · exact runOpenFromG_cut hb ts (i + 1) rest st

theorem runUpdFromG_congr {b' b : BarScript} (h : b'.upd = b.upd) (ts : Int) : ∀ (i : Nat) (ms : List MarketCfg) (st : St),
    runUpdFromG b' ts i ms st = runUpdFromG b ts i ms st
  | _, [], _ => rfl
  | i, _ :: rest, st => by
    simp only [runUpdFromG, h, runUpdFromG_congr h ts (i + 1) rest]

theorem runNotifyG_cut {b' b : BarScript} (hb : BarCut b' b) (ts : Int) : ∀ (fuel i : Nat) (st : St),
    Cut (runNotifyG b' ts fuel i st) (runNotifyG b ts fuel i st)
  | 0, i, st => Cut.refl _
  | fuel + 1, i, st => by
    unfold runNotifyG
    split
    · exact Cut.refl _
    · exact Cut.andThen (Cut.andThen (Cut.refl _) (fun st' => hb.notify ts _ st')) (fun st' => runNotifyG_cut hb ts fuel (i + 1) st')

theorem barHeadG_cut {b' b : BarScript} (hb : BarCut b' b) (cfg : Cfg) (tfuel row : Nat) (ts : Int) (price : Option Int) (st : St) :
    Cut (barHeadG cfg b' tfuel row ts price st) (barHeadG cfg b tfuel row ts price st) := by
  unfold barHeadG
  have hmid : midG cfg b' row ts price = midG cfg b row ts price := by
    funext st'; simp only [midG, runUpdFromG_congr hb.upd]
  rw [hmid]
  refine Cut.andThen (Cut.andThen (Cut.andThen (Cut.andThen (Cut.andThen (Cut.andThen (Cut.andThen (Cut.andThen (Cut.refl _) ?_) ?_) ?_) ?_) ?_) ?_) ?_) ?_
  · exact fun st' => hb.before ts st'
  · exact fun st' => fireLoopG_cut hb ts _ 0 st'
  · exact fun st' => Cut.refl _
  · exact fun st' => runOpenFromG_cut hb ts 0 cfg.markets st'
  · exact fun st' => Cut.refl _
  · exact fun st' => hb.on ts st'
  · exact fun st' => Cut.refl _
  · exact fun st' => hb.after ts st'

theorem barTailG_cut {b' b : BarScript} (hb : BarCut b' b) (fuel : Nat) (ts : Int) (price : Option Int) (st : St) :
    Cut (barTailG b' fuel ts price st) (barTailG b fuel ts price st) := by
  unfold barTailG
  exact Cut.andThen (Cut.andThen (Cut.refl _) (fun st' => runNotifyG_cut hb ts _ 0 st')) (fun _ => Cut.refl _)

theorem barStepG_cut {b' b : BarScript} (hb : BarCut b' b) (cfg : Cfg) (fuel tfuel row : Nat) (ts : Int) (st : St) :
    Cut (barStepG cfg b' fuel tfuel row ts st) (barStepG cfg b fuel tfuel row ts st) := by
  unfold barStepG
  split
  · exact Cut.refl _
  · exact Cut.andThen (barHeadG_cut hb cfg tfuel row ts _ st) (fun st' => barTailG_cut hb fuel ts _ st')

/-- `g'` is `g` with hook bodies cut short by a raise (any number of them, anywhere) -/
structure GCut (g' g : GScript) : Prop where
  init : ∀ ts st, Cut (runStmts ts .init g'.init st) (runStmts ts .init g.init st)
  bar : ∀ row, BarCut (g'.bar row) (g.bar row)
  fuel : g'.fuel = g.fuel
  tfuel : g'.tfuel = g.tfuel

theorem runBarsG_cut {g' g : GScript} (hg : GCut g' g) (cfg : Cfg) : ∀ (bars : List Int) (row : Nat) (st : St),
    Cut (runBarsG cfg g' row bars st) (runBarsG cfg g row bars st)
  | [], _, _ => Cut.refl _
  | ts :: bars, row, st => by
    simp only [runBarsG, hg.fuel, hg.tfuel]
    exact Cut.andThen (barStepG_cut (hg.bar row) cfg _ _ row ts st) (fun st' => runBarsG_cut hg cfg bars (row + 1) st')

theorem initG_cut {g' g : GScript} (hg : GCut g' g) (cfg : Cfg) (trigs : List Trig) (ts0 : Int) :
    Cut (initG cfg trigs g' ts0) (initG cfg trigs g ts0) := by
  unfold initG
  exact Cut.andThen (Cut.refl _) (fun st => hg.init ts0 st)

end Demeter.Core
