/-
  `Books`: action list, account history and deliveries along any stretch of the general model; every event of a bar carries the bar's timestamp.
-/
import Proofs.Lemmas.CoreHooks2
namespace Demeter.Core

/-- the action list grows by what the stretch records, the account history by the rows it appends, and the deliveries stay a prefix of the action
    list (and catch up with it when the stretch ends without an exception) -/
def Books (st : St) (r : Res) : Prop :=
  r.2.1.all = st.all ++ recOf r.1 ∧ r.2.1.rows = st.rows ++ r.1.filterMap rowOf ∧ ∀ d, Delivers d st r

theorem Quiet.books {st : St} {r : Res} (h : Quiet st r) : Books st r :=
  ⟨h.2.1, by rw [h.2.2.1, h.2.2.2.2, List.append_nil], fun d => h.delivers d⟩

theorem Books.andThen {st : St} {r : Res} {k : St → Res} (h1 : Books st r) (h2 : ∀ st', Books st' (k st')) : Books st (r.andThen k) := by
  cases hr : r.2.2 with
  | some e => rw [andThen_err hr]; exact h1
  | none =>
    rw [andThen_ok hr]
    obtain ⟨a1, a2, a3⟩ := h1
    obtain ⟨b1, b2, b3⟩ := h2 r.2.1
    refine ⟨?_, ?_, ?_⟩
    · show (k r.2.1).2.1.all = st.all ++ recOf (r.1 ++ (k r.2.1).1)
      rw [b1, a1, recOf_append, List.append_assoc]
    · show (k r.2.1).2.1.rows = st.rows ++ (r.1 ++ (k r.2.1).1).filterMap rowOf
      rw [b2, a2, List.filterMap_append, List.append_assoc]
    · intro d hp
      obtain ⟨_, c2⟩ := a3 d hp
      obtain ⟨e1, e2⟩ := b3 _ (c2 hr)
      show d ++ (r.1 ++ (k r.2.1).1).filterMap notifyAct <+: (k r.2.1).2.1.all ∧
        ((k r.2.1).2.2 = none → Pending (d ++ (r.1 ++ (k r.2.1).1).filterMap notifyAct) (k r.2.1).2.1)
      rw [List.filterMap_append, ← List.append_assoc]
      exact ⟨e1, e2⟩

theorem barStepG_books (cfg : Cfg) (b : BarScript) (fuel tfuel row : Nat) (ts : Int) (st : St) : Books st (barStepG cfg b fuel tfuel row ts st) := by
  unfold barStepG
  split
  · exact (Quiet.silent [] _ rfl rfl rfl rfl rfl rfl).books
  · refine Books.andThen (barHeadG_quiet cfg b tfuel row ts _ st).books (fun st' => ?_)
    obtain ⟨t1, t2, _, t4⟩ := barTailG_books b fuel ts _ st'
    exact ⟨t1, t2, t4⟩

theorem runBarsG_books (cfg : Cfg) (g : GScript) : ∀ (bars : List Int) (row : Nat) (st : St), Books st (runBarsG cfg g row bars st)
  | [], _, st => (Quiet.silent [] none rfl rfl rfl rfl rfl rfl).books
  | ts :: bars, row, st => Books.andThen (barStepG_books cfg (g.bar row) g.fuel g.tfuel row ts st) (fun st' => runBarsG_books cfg g bars (row + 1) st')

theorem initG_quiet (cfg : Cfg) (trigs : List Trig) (g : GScript) (ts0 : Int) :
    Quiet ⟨(setAllFrom cfg ts0 0 0 cfg.markets).2, trigs, [], [], []⟩ (initG cfg trigs g ts0) := by
  unfold initG
  have as0 := setAllFrom_at cfg ts0 0 0 cfg.markets
  refine Quiet.andThen ?_ (fun st' => runStmts_quiet ts0 .init g.init st')
  refine Quiet.silent _ none rfl rfl rfl ?_ ?_ ?_
  · rw [recOf_append, recOf_setAllFrom]; simp [recOf, recordedAct]
  · simp only [List.filterMap_append, fm_nil_of_allAt notifyAct_phase as0 (by decide)]; rfl
  · simp only [List.filterMap_append, fm_nil_of_allAt core_rowOf_phase as0 (by decide)]; rfl

theorem initG_books (cfg : Cfg) (trigs : List Trig) (g : GScript) (ts0 : Int) :
    Books ⟨(setAllFrom cfg ts0 0 0 cfg.markets).2, trigs, [], [], []⟩ (initG cfg trigs g ts0) := (initG_quiet cfg trigs g ts0).books

/-! ### every call of a bar carries the bar's timestamp -/

def TsAll (ts : Int) (r : Res) : Prop := ∀ e ∈ r.1, e.ts = some ts

theorem TsAll.andThen {ts : Int} {r : Res} {k : St → Res} (h1 : TsAll ts r) (h2 : ∀ st', TsAll ts (k st')) : TsAll ts (r.andThen k) := by
  cases hr : r.2.2 with
  | some e => rw [andThen_err hr]; exact h1
  | none =>
    rw [andThen_ok hr]
    intro e he
    rcases List.mem_append.mp he with h | h
    · exact h1 e h
    · exact h2 _ e h

theorem TsAll.nil {ts : Int} {st : St} {e : Option PyErr} : TsAll ts ([], st, e) := fun _ h => nomatch h

theorem TsAll.of_allAt {ts : Int} {c : Nat} {l : List Ev} (h : AllAt ts c l) (st : St) (e : Option PyErr) : TsAll ts (l, st, e) :=
  fun x hx => (h x hx).1

theorem doStmt_ts (ts : Int) (h : Hook) (s : HStmt) (st : St) : TsAll ts (doStmt ts h s st) := by
  cases s with
  | op o => exact TsAll.of_allAt (doOp_at ts h o st) _ _
  | tadd t => exact TsAll.nil
  | tdel id => exact TsAll.nil
  | boom e => exact TsAll.nil

theorem runStmts_ts (ts : Int) (h : Hook) : ∀ (body : List HStmt) (st : St), TsAll ts (runStmts ts h body st)
  | [], _ => TsAll.nil
  | s :: ss, st => TsAll.andThen (doStmt_ts ts h s st) (fun st' => runStmts_ts ts h ss st')

theorem TsAll.single {ts : Int} {e : Ev} (he : e.ts = some ts) (st : St) : TsAll ts (Res.ok [e] st) := by
  intro x hx
  rw [Res.ok] at hx
  rw [List.mem_singleton.mp hx]; exact he

theorem fireLoopG_ts (b : BarScript) (ts : Int) : ∀ (fuel i : Nat) (st : St), TsAll ts (fireLoopG b ts fuel i st)
  | 0, _, _ => TsAll.nil
  | fuel + 1, i, st => by
    unfold fireLoopG
    split
    · exact TsAll.nil
    · split
      · exact TsAll.nil
      · simp only []
        split
        · exact TsAll.andThen (TsAll.andThen (TsAll.single rfl _) (fun st' => runStmts_ts ts _ _ st')) (fun st' => fireLoopG_ts b ts fuel (i + 1) st')
        · exact fireLoopG_ts b ts fuel (i + 1) _

theorem runOpenFromG_ts (b : BarScript) (ts : Int) : ∀ (i : Nat) (ms : List MarketCfg) (st : St), TsAll ts (runOpenFromG b ts i ms st)
  | _, [], _ => TsAll.nil
  | i, mc :: rest, st => by
    unfold runOpenFromG
    split
    · exact TsAll.andThen (TsAll.andThen (TsAll.single rfl _) (fun st' => runStmts_ts ts _ _ st')) (fun st' => runOpenFromG_ts b ts (i + 1) rest st')
    · exact runOpenFromG_ts b ts (i + 1) rest st

theorem runNotifyG_ts (b : BarScript) (ts : Int) : ∀ (fuel i : Nat) (st : St), TsAll ts (runNotifyG b ts fuel i st)
  | 0, _, _ => TsAll.nil
  | fuel + 1, i, st => by
    unfold runNotifyG
    split
    · exact TsAll.nil
    · exact TsAll.andThen (TsAll.andThen (TsAll.single rfl _) (fun st' => runStmts_ts ts _ _ st')) (fun st' => runNotifyG_ts b ts fuel (i + 1) st')

theorem midG_ts (cfg : Cfg) (b : BarScript) (row : Nat) (ts : Int) (price : Option Int) (st : St) : TsAll ts (midG cfg b row ts price st) := by
  unfold midG
  simp only []
  rw [runUpdFromG_eq b ts row]
  intro e he
  simp only [List.mem_append, List.mem_singleton] at he
  rcases he with (h | h) | h
  · exact (setUpdatedFrom_at cfg ts 0 cfg.markets st.ms e h).1
  · exact (runUpdFrom_at (updScript b) ts row 0 cfg.markets _ e h).1
  · rw [h]; rfl

theorem barHeadG_ts (cfg : Cfg) (b : BarScript) (tfuel row : Nat) (ts : Int) (price : Option Int) (st : St) :
    TsAll ts (barHeadG cfg b tfuel row ts price st) := by
  unfold barHeadG
  refine TsAll.andThen (TsAll.andThen (TsAll.andThen (TsAll.andThen (TsAll.andThen (TsAll.andThen (TsAll.andThen (TsAll.andThen ?_ ?_) ?_) ?_) ?_) ?_) ?_) ?_) ?_
  · intro e he
    rw [Res.ok] at he
    simp only [List.mem_append, List.mem_singleton] at he
    rcases he with h | h
    · exact (setAllFrom_at cfg ts 1 0 cfg.markets e h).1
    · rw [h]; rfl
  · exact fun st' => runStmts_ts ts _ _ st'
  · exact fun st' => fireLoopG_ts b ts _ 0 st'
  · exact fun st' => TsAll.nil
  · exact fun st' => runOpenFromG_ts b ts 0 cfg.markets st'
  · exact fun st' => TsAll.single rfl st'
  · exact fun st' => runStmts_ts ts _ _ st'
  · exact fun st' => midG_ts cfg b row ts price st'
  · exact fun st' => runStmts_ts ts _ _ st'

theorem barTailG_ts (b : BarScript) (fuel : Nat) (ts : Int) (price : Option Int) (st : St) : TsAll ts (barTailG b fuel ts price st) := by
  unfold barTailG
  exact TsAll.andThen (TsAll.andThen (TsAll.single rfl _) (fun st' => runNotifyG_ts b ts _ 0 st')) (fun _ => TsAll.nil)

theorem barStepG_ts (cfg : Cfg) (b : BarScript) (fuel tfuel row : Nat) (ts : Int) (st : St) : TsAll ts (barStepG cfg b fuel tfuel row ts st) := by
  unfold barStepG
  split
  · exact TsAll.nil
  · exact TsAll.andThen (barHeadG_ts cfg b tfuel row ts _ st) (fun st' => barTailG_ts b fuel ts _ st')

/-! ### a bar that ended without an exception ended with `self._currents.actions = []` -/

theorem andThen_none {r : Res} {k : St → Res} (h : (r.andThen k).2.2 = none) :
    r.2.2 = none ∧ (k r.2.1).2.2 = none ∧ (r.andThen k).2.1 = (k r.2.1).2.1 := by
  cases hr : r.2.2 with
  | some e => rw [andThen_err hr, hr] at h; cases h
  | none => rw [andThen_ok hr] at h ⊢; exact ⟨rfl, h, rfl⟩

theorem barStepG_cur_nil (cfg : Cfg) (b : BarScript) (fuel tfuel row : Nat) (ts : Int) (st : St)
    (h : (barStepG cfg b fuel tfuel row ts st).2.2 = none) : (barStepG cfg b fuel tfuel row ts st).2.1.cur = [] := by
  unfold barStepG at h ⊢
  split at h
  · cases h
  · rename_i price _
    obtain ⟨_, h2, h3⟩ := andThen_none h
    rw [h3]
    unfold barTailG at h2 ⊢
    obtain ⟨_, _, h6⟩ := andThen_none h2
    rw [h6]
    rfl

theorem runBarsG_cur_nil (cfg : Cfg) (g : GScript) : ∀ (bars : List Int) (row : Nat) (st : St), bars ≠ [] →
    (runBarsG cfg g row bars st).2.2 = none → (runBarsG cfg g row bars st).2.1.cur = []
  | [], _, _, hne, _ => absurd rfl hne
  | ts :: bars, row, st, _, h => by
    simp only [runBarsG] at h ⊢
    obtain ⟨h1, h2, h3⟩ := andThen_none h
    rw [h3]
    cases bars with
    | nil => simp only [runBarsG]; exact barStepG_cur_nil cfg _ _ _ row ts st h1
    | cons t2 rest => exact runBarsG_cur_nil cfg g (t2 :: rest) (row + 1) _ (by simp) h2

end Demeter.Core
