/-
  Sequence-level C03 for the Uniswap market (exact arithmetic, frozen status row): the valuation that counts every
  position (lent or not), the soundness invariant (no negative holding), and what each primitive transaction does to
  both.  `Proofs/C03/UniSeq.lean` lifts this to operations and operation lists with the graded kit `GStepRel`.
-/
import Proofs.Lemmas.UniStepRelG
import Proofs.C03.UniKeys
import Proofs.C03.UniValue
import Mathlib.Tactic.Positivity
namespace Demeter.Uni
open Demeter

/-! ### the valuation -/

/-- plain sum over *all* positions -/
def sumAll (f : Pos → Rat) : List Pos → Rat
  | [] => 0
  | p :: ps => f p + sumAll f ps

theorem sumAll_append (f : Pos → Rat) (l r : List Pos) : sumAll f (l ++ r) = sumAll f l + sumAll f r := by
  induction l with
  | nil => simp [sumAll]
  | cons q qs ih => simp only [List.cons_append, sumAll, ih]; ring

theorem sumAll_mid (f : Pos → Rat) (l r : List Pos) (p : Pos) : sumAll f (l ++ p :: r) = sumAll f (l ++ r) + f p := by
  rw [sumAll_append, sumAll_append]; simp only [sumAll]; ring

theorem sumAll_nonneg (f : Pos → Rat) (ps : List Pos) (h : ∀ p ∈ ps, 0 ≤ f p) : 0 ≤ sumAll f ps := by
  induction ps with
  | nil => exact le_refl _
  | cons q qs ih =>
    simp only [sumAll]
    exact add_nonneg (h q (List.mem_cons_self ..)) (ih (fun p hp => h p (List.mem_cons_of_mem _ hp)))

/-- the flag is not looked at -/
theorem sumAll_mapPos_flag (f : Pos → Rat) (ps : List Pos) (lo up : Int) (g : Pos → Pos) (hg : ∀ q, f (g q) = f q) :
    sumAll f (mapPos ps lo up g) = sumAll f ps := by
  unfold mapPos
  induction ps with
  | nil => rfl
  | cons q qs ih => simp only [List.map_cons, sumAll, ih]; split <;> simp [hg]

/-- with no position lent out, the reported sum (`sumOver`, C01) is the plain sum -/
theorem sumOver_eq_sumAll (f : Pos → Rat) (ps : List Pos) (h : ∀ p ∈ ps, p.transferred = false) :
    sumOver f ps = sumAll f ps := by
  induction ps with
  | nil => rfl
  | cons q qs ih =>
    simp only [sumOver, sumAll, h q (List.mem_cons_self ..), Bool.false_eq_true, if_false,
      ih (fun p hp => h p (List.mem_cons_of_mem _ hp))]

/-- value of the holdings of the account in this market, in quote token, at the frozen row: wallet + every position
    (a position lent to another market is still a holding of the account; `netVal` of `C03/UniValue`, which skips
    lent positions as `get_market_balance` does, coincides with this when nothing is lent) -/
def allVal (pool : Pool) (row : Row) (A : Int → Int → Int → Rat × Rat) (s : State) : Rat :=
  walletVal pool row.price s.wallet + sumAll (posValue pool row.price (fun p => A p.lower p.upper p.liq)) s.positions

theorem tokVal_mono (pool : Pool) {price a0 a1 b0 b1 : Rat} (hp : 0 ≤ price) (h0 : a0 ≤ b0) (h1 : a1 ≤ b1) :
    tokVal pool price a0 a1 ≤ tokVal pool price b0 b1 := by
  unfold tokVal Pool.conv
  cases pool.q0 <;> simp only [Bool.false_eq_true, if_false, if_true] <;> nlinarith

theorem tokVal_nonneg (pool : Pool) {price a0 a1 : Rat} (hp : 0 ≤ price) (h0 : 0 ≤ a0) (h1 : 0 ≤ a1) :
    0 ≤ tokVal pool price a0 a1 := by
  have := tokVal_mono pool hp h0 h1
  rwa [tokVal_zero] at this

theorem tokVal_smul (pool : Pool) (price c a0 a1 : Rat) : tokVal pool price (c * a0) (c * a1) = c * tokVal pool price a0 a1 := by
  unfold tokVal Pool.conv
  cases pool.q0 <;> simp only [Bool.false_eq_true, if_false, if_true] <;> ring

/-- the wallet in base/quote terms -/
theorem walletVal_bq (pool : Pool) (price : Rat) (w : Wallet) :
    walletVal pool price w = bal w pool.baseTok * price + bal w pool.quoteTok := by
  unfold walletVal tokVal Pool.conv Pool.baseTok Pool.quoteTok
  cases pool.q0 <;> rfl

/-! ### the frozen market with signs -/

/-- `Frozen` plus the sign facts the no-negative-holding invariant needs: a positive price, a fee rate in [0, 1],
    non-negative amounts for a non-negative liquidity, a non-negative liquidity for non-negative offered amounts -/
structure FrozenPos (K : Kern) (pool : Pool) (row : Row) (sqrt : Nat) (A : Int → Int → Int → Rat × Rat) : Prop where
  base : Frozen K pool row sqrt A
  price_pos : 0 < row.price
  fee_nonneg : 0 ≤ pool.feeRate
  fee_le_one : pool.feeRate ≤ 1
  A_nonneg : ∀ lo up l, 0 ≤ l → 0 ≤ (A lo up l).1 ∧ 0 ≤ (A lo up l).2
  newPos_nonneg : ∀ lo up a0 a1 u0 u1 L, 0 ≤ a0 → 0 ≤ a1 → K.newPos pool sqrt lo up a0 a1 = .ok (u0, u1, L) → 0 ≤ L

/-- **no negative holding**, and the frame the valuation is taken in: the frozen row, overdraft not allowed, unique
    position keys -/
structure Sound (row : Row) (s : State) : Prop where
  row_eq : s.row = some row
  noNeg : s.allowNeg = false
  keys : KeysNodup s.positions
  wallet_nonneg : ∀ k, 0 ≤ bal s.wallet k
  pos_nonneg : ∀ p ∈ s.positions, 0 ≤ p.liq ∧ 0 ≤ p.pending0 ∧ 0 ≤ p.pending1

theorem Sound.of_same {row : Row} {s s' : State} (h : Sound row s) (hr : s'.row = s.row) (hn : s'.allowNeg = s.allowNeg)
    (hp : s'.positions = s.positions) (hw : s'.wallet = s.wallet) : Sound row s' :=
  ⟨hr.trans h.row_eq, hn.trans h.noNeg, by rw [hp]; exact h.keys, by rw [hw]; exact h.wallet_nonneg,
   by rw [hp]; exact h.pos_nonneg⟩

variable {K : Kern} {pool : Pool} {row : Row} {sqrt : Nat} {A : Int → Int → Int → Rat × Rat}

theorem posValue_nonneg (F : FrozenPos K pool row sqrt A) (p : Pos) (h : 0 ≤ p.liq ∧ 0 ≤ p.pending0 ∧ 0 ≤ p.pending1) :
    0 ≤ posValue pool row.price (fun p => A p.lower p.upper p.liq) p := by
  rw [posValue_eq_tokVal]
  have hA := F.A_nonneg p.lower p.upper p.liq h.1
  exact tokVal_nonneg pool F.price_pos.le (add_nonneg h.2.1 hA.1) (add_nonneg h.2.2 hA.2)

theorem walletVal_nonneg (F : FrozenPos K pool row sqrt A) (w : Wallet) (h : ∀ k, 0 ≤ bal w k) :
    0 ≤ walletVal pool row.price w :=
  tokVal_nonneg pool F.price_pos.le (h _) (h _)

theorem sumAllPos_nonneg (F : FrozenPos K pool row sqrt A) {s : State} (h : Sound row s) :
    0 ≤ sumAll (posValue pool row.price (fun p => A p.lower p.upper p.liq)) s.positions :=
  sumAll_nonneg _ _ (fun p hp => posValue_nonneg F p (h.pos_nonneg p hp))

theorem allVal_nonneg (F : FrozenPos K pool row sqrt A) {s : State} (h : Sound row s) : 0 ≤ allVal pool row A s :=
  add_nonneg (walletVal_nonneg F _ h.wallet_nonneg) (sumAllPos_nonneg F h)

theorem walletVal_le_allVal (F : FrozenPos K pool row sqrt A) {s : State} (h : Sound row s) :
    walletVal pool row.price s.wallet ≤ allVal pool row A s := by
  unfold allVal; linarith [sumAllPos_nonneg F h]

/-! ### the relation -/

theorem dust_pos : (0 : Rat) < assetDust := assetDust_pos
theorem dust_lt_one : assetDust < 1 := by unfold assetDust Gen.assetSubDust; norm_num

/-- from a sound state: a sound state whose holdings are worth at most `(1 + dust)ⁿ` times as much -/
def NoGain (pool : Pool) (row : Row) (A : Int → Int → Int → Rat × Rat) (n : Nat) (s s' : State) : Prop :=
  Sound row s → Sound row s' ∧ allVal pool row A s' ≤ (1 + assetDust) ^ n * allVal pool row A s

theorem NoGain.refl (s : State) : NoGain pool row A 0 s s := fun h => ⟨h, by simp⟩

theorem NoGain.trans {n m : Nat} {a b c : State} (h1 : NoGain pool row A n a b) (h2 : NoGain pool row A m b c) :
    NoGain pool row A (n + m) a c := by
  intro ha
  obtain ⟨hb, v1⟩ := h1 ha
  obtain ⟨hc, v2⟩ := h2 hb
  refine ⟨hc, ?_⟩
  have hpos : (0 : Rat) ≤ (1 + assetDust) ^ m := by have := dust_pos; positivity
  calc allVal pool row A c ≤ (1 + assetDust) ^ m * allVal pool row A b := v2
    _ ≤ (1 + assetDust) ^ m * ((1 + assetDust) ^ n * allVal pool row A a) := mul_le_mul_of_nonneg_left v1 hpos
    _ = (1 + assetDust) ^ (n + m) * allVal pool row A a := by rw [pow_add]; ring

theorem NoGain.mono (F : FrozenPos K pool row sqrt A) {n m : Nat} {a b : State} (hnm : n ≤ m)
    (h : NoGain pool row A n a b) : NoGain pool row A m a b := by
  intro ha
  obtain ⟨hb, v⟩ := h ha
  refine ⟨hb, le_trans v ?_⟩
  apply mul_le_mul_of_nonneg_right _ (allVal_nonneg F ha)
  exact pow_le_pow_right₀ (by linarith [dust_pos]) hnm

/-- same positions and wallet: nothing to show -/
theorem NoGain.of_same {s s' : State} (hr : s'.row = s.row) (hn : s'.allowNeg = s.allowNeg)
    (hp : s'.positions = s.positions) (hw : s'.wallet = s.wallet) : NoGain pool row A 0 s s' := by
  intro h
  refine ⟨h.of_same hr hn hp hw, ?_⟩
  unfold allVal; rw [hp, hw]; simp

/-- soundness and value do not increase by more than one dust round -/
theorem NoGain.of_le (F : FrozenPos K pool row sqrt A) {s s' : State} (hs : Sound row s)
    (hv : allVal pool row A s' ≤ allVal pool row A s + assetDust * walletVal pool row.price s.wallet) :
    allVal pool row A s' ≤ (1 + assetDust) ^ 1 * allVal pool row A s := by
  have h1 := walletVal_le_allVal F hs
  have h2 : assetDust * walletVal pool row.price s.wallet ≤ assetDust * allVal pool row A s :=
    mul_le_mul_of_nonneg_left h1 dust_pos.le
  rw [pow_one]; linarith

/-! ### replacing / deleting the entry under a key -/

theorem keysNodup_replace {l r : List Pos} {p q : Pos} (hq : keyOf q = keyOf p) (h : KeysNodup (l ++ p :: r)) :
    KeysNodup (l ++ q :: r) := by
  unfold KeysNodup at *
  simpa [List.map_append, hq] using h

theorem keysNodup_drop {l r : List Pos} {p : Pos} (h : KeysNodup (l ++ p :: r)) : KeysNodup (l ++ r) := by
  unfold KeysNodup at *
  rw [List.map_append] at *
  rw [List.map_cons] at h
  exact List.Nodup.sublist (List.Sublist.append_left (List.sublist_cons_self _ _) _) h

theorem Sound.replace {s s' : State} (h : Sound row s) {l r : List Pos} {p q : Pos} (e : s.positions = l ++ p :: r)
    (hq : keyOf q = keyOf p) (hqn : 0 ≤ q.liq ∧ 0 ≤ q.pending0 ∧ 0 ≤ q.pending1)
    (hr : s'.row = s.row) (hn : s'.allowNeg = s.allowNeg) (hp : s'.positions = l ++ q :: r)
    (hw : ∀ k, 0 ≤ bal s'.wallet k) : Sound row s' := by
  refine ⟨hr.trans h.row_eq, hn.trans h.noNeg, ?_, hw, ?_⟩
  · rw [hp]; exact keysNodup_replace hq (e ▸ h.keys)
  · rw [hp]
    intro x hx
    rcases List.mem_append.mp hx with hx | hx
    · exact h.pos_nonneg x (by rw [e]; exact List.mem_append_left _ hx)
    · rcases List.mem_cons.mp hx with hx | hx
      · rw [hx]; exact hqn
      · exact h.pos_nonneg x (by rw [e]; exact List.mem_append_right _ (List.mem_cons_of_mem _ hx))

theorem Sound.drop {s s' : State} (h : Sound row s) {l r : List Pos} {p : Pos} (e : s.positions = l ++ p :: r)
    (hr : s'.row = s.row) (hn : s'.allowNeg = s.allowNeg) (hp : s'.positions = l ++ r)
    (hw : ∀ k, 0 ≤ bal s'.wallet k) : Sound row s' := by
  refine ⟨hr.trans h.row_eq, hn.trans h.noNeg, ?_, hw, ?_⟩
  · rw [hp]; exact keysNodup_drop (e ▸ h.keys)
  · rw [hp]
    intro x hx
    rcases List.mem_append.mp hx with hx | hx
    · exact h.pos_nonneg x (by rw [e]; exact List.mem_append_left _ hx)
    · exact h.pos_nonneg x (by rw [e]; exact List.mem_append_right _ (List.mem_cons_of_mem _ hx))

/-! ### the wallet -/

theorem bal_set (w : Wallet) (k k' : String) (v : Rat) : bal (AList.set w k v) k' = if k' = k then v else bal w k' := by
  by_cases h : k' = k
  · subst h; rw [bal_set_self, if_pos rfl]
  · rw [bal_set_other _ _ _ _ h, if_neg h]

theorem bal_credit (w : Wallet) (k k' : String) (a : Rat) :
    bal (Wallet.credit NumCtx.exact w k a) k' = if k' = k then bal w k + a else bal w k' := by
  by_cases h : k' = k
  · subst h; rw [bal_credit_self, if_pos rfl]
  · rw [bal_credit_other _ _ _ _ _ h, if_neg h]

/-- an accepted debit (exact arithmetic, overdraft not allowed) of a non-negative amount from a non-negative balance:
    only that balance changes; it stays non-negative and is at most `balance − amount` plus the dust fraction of the
    balance -/
theorem debit_exact {w w' : Wallet} {tok : String} {a : Rat} (hd : debit NumCtx.exact w tok a false = .ok w')
    (hb : 0 ≤ bal w tok) : ∃ b' : Rat, (∀ k, bal w' k = if k = tok then b' else bal w k) ∧ 0 ≤ b' ∧
      b' ≤ bal w tok - a + assetDust * bal w tok := by
  unfold debit Wallet.debit at hd
  cases hg : AList.get? w tok with
  | none => rw [hg] at hd; simp at hd
  | some b =>
    rw [hg] at hd
    simp only [] at hd
    have hbal : bal w tok = b := by unfold bal; rw [hg]; rfl
    rw [hbal] at hb ⊢
    cases hs : assetSub NumCtx.exact b a false with
    | none => rw [hs] at hd; simp at hd
    | some b' =>
      rw [hs] at hd
      simp only [] at hd
      injection hd with hd; subst hd
      refine ⟨b', fun k => bal_set _ _ _ _, ?_, ?_⟩
      · rcases assetSub_exact hs with ⟨e, hn⟩ | ⟨e, _⟩ | ⟨e, hb0, _⟩
        · rw [e]; exact hn
        · rw [e]
        · rw [e]; exact hb
      · have hdb : 0 ≤ assetDust * b := mul_nonneg dust_pos.le hb
        rcases assetSub_exact hs with ⟨e, _⟩ | ⟨e, hlt⟩ | ⟨e, hb0, ha0⟩
        · rw [e]; linarith
        · rw [e]
          by_cases hbz : b ≠ 0
          · rw [if_pos hbz, abs_of_nonneg hb] at hlt
            have := neg_abs_le (b - a)
            linarith
          · rw [if_neg hbz] at hlt
            have hb0 : b = 0 := not_not.mp hbz
            rw [hb0, zero_sub, abs_neg] at hlt
            have h1 : assetDust * |a| ≤ 1 * |a| := mul_le_mul_of_nonneg_right dust_lt_one.le (abs_nonneg a)
            linarith
        · rw [e, hb0, ha0]; simp

end Demeter.Uni
