/-
  Inversion ("spec") lemmas for the GMX v1 model under the exact context: what an `ok` result of each pricing function
  says in closed form.  Used by Proofs/C17.lean and the GMX parts of C01/C03/C04.
-/
import Proofs.Lemmas.Gmx
import Mathlib.Tactic.FieldSimp
import Mathlib.Tactic.Ring
import Mathlib.Tactic.Positivity
import Mathlib.Tactic.NormNum
namespace Demeter.Gmx
open Demeter Demeter.GmxV1

theorem bps25 : ((Gen.gmxMintBurnFeeBps : Nat) : Rat) = 25 := by norm_num [Gen.gmxMintBurnFeeBps]
theorem bps60 : ((Gen.gmxTaxBps : Nat) : Rat) = 60 := by norm_num [Gen.gmxTaxBps]

/-- well-formed v1 row: weights and the USDG supply are not negative -/
structure EnvNonneg (env : Env) : Prop where
  weight : ∀ r ∈ env.rows, 0 ≤ r.weight
  usdgSupply : 0 ≤ env.usdgSupply

/-- a row on which minting and redeeming are meaningful: positive prices, GLP supply and AUM (at least one USDG unit) -/
structure EnvPos (env : Env) : Prop extends EnvNonneg env where
  price : ∀ r ∈ env.rows, 0 < r.price
  glpSupply : 0 < env.glpSupply
  aum : 0 ≤ env.aum

theorem row_mem {env : Env} {tok : String} {r : TokenRow} (h : env.row? tok = some r) : r ∈ env.rows := by
  unfold Env.row? at h
  exact List.mem_of_find?_eq_some h

theorem qdown_ok {x q : Rat} (h : qdown x = .ok q) : q = quantDown 0 x := by
  unfold qdown at h
  simp only [] at h
  split at h
  · cases h
  · cases h; rfl

theorem ddiv_ok {a b q : Rat} (h : ddiv NumCtx.exact a b = .ok q) : b ≠ 0 ∧ q = a / b := by
  unfold ddiv at h
  split at h
  · split at h <;> cases h
  · cases h; exact ⟨by assumption, rfl⟩

theorem absDiff_nonneg (a b : Rat) : 0 ≤ absDiff NumCtx.exact a b := by
  unfold absDiff; simp only [NumCtx.exact_sub]; split <;> linarith

theorem absDiff_eq_abs (a b : Rat) : absDiff NumCtx.exact a b = |a - b| := by
  unfold absDiff; simp only [NumCtx.exact_sub]
  split
  · rw [abs_of_pos (by linarith)]
  · rw [abs_of_nonpos (by linarith)]; ring

theorem truncInt_bounds {x : Rat} (h0 : 0 ≤ x) (h1 : x ≤ 60) :
    (0 : Rat) ≤ (truncInt x : Rat) ∧ (truncInt x : Rat) ≤ 60 := by
  rw [truncInt_eq_floor h0]
  constructor
  · exact_mod_cast Int.floor_nonneg.mpr h0
  · have : ⌊x⌋ ≤ 60 := by
      have := Int.floor_mono h1
      simpa using this
    exact_mod_cast this

theorem feeFromDiffs_bounds (idiff ndiff target : Rat) (hi : 0 ≤ idiff) (hn : 0 ≤ ndiff) (ht : 0 < target) :
    0 ≤ (feeFromDiffs NumCtx.exact idiff ndiff target).1 ∧ (feeFromDiffs NumCtx.exact idiff ndiff target).1 ≤ 85 := by
  unfold feeFromDiffs
  simp only [NumCtx.exact_add, NumCtx.exact_sub, NumCtx.exact_mul, NumCtx.exact_div, bps25, bps60]
  by_cases hlt : ndiff < idiff
  · simp only [hlt, if_true]
    have hr : 0 ≤ 60 * idiff / target := by positivity
    by_cases hr2 : 60 * idiff / target > 25
    · simp only [hr2, if_true]; norm_num
    · simp only [hr2, if_false]
      constructor <;> linarith
  · simp only [hlt, if_false]
    by_cases hc : (idiff + ndiff) / 2 > target
    · simp only [hc, if_true]
      have : 60 * target / target = 60 := by field_simp
      rw [this]
      have := truncInt_bounds (x := 60) (by norm_num) (le_refl _)
      constructor <;> linarith [this.1, this.2]
    · simp only [hc, if_false]
      have h0 : 0 ≤ 60 * ((idiff + ndiff) / 2) / target := by positivity
      have h1 : 60 * ((idiff + ndiff) / 2) / target ≤ 60 := by
        rw [div_le_iff₀ ht]; nlinarith [not_lt.mp hc]
      have := truncInt_bounds h0 h1
      constructor <;> linarith [this.1, this.2]

theorem feeBpsCore_bounds (initial usdg target : Rat) (inc : Bool) (ht : 0 ≤ target) :
    0 ≤ (feeBpsCore NumCtx.exact initial usdg target inc).1 ∧
    (feeBpsCore NumCtx.exact initial usdg target inc).1 ≤ 85 := by
  unfold feeBpsCore
  by_cases h0 : target = 0
  · simp only [h0, if_true, bps25]; norm_num
  · simp only [h0, if_false]
    exact feeFromDiffs_bounds _ _ _ (absDiff_nonneg _ _) (absDiff_nonneg _ _) (lt_of_le_of_ne ht (Ne.symm h0))

theorem total_nonneg (env : Env) (hw : ∀ r ∈ env.rows, 0 ≤ r.weight) :
    ∀ (l : List String) (acc total : Rat), 0 ≤ acc →
      l.foldlM (fun acc t => match env.row? t with
        | some r => (.ok (acc + r.weight) : Except Err Rat)
        | none => .error Err.key) acc = .ok total → 0 ≤ total := by
  intro l
  induction l with
  | nil => intro acc total h0 h; simp [List.foldlM, pure, Except.pure] at h; linarith
  | cons t l ih =>
    intro acc total h0 h
    rw [List.foldlM_cons, bind_ok] at h
    obtain ⟨a, ha, hrest⟩ := h
    cases hr : env.row? t with
    | none => simp [hr] at ha
    | some r =>
      simp only [hr] at ha
      cases ha
      exact ih _ _ (by have := hw r (row_mem hr); linarith) hrest

theorem target_nonneg {env : Env} (he : EnvNonneg env) {tok : String} {t : Rat}
    (h : targetAmount NumCtx.exact env tok = .ok t) : 0 ≤ t := by
  unfold targetAmount at h
  rw [bind_ok] at h
  obtain ⟨total, htot, h⟩ := h
  have ht := total_nonneg env he.weight _ _ _ (le_refl 0) htot
  cases hr : env.row? tok with
  | none => simp [hr] at h
  | some r =>
    simp only [hr] at h
    obtain ⟨_, rfl⟩ := ddiv_ok h
    simp only [NumCtx.exact_mul]
    have := he.weight r (row_mem hr)
    have := he.usdgSupply
    positivity

theorem feeBps_bounds {env : Env} (he : EnvNonneg env) {tok : String} {u f : Rat} {inc : Bool} {br : FeeBranch}
    (h : feeBps NumCtx.exact env tok u inc = .ok (f, br)) : 0 ≤ f ∧ f ≤ 85 := by
  unfold feeBps at h
  cases hr : env.row? tok with
  | none => simp [hr] at h
  | some r =>
    simp only [hr, bind_ok] at h
    obtain ⟨t, ht, hp⟩ := h
    have h2 := feeBpsCore_bounds r.usdg u t inc (target_nonneg he ht)
    simp only [pure, Except.pure, Except.ok.injEq] at hp
    rw [hp] at h2
    exact h2

/-- `amount * 10**decimal * price / 10**30` rounded down, adjusted from the token's decimals to USDG's 18, rounded down -/
def usdgOf (a : Rat) (dec : Nat) (P : Rat) : Rat :=
  quantDown 0 (quantDown 0 (a * 10 ^ dec * P / 10 ^ 30) * 10 ^ 18 / 10 ^ dec)

theorem toUsdg_ok {a P q : Rat} {dec : Nat} (h : toUsdg NumCtx.exact a dec P = .ok q) : q = usdgOf a dec P := by
  unfold toUsdg at h
  rw [bind_ok] at h
  obtain ⟨u, hu, hq⟩ := h
  have h1 := qdown_ok hu
  have h2 := qdown_ok hq
  rw [h2, h1]; unfold usdgOf adjustDecimals
  simp only [NumCtx.exact_mul, NumCtx.exact_div, Gen.gmxBuyUsdgDivisor, Gen.gmxUsdgDecimals]
  norm_num

/-- the USDG credited for `a ≥ 0` tokens never exceeds their value `a × price` (in USDG wei) -/
theorem usdgOf_le {a P : Rat} {dec : Nat} (ha : 0 ≤ a) (hP : 0 ≤ P) : usdgOf a dec P ≤ a * (P / 10 ^ 30) * 10 ^ 18 := by
  unfold usdgOf
  have hx : 0 ≤ a * 10 ^ dec * P / 10 ^ 30 := by positivity
  have h1 := quantDown0_le hx
  have h0 := quantDown0_nonneg hx
  have hd : (0 : Rat) < 10 ^ dec := by positivity
  have hy : 0 ≤ quantDown 0 (a * 10 ^ dec * P / 10 ^ 30) * 10 ^ 18 / 10 ^ dec := by positivity
  calc quantDown 0 (quantDown 0 (a * 10 ^ dec * P / 10 ^ 30) * 10 ^ 18 / 10 ^ dec)
      ≤ quantDown 0 (a * 10 ^ dec * P / 10 ^ 30) * 10 ^ 18 / 10 ^ dec := quantDown0_le hy
    _ ≤ (a * 10 ^ dec * P / 10 ^ 30) * 10 ^ 18 / 10 ^ dec := by
        apply div_le_div_of_nonneg_right _ (le_of_lt hd)
        exact mul_le_mul_of_nonneg_right h1 (by positivity)
    _ = a * (P / 10 ^ 30) * 10 ^ 18 := by field_simp

theorem usdgOf_nonneg {a P : Rat} {dec : Nat} (ha : 0 ≤ a) (hP : 0 ≤ P) : 0 ≤ usdgOf a dec P := by
  unfold usdgOf
  have hx : 0 ≤ a * 10 ^ dec * P / 10 ^ 30 := by positivity
  have h0 := quantDown0_nonneg hx
  exact quantDown0_nonneg (by positivity)

/-- `_collect_swap_fee` in closed form -/
theorem afterFee_eq (a f : Rat) : afterFee NumCtx.exact a f = a - a * f / 10000 := by
  unfold afterFee
  simp only [NumCtx.exact_mul, NumCtx.exact_div, NumCtx.exact_sub, Gen.gmxBpsDivisor]
  norm_num

theorem afterFee_bounds {a f : Rat} (ha : 0 ≤ a) (h0 : 0 ≤ f) (h1 : f ≤ 85) :
    0 ≤ afterFee NumCtx.exact a f ∧ afterFee NumCtx.exact a f ≤ a := by
  rw [afterFee_eq]
  constructor
  · have : a * f / 10000 ≤ a := by
      rw [div_le_iff₀ (by norm_num)]; nlinarith
    linarith
  · have : 0 ≤ a * f / 10000 := by positivity
    linarith

/-- `buy_usdg` inverted -/
theorem buyUsdg_ok {env : Env} {tok : String} {dec : Nat} {a mint fee : Rat} {br : FeeBranch}
    (h : buyUsdg NumCtx.exact env tok dec a = .ok (mint, fee, br)) :
    ∃ r, env.row? tok = some r ∧ feeBps NumCtx.exact env tok (usdgOf a dec r.price) true = .ok (fee, br) ∧
      mint = usdgOf (afterFee NumCtx.exact a fee) dec r.price := by
  unfold buyUsdg at h
  cases hr : env.row? tok with
  | none => simp [hr] at h
  | some r =>
    simp only [hr, bind_ok] at h
    obtain ⟨u0, hu0, ⟨f, b⟩, hf, m, hm, hp⟩ := h
    simp only [pure, Except.pure, Except.ok.injEq, Prod.mk.injEq] at hp
    obtain ⟨rfl, rfl, rfl⟩ := hp
    rw [toUsdg_ok hu0] at hf
    exact ⟨r, rfl, hf, toUsdg_ok hm⟩

/-- `aum / 10**12` rounded down -/
def aumU (env : Env) : Rat := quantDown 0 (env.aum / 10 ^ 12)

theorem aumInUsdg_add_ok {env : Env} {q : Rat} (h : aumInUsdg NumCtx.exact env Gen.gmxAumDivisorAdd = .ok q) : q = aumU env := by
  unfold aumInUsdg at h
  rw [qdown_ok h]; unfold aumU
  simp only [NumCtx.exact_div, Gen.gmxAumDivisorAdd]; norm_num

theorem aumInUsdg_remove_ok {env : Env} {q : Rat} (h : aumInUsdg NumCtx.exact env Gen.gmxAumDivisorRemove = .ok q) : q = aumU env := by
  unfold aumInUsdg at h
  rw [qdown_ok h]; unfold aumU
  simp only [NumCtx.exact_div, Gen.gmxAumDivisorRemove]; norm_num

/-- `_add_liquidity` inverted: the GLP (wei) minted -/
theorem addLiquidity_ok {env : Env} {tok : String} {dec : Nat} {a mint fee : Rat} {br : FeeBranch}
    (h : addLiquidity NumCtx.exact env tok dec a = .ok (mint, fee, br)) :
    ∃ r, env.row? tok = some r ∧ feeBps NumCtx.exact env tok (usdgOf a dec r.price) true = .ok (fee, br) ∧
      aumU env ≠ 0 ∧
      mint = quantDown 0 (usdgOf (afterFee NumCtx.exact a fee) dec r.price * env.glpSupply / aumU env) := by
  unfold addLiquidity at h
  simp only [bind_ok] at h
  obtain ⟨au, hau, ⟨u, f, b⟩, hb, m0, hm0, m, hm, hp⟩ := h
  simp only [pure, Except.pure, Except.ok.injEq, Prod.mk.injEq] at hp
  obtain ⟨rfl, rfl, rfl⟩ := hp
  obtain ⟨r, hr, hf, rfl⟩ := buyUsdg_ok hb
  rw [aumInUsdg_add_ok hau] at hm0
  obtain ⟨hne, rfl⟩ := ddiv_ok hm0
  refine ⟨r, hr, hf, hne, ?_⟩
  rw [qdown_ok hm]
  simp only [NumCtx.exact_mul]

/-- `_remove_liquidity` inverted: tokens paid out -/
theorem removeLiquidity_ok {env : Env} {tok : String} {dec : Nat} {g out fee : Rat} {br : FeeBranch}
    (h : removeLiquidity NumCtx.exact env tok dec g = .ok (out, fee, br)) :
    ∃ r, env.row? tok = some r ∧ env.glpSupply ≠ 0 ∧ r.price / 10 ^ 30 ≠ 0 ∧
      feeBps NumCtx.exact env tok (quantDown 0 (g * 10 ^ 18 / env.glpSupply * aumU env)) false = .ok (fee, br) ∧
      out = afterFee NumCtx.exact
              (quantDown 0 (g * 10 ^ 18 / env.glpSupply * aumU env) / (r.price / 10 ^ 30) * 10 ^ dec / 10 ^ 18) fee / 10 ^ dec := by
  unfold removeLiquidity at h
  simp only [bind_ok] at h
  obtain ⟨au, hau, ps, hps, u, hu, ⟨o, f, b⟩, hs, hp⟩ := h
  simp only [pure, Except.pure, Except.ok.injEq, Prod.mk.injEq] at hp
  obtain ⟨rfl, rfl, rfl⟩ := hp
  rw [aumInUsdg_remove_ok hau] at hu
  obtain ⟨hsup, rfl⟩ := ddiv_ok hps
  have hu' := qdown_ok hu
  simp only [NumCtx.exact_mul, Gen.gmxGlpDecimals] at hu'
  unfold sellUsdg at hs
  cases hr : env.row? tok with
  | none => simp [hr] at hs
  | some r =>
    simp only [hr, bind_ok] at hs
    obtain ⟨red, hred, ⟨f', b'⟩, hf, hp⟩ := hs
    simp only [pure, Except.pure, Except.ok.injEq, Prod.mk.injEq] at hp
    obtain ⟨rfl, rfl, rfl⟩ := hp
    obtain ⟨hpne, rfl⟩ := ddiv_ok hred
    unfold adjustDecimals
    simp only [NumCtx.exact_div, NumCtx.exact_mul, Gen.gmxPricePrecision, Gen.gmxUsdgDecimals] at hpne hf ⊢
    have e30 : ((1000000000000000000000000000000 : Nat) : Rat) = 10 ^ 30 := by norm_num
    rw [e30] at hpne ⊢
    subst hu'
    exact ⟨r, rfl, hsup, hpne, hf, rfl⟩

end Demeter.Gmx
