/-
  Valuation of the Uniswap market state at a frozen status row (exact arithmetic): wallet + positions, and how the
  list operations of the model change the sum over positions.
-/
import Demeter.Uni.Step
import Proofs.Lemmas.UniWallet
import Proofs.C01.Uni
import Mathlib.Tactic.Linarith
import Mathlib.Tactic.Ring
namespace Demeter.Uni
open Demeter

/-- value in quote token of `x0` of token0 and `x1` of token1 at base price `price` -/
def tokVal (pool : Pool) (price x0 x1 : Rat) : Rat := (pool.conv x0 x1).1 * price + (pool.conv x0 x1).2

theorem tokVal_add (pool : Pool) (price a0 a1 b0 b1 : Rat) :
    tokVal pool price (a0 + b0) (a1 + b1) = tokVal pool price a0 a1 + tokVal pool price b0 b1 := by
  unfold tokVal; rw [conv_fst_add, conv_snd_add]; ring

theorem tokVal_sub (pool : Pool) (price a0 a1 b0 b1 : Rat) :
    tokVal pool price (a0 - b0) (a1 - b1) = tokVal pool price a0 a1 - tokVal pool price b0 b1 := by
  have := tokVal_add pool price (a0 - b0) (a1 - b1) b0 b1
  simp only [sub_add_cancel] at this
  linarith

theorem tokVal_zero (pool : Pool) (price : Rat) : tokVal pool price 0 0 = 0 := by
  unfold tokVal Pool.conv; cases pool.q0 <;> simp

theorem posValue_eq_tokVal (pool : Pool) (price : Rat) (amt : Pos → Rat × Rat) (p : Pos) :
    posValue pool price amt p = tokVal pool price (p.pending0 + (amt p).1) (p.pending1 + (amt p).2) := rfl

/-- balance of a token, 0 if absent -/
def bal (w : Wallet) (k : String) : Rat := (AList.get? w k).getD 0

def walletVal (pool : Pool) (price : Rat) (w : Wallet) : Rat := tokVal pool price (bal w pool.tok0) (bal w pool.tok1)

theorem bal_set_self (w : Wallet) (k : String) (v : Rat) : bal (AList.set w k v) k = v := by
  unfold bal; rw [alist_get_set_self]; rfl
theorem bal_set_other (w : Wallet) (k k' : String) (v : Rat) (h : k' ≠ k) : bal (AList.set w k v) k' = bal w k' := by
  unfold bal; rw [alist_get_set_other _ _ _ _ h]

/-- exactly one entry of the dict has the key (Python dict keys are unique) -/
def UniqueKey (ps : List Pos) (lo up : Int) (p0 : Pos) : Prop :=
  ∃ l r, ps = l ++ p0 :: r ∧ (∀ q ∈ l, q.hasKey lo up = false) ∧ (∀ q ∈ r, q.hasKey lo up = false) ∧ p0.hasKey lo up = true

theorem mapPos_of_noKey (ps : List Pos) (lo up : Int) (f : Pos → Pos) (h : ∀ q ∈ ps, q.hasKey lo up = false) :
    mapPos ps lo up f = ps := by
  unfold mapPos
  induction ps with
  | nil => rfl
  | cons q qs ih =>
    simp only [List.map_cons, h q (List.mem_cons_self ..), Bool.false_eq_true, if_false]
    rw [ih (fun x hx => h x (List.mem_cons_of_mem _ hx))]

theorem mapPos_unique {ps : List Pos} {lo up : Int} {p0 : Pos} (f : Pos → Pos) (h : UniqueKey ps lo up p0) :
    ∃ l r, ps = l ++ p0 :: r ∧ mapPos ps lo up f = l ++ f p0 :: r := by
  obtain ⟨l, r, e, hl, hr, hk⟩ := h
  refine ⟨l, r, e, ?_⟩
  subst e
  have h1 := mapPos_of_noKey l lo up f hl
  have h2 := mapPos_of_noKey r lo up f hr
  unfold mapPos at h1 h2 ⊢
  simp only [List.map_append, List.map_cons, h1, h2, hk, if_true]

theorem erasePos_unique {ps : List Pos} {lo up : Int} {p0 : Pos} (h : UniqueKey ps lo up p0) :
    ∃ l r, ps = l ++ p0 :: r ∧ erasePos ps lo up = l ++ r := by
  obtain ⟨l, r, e, hl, hr, hk⟩ := h
  refine ⟨l, r, e, ?_⟩
  subst e
  unfold erasePos
  simp only [List.filter_append, List.filter_cons, hk, Bool.not_true, Bool.false_eq_true, if_false]
  congr 1
  · exact List.filter_eq_self.mpr (fun q hq => by simp [hl q hq])
  · exact List.filter_eq_self.mpr (fun q hq => by simp [hr q hq])

theorem findPos_unique {ps : List Pos} {lo up : Int} {p0 : Pos} (h : UniqueKey ps lo up p0) : findPos ps lo up = some p0 := by
  obtain ⟨l, r, e, hl, _, hk⟩ := h
  subst e
  unfold findPos
  induction l with
  | nil => simp [List.find?_cons, hk]
  | cons q qs ih =>
    have hq := hl q (List.mem_cons_self ..)
    simp only [List.cons_append, List.find?_cons, hq]
    exact ih (fun x hx => hl x (List.mem_cons_of_mem _ hx))

/-- replacing the entry with the key changes the sum by the difference of the two entries' contributions -/
theorem sumOver_replace (f : Pos → Rat) (l r : List Pos) (p q : Pos) :
    sumOver f (l ++ q :: r) = sumOver f (l ++ p :: r) - (if p.transferred then 0 else f p) + (if q.transferred then 0 else f q) := by
  rw [C01_uni_transferred_skipped f l r q, C01_uni_transferred_skipped f l r p]; ring

theorem bal_credit_self (w : Wallet) (k : String) (a : Rat) : bal (Wallet.credit NumCtx.exact w k a) k = bal w k + a := by
  unfold Wallet.credit bal
  cases hg : AList.get? w k with
  | none => simp only [alist_get_set_self, assetAdd, NumCtx.exact_add, Option.getD_some, Option.getD_none]
  | some b => simp only [alist_get_set_self, assetAdd, NumCtx.exact_add, Option.getD_some]

theorem bal_credit_other (cx : NumCtx) (w : Wallet) (k k' : String) (a : Rat) (h : k' ≠ k) :
    bal (Wallet.credit cx w k a) k' = bal w k' := by
  unfold Wallet.credit
  split <;> exact bal_set_other _ _ _ _ h

theorem walletVal_credit2 (pool : Pool) (price : Rat) (w : Wallet) (f0 f1 : Rat) (hne : pool.tok0 ≠ pool.tok1) :
    walletVal pool price (Wallet.credit NumCtx.exact (Wallet.credit NumCtx.exact w pool.tok0 f0) pool.tok1 f1) =
      walletVal pool price w + tokVal pool price f0 f1 := by
  unfold walletVal
  rw [bal_credit_other _ _ _ _ _ hne, bal_credit_self, bal_credit_self, bal_credit_other _ _ _ _ _ hne.symm, tokVal_add]

theorem mapPos_decomp (l r : List Pos) (p0 : Pos) (lo up : Int) (f : Pos → Pos)
    (hl : ∀ q ∈ l, q.hasKey lo up = false) (hr : ∀ q ∈ r, q.hasKey lo up = false) (hk : p0.hasKey lo up = true) :
    mapPos (l ++ p0 :: r) lo up f = l ++ f p0 :: r := by
  have h1 := mapPos_of_noKey l lo up f hl
  have h2 := mapPos_of_noKey r lo up f hr
  unfold mapPos at h1 h2 ⊢
  simp only [List.map_append, List.map_cons, h1, h2, hk, if_true]

theorem erasePos_decomp (l r : List Pos) (q : Pos) (lo up : Int)
    (hl : ∀ x ∈ l, x.hasKey lo up = false) (hr : ∀ x ∈ r, x.hasKey lo up = false) (hk : q.hasKey lo up = true) :
    erasePos (l ++ q :: r) lo up = l ++ r := by
  unfold erasePos
  simp only [List.filter_append, List.filter_cons, hk, Bool.not_true, Bool.false_eq_true, if_false]
  congr 1
  · exact List.filter_eq_self.mpr (fun x hx => by simp [hl x hx])
  · exact List.filter_eq_self.mpr (fun x hx => by simp [hr x hx])

end Demeter.Uni
