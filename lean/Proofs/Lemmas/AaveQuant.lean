/-
  `Decimal.quantize` (round-half-even to k decimals) is within half a unit of the last place.
-/
import Demeter.Num
import Mathlib.Tactic.Linarith
import Mathlib.Tactic.FieldSimp
import Mathlib.Tactic.Ring
import Mathlib.Tactic.NormNum
import Mathlib.Tactic.Positivity
import Mathlib.Algebra.Order.Field.Rat
import Mathlib.Algebra.Order.Field.Basic
import Mathlib.Data.Rat.Cast.Order
namespace Demeter

theorem aave_rhe_err (n d : Nat) (hd : 0 < d) :
    |((roundHalfEvenNat n d : Nat) : Rat) - (n : Rat) / d| ≤ 1 / 2 := by
  have hdq : (0 : Rat) < d := by exact_mod_cast hd
  have hn : (n : Rat) = (d : Rat) * ((n / d : Nat) : Rat) + ((n % d : Nat) : Rat) := by
    exact_mod_cast (Nat.div_add_mod n d).symm
  have hr : ((n % d : Nat) : Rat) < d := by exact_mod_cast Nat.mod_lt n hd
  have hr0 : (0 : Rat) ≤ ((n % d : Nat) : Rat) := by positivity
  have hdiv : (n : Rat) / d = ((n / d : Nat) : Rat) + ((n % d : Nat) : Rat) / d := by
    rw [hn]; field_simp
  unfold roundHalfEvenNat
  simp only []
  rw [hdiv]
  have key1 : 2 * (n % d) < d → ((n % d : Nat) : Rat) / d < 1 / 2 := by
    intro h
    rw [div_lt_iff₀ hdq]
    have : (2 : Rat) * ((n % d : Nat) : Rat) < d := by exact_mod_cast h
    linarith
  have key2 : 2 * (n % d) > d → 1 / 2 < ((n % d : Nat) : Rat) / d := by
    intro h
    rw [lt_div_iff₀ hdq]
    have : (d : Rat) < (2 : Rat) * ((n % d : Nat) : Rat) := by exact_mod_cast h
    linarith
  have hle1 : ((n % d : Nat) : Rat) / d < 1 := by rw [div_lt_one hdq]; exact hr
  have hge0 : 0 ≤ ((n % d : Nat) : Rat) / d := div_nonneg hr0 (le_of_lt hdq)
  split
  · rename_i h
    have := key1 h
    rw [abs_le]; constructor <;> linarith
  · split
    · rename_i _ h
      have := key2 h
      push_cast
      rw [abs_le]; constructor <;> linarith
    · rename_i h1 h2
      have heq : 2 * (n % d) = d := by omega
      have : ((n % d : Nat) : Rat) / d = 1 / 2 := by
        rw [div_eq_iff (ne_of_gt hdq)]
        have : (2 : Rat) * ((n % d : Nat) : Rat) = d := by exact_mod_cast heq
        linarith
      split
      · rw [this, abs_le]; constructor <;> linarith
      · push_cast; rw [this, abs_le]; constructor <;> linarith

theorem aave_quant_err (k : Nat) (x : Rat) : |quantHalfEven k x - x| ≤ 1 / (2 * 10 ^ k) := by
  have hden : (0 : Rat) < x.den := by exact_mod_cast x.den_pos
  have hp : (0 : Rat) < (10 : Rat) ^ k := by positivity
  have hx : x = (x.num : Rat) / x.den := (Rat.num_div_den x).symm
  have habs : ((x.num.natAbs : Nat) : Rat) = |(x.num : Rat)| := by
    rw [Nat.cast_natAbs]; simp
  have herr := aave_rhe_err (x.num.natAbs * pow10 k) x.den x.den_pos
  unfold quantHalfEven
  simp only []
  set q := roundHalfEvenNat (x.num.natAbs * pow10 k) x.den with hq
  have hm : (mkRat (q : Int) (pow10 k) : Rat) = (q : Rat) / (10 : Rat) ^ k := by
    rw [Rat.mkRat_eq_div]; simp [pow10]
  have hscaled : (((x.num.natAbs * pow10 k : Nat) : Rat)) / x.den = |x| * 10 ^ k := by
    push_cast
    rw [habs, pow10]
    push_cast
    conv_rhs => rw [hx, abs_div, abs_of_pos hden]
    ring
  rw [hscaled] at herr
  have hbound : abs ((q : Rat) / 10 ^ k - abs x) ≤ 1 / (2 * 10 ^ k) := by
    have : (q : Rat) / 10 ^ k - abs x = ((q : Rat) - abs x * 10 ^ k) / 10 ^ k := by field_simp
    rw [this, abs_div, abs_of_pos hp, div_le_div_iff₀ hp (by positivity)]
    calc abs ((q : Rat) - abs x * 10 ^ k) * (2 * 10 ^ k) ≤ (1 / 2) * (2 * 10 ^ k) := by
          apply mul_le_mul_of_nonneg_right herr (by positivity)
      _ = 1 * 10 ^ k := by ring
  split
  · rename_i hneg
    have hxneg : x < 0 := by rw [hx]; exact div_neg_of_neg_of_pos (by exact_mod_cast hneg) hden
    rw [hm]
    have : -( (q : Rat) / 10 ^ k) - x = -((q : Rat) / 10 ^ k - abs x) := by rw [abs_of_neg hxneg]; ring
    rw [this, abs_neg]; exact hbound
  · rename_i hnn
    have hxnn : 0 ≤ x := by rw [hx]; exact div_nonneg (by exact_mod_cast not_lt.mp hnn) (le_of_lt hden)
    rw [hm]
    have : (q : Rat) / 10 ^ k - x = (q : Rat) / 10 ^ k - abs x := by rw [abs_of_nonneg hxnn]
    rw [this]; exact hbound
end Demeter
