import Proofs.Lemmas.CoreActuator8
namespace Demeter.Core

/-- an accepted operation on market `m` -/
def okOn (m : Nat) : Ev → Bool
  | .opOk _ _ m' _ => m' == m
  | _ => false

def anyOk (m : Nat) (l : List Ev) : Bool := l.any (okOn m)

theorem anyOk_append (m : Nat) (a b : List Ev) : anyOk m (a ++ b) = (anyOk m a || anyOk m b) := by simp [anyOk]

/-- how a stretch of events moves the `has_update` flags: market `i`'s flag is set iff it was set or the stretch contains an
    accepted operation on market `i` -/
def HURel (evs : List Ev) (ms ms' : List MSt) : Prop :=
  ∀ i, (ms'[i]?).map (·.hasUpdate) = (ms[i]?).map (fun s => s.hasUpdate || anyOk i evs)

theorem HURel.refl (ms : List MSt) : HURel [] ms ms := by
  intro i; simp [anyOk]

theorem HURel.trans {e1 e2 : List Ev} {a b c : List MSt} (h1 : HURel e1 a b) (h2 : HURel e2 b c) : HURel (e1 ++ e2) a c := by
  intro i
  rw [h2 i]
  have : (b[i]?).map (fun s => s.hasUpdate || anyOk i e2) = ((b[i]?).map (·.hasUpdate)).map (fun x => x || anyOk i e2) := by
    rw [Option.map_map]; rfl
  rw [this, h1 i, Option.map_map]
  congr 1
  funext s
  simp [anyOk_append, Bool.or_assoc]

/-- prefixing an event that is not an accepted operation -/
theorem HURel.cons_silent {evs : List Ev} {a b : List MSt} (e : Ev) (he : ∀ m, okOn m e = false) (h : HURel evs a b) :
    HURel (e :: evs) a b := by
  intro i
  rw [h i]
  congr 1
  funext s
  simp [anyOk, he]

theorem doOp_hu (ts : Int) (h : Hook) (op : OpSpec) (st : St) : HURel (doOp ts h op st).1 st.ms (doOp ts h op st).2.ms := by
  unfold doOp
  cases hs : st.ms[op.m]? with
  | none => exact HURel.refl _
  | some s =>
    simp only []
    split
    · split
      · exact HURel.cons_silent _ (fun _ => rfl) (HURel.refl _)
      · exact HURel.cons_silent _ (fun _ => rfl) (HURel.refl _)
    · split
      · exact HURel.cons_silent _ (fun _ => rfl) (HURel.refl _)
      · split
        · exact HURel.cons_silent _ (fun _ => rfl) (HURel.refl _)
        · intro i
          show ((st.ms.set op.m { s with hasUpdate := true })[i]?).map (·.hasUpdate) = _
          rw [List.getElem?_set]
          by_cases hi : op.m = i
          · subst hi
            have hlt : op.m < st.ms.length := by
              by_contra hc
              have : st.ms[op.m]? = none := List.getElem?_eq_none (by omega)
              rw [this] at hs; cases hs
            simp [hlt, hs, anyOk, okOn]
          · simp only [hi, if_false]
            congr 1
            funext s'
            simp [anyOk, okOn, hi]

theorem runOps_hu (ts : Int) (h : Hook) : ∀ (ops : List OpSpec) (st : St), HURel (runOps ts h ops st).1 st.ms (runOps ts h ops st).2.ms
  | [], st => HURel.refl _
  | op :: ops, st => HURel.trans (doOp_hu ts h op st) (runOps_hu ts h ops _)

theorem runFires_hu (sc : Script) (ts : Int) (row : Nat) : ∀ (fs : List Fire) (st : St),
    HURel (runFires sc ts row fs st).1 st.ms (runFires sc ts row fs st).2.ms
  | [], st => HURel.refl _
  | f :: fs, st =>
    HURel.cons_silent _ (fun _ => rfl) (HURel.trans (runOps_hu ts (.fire f.id) (sc.fire row f.id) st) (runFires_hu sc ts row fs _))

theorem runOpenFrom_hu (sc : Script) (ts : Int) (row : Nat) : ∀ (i : Nat) (ms : List MarketCfg) (st : St),
    HURel (runOpenFrom sc ts row i ms st).1 st.ms (runOpenFrom sc ts row i ms st).2.ms
  | _, [], st => HURel.refl _
  | i, mc :: rest, st => by
    by_cases hc : (mc.openCb && st.openAt i) = true
    · simp only [runOpenFrom, hc, if_true]
      exact HURel.cons_silent _ (fun _ => rfl)
        (HURel.trans (runOps_hu ts (.openCb i) (sc.openCb row i) st) (runOpenFrom_hu sc ts row (i + 1) rest _))
    · simp only [runOpenFrom, hc]
      exact runOpenFrom_hu sc ts row (i + 1) rest st

/-- the second refresh emits one event per market whose flag is set, in market order -/
theorem setUpdatedFrom_sets (cfg : Cfg) (ts : Int) : ∀ (i : Nat) (ms : List MarketCfg) (ss : List MSt), ms.length = ss.length →
    (setUpdatedFrom cfg ts i ms ss).1.filterMap set2Of =
      ((List.range' i ss.length).filter (fun k => ((ss[k - i]?).map (·.hasUpdate)) == some true)).map (fun k => (ts, k))
  | _, [], [], _ => by unfold setUpdatedFrom; rfl
  | i, mc :: rest, s :: ss, hl => by
    have ih := setUpdatedFrom_sets cfg ts (i + 1) rest ss (by simpa using hl)
    have shift : (List.range' (i + 1) ss.length).filter (fun k => (((s :: ss)[k - i]?).map (·.hasUpdate)) == some true) =
        (List.range' (i + 1) ss.length).filter (fun k => ((ss[k - (i + 1)]?).map (·.hasUpdate)) == some true) := by
      apply List.filter_congr
      intro k hk
      have hk' := (List.mem_range'_1.mp hk).1
      have : k - i = (k - (i + 1)) + 1 := by omega
      rw [this, List.getElem?_cons_succ]
    unfold setUpdatedFrom
    by_cases hu : s.hasUpdate = true
    · simp only [hu, if_true, List.filterMap_cons, setEv, set2Of, ih, List.length_cons, List.range'_succ, List.filter_cons,
        Nat.sub_self, List.getElem?_cons_zero, Option.map_some, beq_self_eq_true, List.map_cons, shift]
    · have hu' : s.hasUpdate = false := by simpa using hu
      simp only [hu', Bool.false_eq_true, if_false, ih, List.length_cons, List.range'_succ, List.filter_cons, Nat.sub_self,
        List.getElem?_cons_zero, Option.map_some, shift]
      simp

end Demeter.Core
