/-
  `Broker.subtract_from_balance` (`Asset.sub`) in exact arithmetic, for the C10 repay split: what one accepted debit does to
  the wallet (`aave_debit_inv`), and two debits `a`, `b` against one debit `a + b` (`aave_debit_two`): the same balance, or
  balances that differ only inside `Asset.sub`'s 1e-5 dust snap.
-/
import Proofs.C10
import Mathlib.Algebra.Order.Field.Basic
import Mathlib.Algebra.Order.Ring.Abs
namespace Demeter
open Aave


theorem aave_assetDust_bounds : 0 < assetDust ∧ assetDust < 1 := by
  unfold assetDust Gen.assetSubDust; constructor <;> norm_num

theorem aave_ratAbs_eq (x : Rat) : ratAbs x = |x| := by
  unfold ratAbs
  split
  · rw [abs_of_neg ‹_›]
  · rw [abs_of_nonneg (not_lt.mp ‹_›)]

/-- `subtract_from_balance` in exact arithmetic: the new wallet is the old one with the token's balance replaced by the
    difference, or by 0 when the difference is within the 1e-5 dust of the (non-zero) balance -/
theorem aave_debit_inv {w w' : Wallet} {tok : String} {amount : Rat}
    (h : Wallet.debit aaveExact.toNumCtx w tok amount false = .ok w') (hpos : amount > 0) :
    ∃ b b', AList.get? w tok = some b ∧ w' = AList.set w tok b' ∧
      ((b' = b - amount ∧ 0 ≤ b - amount) ∨ (b' = 0 ∧ 0 < b ∧ |b - amount| < assetDust * b)) := by
  unfold Wallet.debit at h
  cases hb : AList.get? w tok with
  | none => rw [hb] at h; simp at h
  | some b =>
    rw [hb] at h
    dsimp only at h
    cases ha : assetSub aaveExact.toNumCtx b amount false with
    | none => rw [ha] at h; cases h
    | some b' =>
      rw [ha] at h
      cases h
      refine ⟨b, b', rfl, rfl, ?_⟩
      unfold assetSub at ha
      have hbase : (if b ≠ 0 then b else amount) ≠ 0 := by
        split
        · assumption
        · exact ne_of_gt hpos
      simp only [hbase, if_false, Bool.false_eq_true] at ha
      by_cases hd : ratAbs (aaveExact.div (aaveExact.sub b amount) (if b ≠ 0 then b else amount)) < assetDust
      · simp only [hd, if_true] at ha
        cases ha
        right
        rw [aave_ratAbs_eq] at hd
        simp only [aaveExact_div, aaveExact_sub] at hd
        by_cases hb0 : b = 0
        · exfalso
          subst hb0
          simp only [ne_eq, not_true_eq_false, if_false, zero_sub] at hd
          rw [neg_div, div_self (ne_of_gt hpos), abs_neg, abs_one] at hd
          linarith [aave_assetDust_bounds.2]
        · simp only [ne_eq, hb0, not_false_eq_true, if_true] at hd
          rw [abs_div] at hd
          -- b must be positive: otherwise |b - amount| ≥ |b|
          have hbpos : 0 < b := by
            by_contra hn
            have hneg : b < 0 := lt_of_le_of_ne (not_lt.mp hn) hb0
            have h1 : |b| ≤ |b - amount| := by
              rw [abs_of_neg hneg, abs_of_neg (by linarith)]; linarith
            have h2 : (1 : Rat) ≤ |b - amount| / |b| := by
              rw [le_div_iff₀ (abs_pos.mpr hb0)]; linarith
            linarith [aave_assetDust_bounds.2]
          rw [abs_of_pos hbpos, div_lt_iff₀ hbpos] at hd
          exact ⟨rfl, hbpos, hd⟩
      · simp only [hd, if_false] at ha
        by_cases hn : aaveExact.sub b amount < 0
        · simp only [hn, if_true] at ha; cases ha
        · simp only [hn, if_false] at ha
          cases ha
          exact Or.inl ⟨rfl, not_lt.mp hn⟩

/-- how a debit of `amount` from the balance `b0` can end: with the difference, or — inside `Asset.sub`'s dust — with 0 -/
def Aave.DebitEnds (b0 amount x : Rat) : Prop :=
  (x = b0 - amount ∧ 0 ≤ b0 - amount) ∨ (x = 0 ∧ 0 < b0 ∧ |b0 - amount| < assetDust * b0)

/-- two debits `a` then `b` against one debit `a + b` of the same wallet (all accepted): each ends with the difference
    `b₀ − (a+b)` or with 0, as one debit of `a + b` may -/
theorem aave_debit_two {w w1 w2 w12 : Wallet} {tok : String} {a b : Rat} (ha : a > 0) (hb : b > 0)
    (h1 : Wallet.debit aaveExact.toNumCtx w tok a false = .ok w1)
    (h2 : Wallet.debit aaveExact.toNumCtx w1 tok b false = .ok w2)
    (h12 : Wallet.debit aaveExact.toNumCtx w tok (a + b) false = .ok w12) :
    ∃ b0 x2 x12, AList.get? w tok = some b0 ∧ w2 = AList.set w tok x2 ∧ w12 = AList.set w tok x12 ∧
      DebitEnds b0 (a + b) x2 ∧ DebitEnds b0 (a + b) x12 := by
  obtain ⟨b0, x1, g0, e1, c1⟩ := aave_debit_inv h1 ha
  obtain ⟨b1, x2, g1, e2, c2⟩ := aave_debit_inv h2 hb
  obtain ⟨b0', x12, g0', e12, c12⟩ := aave_debit_inv h12 (by linarith)
  rw [g0] at g0'; cases g0'
  rw [e1, aget_set_self] at g1; cases g1
  have hd := aave_assetDust_bounds
  -- the first debit did not snap to 0 and left a positive balance (else the second would be refused)
  have hx1 : x1 = b0 - a ∧ 0 < x1 := by
    rcases c1 with ⟨e, h⟩ | ⟨e, _, _⟩
    · refine ⟨e, ?_⟩
      rcases c2 with ⟨_, h'⟩ | ⟨_, h', _⟩
      · linarith
      · exact h'
    · exfalso
      rcases c2 with ⟨_, h'⟩ | ⟨_, h', _⟩
      · rw [e] at h'; linarith
      · rw [e] at h'; exact lt_irrefl _ h'
  obtain ⟨ex1, px1⟩ := hx1
  have hb0 : 0 < b0 := by linarith
  have hdiff : x1 - b = b0 - (a + b) := by rw [ex1]; ring
  refine ⟨b0, x2, x12, g0, by rw [e2, e1, aset_aset], e12, ?_, c12⟩
  rcases c2 with ⟨e, h⟩ | ⟨e, _, hs2⟩
  · left; rw [← hdiff]; exact ⟨e, h⟩
  · right
    rw [hdiff] at hs2
    have : assetDust * x1 ≤ assetDust * b0 := mul_le_mul_of_nonneg_left (by linarith) hd.1.le
    exact ⟨e, hb0, by linarith⟩

/-- two ends of the same debit differ only inside the dust -/
theorem Aave.DebitEnds.differ {b0 amount x y : Rat} (hx : DebitEnds b0 amount x) (hy : DebitEnds b0 amount y) (hne : x ≠ y) :
    0 < b0 ∧ |b0 - amount| < assetDust * b0 := by
  rcases hx with ⟨e, _⟩ | ⟨e, h⟩
  · rcases hy with ⟨e', _⟩ | ⟨_, h'⟩
    · exact absurd (e.trans e'.symm) hne
    · exact h'
  · exact h

theorem aave_walletTook_of_set {w : Wallet} {tok : String} {b0 x amount : Rat} (hg : AList.get? w tok = some b0)
    (hx : DebitEnds b0 amount x) :
    WalletTook w (AList.set w tok x) tok amount := by
  refine ⟨b0, x, hg, aget_set_self _ _ _, ?_, fun k hk => aget_set_ne _ (Ne.symm hk) _⟩
  rcases hx with h | ⟨e, hp, hs⟩
  · exact Or.inl h
  · right
    refine ⟨e, ?_⟩
    rw [aave_ratAbs_eq, if_pos (ne_of_gt hp), abs_div, abs_of_pos hp, div_lt_iff₀ hp]
    exact hs
end Demeter
