/-
  Mirror lemmas for the operations that take a caller-chosen pool price: an explicit `sqrt_price_x96` (mirrored through
  the kernel's sqrt-price map `ms`) or an explicit execution `tick` (negated).  Generalisations of the `none` forms in
  `Proofs/Lemmas/UniMirror.lean` (same proofs, the sqrt argument carried along).
-/
import Proofs.Lemmas.UniMirror
namespace Demeter.Uni
open Demeter

theorem resolveSqrt_mirror_sq {K K' : Kern} {pool : Pool} {ms : Nat → Nat} (hk : KernMirror K K' pool ms) (s : State)
    (sq : Option Nat) :
    resolveSqrt K' (mPool pool) (mState s) (sq.map ms) = (resolveSqrt K pool s sq).map ms := by
  cases sq with
  | none => exact resolveSqrt_mirror hk s
  | some x => rfl

theorem removeNoCollect_mirror_sq {K K' : Kern} {pool : Pool} {ms : Nat → Nat} (hk : KernMirror K K' pool ms) (s : State)
    (lo up : Int) (l : Option Int) (sq : Option Nat) :
    removeNoCollect K' (mPool pool) (mState s) (-up) (-lo) l (sq.map ms) = mRes (removeNoCollect K pool s lo up l sq) := by
  unfold removeNoCollect
  simp only [mState_positions, isTransferred_mirror, mState_isOpen, resolveSqrt_mirror_sq hk, findPos_mirror]
  split
  · rfl
  · split
    · rfl
    · split
      · rfl
      · cases hr : resolveSqrt K pool s sq with
        | error e => rfl
        | ok sqrt =>
          simp only [Except.map]
          cases hf : findPos s.positions lo up with
          | none => rfl
          | some p =>
            simp only [Option.map_some, removeDelta_mirror, hk.amounts]
            cases ha : K.amounts pool sqrt lo up (removeDelta l p).1 (removeDelta l p).2 with
            | error e => rfl
            | ok g =>
              obtain ⟨g0, g1⟩ := g
              simp only [Except.map, mState_wallet, mPool_baseTok, mPool_quoteTok, mPool_conv, hk.cx, removePos_mirror,
                removeAct_mirror, removeCore_mirror K K' hk.cx, record_mirror]
              split <;> rfl

theorem remove_mirror_sq {K K' : Kern} {pool : Pool} {ms : Nat → Nat} (hk : KernMirror K K' pool ms) (s : State)
    (lo up : Int) (l : Option Int) (c rd : Bool) (sq : Option Nat)
    (hw : WalletHas pool s.wallet) (hne : pool.tok0 ≠ pool.tok1) :
    remove K' (mPool pool) (mState s) (-up) (-lo) l c (sq.map ms) rd = mRes (remove K pool s lo up l c sq rd) := by
  unfold remove
  rw [removeNoCollect_mirror_sq hk]
  cases hr : removeNoCollect K pool s lo up l sq with
  | mk out s2 =>
    cases out with
    | error e => rfl
    | ok v =>
      simp only [mRes]
      cases c with
      | false => rfl
      | true =>
        simp only [if_true]
        have hw2 : WalletHas pool s2.wallet := by
          have := removeNoCollect_wallet K pool s lo up l sq
          rw [hr] at this; rw [this]; exact hw
        exact collect_mirror hk s2 lo up none none rd true hw2 hne

theorem addRaw_mirror_sq {K K' : Kern} {pool : Pool} {ms : Nat → Nat} (hk : KernMirror K K' pool ms) (ht : TickErr K pool)
    (s : State) (a0 a1 : Rat) (lo up : Int) (sq : Option Nat) (hw : WalletHas pool s.wallet) (hne : pool.tok0 ≠ pool.tok1) :
    addRaw K' (mPool pool) (mState s) a1 a0 (-up) (-lo) (sq.map ms) =
      ((addRaw K pool s a0 a1 lo up sq).1.map (fun r => (-r.2.1, -r.1, r.2.2.2.1, r.2.2.1, r.2.2.2.2)),
       mState (addRaw K pool s a0 a1 lo up sq).2) := by
  unfold addRaw
  have hgt : (-up > -lo) ↔ (lo > up) := by constructor <;> intro h <;> omega
  simp only [mState_isOpen, mPool_spacing, pyMod_neg_zero, resolveSqrt_mirror_sq hk, hgt,
    Bool.and_comm (pyMod up pool.spacing == 0), Bool.or_comm (decide (a1 < 0))]
  split
  · rfl
  · split
    · rfl
    · cases hr : resolveSqrt K pool s sq with
      | error e => rfl
      | ok sqrt =>
        simp only [Except.map]
        split
        · rfl
        · split
          · rfl
          · simp only [hk.newPos]
            cases hn : K.newPos pool sqrt lo up a0 a1 with
            | error e => rfl
            | ok r =>
              obtain ⟨u0, u1, liq⟩ := r
              simp only [Except.map, newEntity_mirror hk ht]
              cases he : newEntity K pool s lo up liq sqrt with
              | error e => rfl
              | ok ent =>
                simp only [Except.map, hk.cx, mState_wallet, mState_allowNeg, mPool_tok0, mPool_tok1,
                  debit2_comm K.cx s.wallet pool.tok1 pool.tok0 u1 u0 s.allowNeg hne.symm hw.2 hw.1]
                cases hd : debit2 K.cx s.wallet pool.tok0 u0 pool.tok1 u1 s.allowNeg with
                | error e => rfl
                | ok w2 =>
                  simp only [Except.map, mState_positions, addToPositions_mirror]
                  rfl

theorem addAndLog_mirror_sq {K K' : Kern} {pool : Pool} {ms : Nat → Nat} (hk : KernMirror K K' pool ms) (ht : TickErr K pool)
    (s : State) (b q : Rat) (lo up : Int) (sq : Option Nat) (lp upp lp' upp' : Rat) (hw : WalletHas pool s.wallet)
    (hne : pool.tok0 ≠ pool.tok1) :
    (addAndLog K' (mPool pool) (mState s) b q (-up) (-lo) (sq.map ms) lp' upp').1 =
        (addAndLog K pool s b q lo up sq lp upp).1.map mKeyResult ∧
    stripLog (addAndLog K' (mPool pool) (mState s) b q (-up) (-lo) (sq.map ms) lp' upp').2 =
        stripLog (mState (addAndLog K pool s b q lo up sq lp upp).2) := by
  unfold addAndLog
  simp only [mPool_conv' pool b q]
  rw [addRaw_mirror_sq hk ht s (pool.conv b q).1 (pool.conv b q).2 lo up sq hw hne]
  cases hr : addRaw K pool s (pool.conv b q).1 (pool.conv b q).2 lo up sq with
  | mk out s1 =>
    cases out with
    | error e => exact ⟨rfl, rfl⟩
    | ok v =>
      obtain ⟨l, u, u0, u1, liq⟩ := v
      simp only [Except.map, mPool_conv, mState_wallet, mPool_baseTok, mPool_quoteTok]
      cases hb : balanceOf s1.wallet pool.baseTok with
      | error e => exact ⟨rfl, rfl⟩
      | ok bb =>
        cases hq : balanceOf s1.wallet pool.quoteTok with
        | error e => exact ⟨rfl, rfl⟩
        | ok qb =>
          refine ⟨?_, rfl⟩
          have hv := addRaw_key hr
          simp only [Except.map, mKeyResult, hv.1, hv.2, Int.cast_neg]

/-- the execution price of `add_liquidity_by_tick` on the mirror: explicit sqrt price through `ms`, explicit tick negated -/
theorem sqrtOrTick_mirror_sq {K K' : Kern} {pool : Pool} {ms : Nat → Nat} (hk : KernMirror K K' pool ms)
    (sq : Option Nat) (t : Option Int) :
    sqrtOrTick K' (sq.map ms) (t.map (fun x => -x)) = (sqrtOrTick K sq t).map (fun o => o.map ms) := by
  cases sq with
  | some x => rfl
  | none =>
    cases t with
    | none => rfl
    | some t =>
      simp only [Option.map, sqrtOrTick, hk.tickToSqrt]
      cases K.tickToSqrt t <;> rfl

theorem addByTick_mirror_sq {K K' : Kern} {pool : Pool} {ms : Nat → Nat} (hk : KernMirror K K' pool ms) (ht : TickErr K pool)
    (s : State) (lo up : Int) (b q : Option Rat) (sq : Option Nat) (t : Option Int) (trim : Bool)
    (hw : WalletHas pool s.wallet) (hne : pool.tok0 ≠ pool.tok1) :
    MirrorStep (.addByTick lo up b q sq t trim) (addByTick K pool s lo up b q sq t trim)
      (addByTick K' (mPool pool) (mState s) (-up) (-lo) b q (sq.map ms) (t.map (fun x => -x)) trim) := by
  unfold addByTick
  have key : ∀ (l u : Int),
      (if -u > -l then (-l, -u) else (-u, -l)) = (-(if l > u then (u, l) else (l, u)).2, -(if l > u then (u, l) else (l, u)).1) := by
    intro l u; by_cases h : l > u
    · have : -u > -l := by omega
      simp [h, this]
    · have : ¬ (-u > -l) := by omega
      simp [h, this]
  simp only [mPool_spacing, sqrtOrTick_mirror_sq hk, mState_wallet, mPool_baseTok, mPool_quoteTok]
  cases hso : sqrtOrTick K sq t with
  | error e => exact ⟨rfl, rfl⟩
  | ok sq1 =>
    simp only [Except.map]
    cases trim with
    | true =>
      simp only [if_true, nearestUsable_neg, key]
      cases hb : orBalance s.wallet pool.baseTok b with
      | error e => exact ⟨rfl, rfl⟩
      | ok bv =>
        cases hq : orBalance s.wallet pool.quoteTok q with
        | error e => exact ⟨rfl, rfl⟩
        | ok qv =>
          simp only []
          exact addAndLog_mirror_sq hk ht s bv qv
            (if nearestUsable lo pool.spacing > nearestUsable up pool.spacing then (nearestUsable up pool.spacing, nearestUsable lo pool.spacing) else (nearestUsable lo pool.spacing, nearestUsable up pool.spacing)).1
            (if nearestUsable lo pool.spacing > nearestUsable up pool.spacing then (nearestUsable up pool.spacing, nearestUsable lo pool.spacing) else (nearestUsable lo pool.spacing, nearestUsable up pool.spacing)).2
            sq1 _ _ _ _ hw hne
    | false =>
      simp only [Bool.false_eq_true, if_false, key]
      cases hb : orBalance s.wallet pool.baseTok b with
      | error e => exact ⟨rfl, rfl⟩
      | ok bv =>
        cases hq : orBalance s.wallet pool.quoteTok q with
        | error e => exact ⟨rfl, rfl⟩
        | ok qv =>
          simp only []
          exact addAndLog_mirror_sq hk ht s bv qv (if lo > up then (up, lo) else (lo, up)).1 (if lo > up then (up, lo) else (lo, up)).2
            sq1 _ _ _ _ hw hne

end Demeter.Uni
