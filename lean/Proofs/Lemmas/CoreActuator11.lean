import Proofs.Lemmas.CoreActuator10
import Proofs.Lemmas.CoreTrigger3
namespace Demeter.Core

theorem runBars_none (cfg : Cfg) (sc : Script) (hq : ∀ r t, sc.notify r t = []) : ∀ (bars : List Int) (row : Nat) (st : St),
    (∀ t ∈ bars, (priceAt cfg t).isSome) → (∀ x ∈ st.trigs, WF x.k) → (runBars cfg sc row bars st).2.2 = none
  | [], _, _, _, _ => rfl
  | ts :: bars, row, st, hp, hwf => by
    have hpt := hp ts (List.mem_cons_self ..)
    cases hpr : priceAt cfg ts with
    | none => rw [hpr] at hpt; cases hpt
    | some price =>
      obtain ⟨b1, _, b3⟩ := barParts_trig cfg sc row ts st price
      have hph := trigPhase_ok ts st.trigs hwf
      have htp : (barParts cfg sc row ts st price).tp.2.2 = none := by rw [b1, hph]
      have hstep : barStep cfg sc row ts st = ((barParts cfg sc row ts st price).trace row ts, (barParts cfg sc row ts st price).final ts, none) := by
        have hdone : (barParts cfg sc row ts st price).nt.2.2 = true :=
          runNotify_quiet sc ts row hq _ 0 _ (by omega)
        unfold barStep
        rw [hpr]
        simp only [htp, hdone, if_true]
      have hwf' : ∀ x ∈ ((barParts cfg sc row ts st price).final ts).trigs, WF x.k := by
        rw [b3, hph]; exact WF_phase ts hwf
      have ih := runBars_none cfg sc hq bars (row + 1) _ (fun t ht => hp t (List.mem_cons_of_mem _ ht)) hwf'
      rw [runBars]
      simp only [hstep, ih]

theorem runBars_prices (cfg : Cfg) (sc : Script) : ∀ (bars : List Int) (row : Nat) (st : St),
    (runBars cfg sc row bars st).2.2 = none → ∀ t ∈ bars, (priceAt cfg t).isSome
  | [], _, _, _, t, ht => nomatch ht
  | ts :: bars, row, st, h, t, ht => by
    obtain ⟨h1, h2, _⟩ := runBars_cons_ok h
    obtain ⟨price, hpr, _, _⟩ := barStep_ok h1
    rcases List.mem_cons.mp ht with rfl | ht'
    · rw [hpr]; rfl
    · exact runBars_prices cfg sc bars (row + 1) _ h2 t ht'

end Demeter.Core
