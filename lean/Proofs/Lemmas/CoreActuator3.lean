import Proofs.Lemmas.CoreActuator2
namespace Demeter.Core

/-- the price row of a bar -/
def priceRow (cfg : Cfg) (ts : Int) : Option Int := frameSrc cfg.resample cfg.Δ cfg.priceIdx ts

theorem priceAt_some {cfg : Cfg} {ts : Int} {price : Option Int} (h : priceAt cfg ts = some price) : price = priceRow cfg ts := by
  unfold priceAt at h
  split at h
  · cases h; rfl
  · cases h

/-- the hook calls and the account row of a bar -/
def hookEvs (cfg : Cfg) (ts : Int) (row : Nat) : List Ev :=
  [.before ts row (priceRow cfg ts), .on ts row (priceRow cfg ts), .after ts row (priceRow cfg ts), .row ts (priceRow cfg ts)]

theorem runBars_fm_hook {α : Type} (P : Ev → Option α) (c : Nat) (hP : ∀ e, (P e).isSome → e.phase = c)
    (hc : c = 4 ∨ c = 8 ∨ c = 12 ∨ c = 14) (cfg : Cfg) (sc : Script) :
    ∀ (bars : List Int) (row : Nat) (st : St), (runBars cfg sc row bars st).2.2 = none →
      (runBars cfg sc row bars st).1.filterMap P = (bars.zipIdx row).flatMap (fun x => (hookEvs cfg x.1 x.2).filterMap P)
  | [], _, _, _ => rfl
  | ts :: bars, row, st, h => by
    obtain ⟨h1, h2, h3⟩ := runBars_cons_ok h
    obtain ⟨price, hpr, _, hstep⟩ := barStep_ok h1
    have ih := runBars_fm_hook P c hP hc cfg sc bars (row + 1) _ h2
    rw [h3]
    simp only [List.filterMap_append, ih, List.zipIdx_cons, List.flatMap_cons]
    rw [hstep]
    simp only []
    rw [barTrace_fm_hook P c hP hc, priceAt_some hpr]
    rfl

theorem recordedAct_stamp {e : Ev} {a : Act} (h : recordedAct e = some a) : e.ts = some a.stamp := by
  cases e with
  | opOk ts hk m tag => simp [recordedAct] at h; rw [← h]; rfl
  | uact ts m tag => simp [recordedAct] at h; rw [← h]; rfl
  | opFree ts hk m tag ok =>
    cases ok
    · simp [recordedAct] at h
    · simp [recordedAct] at h; rw [← h]; rfl
  | _ => simp [recordedAct] at h

theorem recOf_stamp {ts : Int} {l : List Ev} (hl : ∀ e ∈ l, e.ts = some ts) : ∀ a ∈ recOf l, a.stamp = ts := by
  intro a ha
  obtain ⟨e, he, hea⟩ := List.mem_filterMap.mp ha
  have h1 := recordedAct_stamp hea
  rw [hl e he] at h1
  exact (Option.some.inj h1).symm

/-- a `notify` call happens in the bar its action is stamped with -/
def NotifyOnTime : Ev → Prop
  | .notify ts _ stamp _ => ts = stamp
  | _ => True

theorem barTrace_onTime (cfg : Cfg) (sc : Script) (row : Nat) (ts : Int) (st : St) (price : Option Int)
    (hdone : (barParts cfg sc row ts st price).nt.2.2 = true)
    (hcur : ∀ a ∈ st.cur, a.stamp = ts) :
    ∀ e ∈ (barParts cfg sc row ts st price).trace row ts, NotifyOnTime e := by
  intro e he
  have hbook := barParts_book cfg sc row ts st price hdone
  simp only [] at hbook
  obtain ⟨_, hc, _, hn⟩ := hbook
  cases e with
  | notify t tag stamp m =>
    have hmem : (⟨tag, stamp, m⟩ : Act) ∈ ((barParts cfg sc row ts st price).trace row ts).filterMap notifyAct :=
      List.mem_filterMap.mpr ⟨_, he, rfl⟩
    rw [hn, hc] at hmem
    have hts := ((barTrace_sorted cfg sc row ts st price).2 _ he).1
    have ht : t = ts := by simpa [Ev.ts] using hts
    show t = stamp
    rw [ht]
    rcases List.mem_append.mp hmem with h' | h'
    · exact (hcur _ h').symm
    · exact (recOf_stamp (fun e he => ((barTrace_sorted cfg sc row ts st price).2 e he).1) _ h').symm
  | _ => trivial

theorem runBars_book (cfg : Cfg) (sc : Script) :
    ∀ (bars : List Int) (row : Nat) (st : St), (runBars cfg sc row bars st).2.2 = none →
      (runBars cfg sc row bars st).2.1.rows = st.rows ++ bars.map (fun ts => (ts, priceRow cfg ts)) ∧
      (runBars cfg sc row bars st).2.1.all = st.all ++ recOf (runBars cfg sc row bars st).1 ∧
      (runBars cfg sc row bars st).1.filterMap notifyAct =
        (match bars with | [] => [] | _ :: _ => st.cur) ++ recOf (runBars cfg sc row bars st).1 ∧
      ((∀ a ∈ st.cur, ∀ t ∈ bars.head?, a.stamp = t) → ∀ e ∈ (runBars cfg sc row bars st).1, NotifyOnTime e)
  | [], _, st, _ => by
    refine ⟨by simp [runBars], by simp [runBars, recOf], by simp [runBars, recOf], ?_⟩
    intro _ e he
    simp [runBars] at he
  | ts :: bars, row, st, h => by
    obtain ⟨h1, h2, h3⟩ := runBars_cons_ok h
    obtain ⟨price, hpr, _, hstep⟩ := barStep_ok h1
    obtain ⟨ih1, ih2, ih3, ih4⟩ := runBars_book cfg sc bars (row + 1) _ h2
    have hdone := barStep_notify_done h1 hpr
    have hbook := barParts_book cfg sc row ts st price hdone
    simp only [] at hbook
    obtain ⟨b1, b2, b3, b4⟩ := hbook
    rw [h3]
    rw [hstep] at ih1 ih2 ih3 ih4 ⊢
    simp only [BarParts.final] at ih1 ih2 ih3 ih4 ⊢
    refine ⟨?_, ?_, ?_, ?_⟩
    · have hpe : (barParts cfg sc row ts st price).price = price := rfl
      rw [ih1, b1, hpe, priceAt_some hpr]; simp
    · rw [ih2, b3, recOf_append, List.append_assoc]
    · rw [List.filterMap_append, ih3, b4, b2, recOf_append]
      cases bars <;> simp
    · intro hcur e he
      rcases List.mem_append.mp he with h' | h'
      · exact barTrace_onTime cfg sc row ts st price hdone (fun a ha => hcur a ha ts (by simp)) e h'
      · exact ih4 (by intro a ha; cases ha) e h'

end Demeter.Core
