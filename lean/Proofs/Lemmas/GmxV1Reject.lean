/-
  GMX v1: every rejection path of `buy_glp` / `sell_glp` / `update` returns the state it was given — for every
  arithmetic context.  (Used by C17's invariants and restated as the C04 GMX theorems.)
-/
import Demeter.GmxV1
namespace Demeter.Gmx
open Demeter Demeter.GmxV1

theorem buyGlp_reject {cx : NumCtx} {env : Env} {s s' : State} {tok : String} {dec : Nat} {a : Rat} {e : Err} {an : Bool}
    (h : buyGlp cx env s tok dec a an = (.error e, s')) : s' = s := by
  unfold buyGlp at h
  split at h
  · cases h; rfl
  · split at h
    · cases h; rfl
    · split at h <;> first | (cases h; rfl) | cases h

theorem sellGlp_reject {cx : NumCtx} {env : Env} {s s' : State} {tok : String} {dec : Nat} {ga : Rat} {e : Err}
    (h : sellGlp cx env s tok dec ga = (.error e, s')) : s' = s := by
  unfold sellGlp at h
  simp only [] at h
  generalize (if ga = 0 then s.glp else ga) = g at h
  split at h
  · cases h; rfl
  · split at h
    · cases h; rfl
    · split at h
      · cases h; rfl
      · cases h

theorem update_reject {cx : NumCtx} {env : Env} {s s' : State} {e : Err}
    (h : update cx env s = (.error e, s')) : s' = s := by
  unfold update at h
  simp only [] at h
  split at h
  · cases h; rfl
  · cases h

theorem step_reject {cx : NumCtx} {env : Env} {s s' : State} {op : Op} {e : Err} {an : Bool}
    (h : step cx env s op an = (.error e, s')) : s' = s := by
  cases op with
  | buy t d a => exact buyGlp_reject h
  | sell t d g => exact sellGlp_reject h
  | update => exact update_reject h

end Demeter.Gmx
