/-
  Rejected calls of the Aave model leave the core (supplies, borrows, wallet, action log) untouched:
  `KCP` (a computation never changes the core), `EKP` (an error exit finds the core as it was),
  `NFP` (a computation cannot fail) and their sequencing rules.
-/
import Proofs.Lemmas.AaveLiqCoh
namespace Demeter.Aave
open Demeter M

variable {cx : ACtx} {env : Env}

/-- started with core `c0`, `m` ends with core `c0` -/
def KCP (c0 : Core) {α : Type} (m : M α) : Prop := Inv (fun s => s.core = c0) m

/-- started with core `c0`, an error exit of `m` has core `c0` -/
def EKP (c0 : Core) {α : Type} (m : M α) : Prop := ∀ s, s.core = c0 → ∀ e, (m s).1 = .error e → (m s).2.core = c0

/-- `m` cannot fail in a state satisfying `R` -/
def NFP (R : St → Prop) {α : Type} (m : M α) : Prop := ∀ s, R s → ∃ a, (m s).1 = .ok a

section
variable {c0 : Core} {α β : Type}

theorem KCP.ekp {m : M α} (h : KCP c0 m) : EKP c0 m := fun s hs _ _ => h s hs

theorem EKP.bind_kc {m : M α} {f : α → M β} (hm : KCP c0 m) (hf : ∀ a, EKP c0 (f a)) : EKP c0 (m >>= f) := by
  intro s hs e he
  have h1 := hm s hs
  rcases hms : m s with ⟨r, s1⟩
  rw [hms] at h1
  cases r with
  | ok a => rw [run_bind_ok hms] at he ⊢; exact hf a s1 h1 e he
  | error e' => rw [run_bind_err hms]; exact h1

theorem EKP.bind_ofRes {r : Res α} {f : α → M β} (h : ∀ a, r = .ok a → EKP c0 (f a)) : EKP c0 (M.ofRes r >>= f) := by
  intro s hs e he
  rw [run_bind] at he ⊢
  cases r with
  | ok a => exact h a rfl s hs e he
  | error e' => exact hs

theorem EKP.bind_require {c : Bool} {e0 : Err} {f : Unit → M β} (h : c = true → EKP c0 (f ())) :
    EKP c0 (M.require c e0 >>= f) := by
  intro s hs e he
  rw [run_bind] at he ⊢
  cases c with
  | true => exact h rfl s hs e he
  | false => exact hs

theorem EKP.bind_queryPos {q : AList String SupplyInfo → AList String BorrowInfo → Res α} {f : α → M β}
    (h : ∀ a, q c0.supplies c0.borrows = .ok a → EKP c0 (f a)) : EKP c0 (M.queryPos q >>= f) := by
  intro s hs e he
  have h1 : s.supplies = c0.supplies := by rw [← hs]; rfl
  have h2 : s.borrows = c0.borrows := by rw [← hs]; rfl
  rw [run_bind, run_queryPos, h1, h2] at he ⊢
  cases hq : q c0.supplies c0.borrows with
  | ok a => rw [hq] at he; exact h a hq s hs e he
  | error e' => exact hs

/-- an error exit of `m >>= f` is an error exit of `m` when `f` cannot fail after `m` -/
theorem EKP.bind_nf {m : M α} {f : α → M β} {R : St → Prop} (hm : EKP c0 m)
    (hR : ∀ s, s.core = c0 → ∀ a s', m s = (.ok a, s') → R s') (hf : ∀ a, NFP R (f a)) : EKP c0 (m >>= f) := by
  intro s hs e he
  rcases hms : m s with ⟨r, s1⟩
  cases r with
  | ok a =>
    rw [run_bind_ok hms] at he
    obtain ⟨b, hb⟩ := hf a s1 (hR s hs a s1 hms)
    rw [hb] at he; cases he
  | error e' =>
    rw [run_bind_err hms]
    have := hm s hs e' (by rw [hms])
    rw [hms] at this; exact this

theorem NFP.bind {R : St → Prop} {m : M α} {f : α → M β} (hm : NFP R m) (hR : Inv R m) (hf : ∀ a, NFP R (f a)) :
    NFP R (m >>= f) := by
  intro s hs
  obtain ⟨a, ha⟩ := hm s hs
  have h1 := hR s hs
  rcases hms : m s with ⟨r, s1⟩
  rw [hms] at ha h1
  dsimp only at ha
  subst ha
  rw [run_bind_ok hms]
  exact hf a s1 h1

theorem NFP.ekp {m : M α} (h : NFP (fun _ => True) m) : EKP c0 m := by
  intro s _ e he
  obtain ⟨a, ha⟩ := h s trivial
  rw [ha] at he; cases he

theorem NFP.modify {R : St → Prop} (g : St → St) : NFP R (M.modify g) := fun _ _ => ⟨(), rfl⟩
theorem NFP.pure {R : St → Prop} (a : α) : NFP R (pure a : M α) := fun _ _ => ⟨a, rfl⟩

theorem nfp_true_bind_modify {g : St → St} {f : Unit → M β} (hf : NFP (fun _ => True) (f ())) :
    NFP (fun _ => True) (M.modify g >>= f) :=
  NFP.bind (NFP.modify g) (fun _ _ => trivial) (fun _ => hf)

end

/-! ### reads never change the core -/

theorem readInv_core (c0 : Core) : ReadInv cx env (fun s => s.core = c0) :=
  ReadInv.ofIgnoring (fun _ _ h => h) (fun _ _ h => h) (fun _ _ h => h) (fun _ _ h => h) (fun _ _ h => h)

/-- a tail of pure state updates cannot fail -/
macro "nf_tail" : tactic => `(tactic| repeat (first
  | exact NFP.pure _
  | exact NFP.modify _
  | refine nfp_true_bind_modify ?_))

/-- one step through a `do` block towards "an error exit finds the core unchanged" -/
macro "ek_step" : tactic => `(tactic| first
  | assumption
  | refine EKP.bind_ofRes (fun _ _ => ?_)
  | refine EKP.bind_require (fun _ => ?_)
  | refine EKP.bind_queryPos (fun _ _ => ?_)
  | exact KCP.ekp (Inv.pure _)
  | exact KCP.ekp (Inv.throw _)
  | split
  | dsimp only)

/-! ### the pieces -/

theorem ekp_walletDebit (c0 : Core) (tok : String) (amt : Rat) : EKP c0 (walletDebit cx tok amt) := by
  intro s hs e he
  unfold walletDebit at he ⊢
  split
  · rename_i w hw; rw [hw] at he; cases he
  · exact hs
  · exact hs

theorem ekp_subSupplyAmount (c0 : Core) (tok : String) (amt : Rat) : EKP c0 (subSupplyAmount cx env tok amt) := by
  unfold subSupplyAmount commitSubSupply
  refine EKP.bind_queryPos (fun old _ => ?_)
  cases old with
  | none => dsimp only; split <;> exact KCP.ekp (by first | exact Inv.pure _ | exact Inv.throw _)
  | some info =>
    dsimp only
    refine EKP.bind_ofRes (fun st _ => EKP.bind_ofRes (fun d _ => ?_))
    intro s hs e he
    rw [run_bind] at he
    simp at he

theorem ekp_subBorrowAmount (c0 : Core) (tok : String) (amt : Rat) : EKP c0 (subBorrowAmount cx env tok amt) := by
  unfold subBorrowAmount commitSubBorrow
  refine EKP.bind_queryPos (fun old _ => ?_)
  cases old with
  | none => dsimp only; split <;> exact KCP.ekp (by first | exact Inv.pure _ | exact Inv.throw _)
  | some info =>
    dsimp only
    refine EKP.bind_ofRes (fun st _ => EKP.bind_ofRes (fun d _ => ?_))
    intro s hs e he
    rw [run_bind] at he
    simp at he

end Demeter.Aave
