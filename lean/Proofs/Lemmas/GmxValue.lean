/-
  Wallet valuation lemmas for the GMX parts of C03: value of a wallet under a price vector, effect of `AList.set`,
  what `Asset.sub` actually takes from a balance (the requested amount, or — inside the 1e-5 dust band — the whole
  balance), `Wallet.debit` / `Wallet.credit` in those terms.
-/
import Demeter.Wallet
import Proofs.Lemmas.Exact
import Mathlib.Tactic.Linarith
import Mathlib.Tactic.Ring
import Mathlib.Tactic.NormNum
import Mathlib.Tactic.Positivity
import Mathlib.Tactic.FieldSimp
import Mathlib.Algebra.Order.Field.Rat
namespace Demeter.Gmx
open Demeter

/-- value of a wallet: Σ balance × price -/
def walletValue (price : String → Rat) : Wallet → Rat
  | [] => 0
  | (k, b) :: rest => b * price k + walletValue price rest

theorem walletValue_set_some (price : String → Rat) (w : Wallet) (k : String) (b b' : Rat)
    (h : AList.get? w k = some b) : walletValue price (AList.set w k b') = walletValue price w + (b' - b) * price k := by
  induction w with
  | nil => simp [AList.get?] at h
  | cons p rest ih =>
    obtain ⟨k', v'⟩ := p
    unfold AList.get? at h
    by_cases hk : k' = k
    · subst hk
      simp [List.find?] at h
      subst h
      simp [AList.set, walletValue]; ring
    · have h' : AList.get? rest k = some b := by
        unfold AList.get?
        simpa [List.find?, hk] using h
      simp [AList.set, hk, walletValue, ih h']; ring

theorem walletValue_set_none (price : String → Rat) (w : Wallet) (k : String) (v : Rat)
    (h : AList.get? w k = none) : walletValue price (AList.set w k v) = walletValue price w + v * price k := by
  induction w with
  | nil => simp [AList.set, walletValue]
  | cons p rest ih =>
    obtain ⟨k', v'⟩ := p
    unfold AList.get? at h
    by_cases hk : k' = k
    · subst hk; simp [List.find?] at h
    · have h' : AList.get? rest k = none := by
        unfold AList.get?
        simpa [List.find?, hk] using h
      simp [AList.set, hk, walletValue, ih h']; ring

/-- `add_to_balance` raises the wallet's value by amount × price, whether or not the token had an entry -/
theorem walletValue_credit (price : String → Rat) (w : Wallet) (k : String) (x : Rat) :
    walletValue price (Wallet.credit NumCtx.exact w k x) = walletValue price w + x * price k := by
  unfold Wallet.credit assetAdd
  cases h : AList.get? w k with
  | none => simp only [NumCtx.exact_add]; rw [walletValue_set_none _ _ _ _ h]; ring
  | some b => simp only [NumCtx.exact_add]; rw [walletValue_set_some _ _ _ _ _ h]; ring

theorem assetDust_pos : 0 < assetDust := by unfold assetDust Gen.assetSubDust; norm_num
theorem assetDust_lt_one : assetDust < 1 := by unfold assetDust Gen.assetSubDust; norm_num

/-- what `Asset.sub` takes: for `a ≥ 0` accepted on balance `b`, the balance was non-negative, stays non-negative, does not
    grow, and falls short of the request by at most the dust band `assetDust × b` (the literal `0.00001` of `Asset.sub`) -/
theorem assetSub_paid {b a b' : Rat} (ha : 0 ≤ a) (h : assetSub NumCtx.exact b a false = some b') :
    0 ≤ b ∧ 0 ≤ b' ∧ b' ≤ b ∧ a - (b - b') ≤ assetDust * b := by
  have hd := assetDust_pos
  have hd1 := assetDust_lt_one
  unfold assetSub at h
  simp only [NumCtx.exact_sub, NumCtx.exact_div, Bool.false_eq_true, if_false] at h
  by_cases hb : b = 0
  · subst hb
    simp only [ne_eq, not_true_eq_false, if_false] at h
    by_cases ha0 : a = 0
    · subst ha0; simp at h; subst h; simp
    · simp only [ha0, if_false, zero_sub] at h
      have hapos : 0 < a := lt_of_le_of_ne ha (Ne.symm ha0)
      have : ratAbs (-a / a) = 1 := by
        unfold ratAbs
        have : -a / a = -1 := by field_simp
        rw [this]; norm_num
      rw [this] at h
      rw [if_neg (by linarith)] at h
      rw [if_pos (by linarith)] at h
      cases h
  · simp only [ne_eq, hb, not_false_eq_true, if_true] at h
    by_cases hs : ratAbs ((b - a) / b) < assetDust
    · simp only [hs, if_true, if_false] at h
      cases h
      -- inside the dust band: b > 0 and a < b (1 + dust)
      unfold ratAbs at hs
      have hbpos : 0 < b := by
        by_contra hneg
        have hbneg : b < 0 := lt_of_le_of_ne (not_lt.mp hneg) hb
        have h1 : 1 ≤ (b - a) / b := by
          rw [le_div_iff_of_neg hbneg]; linarith
        split at hs <;> linarith
      have h2 : (b - a) / b > -assetDust := by
        split at hs <;> linarith
      have h3 : b - a > -assetDust * b := by
        have := (lt_div_iff₀ hbpos).mp h2
        linarith
      refine ⟨le_of_lt hbpos, le_refl _, le_of_lt hbpos, ?_⟩
      linarith
    · by_cases hneg : b - a < 0
      · simp only [hs, hneg, if_true, if_false] at h; cases h
      · simp only [hs, hneg, if_true, if_false] at h
        cases h
        have : 0 ≤ b - a := not_lt.mp hneg
        refine ⟨by linarith, this, by linarith, ?_⟩
        have : 0 ≤ assetDust * b := by
          have : 0 ≤ b := by linarith
          positivity
        linarith

/-- `subtract_from_balance` accepted: the entry existed, and the new wallet is the old one with that entry replaced -/
theorem debit_ok {w w1 : Wallet} {k : String} {a : Rat} (h : Wallet.debit NumCtx.exact w k a false = .ok w1) :
    ∃ b b', AList.get? w k = some b ∧ assetSub NumCtx.exact b a false = some b' ∧ w1 = AList.set w k b' := by
  unfold Wallet.debit at h
  cases hg : AList.get? w k with
  | none => simp [hg] at h
  | some b =>
    simp only [hg] at h
    cases hs : assetSub NumCtx.exact b a false with
    | none => simp [hs] at h
    | some b' =>
      simp only [hs, Except.ok.injEq] at h
      exact ⟨b, b', rfl, hs, h.symm⟩

/-- balance of a token (0 when it has no entry) -/
def balanceOf (w : Wallet) (k : String) : Rat := (AList.get? w k).getD 0

/-- value effect of an accepted debit of `a ≥ 0` at a non-negative price: the wallet loses at least `a × price` less the
    dust band on the touched balance -/
theorem walletValue_debit {price : String → Rat} {w w1 : Wallet} {k : String} {a : Rat} (ha : 0 ≤ a) (hp : 0 ≤ price k)
    (h : Wallet.debit NumCtx.exact w k a false = .ok w1) :
    walletValue price w1 ≤ walletValue price w - a * price k + assetDust * balanceOf w k * price k := by
  obtain ⟨b, b', hg, hs, rfl⟩ := debit_ok h
  obtain ⟨_, _, _, hpaid⟩ := assetSub_paid ha hs
  rw [walletValue_set_some _ _ _ _ _ hg]
  unfold balanceOf; rw [hg]; simp only [Option.getD_some]
  nlinarith

end Demeter.Gmx
