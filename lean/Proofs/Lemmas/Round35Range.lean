/-
  Round35 — part 6: staying inside the magnitude range.

  * `InRange_iff`, `InRange_intDiv`: a quotient `a/b` of integers below `2^150000` is in range (reduction only shrinks).
  * `InRange_roundSig`: if `|num x|, den x < 10^45000` and `p ≤ 100` then `roundSig p x` is in range again
    ⇒ unconditional idempotence `roundSig_idem'`.
  * `InRange_sqrtY`: the intermediate number rounded by `sqrtSig p` is in range when `x` is (`p ≤ 22000`)
    ⇒ `sqrtSig_spec'` needs only `InRange x`.
-/
import Proofs.Lemmas.Round35Sqrt2
import Mathlib.Data.Rat.Lemmas
namespace Demeter.Numerics
open Demeter
set_option exponentiation.threshold 200000

local notation "T" => (10 : ℚ)

theorem ten_pow_45154_le : 10 ^ 45154 ≤ 2 ^ 150000 := by decide +kernel
theorem two_pow_150000_le : 2 ^ 150000 ≤ 10 ^ 45155 := by decide +kernel

theorem log2_lt_iff (n : ℕ) : n.log2 < LOG2_BOUND ↔ n < 2 ^ 150000 := by
  by_cases hn : n = 0
  · subst hn; simp [Nat.log2_zero]
  · exact Nat.log2_lt hn

theorem InRange_iff (x : ℚ) : InRange x ↔ x.num.natAbs < 2 ^ 150000 ∧ x.den < 2 ^ 150000 := by
  unfold InRange; rw [log2_lt_iff, log2_lt_iff]

/-- reduction to lowest terms only shrinks numerator and denominator -/
theorem num_den_le (a : ℤ) (b : ℕ) (hb : 0 < b) :
    ((a:ℚ) / (b:ℚ)).num.natAbs ≤ a.natAbs ∧ ((a:ℚ) / (b:ℚ)).den ≤ b := by
  have hb' : (b:ℤ) ≠ 0 := by omega
  have e : (a:ℚ) / (b:ℚ) = Rat.divInt a b := by rw [Rat.divInt_eq_div]; push_cast; rfl
  rw [e]
  constructor
  · by_cases ha : a = 0
    · subst ha; simp
    · have := Int.natAbs_dvd_natAbs.2 (Rat.num_dvd a hb')
      exact Nat.le_of_dvd (Int.natAbs_pos.2 ha) this
  · have := Rat.den_dvd a b
    exact Nat.le_of_dvd hb (Int.natCast_dvd_natCast.1 this)

theorem InRange_intDiv (a : ℤ) (b : ℕ) (hb : 0 < b) (ha : a.natAbs < 2 ^ 150000) (hb' : b < 2 ^ 150000) :
    InRange ((a:ℚ) / (b:ℚ)) := by
  obtain ⟨h1, h2⟩ := num_den_le a b hb
  rw [InRange_iff]; exact ⟨by omega, by omega⟩

theorem InRange_natDiv (a b : ℕ) (hb : 0 < b) (ha : a < 2 ^ 150000) (hb' : b < 2 ^ 150000) :
    InRange ((a:ℚ) / (b:ℚ)) := by
  have := InRange_intDiv (a:ℤ) b hb (by simpa using ha) hb'
  simpa using this

theorem ndigits_le (n : ℕ) (hn : 0 < n) (hb : n.log2 < LOG2_BOUND) : ndigits n ≤ 45155 := by
  obtain ⟨h1, _⟩ := ndigits_spec n hn hb
  have h2 : n < 2 ^ 150000 := (log2_lt_iff n).1 hb
  have h3 : 10 ^ (ndigits n - 1) < 10 ^ 45155 :=
    Nat.lt_of_le_of_lt h1 (Nat.lt_of_lt_of_le h2 two_pow_150000_le)
  have := (Nat.pow_lt_pow_iff_right (by decide : 1 < 10)).1 h3
  omega

/-! ### the result of `roundSig` is in range -/

theorem InRange_rpos (p : ℕ) (hp : 1 ≤ p) (hp' : p ≤ 100) {y : ℚ} (hy : 0 < y)
    (h1 : y.num.natAbs < 10 ^ 45000) (h2 : y.den < 10 ^ 45000) : InRange (rpos p y) := by
  have hr : InRange y := InRange_of_lt h1 h2
  obtain ⟨_, mq⟩ := rpos_mantissa p hp hy hr
  obtain ⟨v1, v2⟩ := sexp_spec p hy hr
  -- magnitude of y
  have hyd : y = ((y.num.natAbs : ℕ) : ℚ) / (y.den : ℚ) := (natAbs_div_den hy).symm
  have hdq : (0:ℚ) < y.den := by exact_mod_cast y.den_pos
  have hnq : (1:ℚ) ≤ ((y.num.natAbs : ℕ) : ℚ) := by
    have : 0 < y.num.natAbs := Int.natAbs_pos.2 (ne_of_gt (Rat.num_pos.2 hy))
    exact_mod_cast this
  have yhi : y < T ^ (45000:ℤ) := by
    rw [hyd, div_lt_iff₀ hdq]
    have a1 : ((y.num.natAbs : ℕ) : ℚ) < T ^ (45000:ℤ) := by
      rw [show (45000:ℤ) = ((45000:ℕ):ℤ) from rfl, zpow_natCast]; exact_mod_cast h1
    have a2 : (1:ℚ) ≤ y.den := by exact_mod_cast y.den_pos
    have := Tz_pos (45000:ℤ)
    nlinarith
  have ylo : T ^ (-45000:ℤ) < y := by
    rw [hyd, lt_div_iff₀ hdq, zpow_neg, inv_mul_lt_iff₀ (Tz_pos _)]
    have a1 : (y.den : ℚ) < T ^ (45000:ℤ) := by
      rw [show (45000:ℤ) = ((45000:ℕ):ℤ) from rfl, zpow_natCast]; exact_mod_cast h2
    have := Tz_pos (45000:ℤ)
    nlinarith
  have hTe := Tz_pos (sexp p y)
  rw [le_div_iff₀ hTe, ← Tz_add] at v1
  rw [div_lt_iff₀ hTe, ← Tz_add] at v2
  have e_hi : (p:ℤ) - 1 + sexp p y < 45000 := Tz_lt_iff.1 (lt_of_le_of_lt v1 yhi)
  have e_lo : -45000 < (p:ℤ) + sexp p y := Tz_lt_iff.1 (lt_trans ylo v2)
  unfold rpos
  generalize rheQ (y / T ^ sexp p y) = Q at *
  generalize sexp p y = e at *
  by_cases he : 0 ≤ e
  · -- an integer `Q·10^e ≤ 10^(p+e)`
    have e1 : (Q:ℚ) * T ^ e = ((Q * 10 ^ e.toNat : ℕ) : ℚ) / ((1:ℕ):ℚ) := by
      have : T ^ e = T ^ e.toNat := by rw [← zpow_natCast]; congr 1; omega
      rw [this]; push_cast; ring
    rw [e1]
    apply InRange_natDiv _ _ (by decide) _ (Nat.one_lt_two_pow (by decide))
    have : Q * 10 ^ e.toNat ≤ 10 ^ p * 10 ^ e.toNat := Nat.mul_le_mul_right _ mq
    rw [← Nat.pow_add] at this
    -- `≤ 10^45000 < 2^150000`
    have h3 : 10 ^ (p + e.toNat) ≤ 10 ^ 45000 := Nat.pow_le_pow_right (by decide) (by omega)
    have h4 : (10:ℕ) ^ 45000 < 10 ^ 45154 := Nat.pow_lt_pow_right (by decide) (by decide)
    have := ten_pow_45154_le
    omega
  · have e1 : (Q:ℚ) * T ^ e = ((Q : ℕ) : ℚ) / ((10 ^ (-e).toNat : ℕ) : ℚ) := by
      have : T ^ e = (T ^ (-e).toNat)⁻¹ := by
        rw [← zpow_natCast, ← zpow_neg]; congr 1; omega
      rw [this]; push_cast; ring
    rw [e1]
    have h5 := ten_pow_45154_le
    apply InRange_natDiv _ _ (Nat.pow_pos (by decide))
    · have h3 : 10 ^ p ≤ 10 ^ 100 := Nat.pow_le_pow_right (by decide) hp'
      have h4 : (10:ℕ) ^ 100 < 10 ^ 45154 := Nat.pow_lt_pow_right (by decide) (by decide)
      omega
    · have h3 : (10:ℕ) ^ (-e).toNat < 10 ^ 45154 := Nat.pow_lt_pow_right (by decide) (by omega)
      omega

theorem InRange_roundSig (p : ℕ) (hp : 1 ≤ p) (hp' : p ≤ 100) (x : ℚ)
    (h1 : x.num.natAbs < 10 ^ 45000) (h2 : x.den < 10 ^ 45000) : InRange (roundSig p x) := by
  rcases lt_trichotomy x 0 with h | h | h
  · rw [roundSig_neg p h]
    apply InRange_neg
    exact InRange_rpos p hp hp' (neg_pos.2 h) (by simpa using h1) (by simpa using h2)
  · subst h; rw [roundSig_zero]; exact InRange_zero
  · rw [roundSig_pos p h]; exact InRange_rpos p hp hp' h h1 h2

/-- idempotence without a hypothesis on the rounded value -/
theorem roundSig_idem' (p : ℕ) (hp : 1 ≤ p) (hp' : p ≤ 100) (x : ℚ)
    (h1 : x.num.natAbs < 10 ^ 45000) (h2 : x.den < 10 ^ 45000) :
    roundSig p (roundSig p x) = roundSig p x :=
  roundSig_idem p hp x (InRange_of_lt h1 h2) (InRange_roundSig p hp hp' x h1 h2)

/-! ### the number rounded by `sqrtSig` is in range -/

/-- the scaled radicand has at most `2p+6` digits -/
theorem sqrt_scaled_lt (p n d : ℕ) (hn : 0 < n) (hd : 0 < d)
    (hbn : n.log2 < LOG2_BOUND) (hbd : d.log2 < LOG2_BOUND) :
    (n:ℚ) / d * T ^ (2 * sqrtK p n d) < T ^ (2 * (p:ℤ) + 6) := by
  obtain ⟨_, n2⟩ := ndigits_bounds_rat n hn hbn
  obtain ⟨d1, _⟩ := ndigits_bounds_rat d hd hbd
  have hdq : (0:ℚ) < d := by exact_mod_cast hd
  unfold sqrtK
  generalize (ndigits n : ℤ) = A at *
  generalize (ndigits d : ℤ) = B at *
  have hK := Tz_pos (2 * ((p:ℤ) + 2 - (A - B) / 2))
  have h1 : (n:ℚ) / d < T ^ (A - B + 1) := by
    rw [div_lt_iff₀ hdq]
    calc (n:ℚ) < T ^ A := n2
      _ = T ^ (A - B + 1) * T ^ (B - 1) := by rw [← Tz_add]; congr 1; ring
      _ ≤ T ^ (A - B + 1) * (d:ℚ) := by have := Tz_pos (A - B + 1); gcongr
  calc (n:ℚ) / d * T ^ (2 * ((p:ℤ) + 2 - (A - B) / 2))
      < T ^ (A - B + 1) * T ^ (2 * ((p:ℤ) + 2 - (A - B) / 2)) := by gcongr
    _ = T ^ ((A - B + 1) + 2 * ((p:ℤ) + 2 - (A - B) / 2)) := (Tz_add _ _).symm
    _ ≤ T ^ (2 * (p:ℤ) + 6) := Tz_mono (by omega)

theorem sqrtS_lt (p n d : ℕ) (hn : 0 < n) (hd : 0 < d)
    (hbn : n.log2 < LOG2_BOUND) (hbd : d.log2 < LOG2_BOUND) : sqrtS p n d < 10 ^ (p + 3) := by
  obtain ⟨s1, _, _⟩ := sqrtS_spec p n d hn hd hbn hbd
  have h := sqrt_scaled_lt p n d hn hd hbn hbd
  have : (2 * (p:ℤ) + 6) = ((2 * (p + 3) : ℕ) : ℤ) := by push_cast; ring
  rw [this, zpow_natCast] at h
  have h2 : ((sqrtS p n d ^ 2 : ℕ) : ℚ) < ((10 ^ (2 * (p + 3)) : ℕ) : ℚ) := by
    push_cast; exact lt_of_le_of_lt s1 h
  have h3 : sqrtS p n d ^ 2 < 10 ^ (2 * (p + 3)) := by exact_mod_cast h2
  by_contra hc
  have h4 : (10 ^ (p + 3)) ^ 2 ≤ sqrtS p n d ^ 2 := Nat.pow_le_pow_left (by omega) 2
  rw [← Nat.pow_mul, Nat.mul_comm] at h4
  omega

theorem sqrtK_bounds (p n d : ℕ) (hn : 0 < n) (hd : 0 < d)
    (hbn : n.log2 < LOG2_BOUND) (hbd : d.log2 < LOG2_BOUND) :
    (p:ℤ) - 22576 ≤ sqrtK p n d ∧ sqrtK p n d ≤ (p:ℤ) + 22579 := by
  have a1 := ndigits_le n hn hbn
  have a2 := ndigits_le d hd hbd
  have b1 := ndigits_pos n
  have b2 := ndigits_pos d
  unfold sqrtK
  omega

/-- the number rounded by `sqrtSig p` is in range (`p ≤ 22000`) -/
theorem InRange_sqrtY (p n d : ℕ) (hp : p ≤ 22000) (hn : 0 < n) (hd : 0 < d)
    (hbn : n.log2 < LOG2_BOUND) (hbd : d.log2 < LOG2_BOUND) : InRange (sqrtY p n d) := by
  have hs := sqrtS_lt p n d hn hd hbn hbd
  obtain ⟨k1, k2⟩ := sqrtK_bounds p n d hn hd hbn hbd
  have h5 := ten_pow_45154_le
  -- both shapes are `(2s + c) / (2·10^k)`
  have key : ∀ c : ℕ, c ≤ 1 → InRange (((2 * sqrtS p n d + c : ℕ) : ℚ) / 2 / T ^ sqrtK p n d) := by
    intro c hc
    generalize sqrtS p n d = s at *
    generalize sqrtK p n d = k at *
    have hnum : 2 * s + c < 10 ^ (p + 4) := by
      rw [Nat.pow_succ]; omega
    by_cases hk : 0 ≤ k
    · have e1 : ((2 * s + c : ℕ) : ℚ) / 2 / T ^ k = ((2 * s + c : ℕ) : ℚ) / ((2 * 10 ^ k.toNat : ℕ) : ℚ) := by
        have : T ^ k = T ^ k.toNat := by rw [← zpow_natCast]; congr 1; omega
        rw [this, div_div]; push_cast; rfl
      rw [e1]
      apply InRange_natDiv _ _ (Nat.mul_pos (by decide) (Nat.pow_pos (by decide)))
      · have : 10 ^ (p + 4) ≤ 10 ^ 45154 := Nat.pow_le_pow_right (by decide) (by omega)
        omega
      · have h3 : 2 * 10 ^ k.toNat < 10 ^ (k.toNat + 1) := by rw [Nat.pow_succ]; have := Nat.pow_pos (n := k.toNat) (by decide : 0 < 10); omega
        have : 10 ^ (k.toNat + 1) ≤ 10 ^ 45154 := Nat.pow_le_pow_right (by decide) (by omega)
        omega
    · have e1 : ((2 * s + c : ℕ) : ℚ) / 2 / T ^ k = (((2 * s + c) * 10 ^ (-k).toNat : ℕ) : ℚ) / ((2 : ℕ) : ℚ) := by
        have : T ^ k = (T ^ (-k).toNat)⁻¹ := by
          rw [← zpow_natCast, ← zpow_neg]; congr 1; omega
        rw [this]; push_cast; field_simp
      rw [e1]
      apply InRange_natDiv _ _ (by decide) _ (by
        have : (2:ℕ) ≤ 10 ^ 45154 := Nat.le_trans (by decide) (Nat.pow_le_pow_right (by decide) (by decide : 1 ≤ 45154))
        omega)
      have h3 : (2 * s + c) * 10 ^ (-k).toNat < 10 ^ (p + 4) * 10 ^ (-k).toNat :=
        Nat.mul_lt_mul_of_pos_right hnum (Nat.pow_pos (by decide))
      rw [← Nat.pow_add] at h3
      have : 10 ^ (p + 4 + (-k).toNat) ≤ 10 ^ 45154 := Nat.pow_le_pow_right (by decide) (by omega)
      omega
  unfold sqrtY
  split_ifs
  · have := key 0 (by decide)
    have e : ((2 * sqrtS p n d + 0 : ℕ) : ℚ) / 2 / T ^ sqrtK p n d = (sqrtS p n d : ℚ) / T ^ sqrtK p n d := by
      push_cast; congr 1; ring
    rwa [e] at this
  · have := key 1 (by decide)
    have e : ((2 * sqrtS p n d + 1 : ℕ) : ℚ) / 2 / T ^ sqrtK p n d = ((sqrtS p n d : ℚ) + 1 / 2) / T ^ sqrtK p n d := by
      push_cast; congr 1; ring
    rwa [e] at this

/-- **`sqrtSig` is correctly rounded**, needing only `InRange x` (`1 ≤ p ≤ 22000`) -/
theorem sqrtSig_spec' (p : ℕ) (hp : 1 ≤ p) (hp' : p ≤ 22000) {x : ℚ} (hx : 0 < x) (hr : InRange x) :
    0 ≤ sqrtSig p x ∧ x * (1 - epsP p) ^ 2 ≤ sqrtSig p x ^ 2 ∧ sqrtSig p x ^ 2 ≤ x * (1 + epsP p) ^ 2 := by
  have hn : 0 < x.num.natAbs := Int.natAbs_pos.2 (ne_of_gt (Rat.num_pos.2 hx))
  exact sqrtSig_spec p hp hx hr (InRange_sqrtY p _ _ hp' hn x.den_pos hr.1 hr.2)

end Demeter.Numerics
