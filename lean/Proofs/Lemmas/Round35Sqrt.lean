/-
  Round35 — part 5a: the "sticky half" lemma behind `sqrtSig`.

  `sqrtSig` rounds `y = (s + 1/2)/10^k` when the scaled radicand `X` is not a perfect square, where `s = ⌊√X⌋ ≥ 10^p`.
  Because `s` has more than `p` digits, one unit in the last place of the `p`-digit result is an even integer `2H ≥ 10` on
  the scale of `s`, so rounding points and ties are integers and none lies strictly inside `(s, s+1)`: the rounded value
  `R` satisfies `s + 1 − H ≤ R ≤ s + H`, i.e. it is within half an ulp of *every* point of `[s, s+1]`, in particular of
  the true `√X`.  With `H ≤ ε·s` this gives `(s+1)(1−ε) ≤ R ≤ s(1+ε)`.
-/
import Proofs.Lemmas.Round35Props
namespace Demeter.Numerics
open Demeter
local notation "T" => (10 : ℚ)

/-- half a unit in the `p`-th digit -/
def epsP (p : ℕ) : ℚ := 1 / 2 * T ^ (1 - (p : ℤ))

theorem epsP_pos (p : ℕ) : 0 < epsP p := by
  unfold epsP; have := Tz_pos (1 - (p:ℤ)); positivity

theorem epsP_mul (p : ℕ) : epsP p * T ^ ((p:ℤ) - 1) = 1 / 2 := by
  unfold epsP
  rw [mul_assoc, ← Tz_add]
  have : (1 - (p:ℤ)) + ((p:ℤ) - 1) = 0 := by ring
  rw [this, zpow_zero]; ring

theorem epsP_le_half (p : ℕ) (hp : 1 ≤ p) : epsP p ≤ 1 / 2 := by
  unfold epsP
  have : T ^ (1 - (p:ℤ)) ≤ T ^ (0:ℤ) := Tz_mono (by omega)
  rw [zpow_zero] at this
  linarith

/-- the sticky half: rounding `s + 1/2` (scaled) lands within half an ulp of every point of `(s, s+1)` -/
theorem sqrt_inexact_core (p : ℕ) (hp : 1 ≤ p) (s : ℕ) (hsp : 10 ^ p ≤ s) (k : ℤ)
    (hr : InRange (((s:ℚ) + 1 / 2) / T ^ k)) :
    ((s:ℚ) + 1) * (1 - epsP p) ≤ rpos p (((s:ℚ) + 1 / 2) / T ^ k) * T ^ k ∧
    rpos p (((s:ℚ) + 1 / 2) / T ^ k) * T ^ k ≤ (s:ℚ) * (1 + epsP p) := by
  have hTk := Tz_pos k
  have hs0 : (0:ℚ) ≤ s := Nat.cast_nonneg s
  have hy : (0:ℚ) < ((s:ℚ) + 1 / 2) / T ^ k := by positivity
  generalize hyy : ((s:ℚ) + 1 / 2) / T ^ k = y at *
  obtain ⟨v1, v2⟩ := sexp_spec p hy hr
  have hTe := Tz_pos (sexp p y)
  -- v = (s + 1/2) / T^g
  have hv : y / T ^ sexp p y = ((s:ℚ) + 1 / 2) / T ^ (k + sexp p y) := by
    rw [← hyy, Tz_add, div_div]
  have hg : 1 ≤ k + sexp p y := by
    by_contra hc
    have h0 : k + sexp p y ≤ 0 := by omega
    have : T ^ (k + sexp p y) ≤ 1 := by
      have := Tz_mono h0; rwa [zpow_zero] at this
    rw [hv, div_lt_iff₀ (Tz_pos _)] at v2
    have hP : (0:ℚ) < T ^ (p:ℤ) := Tz_pos _
    have : T ^ (p:ℤ) * T ^ (k + sexp p y) ≤ T ^ (p:ℤ) := by nlinarith
    have h3 : T ^ (p:ℤ) ≤ (s:ℚ) := by rw [zpow_natCast]; exact_mod_cast hsp
    linarith
  -- g = m + 1
  obtain ⟨m, hm⟩ : ∃ m : ℕ, k + sexp p y = (m:ℤ) + 1 := ⟨(k + sexp p y - 1).toNat, by omega⟩
  have hG : T ^ (k + sexp p y) = ((2 * (5 * 10 ^ m) : ℕ) : ℚ) := by
    rw [hm, Tz_succ, zpow_natCast]; push_cast; ring
  set H : ℕ := 5 * 10 ^ m with hH
  set Q : ℕ := rheQ (y / T ^ sexp p y) with hQ
  have hHq : (0:ℚ) < (H:ℚ) := by rw [hH]; positivity
  have hG' : T ^ (k + sexp p y) = 2 * (H:ℚ) := by rw [hG]; push_cast; ring
  have herr := rheQ_err (y / T ^ sexp p y) (by positivity)
  rw [← hQ, hv, hG', abs_le] at herr
  rw [hv, hG'] at v1
  generalize hV : ((s:ℚ) + 1 / 2) / (2 * (H:ℚ)) = V at *
  have hVm : V * (2 * (H:ℚ)) = (s:ℚ) + 1 / 2 := by rw [← hV]; field_simp
  obtain ⟨e1, e2⟩ := herr
  -- integer versions
  set W : ℕ := Q * H with hW
  have q1 : (2 * W : ℚ) - H ≤ (s:ℚ) + 1 / 2 := by
    rw [← hVm, hW]; push_cast; nlinarith
  have q2 : (s:ℚ) + 1 / 2 ≤ 2 * W + H := by
    rw [← hVm, hW]; push_cast; nlinarith
  have i1 : 2 * W ≤ s + H := by
    have : ((4 * W : ℕ) : ℚ) ≤ ((2 * s + 1 + 2 * H : ℕ) : ℚ) := by push_cast; linarith
    have := Nat.cast_le.1 this
    omega
  have i2 : s + 1 ≤ 2 * W + H := by
    have : ((2 * s + 1 : ℕ) : ℚ) ≤ ((4 * W + 2 * H : ℕ) : ℚ) := by push_cast; linarith
    have := Nat.cast_le.1 this
    omega
  -- `10^(p-1) · G ≤ s`
  have i3 : 10 ^ (p - 1) * (2 * H) ≤ s := by
    have hp1 : ((p:ℤ) - 1) = ((p - 1 : ℕ) : ℤ) := by omega
    rw [hp1, zpow_natCast] at v1
    have : ((2 * (10 ^ (p - 1) * (2 * H)) : ℕ) : ℚ) ≤ ((2 * s + 1 : ℕ) : ℚ) := by
      push_cast
      have := mul_le_mul_of_nonneg_right v1 (le_of_lt (by positivity : (0:ℚ) < 2 * (H:ℚ)))
      rw [hVm] at this; linarith
    have := Nat.cast_le.1 this
    omega
  -- `H ≤ ε s`
  have i4 : (H:ℚ) ≤ epsP p * s := by
    have hp1 : ((p:ℤ) - 1) = ((p - 1 : ℕ) : ℤ) := by omega
    have e := epsP_mul p
    rw [hp1, zpow_natCast] at e
    have i3' : ((10 ^ (p - 1) * (2 * H) : ℕ) : ℚ) ≤ (s:ℚ) := by exact_mod_cast i3
    push_cast at i3'
    have := mul_le_mul_of_nonneg_left i3' (le_of_lt (epsP_pos p))
    calc (H:ℚ) = epsP p * 10 ^ (p - 1) * (2 * H) := by rw [e]; ring
      _ = epsP p * (10 ^ (p - 1) * (2 * H)) := by ring
      _ ≤ epsP p * s := this
  -- the value
  have hval : rpos p y * T ^ k = 2 * (W:ℚ) := by
    unfold rpos
    rw [← hQ, mul_assoc, mul_comm (T ^ sexp p y), ← Tz_add, hG', hW]; push_cast; ring
  rw [hval]
  have i1' : (2 * W : ℚ) ≤ (s:ℚ) + H := by exact_mod_cast i1
  have i2' : (s:ℚ) + 1 ≤ 2 * W + H := by exact_mod_cast i2
  have hε := epsP_pos p
  constructor
  · nlinarith
  · nlinarith
end Demeter.Numerics
