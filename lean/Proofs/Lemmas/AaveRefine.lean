/-
  Refinement kit, part 1: the projection `proj : Aave.St → Env → AaveRisk.Portfolio` from the cache-carrying state
  machine (`Demeter.Aave`) to the pure risk model (`Demeter.AaveRisk`), and the correspondence of the value
  dictionaries and risk figures: what the state machine's reads return in a coherent state (`Good`) is what the
  risk model computes on the projected portfolio.  Everything holds for every arithmetic context.
-/
import Proofs.Lemmas.AaveLiqCoh
import Demeter.AaveRisk
namespace Demeter.Aave
open Demeter M

/-- the row the risk model attaches to token `k`: the bar's indices, price and risk parameters -/
def rowOf (env : Env) (k : String) : AaveRisk.Row :=
  match AList.get? env.status k, AList.get? env.price k, AList.get? env.risk k with
  | some st, some p, some r =>
    { liqIndex := st.liqIdx, borIndex := st.varIdx, price := p, ltv := r.ltv, lt := r.lt, bonus := r.bonus,
      canColl := r.canColl, canBorrow := r.canBorrow }
  | _, _, _ => { liqIndex := 0, borIndex := 0, price := 0, ltv := 0, lt := 0, bonus := 0, canColl := false, canBorrow := false }

def projSup (env : Env) (p : String × SupplyInfo) : AaveRisk.Supply :=
  { tok := p.1, base := p.2.base, coll := p.2.coll, row := rowOf env p.1 }
def projBor (env : Env) (p : String × BorrowInfo) : AaveRisk.Debt :=
  { tok := p.1, base := p.2.base, row := rowOf env p.1 }

/-- the pure portfolio behind the state machine's raw positions -/
def projPos (env : Env) (sup : AList String SupplyInfo) (bor : AList String BorrowInfo) : AaveRisk.Portfolio :=
  { supplies := sup.map (projSup env), debts := bor.map (projBor env) }
def proj (env : Env) (s : St) : AaveRisk.Portfolio := projPos env s.supplies s.borrows

def toX : AaveRisk.XRat → XRat
  | some r => .fin r
  | none => .inf

variable {cx : ACtx} {env : Env}

theorem rowOf_eq {k : String} {st : TokStatus} {p : Rat} {r : Risk}
    (h1 : env.statusOf k = .ok st) (h2 : env.priceOf k = .ok p) (h3 : env.riskOf k = .ok r) :
    rowOf env k = ⟨st.liqIdx, st.varIdx, p, r.ltv, r.lt, r.bonus, r.canColl, r.canBorrow⟩ := by
  have a1 : AList.get? env.status k = some st := by
    unfold Env.statusOf optRes at h1; split at h1 <;> simp_all
  have a2 : AList.get? env.price k = some p := by
    unfold Env.priceOf optRes at h2; split at h2 <;> simp_all
  have a3 : AList.get? env.risk k = some r := by
    unfold Env.riskOf optRes at h3; split at h3 <;> simp_all
  unfold rowOf
  simp only [a1, a2, a3]

theorem supValOf_proj {k : String} (hd : HasData env k) (info : SupplyInfo) :
    supValOf cx env k info = .ok ((projSup env (k, info)).value cx.toNumCtx) := by
  obtain ⟨⟨st, h1⟩, ⟨p, h2⟩, ⟨r, h3⟩⟩ := hd
  unfold supValOf projSup AaveRisk.Supply.value AaveRisk.Supply.amount
  rw [h1, h2, rowOf_eq h1 h2 h3]; rfl

theorem borValOf_proj {k : String} (hd : HasData env k) (info : BorrowInfo) :
    borValOf cx env k info = .ok ((projBor env (k, info)).value cx.toNumCtx) := by
  obtain ⟨⟨st, h1⟩, ⟨p, h2⟩, ⟨r, h3⟩⟩ := hd
  unfold borValOf projBor AaveRisk.Debt.value AaveRisk.Debt.amount
  rw [h1, h2, rowOf_eq h1 h2 h3]; rfl

theorem scratchMap_map {ν μ : Type} {f : String → ν → Res μ} {g : String × ν → μ} :
    ∀ (m : AList String ν), (∀ p ∈ m, f p.1 p.2 = .ok (g p)) → scratchMap f m = .ok (m.map (fun p => (p.1, g p)))
  | [], _ => rfl
  | (k, v) :: rest, h => by
    rw [scratchMap_cons_ok (h (k, v) (List.mem_cons_self ..)) (scratchMap_map rest (fun p hp => h p (List.mem_cons_of_mem _ hp)))]
    rfl

theorem specSupAmt_proj {sup : AList String SupplyInfo} (cv : Covers env sup) :
    specSupAmt cx env sup = .ok (sup.map (fun p => (p.1, (projSup env p).value cx.toNumCtx))) :=
  scratchMap_map sup (fun p hp => supValOf_proj (cv p.1 (mem_keys_of_mem hp)) p.2)

theorem specBorAmt_proj {bor : AList String BorrowInfo} (cv : Covers env bor) :
    specBorAmt cx env bor = .ok (bor.map (fun p => (p.1, (projBor env p).value cx.toNumCtx))) :=
  scratchMap_map bor (fun p hp => borValOf_proj (cv p.1 (mem_keys_of_mem hp)) p.2)

theorem specColl_proj {sup : AList String SupplyInfo} (cv : Covers env sup) :
    specColl cx env sup = .ok ((collEntries sup).map (fun p => (p.1, (projSup env p).value cx.toNumCtx))) :=
  scratchMap_map _ (fun p hp => supValOf_proj (cv p.1 (mem_keys_of_mem (collEntries_sub hp))) p.2)

theorem collaterals_proj (sup : AList String SupplyInfo) (bor : AList String BorrowInfo) :
    AaveRisk.collaterals (projPos env sup bor) = (collEntries sup).map (projSup env) := by
  unfold AaveRisk.collaterals projPos collEntries
  simp only [List.filter_map]
  rfl

theorem mapM_ok {α β : Type} {f : α → Res β} {g : α → β} :
    ∀ (l : List α), (∀ a ∈ l, f a = .ok (g a)) → l.mapM f = .ok (l.map g)
  | [], _ => rfl
  | a :: rest, h => by
    rw [List.mapM_cons, h a (List.mem_cons_self ..), mapM_ok rest (fun b hb => h b (List.mem_cons_of_mem _ hb))]
    rfl

theorem foldlM_ok {α β : Type} {f : β → α → Res β} {g : β → α → β} :
    ∀ (l : List α) (b : β), (∀ a ∈ l, ∀ b, f b a = .ok (g b a)) → l.foldlM f b = .ok (l.foldl g b)
  | [], _, _ => rfl
  | a :: rest, b, h => by
    rw [List.foldlM_cons, h a (List.mem_cons_self ..) b]
    exact foldlM_ok rest (g b a) (fun x hx => h x (List.mem_cons_of_mem _ hx))

theorem toX_safeDiv (a b : Rat) : toX (AaveRisk.safeDiv cx.toNumCtx a b) = safeDiv cx a b := by
  unfold AaveRisk.safeDiv safeDiv
  by_cases h : b = 0 <;> simp [h, toX]

theorem riskOf_rowOf {k : String} (hd : HasData env k) : ∃ r, env.riskOf k = .ok r ∧ (rowOf env k).lt = r.lt ∧
    (rowOf env k).ltv = r.ltv ∧ (rowOf env k).bonus = r.bonus ∧ (rowOf env k).canBorrow = r.canBorrow
    ∧ (rowOf env k).canColl = r.canColl := by
  obtain ⟨⟨st, h1⟩, ⟨p, h2⟩, ⟨r, h3⟩⟩ := hd
  exact ⟨r, h3, by rw [rowOf_eq h1 h2 h3], by rw [rowOf_eq h1 h2 h3], by rw [rowOf_eq h1 h2 h3], by rw [rowOf_eq h1 h2 h3],
    by rw [rowOf_eq h1 h2 h3]⟩

/-- the value dictionaries the reads return, in terms of the projected portfolio -/
def collVals (cx : ACtx) (env : Env) (sup : AList String SupplyInfo) : AList String Rat :=
  (collEntries sup).map (fun p => (p.1, (projSup env p).value cx.toNumCtx))
def supVals (cx : ACtx) (env : Env) (sup : AList String SupplyInfo) : AList String Rat :=
  sup.map (fun p => (p.1, (projSup env p).value cx.toNumCtx))
def borVals (cx : ACtx) (env : Env) (bor : AList String BorrowInfo) : AList String Rat :=
  bor.map (fun p => (p.1, (projBor env p).value cx.toNumCtx))

theorem dsum_eq (xs : List Rat) : dsum cx xs = AaveRisk.dsum cx.toNumCtx xs := rfl

theorem vals_collVals (sup : AList String SupplyInfo) (bor : AList String BorrowInfo) :
    vals (collVals cx env sup) = (AaveRisk.collaterals (projPos env sup bor)).map (·.value cx.toNumCtx) := by
  rw [collaterals_proj]; unfold vals collVals; simp [List.map_map, Function.comp_def]

theorem vals_borVals (sup : AList String SupplyInfo) (bor : AList String BorrowInfo) :
    vals (borVals cx env bor) = (projPos env sup bor).debts.map (·.value cx.toNumCtx) := by
  unfold vals borVals projPos; simp [List.map_map, Function.comp_def]

theorem vals_supVals (sup : AList String SupplyInfo) (bor : AList String BorrowInfo) :
    vals (supVals cx env sup) = (projPos env sup bor).supplies.map (·.value cx.toNumCtx) := by
  unfold vals supVals projPos; simp [List.map_map, Function.comp_def]

theorem totalColl_proj (sup : AList String SupplyInfo) (bor : AList String BorrowInfo) :
    dsum cx (vals (collVals cx env sup)) = AaveRisk.totalCollateral cx.toNumCtx (projPos env sup bor) := by
  rw [vals_collVals sup bor]; rfl

theorem totalDebt_proj (sup : AList String SupplyInfo) (bor : AList String BorrowInfo) :
    dsum cx (vals (borVals cx env bor)) = AaveRisk.totalDebt cx.toNumCtx (projPos env sup bor) := by
  rw [vals_borVals sup bor]; rfl

theorem hfOf_proj {sup : AList String SupplyInfo} (bor : AList String BorrowInfo) (cv : Covers env sup) :
    hfOf cx env (collVals cx env sup) (borVals cx env bor) =
      .ok (toX (AaveRisk.healthFactor cx.toNumCtx (projPos env sup bor))) := by
  unfold hfOf
  rw [mapM_ok (g := fun q => cx.mul q.2 (rowOf env q.1).lt)]
  · show Except.ok _ = _
    congr 1
    unfold AaveRisk.healthFactor
    rw [toX_safeDiv, totalDebt_proj sup bor]
    congr 1
    unfold AaveRisk.weightedLt
    rw [collaterals_proj, dsum_eq]
    congr 1
    unfold collVals; simp [List.map_map, Function.comp_def, projSup]
  · intro q hq
    unfold collVals at hq
    obtain ⟨p, hp, rfl⟩ := List.mem_map.mp hq
    obtain ⟨r, h3, hlt, _⟩ := riskOf_rowOf (cv p.1 (mem_keys_of_mem (collEntries_sub hp)))
    simp only [h3, hlt]; rfl

theorem maxLtvOf_proj {sup : AList String SupplyInfo} (bor : AList String BorrowInfo) (cv : Covers env sup) :
    maxLtvOf cx env (collVals cx env sup) = .ok (toX (AaveRisk.maxLtv cx.toNumCtx (projPos env sup bor))) := by
  unfold maxLtvOf
  rw [foldlM_ok (g := fun acc q => cx.add acc (cx.mul q.2 (rowOf env q.1).ltv))]
  · show Except.ok _ = _
    congr 1
    unfold AaveRisk.maxLtv
    rw [toX_safeDiv, totalColl_proj sup bor]
    congr 1
    unfold AaveRisk.weightedLtv AaveRisk.dsum
    rw [collaterals_proj]
    unfold collVals
    rw [List.foldl_map, List.foldl_map, List.foldl_map]
    rfl
  · intro q hq b
    unfold collVals at hq
    obtain ⟨p, hp, rfl⟩ := List.mem_map.mp hq
    obtain ⟨r, h3, _, hltv, _⟩ := riskOf_rowOf (cv p.1 (mem_keys_of_mem (collEntries_sub hp)))
    simp only [h3, hltv]; rfl

/-! ### running the reads in a coherent state -/


/-- coherent, and everything but the caches is `x` -/
def At (cx : ACtx) (env : Env) (x : Frame) (s : St) : Prop := Good cx env s ∧ s.frame = x

theorem At.sup {x : Frame} {s : St} (h : At cx env x s) : s.supplies = x.supplies := congrArg Frame.supplies h.2
theorem At.bor {x : Frame} {s : St} (h : At cx env x s) : s.borrows = x.borrows := congrArg Frame.borrows h.2

theorem readInv_at (x : Frame) : ReadInv cx env (At cx env x) := by
  have hg := readInv_good (cx := cx) (env := env)
  have hf := readInv_frame (cx := cx) (env := env) x
  have key : ∀ {α : Type} (m : M α), Inv (Good cx env) m → Inv (fun s => s.frame = x) m → Inv (At cx env x) m :=
    fun m h1 h2 s ⟨g, e⟩ => ⟨h1 s g, h2 s e⟩
  exact { sv := key _ hg.sv hf.sv, bv := key _ hg.bv hf.bv, cv := key _ hg.cv hf.cv, su := key _ hg.su hf.su,
          bo := key _ hg.bo hf.bo }

/-- a read with a spec, run in a coherent state whose spec value is known -/
theorem Reads.runAt {α : Type} {m : M α} {spec : AList String SupplyInfo → AList String BorrowInfo → Res α}
    (hr : Reads cx env m spec) {x : Frame} (hi : Inv (At cx env x) m) {s : St} (h : At cx env x s) {r : Res α}
    (hsp : spec x.supplies x.borrows = r) : ∃ s', m s = (r, s') ∧ At cx env x s' := by
  obtain ⟨h1, _, _, _⟩ := hr s h.1
  rw [h.sup, h.bor, hsp] at h1
  refine ⟨(m s).2, ?_, hi s h⟩
  rw [← h1]

theorem specHealthFactor_proj {sup : AList String SupplyInfo} {bor : AList String BorrowInfo}
    (c1 : Covers env sup) (c2 : Covers env bor) :
    specHealthFactor cx env sup bor = .ok (toX (AaveRisk.healthFactor cx.toNumCtx (projPos env sup bor))) := by
  unfold specHealthFactor
  rw [specColl_proj c1, specBorAmt_proj c2]
  exact hfOf_proj bor c1

theorem specMaxLtv_proj {sup : AList String SupplyInfo} (bor : AList String BorrowInfo) (c1 : Covers env sup) :
    specMaxLtv cx env sup = .ok (toX (AaveRisk.maxLtv cx.toNumCtx (projPos env sup bor))) := by
  unfold specMaxLtv
  rw [specColl_proj c1]
  exact maxLtvOf_proj bor c1

theorem At.cvS {x : Frame} {s : St} (h : At cx env x s) : Covers env x.supplies := h.sup ▸ h.1.1.cv
theorem At.cvB {x : Frame} {s : St} (h : At cx env x s) : Covers env x.borrows := h.bor ▸ h.1.2.cv
theorem At.ndS {x : Frame} {s : St} (h : At cx env x s) : (keys x.supplies).Nodup := h.sup ▸ h.1.1.nd
theorem At.ndB {x : Frame} {s : St} (h : At cx env x s) : (keys x.borrows).Nodup := h.bor ▸ h.1.2.nd

/-- `health_factor` in a coherent state is the risk model's figure on the projected portfolio -/
theorem run_healthFactor {x : Frame} {s : St} (h : At cx env x s) :
    ∃ s', healthFactor cx env s =
      (.ok (toX (AaveRisk.healthFactor cx.toNumCtx (projPos env x.supplies x.borrows))), s') ∧ At cx env x s' :=
  reads_healthFactor.runAt (readInv_at x).toReadInv3.healthFactor h (specHealthFactor_proj h.cvS h.cvB)

theorem run_maxLtv {x : Frame} {s : St} (h : At cx env x s) :
    ∃ s', maxLtv cx env s =
      (.ok (toX (AaveRisk.maxLtv cx.toNumCtx (projPos env x.supplies x.borrows))), s') ∧ At cx env x s' :=
  reads_maxLtv.runAt (readInv_at x).toReadInv3.maxLtv h (specMaxLtv_proj x.borrows h.cvS)

theorem run_collateralValue {x : Frame} {s : St} (h : At cx env x s) :
    ∃ s', collateralValue cx env s = (.ok (collVals cx env x.supplies), s') ∧ At cx env x s' :=
  reads_collateralValue.runAt (readInv_at x).cv h (specColl_proj h.cvS)

theorem run_borrowsValue {x : Frame} {s : St} (h : At cx env x s) :
    ∃ s', borrowsValue cx env s = (.ok (borVals cx env x.borrows), s') ∧ At cx env x s' :=
  reads_borrowsValue.runAt (readInv_at x).bv h (specBorAmt_proj h.cvB)

/-! ### the view objects -/

def stOf (env : Env) (k : String) : TokStatus :=
  match AList.get? env.status k with
  | some st => st
  | none => ⟨0, 0, 0, 0⟩

theorem stOf_eq {k : String} {st : TokStatus} (h : env.statusOf k = .ok st) : stOf env k = st := by
  have a1 : AList.get? env.status k = some st := by
    unfold Env.statusOf optRes at h; split at h <;> simp_all
  unfold stOf; rw [a1]

def borViewOf (cx : ACtx) (env : Env) (p : String × BorrowInfo) : BorrowV :=
  { base := p.2.base, amount := (projBor env p).amount cx.toNumCtx, apy := rateToApy cx (stOf env p.1).varRate,
    value := (projBor env p).value cx.toNumCtx, beginIdx := p.2.beginIdx }

def supViewOf (cx : ACtx) (env : Env) (p : String × SupplyInfo) : SupplyV :=
  { base := p.2.base, coll := p.2.coll, amount := (projSup env p).amount cx.toNumCtx,
    apy := rateToApy cx (stOf env p.1).liqRate, value := (projSup env p).value cx.toNumCtx, beginIdx := p.2.beginIdx }

theorem specBorrowOf_proj {k : String} (hd : HasData env k) (info : BorrowInfo) :
    specBorrowOf cx env k info = .ok (borViewOf cx env (k, info)) := by
  have hv := borValOf_proj (cx := cx) hd info
  obtain ⟨⟨st, h1⟩, ⟨p, h2⟩, ⟨r, h3⟩⟩ := hd
  unfold specBorrowOf borViewOf
  rw [h1, hv]
  simp only [stOf_eq h1, projBor, AaveRisk.Debt.amount, rowOf_eq h1 h2 h3]
  rfl

theorem specSupplyOf_proj {k : String} (hd : HasData env k) (info : SupplyInfo) :
    specSupplyOf cx env k info = .ok (supViewOf cx env (k, info)) := by
  have hv := supValOf_proj (cx := cx) hd info
  obtain ⟨⟨st, h1⟩, ⟨p, h2⟩, ⟨r, h3⟩⟩ := hd
  unfold specSupplyOf supViewOf
  rw [h1, hv]
  simp only [stOf_eq h1, projSup, AaveRisk.Supply.amount, rowOf_eq h1 h2 h3]
  rfl

theorem specBorrows_proj {bor : AList String BorrowInfo} (cv : Covers env bor) :
    specBorrows cx env bor = .ok (bor.map (fun p => (p.1, borViewOf cx env p))) :=
  scratchMap_map bor (fun p hp => specBorrowOf_proj (cv p.1 (mem_keys_of_mem hp)) p.2)

theorem specSupplies_proj {sup : AList String SupplyInfo} (cv : Covers env sup) :
    specSupplies cx env sup = .ok (sup.map (fun p => (p.1, supViewOf cx env p))) :=
  scratchMap_map sup (fun p hp => specSupplyOf_proj (cv p.1 (mem_keys_of_mem hp)) p.2)

theorem run_borrowsView {x : Frame} {s : St} (h : At cx env x s) :
    ∃ s', borrowsView cx env s = (.ok (x.borrows.map (fun p => (p.1, borViewOf cx env p))), s') ∧ At cx env x s' :=
  reads_borrowsView.runAt (readInv_at x).bo h (specBorrows_proj h.cvB)

theorem run_suppliesView {x : Frame} {s : St} (h : At cx env x s) :
    ∃ s', suppliesView cx env s = (.ok (x.supplies.map (fun p => (p.1, supViewOf cx env p))), s') ∧ At cx env x s' :=
  reads_suppliesView.runAt (readInv_at x).su h (specSupplies_proj h.cvS)

theorem run_getBorrow {x : Frame} {s : St} (h : At cx env x s) {k : String} {info : BorrowInfo}
    (hk : AList.get? x.borrows k = some info) :
    ∃ s', getBorrow cx env k s = (.ok (borViewOf cx env (k, info)), s') ∧ At cx env x s' := by
  refine (reads_getBorrow k).runAt ((readInv_at x).toReadInv3.getBorrow k) h ?_
  unfold specGetBorrow
  rw [hk]
  exact specBorrowOf_proj (h.cvB k (aget_mem_keys hk)) info

theorem run_getSupply {x : Frame} {s : St} (h : At cx env x s) {k : String} {info : SupplyInfo}
    (hk : AList.get? x.supplies k = some info) :
    ∃ s', getSupply cx env k s = (.ok (supViewOf cx env (k, info)), s') ∧ At cx env x s' := by
  refine (reads_getSupply k).runAt ((readInv_at x).toReadInv3.getSupply k) h ?_
  unfold specGetSupply
  rw [hk]
  exact specSupplyOf_proj (h.cvS k (aget_mem_keys hk)) info

/-! ### the pair selection -/

/-- how the state machine's accumulator `(key | None, value)` encodes the risk model's `Option (entry × value)` -/
def debtAcc : Option (AaveRisk.Debt × Rat) → Option String × Rat
  | none => (none, Gen.aaveLiqSentinel)
  | some (d, v) => (some d.tok, v)

theorem pickDebt_proj (bor : AList String BorrowInfo) (done : List String) :
    pickDebt (bor.map (fun p => (p.1, borViewOf cx env p))) done =
      debtAcc (AaveRisk.pickDebt cx.toNumCtx (bor.map (projBor env)) done) := by
  unfold pickDebt AaveRisk.pickDebt
  rw [List.foldl_map, List.foldl_map]
  suffices H : ∀ (l : AList String BorrowInfo) (acc : Option (AaveRisk.Debt × Rat)),
      List.foldl (fun (acc : Option String × Rat) (p : String × BorrowInfo) =>
          if (acc.1.isNone || acc.2 ≥ (borViewOf cx env p).value) && !done.contains p.1 then (some p.1, (borViewOf cx env p).value) else acc)
        (debtAcc acc) l =
      debtAcc (List.foldl (fun (acc : Option (AaveRisk.Debt × Rat)) (p : String × BorrowInfo) =>
          let v := (projBor env p).value cx.toNumCtx
          let better : Bool := match acc with
            | none => true
            | some (_, m) => decide (v ≤ m)
          if better && !done.contains (projBor env p).tok then some (projBor env p, v) else acc) acc l) by
    exact H bor none
  intro l
  induction l with
  | nil => intro acc; rfl
  | cons p rest ih =>
    intro acc
    simp only [List.foldl_cons]
    rw [← ih]
    congr 1
    cases acc with
    | none =>
      simp only [debtAcc, Option.isNone_none, Bool.true_or, Bool.true_and]
      by_cases hc : p.1 ∈ done <;> simp [hc, debtAcc, projBor, borViewOf]
    | some q =>
      obtain ⟨d, m⟩ := q
      simp only [debtAcc, Option.isNone_some, Bool.false_or]
      by_cases hv : AaveRisk.Debt.value cx.toNumCtx { tok := p.1, base := p.2.base, row := rowOf env p.1 } ≤ m <;> by_cases hc : p.1 ∈ done <;>
        simp [hc, hv, debtAcc, projBor, borViewOf]

def collAcc (a : Option AaveRisk.Supply × Rat) : Option String × Rat := (a.1.map (·.tok), a.2)

theorem pickColl_proj (sup : AList String SupplyInfo) :
    pickColl (sup.map (fun p => (p.1, supViewOf cx env p))) =
      collAcc (AaveRisk.pickColl cx.toNumCtx (sup.map (projSup env))) := by
  unfold pickColl AaveRisk.pickColl
  rw [List.foldl_map, List.foldl_map]
  suffices H : ∀ (l : AList String SupplyInfo) (acc : Option AaveRisk.Supply × Rat),
      List.foldl (fun (acc : Option String × Rat) (p : String × SupplyInfo) =>
          if (supViewOf cx env p).coll && acc.2 ≤ (supViewOf cx env p).value then (some p.1, (supViewOf cx env p).value) else acc)
        (collAcc acc) l =
      collAcc (List.foldl (fun (acc : Option AaveRisk.Supply × Rat) (p : String × SupplyInfo) =>
          let v := (projSup env p).value cx.toNumCtx
          if (projSup env p).coll && decide (acc.2 ≤ v) then (some (projSup env p), v) else acc) acc l) by
    exact H sup (none, Gen.arLiqCollStart)
  intro l
  induction l with
  | nil => intro acc; rfl
  | cons p rest ih =>
    intro acc
    simp only [List.foldl_cons]
    rw [← ih]
    congr 1
    obtain ⟨a, m⟩ := acc
    cases hc : p.2.coll
    · simp [hc, collAcc, projSup, supViewOf]
    · simp only [hc, collAcc, projSup, supViewOf, Bool.true_and, decide_eq_true_eq]
      split <;> rfl

end Demeter.Aave
