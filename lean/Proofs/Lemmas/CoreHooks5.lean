/-
  The general model (`runG`) on a script whose hooks only issue operations is the basic model (`run`): bar step, bar loop, whole run.
-/
import Proofs.Lemmas.CoreHooks4
namespace Demeter.Core

theorem runNotify_with (sc : Script) (ts : Int) (row : Nat) : ∀ (fuel i : Nat) (st : St) (rw_ : List (Int × Option Int)),
    runNotify sc ts row fuel i { st with rows := rw_ } =
      ((runNotify sc ts row fuel i st).1, { (runNotify sc ts row fuel i st).2.1 with rows := rw_ }, (runNotify sc ts row fuel i st).2.2)
  | 0, _, _, _ => rfl
  | fuel + 1, i, st, rw_ => by
    unfold runNotify
    simp only []
    cases hc : st.cur[i]? with
    | none => rfl
    | some a =>
      simp only []
      have h1 := runOps_with ts .notify (sc.notify row a.tag) st st.trigs rw_
      have e1 : ({ st with trigs := st.trigs, rows := rw_ } : St) = { st with rows := rw_ } := rfl
      rw [e1] at h1
      rw [h1]
      simp only []
      have htr := (runOps_frame ts .notify (sc.notify row a.tag) st).2.1
      have e2 : ({ (runOps ts .notify (sc.notify row a.tag) st).2 with trigs := st.trigs, rows := rw_ } : St) =
          { (runOps ts .notify (sc.notify row a.tag) st).2 with rows := rw_ } := by
        cases hq : (runOps ts .notify (sc.notify row a.tag) st).2
        rw [hq] at htr
        simp only at htr ⊢
        rw [htr]
      rw [e2, runNotify_with sc ts row fuel (i + 1)]




theorem andThen_mk_none (evs : List Ev) (st : St) (k : St → Res) :
    Res.andThen (evs, st, none) k = (evs ++ (k st).1, (k st).2.1, (k st).2.2) := rfl
theorem andThen_mk_some (evs : List Ev) (st : St) (e : PyErr) (k : St → Res) : Res.andThen (evs, st, some e) k = (evs, st, some e) := rfl

/-- the closing marker of a stretch that ended in an exception -/
def marker : Option PyErr → List Ev
  | some e => [.raised e]
  | none => []

/-- one iteration of the basic model, in the shape of the general one: no closing marker in the trace, the row appended before the deliveries -/
def stepOf (p : BarParts) (row : Nat) (ts : Int) : Res :=
  match p.tp.2.2 with
  | some e => (p.s1.1 ++ .before ts row p.price :: p.b.1 ++ p.f.1, { p.f.2 with trigs := p.tp.2.1 }, some e)
  | none =>
    (p.trace row ts,
     { p.nt.2.1 with rows := p.nt.2.1.rows ++ [(ts, p.price)], cur := if p.nt.2.2 then [] else p.nt.2.1.cur },
     if p.nt.2.2 then none else some .diverges)

theorem trigPhase_eq (now : Int) (l : List Trig) :
    trigPhase now l = match (fireLoop now l).2.2 with
      | some e => ((fireLoop now l).1, (fireLoop now l).2.1, some e)
      | none => ((fireLoop now l).1, (retire now (fireLoop now l).2.1).1, (retire now (fireLoop now l).2.1).2) := by
  unfold trigPhase
  simp only []
  split <;> simp_all

theorem barHeadG_plain (cfg : Cfg) (sc : Script) (row : Nat) (ts : Int) (st : St) (price : Option Int) :
    barHeadG cfg ((ofScript sc).bar row) 0 row ts price st =
      match (barParts cfg sc row ts st price).tp.2.2 with
      | some e => ((barParts cfg sc row ts st price).s1.1 ++ .before ts row price :: (barParts cfg sc row ts st price).b.1 ++
                    (barParts cfg sc row ts st price).f.1,
                   { (barParts cfg sc row ts st price).f.2 with trigs := (barParts cfg sc row ts st price).tp.2.1 }, some e)
      | none => ((barParts cfg sc row ts st price).s1.1 ++ .before ts row price :: (barParts cfg sc row ts st price).b.1 ++
                    (barParts cfg sc row ts st price).f.1 ++ (barParts cfg sc row ts st price).o.1 ++
                    .on ts row price :: (barParts cfg sc row ts st price).n.1 ++ (barParts cfg sc row ts st price).s2.1 ++
                    (barParts cfg sc row ts st price).u.1 ++ .after ts row price :: (barParts cfg sc row ts st price).a.1,
                 (barParts cfg sc row ts st price).a.2, none) := by
  unfold barHeadG
  simp only [Res.ok, andThen_mk_none, barParts]
  have hb : ((ofScript sc).bar row).before = (sc.before row).map .op := rfl
  have hon : ((ofScript sc).bar row).on = (sc.on row).map .op := rfl
  have haf : ((ofScript sc).bar row).after = (sc.after row).map .op := rfl
  rw [hb, runStmts_plain]
  simp only [andThen_mk_none]
  generalize runOps ts .before (sc.before row) { st with ms := (setAllFrom cfg ts 1 0 cfg.markets).2 } = B
  have hfl := fireLoopG_plain sc row ts B.2.trigs [] B.2 (B.2.trigs.length + 0) rfl (by omega)
  simp only [List.length_nil, List.nil_append] at hfl
  rw [hfl, trigPhase_eq]
  generalize fireLoop ts B.2.trigs = FL
  obtain ⟨ff, fl, fe⟩ := FL
  cases fe with
  | some e =>
    simp only [andThen_mk_some, List.append_assoc, List.cons_append, List.nil_append]
  | none =>
    simp only [andThen_mk_none, retireG]
    generalize retire ts fl = RT
    obtain ⟨rl, re⟩ := RT
    cases re with
    | some e =>
      dsimp only
      simp only [andThen_mk_some, List.append_assoc, List.cons_append, List.nil_append, List.append_nil]
    | none =>
      dsimp only
      rw [andThen_mk_none]
      rw [runOpenFromG_plain]
      simp only [andThen_mk_none]
      rw [hon, runStmts_plain]
      simp only [andThen_mk_none, midG]
      rw [runUpdFromG_plain]
      rw [haf, runStmts_plain]
      simp only [List.append_assoc, List.cons_append, List.nil_append, List.append_nil]

theorem barStepG_plain (cfg : Cfg) (sc : Script) (row : Nat) (ts : Int) (st : St) (price : Option Int) (hp : priceAt cfg ts = some price) :
    barStepG cfg ((ofScript sc).bar row) sc.fuel 0 row ts st = stepOf (barParts cfg sc row ts st price) row ts := by
  unfold barStepG stepOf
  rw [hp]
  simp only []
  rw [barHeadG_plain]
  cases htp : (barParts cfg sc row ts st price).tp.2.2 with
  | some e =>
    simp only [andThen_mk_some]
    rfl
  | none =>
    simp only [andThen_mk_none, barTailG, Res.ok]
    rw [runNotifyG_plain]
    have hw := runNotify_with sc ts row ((barParts cfg sc row ts st price).a.2.cur.length + sc.fuel) 0 (barParts cfg sc row ts st price).a.2
      ((barParts cfg sc row ts st price).a.2.rows ++ [(ts, price)])
    have hnt : (barParts cfg sc row ts st price).nt =
        runNotify sc ts row ((barParts cfg sc row ts st price).a.2.cur.length + sc.fuel) 0 (barParts cfg sc row ts st price).a.2 := rfl
    have hrows := (runNotify_trigs sc ts row ((barParts cfg sc row ts st price).a.2.cur.length + sc.fuel) 0 (barParts cfg sc row ts st price).a.2).2
    rw [← hnt] at hw hrows
    have hpr : (barParts cfg sc row ts st price).price = price := rfl
    rw [hw, hpr, hrows]
    cases hd : (barParts cfg sc row ts st price).nt.2.2 with
    | true =>
      simp only [if_true, andThen_mk_none, BarParts.trace, hpr, List.append_assoc, List.cons_append, List.nil_append, List.append_nil]
    | false =>
      simp only [Bool.false_eq_true, if_false, andThen_mk_some, BarParts.trace, hpr, List.append_assoc, List.cons_append, List.nil_append, List.append_nil]

/-! ### the exceptions of the basic model are not `RuntimeError`s -/

theorem whenErr_kind {k : TrigKind} {e : PyErr} (h : whenErr k = some e) : e = .indexError := by
  unfold whenErr at h
  split at h
  · cases h; rfl
  · cases h

theorem outErr_kind {k : TrigKind} {e : PyErr} (h : outErr k = some e) : e = .valueError := by
  unfold outErr at h
  split at h
  · cases h; rfl
  · cases h; rfl
  · cases h

theorem fireLoop_err_kind (now : Int) : ∀ (l : List Trig) (e : PyErr), (fireLoop now l).2.2 = some e → e = .indexError
  | [], e, h => by simp [fireLoop] at h
  | t :: rest, e, h => by
    unfold fireLoop at h
    cases hw : whenErr t.k with
    | some e' => rw [hw] at h; simp only [] at h; cases h; exact whenErr_kind hw
    | none => rw [hw] at h; simp only [] at h; exact fireLoop_err_kind now rest e h

theorem retire_err_kind (now : Int) : ∀ (l : List Trig) (e : PyErr), (retire now l).2 = some e → e = .valueError
  | [], e, h => by simp [retire] at h
  | t :: rest, e, h => by
    unfold retire at h
    cases hw : outErr t.k with
    | some e' => rw [hw] at h; simp only [] at h; cases h; exact outErr_kind hw
    | none => rw [hw] at h; simp only [] at h; exact retire_err_kind now rest e h

theorem trigPhase_err_kind (now : Int) (l : List Trig) (e : PyErr) (h : (trigPhase now l).2.2 = some e) :
    e = .indexError ∨ e = .valueError := by
  rw [trigPhase_eq] at h
  cases hf : (fireLoop now l).2.2 with
  | some e' => rw [hf] at h; simp only [] at h; cases h; exact Or.inl (fireLoop_err_kind now l _ hf)
  | none => rw [hf] at h; simp only [] at h; exact Or.inr (retire_err_kind now _ e h)

/-- what the two models have in common after a stretch: outcome, account rows, action list, installed triggers; the basic model writes the closing
    `raised` marker into the trace itself -/
def SameObs (R : List Ev × St × Option PyErr) (G : Res) : Prop :=
  R.1 = G.1 ++ marker G.2.2 ∧ R.2.2 = G.2.2 ∧ R.2.1.rows = G.2.1.rows ∧ R.2.1.all = G.2.1.all ∧ R.2.1.trigs = G.2.1.trigs ∧
  (G.2.2 = none → R.2.1 = G.2.1) ∧ ∀ e, G.2.2 = some e → e.isRuntime = false

theorem barStep_sameObs (cfg : Cfg) (sc : Script) (row : Nat) (ts : Int) (st : St) :
    SameObs (barStep cfg sc row ts st) (barStepG cfg ((ofScript sc).bar row) sc.fuel 0 row ts st) := by
  cases hp : priceAt cfg ts with
  | none =>
    unfold barStep barStepG
    rw [hp]
    dsimp only
    refine ⟨rfl, rfl, rfl, rfl, rfl, ?_, ?_⟩
    · intro h; cases h
    · intro e h; cases h; rfl
  | some price =>
    rw [barStepG_plain cfg sc row ts st price hp]
    unfold barStep stepOf
    rw [hp]
    dsimp only
    cases htp : (barParts cfg sc row ts st price).tp.2.2 with
    | some e =>
      dsimp only
      refine ⟨rfl, rfl, rfl, rfl, rfl, ?_, ?_⟩
      · intro h; cases h
      · intro e' h
        cases h
        rcases trigPhase_err_kind ts _ _ htp with rfl | rfl <;> rfl
    | none =>
      dsimp only
      cases hd : (barParts cfg sc row ts st price).nt.2.2 with
      | true =>
        simp only [if_true]
        refine ⟨by simp [marker], rfl, rfl, rfl, rfl, ?_, ?_⟩
        · intro _; rfl
        · intro e h; cases h
      | false =>
        simp only [Bool.false_eq_true, if_false]
        refine ⟨rfl, rfl, rfl, rfl, rfl, ?_, ?_⟩
        · intro h; cases h
        · intro e h; cases h; rfl

theorem runBars_sameObs (cfg : Cfg) (sc : Script) : ∀ (bars : List Int) (row : Nat) (st : St),
    SameObs (runBars cfg sc row bars st) (runBarsG cfg (ofScript sc) row bars st)
  | [], _, st => by
    refine ⟨rfl, rfl, rfl, rfl, rfl, ?_, ?_⟩
    · intro _; rfl
    · intro e h; cases h
  | ts :: bars, row, st => by
    obtain ⟨s1, s2, s3, s4, s5, s6, s7⟩ := barStep_sameObs cfg sc row ts st
    have hf : (ofScript sc).fuel = sc.fuel := rfl
    have htf : (ofScript sc).tfuel = 0 := rfl
    unfold runBars runBarsG
    rw [hf, htf]
    cases hg : (barStepG cfg ((ofScript sc).bar row) sc.fuel 0 row ts st).2.2 with
    | some e =>
      rw [andThen_err hg]
      rw [hg] at s2
      simp only [s2]
      refine ⟨s1, hg.symm, s3, s4, s5, ?_, s7⟩
      intro h; rw [hg] at h; cases h
    | none =>
      rw [andThen_ok hg]
      rw [hg] at s2
      simp only [s2]
      have hst := s6 hg
      obtain ⟨q1, q2, q3, q4, q5, q6, q7⟩ := runBars_sameObs cfg sc bars (row + 1) (barStepG cfg ((ofScript sc).bar row) sc.fuel 0 row ts st).2.1
      rw [hst]
      rw [hg] at s1
      simp only [marker, List.append_nil] at s1
      refine ⟨?_, q2, q3, q4, q5, q6, q7⟩
      rw [s1, q1, List.append_assoc]

theorem loopExit_of_not_runtime (rows : List (Int × Option Int)) (e : PyErr) (h : e.isRuntime = false) : loopExit rows e = e := by
  unfold loopExit
  simp [h]

/-- **the general model on a script whose hooks only issue operations is the basic model** -/
theorem runG_plain (cfg : Cfg) (trigs : List Trig) (sc : Script) : runG cfg trigs (ofScript sc) = run cfg trigs sc := by
  unfold runG run
  cases checkBacktest cfg with
  | some e => rfl
  | none =>
    dsimp only
    cases barIndex cfg with
    | nil => rfl
    | cons ts0 bars =>
      dsimp only
      cases priceAt cfg ts0 with
      | none => rfl
      | some pr =>
        dsimp only
        unfold runCore initG
        have hi : (ofScript sc).init = sc.init.map .op := rfl
        rw [hi, andThen_okRes, runStmts_plain]
        dsimp only
        obtain ⟨q1, q2, q3, q4, q5, _, q7⟩ := runBars_sameObs cfg sc (ts0 :: bars) 0
          (runOps ts0 .init sc.init ⟨(setAllFrom cfg ts0 0 0 cfg.markets).2, trigs, [], [], []⟩).2
        rw [andThen_mk_none]
        dsimp only
        cases hg : (runBarsG cfg (ofScript sc) 0 (ts0 :: bars)
            (runOps ts0 .init sc.init ⟨(setAllFrom cfg ts0 0 0 cfg.markets).2, trigs, [], [], []⟩).2).2.2 with
        | none =>
          rw [hg] at q1 q2
          simp only [marker, List.append_nil] at q1
          rw [q2]
          dsimp only
          rw [q1, q3, q4, q5]
          simp only [List.append_assoc, List.cons_append, List.nil_append]
        | some e =>
          rw [hg] at q1 q2
          simp only [marker] at q1
          rw [q2]
          dsimp only
          rw [loopExit_of_not_runtime _ _ (q7 e hg), q1, q3, q4, q5]
          simp only [List.append_assoc, List.cons_append, List.nil_append, List.append_nil, if_true]

end Demeter.Core
