/-
  Refinement kit, part 2: list-level facts that relate the state machine's dict updates (`AList.set`, `AList.erase`
  on `_supplies` / `_borrows`) to the risk model's entry updates (`setDebtBase`, `putSupplyBase`, `addDebt`, …)
  under the projection `projSup` / `projBor`, plus the small conversions between the two models' `XRat`s and
  refusal causes.
-/
import Proofs.Lemmas.AaveRefine
namespace Demeter.Aave
open Demeter M

variable {cx : ACtx} {env : Env}

/-! ### the two `XRat`s -/

theorem toX_gtR (h : AaveRisk.XRat) (c : Rat) : (toX h).gtR c = h.gtB c := by
  cases h <;> simp [toX, XRat.gtR, AaveRisk.XRat.gtB]

theorem toX_ltR (h : AaveRisk.XRat) (c : Rat) : (toX h).ltR c = h.ltB c := by
  cases h <;> simp [toX, XRat.ltR, AaveRisk.XRat.ltB]

/-- the two components extract the same constants from the source -/
theorem consts_agree :
    Gen.aaveHfThreshold = Gen.arHfLiqThreshold ∧ Gen.aaveCloseFactorHf = Gen.arCloseFactorHfThreshold ∧
    Gen.aaveCloseFactorDefault = Gen.arDefaultCloseFactor ∧ Gen.aaveCloseFactorMax = Gen.arMaxCloseFactor ∧
    Gen.aaveMaxBorrowUi = Gen.arMaxBorrowMargin ∧ Gen.aaveMinTokenValue = Gen.arMinTokenValue := by
  refine ⟨by decide +kernel, by decide +kernel, by decide +kernel, by decide +kernel, by decide +kernel, by decide +kernel⟩

/-- how a refusal of the risk model shows up as an exception of the state machine -/
def errOfCause : AaveRisk.Cause → Err
  | .invalidAmount => .zeroAmount
  | .borrowDisabled => .borrowDisabled
  | .noCollateral => .collZero
  | .ltvZero => .ltvZero
  | .hfLow => .hfLow
  | .notCovered => .cannotCover
  | .overBalance => .exceedBalance
  | .hfLowAfter => .hfLow
  | .notSupplied => .keySupply
  | .cannotCollateral => .cannotCollateral
  | .arith => .divZero

/-- the exception classes agree (`Cause.exc` is what the harness compares with the implementation) -/
theorem errOfCause_cls (c : AaveRisk.Cause) : (errOfCause c).cls = c.exc.name := by
  cases c <;> rfl

/-! ### lookups -/

theorem findDebt_proj (bor : AList String BorrowInfo) (tok : String) :
    AaveRisk.findDebt? (bor.map (projBor env)) tok = (AList.get? bor tok).map (fun i => projBor env (tok, i)) := by
  induction bor with
  | nil => rfl
  | cons p rest ih =>
    obtain ⟨k, v⟩ := p
    unfold AaveRisk.findDebt? AList.get? at *
    simp only [List.map_cons, List.find?_cons, projBor]
    by_cases h : k = tok
    · subst h; simp
    · simp only [h, decide_false]
      exact ih

theorem findSupply_proj (sup : AList String SupplyInfo) (tok : String) :
    AaveRisk.findSupply? (sup.map (projSup env)) tok = (AList.get? sup tok).map (fun i => projSup env (tok, i)) := by
  induction sup with
  | nil => rfl
  | cons p rest ih =>
    obtain ⟨k, v⟩ := p
    unfold AaveRisk.findSupply? AList.get? at *
    simp only [List.map_cons, List.find?_cons, projSup]
    by_cases h : k = tok
    · subst h; simp
    · simp only [h, decide_false]
      exact ih

/-! ### updates -/

theorem set_proj_debt (bor : AList String BorrowInfo) (tok : String) (info : BorrowInfo) (nb : Rat)
    (h : AList.get? bor tok = some info) :
    (AList.set bor tok { info with base := nb }).map (projBor env) =
      AaveRisk.setDebtBase (bor.map (projBor env)) tok nb := by
  induction bor with
  | nil => simp [AList.get?] at h
  | cons p rest ih =>
    obtain ⟨k, v⟩ := p
    unfold AaveRisk.setDebtBase at *
    by_cases hk : k = tok
    · subst hk
      have : v = info := by simpa [AList.get?] using h
      subst this
      simp [AList.set, AaveRisk.updFirst, projBor]
    · have h' : AList.get? rest tok = some info := by
        simpa [AList.get?, List.find?_cons, hk] using h
      simp only [AList.set, hk, if_false, List.map_cons, AaveRisk.updFirst, projBor, decide_false]
      simp only [Bool.false_eq_true, if_false]
      congr 1
      exact ih h'

theorem set_proj_new_debt (bor : AList String BorrowInfo) (tok : String) (info : BorrowInfo)
    (h : AList.get? bor tok = none) :
    (AList.set bor tok info).map (projBor env) = bor.map (projBor env) ++ [projBor env (tok, info)] := by
  induction bor with
  | nil => rfl
  | cons p rest ih =>
    obtain ⟨k, v⟩ := p
    by_cases hk : k = tok
    · subst hk; simp [AList.get?] at h
    · have h' : AList.get? rest tok = none := by
        simpa [AList.get?, List.find?_cons, hk] using h
      simp only [AList.set, hk, if_false, List.map_cons, List.cons_append]
      congr 1
      exact ih h'

/-- the entry `borrow` writes is the risk model's `addDebt` -/
theorem borrowEntry_proj (bor : AList String BorrowInfo) (tok : String) (base idx : Rat) :
    (AList.set bor tok (borrowEntry cx (AList.get? bor tok) base idx)).map (projBor env) =
      AaveRisk.addDebt cx.toNumCtx (bor.map (projBor env)) tok (rowOf env tok) base := by
  unfold AaveRisk.addDebt
  rw [findDebt_proj]
  cases h : AList.get? bor tok with
  | none =>
    simp only [Option.map_none, borrowEntry]
    rw [set_proj_new_debt bor tok _ h]
    rfl
  | some info =>
    simp only [Option.map_some, borrowEntry]
    exact set_proj_debt bor tok info _ h

theorem set_proj_supply_base (sup : AList String SupplyInfo) (tok : String) (info : SupplyInfo) (nb : Rat)
    (h : AList.get? sup tok = some info) :
    (AList.set sup tok { info with base := nb }).map (projSup env) =
      AaveRisk.setSupplyBase (sup.map (projSup env)) tok nb := by
  induction sup with
  | nil => simp [AList.get?] at h
  | cons p rest ih =>
    obtain ⟨k, v⟩ := p
    unfold AaveRisk.setSupplyBase at *
    by_cases hk : k = tok
    · subst hk
      have : v = info := by simpa [AList.get?] using h
      subst this
      simp [AList.set, AaveRisk.updFirst, projSup]
    · have h' : AList.get? rest tok = some info := by
        simpa [AList.get?, List.find?_cons, hk] using h
      simp only [AList.set, hk, if_false, List.map_cons, AaveRisk.updFirst, projSup, decide_false]
      simp only [Bool.false_eq_true, if_false]
      congr 1
      exact ih h'

theorem set_proj_supply_coll (sup : AList String SupplyInfo) (tok : String) (info : SupplyInfo) (c : Bool)
    (h : AList.get? sup tok = some info) :
    (AList.set sup tok { info with coll := c }).map (projSup env) =
      AaveRisk.setSupplyColl (sup.map (projSup env)) tok c := by
  induction sup with
  | nil => simp [AList.get?] at h
  | cons p rest ih =>
    obtain ⟨k, v⟩ := p
    unfold AaveRisk.setSupplyColl at *
    by_cases hk : k = tok
    · subst hk
      have : v = info := by simpa [AList.get?] using h
      subst this
      simp [AList.set, AaveRisk.updFirst, projSup]
    · have h' : AList.get? rest tok = some info := by
        simpa [AList.get?, List.find?_cons, hk] using h
      simp only [AList.set, hk, if_false, List.map_cons, AaveRisk.updFirst, projSup, decide_false]
      simp only [Bool.false_eq_true, if_false]
      congr 1
      exact ih h'

/-- `del d[k]` on a dict with unique keys is the risk model's `eraseP` of the first match -/
theorem erase_proj_supply (sup : AList String SupplyInfo) (tok : String) (nd : (keys sup).Nodup) :
    (AList.erase sup tok).map (projSup env) = AaveRisk.delSupply (sup.map (projSup env)) tok := by
  induction sup with
  | nil => rfl
  | cons p rest ih =>
    obtain ⟨k, v⟩ := p
    have nd' : (keys rest).Nodup := by
      unfold keys at nd ⊢; exact (List.nodup_cons.mp nd).2
    unfold AaveRisk.delSupply AList.erase at *
    by_cases hk : k = tok
    · subst hk
      have hnot : k ∉ keys rest := by
        unfold keys at nd ⊢; exact (List.nodup_cons.mp nd).1
      simp only [List.filter_cons, ne_eq, not_true_eq_false, decide_false, Bool.false_eq_true, if_false,
        List.map_cons, List.eraseP_cons, projSup, decide_true, if_true]
      congr 1
      apply List.filter_eq_self.mpr
      intro q hq
      have : q.1 ≠ k := fun e => hnot (e ▸ mem_keys_of_mem hq)
      simp [this]
    · simp only [List.filter_cons, ne_eq, hk, not_false_eq_true, decide_true, if_true, List.map_cons,
        List.eraseP_cons, projSup, decide_false, Bool.false_eq_true, if_false]
      congr 1
      exact ih nd'

theorem erase_proj_debt (bor : AList String BorrowInfo) (tok : String) (nd : (keys bor).Nodup) :
    (AList.erase bor tok).map (projBor env) = AaveRisk.delDebt (bor.map (projBor env)) tok := by
  induction bor with
  | nil => rfl
  | cons p rest ih =>
    obtain ⟨k, v⟩ := p
    have nd' : (keys rest).Nodup := by
      unfold keys at nd ⊢; exact (List.nodup_cons.mp nd).2
    unfold AaveRisk.delDebt AList.erase at *
    by_cases hk : k = tok
    · subst hk
      have hnot : k ∉ keys rest := by
        unfold keys at nd ⊢; exact (List.nodup_cons.mp nd).1
      simp only [List.filter_cons, ne_eq, not_true_eq_false, decide_false, Bool.false_eq_true, if_false,
        List.map_cons, List.eraseP_cons, projBor, decide_true, if_true]
      congr 1
      apply List.filter_eq_self.mpr
      intro q hq
      have : q.1 ≠ k := fun e => hnot (e ▸ mem_keys_of_mem hq)
      simp [this]
    · simp only [List.filter_cons, ne_eq, hk, not_false_eq_true, decide_true, if_true, List.map_cons,
        List.eraseP_cons, projBor, decide_false, Bool.false_eq_true, if_false]
      congr 1
      exact ih nd'

/-- `base_amount = nb; if nb == 0: del` -/
theorem put_proj_supply (sup : AList String SupplyInfo) (tok : String) (info : SupplyInfo) (nb : Rat)
    (h : AList.get? sup tok = some info) (nd : (keys sup).Nodup) :
    (if nb = 0 then AList.erase sup tok else AList.set sup tok { info with base := nb }).map (projSup env) =
      AaveRisk.putSupplyBase (sup.map (projSup env)) tok nb := by
  unfold AaveRisk.putSupplyBase
  split
  · exact erase_proj_supply sup tok nd
  · exact set_proj_supply_base sup tok info nb h

theorem put_proj_debt (bor : AList String BorrowInfo) (tok : String) (info : BorrowInfo) (nb : Rat)
    (h : AList.get? bor tok = some info) (nd : (keys bor).Nodup) :
    (if nb = 0 then AList.erase bor tok else AList.set bor tok { info with base := nb }).map (projBor env) =
      AaveRisk.putDebtBase (bor.map (projBor env)) tok nb := by
  unfold AaveRisk.putDebtBase
  split
  · exact erase_proj_debt bor tok nd
  · exact set_proj_debt bor tok info nb h

theorem subBase_eq (old v : Rat) : subBase cx old v = AaveRisk.subBase cx.toNumCtx old v := by
  unfold subBase AaveRisk.subBase
  rw [consts_agree.2.2.2.2.2]

end Demeter.Aave
