/-
  The invariant behind the wallet look-ups of the Uniswap model: the wallet never loses a token, and positions
  exist only once both pool tokens are in the wallet.  Preserved by every operation, accepted or rejected.
-/
import Proofs.Lemmas.UniAtomic
namespace Demeter.Uni
open Demeter

def WRel (pool : Pool) (s s' : State) : Prop :=
  (∀ k, Has s.wallet k → Has s'.wallet k) ∧ (s.positions = [] → s'.positions = [] ∨ WalletHas pool s'.wallet)

theorem WRel.refl (pool : Pool) (s : State) : WRel pool s s := ⟨fun _ h => h, fun h => Or.inl h⟩

theorem WRel.trans {pool : Pool} {a b c : State} (h1 : WRel pool a b) (h2 : WRel pool b c) : WRel pool a c := by
  refine ⟨fun k h => h2.1 k (h1.1 k h), fun h => ?_⟩
  rcases h1.2 h with hb | hb
  · exact h2.2 hb
  · exact Or.inr ⟨h2.1 _ hb.1, h2.1 _ hb.2⟩

theorem WRel.ofEq {α : Type} {pool : Pool} {s s' : State} {r : α × State} {x : α} (h : WRel pool s r.2) (heq : r = (x, s')) :
    WRel pool s s' := by rw [heq] at h; exact h

theorem WRel.inv {pool : Pool} {s s' : State} (h : WRel pool s s') (hi : PosImpliesWallet pool s) :
    PosImpliesWallet pool s' := by
  intro hne
  by_cases he : s.positions = []
  · rcases h.2 he with h' | h'
    · exact absurd h' hne
    · exact h'
  · have := hi he
    exact ⟨h.1 _ this.1, h.1 _ this.2⟩

theorem WRel.record {pool : Pool} (s : State) (a : Act) : WRel pool s (record s a) := WRel.refl pool s

theorem mapPos_nil (lo up : Int) (f : Pos → Pos) : mapPos [] lo up f = [] := rfl
theorem erasePos_nil (lo up : Int) : erasePos [] lo up = [] := rfl

theorem addRaw_wrel (K : Kern) (pool : Pool) (s : State) (a0 a1 : Rat) (lo up : Int) (sq : Option Nat) :
    WRel pool s (addRaw K pool s a0 a1 lo up sq).2 := by
  refine ⟨?_, fun _ => ?_⟩
  · intro k hk
    unfold addRaw
    repeat' split
    all_goals first
      | exact hk
      | skip
    rename_i h2
    exact has_debit2 h2 _ (Or.inl hk)
  · rcases addRaw_post K pool s a0 a1 lo up sq with ⟨_, _, h⟩ | ⟨_, h⟩
    · rw [h]; exact Or.inl ‹_›
    · exact Or.inr h

theorem collectWallet_mono (cx : NumCtx) (pool : Pool) (w : Wallet) (tu : Bool) (f0 f1 : Rat) (k : String) (h : Has w k) :
    Has (collectWallet cx pool w tu f0 f1) k := by
  unfold collectWallet
  split
  · exact has_credit _ _ _ _ _ (Or.inl (has_credit _ _ _ _ _ (Or.inl h)))
  · exact h

theorem collect_wrel (K : Kern) (pool : Pool) (s : State) (lo up : Int) (m0 m1 : Option Rat) (rd tu : Bool) :
    WRel pool s (collect K pool s lo up m0 m1 rd tu).2 := by
  unfold collect
  repeat' split
  all_goals first
    | exact WRel.refl pool s
    | (refine ⟨fun k hk => ?_, fun he => Or.inl ?_⟩
       · first
           | exact collectWallet_mono _ _ _ _ _ _ _ hk
           | (unfold collectFinish; split <;> exact collectWallet_mono _ _ _ _ _ _ _ hk)
       · first
           | (show mapPos s.positions lo up _ = []; rw [he]; rfl)
           | (unfold collectFinish; split <;> simp [collectCore, Uni.record, markUpdate, he, mapPos, erasePos]))

theorem removeNoCollect_wrel (K : Kern) (pool : Pool) (s : State) (lo up : Int) (l : Option Int) (sq : Option Nat) :
    WRel pool s (removeNoCollect K pool s lo up l sq).2 := by
  unfold removeNoCollect
  repeat' split
  all_goals first
    | exact WRel.refl pool s
    | exact ⟨fun k hk => hk, fun he => Or.inl (by show mapPos s.positions lo up _ = []; rw [he]; rfl)⟩

theorem remove_wrel (K : Kern) (pool : Pool) (s : State) (lo up : Int) (l : Option Int) (c : Bool) (sq : Option Nat)
    (rd : Bool) : WRel pool s (remove K pool s lo up l c sq rd).2 := by
  unfold remove
  have h := removeNoCollect_wrel K pool s lo up l sq
  split
  · rename_i heq; exact WRel.ofEq h heq
  · rename_i heq
    split
    · exact WRel.trans (WRel.ofEq h heq) (collect_wrel ..)
    · exact WRel.ofEq h heq

theorem removeAllLoop_wrel (K : Kern) (pool : Pool) : ∀ (ks : List (Int × Int)) (s : State),
    WRel pool s (removeAllLoop K pool ks s).2
  | [], s => WRel.refl pool s
  | (lo, up) :: ks, s => by
    unfold removeAllLoop
    have h := remove_wrel K pool s lo up none true none true
    split
    · rename_i heq; exact WRel.ofEq h heq
    · rename_i heq; exact WRel.trans (WRel.ofEq h heq) (removeAllLoop_wrel K pool ks _)

theorem swap_wrel (K : Kern) (pool : Pool) (s : State) (a : Rat) (f t : String) (p : Option Rat) (log : Bool) :
    WRel pool s (swap K pool s a f t p log).2 := by
  unfold swap
  repeat' split
  all_goals first
    | exact WRel.refl pool s
    | (rename_i hd _
       exact ⟨fun k hk => has_credit _ _ _ _ _ (Or.inl (has_debit hd _ (Or.inl hk))), fun he => Or.inl he⟩)

theorem transferOut_wrel (pool : Pool) (s : State) (lo up : Int) : WRel pool s (transferOut s lo up).2 := by
  unfold transferOut
  repeat' split
  all_goals first
    | exact WRel.refl pool s
    | exact ⟨fun k hk => hk, fun he => Or.inl (by show mapPos s.positions lo up _ = []; rw [he]; rfl)⟩

theorem transferIn_wrel (pool : Pool) (s : State) (lo up : Int) : WRel pool s (transferIn s lo up).2 := by
  unfold transferIn
  repeat' split
  all_goals first
    | exact WRel.refl pool s
    | exact ⟨fun k hk => hk, fun he => Or.inl (by show mapPos s.positions lo up _ = []; rw [he]; rfl)⟩

end Demeter.Uni
