/-
  Round35 — part 9: `Decimal ** 2` (`dpowNat 35 x 2`, the `sq` of `TickNum.py`) is two roundings: precision 38, then 35,
  hence `x²·(1−ε)² ≤ dpowNat 35 x 2 ≤ x²·(1+ε)²` — the shape of `Approx.sq`.
-/
import Proofs.Lemmas.Round35Ctx
namespace Demeter.Numerics
open Demeter
local notation "T" => (10 : ℚ)

/-- `Decimal ** 2` under `prec = 35`: one rounding at the working precision 38, one at 35 -/
theorem dpowNat35_two (x : ℚ) : dpowNat 35 x 2 = roundSig 35 (roundSig 38 (x * x)) := by
  have h : ndigits 2 = 1 := by decide
  have hb : (2:ℕ).log2 = 1 := by decide
  unfold dpowNat
  simp only [h, hb, dpowNat.go]
  simp

theorem dpowNat35_two_bounds (x : ℚ) (h1 : (x * x).num.natAbs < 10 ^ 45000) (h2 : (x * x).den < 10 ^ 45000) :
    x * x * (1 - EPS35) ^ 2 ≤ dpowNat 35 x 2 ∧ dpowNat 35 x 2 ≤ x * x * (1 + EPS35) ^ 2 := by
  rw [dpowNat35_two]
  have hy : 0 ≤ x * x := mul_self_nonneg x
  generalize x * x = y at *
  have hr : InRange y := InRange_of_lt h1 h2
  have hz0 := roundSig_nonneg 38 hy
  have hrz := InRange_roundSig 38 (by decide) (by decide) y h1 h2
  obtain ⟨z1, z2⟩ := roundSig_bounds 38 hy hr
  obtain ⟨w1, w2⟩ := roundSig_bounds 35 hz0 hrz
  rw [show (1:ℚ) / 2 * T ^ (1 - ((35:ℕ):ℤ)) = epsP 35 from rfl, epsP_35] at w1 w2
  have e38 : (1:ℚ) / 2 * T ^ (1 - ((38:ℕ):ℤ)) ≤ EPS35 := by unfold EPS35; norm_num
  have e38' : (0:ℚ) ≤ (1:ℚ) / 2 * T ^ (1 - ((38:ℕ):ℤ)) := by norm_num
  have hε := EPS35_pos
  have hε1 : EPS35 ≤ 1 := le_trans EPS35_small (by norm_num)
  generalize (1:ℚ) / 2 * T ^ (1 - ((38:ℕ):ℤ)) = η at *
  generalize roundSig 38 y = z at *
  generalize roundSig 35 z = w at *
  clear h1 h2 hr hrz
  constructor
  · have a : y * (1 - EPS35) ≤ z := le_trans (by nlinarith) z1
    have b : y * (1 - EPS35) * (1 - EPS35) ≤ z * (1 - EPS35) := mul_le_mul_of_nonneg_right a (by linarith)
    nlinarith
  · have a : z ≤ y * (1 + EPS35) := le_trans z2 (by nlinarith)
    have b : z * (1 + EPS35) ≤ y * (1 + EPS35) * (1 + EPS35) := mul_le_mul_of_nonneg_right a (by linarith)
    nlinarith
end Demeter.Numerics
