/-
  Order-book invariants of the Deribit model under exact arithmetic: with distinct prices on a side and
  non-negative displayed sizes, writing the fills of an accepted order back leaves every size non-negative
  (no level is ever overdrawn), and prices / level count never change.
-/
import Proofs.Lemmas.Deribit
namespace Demeter.Deribit
open Demeter

/-- distinct prices on one side -/
def PricesNodup (ls : List Level) : Prop := (ls.map (·.price)).Nodup

theorem newOrderList_prices (cx : DCtx) (old : List Level) (fs : List Fill) :
    (newOrderList cx old fs).map (·.price) = old.map (·.price) := by
  unfold newOrderList
  induction fs generalizing old with
  | nil => rfl
  | cons f fs ih => simp only [List.foldl_cons]; rw [ih, applyFill_prices]

theorem applyFill_sizes (x : Fill) (ls : List Level) (hn : PricesNodup ls) :
    (applyFill DCtx.exact x ls).map (·.size) =
      ls.map (fun l => if l.price = x.price then l.size - x.amount else l.size) := by
  induction ls with
  | nil => simp [applyFill]
  | cons l ls ih =>
    simp only [PricesNodup, List.map_cons, List.nodup_cons] at hn
    unfold applyFill
    simp only [exact_toF, exact_fsub]
    by_cases hx : x.price = l.price
    · simp only [hx, if_true, List.map_cons]
      congr 1
      apply List.map_congr_left
      intro l' hl'
      have : ¬ l'.price = l.price := fun e => hn.1 (e ▸ List.mem_map_of_mem (f := (·.price)) hl')
      simp [this]
    · have hx' : ¬ l.price = x.price := fun e => hx e.symm
      simp only [hx, if_false, List.map_cons, hx']
      rw [ih hn.2]

theorem newOrderList_sizes (ls : List Level) (fs : List Fill) (hn : PricesNodup ls) :
    (newOrderList DCtx.exact ls fs).map (·.size) = ls.map (fun l => l.size - taken fs l.price) := by
  unfold newOrderList
  induction fs generalizing ls with
  | nil => simp [taken]
  | cons f fs ih =>
    simp only [List.foldl_cons]
    have hn' : PricesNodup (applyFill DCtx.exact f ls) := by
      unfold PricesNodup; rw [applyFill_prices]; exact hn
    rw [ih _ hn']
    -- sizes after the first fill, prices unchanged
    have hs := applyFill_sizes f ls hn
    have hp := applyFill_prices DCtx.exact f ls
    -- pointwise over the zipped lists
    have hlen : (applyFill DCtx.exact f ls).length = ls.length := by
      have := congrArg List.length hp; simpa using this
    apply List.ext_getElem
    · simp [hlen]
    · intro i h1 h2
      have hi : i < ls.length := by simpa using h2
      have hi' : i < (applyFill DCtx.exact f ls).length := by simpa using h1
      simp only [List.getElem_map]
      have hsi : ((applyFill DCtx.exact f ls).map (·.size))[i]'(by simpa using h1) =
          (ls.map (fun l => if l.price = f.price then l.size - f.amount else l.size))[i]'(by simpa using h2) := by
        simp only [hs]
      have hpi : ((applyFill DCtx.exact f ls).map (·.price))[i]'(by simpa using h1) = (ls.map (·.price))[i]'(by simpa using h2) := by
        simp only [hp]
      simp only [List.getElem_map] at hsi hpi
      rw [hsi, hpi]
      by_cases hq : ls[i].price = f.price
      · have hq' : f.price = ls[i].price := hq.symm
        simp only [hq, if_true, taken, List.filter_cons, decide_true, List.map_cons, List.sum_cons]
        ring
      · have hq' : ¬ f.price = ls[i].price := fun e => hq e.symm
        simp [hq, taken, List.filter_cons, hq']

theorem deductMarket_exact_cons (rem : Rat) (l : Level) (ls : List Level) :
    deductMarket DCtx.exact rem (l :: ls) =
      if l.size = 0 then deductMarket DCtx.exact rem ls
      else ({ price := l.price, amount := min l.size rem } : Fill) ::
        (if 0 < l.size - min l.size rem ∨ rem - min l.size rem = 0 then []
         else deductMarket DCtx.exact (rem - min l.size rem) ls) := by
  rw [deductMarket]; rfl

theorem taken_cons (f : Fill) (fs : List Fill) (p : Rat) :
    taken (f :: fs) p = (if f.price = p then f.amount else 0) + taken fs p := by
  by_cases hp : f.price = p <;> simp [taken, List.filter_cons, hp]

/-- what a market order takes at any price is bounded by the size displayed there -/
theorem taken_deductMarket_le (ls : List Level) (rem : Rat) (hn : PricesNodup ls) (hs : ∀ l ∈ ls, 0 ≤ l.size) (hr : 0 ≤ rem) :
    (∀ l ∈ ls, taken (deductMarket DCtx.exact rem ls) l.price ≤ l.size) ∧
    (∀ p, p ∉ ls.map (·.price) → taken (deductMarket DCtx.exact rem ls) p = 0) ∧
    (∀ p, 0 ≤ taken (deductMarket DCtx.exact rem ls) p) := by
  induction ls generalizing rem with
  | nil => simp [deductMarket, taken]
  | cons l ls ih =>
    simp only [PricesNodup, List.map_cons, List.nodup_cons] at hn
    have hs' : ∀ l' ∈ ls, 0 ≤ l'.size := fun l' h => hs l' (List.mem_cons_of_mem _ h)
    have hl : 0 ≤ l.size := hs l List.mem_cons_self
    rw [deductMarket_exact_cons]
    by_cases hz : l.size = 0
    · rw [if_pos hz]
      obtain ⟨h1, h2, h3⟩ := ih rem hn.2 hs' hr
      refine ⟨?_, ?_, h3⟩
      · intro l' hl'
        rcases List.mem_cons.mp hl' with rfl | hm
        · rw [h2 _ hn.1, hz]
        · exact h1 l' hm
      · intro p hp
        exact h2 p (fun h => hp (List.mem_cons_of_mem _ h))
    · rw [if_neg hz]
      have hd0 : 0 ≤ min l.size rem := le_min hl hr
      have hrem' : 0 ≤ rem - min l.size rem := by linarith [min_le_right l.size rem]
      -- the tail of the fills, in both cases of the stop condition
      have hrest : ∀ rest : List Fill,
          rest = [] ∨ rest = deductMarket DCtx.exact (rem - min l.size rem) ls →
          (∀ l' ∈ ls, taken rest l'.price ≤ l'.size) ∧ (∀ p, p ∉ ls.map (·.price) → taken rest p = 0) ∧
          (∀ p, 0 ≤ taken rest p) := by
        intro rest hr'
        rcases hr' with rfl | rfl
        · exact ⟨fun l' hl' => by simpa [taken] using hs' l' hl', fun p _ => by simp [taken], fun p => by simp [taken]⟩
        · exact ih _ hn.2 hs' hrem'
      have hcase : ∀ rest : List Fill,
          rest = [] ∨ rest = deductMarket DCtx.exact (rem - min l.size rem) ls →
          (∀ l' ∈ l :: ls, taken (({ price := l.price, amount := min l.size rem } : Fill) :: rest) l'.price ≤ l'.size) ∧
          (∀ p, p ∉ l.price :: ls.map (·.price) → taken (({ price := l.price, amount := min l.size rem } : Fill) :: rest) p = 0) ∧
          (∀ p, 0 ≤ taken (({ price := l.price, amount := min l.size rem } : Fill) :: rest) p) := by
        intro rest hr'
        obtain ⟨h1, h2, h3⟩ := hrest rest hr'
        refine ⟨?_, ?_, ?_⟩
        · intro l' hl'
          rw [taken_cons]
          rcases List.mem_cons.mp hl' with rfl | hm
          · simp only [if_true]
            rw [h2 _ hn.1]
            linarith [min_le_left l'.size rem]
          · have : ¬ l.price = l'.price := fun e => hn.1 (e ▸ List.mem_map_of_mem (f := (·.price)) hm)
            simp only [this, if_false, zero_add]
            exact h1 l' hm
        · intro p hp
          rw [taken_cons]
          have hp1 : ¬ l.price = p := fun e => hp (by simp [e])
          have hp2 : p ∉ ls.map (·.price) := fun h => hp (List.mem_cons_of_mem _ h)
          simp [hp1, h2 p hp2]
        · intro p
          rw [taken_cons]
          have := h3 p
          simp only []
          split <;> linarith
      split
      · exact hcase [] (Or.inl rfl)
      · exact hcase _ (Or.inr rfl)

/-! ### limit orders -/

theorem deductLimit_eq_filter (cx : DCtx) (p a : Rat) (ls : List Level) :
    deductLimit cx p a ls = (ls.filter (fun l => p = cx.reprD l.price)).map (fun _ => ⟨p, a⟩) := by
  induction ls with
  | nil => simp [deductLimit]
  | cons l ls ih =>
    unfold deductLimit
    by_cases h : p = cx.reprD l.price
    · simp only [h, if_true] at ih ⊢; simp [ih]
    · simp only [h, if_false]; rw [ih]; simp [h]

theorem deductLimit_single (cx : DCtx) (a : Rat) (ls : List Level) (l : Level) (hl : l ∈ ls)
    (hd : (ls.map (fun l => cx.reprD l.price)).Nodup) :
    deductLimit cx (cx.reprD l.price) a ls = [⟨cx.reprD l.price, a⟩] := by
  rw [deductLimit_eq_filter]
  induction ls with
  | nil => simp at hl
  | cons x xs ih =>
    simp only [List.map_cons, List.nodup_cons] at hd
    rcases List.mem_cons.mp hl with rfl | hmem
    · have : xs.filter (fun y => decide (cx.reprD l.price = cx.reprD y.price)) = [] := by
        apply List.filter_eq_nil_iff.mpr
        intro y hy hyp
        simp only [decide_eq_true_eq] at hyp
        exact hd.1 (hyp ▸ List.mem_map_of_mem (f := fun l => cx.reprD l.price) hy)
      simp [this]
    · have hne : ¬ (cx.reprD l.price = cx.reprD x.price) := fun h =>
        hd.1 (h ▸ List.mem_map_of_mem (f := fun l => cx.reprD l.price) hmem)
      simp only [List.filter_cons, hne, decide_false]
      exact ih hmem hd.2

/-! ### one side of the book after an accepted order -/

/-- a side in good shape: distinct prices, non-negative sizes -/
def SideOk (ls : List Level) : Prop := PricesNodup ls ∧ ∀ l ∈ ls, 0 ≤ l.size

theorem sideOk_of_sizes {old new : List Level} (hp : new.map (·.price) = old.map (·.price)) (ho : SideOk old)
    (hs : ∀ x ∈ new.map (·.size), 0 ≤ x) : SideOk new := by
  refine ⟨by unfold PricesNodup; rw [hp]; exact ho.1, ?_⟩
  intro l hl
  exact hs l.size (List.mem_map_of_mem (f := (·.size)) hl)

theorem nodup_filter_prices {ls : List Level} (hn : PricesNodup ls) (f : Level → Bool) : PricesNodup (ls.filter f) :=
  List.Nodup.sublist (List.Sublist.map _ List.filter_sublist) hn

/-- market order on a filtered part of a side -/
theorem sideOk_market (ls : List Level) (f : Level → Bool) (amount : Rat) (ho : SideOk ls) (ha : 0 ≤ amount) :
    SideOk (newOrderList DCtx.exact ls (deductMarket DCtx.exact amount (ls.filter f))) := by
  apply sideOk_of_sizes (newOrderList_prices DCtx.exact ls _) ho
  rw [newOrderList_sizes ls _ ho.1]
  intro x hx
  obtain ⟨l, hl, rfl⟩ := List.mem_map.mp hx
  obtain ⟨h1, h2, _⟩ := taken_deductMarket_le (ls.filter f) amount (nodup_filter_prices ho.1 f)
    (fun l' hl' => ho.2 l' (List.mem_filter.mp hl').1) ha
  by_cases hf : f l = true
  · have := h1 l (List.mem_filter.mpr ⟨hl, hf⟩)
    linarith
  · have hnot : l.price ∉ (ls.filter f).map (·.price) := by
      intro hmem
      obtain ⟨l', hl', hpe⟩ := List.mem_map.mp hmem
      have hl'' := List.mem_filter.mp hl'
      have : l' = l := List.inj_on_of_nodup_map ho.1 hl''.1 hl hpe
      exact hf (this ▸ hl''.2)
    rw [h2 _ hnot]
    linarith [ho.2 l hl]

/-- limit order matched to level `l0` of the side -/
theorem sideOk_limit (ls avail : List Level) (l0 : Level) (amount : Rat) (ho : SideOk ls) (hsub : ∀ l ∈ avail, l ∈ ls)
    (hav : PricesNodup avail) (h0 : l0 ∈ avail) (hle : amount ≤ l0.size) :
    SideOk (newOrderList DCtx.exact ls (deductLimit DCtx.exact l0.price amount avail)) := by
  have hsingle : deductLimit DCtx.exact l0.price amount avail = [⟨l0.price, amount⟩] := by
    have := deductLimit_single DCtx.exact amount avail l0 h0 (by simpa [PricesNodup] using hav)
    simpa using this
  rw [hsingle]
  apply sideOk_of_sizes (newOrderList_prices DCtx.exact ls _) ho
  rw [newOrderList_sizes ls _ ho.1]
  intro x hx
  obtain ⟨l, hl, rfl⟩ := List.mem_map.mp hx
  rw [taken_cons]
  simp only [taken, List.filter_nil, List.map_nil, List.sum_nil, add_zero]
  by_cases hp : l0.price = l.price
  · have : l0 = l := List.inj_on_of_nodup_map ho.1 (hsub l0 h0) hl hp
    subst this
    simp only [if_true]; linarith
  · simp only [hp, if_false]; linarith [ho.2 l hl]

end Demeter.Deribit
