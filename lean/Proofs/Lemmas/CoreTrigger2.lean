import Proofs.Lemmas.CoreTrigger
namespace Demeter.Core

/-- the parameter lists the code cannot cope with (it raises on the first bar) are excluded -/
def SpecOK : TrigSpec → Prop
  | .atTimes ss => ss ≠ []
  | .ranges rs => rs ≠ []
  | .periods δs _ _ => δs ≠ []
  | _ => True

theorem badDelta_false {δ : Int} (h : badDelta δ = false) : 0 < δ ∧ δ % 60 = 0 := by
  unfold badDelta at h
  simp only [Bool.or_eq_false_iff, bne_eq_false_iff_eq] at h
  have h2 := of_decide_eq_false h.2
  have h1 := h.1
  simp only [Gen.coreTrigDeltaMod, Gen.coreTrigDeltaLow] at h1 h2
  omega

theorem badDelta_of {δ : Int} (h : 0 < δ ∧ δ % 60 = 0) : badDelta δ = false := by
  unfold badDelta
  simp only [Bool.or_eq_false_iff, bne_eq_false_iff_eq]
  refine ⟨?_, decide_eq_false ?_⟩
  · simp only [Gen.coreTrigDeltaMod]; exact h.2
  · simp only [Gen.coreTrigDeltaLow]; omega

theorem WF_of_make {sp : TrigSpec} {k : TrigKind} (hm : sp.make = .ok k) (hok : SpecOK sp) : WF k := by
  cases sp with
  | base => cases hm; exact ⟨rfl, rfl⟩
  | atTime s => cases hm; exact ⟨rfl, rfl⟩
  | atTimes ss =>
    cases hm
    cases ss with
    | nil => exact absurd rfl hok
    | cons a l => exact ⟨rfl, rfl⟩
  | range s e => cases hm; exact ⟨rfl, rfl⟩
  | ranges rs =>
    cases hm
    cases rs with
    | nil => exact absurd rfl hok
    | cons a l => exact ⟨rfl, rfl⟩
  | period δ imm pend =>
    simp only [TrigSpec.make] at hm
    split at hm
    · cases hm
    · cases hm; exact ⟨rfl, rfl⟩
  | periods δs imm pend =>
    simp only [TrigSpec.make] at hm
    split at hm
    · cases hm
    · cases hm
      cases δs with
      | nil => exact absurd rfl hok
      | cons a l => exact ⟨rfl, rfl⟩

theorem forall₂_latInv_init (t0 pend : Int) : ∀ δs : List Int, (∀ δ ∈ δs, 0 < δ) →
    List.Forall₂ (LatInv (t0 + pend) t0) δs (δs.map fun d => t0 + d + pend)
  | [], _ => List.Forall₂.nil
  | δ :: δs, h =>
    List.Forall₂.cons (latInv_init (h δ (List.mem_cons_self ..)))
      (forall₂_latInv_init t0 pend δs (fun x hx => h x (List.mem_cons_of_mem _ hx)))

/-- one trigger through the bar loop fires on exactly the bars its specification denotes -/
theorem solo_eq_denotes {sp : TrigSpec} {k : TrigKind} (hm : sp.make = .ok k) (bars : List Int)
    (hp : bars.Pairwise (· < ·)) : soloFires bars k = bars.filter (denotes (bars.headD 0) sp) := by
  cases sp with
  | base =>
    cases hm
    rw [solo_stateless .base (fun _ => rfl) (fun _ _ h _ => by cases h) bars hp]
    rfl
  | atTime s =>
    cases hm
    rw [solo_stateless _ (fun _ => rfl) (out_sound_atTime _) bars hp]
    rfl
  | atTimes ss =>
    cases hm
    rw [solo_stateless _ (fun _ => rfl) (out_sound_atTimes _) bars hp]
    rfl
  | range s e =>
    cases hm
    rw [solo_stateless _ (fun _ => rfl) (out_sound_range _ _) bars hp]
    rfl
  | ranges rs =>
    cases hm
    rw [solo_stateless _ (fun _ => rfl) (out_sound_ranges _) bars hp]
    apply List.filter_congr
    intro t _
    simp only [whenT, denotes, List.any_map]
    rfl
  | period δ imm pend =>
    simp only [TrigSpec.make] at hm
    split at hm
    · cases hm
    · rename_i hb
      cases hm
      have hδ := (badDelta_false (by simpa using hb)).1
      cases bars with
      | nil => rfl
      | cons t0 rest =>
        have h0 : denotes t0 (.period δ imm pend) t0 = imm := by simp [denotes]
        simp only [soloFires, whenT, outOfDate, List.headD_cons, List.filter_cons, h0]
        rw [solo_period_rest δ imm pend t0 rest t0 _ hp (le_refl _) (latInv_init hδ)]
        cases imm <;> simp
  | periods δs imm pend =>
    simp only [TrigSpec.make] at hm
    split at hm
    · cases hm
    · rename_i hb
      cases hm
      have hpos : ∀ δ ∈ δs, 0 < δ := by
        intro δ hδ
        have : badDelta δ = false := by
          have := List.any_eq_false.mp (by simpa using hb) δ hδ
          simpa using this
        exact (badDelta_false this).1
      cases bars with
      | nil => rfl
      | cons t0 rest =>
        have h0 : denotes t0 (.periods δs imm pend) t0 = imm := by simp [denotes]
        simp only [soloFires, whenT, outOfDate, List.headD_cons, List.filter_cons, h0]
        rw [solo_periods_rest δs imm pend t0 rest t0 _ hp (le_refl _) (forall₂_latInv_init t0 pend δs hpos)]
        cases imm <;> simp

/-! installation -/

theorem installFrom_ids (n : Nat) : ∀ l : List (String × TrigKind),
    (installFrom n l).map (·.id) = (List.range' n l.length)
  | [] => rfl
  | (kw, k) :: rest => by
    simp only [installFrom, List.map_cons, List.length_cons, List.range'_succ]
    rw [installFrom_ids (n + 1) rest]

theorem install_nodup (l : List (String × TrigKind)) : ((install l).map (·.id)).Nodup := by
  rw [install, installFrom_ids]; exact List.nodup_range'

theorem installFrom_mem (n : Nat) : ∀ (l : List (String × TrigKind)) (t : Trig), t ∈ installFrom n l →
    ∃ p ∈ l, t.kw = p.1 ∧ t.k = p.2
  | [], _, h => by cases h
  | (kw, k) :: rest, t, h => by
    simp only [installFrom, List.mem_cons] at h
    rcases h with rfl | h
    · exact ⟨(kw, k), List.mem_cons_self .., rfl, rfl⟩
    · obtain ⟨p, hp, h1⟩ := installFrom_mem (n + 1) rest t h
      exact ⟨p, List.mem_cons_of_mem _ hp, h1⟩

theorem findTrig_installFrom (n : Nat) : ∀ (l : List (String × TrigKind)) (i : Nat) (h : i < l.length),
    findTrig (n + i) (installFrom n l) = some ⟨n + i, l[i].1, l[i].2⟩
  | [], i, h => by cases h
  | (kw, k) :: rest, 0, _ => by simp [findTrig, installFrom]
  | (kw, k) :: rest, i + 1, h => by
    have ih := findTrig_installFrom (n + 1) rest i (by simpa using h)
    have e : n + 1 + i = n + (i + 1) := by omega
    rw [e] at ih
    simp only [findTrig, installFrom, List.find?_cons] at ih ⊢
    have : (n == n + (i + 1)) = false := by simp
    simp only [this]
    simpa using ih

theorem findTrig_install (l : List (String × TrigKind)) (i : Nat) (h : i < l.length) :
    findTrig i (install l) = some ⟨i, l[i].1, l[i].2⟩ := by
  have := findTrig_installFrom 0 l i h
  simpa [install] using this

end Demeter.Core
