/-
  The quantities of one `_do_liquidate` call in closed form (exact context), the unfolding of the model's
  `doLiquidate` into them, and the arithmetic facts the C12 theorems need.
-/
import Proofs.Lemmas.AaveRisk
import Mathlib.Tactic.FieldSimp
namespace Demeter.AaveRisk
open Demeter

/-- close factor of a step -/
def stepHalf (p : Portfolio) : Bool := (healthFactor NumCtx.exact p).gtB Gen.arCloseFactorHfThreshold
def stepCf (p : Portfolio) : Rat := if stepHalf p then Gen.arDefaultCloseFactor else Gen.arMaxCloseFactor
def stepToLiq (p : Portfolio) (d : Debt) (cover : Rat) : Rat :=
  if cover > d.base * d.row.borIndex * stepCf p then d.base * d.row.borIndex * stepCf p else cover
def stepMaxColl (p : Portfolio) (c : Supply) (d : Debt) (cover : Rat) : Rat :=
  d.row.price * stepToLiq p d cover / c.row.price * (1 + c.row.bonus)
def stepCapped (p : Portfolio) (c : Supply) (d : Debt) (cover : Rat) : Bool :=
  decide (stepMaxColl p c d cover > c.base * c.row.liqIndex)
def stepCollUsed (p : Portfolio) (c : Supply) (d : Debt) (cover : Rat) : Rat :=
  if stepCapped p c d cover then c.base * c.row.liqIndex else stepMaxColl p c d cover
/-- the repayment that corresponds to seizing the whole balance -/
def stepScaled (c : Supply) (d : Debt) : Rat :=
  c.row.price * (c.base * c.row.liqIndex) / (d.row.price * (1 + c.row.bonus))
/-- `min(actual_debt_to_liquidate, scaled)` when capped -/
def stepRepaid (p : Portfolio) (c : Supply) (d : Debt) (cover : Rat) : Rat :=
  if stepCapped p c d cover then (if stepScaled c d < stepToLiq p d cover then stepScaled c d else stepToLiq p d cover)
  else stepToLiq p d cover
def stepCollBase (p : Portfolio) (c : Supply) (d : Debt) (cover : Rat) : Rat :=
  subBase NumCtx.exact c.base (stepCollUsed p c d cover / c.row.liqIndex)
def stepDebtBase (p : Portfolio) (c : Supply) (d : Debt) (cover : Rat) : Rat :=
  subBase NumCtx.exact d.base (stepRepaid p c d cover / d.row.borIndex)

theorem doLiquidate_exact_eq (p : Portfolio) (c : Supply) (d : Debt) (cover : Rat) :
    doLiquidate NumCtx.exact p c d cover =
      if c.row.lt = 0 ∨ c.coll = false then .rejected
      else if d.base * d.row.borIndex = 0 then .rejected
      else if c.row.price = 0 then .raised .arith p
      else if stepCapped p c d cover = true ∧ d.row.price * (1 + c.row.bonus) = 0 then .raised .arith p
      else if d.base * d.row.borIndex < stepRepaid p c d cover then .raised .demeter p
      else if c.row.liqIndex = 0 then .raised .arith p
      else if d.row.borIndex = 0 then
        .raised .arith { p with supplies := putSupplyBase p.supplies c.tok (stepCollBase p c d cover) }
      else .done { supplies := putSupplyBase p.supplies c.tok (stepCollBase p c d cover),
                   debts := putDebtBase p.debts d.tok (stepDebtBase p c d cover) }
            { collTok := c.tok, debtTok := d.tok, toCover := cover, collUsed := stepCollUsed p c d cover,
              debtRepaid := stepRepaid p c d cover, hfBefore := healthFactor NumCtx.exact p,
              hfAfter := healthFactor NumCtx.exact
                { supplies := putSupplyBase p.supplies c.tok (stepCollBase p c d cover),
                  debts := putDebtBase p.debts d.tok (stepDebtBase p c d cover) },
              collAfter := stepCollBase p c d cover * c.row.liqIndex,
              debtAfter := stepDebtBase p c d cover * d.row.borIndex,
              half := stepHalf p, capped := stepCapped p c d cover } := by
  rfl

theorem doLiquidate_done_inv {p : Portfolio} {c : Supply} {d : Debt} {cover : Rat} {p' : Portfolio} {a : LiqAction}
    (h : doLiquidate NumCtx.exact p c d cover = .done p' a) :
    c.row.lt ≠ 0 ∧ c.coll = true ∧ d.base * d.row.borIndex ≠ 0 ∧ c.row.price ≠ 0 ∧ c.row.liqIndex ≠ 0 ∧ d.row.borIndex ≠ 0
    ∧ stepRepaid p c d cover ≤ d.base * d.row.borIndex
    ∧ p' = { supplies := putSupplyBase p.supplies c.tok (stepCollBase p c d cover),
             debts := putDebtBase p.debts d.tok (stepDebtBase p c d cover) }
    ∧ a = { collTok := c.tok, debtTok := d.tok, toCover := cover, collUsed := stepCollUsed p c d cover,
            debtRepaid := stepRepaid p c d cover, hfBefore := healthFactor NumCtx.exact p,
            hfAfter := healthFactor NumCtx.exact p',
            collAfter := stepCollBase p c d cover * c.row.liqIndex,
            debtAfter := stepDebtBase p c d cover * d.row.borIndex,
            half := stepHalf p, capped := stepCapped p c d cover } := by
  rw [doLiquidate_exact_eq] at h
  split at h; · cases h
  split at h; · cases h
  split at h; · cases h
  split at h; · cases h
  split at h; · cases h
  split at h; · cases h
  split at h; · cases h
  rename_i h1 h2 h3 h4 h5 h6 h7
  simp only [StepOut.done.injEq] at h
  obtain ⟨hp, ha⟩ := h
  subst hp
  refine ⟨fun e => h1 (Or.inl e), ?_, h2, h3, h6, h7, not_lt.mp h5, rfl, ha.symm⟩
  cases hc : c.coll
  · exact absurd (Or.inr hc) h1
  · rfl

theorem stepCf_cases (p : Portfolio) : (stepHalf p = true ∧ stepCf p = 1 / 2) ∨ (stepHalf p = false ∧ stepCf p = 1) := by
  unfold stepCf
  cases h : stepHalf p
  · right; simp [Gen.arMaxCloseFactor]
  · left; simp [Gen.arDefaultCloseFactor]

theorem stepCf_bounds (p : Portfolio) : 0 < stepCf p ∧ stepCf p ≤ 1 := by
  rcases stepCf_cases p with ⟨_, h⟩ | ⟨_, h⟩ <;> rw [h] <;> norm_num

/-- the arithmetic of one step, for a well-formed collateral row and debt row -/
theorem step_facts (p : Portfolio) {c : Supply} {d : Debt} {cover : Rat}
    (hcb : 0 ≤ c.base) (hcr : c.row.WF) (hdb : 0 ≤ d.base) (hdr : d.row.WF) (hcover : 0 ≤ cover) :
    0 ≤ stepToLiq p d cover ∧ stepToLiq p d cover ≤ d.base * d.row.borIndex * stepCf p
    ∧ stepToLiq p d cover ≤ cover
    ∧ 0 ≤ stepCollUsed p c d cover ∧ stepCollUsed p c d cover ≤ c.base * c.row.liqIndex
    ∧ 0 ≤ stepRepaid p c d cover ∧ stepRepaid p c d cover ≤ stepToLiq p d cover
    ∧ stepCollUsed p c d cover * c.row.price = stepRepaid p c d cover * d.row.price * (1 + c.row.bonus) := by
  have hli := hcr.li_pos; have hpc := hcr.price_pos; have hb := hcr.bonus_nonneg
  have hbi := hdr.bi_pos; have hpd := hdr.price_pos
  obtain ⟨hcf0, hcf1⟩ := stepCf_bounds p
  have hm : 0 ≤ d.base * d.row.borIndex * stepCf p := by positivity
  have hbal : 0 ≤ c.base * c.row.liqIndex := by positivity
  have h1b : 0 < 1 + c.row.bonus := by linarith
  have ht : 0 ≤ stepToLiq p d cover ∧ stepToLiq p d cover ≤ d.base * d.row.borIndex * stepCf p
      ∧ stepToLiq p d cover ≤ cover := by
    unfold stepToLiq
    split
    · rename_i h; exact ⟨hm, le_refl _, le_of_lt h⟩
    · rename_i h; exact ⟨hcover, not_lt.mp h, le_refl _⟩
  obtain ⟨ht0, ht1, ht2⟩ := ht
  refine ⟨ht0, ht1, ht2, ?_⟩
  have hmc : 0 ≤ stepMaxColl p c d cover := by unfold stepMaxColl; positivity
  unfold stepCollUsed stepRepaid
  cases hcap : stepCapped p c d cover
  · -- not capped
    have hle : stepMaxColl p c d cover ≤ c.base * c.row.liqIndex := by
      unfold stepCapped at hcap
      simpa using hcap
    simp only [Bool.false_eq_true, if_false]
    refine ⟨hmc, hle, ht0, le_refl _, ?_⟩
    unfold stepMaxColl
    field_simp
  · -- capped by the balance: in exact arithmetic the scaled-down repayment is strictly below the uncapped one
    have hgt : stepMaxColl p c d cover > c.base * c.row.liqIndex := by
      unfold stepCapped at hcap
      simpa using hcap
    simp only [if_true]
    have hden : 0 < d.row.price * (1 + c.row.bonus) := by positivity
    have hlt : stepScaled c d < stepToLiq p d cover := by
      unfold stepScaled
      rw [div_lt_iff₀ hden]
      unfold stepMaxColl at hgt
      have : c.base * c.row.liqIndex < d.row.price * stepToLiq p d cover * (1 + c.row.bonus) / c.row.price := by
        calc c.base * c.row.liqIndex < d.row.price * stepToLiq p d cover / c.row.price * (1 + c.row.bonus) := hgt
          _ = d.row.price * stepToLiq p d cover * (1 + c.row.bonus) / c.row.price := by ring
      rw [lt_div_iff₀ hpc] at this
      nlinarith
    rw [if_pos hlt]
    refine ⟨hbal, le_refl _, by unfold stepScaled; positivity, le_of_lt hlt, ?_⟩
    unfold stepScaled
    field_simp

/-- in exact arithmetic a capped seizure always scales the repayment *down*: the `min` picks the scaled amount -/
theorem step_capped_repaid (p : Portfolio) {c : Supply} {d : Debt} {cover : Rat}
    (hcr : c.row.WF) (hdr : d.row.WF) (hcap : stepCapped p c d cover = true) :
    stepRepaid p c d cover = c.row.price * (c.base * c.row.liqIndex) / (d.row.price * (1 + c.row.bonus)) := by
  have hpc := hcr.price_pos; have hb := hcr.bonus_nonneg; have hpd := hdr.price_pos
  have hgt : stepMaxColl p c d cover > c.base * c.row.liqIndex := by
    unfold stepCapped at hcap
    simpa using hcap
  have hden : 0 < d.row.price * (1 + c.row.bonus) := by positivity
  have hlt : stepScaled c d < stepToLiq p d cover := by
    unfold stepScaled
    rw [div_lt_iff₀ hden]
    unfold stepMaxColl at hgt
    have : c.base * c.row.liqIndex < d.row.price * stepToLiq p d cover * (1 + c.row.bonus) / c.row.price := by
      calc c.base * c.row.liqIndex < d.row.price * stepToLiq p d cover / c.row.price * (1 + c.row.bonus) := hgt
        _ = d.row.price * stepToLiq p d cover * (1 + c.row.bonus) / c.row.price := by ring
    rw [lt_div_iff₀ hpc] at this
    nlinarith
  unfold stepRepaid
  rw [if_pos hcap, if_pos hlt]
  rfl

/-! ### `putSupplyBase` / `putDebtBase` (assignment of the new scaled balance, `del` when it is 0) -/

theorem sum_putSupplyBase (g : Supply → Rat) (hg : ∀ s : Supply, g { s with base := 0 } = 0) {ss : List Supply}
    (hn : (ss.map (·.tok)).Nodup) {c : Supply} (hc : c ∈ ss) (b : Rat) :
    ((putSupplyBase ss c.tok b).map g).sum = (ss.map g).sum - g c + g { c with base := b } := by
  unfold putSupplyBase
  split
  · rename_i hb
    subst hb
    rw [hg c]
    unfold delSupply
    rw [sum_eraseP Supply.tok g hn hc]; ring
  · unfold setSupplyBase
    exact sum_updFirst Supply.tok g _ hn hc

theorem sum_putDebtBase (g : Debt → Rat) (hg : ∀ d : Debt, g { d with base := 0 } = 0) {ds : List Debt}
    (hn : (ds.map (·.tok)).Nodup) {c : Debt} (hc : c ∈ ds) (b : Rat) :
    ((putDebtBase ds c.tok b).map g).sum = (ds.map g).sum - g c + g { c with base := b } := by
  unfold putDebtBase
  split
  · rename_i hb
    subst hb
    rw [hg c]
    unfold delDebt
    rw [sum_eraseP Debt.tok g hn hc]; ring
  · unfold setDebtBase
    exact sum_updFirst Debt.tok g _ hn hc

theorem mem_putSupplyBase {x : Supply} {ss : List Supply} {t : String} {b : Rat} (h : x ∈ putSupplyBase ss t b) :
    x ∈ ss ∨ ∃ s ∈ ss, s.tok = t ∧ x = { s with base := b } := by
  unfold putSupplyBase at h
  split at h
  · exact Or.inl (List.mem_of_mem_eraseP h)
  · rcases mem_updFirst _ _ h with h1 | ⟨s, hs, hq, rfl⟩
    · exact Or.inl h1
    · exact Or.inr ⟨s, hs, by simpa using hq, rfl⟩

theorem mem_putDebtBase {x : Debt} {ds : List Debt} {t : String} {b : Rat} (h : x ∈ putDebtBase ds t b) :
    x ∈ ds ∨ ∃ d ∈ ds, d.tok = t ∧ x = { d with base := b } := by
  unfold putDebtBase at h
  split at h
  · exact Or.inl (List.mem_of_mem_eraseP h)
  · rcases mem_updFirst _ _ h with h1 | ⟨s, hs, hq, rfl⟩
    · exact Or.inl h1
    · exact Or.inr ⟨s, hs, by simpa using hq, rfl⟩

theorem keys_putSupplyBase_sublist (ss : List Supply) (t : String) (b : Rat) :
    ((putSupplyBase ss t b).map (·.tok)).Sublist (ss.map (·.tok)) := by
  unfold putSupplyBase
  split
  · exact (List.eraseP_sublist).map _
  · unfold setSupplyBase
    rw [map_key_updFirst Supply.tok (fun s => { s with base := b }) (fun _ => rfl)]

theorem keys_putDebtBase_sublist (ds : List Debt) (t : String) (b : Rat) :
    ((putDebtBase ds t b).map (·.tok)).Sublist (ds.map (·.tok)) := by
  unfold putDebtBase
  split
  · exact (List.eraseP_sublist).map _
  · unfold setDebtBase
    rw [map_key_updFirst Debt.tok (fun s => { s with base := b }) (fun _ => rfl)]

theorem find_putSupplyBase_self {ss : List Supply} (hn : (ss.map (·.tok)).Nodup) {c : Supply} (hc : c ∈ ss) (b : Rat) :
    findSupply? (putSupplyBase ss c.tok b) c.tok = if b = 0 then none else some { c with base := b } := by
  unfold putSupplyBase findSupply?
  split
  · exact find_eraseP_self Supply.tok hn c.tok
  · exact find_updFirst_self Supply.tok (fun s => { s with base := b }) (fun _ => rfl) hn hc

theorem find_putSupplyBase_ne (ss : List Supply) {t u : String} (h : u ≠ t) (b : Rat) :
    findSupply? (putSupplyBase ss t b) u = findSupply? ss u := by
  unfold putSupplyBase findSupply?
  split
  · exact find_eraseP_ne Supply.tok t u h ss
  · exact find_updFirst_ne Supply.tok (fun s => { s with base := b }) (fun _ => rfl) t u h ss

theorem find_putDebtBase_self {ds : List Debt} (hn : (ds.map (·.tok)).Nodup) {c : Debt} (hc : c ∈ ds) (b : Rat) :
    findDebt? (putDebtBase ds c.tok b) c.tok = if b = 0 then none else some { c with base := b } := by
  unfold putDebtBase findDebt?
  split
  · exact find_eraseP_self Debt.tok hn c.tok
  · exact find_updFirst_self Debt.tok (fun s => { s with base := b }) (fun _ => rfl) hn hc

theorem find_putDebtBase_ne (ds : List Debt) {t u : String} (h : u ≠ t) (b : Rat) :
    findDebt? (putDebtBase ds t b) u = findDebt? ds u := by
  unfold putDebtBase findDebt?
  split
  · exact find_eraseP_ne Debt.tok t u h ds
  · exact find_updFirst_ne Debt.tok (fun s => { s with base := b }) (fun _ => rfl) t u h ds

/-- the new scaled balances of a step: what is left after the seizure / repayment, minus the snapped dust -/
theorem stepCollBase_eq (p : Portfolio) (c : Supply) (d : Debt) (cover : Rat) :
    stepCollBase p c d cover = c.base - stepCollUsed p c d cover / c.row.liqIndex
      - snapDust c.base (stepCollUsed p c d cover / c.row.liqIndex) := subBase_exact _ _

theorem stepDebtBase_eq (p : Portfolio) (c : Supply) (d : Debt) (cover : Rat) :
    stepDebtBase p c d cover = d.base - stepRepaid p c d cover / d.row.borIndex
      - snapDust d.base (stepRepaid p c d cover / d.row.borIndex) := subBase_exact _ _

end Demeter.AaveRisk
