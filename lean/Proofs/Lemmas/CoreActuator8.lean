import Proofs.Lemmas.CoreActuator7
namespace Demeter.Core

theorem recUpd_ms (ts : Int) (i : Nat) : ∀ (tags : List String) (st : St), (recUpd ts i tags st).2.ms = st.ms
  | [], _ => rfl
  | _ :: tags, st => by simp only [recUpd]; rw [recUpd_ms ts i tags]

theorem recUpd_gate (cfg : Cfg) (ts : Int) (i : Nat) : ∀ (tags : List String) (st : St), ∀ e ∈ (recUpd ts i tags st).1, OpGate cfg ts e
  | [], _, _, he => nomatch he
  | _ :: tags, st, e, he => by
    simp only [recUpd, List.mem_cons] at he
    rcases he with rfl | h'
    · trivial
    · exact recUpd_gate cfg ts i tags _ e h'

theorem runUpdFrom_gate (cfg : Cfg) (sc : Script) (ts : Int) (row : Nat) : ∀ (i : Nat) (ms : List MarketCfg) (st : St),
    (∀ e ∈ (runUpdFrom sc ts row i ms st).1, OpGate cfg ts e) ∧ (runUpdFrom sc ts row i ms st).2.ms = st.ms
  | _, [], _ => ⟨gate_nil, rfl⟩
  | i, _ :: rest, st => by
    obtain ⟨b1, b2⟩ := runUpdFrom_gate cfg sc ts row (i + 1) rest (recUpd ts i (sc.upd row i) st).2
    refine ⟨?_, by simp only [runUpdFrom]; rw [b2, recUpd_ms]⟩
    intro e he
    simp only [runUpdFrom, List.mem_cons, List.mem_append] at he
    rcases he with (rfl | h') | h'
    · trivial
    · exact recUpd_gate cfg ts i _ st e h'
    · exact b1 e h'

/-- operations issued from inside `notify` are gated by the same flags (nothing refreshes the markets between `after_bar` and the loop) -/
theorem runNotify_gate (cfg : Cfg) (sc : Script) (ts : Int) (row : Nat) : ∀ (fuel i : Nat) (st : St), OpenInv cfg ts st.ms →
    ∀ e ∈ (runNotify sc ts row fuel i st).1, OpGate cfg ts e
  | 0, _, _, _ => by intro e he; simp [runNotify] at he
  | fuel + 1, i, st, hinv => by
    unfold runNotify
    split
    · intro e he; cases he
    · rename_i a _
      obtain ⟨g0, i0⟩ := runOps_gate cfg ts .notify (sc.notify row a.tag) st hinv
      have ih := runNotify_gate cfg sc ts row fuel (i + 1) _ i0
      intro e he
      simp only [List.mem_cons, List.mem_append] at he
      rcases he with (rfl | h') | h'
      · trivial
      · exact g0 e h'
      · exact ih e h'

/-- every `is_open` flag shown in a bar's trace — by a refresh, by an operation's outcome, by an open callback — is the
    flag of the market's own time index at the bar's timestamp -/
theorem barTrace_gate (cfg : Cfg) (sc : Script) (row : Nat) (ts : Int) (st : St) (price : Option Int) :
    ∀ e ∈ (barParts cfg sc row ts st price).trace row ts, OpGate cfg ts e := by
  generalize hp : barParts cfg sc row ts st price = p
  have g1 := setAllFrom_gate cfg ts 1 0 cfg.markets List.drop_zero
  have hs1 : p.s1 = setAllFrom cfg ts 1 0 cfg.markets := by rw [← hp]; rfl
  have i1 : OpenInv cfg ts ({ st with ms := p.s1.2 } : St).ms := by rw [hs1]; exact g1.2
  have hb : p.b = runOps ts .before (sc.before row) { st with ms := p.s1.2 } := by rw [← hp]; rfl
  obtain ⟨gb, ib⟩ := runOps_gate cfg ts .before (sc.before row) _ i1
  have hf : p.f = runFires sc ts row p.tp.1 p.b.2 := by rw [← hp]; rfl
  obtain ⟨gf, if_⟩ := runFires_gate cfg sc ts row p.tp.1 p.b.2 (by rw [hb]; exact ib)
  have ho : p.o = runOpenFrom sc ts row 0 cfg.markets { p.f.2 with trigs := p.tp.2.1 } := by rw [← hp]; rfl
  obtain ⟨go, io⟩ := runOpenFrom_gate cfg sc ts row 0 cfg.markets { p.f.2 with trigs := p.tp.2.1 } List.drop_zero
    (by show OpenInv cfg ts p.f.2.ms; rw [hf]; exact if_)
  have hn : p.n = runOps ts .on (sc.on row) p.o.2 := by rw [← hp]; rfl
  obtain ⟨gn, in_⟩ := runOps_gate cfg ts .on (sc.on row) p.o.2 (by rw [ho]; exact io)
  have hs2 : p.s2 = setUpdatedFrom cfg ts 0 cfg.markets p.n.2.ms := by rw [← hp]; rfl
  obtain ⟨gs2, is2⟩ := setUpdatedFrom_gate cfg ts 0 cfg.markets p.n.2.ms List.drop_zero (by rw [hn]; exact in_)
  have hu : p.u = runUpdFrom sc ts row 0 cfg.markets { p.n.2 with ms := p.s2.2 } := by rw [← hp]; rfl
  obtain ⟨gu, iu⟩ := runUpdFrom_gate cfg sc ts row 0 cfg.markets { p.n.2 with ms := p.s2.2 }
  have ha : p.a = runOps ts .after (sc.after row) p.u.2 := by rw [← hp]; rfl
  obtain ⟨ga, ia⟩ := runOps_gate cfg ts .after (sc.after row) p.u.2 (by rw [hu, iu]; show OpenInv cfg ts p.s2.2; rw [hs2]; exact is2)
  have hnt : p.nt = runNotify sc ts row (p.a.2.cur.length + sc.fuel) 0 p.a.2 := by rw [← hp]; rfl
  have gnt := runNotify_gate cfg sc ts row (p.a.2.cur.length + sc.fuel) 0 p.a.2 (by rw [ha]; exact ia)
  intro e he
  simp only [BarParts.trace, List.mem_append, List.mem_cons] at he
  rcases he with ((((((((h' | rfl | h') | h') | h') | rfl | h') | h') | h') | rfl | h') | rfl | h')
  · rw [hs1] at h'; exact g1.1 e h'
  · trivial
  · rw [hb] at h'; exact gb e h'
  · rw [hf] at h'; exact gf e h'
  · rw [ho] at h'; exact go e h'
  · trivial
  · rw [hn] at h'; exact gn e h'
  · rw [hs2] at h'; exact gs2 e h'
  · rw [hu] at h'; exact gu e h'
  · trivial
  · rw [ha] at h'; exact ga e h'
  · trivial
  · rw [hnt] at h'; exact gnt e h'

theorem runBars_gate (cfg : Cfg) (sc : Script) : ∀ (bars : List Int) (row : Nat) (st : St),
    bars.Pairwise (· < ·) → (runBars cfg sc row bars st).2.2 = none →
    ∀ e ∈ (runBars cfg sc row bars st).1, ∀ t, e.ts = some t → OpGate cfg t e
  | [], _, _, _, _ => fun _ he => nomatch he
  | ts :: bars, row, st, hp, h => by
    obtain ⟨h1, h2, h3⟩ := runBars_cons_ok h
    obtain ⟨price, _, _, hstep⟩ := barStep_ok h1
    have ih := runBars_gate cfg sc bars (row + 1) _ (List.pairwise_cons.mp hp).2 h2
    rw [h3]
    rw [hstep] at ih ⊢
    simp only [] at ih ⊢
    intro e he t het
    rcases List.mem_append.mp he with h' | h'
    · have hts := ((barTrace_sorted cfg sc row ts st price).2 e h').1
      rw [hts] at het
      cases het
      exact barTrace_gate cfg sc row ts st price e h'
    · exact ih e h' t het

end Demeter.Core
