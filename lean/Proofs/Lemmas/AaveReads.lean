/-
  What every read of the Aave model does, for an arbitrary invariant: `ReadInv I` says the five cache-filling
  reads keep `I`; then every public read (`readView`) keeps `I`.  Instances: cache coherence (`Good`), the frame
  (positions, wallet, action log, `has_update`), the borrow side alone.
-/
import Proofs.Lemmas.AaveCoh
namespace Demeter.Aave
open Demeter M

variable {cx : ACtx} {env : Env}

/-! ### shapes: which fields a cache-filling read can change (no assumption on the state) -/

theorem suppliesValue_shape (s : St) : ∃ c, (suppliesValue cx env s).2 = { s with supAmtC := c } := by
  unfold suppliesValue
  split
  · split <;> exact ⟨_, rfl⟩
  · exact ⟨s.supAmtC, rfl⟩

theorem borrowsValue_shape (s : St) : ∃ c, (borrowsValue cx env s).2 = { s with borAmtC := c } := by
  unfold borrowsValue
  split
  · split <;> exact ⟨_, rfl⟩
  · exact ⟨s.borAmtC, rfl⟩

theorem collateralValue_shape (s : St) :
    ∃ c c', (collateralValue cx env s).2 = { s with supAmtC := c, collC := c' } := by
  unfold collateralValue
  split
  · split
    · exact ⟨s.supAmtC, s.collC, rfl⟩
    · obtain ⟨c, hc⟩ := suppliesValue_shape (cx := cx) (env := env) s
      split
      · rename_i e s1 heq
        rw [heq] at hc; simp only at hc
        exact ⟨c, s.collC, by rw [hc]⟩
      · rename_i vs s1 heq
        rw [heq] at hc; simp only at hc
        split <;> exact ⟨c, _, by rw [hc]⟩
  · exact ⟨s.supAmtC, s.collC, rfl⟩

section
variable {I : St → Prop}

theorem getSupply_inv (h1 : Inv I (suppliesValue cx env)) (k : String) : Inv I (getSupply cx env k) := by
  unfold Aave.getSupply
  repeat inv_step

theorem getBorrow_inv (h2 : Inv I (borrowsValue cx env)) (k : String) : Inv I (getBorrow cx env k) := by
  unfold Aave.getBorrow
  repeat inv_step

theorem fillSupLoop_inv (h1 : Inv I (suppliesValue cx env))
    (hset : ∀ s k v, I s → I { s with supC := s.supC.set k v }) : ∀ ks, Inv I (fillSupLoop cx env ks) := by
  intro ks
  induction ks with
  | nil => exact Inv.pure _
  | cons k ks ih =>
    unfold fillSupLoop
    refine Inv.bind (getSupply_inv h1 k) (fun v => Inv.bind (Inv.modify _ (fun s hs => hset s k v hs)) (fun _ => ih))

theorem fillBorLoop_inv (h2 : Inv I (borrowsValue cx env))
    (hset : ∀ s k v, I s → I { s with borC := s.borC.set k v }) : ∀ ks, Inv I (fillBorLoop cx env ks) := by
  intro ks
  induction ks with
  | nil => exact Inv.pure _
  | cons k ks ih =>
    unfold fillBorLoop
    refine Inv.bind (getBorrow_inv h2 k) (fun v => Inv.bind (Inv.modify _ (fun s hs => hset s k v hs)) (fun _ => ih))

end

theorem suppliesView_shape (s : St) :
    ∃ c c', (suppliesView cx env s).2 = { s with supAmtC := c, supC := c' } := by
  unfold suppliesView
  split
  · have hI : Inv (fun s' => ∃ c c', s' = { s with supAmtC := c, supC := c' }) (fillSupLoop cx env (keys s.supplies)) := by
      apply fillSupLoop_inv
      · intro s1 ⟨c, c', h⟩
        obtain ⟨c2, h2⟩ := suppliesValue_shape (cx := cx) (env := env) s1
        exact ⟨c2, c', by rw [h2, h]⟩
      · intro s1 k v ⟨c, c', h⟩
        exact ⟨c, _, by rw [h]⟩
    obtain ⟨c, c', h⟩ := hI s ⟨s.supAmtC, s.supC, rfl⟩
    split
    · rename_i e s1 heq
      rw [heq] at h
      dsimp only at h ⊢
      exact ⟨c, s.supC, by rw [h]⟩
    · rename_i s1 heq
      rw [heq] at h; exact ⟨c, c', h⟩
  · exact ⟨s.supAmtC, s.supC, rfl⟩

theorem borrowsView_shape (s : St) :
    ∃ c c', (borrowsView cx env s).2 = { s with borAmtC := c, borC := c' } := by
  unfold borrowsView
  split
  · have hI : Inv (fun s' => ∃ c c', s' = { s with borAmtC := c, borC := c' }) (fillBorLoop cx env (keys s.borrows)) := by
      apply fillBorLoop_inv
      · intro s1 ⟨c, c', h⟩
        obtain ⟨c2, h2⟩ := borrowsValue_shape (cx := cx) (env := env) s1
        exact ⟨c2, c', by rw [h2, h]⟩
      · intro s1 k v ⟨c, c', h⟩
        exact ⟨c, _, by rw [h]⟩
    obtain ⟨c, c', h⟩ := hI s ⟨s.borAmtC, s.borC, rfl⟩
    split
    · rename_i e s1 heq
      rw [heq] at h
      dsimp only at h ⊢
      exact ⟨c, s.borC, by rw [h]⟩
    · rename_i s1 heq
      rw [heq] at h; exact ⟨c, c', h⟩
  · exact ⟨s.borAmtC, s.borC, rfl⟩

/-! ### invariants of the reads -/

/-- the three value-dictionary reads keep `I` (enough for `health_factor`, `max_ltv`, …) -/
structure ReadInv3 (cx : ACtx) (env : Env) (I : St → Prop) : Prop where
  sv : Inv I (suppliesValue cx env)
  bv : Inv I (borrowsValue cx env)
  cv : Inv I (collateralValue cx env)

/-- all five cache-filling reads keep `I` -/
structure ReadInv (cx : ACtx) (env : Env) (I : St → Prop) : Prop extends ReadInv3 cx env I where
  su : Inv I (suppliesView cx env)
  bo : Inv I (borrowsView cx env)

section
variable {I : St → Prop}

theorem ReadInv3.healthFactor (h : ReadInv3 cx env I) : Inv I (healthFactor cx env) := by
  have h1 := h.sv; have h2 := h.bv; have h3 := h.cv
  unfold Aave.healthFactor
  repeat inv_step

theorem ReadInv3.maxLtv (h : ReadInv3 cx env I) : Inv I (maxLtv cx env) := by
  have h3 := h.cv
  unfold Aave.maxLtv
  repeat inv_step

theorem ReadInv3.getSupply (h : ReadInv3 cx env I) (k : String) : Inv I (getSupply cx env k) :=
  getSupply_inv h.sv k

theorem ReadInv3.getBorrow (h : ReadInv3 cx env I) (k : String) : Inv I (getBorrow cx env k) :=
  getBorrow_inv h.bv k

theorem ReadInv3.maxBorrowAmount (h : ReadInv3 cx env I) (k : String) : Inv I (maxBorrowAmount cx env k) := by
  have h2 := h.bv; have h3 := h.cv
  unfold Aave.maxBorrowAmount
  repeat inv_step

theorem ReadInv.supplyApy (h : ReadInv cx env I) : Inv I (supplyApy cx env) := by
  have h1 := h.sv; have h4 := h.su
  unfold Aave.supplyApy
  repeat inv_step

theorem ReadInv.borrowApy (h : ReadInv cx env I) : Inv I (borrowApy cx env) := by
  have h2 := h.bv
  unfold Aave.borrowApy
  repeat inv_step

theorem ReadInv.ltvView (h : ReadInv cx env I) : Inv I (ltvView cx env) := by
  have h1 := h.sv; have h2 := h.bv
  unfold Aave.ltvView totalSupplyValue totalBorrowsValue
  repeat inv_step

theorem mapM'_inv {α β : Type} (f : α → β) {m : M α} (h : Inv I m) : Inv I (mapM' f m) := by
  intro s hs
  have := h s hs
  unfold mapM'
  split
  · rename_i a s' heq; rw [heq] at this; exact this
  · rename_i e s' heq; rw [heq] at this; exact this

/-- every public read keeps every invariant the five cache-filling reads keep -/
theorem ReadInv.readView (h : ReadInv cx env I) (v : View) : Inv I (readView cx env v) := by
  have h1 := h.sv; have h2 := h.bv; have h3 := h.cv; have h4 := h.su; have h5 := h.bo
  have h6 := h.supplyApy; have h7 := h.borrowApy; have h8 := h.ltvView
  have h9 := h.toReadInv3.healthFactor; have h10 := h.toReadInv3.maxLtv
  cases v <;> unfold Aave.readView <;> apply mapM'_inv
  case suppliesValue => exact h1
  case totalSupplyValue => unfold totalSupplyValue; repeat inv_step
  case collateralValue => exact h3
  case totalCollateralValue => unfold totalCollateralValue; repeat inv_step
  case borrowsValue => exact h2
  case totalBorrowsValue => unfold totalBorrowsValue; repeat inv_step
  case supplies => exact h4
  case borrows => exact h5
  case liquidationThreshold => unfold liquidationThreshold; repeat inv_step
  case maxLtv => exact h10
  case ltv => exact h8
  case healthFactor => exact h9
  case supplyApy => exact h6
  case borrowApy => exact h7
  case totalApy => unfold totalApy totalSupplyValue totalBorrowsValue; repeat inv_step
  case marketBalance =>
    unfold marketBalance totalSupplyValue totalBorrowsValue totalCollateralValue liquidationThreshold
    repeat inv_step
  case getSupply k => exact h.toReadInv3.getSupply k
  case getBorrow k => exact h.toReadInv3.getBorrow k
  case maxBorrowAmount k => exact h.toReadInv3.maxBorrowAmount k

end

/-! ### instance: any predicate that does not look at the caches a read may fill -/

theorem ReadInv3.ofIgnoring {I : St → Prop}
    (hsa : ∀ s c, I s → I { s with supAmtC := c }) (hba : ∀ s c, I s → I { s with borAmtC := c })
    (hco : ∀ s c, I s → I { s with collC := c }) : ReadInv3 cx env I where
  sv := fun s hs => by obtain ⟨c, h⟩ := suppliesValue_shape (cx := cx) (env := env) s; rw [h]; exact hsa s c hs
  bv := fun s hs => by obtain ⟨c, h⟩ := borrowsValue_shape (cx := cx) (env := env) s; rw [h]; exact hba s c hs
  cv := fun s hs => by
    obtain ⟨c, c', h⟩ := collateralValue_shape (cx := cx) (env := env) s
    rw [h]; exact hco _ c' (hsa s c hs)

theorem ReadInv.ofIgnoring {I : St → Prop}
    (hsa : ∀ s c, I s → I { s with supAmtC := c }) (hba : ∀ s c, I s → I { s with borAmtC := c })
    (hco : ∀ s c, I s → I { s with collC := c }) (hsu : ∀ s c, I s → I { s with supC := c })
    (hbo : ∀ s c, I s → I { s with borC := c }) : ReadInv cx env I where
  toReadInv3 := ReadInv3.ofIgnoring hsa hba hco
  su := fun s hs => by
    obtain ⟨c, c', h⟩ := suppliesView_shape (cx := cx) (env := env) s
    rw [h]; exact hsu _ c' (hsa s c hs)
  bo := fun s hs => by
    obtain ⟨c, c', h⟩ := borrowsView_shape (cx := cx) (env := env) s
    rw [h]; exact hbo _ c' (hba s c hs)

/-- what no read changes -/
structure Frame where
  supplies : AList String SupplyInfo
  borrows : AList String BorrowInfo
  wallet : Wallet
  actions : List Action
  hasUpdate : Bool

def St.frame (s : St) : Frame := ⟨s.supplies, s.borrows, s.wallet, s.actions, s.hasUpdate⟩

theorem readInv_frame (x : Frame) : ReadInv cx env (fun s => s.frame = x) :=
  ReadInv.ofIgnoring (fun _ _ h => h) (fun _ _ h => h) (fun _ _ h => h) (fun _ _ h => h) (fun _ _ h => h)

/-! ### instance: cache coherence -/

theorem GoodS.withSA {s : St} (g : GoodS cx env s) {c : Cache Rat} (h : SAStep cx env s c) :
    GoodS cx env { s with supAmtC := c } :=
  ⟨g.nd, g.cv, h.coh g.sa, g.co, g.su⟩

theorem GoodB.withBA {s : St} (g : GoodB cx env s) {c : Cache Rat} (h : BAStep cx env s c) :
    GoodB cx env { s with borAmtC := c } :=
  ⟨g.nd, g.cv, h.coh g.ba, g.bo⟩

theorem readInv_good : ReadInv cx env (Good cx env) where
  sv := fun s ⟨gs, gb⟩ => by
    obtain ⟨vs, hvs, hrun⟩ := suppliesValue_run gs.nd gs.cv gs.sa
    rw [hrun]; dsimp only
    exact ⟨gs.withSA (Or.inr ⟨vs, hvs, rfl⟩), ⟨gb.nd, gb.cv, gb.ba, gb.bo⟩⟩
  bv := fun s ⟨gs, gb⟩ => by
    obtain ⟨vs, hvs, hrun⟩ := borrowsValue_run gb.nd gb.cv gb.ba
    rw [hrun]; dsimp only
    exact ⟨⟨gs.nd, gs.cv, gs.sa, gs.co, gs.su⟩, gb.withBA (Or.inr ⟨vs, hvs, rfl⟩)⟩
  cv := fun s ⟨gs, gb⟩ => by
    obtain ⟨cs, c', hcs, hc', hrun⟩ := collateralValue_run gs.nd gs.cv gs.sa gs.co
    rw [hrun]; dsimp only
    exact ⟨⟨gs.nd, gs.cv, hc'.coh gs.sa, CohC.of hcs, gs.su⟩, ⟨gb.nd, gb.cv, gb.ba, gb.bo⟩⟩
  su := fun s ⟨gs, gb⟩ => by
    obtain ⟨svs, c', hsvs, hc', hrun⟩ := suppliesView_run gs.nd gs.cv gs.sa gs.su
    rw [hrun]; dsimp only
    exact ⟨⟨gs.nd, gs.cv, hc'.coh gs.sa, gs.co, CohC.of hsvs⟩, ⟨gb.nd, gb.cv, gb.ba, gb.bo⟩⟩
  bo := fun s ⟨gs, gb⟩ => by
    obtain ⟨bvs, c', hbvs, hc', hrun⟩ := borrowsView_run gb.nd gb.cv gb.ba gb.bo
    rw [hrun]; dsimp only
    exact ⟨⟨gs.nd, gs.cv, gs.sa, gs.co, gs.su⟩, ⟨gb.nd, gb.cv, hc'.coh gb.ba, CohC.of hbvs⟩⟩

/-- the borrow side stays coherent under the three value reads whatever the supply side looks like
    (used for the trial deduction of `withdraw`, during which the supplies cache is stale) -/
theorem readInv3_goodB : ReadInv3 cx env (GoodB cx env) where
  sv := fun s gb => by
    obtain ⟨c, h⟩ := suppliesValue_shape (cx := cx) (env := env) s
    rw [h]; exact ⟨gb.nd, gb.cv, gb.ba, gb.bo⟩
  bv := fun s gb => by
    obtain ⟨vs, hvs, hrun⟩ := borrowsValue_run gb.nd gb.cv gb.ba
    rw [hrun]; dsimp only
    exact gb.withBA (Or.inr ⟨vs, hvs, rfl⟩)
  cv := fun s gb => by
    obtain ⟨c, c', h⟩ := collateralValue_shape (cx := cx) (env := env) s
    rw [h]; exact ⟨gb.nd, gb.cv, gb.ba, gb.bo⟩

end Demeter.Aave
