/-
  Error propagation through the price ⇄ tick helpers (Demeter/TickPrice.lean) for an arithmetic context whose every
  operation has relative error ≤ ε, stated on rationals only:

     `RelLU ε i j a b`  :=  a·(1−ε)^i ≤ b ≤ a·(1+ε)^j          (b is a within i roundings down / j roundings up)

  plus `truncInt` on non-negative rationals and a version of the floor lemma of Proofs/C06.lean that also covers
  the last tick.
-/
import Proofs.C06.Full
import Demeter.TickPrice
import Mathlib.Tactic.Linarith
import Mathlib.Tactic.Positivity
import Mathlib.Tactic.Ring
import Mathlib.Tactic.NormNum
import Mathlib.Tactic.FieldSimp
import Mathlib.Tactic.GCongr
import Mathlib.Algebra.Order.Field.Rat
import Mathlib.Data.Rat.Cast.Order
namespace Demeter.TickInv
open Demeter Gen
set_option linter.unusedSectionVars false

/-- what the ε-robust theorems assume about the arithmetic (`ε = 0`: exact arithmetic; CPython: `ε = 5·10⁻³⁵`,
    for `sq` — two roundings — `(1±ε)²`) -/
structure Approx (tn : TickNum) (ε : Rat) : Prop where
  eps_nonneg : 0 ≤ ε
  eps_small : ε ≤ 1 / 1000000000
  /-- every Decimal `+ − × ÷` result is rounded with relative error ≤ ε -/
  rnd : ∀ x : Rat, 0 ≤ x → x * (1 - ε) ≤ tn.cx.rnd x ∧ tn.cx.rnd x ≤ x * (1 + ε)
  /-- `x ** 2` -/
  sq : ∀ x : Rat, x * x * (1 - ε) ^ 2 ≤ tn.sq x ∧ tn.sq x ≤ x * x * (1 + ε) ^ 2
  /-- `Decimal.sqrt` -/
  sqrt : ∀ y : Rat, 0 ≤ y → 0 ≤ tn.cx.dsqrt y ∧
    y * (1 - ε) ^ 2 ≤ tn.cx.dsqrt y ^ 2 ∧ tn.cx.dsqrt y ^ 2 ≤ y * (1 + ε) ^ 2
  /-- `Decimal(10 ** e)` is positive -/
  fac_pos : ∀ e : Int, 0 < tn.fac e

/-- exact arithmetic: what `NumCtx.exact` would be with an exact square root on perfect squares -/
structure Exact (tn : TickNum) : Prop where
  rnd : ∀ x : Rat, tn.cx.rnd x = x
  sq : ∀ x : Rat, tn.sq x = x * x
  sqrt : ∀ y : Rat, 0 ≤ y → tn.cx.dsqrt (y * y) = y
  fac_pos : ∀ e : Int, 0 < tn.fac e

/-- 1.0001 -/
def rho : Rat := 10001 / 10000

theorem rho_pos : 0 < rho := by unfold rho; norm_num
theorem one_lt_rho : 1 < rho := by unfold rho; norm_num

/-- what is assumed of `math.floor(math.log(y, SQRT_1p0001))`: it is the floor of the logarithm to base `√1.0001` of
    `y` perturbed by a relative error of at most `δ` — on squares: `1.0001^e ≤ (y(1+δ))²` and `(y(1−δ))² < 1.0001^(e+1)`. -/
def LgSound (tn : TickNum) (δ : Rat) : Prop :=
  ∀ y : Rat, 0 < y → rho ^ (tn.lg y) ≤ (y * (1 + δ)) ^ 2 ∧ (y * (1 - δ)) ^ 2 < rho ^ (tn.lg y + 1)

def RelLU (ε : Rat) (i j : Nat) (a b : Rat) : Prop := a * (1 - ε) ^ i ≤ b ∧ b ≤ a * (1 + ε) ^ j

section rel
variable {ε : Rat} (h0 : 0 ≤ ε) (h1 : ε ≤ 1 / 1000000000)
include h0 h1

theorem one_sub_pos : 0 < 1 - ε := by linarith
theorem one_add_pos : 0 < 1 + ε := by linarith

theorem rel_pos {i j : Nat} {a b : Rat} (ha : 0 < a) (h : RelLU ε i j a b) : 0 < b := by
  have := one_sub_pos h0 h1
  exact lt_of_lt_of_le (by positivity) h.1

theorem rel_refl (a : Rat) : RelLU ε 0 0 a a := by simp [RelLU]

theorem rel_weaken {i j i' j' : Nat} {a b : Rat} (ha : 0 ≤ a) (hi : i ≤ i') (hj : j ≤ j')
    (h : RelLU ε i j a b) : RelLU ε i' j' a b := by
  have hs := one_sub_pos h0 h1
  constructor
  · refine le_trans ?_ h.1
    apply mul_le_mul_of_nonneg_left _ ha
    exact pow_le_pow_of_le_one (le_of_lt hs) (by linarith) hi
  · refine le_trans h.2 ?_
    apply mul_le_mul_of_nonneg_left _ ha
    exact pow_le_pow_right₀ (by linarith) hj

theorem rel_step {i j : Nat} {a b c : Rat} (_ha : 0 ≤ a) (h : RelLU ε i j a b)
    (hc : b * (1 - ε) ≤ c ∧ c ≤ b * (1 + ε)) : RelLU ε (i + 1) (j + 1) a c := by
  have hs := one_sub_pos h0 h1
  constructor
  · calc a * (1 - ε) ^ (i + 1) = a * (1 - ε) ^ i * (1 - ε) := by ring
      _ ≤ b * (1 - ε) := mul_le_mul_of_nonneg_right h.1 (le_of_lt hs)
      _ ≤ c := hc.1
  · calc c ≤ b * (1 + ε) := hc.2
      _ ≤ a * (1 + ε) ^ j * (1 + ε) := mul_le_mul_of_nonneg_right h.2 (by linarith)
      _ = a * (1 + ε) ^ (j + 1) := by ring

theorem rel_mul_const {i j : Nat} {a b : Rat} (F : Rat) (hF : 0 ≤ F) (h : RelLU ε i j a b) :
    RelLU ε i j (a * F) (b * F) := by
  constructor
  · calc a * F * (1 - ε) ^ i = a * (1 - ε) ^ i * F := by ring
      _ ≤ b * F := mul_le_mul_of_nonneg_right h.1 hF
  · calc b * F ≤ a * (1 + ε) ^ j * F := mul_le_mul_of_nonneg_right h.2 hF
      _ = a * F * (1 + ε) ^ j := by ring

theorem rel_div_const {i j : Nat} {a b : Rat} (F : Rat) (hF : 0 < F) (h : RelLU ε i j a b) :
    RelLU ε i j (a / F) (b / F) := by
  have := rel_mul_const h0 h1 F⁻¹ (le_of_lt (inv_pos.2 hF)) h
  simpa [div_eq_mul_inv] using this

/-- `1/(1−ε) ≤ (1+ε)²` and `1/(1+ε) ≥ 1−ε` -/
theorem rel_inv {i j : Nat} {a b : Rat} (ha : 0 < a) (h : RelLU ε i j a b) :
    RelLU ε j (2 * i) (1 / a) (1 / b) := by
  have hs := one_sub_pos h0 h1
  have hp := one_add_pos h0 h1
  have hb := rel_pos h0 h1 ha h
  have k1 : (1 - ε) * (1 + ε) ≤ 1 := by nlinarith
  have k2 : 1 ≤ (1 - ε) * (1 + ε) ^ 2 := by nlinarith [mul_nonneg h0 h0, mul_nonneg (mul_nonneg h0 h0) h0]
  constructor
  · -- 1/a · (1−ε)^j ≤ 1/b  ⟸  b·(1−ε)^j ≤ a·(1+ε)^j·(1−ε)^j ≤ a
    rw [div_mul_eq_mul_div, one_mul, div_le_div_iff₀ ha hb, one_mul]
    calc (1 - ε) ^ j * b ≤ (1 - ε) ^ j * (a * (1 + ε) ^ j) := mul_le_mul_of_nonneg_left h.2 (by positivity)
      _ = a * ((1 - ε) * (1 + ε)) ^ j := by rw [mul_pow]; ring
      _ ≤ a * 1 := mul_le_mul_of_nonneg_left (pow_le_one₀ (by positivity) k1) (le_of_lt ha)
      _ = a := mul_one a
  · rw [div_mul_eq_mul_div, one_mul, div_le_div_iff₀ hb ha, one_mul]
    calc a = a * 1 := (mul_one a).symm
      _ ≤ a * ((1 - ε) * (1 + ε) ^ 2) ^ i :=
          mul_le_mul_of_nonneg_left (one_le_pow₀ k2) (le_of_lt ha)
      _ = (1 + ε) ^ (2 * i) * (a * (1 - ε) ^ i) := by rw [mul_pow, ← pow_mul]; ring
      _ ≤ (1 + ε) ^ (2 * i) * b := mul_le_mul_of_nonneg_left h.1 (by positivity)

/-- squares: from `RelLU i j (A²) (y²)`-like bounds on a square to crude bounds on the root -/
theorem rel_sqrt {i j : Nat} {A y : Rat} (hA : 0 < A) (hy : 0 ≤ y)
    (h : RelLU ε i j (A * A) (y ^ 2)) : RelLU ε i j A y := by
  have hs := one_sub_pos h0 h1
  have hp := one_add_pos h0 h1
  constructor
  · -- (A(1−ε)^i)² = A²(1−ε)^(2i) ≤ A²(1−ε)^i ≤ y²
    have hle : (A * (1 - ε) ^ i) ^ 2 ≤ y ^ 2 := by
      calc (A * (1 - ε) ^ i) ^ 2 = A * A * ((1 - ε) ^ i * (1 - ε) ^ i) := by ring
        _ ≤ A * A * ((1 - ε) ^ i * 1) := by
            apply mul_le_mul_of_nonneg_left _ (by positivity)
            exact mul_le_mul_of_nonneg_left (pow_le_one₀ (le_of_lt hs) (by linarith)) (by positivity)
        _ = A * A * (1 - ε) ^ i := by ring
        _ ≤ y ^ 2 := h.1
    exact (pow_le_pow_iff_left₀ (mul_nonneg (le_of_lt hA) (pow_nonneg (le_of_lt hs) _)) hy two_ne_zero).1 hle
  · have hle : y ^ 2 ≤ (A * (1 + ε) ^ j) ^ 2 := by
      calc y ^ 2 ≤ A * A * (1 + ε) ^ j := h.2
        _ = A * A * ((1 + ε) ^ j * 1) := by ring
        _ ≤ A * A * ((1 + ε) ^ j * (1 + ε) ^ j) := by
            apply mul_le_mul_of_nonneg_left _ (by positivity)
            exact mul_le_mul_of_nonneg_left (one_le_pow₀ (by linarith)) (by positivity)
        _ = (A * (1 + ε) ^ j) ^ 2 := by ring
    exact (pow_le_pow_iff_left₀ hy (mul_nonneg (le_of_lt hA) (pow_nonneg (le_of_lt hp) _)) two_ne_zero).1 hle

end rel

/-! ### `int(x)` on a non-negative Decimal -/

theorem truncInt_bounds (y : Rat) (hy : 0 ≤ y) :
    ((truncInt y : Int) : Rat) ≤ y ∧ y < ((truncInt y : Int) : Rat) + 1 ∧ 0 ≤ truncInt y := by
  have hn : 0 ≤ y.num := Rat.num_nonneg.2 hy
  have hd : (0 : Int) < y.den := by exact_mod_cast y.den_pos
  have e : truncInt y = y.num / (y.den : Int) := by
    unfold truncInt
    exact Int.tdiv_eq_ediv_of_nonneg hn
  have hdq : (0 : Rat) < (y.den : Rat) := by exact_mod_cast y.den_pos
  have hy' : (y.num : Rat) / (y.den : Rat) = y := Rat.num_div_den y
  have h1 : y.num / (y.den : Int) * (y.den : Int) ≤ y.num := Int.ediv_mul_le _ (ne_of_gt hd)
  have h2 : y.num < (y.num / (y.den : Int) + 1) * (y.den : Int) := Int.lt_ediv_add_one_mul_self _ hd
  rw [e]
  refine ⟨?_, ?_, Int.ediv_nonneg hn (le_of_lt hd)⟩
  · have : ((y.num / (y.den : Int) : Int) : Rat) ≤ (y.num : Rat) / (y.den : Rat) := by
      rw [le_div_iff₀ hdq]; exact_mod_cast h1
    rwa [hy'] at this
  · have : (y.num : Rat) / (y.den : Rat) < ((y.num / (y.den : Int) : Int) : Rat) + 1 := by
      rw [div_lt_iff₀ hdq]; exact_mod_cast h2
    rwa [hy'] at this

/-! ### the floor lemma including the last tick -/

theorem tickOfSqrt_floor (fuel : Nat) (est : Int) (x : Nat) (ts : Int)
    (h1 : minTick ≤ ts) (h2 : ts ≤ maxTick) (h3 : sqrtAt ts ≤ x) (h4 : ts < maxTick → x < sqrtAt (ts + 1))
    (hf : (clampTick est - ts).natAbs ≤ fuel) : tickOfSqrt fuel est x = ts := by
  by_cases hlt : ts < maxTick
  · exact C06_floor fuel est x ts h1 hlt h3 (h4 hlt) hf
  · have hts : ts = maxTick := by omega
    subst hts
    have hm := C06_strict_mono
    have hc1 : minTick ≤ clampTick est := by
      unfold clampTick; split
      · omega
      · split <;> omega
    have hc2 : clampTick est ≤ maxTick := by
      unfold clampTick; split
      · omega
      · split <;> omega
    -- going down never fires: sqrtAt t ≤ sqrtAt maxTick ≤ x
    have hdown : ∀ (f : Nat) (t : Int), minTick ≤ t → t ≤ maxTick → tickCorrectDown f t x = t := by
      intro f
      induction f with
      | zero => intro t _ _; rfl
      | succ f _ =>
        intro t ht1 ht2
        have : sqrtAt t ≤ x := Nat.le_trans (mono_le' hm t maxTick ht1 ht2 (Int.le_refl _)) h3
        simp only [tickCorrectDown]
        rw [if_neg (by omega)]
    have hup : ∀ (f : Nat) (t : Int), minTick ≤ t → t ≤ maxTick → maxTick - t ≤ f → tickCorrectUp f t x = maxTick := by
      intro f
      induction f with
      | zero =>
        intro t _ a b
        have : t = maxTick := by omega
        simp [tickCorrectUp, this]
      | succ f ih =>
        intro t ht1 ht2 hf
        simp only [tickCorrectUp]
        by_cases heq : t = maxTick
        · subst heq; rw [if_neg (by omega)]
        · have : sqrtAt (t + 1) ≤ x :=
            Nat.le_trans (mono_le' hm (t + 1) maxTick (by omega) (by omega) (Int.le_refl _)) h3
          rw [if_pos ⟨by omega, this⟩]
          exact ih (t + 1) (by omega) (by omega) (by omega)
    unfold tickOfSqrt
    simp only []
    rw [hdown fuel _ hc1 hc2]
    exact hup fuel _ hc1 hc2 (by omega)

end Demeter.TickInv
