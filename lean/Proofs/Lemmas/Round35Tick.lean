/-
  Round35 — part 10: discharging the `Approx` hypothesis of the ε-robust tick theorems (Proofs/Lemmas/TickInv.lean)
  with CPython's own unit roundoff `ε = EPS35 = 5·10⁻³⁵`.

  `pyGTn` is `TickNum.py` with every component guarded by the magnitude range:
     * `cx  = NumCtx.pyG`                (= `NumCtx.py` on `InRange`)
     * `sq  = dpowNat 35 · 2`            when numerator/denominator of `x²` are below `10^45000`, else exact `x²`
     * `fac = facPy`                     for `e ≥ 0` (exact `10^e`); for `e < 0` the exact `10^e` instead of the libm oracle
     * `lg  = lgPy`
  `pyGTn_approx : Approx pyGTn EPS35` — so `C06_inverse_x96 pyGTn EPS35 pyGTn_approx …` etc. hold for the arithmetic that
  the driver runs, on every input whose intermediates stay below 45 000 digits (and with `10^e` exact for `e < 0`).
-/
import Proofs.Lemmas.Round35Ctx
import Proofs.Lemmas.Round35Pow
import Proofs.Lemmas.TickInv
namespace Demeter.Numerics
open Demeter Demeter.TickInv
set_option exponentiation.threshold 200000

/-- decidable "small" guard for `x²` -/
def SmallSq (x : ℚ) : Prop := (x * x).num.natAbs < 10 ^ 45000 ∧ (x * x).den < 10 ^ 45000

instance (x : ℚ) : Decidable (SmallSq x) := by unfold SmallSq; infer_instance

/-- `TickNum.py`, guarded by the magnitude range -/
def pyGTn : TickNum :=
  { cx := NumCtx.pyG
    sq := fun x => if SmallSq x then TickNum.py.sq x else x * x
    fac := fun e => if e ≥ 0 then TickNum.py.fac e else (10:ℚ) ^ e
    lg := TickNum.py.lg }

theorem pyGTn_sq_eq {x : ℚ} (h : SmallSq x) : pyGTn.sq x = TickNum.py.sq x := if_pos h

theorem pyGTn_sq_eq' {x : ℚ} (h : ¬ SmallSq x) : pyGTn.sq x = x * x := if_neg h

theorem pyGTn_fac_eq {e : ℤ} (h : 0 ≤ e) : pyGTn.fac e = TickNum.py.fac e := by
  show (if e ≥ 0 then TickNum.py.fac e else (10:ℚ) ^ e) = _
  rw [if_pos h]

/-- **the concrete 35-digit arithmetic satisfies `Approx` with `ε = 5·10⁻³⁵`** -/
theorem pyGTn_approx : Approx pyGTn EPS35 :=
  { eps_nonneg := le_of_lt EPS35_pos
    eps_small := EPS35_small
    rnd := fun x hx => by
      show x * (1 - EPS35) ≤ (if InRange x then round35 x else x) ∧ (if InRange x then round35 x else x) ≤ x * (1 + EPS35)
      have hε := EPS35_pos
      split_ifs with h
      · exact round35_bounds hx h
      · constructor <;> nlinarith
    sq := fun x => by
      by_cases h : SmallSq x
      · rw [pyGTn_sq_eq h]
        exact dpowNat35_two_bounds x h.1 h.2
      · rw [pyGTn_sq_eq' h]
        clear h
        have h0 : 0 ≤ x * x := mul_self_nonneg x
        have hε := EPS35_pos
        have hε1 := EPS35_small
        have a : (1 - EPS35) ^ 2 ≤ 1 := by nlinarith
        have b : 1 ≤ (1 + EPS35) ^ 2 := by nlinarith
        constructor <;> nlinarith
    sqrt := fun y hy => by
      show 0 ≤ (if InRange y then dsqrt35 y else sqrtFallback y) ∧
        y * (1 - EPS35) ^ 2 ≤ (if InRange y then dsqrt35 y else sqrtFallback y) ^ 2 ∧
        (if InRange y then dsqrt35 y else sqrtFallback y) ^ 2 ≤ y * (1 + EPS35) ^ 2
      split_ifs with h
      · exact dsqrt35_spec hy h
      · have : y ≠ 0 := fun h0 => h (h0 ▸ InRange_zero)
        exact sqrtFallback_spec (lt_of_le_of_ne hy (Ne.symm this))
    fac_pos := fun e => by
      show (0:ℚ) < (if e ≥ 0 then facPy e else (10:ℚ) ^ e)
      split_ifs with h
      · unfold facPy; rw [if_pos h]
        exact_mod_cast Nat.pow_pos (by decide)
      · exact zpow_pos (by norm_num) e }

end Demeter.Numerics
