/-
  Bookkeeping along a run of the general model (`runG`), whether it ends normally or in an exception: what is in `_action_list`,
  `_currents.actions` and `_account_status_list`, and what has been delivered to `notify`, in terms of the calls made so far.
-/
import Proofs.Lemmas.CoreHooks
namespace Demeter.Core

/-- a stretch without `notify` calls and without account rows: both action lists grow by what the stretch records, the rows stay -/
def Quiet (st : St) (r : Res) : Prop :=
  r.2.1.cur = st.cur ++ recOf r.1 ∧ r.2.1.all = st.all ++ recOf r.1 ∧ r.2.1.rows = st.rows ∧
  r.1.filterMap notifyAct = [] ∧ r.1.filterMap rowOf = []

theorem Quiet.andThen {st : St} {r : Res} {k : St → Res} (h1 : Quiet st r) (h2 : ∀ st', Quiet st' (k st')) : Quiet st (r.andThen k) := by
  cases hr : r.2.2 with
  | some e => rw [andThen_err hr]; exact h1
  | none =>
    rw [andThen_ok hr]
    obtain ⟨a1, a2, a3, a4, a5⟩ := h1
    obtain ⟨b1, b2, b3, b4, b5⟩ := h2 r.2.1
    refine ⟨?_, ?_, ?_, ?_, ?_⟩
    · show (k r.2.1).2.1.cur = st.cur ++ recOf (r.1 ++ (k r.2.1).1)
      rw [b1, a1, recOf_append, List.append_assoc]
    · show (k r.2.1).2.1.all = st.all ++ recOf (r.1 ++ (k r.2.1).1)
      rw [b2, a2, recOf_append, List.append_assoc]
    · show (k r.2.1).2.1.rows = st.rows
      rw [b3, a3]
    · show (r.1 ++ (k r.2.1).1).filterMap notifyAct = []
      rw [List.filterMap_append, a4, b4]; rfl
    · show (r.1 ++ (k r.2.1).1).filterMap rowOf = []
      rw [List.filterMap_append, a5, b5]; rfl

/-- calls that record nothing and are neither `notify` nor an account row, with a state change that leaves the books alone -/
theorem Quiet.silent {st st' : St} (evs : List Ev) (e : Option PyErr) (hc : st'.cur = st.cur) (ha : st'.all = st.all) (hr : st'.rows = st.rows)
    (h1 : recOf evs = []) (h2 : evs.filterMap notifyAct = []) (h3 : evs.filterMap rowOf = []) : Quiet st (evs, st', e) :=
  ⟨by simp [hc, h1], by simp [ha, h1], hr, h2, h3⟩

theorem hook_phase_ne_14 (h : Hook) : h.phase ≠ 14 := by cases h <;> simp [Hook.phase]
theorem hook_phase_ne_15' (h : Hook) (hn : h ≠ .notify) : h.phase ≠ 15 := by cases h <;> simp_all [Hook.phase]

theorem doOp_quiet (ts : Int) (h : Hook) (op : OpSpec) (st : St) : Quiet st ((doOp ts h op st).1, (doOp ts h op st).2, none) := by
  obtain ⟨f1, _, f3, f4⟩ := doOp_frame ts h op st
  exact ⟨f3, f4, f1, doOp_noNotify ts h op st, fm_nil_of_allAt core_rowOf_phase (doOp_at ts h op st) (hook_phase_ne_14 h)⟩

theorem doStmt_quiet (ts : Int) (h : Hook) (s : HStmt) (st : St) : Quiet st (doStmt ts h s st) := by
  cases s with
  | op o => exact doOp_quiet ts h o st
  | tadd t => exact Quiet.silent [] none rfl rfl rfl rfl rfl rfl
  | tdel id => exact Quiet.silent [] none rfl rfl rfl rfl rfl rfl
  | boom e => exact Quiet.silent [] (some e) rfl rfl rfl rfl rfl rfl

theorem runStmts_quiet (ts : Int) (h : Hook) : ∀ (body : List HStmt) (st : St), Quiet st (runStmts ts h body st)
  | [], st => Quiet.silent [] none rfl rfl rfl rfl rfl rfl
  | s :: ss, st => Quiet.andThen (doStmt_quiet ts h s st) (fun st' => runStmts_quiet ts h ss st')

theorem fireLoopG_quiet (b : BarScript) (ts : Int) : ∀ (fuel i : Nat) (st : St), Quiet st (fireLoopG b ts fuel i st)
  | 0, i, st => Quiet.silent [] _ rfl rfl rfl rfl rfl rfl
  | fuel + 1, i, st => by
    unfold fireLoopG
    split
    · exact Quiet.silent [] none rfl rfl rfl rfl rfl rfl
    · split
      · exact Quiet.silent [] _ rfl rfl rfl rfl rfl rfl
      · simp only []
        split
        · refine Quiet.andThen (Quiet.andThen ?_ (fun st' => runStmts_quiet ts _ _ st')) (fun st' => fireLoopG_quiet b ts fuel (i + 1) st')
          exact Quiet.silent _ none rfl rfl rfl rfl rfl rfl
        · rename_i t _ _ _ _
          exact fireLoopG_quiet b ts fuel (i + 1) { st with trigs := st.trigs.set i { t with k := (whenT ts t.k).2 } }

theorem runOpenFromG_quiet (b : BarScript) (ts : Int) : ∀ (i : Nat) (ms : List MarketCfg) (st : St), Quiet st (runOpenFromG b ts i ms st)
  | _, [], st => Quiet.silent [] none rfl rfl rfl rfl rfl rfl
  | i, mc :: rest, st => by
    unfold runOpenFromG
    split
    · refine Quiet.andThen (Quiet.andThen ?_ (fun st' => runStmts_quiet ts _ _ st')) (fun st' => runOpenFromG_quiet b ts (i + 1) rest st')
      exact Quiet.silent _ none rfl rfl rfl rfl rfl rfl
    · exact runOpenFromG_quiet b ts (i + 1) rest st

/-- a script of the basic model whose `update()` records are those of `b` on every bar -/
def updScript (b : BarScript) : Script :=
  ⟨[], fun _ => [], fun _ _ => [], fun _ _ => [], fun _ => [], fun _ => [], fun _ => b.upd, fun _ _ => [], 0⟩

theorem runUpdFromG_eq (b : BarScript) (ts : Int) (row : Nat) : ∀ (i : Nat) (ms : List MarketCfg) (st : St),
    runUpdFromG b ts i ms st = runUpdFrom (updScript b) ts row i ms st
  | _, [], _ => rfl
  | i, _ :: rest, st => by
    simp only [runUpdFromG, runUpdFrom, runUpdFromG_eq b ts row (i + 1) rest]
    rfl

theorem midG_quiet (cfg : Cfg) (b : BarScript) (row : Nat) (ts : Int) (price : Option Int) (st : St) : Quiet st (midG cfg b row ts price st) := by
  unfold midG
  simp only []
  rw [runUpdFromG_eq b ts row]
  have fu := runUpdFrom_frame (updScript b) ts row 0 cfg.markets { st with ms := (setUpdatedFrom cfg ts 0 cfg.markets st.ms).2 }
  have au := runUpdFrom_at (updScript b) ts row 0 cfg.markets { st with ms := (setUpdatedFrom cfg ts 0 cfg.markets st.ms).2 }
  have as2 := setUpdatedFrom_at cfg ts 0 cfg.markets st.ms
  have rs2 := recOf_setUpdatedFrom cfg ts 0 cfg.markets st.ms
  obtain ⟨f1, _, f3, f4⟩ := fu
  have hrec : ∀ u : List Ev, recOf ((setUpdatedFrom cfg ts 0 cfg.markets st.ms).1 ++ u ++ [Ev.after ts row price]) = recOf u := by
    intro u
    rw [recOf_append, recOf_append, rs2]
    simp [recOf, recordedAct]
  refine ⟨?_, ?_, f1, ?_, ?_⟩
  · show _ = st.cur ++ recOf _
    rw [hrec]; exact f3
  · show _ = st.all ++ recOf _
    rw [hrec]; exact f4
  · simp only [List.filterMap_append, fm_nil_of_allAt notifyAct_phase as2 (by decide), fm_nil_of_allAt notifyAct_phase au (by decide)]
    rfl
  · simp only [List.filterMap_append, fm_nil_of_allAt core_rowOf_phase as2 (by decide), fm_nil_of_allAt core_rowOf_phase au (by decide)]
    rfl

theorem retireG_quiet (ts : Int) (st : St) : Quiet st (retireG ts st) := Quiet.silent [] _ rfl rfl rfl rfl rfl rfl

theorem barHeadG_quiet (cfg : Cfg) (b : BarScript) (tfuel row : Nat) (ts : Int) (price : Option Int) (st : St) :
    Quiet st (barHeadG cfg b tfuel row ts price st) := by
  unfold barHeadG
  have as1 := setAllFrom_at cfg ts 1 0 cfg.markets
  refine Quiet.andThen (Quiet.andThen (Quiet.andThen (Quiet.andThen (Quiet.andThen (Quiet.andThen (Quiet.andThen (Quiet.andThen ?_ ?_) ?_) ?_) ?_) ?_) ?_) ?_) ?_
  · refine Quiet.silent _ none rfl rfl rfl ?_ ?_ ?_
    · rw [recOf_append, recOf_setAllFrom]; simp [recOf, recordedAct]
    · simp only [List.filterMap_append, fm_nil_of_allAt notifyAct_phase as1 (by decide)]; rfl
    · simp only [List.filterMap_append, fm_nil_of_allAt core_rowOf_phase as1 (by decide)]; rfl
  · exact fun st' => runStmts_quiet ts _ _ st'
  · exact fun st' => fireLoopG_quiet b ts _ 0 st'
  · exact fun st' => retireG_quiet ts st'
  · exact fun st' => runOpenFromG_quiet b ts 0 cfg.markets st'
  · exact fun st' => Quiet.silent _ none rfl rfl rfl rfl rfl rfl
  · exact fun st' => runStmts_quiet ts _ _ st'
  · exact fun st' => midG_quiet cfg b row ts price st'
  · exact fun st' => runStmts_quiet ts _ _ st'

/-! ### the `notify` loop -/

/-- the loop from position `i`: both lists grow by what the hook's own operations record, the rows stay; the deliveries are — in order,
    once each — entries of `_currents.actions` from position `i` on (also the ones appended while the loop ran): all of them if the loop
    came to an end, the first few if the hook raised -/
theorem runNotifyG_book (b : BarScript) (ts : Int) : ∀ (fuel i : Nat) (st : St),
    (runNotifyG b ts fuel i st).2.1.cur = st.cur ++ recOf (runNotifyG b ts fuel i st).1 ∧
    (runNotifyG b ts fuel i st).2.1.all = st.all ++ recOf (runNotifyG b ts fuel i st).1 ∧
    (runNotifyG b ts fuel i st).2.1.rows = st.rows ∧
    (runNotifyG b ts fuel i st).1.filterMap rowOf = [] ∧
    (runNotifyG b ts fuel i st).1.filterMap notifyAct <+: (runNotifyG b ts fuel i st).2.1.cur.drop i ∧
    ((runNotifyG b ts fuel i st).2.2 = none → (runNotifyG b ts fuel i st).1.filterMap notifyAct = (runNotifyG b ts fuel i st).2.1.cur.drop i)
  | 0, i, st => by
    simp only [runNotifyG]
    refine ⟨by simp [recOf], by simp [recOf], by simp, by simp, List.nil_prefix, ?_⟩
    intro h
    have : st.cur.length ≤ i := List.getElem?_eq_none_iff.mp (by
      cases hq : st.cur[i]? with
      | none => rfl
      | some a => simp [hq] at h)
    simp [List.drop_eq_nil_of_le this]
  | fuel + 1, i, st => by
    unfold runNotifyG
    split
    · rename_i hn
      have : st.cur.length ≤ i := List.getElem?_eq_none_iff.mp hn
      exact ⟨by simp [recOf], by simp [recOf], rfl, rfl, List.nil_prefix, fun _ => by simp [List.drop_eq_nil_of_le this]⟩
    · rename_i a ha
      -- the delivery, then the hook's body, then the rest of the loop
      have q := runStmts_quiet ts .notify (b.notify a.tag) st
      rw [andThen_okRes]
      obtain ⟨q1, q2, q3, q4, q5⟩ := q
      unfold Res.andThen
      simp only []
      split
      · -- the hook raised
        rename_i e hb
        have hsil : ∀ l : List Ev, recOf ([Ev.notify ts a.tag a.stamp a.m] ++ l) = recOf l := fun l => rfl
        refine ⟨?_, ?_, q3, ?_, ?_, ?_⟩
        · rw [hsil]; exact q1
        · rw [hsil]; exact q2
        · simp only [List.filterMap_append, q5]; rfl
        · simp only [List.filterMap_append, q4, List.append_nil]
          rw [q1, cur_drop_of_getElem? ha]
          cases a
          simp [notifyAct]
        · intro h; rw [hb] at h; cases h
      · rename_i hb
        obtain ⟨n1, n2, n3, n4, n5, n6⟩ := runNotifyG_book b ts fuel (i + 1) (runStmts ts .notify (b.notify a.tag) st).2.1
        have hc : (runNotifyG b ts fuel (i + 1) (runStmts ts .notify (b.notify a.tag) st).2.1).2.1.cur
            = st.cur ++ (recOf (runStmts ts .notify (b.notify a.tag) st).1 ++
                recOf (runNotifyG b ts fuel (i + 1) (runStmts ts .notify (b.notify a.tag) st).2.1).1) := by
          rw [n1, q1, List.append_assoc]
        have hsil : ∀ l : List Ev, recOf ([Ev.notify ts a.tag a.stamp a.m] ++ l) = recOf l := fun l => rfl
        refine ⟨?_, ?_, by rw [n3, q3], ?_, ?_, ?_⟩
        · rw [hc]; simp only [recOf_append, List.append_assoc]; rfl
        · rw [n2, q2]; simp only [recOf_append, List.append_assoc]; rfl
        · simp only [List.filterMap_append, q5, n4]; rfl
        · simp only [List.filterMap_append, q4, List.nil_append]
          rw [hc, cur_drop_of_getElem? ha, ← hc]
          cases a
          simp only [List.filterMap_cons, notifyAct, List.filterMap_nil, List.singleton_append]
          exact (List.prefix_cons_inj _).mpr n5
        · intro h
          simp only [List.filterMap_append, q4, List.nil_append]
          rw [hc, cur_drop_of_getElem? ha, ← hc, n6 h]
          cases a
          simp [notifyAct]

/-! ### the delivery invariant: everything recorded and not yet delivered is in `_currents.actions`, in order -/

/-- `d` has been delivered so far and `_action_list = d ++ _currents.actions` -/
def Pending (d : List Act) (st : St) : Prop := st.all = d ++ st.cur

/-- a stretch that starts with `Pending d` delivers `d'`-so-far which is a prefix of the action list, and — unless an exception stopped it —
    re-establishes `Pending` -/
def Delivers (d : List Act) (st : St) (r : Res) : Prop :=
  Pending d st → (d ++ r.1.filterMap notifyAct) <+: r.2.1.all ∧ (r.2.2 = none → Pending (d ++ r.1.filterMap notifyAct) r.2.1)

theorem Quiet.delivers {st : St} {r : Res} (h : Quiet st r) (d : List Act) : Delivers d st r := by
  intro hp
  obtain ⟨a1, a2, _, a4, _⟩ := h
  unfold Pending at hp ⊢
  rw [a4, List.append_nil, a2, a1, hp]
  exact ⟨by rw [List.append_assoc]; exact List.prefix_append _ _, fun _ => by rw [List.append_assoc]⟩

theorem barTailG_books (b : BarScript) (fuel : Nat) (ts : Int) (price : Option Int) (st : St) :
    (barTailG b fuel ts price st).2.1.all = st.all ++ recOf (barTailG b fuel ts price st).1 ∧
    (barTailG b fuel ts price st).2.1.rows = st.rows ++ (barTailG b fuel ts price st).1.filterMap rowOf ∧
    (barTailG b fuel ts price st).1.filterMap rowOf = [(ts, price)] ∧
    ∀ d, Delivers d st (barTailG b fuel ts price st) := by
  unfold barTailG
  rw [andThen_okRes]
  obtain ⟨n1, n2, n3, n4, n5, n6⟩ := runNotifyG_book b ts (st.cur.length + fuel) 0 { st with rows := st.rows ++ [(ts, price)] }
  have hrow : ∀ l : List Ev, l.filterMap rowOf = [] → ([Ev.row ts price] ++ l).filterMap rowOf = [(ts, price)] := by
    intro l hl; simp [List.filterMap_cons, rowOf, hl]
  have hsil : ∀ l : List Ev, recOf ([Ev.row ts price] ++ l) = recOf l := fun l => rfl
  have hnot : ∀ l : List Ev, ([Ev.row ts price] ++ l).filterMap notifyAct = l.filterMap notifyAct := fun l => rfl
  rw [List.drop_zero, n1] at n5 n6
  unfold Res.andThen
  simp only []
  split
  · rename_i e hn
    refine ⟨?_, ?_, hrow _ n4, ?_⟩
    · rw [hsil]; exact n2
    · rw [hrow _ n4]; exact n3
    · intro d hp
      unfold Pending at hp
      refine ⟨?_, fun h => by rw [hn] at h; cases h⟩
      have key : ∀ L : List Act, st.all ++ L = d ++ (st.cur ++ L) := fun L => by rw [hp, List.append_assoc]
      rw [hnot, n2]
      show d ++ _ <+: st.all ++ _
      rw [key]
      exact (List.prefix_append_right_inj _).mpr n5
  · rename_i hn
    simp only [Res.ok, List.append_nil]
    refine ⟨?_, ?_, hrow _ n4, ?_⟩
    · rw [hsil]; exact n2
    · rw [hrow _ n4]; exact n3
    · intro d hp
      unfold Pending at hp ⊢
      have key : ∀ L : List Act, st.all ++ L = d ++ (st.cur ++ L) := fun L => by rw [hp, List.append_assoc]
      rw [hnot, n6 hn, n2]
      show d ++ (st.cur ++ _) <+: st.all ++ _ ∧ (_ → st.all ++ _ = d ++ (st.cur ++ _) ++ [])
      rw [key]
      exact ⟨List.prefix_refl _, fun _ => by simp⟩

/-- the deliveries of a bar: its pending actions followed by what is recorded while the loop runs -/
theorem barTailG_deliveries (b : BarScript) (fuel : Nat) (ts : Int) (price : Option Int) (st : St) :
    (barTailG b fuel ts price st).1.filterMap notifyAct <+: st.cur ++ recOf (barTailG b fuel ts price st).1 ∧
    ((barTailG b fuel ts price st).2.2 = none →
      (barTailG b fuel ts price st).1.filterMap notifyAct = st.cur ++ recOf (barTailG b fuel ts price st).1) := by
  unfold barTailG
  rw [andThen_okRes]
  obtain ⟨n1, _, _, _, n5, n6⟩ := runNotifyG_book b ts (st.cur.length + fuel) 0 { st with rows := st.rows ++ [(ts, price)] }
  have hsil : ∀ l : List Ev, recOf ([Ev.row ts price] ++ l) = recOf l := fun l => rfl
  have hnot : ∀ l : List Ev, ([Ev.row ts price] ++ l).filterMap notifyAct = l.filterMap notifyAct := fun l => rfl
  rw [List.drop_zero, n1] at n5 n6
  unfold Res.andThen
  simp only []
  split
  · rename_i e hn
    exact ⟨by rw [hnot, hsil]; exact n5, fun h => by rw [hn] at h; cases h⟩
  · rename_i hn
    simp only [Res.ok, List.append_nil]
    exact ⟨by rw [hnot, hsil]; exact n5, fun _ => by rw [hnot, hsil]; exact n6 hn⟩

end Demeter.Core
