/-
  `scratchMap` (recomputation of a value dictionary from raw entries) versus `fillLoop` (what a cache fill
  does), `cacheOf` (the cache a complete fill leaves), `CohC` (a cache is cold or holds the recomputation).
-/
import Proofs.Lemmas.AaveM
import Proofs.Lemmas.AaveAList
namespace Demeter.Aave
open Demeter M

section
variable {ν μ : Type}

theorem scratchMap_cons (f : String → ν → Res μ) (k : String) (v : ν) (rest : AList String ν) :
    scratchMap f ((k, v) :: rest) = (do let x ← f k v; let r ← scratchMap f rest; pure ((k, x) :: r)) := rfl

@[simp] theorem scratchMap_nil (f : String → ν → Res μ) : scratchMap f [] = .ok [] := rfl

theorem scratchMap_cons_ok {f : String → ν → Res μ} {k : String} {v : ν} {rest : AList String ν} {x : μ} {r : AList String μ}
    (h1 : f k v = .ok x) (h2 : scratchMap f rest = .ok r) : scratchMap f ((k, v) :: rest) = .ok ((k, x) :: r) := by
  rw [scratchMap_cons, h1, h2]; rfl

theorem scratchMap_cons_inv {f : String → ν → Res μ} {k : String} {v : ν} {rest : AList String ν} {vs : AList String μ}
    (h : scratchMap f ((k, v) :: rest) = .ok vs) :
    ∃ x r, f k v = .ok x ∧ scratchMap f rest = .ok r ∧ vs = (k, x) :: r := by
  rw [scratchMap_cons] at h
  cases h1 : f k v with
  | error e => rw [h1] at h; cases h
  | ok x =>
    cases h2 : scratchMap f rest with
    | error e => rw [h1, h2] at h; cases h
    | ok r =>
      rw [h1, h2] at h
      refine ⟨x, r, rfl, rfl, ?_⟩
      cases h; rfl

theorem scratchMap_exists {f : String → ν → Res μ} {m : AList String ν} (h : ∀ p ∈ m, ∃ x, f p.1 p.2 = .ok x) :
    ∃ vs, scratchMap f m = .ok vs := by
  induction m with
  | nil => exact ⟨[], rfl⟩
  | cons p m ih =>
    obtain ⟨k, v⟩ := p
    obtain ⟨x, hx⟩ := h (k, v) (List.mem_cons_self ..)
    obtain ⟨r, hr⟩ := ih (fun q hq => h q (List.mem_cons_of_mem _ hq))
    exact ⟨(k, x) :: r, scratchMap_cons_ok hx hr⟩

theorem scratchMap_keys {f : String → ν → Res μ} {m : AList String ν} {vs : AList String μ}
    (h : scratchMap f m = .ok vs) : keys vs = keys m := by
  induction m generalizing vs with
  | nil => simp at h; cases h; rfl
  | cons p m ih =>
    obtain ⟨k, v⟩ := p
    obtain ⟨x, r, _, h2, h3⟩ := scratchMap_cons_inv h
    subst h3; simp [ih h2]

theorem scratchMap_get {f : String → ν → Res μ} {m : AList String ν} {vs : AList String μ}
    (h : scratchMap f m = .ok vs) (hnd : (keys m).Nodup) {k : String} {v : ν} (hm : (k, v) ∈ m) :
    ∃ x, f k v = .ok x ∧ AList.get? vs k = some x := by
  induction m generalizing vs with
  | nil => simp at hm
  | cons p m ih =>
    obtain ⟨k', v'⟩ := p
    obtain ⟨x, r, h1, h2, h3⟩ := scratchMap_cons_inv h
    subst h3
    simp only [keys_cons, List.nodup_cons] at hnd
    simp only [List.mem_cons, Prod.mk.injEq] at hm
    rcases hm with ⟨e1, e2⟩ | hm
    · subst e1; subst e2; exact ⟨x, h1, by simp⟩
    · have hk : k' ≠ k := by
        intro e; subst e
        exact hnd.1 (by unfold keys; exact List.mem_map.mpr ⟨(k', v), hm, rfl⟩)
      obtain ⟨y, hy1, hy2⟩ := ih h2 hnd.2 hm
      exact ⟨y, hy1, by rw [aget_cons_ne hk]; exact hy2⟩

theorem scratchMap_congr {f g : String → ν → Res μ} {m : AList String ν} (h : ∀ p ∈ m, f p.1 p.2 = g p.1 p.2) :
    scratchMap f m = scratchMap g m := by
  induction m with
  | nil => rfl
  | cons p m ih =>
    obtain ⟨k, v⟩ := p
    rw [scratchMap_cons, scratchMap_cons, h (k, v) (List.mem_cons_self ..), ih (fun q hq => h q (List.mem_cons_of_mem _ hq))]

theorem scratchMap_ne_nil {f : String → ν → Res μ} {m : AList String ν} {vs : AList String μ}
    (h : scratchMap f m = .ok vs) : vs = [] ↔ m = [] := by
  cases m with
  | nil => simp at h; cases h; simp
  | cons p m =>
    obtain ⟨k, v⟩ := p
    obtain ⟨x, r, _, _, h3⟩ := scratchMap_cons_inv h
    subst h3; simp

/-! ### the cache a complete fill leaves behind -/

/-- nothing was `set` when the dictionary is empty, so the cache stays cold -/
def cacheOf (vs : AList String μ) : Cache μ :=
  match vs with
  | [] => .fresh
  | _ :: _ => ⟨false, vs⟩

@[simp] theorem fresh_val : (Cache.fresh : Cache μ).val = [] := rfl
@[simp] theorem fresh_empty : (Cache.fresh : Cache μ).empty = true := rfl
@[simp] theorem cacheOf_nil : cacheOf ([] : AList String μ) = .fresh := rfl
@[simp] theorem cacheOf_val (vs : AList String μ) : (cacheOf vs).val = vs := by
  cases vs <;> rfl
theorem cacheOf_empty (vs : AList String μ) : (cacheOf vs).empty = vs.isEmpty := by
  cases vs <;> rfl
theorem cacheOf_cons (p : String × μ) (vs : AList String μ) : cacheOf (p :: vs) = ⟨false, p :: vs⟩ := rfl

theorem fillLoop_ok {f : String → ν → Res μ} : ∀ (m : AList String ν) (c : Cache μ) (vs : AList String μ),
    scratchMap f m = .ok vs → (keys m).Nodup → (∀ k ∈ keys m, k ∉ keys c.val) →
    fillLoop f m c = (none, ⟨c.empty && vs.isEmpty, c.val ++ vs⟩) := by
  intro m
  induction m with
  | nil =>
    intro c vs h _ _
    simp at h; cases h
    simp [fillLoop]
  | cons p m ih =>
    intro c vs h hnd hdis
    obtain ⟨k, v⟩ := p
    obtain ⟨x, r, h1, h2, h3⟩ := scratchMap_cons_inv h
    subst h3
    simp only [keys_cons, List.nodup_cons] at hnd
    have hk : k ∉ keys c.val := hdis k (by simp)
    unfold fillLoop
    rw [h1]
    simp only []
    rw [ih (c.set k x) r h2 hnd.2]
    · simp [Cache.set, aset_not_mem hk]
    · intro k' hk'
      simp only [Cache.set, aset_not_mem hk, keys_append, keys_cons, keys_nil, List.mem_append, List.mem_singleton, not_or]
      exact ⟨hdis k' (by simp [hk']), fun e => hnd.1 (e ▸ hk')⟩

theorem fillLoop_fresh {f : String → ν → Res μ} {m : AList String ν} {vs : AList String μ}
    (h : scratchMap f m = .ok vs) (hnd : (keys m).Nodup) : fillLoop f m .fresh = (none, cacheOf vs) := by
  rw [fillLoop_ok m .fresh vs h hnd (by simp [Cache.fresh])]
  cases vs <;> simp [Cache.fresh, cacheOf]

theorem fillLoop_congr {f g : String → ν → Res μ} {m : AList String ν} (h : ∀ p ∈ m, f p.1 p.2 = g p.1 p.2) (c : Cache μ) :
    fillLoop f m c = fillLoop g m c := by
  induction m generalizing c with
  | nil => rfl
  | cons p m ih =>
    obtain ⟨k, v⟩ := p
    have hkv : f k v = g k v := h (k, v) (List.mem_cons_self ..)
    show (match f k v with
      | .error e => (some e, c)
      | .ok x => fillLoop f m (c.set k x)) = (match g k v with
      | .error e => (some e, c)
      | .ok x => fillLoop g m (c.set k x))
    rw [hkv]
    cases g k v with
    | error e => rfl
    | ok x => exact ih (fun q hq => h q (List.mem_cons_of_mem _ hq)) _

/-- a cache is cold, or holds exactly the from-scratch recomputation -/
def CohC (c : Cache μ) (spec : Res (AList String μ)) : Prop :=
  c = .fresh ∨ ∃ vs, spec = .ok vs ∧ c = cacheOf vs

theorem CohC.fresh (spec : Res (AList String μ)) : CohC (.fresh : Cache μ) spec := Or.inl rfl
theorem CohC.of {spec : Res (AList String μ)} {vs : AList String μ} (h : spec = .ok vs) : CohC (cacheOf vs) spec :=
  Or.inr ⟨vs, h, rfl⟩

/-- reading through a coherent cache: it is either cold (then `vs` is recomputed) or already holds `vs` -/
theorem CohC.cases {c : Cache μ} {spec : Res (AList String μ)} {vs : AList String μ} (h : CohC c spec) (hs : spec = .ok vs) :
    c = .fresh ∨ (c = cacheOf vs ∧ c.empty = false) := by
  rcases h with h | ⟨vs', h1, h2⟩
  · exact Or.inl h
  · rw [hs] at h1; cases h1
    cases vs with
    | nil => exact Or.inl h2
    | cons p vs => exact Or.inr ⟨h2, by rw [h2]; rfl⟩

end
end Demeter.Aave
