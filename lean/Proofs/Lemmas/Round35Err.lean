/-
  Round35 — part 3: structure of `roundSig` and its relative error.

  * `rheQ v` — round-half-even of a non-negative rational to a natural number, stated with `⌊·⌋₊`;
    `roundHalfEvenNat n d = rheQ (n/d)` (`rhe_eq`), `|rheQ v − v| ≤ 1/2`, monotone, identity on naturals.
  * `rpos p y = rheQ (y / 10^e) · 10^e` with `e = sigExp p |num y| (den y)`;
    `roundSig p` is `rpos p` on positives, odd, and `0 ↦ 0` (no magnitude hypothesis needed for that).
  * on the magnitude range `InRange x` (numerator and denominator below `2^150000`):
        `|roundSig p x − x| ≤ (1/2)·10^(1−p)·|x|`.
-/
import Proofs.Lemmas.Round35Sig
import Mathlib.Data.Rat.Floor
import Mathlib.Algebra.Order.Floor.Semiring
import Mathlib.Algebra.Order.Floor.Semifield
import Mathlib.Tactic.Linarith
import Mathlib.Tactic.GCongr
namespace Demeter.Numerics
open Demeter

local notation "T" => (10 : ℚ)

/-- the magnitude range on which `round35` is proved correct: numerator and denominator `< 2^150000 ≈ 10^45154` -/
def InRange (x : ℚ) : Prop := x.num.natAbs.log2 < LOG2_BOUND ∧ x.den.log2 < LOG2_BOUND

instance (x : ℚ) : Decidable (InRange x) := by unfold InRange; infer_instance

theorem InRange_neg {x : ℚ} (h : InRange x) : InRange (-x) := by
  unfold InRange at *; simpa using h

theorem InRange_zero : InRange 0 := by decide

/-- a decimal way to be in range -/
theorem InRange_of_lt {x : ℚ} (h1 : x.num.natAbs < 10 ^ 45000) (h2 : x.den < 10 ^ 45000) : InRange x :=
  ⟨log2_lt_of_lt_ten_pow _ h1, log2_lt_of_lt_ten_pow _ h2⟩

/-! ### round-half-even to a natural number -/

/-- round-half-even of a non-negative rational -/
def rheQ (v : ℚ) : ℕ :=
  if v - (⌊v⌋₊ : ℚ) < 1 / 2 then ⌊v⌋₊
  else if 1 / 2 < v - (⌊v⌋₊ : ℚ) then ⌊v⌋₊ + 1
  else if ⌊v⌋₊ % 2 = 0 then ⌊v⌋₊ else ⌊v⌋₊ + 1

theorem rhe_eq (n d : ℕ) (hd : 0 < d) : roundHalfEvenNat n d = rheQ ((n : ℚ) / d) := by
  have hdq : (0:ℚ) < d := by exact_mod_cast hd
  have hfl : ⌊(n:ℚ) / d⌋₊ = n / d := Nat.floor_div_eq_div n d
  have hf : (n:ℚ) / d - ((n / d : ℕ) : ℚ) = ((n % d : ℕ) : ℚ) / d := by
    have := Nat.div_add_mod n d
    have h2 : (d:ℚ) * ((n / d : ℕ) : ℚ) + ((n % d : ℕ) : ℚ) = n := by exact_mod_cast this
    field_simp; linarith
  have c1 : (2 * (n % d) < d) ↔ (((n % d : ℕ) : ℚ) / d < 1 / 2) := by
    rw [div_lt_iff₀ hdq]; constructor
    · intro h
      have : ((2 * (n % d) : ℕ) : ℚ) < d := by exact_mod_cast h
      push_cast at this; linarith
    · intro h
      have : ((2 * (n % d) : ℕ) : ℚ) < d := by push_cast; linarith
      exact_mod_cast this
  have c2 : (2 * (n % d) > d) ↔ (1 / 2 < ((n % d : ℕ) : ℚ) / d) := by
    rw [lt_div_iff₀ hdq]; constructor
    · intro h
      have : (d : ℚ) < ((2 * (n % d) : ℕ) : ℚ) := by exact_mod_cast h
      push_cast at this; linarith
    · intro h
      have : (d : ℚ) < ((2 * (n % d) : ℕ) : ℚ) := by push_cast; linarith
      exact_mod_cast this
  unfold roundHalfEvenNat rheQ
  simp only [hfl, hf, c1, c2]

theorem rheQ_err (v : ℚ) (hv : 0 ≤ v) : |(rheQ v : ℚ) - v| ≤ 1 / 2 := by
  have h1 : (⌊v⌋₊ : ℚ) ≤ v := Nat.floor_le hv
  have h2 : v < (⌊v⌋₊ : ℚ) + 1 := Nat.lt_floor_add_one v
  unfold rheQ
  rw [abs_le]
  split_ifs <;> push_cast <;> constructor <;> linarith

theorem rheQ_natCast (k : ℕ) : rheQ (k : ℚ) = k := by
  unfold rheQ
  rw [Nat.floor_natCast]
  simp

theorem rheQ_mono {v w : ℚ} (hv : 0 ≤ v) (h : v ≤ w) : rheQ v ≤ rheQ w := by
  have hw : 0 ≤ w := le_trans hv h
  have hfl : ⌊v⌋₊ ≤ ⌊w⌋₊ := Nat.floor_mono h
  have v1 : (⌊v⌋₊ : ℚ) ≤ v := Nat.floor_le hv
  have v2 : v < (⌊v⌋₊ : ℚ) + 1 := Nat.lt_floor_add_one v
  have w1 : (⌊w⌋₊ : ℚ) ≤ w := Nat.floor_le hw
  have w2 : w < (⌊w⌋₊ : ℚ) + 1 := Nat.lt_floor_add_one w
  rcases Nat.lt_or_eq_of_le hfl with hlt | heq
  · have a : rheQ v ≤ ⌊v⌋₊ + 1 := by unfold rheQ; split_ifs <;> omega
    have b : ⌊w⌋₊ ≤ rheQ w := by unfold rheQ; split_ifs <;> omega
    omega
  · unfold rheQ
    rw [← heq]
    split_ifs <;> first | omega | (exfalso; linarith)

/-- bounds are preserved: `a ≤ v ≤ b` with natural `a, b` gives `a ≤ rheQ v ≤ b` -/
theorem rheQ_ge {v : ℚ} (a : ℕ) (h : (a:ℚ) ≤ v) : a ≤ rheQ v := by
  have := rheQ_mono (Nat.cast_nonneg a) h
  rwa [rheQ_natCast] at this

theorem rheQ_le {v : ℚ} (hv : 0 ≤ v) (b : ℕ) (h : v ≤ (b:ℚ)) : rheQ v ≤ b := by
  have := rheQ_mono hv h
  rwa [rheQ_natCast] at this

/-! ### `roundSig` on positives, sign symmetry -/

/-- the normalising exponent of a rational -/
def sexp (p : ℕ) (y : ℚ) : ℤ := sigExp p y.num.natAbs y.den

/-- `roundSig` of a positive rational -/
def rpos (p : ℕ) (y : ℚ) : ℚ := (rheQ (y / T ^ sexp p y) : ℚ) * T ^ sexp p y

theorem natAbs_div_den {y : ℚ} (hy : 0 < y) : ((y.num.natAbs : ℕ) : ℚ) / (y.den : ℚ) = y := by
  have hn : 0 < y.num := Rat.num_pos.2 hy
  have : ((y.num.natAbs : ℕ) : ℚ) = (y.num : ℚ) := by
    rw [← Int.cast_natCast, Int.natAbs_of_nonneg (le_of_lt hn)]
  rw [this]; exact Rat.num_div_den y

/-- the magnitude part of `roundSig`, for any `n/d` -/
theorem roundSig_mag (n d : ℕ) (hd : 0 < d) (e : ℤ) :
    (if e ≥ 0 then (((roundHalfEvenNat (scale10 n d e).1 (scale10 n d e).2) * pow10 e.toNat : ℕ) : ℚ)
      else mkRat (roundHalfEvenNat (scale10 n d e).1 (scale10 n d e).2) (pow10 (-e).toNat))
    = (rheQ ((n:ℚ) / d / T ^ e) : ℚ) * T ^ e := by
  obtain ⟨sd_pos, sval⟩ := scale10_spec n d e hd
  rw [rhe_eq _ _ sd_pos, sval]
  unfold pow10
  split
  · rename_i h
    have : T ^ e = T ^ e.toNat := by
      rw [← zpow_natCast]; congr 1; omega
    rw [this]; push_cast; rfl
  · rename_i h
    have : T ^ e = (T ^ (-e).toNat)⁻¹ := by
      rw [← zpow_natCast, ← zpow_neg]; congr 1; omega
    rw [this, Rat.mkRat_eq_div]; push_cast; rfl

theorem roundSig_zero (p : ℕ) : roundSig p 0 = 0 := by
  unfold roundSig; simp

theorem roundSig_pos (p : ℕ) {y : ℚ} (hy : 0 < y) : roundSig p y = rpos p y := by
  have hn : 0 < y.num := Rat.num_pos.2 hy
  have h0 : y.num ≠ 0 := ne_of_gt hn
  have hneg : ¬ y.num < 0 := not_lt.2 (le_of_lt hn)
  have := roundSig_mag y.num.natAbs y.den y.den_pos (sigExp p y.num.natAbs y.den)
  rw [natAbs_div_den hy] at this
  unfold roundSig rpos sexp
  rw [if_neg h0]
  simp only [hneg, if_false]
  exact this

theorem roundSig_neg (p : ℕ) {y : ℚ} (hy : y < 0) : roundSig p y = - rpos p (-y) := by
  have hy' : 0 < -y := neg_pos.2 hy
  have hn : y.num < 0 := Rat.num_neg.2 hy
  have h0 : y.num ≠ 0 := ne_of_lt hn
  have e1 : (-y).num.natAbs = y.num.natAbs := by simp
  have e2 : (-y).den = y.den := by simp
  have := roundSig_mag (-y).num.natAbs (-y).den (-y).den_pos (sigExp p (-y).num.natAbs (-y).den)
  rw [natAbs_div_den hy'] at this
  unfold roundSig rpos sexp
  rw [if_neg h0]
  simp only [hn, if_true]
  rw [e1, e2] at this ⊢
  rw [this]

/-- `roundSig` is odd -/
theorem roundSig_neg_eq (p : ℕ) (x : ℚ) : roundSig p (-x) = - roundSig p x := by
  rcases lt_trichotomy x 0 with h | h | h
  · rw [roundSig_neg p h, roundSig_pos p (neg_pos.2 h)]; simp
  · subst h; simp [roundSig_zero]
  · rw [roundSig_pos p h, roundSig_neg p (neg_neg_of_pos h)]; simp

/-! ### the normalised mantissa -/

theorem sexp_spec (p : ℕ) {y : ℚ} (hy : 0 < y) (hr : InRange y) :
    T ^ ((p : ℤ) - 1) ≤ y / T ^ sexp p y ∧ y / T ^ sexp p y < T ^ (p : ℤ) := by
  have hn : 0 < y.num.natAbs := Int.natAbs_pos.2 (ne_of_gt (Rat.num_pos.2 hy))
  have := sigExp_spec_rat p y.num.natAbs y.den hn y.den_pos hr.1 hr.2
  rwa [natAbs_div_den hy] at this

theorem sexp_unique (p : ℕ) {y : ℚ} (hy : 0 < y) (hr : InRange y) (e : ℤ)
    (h1 : T ^ ((p : ℤ) - 1) ≤ y / T ^ e) (h2 : y / T ^ e < T ^ (p : ℤ)) : sexp p y = e := by
  have hn : 0 < y.num.natAbs := Int.natAbs_pos.2 (ne_of_gt (Rat.num_pos.2 hy))
  have := sigExp_unique p y.num.natAbs y.den hn y.den_pos hr.1 hr.2 e
  rw [natAbs_div_den hy] at this
  exact this h1 h2

theorem rpos_nonneg (p : ℕ) (y : ℚ) : 0 ≤ rpos p y := by
  unfold rpos
  have := Tz_pos (sexp p y)
  positivity

/-- absolute error of `rpos`: half a unit in the last place -/
theorem rpos_abs_err (p : ℕ) {y : ℚ} (hy : 0 < y) :
    |rpos p y - y| ≤ T ^ sexp p y / 2 := by
  have hT := Tz_pos (sexp p y)
  have hv : 0 ≤ y / T ^ sexp p y := by positivity
  have := rheQ_err _ hv
  have e : rpos p y - y = ((rheQ (y / T ^ sexp p y) : ℚ) - y / T ^ sexp p y) * T ^ sexp p y := by
    unfold rpos; field_simp
  rw [e, abs_mul, abs_of_pos hT]
  calc |(rheQ (y / T ^ sexp p y) : ℚ) - y / T ^ sexp p y| * T ^ sexp p y
      ≤ 1 / 2 * T ^ sexp p y := by gcongr
    _ = T ^ sexp p y / 2 := by ring

theorem rpos_rel_err (p : ℕ) {y : ℚ} (hy : 0 < y) (hr : InRange y) :
    |rpos p y - y| ≤ 1 / 2 * T ^ (1 - (p : ℤ)) * y := by
  obtain ⟨h1, _⟩ := sexp_spec p hy hr
  have hT := Tz_pos (sexp p y)
  rw [le_div_iff₀ hT] at h1
  refine le_trans (rpos_abs_err p hy) ?_
  have hP := Tz_pos (1 - (p:ℤ))
  calc T ^ sexp p y / 2 = 1 / 2 * T ^ (1 - (p:ℤ)) * (T ^ ((p:ℤ) - 1) * T ^ sexp p y) := by
        rw [mul_assoc, ← mul_assoc (T ^ (1 - (p:ℤ))), ← Tz_add]
        have : (1 - (p:ℤ)) + ((p:ℤ) - 1) = 0 := by ring
        rw [this, zpow_zero]; ring
    _ ≤ 1 / 2 * T ^ (1 - (p:ℤ)) * y := by gcongr

/-- **relative error of `roundSig`**: half a unit in the `p`-th significant digit -/
theorem roundSig_rel_err (p : ℕ) (x : ℚ) (hr : InRange x) :
    |roundSig p x - x| ≤ 1 / 2 * T ^ (1 - (p : ℤ)) * |x| := by
  rcases lt_trichotomy x 0 with h | h | h
  · rw [roundSig_neg p h, abs_of_neg h]
    have := rpos_rel_err p (neg_pos.2 h) (InRange_neg hr)
    rw [← abs_neg]
    have e : -(-rpos p (-x) - x) = rpos p (-x) - -x := by ring
    rw [e]; exact this
  · subst h; simp [roundSig_zero]
  · rw [roundSig_pos p h, abs_of_pos h]
    exact rpos_rel_err p h hr

end Demeter.Numerics
