/-
  The book invariant (non-negative sizes on every side of every instrument — the raw sides may be unsorted and may
  repeat a price; what an order is matched against and what is written back is the normalised side, which has distinct
  prices) is preserved by every operation of the Deribit model under exact arithmetic.
-/
import Proofs.Lemmas.DeribitNorm
namespace Demeter.Deribit
open Demeter

def BookInv (book : List Instr) : Prop := ∀ i ∈ book, (∀ l ∈ i.asks, 0 ≤ l.size) ∧ (∀ l ∈ i.bids, 0 ≤ l.size)

theorem bookInv_nonneg {book : List Instr} (h : BookInv book) : BookNonneg book :=
  fun i hi => h i hi

theorem bookInv_setAsks {book : List Instr} (h : BookInv book) (n : String) (new : List Level) (hn : ∀ l ∈ new, 0 ≤ l.size) :
    BookInv (setAsks book n new) := by
  intro i hi
  obtain ⟨i0, hi0, rfl⟩ := List.mem_map.mp hi
  split
  · exact ⟨hn, (h i0 hi0).2⟩
  · exact h i0 hi0

theorem bookInv_setBids {book : List Instr} (h : BookInv book) (n : String) (new : List Level) (hn : ∀ l ∈ new, 0 ≤ l.size) :
    BookInv (setBids book n new) := by
  intro i hi
  obtain ⟨i0, hi0, rfl⟩ := List.mem_map.mp hi
  split
  · exact ⟨(h i0 hi0).1, hn⟩
  · exact h i0 hi0

/-- the orders an accepted request may touch are a filtered part of the side -/
theorem availAsks_filter (ins : Instr) (mult : Option Rat) :
    ∃ f : Level → Bool, availAsks DCtx.exact ins mult = ins.asks.filter f := by
  unfold availAsks
  cases mult with
  | none => exact ⟨fun _ => true, by simp⟩
  | some m => exact ⟨_, rfl⟩

theorem availBids_filter {ins : Instr} {mult : Option Rat} {bids : List Level}
    (h : availBids DCtx.exact ins mult = .ok bids) : ∃ f : Level → Bool, bids = ins.bids.filter f := by
  unfold availBids at h
  cases mult with
  | none => simp only [Except.ok.injEq] at h; exact ⟨fun _ => true, by simp [h]⟩
  | some m =>
    simp only [] at h
    split at h
    · simp at h
    · simp only [Except.ok.injEq] at h; exact ⟨_, h.symm⟩

/-- the side after the fills of an accepted order have been written back -/
theorem sideOk_after_order {c : TokenCfg} {book : List Instr} {r : Req} {isBuy : Bool} {ck : Checked}
    (hck : checkTx DCtx.exact c book r isBuy = .ok ck) (side : List Level) (f : Level → Bool)
    (hav : availSide DCtx.exact ck.ins r.mult isBuy = .ok (side.filter f)) (ho : SideOk side) :
    SideOk (newOrderList DCtx.exact side (deduct DCtx.exact ck.amount (side.filter f) ck.price)) := by
  obtain ⟨_, _, hmin, hamt, avail, ha, hcase⟩ := checkTx_ok hck
  rw [hav] at ha
  simp only [Except.ok.injEq] at ha
  subst ha
  have hnn : 0 ≤ ck.amount := by
    rw [hamt]; exact roundDec_nonneg _ (le_trans (minAmount_pos c).le hmin)
  rcases hcase with ⟨_, hp, _⟩ | ⟨p, l, rest, _, hfa, hp, hle⟩
  · rw [hp]; exact sideOk_market side f ck.amount ho hnn
  · rw [hp]
    have hl : l ∈ findAvailable DCtx.exact p (side.filter f) := by rw [hfa]; exact List.mem_cons_self
    have hl' : l ∈ side.filter f := (List.mem_filter.mp hl).1
    simp only [exact_reprD, deduct]
    exact sideOk_limit side (side.filter f) l ck.amount ho (fun x hx => (List.mem_filter.mp hx).1)
      (nodup_filter_prices ho.1 f) hl' hle

/-- **the book invariant is preserved by every operation** (exact arithmetic) -/
theorem step_bookInv (c : TokenCfg) (s : DState) (op : Op) (h : BookInv s.book) :
    BookInv (step DCtx.exact c s op).2.book := by
  cases op with
  | buy r =>
    rcases hb : buy DCtx.exact c s r with ⟨o, s'⟩
    cases o with
    | error e => simp only [step, hb]; rw [buy_err hb]; exact h
    | ok res =>
      obtain ⟨_, ck, hck, fills, _, _, hfills, _, _, _, _, _, hs'⟩ := buy_ok hb
      simp only [step, hb]
      rw [hs']
      simp only []
      obtain ⟨f, hf⟩ := availAsks_filter ck.ins r.mult
      obtain ⟨⟨ins0, hfind, hnorm⟩, _⟩ := checkTx_ok hck
      have hins := h ins0 (findInstr_mem hfind)
      have hside : SideOk ck.ins.asks := by rw [hnorm]; exact sideOk_normSide hins.1
      apply bookInv_setAsks h
      rw [hfills, hf]
      exact (sideOk_after_order hck ck.ins.asks f (by simp [availSide, hf]) hside).2
  | sell r =>
    rcases hb : sell DCtx.exact c s r with ⟨o, s'⟩
    cases o with
    | error e => simp only [step, hb]; rw [sell_err hb]; exact h
    | ok res =>
      obtain ⟨_, ck, p, bids, hck, _, _, hbids, fills, _, _, hfills, _, _, _, hs'⟩ := sell_ok hb
      simp only [step, hb]
      rw [hs']
      simp only []
      obtain ⟨f, hf⟩ := availBids_filter hbids
      obtain ⟨⟨ins0, hfind, hnorm⟩, _⟩ := checkTx_ok hck
      have hins := h ins0 (findInstr_mem hfind)
      have hside : SideOk ck.ins.bids := by rw [hnorm]; exact sideOk_normSide hins.2
      apply bookInv_setBids h
      rw [hfills, hf]
      exact (sideOk_after_order hck ck.ins.bids f (by simp [availSide, hbids, hf]) hside).2
  | deposit a =>
    simp only [step, deposit]
    split
    · exact h
    · split <;> exact h
  | withdraw a =>
    simp only [step, withdraw]
    split
    · exact h
    · split <;> exact h
  | balance =>
    simp only [step, getMarketBalance]
    split
    · exact h
    · split
      · exact h
      · split <;> exact h
  | update =>
    simp only [step]
    exact (by
      have : (update DCtx.exact c s).book = s.book := by unfold update; split <;> simp [exercise]
      rw [this]; exact h)

/-- … hence along any sequence of operations within a bar -/
theorem runOps_bookInv (c : TokenCfg) (ops : List Op) (s : DState) (h : BookInv s.book) :
    BookInv (runOps DCtx.exact c s ops).book := by
  induction ops generalizing s with
  | nil => exact h
  | cons o os ih => exact ih _ (step_bookInv c s o h)

end Demeter.Deribit
