/-
  Lemmas about the insertion-ordered wallet (`AList`), its valuation `specWallet`, and `Asset.sub`.
-/
import Demeter.Broker
import Proofs.Lemmas.Exact
import Mathlib.Tactic.Ring
import Mathlib.Tactic.Linarith
import Mathlib.Algebra.Order.Field.Rat
namespace Demeter
namespace WalletLemmas

theorem get?_nil (k : String) : AList.get? ([] : Wallet) k = none := rfl

theorem get?_cons (t : String) (b : Rat) (rest : Wallet) (k : String) :
    AList.get? ((t, b) :: rest) k = if t = k then some b else AList.get? rest k := by
  unfold AList.get?
  by_cases h : t = k <;> simp [List.find?, h]

theorem get?_set_self (w : Wallet) (k : String) (x : Rat) : AList.get? (AList.set w k x) k = some x := by
  induction w with
  | nil => simp [AList.set, get?_cons]
  | cons e rest ih =>
    obtain ⟨t, b⟩ := e
    unfold AList.set
    by_cases h : t = k
    · simp [h, get?_cons]
    · simp [h, get?_cons, ih]

theorem get?_set_ne (w : Wallet) (k k' : String) (x : Rat) (hne : k ≠ k') :
    AList.get? (AList.set w k x) k' = AList.get? w k' := by
  induction w with
  | nil => simp [AList.set, get?_cons, get?_nil, hne]
  | cons e rest ih =>
    obtain ⟨t, b⟩ := e
    unfold AList.set
    by_cases h : t = k
    · subst h; simp [get?_cons, hne]
    · simp only [h, if_false, get?_cons, ih]

/-- overwriting an existing entry changes the valuation by `(new − old) × price` -/
theorem spec_set_present (p : Prices) (k : String) (x pk : Rat) (hpk : AList.get? p k = some pk) :
    ∀ (w : Wallet) (b v : Rat), AList.get? w k = some b → specWallet p w = some v →
      specWallet p (AList.set w k x) = some (v + (x - b) * pk) := by
  intro w
  induction w with
  | nil => intro b v hb; simp [get?_nil] at hb
  | cons e rest ih =>
    obtain ⟨t, bt⟩ := e
    intro b v hb hv
    unfold AList.set
    rw [get?_cons] at hb
    by_cases h : t = k
    · subst h
      simp only [if_true] at hb ⊢
      injection hb with hb; subst hb
      unfold specWallet at hv ⊢
      rw [hpk] at hv ⊢
      cases hr : specWallet p rest with
      | none => simp [hr, bind, Option.bind] at hv
      | some r =>
        simp [hr, bind, Option.bind] at hv ⊢
        rw [← hv]; ring
    · simp only [h, if_false] at hb ⊢
      unfold specWallet at hv ⊢
      cases hpt : AList.get? p t with
      | none => simp [hpt, bind, Option.bind] at hv
      | some pt =>
        cases hr : specWallet p rest with
        | none => simp [hpt, hr, bind, Option.bind] at hv
        | some r =>
          simp [hpt, hr, bind, Option.bind] at hv
          rw [ih b r hb hr]
          simp [bind, Option.bind]
          rw [← hv]; ring

/-- a new entry is appended and adds `amount × price` -/
theorem spec_set_absent (p : Prices) (k : String) (x pk : Rat) (hpk : AList.get? p k = some pk) :
    ∀ (w : Wallet) (v : Rat), AList.get? w k = none → specWallet p w = some v →
      specWallet p (AList.set w k x) = some (v + x * pk) := by
  intro w
  induction w with
  | nil =>
    intro v _ hv
    simp [specWallet] at hv
    simp [AList.set, specWallet, hpk, bind, Option.bind, ← hv]
  | cons e rest ih =>
    obtain ⟨t, bt⟩ := e
    intro v hb hv
    unfold AList.set
    rw [get?_cons] at hb
    by_cases h : t = k
    · simp [h] at hb
    · simp only [h, if_false] at hb ⊢
      unfold specWallet at hv ⊢
      cases hpt : AList.get? p t with
      | none => simp [hpt, bind, Option.bind] at hv
      | some pt =>
        cases hr : specWallet p rest with
        | none => simp [hpt, hr, bind, Option.bind] at hv
        | some r =>
          simp [hpt, hr, bind, Option.bind] at hv
          rw [ih r hb hr]
          simp [bind, Option.bind]
          rw [← hv]; ring

/-- all balances non-negative -/
def NonNeg (w : Wallet) : Prop := ∀ e ∈ w, 0 ≤ e.2

theorem nonneg_set (w : Wallet) (k : String) (x : Rat) (hw : NonNeg w) (hx : 0 ≤ x) : NonNeg (AList.set w k x) := by
  induction w with
  | nil => intro e he; simp [AList.set] at he; subst he; exact hx
  | cons a rest ih =>
    obtain ⟨t, b⟩ := a
    have hrest : NonNeg rest := fun e he => hw e (List.mem_cons_of_mem _ he)
    unfold AList.set
    by_cases h : t = k
    · simp only [h, if_true]
      intro e he
      rcases List.mem_cons.mp he with rfl | he
      · exact hx
      · exact hrest e he
    · simp only [h, if_false]
      intro e he
      rcases List.mem_cons.mp he with rfl | he
      · exact hw _ (List.mem_cons_self)
      · exact ih hrest e he

theorem nonneg_get (w : Wallet) (k : String) (b : Rat) (hw : NonNeg w) (h : AList.get? w k = some b) : 0 ≤ b := by
  induction w with
  | nil => simp [get?_nil] at h
  | cons a rest ih =>
    obtain ⟨t, bt⟩ := a
    rw [get?_cons] at h
    by_cases ht : t = k
    · simp [ht] at h; subst h; exact hw _ (List.mem_cons_self)
    · simp [ht] at h; exact ih (fun e he => hw e (List.mem_cons_of_mem _ he)) h

end WalletLemmas
end Demeter
