/-
  supply / borrow / withdraw / repay / change_collateral / update / reads: an error exit finds the core
  (supplies, borrows, wallet, action log) exactly as it was.
-/
import Proofs.Lemmas.AaveReject
namespace Demeter.Aave
open Demeter M

variable {cx : ACtx} {env : Env}

theorem kcp_checkCanCollateral (c0 : Core) (tok : String) (coll : Bool) : KCP c0 (checkCanCollateral env tok coll) := by
  unfold checkCanCollateral
  split
  · exact Inv.bind (Inv.ofRes _) (fun _ => Inv.require _ _)
  · exact Inv.pure _

theorem kcp_checkFlag (c0 : Core) (old : Option SupplyInfo) (coll : Bool) : KCP c0 (checkFlag old coll) := by
  unfold checkFlag
  split
  · exact Inv.require _ _
  · exact Inv.pure _

theorem ekp_supply (c0 : Core) (tok : String) (amount : Rat) (coll : Bool) :
    EKP c0 (supply cx env tok amount coll) := by
  have hwd := ekp_walletDebit (cx := cx) c0 tok amount
  unfold supply guardOpen
  refine EKP.bind_require (fun _ => EKP.bind_require (fun _ => ?_))
  refine EKP.bind_kc (kcp_checkCanCollateral c0 tok coll) (fun _ => ?_)
  refine EKP.bind_ofRes (fun st _ => EKP.bind_ofRes (fun pa _ => ?_))
  refine EKP.bind_queryPos (fun old _ => ?_)
  refine EKP.bind_kc (kcp_checkFlag c0 old coll) (fun _ => ?_)
  refine EKP.bind_nf hwd (R := fun _ => True) (fun _ _ _ _ _ => trivial) (fun _ => ?_)
  unfold commitSupply record setUpdated
  nf_tail

theorem ekp_borrow (c0 : Core) (tok : String) (amount? : Option Rat) : EKP c0 (borrow cx env tok amount?) := by
  have hR := readInv_core (cx := cx) (env := env) c0
  have h3 : KCP c0 (collateralValue cx env) := hR.cv
  have h5 : KCP c0 (borrowsView cx env) := hR.bo
  have h9 : KCP c0 (healthFactor cx env) := hR.toReadInv3.healthFactor
  have h10 : KCP c0 (maxLtv cx env) := hR.toReadInv3.maxLtv
  have h11 : KCP c0 (borrowAmountOf cx env tok amount?) := by
    unfold borrowAmountOf
    split
    · exact Inv.pure _
    · exact hR.toReadInv3.maxBorrowAmount tok
  unfold borrow guardOpen
  refine EKP.bind_require (fun _ => ?_)
  refine EKP.bind_kc h11 (fun amount => ?_)
  refine EKP.bind_require (fun _ => ?_)
  refine EKP.bind_ofRes (fun st _ => ?_)
  refine EKP.bind_ofRes (fun r _ => ?_)
  refine EKP.bind_require (fun _ => ?_)
  refine EKP.bind_kc h3 (fun cv => ?_)
  refine EKP.bind_require (fun _ => ?_)
  refine EKP.bind_kc h10 (fun ml => ?_)
  refine EKP.bind_require (fun _ => ?_)
  refine EKP.bind_kc h9 (fun hf => ?_)
  refine EKP.bind_require (fun _ => ?_)
  refine EKP.bind_ofRes (fun p _ => ?_)
  refine EKP.bind_kc h5 (fun bv => ?_)
  refine EKP.bind_ofRes (fun needed _ => ?_)
  refine EKP.bind_require (fun _ => ?_)
  refine EKP.bind_ofRes (fun base _ => ?_)
  refine EKP.bind_queryPos (fun old _ => ?_)
  refine NFP.ekp ?_
  unfold commitBorrow record setUpdated
  nf_tail

/-! ### withdraw -/

theorem kcp_trial {c0 : Core} {tok : String} {info : SupplyInfo} (hg : AList.get? c0.supplies tok = some info) (tb : Rat) :
    KCP c0 (trialHealthFactor cx env tok info tb) := by
  intro s hs
  unfold trialHealthFactor
  rw [run_bind]
  simp only [run_modify]
  rw [finally'_snd]
  generalize hs1 : trialSet tok { info with base := tb } s = s1
  obtain ⟨k1, _, _⟩ := healthFactor_keeps (cx := cx) (env := env) s1
  generalize (healthFactor cx env s1).2 = s2 at k1
  have e1 : s2.supplies = AList.set s.supplies tok { info with base := tb } :=
    (congrArg Frame.supplies k1).trans (by rw [← hs1]; rfl)
  have e2 : s2.borrows = s.borrows := (congrArg Frame.borrows k1).trans (by rw [← hs1]; rfl)
  have e3 : s2.wallet = s.wallet := (congrArg Frame.wallet k1).trans (by rw [← hs1]; rfl)
  have e4 : s2.actions = s.actions := (congrArg Frame.actions k1).trans (by rw [← hs1]; rfl)
  have hsup : s.supplies = c0.supplies := by rw [← hs]; rfl
  show (⟨AList.set s2.supplies tok info, s2.borrows, s2.wallet, s2.actions⟩ : Core) = c0
  rw [e1, e2, e3, e4, aset_aset, hsup, aset_of_get hg, ← hsup]
  exact hs

theorem ekp_withdraw (c0 : Core) (tok : String) (amount? : Option Rat) : EKP c0 (withdraw cx env tok amount?) := by
  have hR := readInv_core (cx := cx) (env := env) c0
  have h6 : KCP c0 (getSupply cx env tok) := hR.toReadInv3.getSupply tok
  have htail : ∀ (amount : Rat) (st : TokStatus), EKP c0 (do
      let fin ← subSupplyAmount cx env tok amount
      walletCredit cx tok amount
      record (.withdraw tok amount (cx.mul fin st.liqIdx))
      setUpdated) := by
    intro amount st
    refine EKP.bind_nf (ekp_subSupplyAmount c0 tok amount) (R := fun _ => True) (fun _ _ _ _ _ => trivial) (fun fin => ?_)
    unfold walletCredit record setUpdated
    nf_tail
  unfold withdraw guardOpen lookupSupply
  refine EKP.bind_require (fun _ => ?_)
  refine EKP.bind_ofRes (fun st _ => ?_)
  refine EKP.bind_kc h6 (fun sv => ?_)
  refine EKP.bind_require (fun _ => EKP.bind_require (fun _ => ?_))
  refine EKP.bind_queryPos (fun info hq => ?_)
  have hg : AList.get? c0.supplies tok = some info := by
    cases h : AList.get? c0.supplies tok with
    | none => rw [h] at hq; cases hq
    | some i => rw [h] at hq; cases hq; rfl
  refine EKP.bind_kc ?_ (fun _ => htail _ _)
  unfold checkWithdrawHf
  split
  · exact Inv.bind (Inv.ofRes _) (fun _ => Inv.bind (kcp_trial hg _) (fun _ => Inv.require _ _))
  · exact Inv.pure _

/-! ### repay -/

theorem inv_borrows_subSupplyAmount (b : AList String BorrowInfo) (tok : String) (amt : Rat) :
    Inv (fun s => s.borrows = b) (subSupplyAmount cx env tok amt) := by
  unfold subSupplyAmount commitSubSupply
  refine Inv.bind (Inv.queryPos _) (fun old => ?_)
  cases old with
  | none => dsimp only; split; exact Inv.pure _; exact Inv.throw _
  | some info =>
    dsimp only
    exact Inv.bind (Inv.ofRes _) (fun _ => Inv.bind (Inv.ofRes _) (fun _ =>
      Inv.bind (Inv.modify _ (fun _ h => h)) (fun _ => Inv.pure _)))

theorem divE_ok_ne {a b x : Rat} (h : divE cx a b = .ok x) : b ≠ 0 := by
  unfold divE at h
  intro hb
  simp [hb] at h

theorem inv_borrows_takeRepayment (b : AList String BorrowInfo) (tok ctok : String) (payback : Rat) (withColl : Bool) :
    Inv (fun s => s.borrows = b) (takeRepayment cx env tok ctok payback withColl) := by
  unfold takeRepayment
  split
  · exact Inv.bind (Inv.ofRes _) (fun _ => Inv.bind (inv_borrows_subSupplyAmount b _ _) (fun _ => Inv.pure _))
  · intro s hs
    unfold walletDebit
    split <;> exact hs

theorem ekp_takeRepayment (c0 : Core) (tok ctok : String) (payback : Rat) (withColl : Bool) :
    EKP c0 (takeRepayment cx env tok ctok payback withColl) := by
  unfold takeRepayment
  split
  · refine EKP.bind_ofRes (fun inColl _ => ?_)
    exact EKP.bind_nf (ekp_subSupplyAmount c0 _ inColl) (R := fun _ => True) (fun _ _ _ _ _ => trivial) (fun _ => NFP.pure _)
  · exact ekp_walletDebit c0 tok payback

theorem ekp_repay (c0 : Core) (tok : String) (amount? : Option Rat) (withColl : Bool) (collTok? : Option String) :
    EKP c0 (repay cx env tok amount? withColl collTok?) := by
  have hR := readInv_core (cx := cx) (env := env) c0
  have h4 : KCP c0 (suppliesView cx env) := hR.su
  have h6 : ∀ k, KCP c0 (getSupply cx env k) := fun k => hR.toReadInv3.getSupply k
  have h7 : KCP c0 (getBorrow cx env tok) := hR.toReadInv3.getBorrow tok
  have hcap : ∀ t c a w, KCP c0 (repayAmountOf cx env t c a w) := by
    intro t c a w
    unfold repayAmountOf repayCollateralCap
    repeat (first | exact h6 _ | inv_step)
  unfold repay guardOpen lookupBorrow
  refine EKP.bind_require (fun _ => ?_)
  refine EKP.bind_ofRes (fun st hst => ?_)
  refine EKP.bind_kc h7 (fun bv => ?_)
  refine EKP.bind_kc (hcap _ _ _ _) (fun payback => ?_)
  refine EKP.bind_ofRes (fun pbBase hpb => ?_)
  have hnz : st.varIdx ≠ 0 := divE_ok_ne hpb
  refine EKP.bind_require (fun _ => ?_)
  refine EKP.bind_queryPos (fun info hq => ?_)
  have hgb : AList.get? c0.borrows tok = some info := by
    cases h : AList.get? c0.borrows tok with
    | none => rw [h] at hq; cases hq
    | some i => rw [h] at hq; cases hq; rfl
  refine EKP.bind_require (fun _ => ?_)
  refine EKP.bind_ofRes (fun rr _ => ?_)
  refine EKP.bind_require (fun _ => ?_)
  refine EKP.bind_nf (ekp_takeRepayment c0 _ _ _ _) (R := fun s' => s'.borrows = c0.borrows) ?_ (fun _ => ?_)
  · intro s hs a s' hrun
    have := inv_borrows_takeRepayment (cx := cx) (env := env) c0.borrows tok (collTok?.getD tok) payback withColl s
      (by rw [← hs]; rfl)
    rw [hrun] at this; exact this
  · intro s' hs'
    rw [run_bind, subBorrowAmount_run payback (by rw [hs']; exact hgb) hst hnz]
    exact ⟨(), rfl⟩

/-! ### change_collateral (in a coherent state the health-factor evaluation cannot raise) -/

theorem mapM_res_ok {α β : Type} {f : α → Res β} : ∀ {l : List α}, (∀ a ∈ l, ∃ b, f a = .ok b) → ∃ bs, l.mapM f = .ok bs := by
  intro l
  induction l with
  | nil => intro _; exact ⟨[], rfl⟩
  | cons a l ih =>
    intro h
    obtain ⟨b, hb⟩ := h a (List.mem_cons_self ..)
    obtain ⟨bs, hbs⟩ := ih (fun x hx => h x (List.mem_cons_of_mem _ hx))
    exact ⟨b :: bs, by rw [List.mapM_cons, hb, hbs]; rfl⟩

theorem hfOf_ok {colls bors : AList String Rat} (h : Covers env colls) : ∃ x, hfOf cx env colls bors = .ok x := by
  unfold hfOf
  obtain ⟨ts, hts⟩ := mapM_res_ok (f := fun (p : String × Rat) => do let r ← env.riskOf p.1; pure (cx.mul p.2 r.lt))
    (l := colls) (by
      intro p hp
      obtain ⟨_, _, ⟨r, hr⟩⟩ := h p.1 (mem_keys_of_mem hp)
      exact ⟨cx.mul p.2 r.lt, by rw [hr]; rfl⟩)
  rw [hts]
  exact ⟨_, rfl⟩

theorem specHealthFactor_ok {sup : AList String SupplyInfo} {bor : AList String BorrowInfo}
    (h1 : Covers env sup) (h2 : Covers env bor) : ∃ x, specHealthFactor cx env sup bor = .ok x := by
  obtain ⟨cs, hcs⟩ := specColl_ok (cx := cx) h1
  obtain ⟨bs, hbs⟩ := specBorAmt_ok (cx := cx) h2
  have hc : Covers env cs := by
    intro k hk
    have : keys cs = keys (collEntries sup) := scratchMap_keys hcs
    rw [this] at hk
    unfold keys at hk
    obtain ⟨p, hp, rfl⟩ := List.mem_map.mp hk
    exact h1 p.1 (mem_keys_of_mem (collEntries_sub hp))
  obtain ⟨x, hx⟩ := hfOf_ok (cx := cx) (bors := bs) hc
  exact ⟨x, by unfold specHealthFactor; rw [hcs, hbs]; exact hx⟩

/-- `change_collateral` as repaired: whatever makes it raise — closed market, token not supplied, token not admitted as
    collateral, health factor below 1 after switching off, **or the health-factor evaluation itself raising** (missing price or
    risk row, zero index) — the positions, wallet and log are as before.  No coherence hypothesis. -/
theorem changeCollateral_reject (s : St) (tok : String) (coll : Bool) (e : Err)
    (he : (changeCollateral cx env tok coll s).1 = .error e) : (changeCollateral cx env tok coll s).2.core = s.core := by
  unfold changeCollateral guardOpen lookupSupply at he ⊢
  cases hopen : env.isOpen with
  | false => rw [run_bind]; rfl
  | true =>
    rw [hopen] at he
    rw [run_bind] at he ⊢
    simp only [run_require_true] at he ⊢
    rw [run_bind, run_queryPos] at he ⊢
    cases hg : AList.get? s.supplies tok with
    | none => simp only [optRes]
    | some info =>
      simp only [hg, optRes] at he ⊢
      by_cases hsame : (info.coll == coll) = true
      · simp only [hsame, if_true] at he
        cases he
      · simp only [hsame, Bool.false_eq_true, if_false] at he ⊢
        rcases hcc : checkCanCollateral env tok coll s with ⟨rc, sc⟩
        have hsc : sc = s := by have := checkCanCollateral_snd env tok coll s; rw [hcc] at this; exact this
        subst hsc
        cases rc with
        | error e' => rw [run_bind_err hcc]
        | ok u =>
        rw [run_bind_ok hcc] at he ⊢
        generalize hs1 : (commitFlag tok { info with coll := coll } sc).2 = s1
        have hrun1 : commitFlag tok { info with coll := coll } sc = (.ok (), s1) := by rw [← hs1]; rfl
        rw [run_bind_ok hrun1] at he ⊢
        cases coll with
        | true =>
          simp only [Bool.not_true, Bool.false_eq_true, if_false] at he
          cases he
        | false =>
          simp only [Bool.not_false, if_true] at he ⊢
          obtain ⟨k1, _, _⟩ := healthFactor_keeps (cx := cx) (env := env) s1
          rcases hhf : healthFactor cx env s1 with ⟨r, s2⟩
          rw [hhf] at k1
          dsimp only at k1
          have e1 : s2.supplies = AList.set sc.supplies tok { info with coll := false } :=
            (congrArg Frame.supplies k1).trans (by rw [← hs1]; rfl)
          have e2 : s2.borrows = sc.borrows := (congrArg Frame.borrows k1).trans (by rw [← hs1]; rfl)
          have e3 : s2.wallet = sc.wallet := (congrArg Frame.wallet k1).trans (by rw [← hs1]; rfl)
          have e4 : s2.actions = sc.actions := (congrArg Frame.actions k1).trans (by rw [← hs1]; rfl)
          have hback : (commitFlag tok info s2).2.core = sc.core := by
            show (⟨AList.set s2.supplies tok info, s2.borrows, s2.wallet, s2.actions⟩ : Core) = sc.core
            rw [e1, e2, e3, e4, aset_aset, aset_of_get hg]
            rfl
          cases r with
          | error e' =>
            rw [run_bind_err (run_onError_err hhf)]
            exact hback
          | ok x =>
            rw [run_bind_ok (run_onError_ok hhf)] at he ⊢
            by_cases hlow : x.ltR Gen.aaveHfThreshold = true
            · simp only [hlow, if_true] at he ⊢
              simp only [run_bind, run_throw]
              exact hback
            · simp only [hlow, Bool.false_eq_true, if_false] at he
              simp [run_bind, setUpdated] at he

end Demeter.Aave
