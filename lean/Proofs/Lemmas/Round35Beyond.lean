/-
  Round35 — part 8: the magnitude hypothesis cannot be dropped.

  `x = 1/(124·10^59998)`: the denominator has 60 001 digits but `Num.ilog10` reports 59 999 (+1 = 60 000 digits) because
  its bit-length estimate is short by two there.  `sigExp` then chooses an exponent one too large, the mantissa keeps 34
  digits instead of 35, and the relative error of the model's `round35` is `6.0·10⁻³⁵ > 5·10⁻³⁵`.
  Everything is derived symbolically for an abstract denominator (`rel_err_fails_aux`) so that neither the elaborator nor
  the kernel is ever asked to evaluate `Nat.log2` of a 200 000-bit literal by unfolding.
-/
import Proofs.Lemmas.Round35Ctx
namespace Demeter.Numerics
open Demeter
set_option exponentiation.threshold 200000
local notation "T" => (10 : ℚ)

theorem sigExp_eval (p n d A B : ℕ) (hA : ndigits n = A) (hB : ndigits d = B) :
    sigExp p n d =
      if (scale10 n d ((A:ℤ) - (B:ℤ) - (p:ℤ))).1 ≥ (scale10 n d ((A:ℤ) - (B:ℤ) - (p:ℤ))).2 * pow10 p
      then (A:ℤ) - (B:ℤ) - (p:ℤ) + 1 else (A:ℤ) - (B:ℤ) - (p:ℤ) := by
  subst hA hB; unfold sigExp; rfl

theorem scale10_neg (n d k : ℕ) (hk : 0 < k) : scale10 n d (-(k:ℤ)) = (n * 10 ^ k, d) := by
  unfold scale10 pow10
  have : ¬ (-(k:ℤ) ≥ 0) := by omega
  rw [if_neg this]; simp

/-- everything about the witness, for an abstract `D` (so that nothing tries to evaluate `Nat.log2 D`) -/
theorem rel_err_fails_aux (D M : ℕ) (hM : 0 < M) (hD : D = 124 * M) (hlog : D.log2 = 199315)
    (h3 : 10 ^ (199315 * 1233 / 4096 + 1) ≤ D) (hlt : ¬ (D * 10 ^ 35 ≤ 1 * 10 ^ 60034))
    (hMq : T ^ (60034:ℕ) = T ^ (36:ℕ) * (M:ℚ)) :
    ¬ |round35 (1 / (D : ℚ)) - 1 / (D : ℚ)| ≤ EPS35 * |1 / (D : ℚ)| := by
  have hD0 : D ≠ 0 := by omega
  have hDq : (0:ℚ) < (D:ℚ) := by exact_mod_cast Nat.pos_of_ne_zero hD0
  have hMq0 : (0:ℚ) < (M:ℚ) := by exact_mod_cast hM
  have hx : (0:ℚ) < 1 / (D:ℚ) := by positivity
  have hden : ((1:ℚ) / (D:ℚ)).den = D := by
    rw [one_div, Rat.inv_natCast_den, if_neg hD0]
  have hnum : ((1:ℚ) / (D:ℚ)).num.natAbs = 1 := by
    rw [one_div, Rat.inv_natCast_num]
    have : (0:ℤ) < (D:ℤ) := by omega
    rw [Int.sign_eq_one_of_pos this]; rfl
  have hdig : ndigits D = 59999 + 1 := by
    unfold ndigits
    rw [ilog10_eval _ _ hD0 hlog, if_pos h3]
  have h1 : ndigits 1 = 1 := by decide
  have hsexp : sexp 35 (1 / (D : ℚ)) = -((60034:ℕ):ℤ) := by
    unfold sexp
    rw [hden, hnum, sigExp_eval 35 1 D 1 (59999 + 1) h1 hdig]
    have e0 : ((1:ℕ):ℤ) - ((59999 + 1:ℕ):ℤ) - ((35:ℕ):ℤ) = -((60034:ℕ):ℤ) := by norm_num
    rw [e0, scale10_neg 1 D 60034 (by decide)]
    have hlt' : ¬ ((1 * 10 ^ 60034, D).1 ≥ (1 * 10 ^ 60034, D).2 * pow10 35) := hlt
    rw [if_neg hlt']
  -- the mantissa
  have hTe : T ^ (-((60034:ℕ):ℤ)) = (T ^ (36:ℕ) * (M:ℚ))⁻¹ := by
    rw [zpow_neg, zpow_natCast, hMq]
  have hv : 1 / (D:ℚ) / T ^ (-((60034:ℕ):ℤ)) = ((10 ^ 36 : ℕ) : ℚ) / ((124 : ℕ) : ℚ) := by
    rw [hTe, hD]; push_cast; field_simp; norm_num
  have hq : rheQ (((10 ^ 36 : ℕ) : ℚ) / ((124 : ℕ) : ℚ)) = 8064516129032258064516129032258065 := by
    rw [← rhe_eq _ _ (by decide)]; decide
  have hr : round35 (1 / (D:ℚ)) = (8064516129032258064516129032258065 : ℚ) * (T ^ (36:ℕ) * (M:ℚ))⁻¹ := by
    unfold round35
    rw [roundSig_pos 35 hx]
    unfold rpos
    rw [hsexp, hv, hq, hTe]; push_cast; ring
  have hxv : 1 / (D:ℚ) = (10 ^ 36 / 124 : ℚ) * (T ^ (36:ℕ) * (M:ℚ))⁻¹ := by
    rw [hD]; push_cast; field_simp
  rw [hr, hxv]
  have hpos : (0:ℚ) < (T ^ (36:ℕ) * (M:ℚ))⁻¹ := by positivity
  generalize (T ^ (36:ℕ) * (M:ℚ))⁻¹ = u at *
  rw [← sub_mul, abs_mul, abs_mul, abs_of_pos hpos, ← mul_assoc]
  intro h
  have := le_of_mul_le_mul_right h hpos
  unfold EPS35 at this
  norm_num [abs_le] at this

/-- the denominator of the witness: `1.24·10^60000`, 60001 digits, `ilog10` says 59999 -/
def bigD : ℕ := 124 * 10 ^ 59998

theorem bigD_log2 : bigD.log2 = 199315 := by
  have hne : bigD ≠ 0 := Nat.pos_iff_ne_zero.1 (Nat.mul_pos (by decide) (Nat.pow_pos (by decide)))
  have h1 : 2 ^ 199315 ≤ bigD := by decide +kernel
  have h2 : bigD < 2 ^ (199315 + 1) := by decide +kernel
  exact (Nat.log2_eq_iff hne).2 ⟨h1, h2⟩

theorem bigD_not_InRange : ¬ InRange (1 / (bigD : ℚ)) := by
  have hne : bigD ≠ 0 := Nat.pos_iff_ne_zero.1 (Nat.mul_pos (by decide) (Nat.pow_pos (by decide)))
  intro h
  have hden : ((1:ℚ) / (bigD:ℚ)).den = bigD := by
    rw [one_div, Rat.inv_natCast_den, if_neg hne]
  have := h.2
  rw [hden, bigD_log2] at this
  exact absurd this (by decide)

/-- **outside the magnitude range the model's `round35` loses a digit**: for `x = 1/(1.24·10^60000)` the relative
    error is `6.0·10⁻³⁵ > 5·10⁻³⁵` (CPython itself rounds this number correctly) -/
theorem round35_rel_err_fails_beyond :
    ¬ |round35 (1 / (bigD : ℚ)) - 1 / (bigD : ℚ)| ≤ EPS35 * |1 / (bigD : ℚ)| := by
  have h3 : 10 ^ (199315 * 1233 / 4096 + 1) ≤ bigD := by decide +kernel
  have hlt : ¬ (bigD * 10 ^ 35 ≤ 1 * 10 ^ 60034) := by decide +kernel
  have hMq : (10:ℚ) ^ (60034:ℕ) = (10:ℚ) ^ (36:ℕ) * ((10 ^ 59998 : ℕ) : ℚ) := by
    rw [Nat.cast_pow, Nat.cast_ofNat, ← pow_add]
  exact rel_err_fails_aux bigD (10 ^ 59998) (Nat.pow_pos (by decide)) rfl bigD_log2 h3 hlt hMq

end Demeter.Numerics
