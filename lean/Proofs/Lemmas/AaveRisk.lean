/-
  Helper lemmas for the Aave risk / liquidation model (component `aaverisk`, C11 and C12):
  Python `sum` under the exact context, the dict operations `updFirst` / `eraseP` on lists with unique keys,
  `sub_base_amount`, well-formedness of a portfolio.
-/
import Demeter.AaveRisk
import Proofs.Lemmas.Exact
import Mathlib.Tactic.Linarith
import Mathlib.Tactic.Ring
import Mathlib.Tactic.Positivity
import Mathlib.Tactic.NormNum
import Mathlib.Algebra.Order.Field.Rat
import Mathlib.Algebra.BigOperators.Group.List.Basic
namespace Demeter.AaveRisk
open Demeter

/-! ### Python `sum` in the exact context -/

theorem foldl_add_exact (xs : List Rat) (a : Rat) :
    xs.foldl (fun a x => NumCtx.exact.add a x) a = a + xs.sum := by
  induction xs generalizing a with
  | nil => simp
  | cons x xs ih => rw [List.foldl_cons, ih, List.sum_cons]; simp [add_assoc]

@[simp] theorem dsum_exact (xs : List Rat) : dsum NumCtx.exact xs = xs.sum := by
  unfold dsum; rw [foldl_add_exact]; simp

theorem sum_map_nonneg {α : Type} (f : α → Rat) (l : List α) (h : ∀ x ∈ l, 0 ≤ f x) : 0 ≤ (l.map f).sum := by
  induction l with
  | nil => simp
  | cons x r ih =>
    rw [List.map_cons, List.sum_cons]
    have h1 := h x (by simp)
    have h2 := ih (fun y hy => h y (by simp [hy]))
    linarith

theorem le_sum_map_of_mem {α : Type} (f : α → Rat) (l : List α) (h : ∀ x ∈ l, 0 ≤ f x) {a : α} (ha : a ∈ l) :
    f a ≤ (l.map f).sum := by
  induction l with
  | nil => simp at ha
  | cons x r ih =>
    rw [List.map_cons, List.sum_cons]
    rcases List.mem_cons.mp ha with rfl | hr
    · have := sum_map_nonneg f r (fun y hy => h y (by simp [hy])); linarith
    · have h1 := h x (by simp)
      have := ih (fun y hy => h y (by simp [hy])) hr; linarith

theorem sum_map_eq_zero_of_nonneg {α : Type} (f : α → Rat) (l : List α) (h : ∀ x ∈ l, 0 ≤ f x)
    (hs : (l.map f).sum ≤ 0) : ∀ x ∈ l, f x = 0 := by
  intro x hx
  have h1 := le_sum_map_of_mem f l h hx
  have h2 := h x hx
  linarith

theorem sum_map_le_sum_map {α : Type} (f g : α → Rat) (l : List α) (h : ∀ x ∈ l, f x ≤ g x) :
    (l.map f).sum ≤ (l.map g).sum := by
  induction l with
  | nil => simp
  | cons x r ih =>
    rw [List.map_cons, List.sum_cons, List.map_cons, List.sum_cons]
    have h1 := h x (by simp)
    have h2 := ih (fun y hy => h y (by simp [hy]))
    linarith

theorem sum_filter_map {α : Type} (q : α → Bool) (f : α → Rat) (l : List α) :
    ((l.filter q).map f).sum = (l.map (fun x => if q x then f x else 0)).sum := by
  induction l with
  | nil => simp
  | cons x r ih =>
    by_cases hq : q x = true
    · rw [List.filter_cons_of_pos hq]; simp [hq, ih]
    · rw [List.filter_cons_of_neg hq]; simp [hq, ih]

/-! ### `updFirst` / `eraseP` on lists whose keys are unique -/

section dict
variable {α : Type} (key : α → String)

theorem map_key_updFirst (f : α → α) (hf : ∀ x, key (f x) = key x) (t : String) (l : List α) :
    (updFirst (fun x => decide (key x = t)) f l).map key = l.map key := by
  induction l with
  | nil => rfl
  | cons x r ih =>
    unfold updFirst
    by_cases h : key x = t <;> simp [h, hf, ih]

theorem mem_updFirst (q : α → Bool) (f : α → α) {y : α} {l : List α} (h : y ∈ updFirst q f l) :
    y ∈ l ∨ ∃ x ∈ l, q x = true ∧ y = f x := by
  induction l with
  | nil => simp [updFirst] at h
  | cons x r ih =>
    unfold updFirst at h
    by_cases hq : q x = true
    · rw [if_pos hq] at h
      rcases List.mem_cons.mp h with rfl | hr
      · exact Or.inr ⟨x, by simp, hq, rfl⟩
      · exact Or.inl (by simp [hr])
    · rw [if_neg hq] at h
      rcases List.mem_cons.mp h with rfl | hr
      · exact Or.inl (by simp)
      · rcases ih hr with h1 | ⟨z, hz, hqz, rfl⟩
        · exact Or.inl (by simp [h1])
        · exact Or.inr ⟨z, by simp [hz], hqz, rfl⟩

/-- with unique keys, an element found by key is *the* element -/
theorem eq_of_mem_of_key_eq {l : List α} (hn : (l.map key).Nodup) {a b : α} (ha : a ∈ l) (hb : b ∈ l)
    (hk : key a = key b) : a = b := by
  induction l with
  | nil => simp at ha
  | cons x r ih =>
    rw [List.map_cons, List.nodup_cons] at hn
    rcases List.mem_cons.mp ha with rfl | har <;> rcases List.mem_cons.mp hb with rfl | hbr
    · rfl
    · exact absurd (hk ▸ List.mem_map_of_mem (f := key) hbr) hn.1
    · exact absurd (hk ▸ List.mem_map_of_mem (f := key) har) hn.1
    · exact ih hn.2 har hbr

theorem sum_updFirst (g : α → Rat) (f : α → α) {l : List α} (hn : (l.map key).Nodup) {c : α} (hc : c ∈ l) :
    ((updFirst (fun x => decide (key x = key c)) f l).map g).sum = (l.map g).sum - g c + g (f c) := by
  induction l with
  | nil => simp at hc
  | cons x r ih =>
    unfold updFirst
    by_cases hk : key x = key c
    · have : x = c := eq_of_mem_of_key_eq key hn (by simp) hc hk
      subst this
      simp; ring
    · have hcr : c ∈ r := by
        rcases List.mem_cons.mp hc with rfl | h
        · exact absurd rfl hk
        · exact h
      rw [List.map_cons, List.nodup_cons] at hn
      simp only [hk, decide_false, Bool.false_eq_true, if_false, List.map_cons, List.sum_cons]
      rw [ih hn.2 hcr]; ring

theorem sum_eraseP (g : α → Rat) {l : List α} (hn : (l.map key).Nodup) {c : α} (hc : c ∈ l) :
    ((l.eraseP (fun x => decide (key x = key c))).map g).sum = (l.map g).sum - g c := by
  induction l with
  | nil => simp at hc
  | cons x r ih =>
    by_cases hk : key x = key c
    · have : x = c := eq_of_mem_of_key_eq key hn (by simp) hc hk
      subst this
      rw [List.eraseP_cons_of_pos (by simp)]
      simp
    · have hcr : c ∈ r := by
        rcases List.mem_cons.mp hc with rfl | h
        · exact absurd rfl hk
        · exact h
      rw [List.map_cons, List.nodup_cons] at hn
      rw [List.eraseP_cons_of_neg (by simp [hk])]
      simp only [List.map_cons, List.sum_cons]
      rw [ih hn.2 hcr]; ring

theorem find_updFirst_ne (f : α → α) (hf : ∀ x, key (f x) = key x) (t u : String) (htu : u ≠ t) (l : List α) :
    (updFirst (fun x => decide (key x = t)) f l).find? (fun x => decide (key x = u))
      = l.find? (fun x => decide (key x = u)) := by
  induction l with
  | nil => rfl
  | cons x r ih =>
    unfold updFirst
    by_cases h : key x = t
    · have hx : key x ≠ u := fun e => htu (e ▸ h)
      simp [h, hf, List.find?_cons]
      rw [h] at hx; simp [hx]
    · simp only [h, decide_false, Bool.false_eq_true, if_false, List.find?_cons, ih]

theorem find_updFirst_self (f : α → α) (hf : ∀ x, key (f x) = key x) {l : List α} (hn : (l.map key).Nodup)
    {c : α} (hc : c ∈ l) :
    (updFirst (fun x => decide (key x = key c)) f l).find? (fun x => decide (key x = key c)) = some (f c) := by
  induction l with
  | nil => simp at hc
  | cons x r ih =>
    unfold updFirst
    by_cases hk : key x = key c
    · have : x = c := eq_of_mem_of_key_eq key hn (by simp) hc hk
      subst this
      simp [hf]
    · have hcr : c ∈ r := by
        rcases List.mem_cons.mp hc with rfl | h
        · exact absurd rfl hk
        · exact h
      rw [List.map_cons, List.nodup_cons] at hn
      simp only [hk, decide_false, Bool.false_eq_true, if_false, List.find?_cons]
      exact ih hn.2 hcr

theorem find_eraseP_ne (t u : String) (htu : u ≠ t) (l : List α) :
    (l.eraseP (fun x => decide (key x = t))).find? (fun x => decide (key x = u))
      = l.find? (fun x => decide (key x = u)) := by
  induction l with
  | nil => rfl
  | cons x r ih =>
    by_cases h : key x = t
    · have hx : key x ≠ u := fun e => htu (e ▸ h)
      rw [List.eraseP_cons_of_pos (by simp [h])]
      simp [hx]
    · rw [List.eraseP_cons_of_neg (by simp [h])]
      simp only [List.find?_cons, ih]

theorem find_eraseP_self {l : List α} (hn : (l.map key).Nodup) (t : String) :
    (l.eraseP (fun x => decide (key x = t))).find? (fun x => decide (key x = t)) = none := by
  induction l with
  | nil => rfl
  | cons x r ih =>
    rw [List.map_cons, List.nodup_cons] at hn
    by_cases h : key x = t
    · rw [List.eraseP_cons_of_pos (by simp [h])]
      rw [List.find?_eq_none]
      intro y hy
      have : key y ∈ r.map key := List.mem_map_of_mem (f := key) hy
      simp only [decide_eq_true_eq]
      intro e
      exact hn.1 (h ▸ e ▸ this)
    · rw [List.eraseP_cons_of_neg (by simp [h])]
      simp only [List.find?_cons, h, decide_false]
      exact ih hn.2

theorem find_of_mem {l : List α} (hn : (l.map key).Nodup) {c : α} (hc : c ∈ l) :
    l.find? (fun x => decide (key x = key c)) = some c := by
  induction l with
  | nil => simp at hc
  | cons x r ih =>
    by_cases hk : key x = key c
    · have : x = c := eq_of_mem_of_key_eq key hn (by simp) hc hk
      subst this
      simp
    · have hcr : c ∈ r := by
        rcases List.mem_cons.mp hc with rfl | h
        · exact absurd rfl hk
        · exact h
      rw [List.map_cons, List.nodup_cons] at hn
      simp only [List.find?_cons, hk, decide_false]
      exact ih hn.2 hcr

end dict

/-! ### `sub_base_amount` -/

theorem minTokenValue_pos : 0 < Gen.arMinTokenValue := by unfold Gen.arMinTokenValue; norm_num

/-- what `sub_base_amount` drops when it snaps to 0 -/
def snapDust (old v : Rat) : Rat := if old - v < Gen.arMinTokenValue then old - v else 0

theorem subBase_exact (old v : Rat) : subBase NumCtx.exact old v = old - v - snapDust old v := by
  unfold subBase snapDust
  simp only [NumCtx.exact_sub]
  by_cases h : old - v < Gen.arMinTokenValue <;> simp [h]

theorem subBase_nonneg (old v : Rat) : 0 ≤ subBase NumCtx.exact old v := by
  unfold subBase
  simp only [NumCtx.exact_sub]
  by_cases h : old - v < Gen.arMinTokenValue
  · simp [h]
  · simp only [h, if_false]
    have := minTokenValue_pos; linarith

theorem snapDust_bounds {old v : Rat} (h : v ≤ old) : 0 ≤ snapDust old v ∧ snapDust old v < Gen.arMinTokenValue := by
  unfold snapDust
  split
  · constructor <;> linarith
  · exact ⟨le_refl _, minTokenValue_pos⟩

theorem snapDust_eq_zero {old v : Rat} (h : Gen.arMinTokenValue ≤ old - v) : snapDust old v = 0 := by
  unfold snapDust; rw [if_neg (by linarith)]

/-! ### well-formed portfolios -/

/-- prices and indices are positive; the risk parameters are sane -/
structure Row.WF (r : Row) : Prop where
  li_pos : 0 < r.liqIndex
  bi_pos : 0 < r.borIndex
  price_pos : 0 < r.price
  ltv_nonneg : 0 ≤ r.ltv
  lt_nonneg : 0 ≤ r.lt
  bonus_nonneg : 0 ≤ r.bonus

/-- scaled balances are not negative, keys are unique (the containers are dicts), rows are well formed, and a
    supply used as collateral has a positive liquidation threshold (it holds for every collateral-enabled token of
    the risk tables under /repo/tests/aave_risk_parameters; the harness re-checks that on every run). -/
structure Portfolio.WF (p : Portfolio) : Prop where
  sup : ∀ s ∈ p.supplies, 0 ≤ s.base ∧ s.row.WF ∧ (s.coll = true → 0 < s.row.lt)
  deb : ∀ d ∈ p.debts, 0 ≤ d.base ∧ d.row.WF
  supKeys : (p.supplies.map (·.tok)).Nodup
  debKeys : (p.debts.map (·.tok)).Nodup

theorem Supply.amount_exact (s : Supply) : s.amount NumCtx.exact = s.base * s.row.liqIndex := rfl
theorem Supply.value_exact (s : Supply) : s.value NumCtx.exact = s.base * s.row.liqIndex * s.row.price := rfl
theorem Debt.amount_exact (d : Debt) : d.amount NumCtx.exact = d.base * d.row.borIndex := rfl
theorem Debt.value_exact (d : Debt) : d.value NumCtx.exact = d.base * d.row.borIndex * d.row.price := rfl

theorem Portfolio.WF.supply_value_nonneg {p : Portfolio} (h : p.WF) {s : Supply} (hs : s ∈ p.supplies) :
    0 ≤ s.value NumCtx.exact := by
  obtain ⟨hb, hr, _⟩ := h.sup s hs
  rw [Supply.value_exact]
  have := hr.li_pos; have := hr.price_pos
  positivity

theorem Portfolio.WF.debt_value_nonneg {p : Portfolio} (h : p.WF) {d : Debt} (hd : d ∈ p.debts) :
    0 ≤ d.value NumCtx.exact := by
  obtain ⟨hb, hr⟩ := h.deb d hd
  rw [Debt.value_exact]
  have := hr.bi_pos; have := hr.price_pos
  positivity

end Demeter.AaveRisk
