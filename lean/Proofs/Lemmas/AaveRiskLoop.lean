/-
  Lemmas about the selection loops and the `while` loop of `_liquidate` (model: `pickDebt`, `pickColl`, `liqLoop`).
-/
import Proofs.Lemmas.AaveRiskStep
namespace Demeter.AaveRisk
open Demeter

/-- the loop condition `0 < health_factor < HEALTH_FACTOR_LIQUIDATION_THRESHOLD` -/
def liqCond (cx : NumCtx) (p : Portfolio) : Bool :=
  (healthFactor cx p).gtB 0 && (healthFactor cx p).ltB Gen.arHfLiqThreshold

theorem liqLoop_eq (cx : NumCtx) (fuel : Nat) (p : Portfolio) (vis : List String) (acts : List LiqAction) :
    liqLoop cx fuel p vis acts =
      if !liqCond cx p then ⟨p, acts, vis, none, false⟩ else
      match pickDebt cx p.debts vis with
      | none => ⟨p, acts, vis, none, false⟩
      | some (d, v) =>
        match fuel with
        | 0 => ⟨p, acts, vis, none, true⟩
        | fuel + 1 =>
          match (pickColl cx p.supplies).1 with
          | none => ⟨p, acts, vis ++ [d.tok], some .attribute, false⟩
          | some c =>
            match doLiquidate cx p c d v with
            | .done p' a => liqLoop cx fuel p' (vis ++ [d.tok]) (acts ++ [a])
            | .rejected => liqLoop cx fuel p (vis ++ [d.tok]) acts
            | .raised e p' => ⟨p', acts, vis ++ [d.tok], some e, false⟩ := by
  rw [liqLoop]
  rfl

/-! ### the debt pick -/

/-- one iteration of the debt-selection loop -/
def pickDebtStep (cx : NumCtx) (visited : List String) (acc : Option (Debt × Rat)) (d : Debt) : Option (Debt × Rat) :=
  let v := d.value cx
  let better : Bool := match acc with
    | none => true
    | some (_, m) => decide (v ≤ m)
  if better && !visited.contains d.tok then some (d, v) else acc

theorem pickDebt_eq (cx : NumCtx) (ds : List Debt) (vis : List String) :
    pickDebt cx ds vis = ds.foldl (pickDebtStep cx vis) none := rfl

theorem pickDebtStep_cases (cx : NumCtx) (vis : List String) (acc : Option (Debt × Rat)) (d : Debt) :
    pickDebtStep cx vis acc d = acc ∨ (d.tok ∉ vis ∧ pickDebtStep cx vis acc d = some (d, d.value cx)) := by
  unfold pickDebtStep
  by_cases hv : d.tok ∈ vis
  · left; simp [hv]
  · cases acc with
    | none => right; simp [hv]
    | some x =>
      obtain ⟨d0, m⟩ := x
      by_cases hle : d.value cx ≤ m
      · right; simp [hv, hle]
      · left; simp [hle]

theorem pickDebt_fold_inv (cx : NumCtx) (vis : List String) (P : Debt → Rat → Prop)
    (l : List Debt) (hl : ∀ d ∈ l, d.tok ∉ vis → P d (d.value cx)) (acc : Option (Debt × Rat))
    (hacc : ∀ d v, acc = some (d, v) → P d v) :
    ∀ d v, l.foldl (pickDebtStep cx vis) acc = some (d, v) → P d v := by
  induction l generalizing acc with
  | nil => simpa using hacc
  | cons x r ih =>
    rw [List.foldl_cons]
    apply ih (fun d hd => hl d (by simp [hd]))
    intro d v hdv
    rcases pickDebtStep_cases cx vis acc x with e | ⟨hv, e⟩
    · rw [e] at hdv; exact hacc d v hdv
    · rw [e] at hdv
      simp only [Option.some.injEq, Prod.mk.injEq] at hdv
      obtain ⟨rfl, rfl⟩ := hdv
      exact hl x (by simp) hv

theorem pickDebt_some {cx : NumCtx} {ds : List Debt} {vis : List String} {d : Debt} {v : Rat}
    (h : pickDebt cx ds vis = some (d, v)) : d ∈ ds ∧ d.tok ∉ vis ∧ v = d.value cx := by
  rw [pickDebt_eq] at h
  exact pickDebt_fold_inv cx vis (fun d v => d ∈ ds ∧ d.tok ∉ vis ∧ v = d.value cx) ds
    (fun d hd hv => ⟨hd, hv, rfl⟩) none (by simp) d v h

theorem pickDebt_fold_some (cx : NumCtx) (vis : List String) (l : List Debt) (x : Debt × Rat) :
    ∃ y, l.foldl (pickDebtStep cx vis) (some x) = some y := by
  induction l generalizing x with
  | nil => exact ⟨x, rfl⟩
  | cons a r ih =>
    rw [List.foldl_cons]
    rcases pickDebtStep_cases cx vis (some x) a with e | ⟨_, e⟩ <;> rw [e] <;> exact ih _

theorem pickDebt_none {cx : NumCtx} {ds : List Debt} {vis : List String}
    (h : pickDebt cx ds vis = none) : ∀ d ∈ ds, d.tok ∈ vis := by
  rw [pickDebt_eq] at h
  induction ds with
  | nil => simp
  | cons a r ih =>
    rw [List.foldl_cons] at h
    by_cases hv : a.tok ∈ vis
    · have e : pickDebtStep cx vis none a = none := by
        unfold pickDebtStep; simp [hv]
      rw [e] at h
      intro d hd
      rcases List.mem_cons.mp hd with rfl | hr
      · exact hv
      · exact ih h d hr
    · have e : pickDebtStep cx vis none a = some (a, a.value cx) := by
        unfold pickDebtStep; simp [hv]
      rw [e] at h
      obtain ⟨y, hy⟩ := pickDebt_fold_some cx vis r (a, a.value cx)
      rw [hy] at h; cases h

/-! ### the collateral pick -/

def pickCollStep (cx : NumCtx) (acc : Option Supply × Rat) (s : Supply) : Option Supply × Rat :=
  let v := s.value cx
  if s.coll && decide (acc.2 ≤ v) then (some s, v) else acc

theorem pickColl_eq (cx : NumCtx) (ss : List Supply) :
    pickColl cx ss = ss.foldl (pickCollStep cx) (none, Gen.arLiqCollStart) := rfl

theorem pickColl_fold_some (cx : NumCtx) (P : Supply → Prop) (l : List Supply) (hl : ∀ s ∈ l, s.coll = true → P s)
    (acc : Option Supply × Rat) (hacc : ∀ c, acc.1 = some c → P c) :
    ∀ c, (l.foldl (pickCollStep cx) acc).1 = some c → P c := by
  induction l generalizing acc with
  | nil => simpa using hacc
  | cons x r ih =>
    rw [List.foldl_cons]
    apply ih (fun s hs => hl s (by simp [hs]))
    intro c hc
    unfold pickCollStep at hc
    simp only [] at hc
    split at hc
    · rename_i hcond
      simp only [Option.some.injEq] at hc
      subst hc
      simp only [Bool.and_eq_true] at hcond
      exact hl x (by simp) hcond.1
    · exact hacc c hc

theorem pickColl_some {cx : NumCtx} {ss : List Supply} {c : Supply} (h : (pickColl cx ss).1 = some c) :
    c ∈ ss ∧ c.coll = true := by
  rw [pickColl_eq] at h
  exact pickColl_fold_some cx (fun c => c ∈ ss ∧ c.coll = true) ss (fun s hs hc => ⟨hs, hc⟩) _ (by simp) c h

/-- as long as nothing has been picked the running maximum is still the start value 0, so a collateral that is
    not picked has a negative value -/
theorem pickColl_fold_none (cx : NumCtx) (l : List Supply) (acc : Option Supply × Rat)
    (h : (l.foldl (pickCollStep cx) acc).1 = none) :
    acc.1 = none ∧ ∀ s ∈ l, s.coll = true → s.value cx < acc.2 := by
  induction l generalizing acc with
  | nil => simpa using h
  | cons x r ih =>
    rw [List.foldl_cons] at h
    obtain ⟨h1, h2⟩ := ih _ h
    unfold pickCollStep at h1 h2
    simp only [] at h1 h2
    by_cases hcond : (x.coll && decide (acc.2 ≤ x.value cx)) = true
    · rw [if_pos hcond] at h1; simp at h1
    · rw [if_neg hcond] at h1 h2
      refine ⟨h1, ?_⟩
      intro s hs hc
      rcases List.mem_cons.mp hs with rfl | hr
      · simp only [Bool.and_eq_true, decide_eq_true_eq, not_and, not_le] at hcond
        exact hcond hc
      · exact h2 s hr hc

theorem pickColl_none {cx : NumCtx} {ss : List Supply} (h : (pickColl cx ss).1 = none) :
    ∀ s ∈ ss, s.coll = true → s.value cx < 0 := by
  rw [pickColl_eq] at h
  have := (pickColl_fold_none cx ss _ h).2
  simpa [Gen.arLiqCollStart] using this

/-! ### unvisited debts: the loop's measure -/

/-- number of keys not yet in `has_liquidated` -/
def unv (ks : List String) (vis : List String) : Nat := (ks.filter (fun k => !vis.contains k)).length

theorem unv_sublist {ks' ks : List String} (h : ks'.Sublist ks) (vis : List String) : unv ks' vis ≤ unv ks vis :=
  (h.filter _).length_le

theorem unv_visit {ks : List String} {vis : List String} {t : String} (ht : t ∈ ks) (hv : t ∉ vis) :
    unv ks (vis ++ [t]) + 1 ≤ unv ks vis := by
  induction ks with
  | nil => simp at ht
  | cons k r ih =>
    unfold unv at ih ⊢
    by_cases hk : k = t
    · subst hk
      have mono : (r.filter (fun k' => !(vis ++ [k]).contains k')).length ≤ (r.filter (fun k' => !vis.contains k')).length := by
        apply List.Sublist.length_le
        apply List.monotone_filter_right
        intro x hx
        simp only [List.contains_eq_mem, List.mem_append, List.mem_singleton, Bool.not_eq_eq_eq_not, Bool.not_true,
          decide_eq_false_iff_not, not_or] at hx ⊢
        exact hx.1
      simp only [List.filter_cons]
      simp [hv]
      simpa using mono
    · have htr : t ∈ r := by
        rcases List.mem_cons.mp ht with rfl | h
        · exact absurd rfl hk
        · exact h
      have := ih htr
      simp only [List.filter_cons]
      by_cases hkv : k ∈ vis
      · simp [hkv]; simpa using this
      · simp [hkv, hk]; simpa using this

/-! ### what a step does to the keys, in every arithmetic context -/

theorem doLiquidate_done_shape {cx : NumCtx} {p : Portfolio} {c : Supply} {d : Debt} {cover : Rat} {p' : Portfolio} {a : LiqAction}
    (h : doLiquidate cx p c d cover = .done p' a) :
    (∃ x, p'.supplies = putSupplyBase p.supplies c.tok x) ∧ (∃ y, p'.debts = putDebtBase p.debts d.tok y)
    ∧ a.debtTok = d.tok ∧ a.collTok = c.tok := by
  unfold doLiquidate at h
  extract_lets _ _ _ _ _ _ at h
  split at h; · cases h
  split at h; · cases h
  split at h; · cases h
  split at h; · cases h
  split at h; · cases h
  split at h; · cases h
  split at h; · cases h
  simp only [StepOut.done.injEq] at h
  obtain ⟨rfl, rfl⟩ := h
  exact ⟨⟨_, rfl⟩, ⟨_, rfl⟩, rfl, rfl⟩

end Demeter.AaveRisk
