/-
  Soundness of the computable well-formedness check `Aave.updWF` (`Demeter/Aave/WF.lean`): it implies the hypotheses the
  theorems about `update()` are stated with — `EnvOK`, `EnvPos`, and well-formedness of the projected portfolio
  (`AaveRisk.Portfolio.WF`: no negative balance, positive indices and prices, non-negative risk parameters, collateral ⇒
  positive liquidation threshold, unique keys — the last from coherence).
-/
import Demeter.Aave.WF
import Proofs.Lemmas.AaveRefine
import Proofs.Lemmas.AaveRisk
namespace Demeter.Aave
open Demeter

variable {cx : ACtx} {env : Env}

theorem statusOf_get {k : String} {st : TokStatus} (h : env.statusOf k = .ok st) : AList.get? env.status k = some st := by
  unfold Env.statusOf optRes at h; split at h <;> simp_all

theorem envOKB_sound (h : envOKB env = true) : EnvOK env ∧ EnvPos env := by
  unfold envOKB at h
  rw [List.all_eq_true] at h
  have key : ∀ k st, env.statusOf k = .ok st →
      (AList.get? env.price k).isSome = true ∧ (AList.get? env.risk k).isSome = true ∧ st.liqIdx ≠ 0 ∧ st.varIdx ≠ 0 := by
    intro k st hst
    have := h (k, st) (mem_of_aget (statusOf_get hst))
    simp only [Bool.and_eq_true, decide_eq_true_eq] at this
    exact ⟨this.1.1.1, this.1.1.2, this.1.2, this.2⟩
  constructor
  · intro k st hst
    obtain ⟨hp, hr, _, _⟩ := key k st hst
    refine ⟨⟨st, hst⟩, ?_, ?_⟩
    · cases hg : AList.get? env.price k with
      | none => rw [hg] at hp; cases hp
      | some p => exact ⟨p, by unfold Env.priceOf optRes; rw [hg]⟩
    · cases hg : AList.get? env.risk k with
      | none => rw [hg] at hr; cases hr
      | some r => exact ⟨r, by unfold Env.riskOf optRes; rw [hg]⟩
  · intro k st hst
    obtain ⟨_, _, h1, h2⟩ := key k st hst
    exact ⟨h1, h2⟩

theorem rowOKB_sound {k : String} (h : rowOKB env k = true) : (rowOf env k).WF := by
  unfold rowOKB at h
  unfold rowOf
  cases h1 : AList.get? env.status k with
  | none => rw [h1] at h; simp at h
  | some st =>
    cases h2 : AList.get? env.price k with
    | none => rw [h1, h2] at h; simp at h
    | some p =>
      cases h3 : AList.get? env.risk k with
      | none => rw [h1, h2, h3] at h; simp at h
      | some r =>
        rw [h1, h2, h3] at h
        simp only [Bool.and_eq_true, decide_eq_true_eq] at h
        exact ⟨h.1.1.1.1.1, h.1.1.1.1.2, h.1.1.1.2, h.1.1.2, h.1.2, h.2⟩

theorem ltPosB_sound {k : String} (hrow : rowOKB env k = true) (h : ltPosB env k = true) : 0 < (rowOf env k).lt := by
  unfold ltPosB at h
  unfold rowOKB at hrow
  unfold rowOf
  cases h1 : AList.get? env.status k with
  | none => rw [h1] at hrow; simp at hrow
  | some st =>
    cases h2 : AList.get? env.price k with
    | none => rw [h1, h2] at hrow; simp at hrow
    | some p =>
      cases h3 : AList.get? env.risk k with
      | none => rw [h3] at h; simp at h
      | some r =>
        rw [h3] at h
        simp only [decide_eq_true_eq] at h
        exact h

/-- the computable check implies the hypotheses of the `update()` theorems -/
theorem updWF_sound {s : St} (h : updWF env s = true) (hs : Good cx env s) :
    EnvOK env ∧ EnvPos env ∧ (proj env s).WF := by
  unfold updWF at h
  simp only [Bool.and_eq_true, List.all_eq_true] at h
  obtain ⟨⟨he, hsup⟩, hbor⟩ := h
  obtain ⟨hE, hP⟩ := envOKB_sound he
  refine ⟨hE, hP, ?_, ?_, ?_, ?_⟩
  · intro c hc
    obtain ⟨p, hp, rfl⟩ := List.mem_map.mp (show c ∈ s.supplies.map (projSup env) from hc)
    have := hsup p hp
    unfold supplyOKB at this
    simp only [Bool.and_eq_true, decide_eq_true_eq, Bool.or_eq_true, Bool.not_eq_true'] at this
    refine ⟨this.1.1, rowOKB_sound this.1.2, fun hcoll => ?_⟩
    rcases this.2 with hf | hl
    · have : p.2.coll = true := hcoll
      rw [hf] at this; cases this
    · exact ltPosB_sound this.1.2 hl
  · intro d hd
    obtain ⟨p, hp, rfl⟩ := List.mem_map.mp (show d ∈ s.borrows.map (projBor env) from hd)
    have := hbor p hp
    unfold borrowOKB at this
    simp only [Bool.and_eq_true, decide_eq_true_eq] at this
    exact ⟨this.1, rowOKB_sound this.2⟩
  · have : (proj env s).supplies.map (·.tok) = keys s.supplies := by
      show (s.supplies.map (projSup env)).map (·.tok) = _
      rw [List.map_map]; rfl
    rw [this]; exact hs.1.nd
  · have : (proj env s).debts.map (·.tok) = keys s.borrows := by
      show (s.borrows.map (projBor env)).map (·.tok) = _
      rw [List.map_map]; rfl
    rw [this]; exact hs.2.nd

end Demeter.Aave
