/-
  Sequence-level C03 for the Uniswap market: what each primitive transaction (`_add_liquidity_by_tick`, collect,
  remove, swap, the transfers) does to the soundness invariant and to the value of the holdings, at the market price.
-/
import Proofs.Lemmas.UniSeq
namespace Demeter.Uni
open Demeter

variable {K : Kern} {pool : Pool} {row : Row} {sqrt : Nat} {A : Int → Int → Int → Rat × Rat}


/-- an unchanged state -/
theorem NoGain.keep (F : FrozenPos K pool row sqrt A) {s : State} (hs : Sound row s) (n : Nat) :
    Sound row s ∧ allVal pool row A s ≤ (1 + assetDust) ^ n * allVal pool row A s := by
  refine ⟨hs, ?_⟩
  have h1 : (1 : Rat) ≤ (1 + assetDust) ^ n := one_le_pow₀ (by linarith [dust_pos])
  have := mul_le_mul_of_nonneg_right h1 (allVal_nonneg F hs)
  linarith

theorem baseTok_ne_quoteTok (h : pool.tok0 ≠ pool.tok1) : pool.baseTok ≠ pool.quoteTok := by
  unfold Pool.baseTok Pool.quoteTok; cases pool.q0 <;> simp [h, h.symm]

/-! ### `_add_liquidity_by_tick` -/

theorem debit2_bound (price : Rat) (hp : 0 ≤ price) (w w2 : Wallet) (u0 u1 : Rat) (hne : pool.tok0 ≠ pool.tok1)
    (hw : ∀ k, 0 ≤ bal w k) (hd : debit2 NumCtx.exact w pool.tok0 u0 pool.tok1 u1 false = .ok w2) :
    (∀ k, 0 ≤ bal w2 k) ∧
    walletVal pool price w2 ≤ walletVal pool price w - tokVal pool price u0 u1 + assetDust * walletVal pool price w := by
  unfold debit2 at hd
  split at hd
  · cases hd
  · rename_i w1 h1
    obtain ⟨b0, hb0, hb0n, hb0u⟩ := debit_exact h1 (hw _)
    have hw1 : bal w1 pool.tok1 = bal w pool.tok1 := by rw [hb0, if_neg hne.symm]
    obtain ⟨b1, hb1, hb1n, hb1u⟩ := debit_exact hd (by rw [hw1]; exact hw _)
    constructor
    · intro k
      rw [hb1]
      split
      · exact hb1n
      · rw [hb0]; split
        · exact hb0n
        · exact hw k
    · unfold walletVal
      rw [hb1, hb1, if_pos rfl, if_neg hne, hb0, if_pos rfl]
      rw [hw1] at hb1u
      have : tokVal pool price (bal w pool.tok0) (bal w pool.tok1) - tokVal pool price u0 u1 +
          assetDust * tokVal pool price (bal w pool.tok0) (bal w pool.tok1) =
          tokVal pool price (bal w pool.tok0 - u0 + assetDust * bal w pool.tok0)
            (bal w pool.tok1 - u1 + assetDust * bal w pool.tok1) := by
        rw [tokVal_add, tokVal_sub, tokVal_smul]
      rw [this]
      exact tokVal_mono pool hp hb0u hb1u

theorem mem_mapPos {ps : List Pos} {lo up : Int} {g : Pos → Pos} {x : Pos} (h : x ∈ mapPos ps lo up g) :
    ∃ q ∈ ps, x = q ∨ x = g q := by
  unfold mapPos at h
  obtain ⟨q, hq, e⟩ := List.mem_map.mp h
  refine ⟨q, hq, ?_⟩
  split at e
  · exact Or.inr e.symm
  · exact Or.inl e.symm

theorem addToPositions_sound_val (F : FrozenPos K pool row sqrt A) {s : State} (hs : Sound row s) (lo up liq : Int)
    (hL : 0 ≤ liq) (ent : Option Pos) (hent : newEntity K pool s lo up liq sqrt = .ok ent) :
    (∀ p ∈ addToPositions s.positions lo up liq ent, 0 ≤ p.liq ∧ 0 ≤ p.pending0 ∧ 0 ≤ p.pending1) ∧
    sumAll (posValue pool row.price (fun p => A p.lower p.upper p.liq)) (addToPositions s.positions lo up liq ent) =
      sumAll (posValue pool row.price (fun p => A p.lower p.upper p.liq)) s.positions + tokVal pool row.price (A lo up liq).1 (A lo up liq).2 := by
  unfold newEntity at hent
  cases hf : findPos s.positions lo up with
  | some p0 =>
    rw [hf] at hent
    injection hent with hent; subst hent
    obtain ⟨l, r, e, hl, hr, hk⟩ := uniqueKey_of_nodup hs.keys hf
    obtain ⟨hlo, hup⟩ := hasKey_eq hk
    constructor
    · intro x hx
      obtain ⟨q, hq, hx⟩ := mem_mapPos hx
      have hqn := hs.pos_nonneg q hq
      rcases hx with hx | hx
      · rw [hx]; exact hqn
      · rw [hx]; exact ⟨add_nonneg hqn.1 hL, hqn.2⟩
    · simp only [addToPositions, e, mapPos_decomp l r p0 lo up _ hl hr hk]
      rw [sumAll_mid, sumAll_mid]
      simp only [posValue_eq_tokVal, hlo, hup, F.base.additive lo up p0.liq liq]
      have : ∀ (a b c d e f : Rat), tokVal pool row.price (a + (b + c)) (d + (e + f)) =
          tokVal pool row.price (a + b) (d + e) + tokVal pool row.price c f := by
        intro a b c d e f; rw [← tokVal_add]; congr 1 <;> ring
      rw [this]; ring
  | none =>
    rw [hf] at hent
    simp only [] at hent
    split at hent
    · injection hent with hent; subst hent
      constructor
      · intro x hx
        simp only [addToPositions] at hx
        rcases List.mem_append.mp hx with hx | hx
        · exact hs.pos_nonneg x hx
        · rw [List.mem_singleton] at hx
          rw [hx]
          split <;> exact ⟨hL, le_refl _, le_refl _⟩
      · simp only [addToPositions]
        rw [sumAll_append]
        simp only [sumAll, add_zero]
        congr 1
        split <;> simp [mkPos, posValue_eq_tokVal]
    · cases hent
    · cases hent
    · cases hent

theorem addRaw_noGain (F : FrozenPos K pool row sqrt A) (s : State) (a0 a1 : Rat) (lo up : Int) :
    NoGain pool row A 1 s (addRaw K pool s a0 a1 lo up none).2 := by
  intro hs
  have keep := NoGain.keep F hs 1
  unfold addRaw
  rw [resolveSqrt_frozen F.base hs.row_eq]
  simp only []
  split
  · exact keep
  · split
    · exact keep
    · split
      · exact keep
      · split
        · exact keep
        · rename_i hneg
          have ha : 0 ≤ a0 ∧ 0 ≤ a1 := by
            simp only [Bool.or_eq_true, decide_eq_true_eq, not_or, not_lt] at hneg
            exact hneg
          split
          · exact keep
          · rename_i u0 u1 liq hnew
            split
            · exact keep
            · rename_i ent hent
              split
              · exact keep
              · rename_i w2 hd
                rw [F.base.cx, hs.noNeg] at hd
                have hL := F.newPos_nonneg lo up a0 a1 u0 u1 liq ha.1 ha.2 hnew
                have hA := F.base.newPos lo up a0 a1 u0 u1 liq hnew
                obtain ⟨hwn, hwv⟩ := debit2_bound row.price F.price_pos.le s.wallet w2 u0 u1 F.base.tokens hs.wallet_nonneg hd
                obtain ⟨hpn, hpv⟩ := addToPositions_sound_val F hs lo up liq hL ent hent
                have hs' : Sound row (markUpdate { s with wallet := w2, positions := addToPositions s.positions lo up liq ent }) :=
                  ⟨hs.row_eq, hs.noNeg, addToPositions_keys hent hs.keys, hwn, hpn⟩
                refine ⟨hs', NoGain.of_le F hs ?_⟩
                unfold allVal
                simp only [markUpdate, hpv, hA]
                linarith

/-! ### collect -/

theorem bal_credit_nonneg {w : Wallet} (hw : ∀ k, 0 ≤ bal w k) {tok : String} {a : Rat} (ha : 0 ≤ a) (k : String) :
    0 ≤ bal (Wallet.credit NumCtx.exact w tok a) k := by
  by_cases h : k = tok
  · subst h; rw [bal_credit_self]; exact add_nonneg (hw _) ha
  · rw [bal_credit_other _ _ _ _ _ h]; exact hw k

theorem collectCore_sound_val (F : FrozenPos K pool row sqrt A) {s : State} (hs : Sound row s) (lo up : Int) (p : Pos)
    (hf : findPos s.positions lo up = some p) (f0 f1 : Rat) (h0 : 0 ≤ f0 ∧ f0 ≤ p.pending0) (h1 : 0 ≤ f1 ∧ f1 ≤ p.pending1)
    (tu : Bool) :
    Sound row (collectCore K pool s lo up p f0 f1 tu) ∧
    allVal pool row A (collectCore K pool s lo up p f0 f1 tu) ≤ allVal pool row A s ∧
    ∃ l r, s.positions = l ++ p :: r ∧ (collectCore K pool s lo up p f0 f1 tu).positions = l ++ collectPos K.cx p f0 f1 :: r ∧
      (∀ x ∈ l, x.hasKey lo up = false) ∧ (∀ x ∈ r, x.hasKey lo up = false) ∧ p.hasKey lo up = true := by
  obtain ⟨l, r, e, hl, hr, hk⟩ := uniqueKey_of_nodup hs.keys hf
  have hpn := hs.pos_nonneg p (by rw [e]; exact List.mem_append_right _ (List.mem_cons_self ..))
  have hpos : (collectCore K pool s lo up p f0 f1 tu).positions = l ++ collectPos K.cx p f0 f1 :: r := by
    simp only [collectCore, markUpdate, e, mapPos_decomp l r p lo up _ hl hr hk]
  have hwal : ∀ k, 0 ≤ bal (collectCore K pool s lo up p f0 f1 tu).wallet k := by
    intro k
    simp only [collectCore, markUpdate, collectWallet, F.base.cx]
    split
    · exact bal_credit_nonneg (bal_credit_nonneg hs.wallet_nonneg h0.1) h1.1 k
    · exact hs.wallet_nonneg k
  have hq : 0 ≤ (collectPos K.cx p f0 f1).liq ∧ 0 ≤ (collectPos K.cx p f0 f1).pending0 ∧ 0 ≤ (collectPos K.cx p f0 f1).pending1 := by
    simp only [collectPos, F.base.cx, NumCtx.exact_sub]
    exact ⟨hpn.1, by linarith [h0.2], by linarith [h1.2]⟩
  refine ⟨hs.replace (q := collectPos K.cx p f0 f1) e rfl hq rfl rfl hpos hwal, ?_, l, r, e, hpos, hl, hr, hk⟩
  have hval : (posValue pool row.price (fun p => A p.lower p.upper p.liq)) (collectPos K.cx p f0 f1) = (posValue pool row.price (fun p => A p.lower p.upper p.liq)) p - tokVal pool row.price f0 f1 := by
    simp only [posValue_eq_tokVal, collectPos, F.base.cx, NumCtx.exact_sub]
    rw [← tokVal_sub]; congr 1 <;> ring
  have hfn : 0 ≤ tokVal pool row.price f0 f1 := tokVal_nonneg pool F.price_pos.le h0.1 h1.1
  unfold allVal
  rw [hpos, e, sumAll_mid, sumAll_mid, hval]
  have hw : walletVal pool row.price (collectCore K pool s lo up p f0 f1 tu).wallet ≤
      walletVal pool row.price s.wallet + tokVal pool row.price f0 f1 := by
    simp only [collectCore, markUpdate, collectWallet, F.base.cx]
    split
    · rw [walletVal_credit2 _ _ _ _ _ F.base.tokens]
    · linarith
  linarith

theorem collectFinish_sound_val (F : FrozenPos K pool row sqrt A) {s : State} (hs : Sound row s) (lo up : Int) (p : Pos)
    (hf : findPos s.positions lo up = some p) (f0 f1 : Rat) (h0 : 0 ≤ f0 ∧ f0 ≤ p.pending0) (h1 : 0 ≤ f1 ∧ f1 ≤ p.pending1)
    (rd tu : Bool) (bb qb : Rat) :
    Sound row (collectFinish K pool s lo up p f0 f1 rd tu bb qb) ∧
    allVal pool row A (collectFinish K pool s lo up p f0 f1 rd tu bb qb) ≤ allVal pool row A s := by
  obtain ⟨hc, hv, l, r, e, hpos, hl, hr, hk⟩ := collectCore_sound_val F hs lo up p hf f0 f1 h0 h1 tu
  unfold collectFinish
  simp only []
  split
  · rename_i hdry
    have hk' : (collectPos K.cx p f0 f1).hasKey lo up = true := hk
    have hp2 : (erasePos (record (collectCore K pool s lo up p f0 f1 tu)
        { kind := "CollectFeeAction", nums := [bb, qb, (pool.conv f0 f1).1, (pool.conv f0 f1).2] }).positions lo up) = l ++ r := by
      simp only [Uni.record, hpos, erasePos_decomp l r _ lo up hl hr hk']
    refine ⟨hc.drop hpos rfl rfl hp2 hc.wallet_nonneg, le_trans (le_of_eq ?_) hv⟩
    have hz : (posValue pool row.price (fun p => A p.lower p.upper p.liq)) (collectPos K.cx p f0 f1) = 0 := by
      unfold isDry at hdry
      simp only [Bool.and_eq_true, beq_iff_eq] at hdry
      obtain ⟨⟨⟨z0, z1⟩, zl⟩, _⟩ := hdry
      rw [posValue_eq_tokVal, z0, z1]
      simp only [zl, F.base.A_zero, add_zero, tokVal_zero]
    unfold allVal
    simp only [Uni.record, hpos, erasePos_decomp l r _ lo up hl hr hk']
    rw [sumAll_mid, hz, add_zero]
  · exact ⟨hc.of_same rfl rfl rfl rfl, hv⟩

theorem negGiven_cap {m : Option Rat} {pending : Rat} (hm : negGiven m = false) (hp : 0 ≤ pending) :
    0 ≤ capAt m pending ∧ capAt m pending ≤ pending :=
  ⟨(C03_uni_collect_bounded m pending hm hp).1, (C03_uni_collect_bounded m pending hm hp).2.1⟩

theorem collect_noGain (F : FrozenPos K pool row sqrt A) (s : State) (lo up : Int) (m0 m1 : Option Rat) (rd tu : Bool) :
    NoGain pool row A 0 s (collect K pool s lo up m0 m1 rd tu).2 := by
  intro hs
  have keep := NoGain.keep F hs 0
  unfold collect
  split
  · exact keep
  · rename_i hneg
    simp only [Bool.or_eq_true, not_or, Bool.not_eq_true] at hneg
    split
    · exact keep
    · rename_i p hf
      split
      · exact keep
      · split
        · exact keep
        · have hpn := hs.pos_nonneg p (List.mem_of_find?_eq_some hf)
          have c0 := negGiven_cap hneg.1 hpn.2.1
          have c1 := negGiven_cap hneg.2 hpn.2.2
          have core := collectCore_sound_val F hs lo up p hf _ _ c0 c1 tu
          split
          · have fin := collectFinish_sound_val F hs lo up p hf _ _ c0 c1 rd tu
            exact ⟨(fin _ _).1, by simpa using (fin _ _).2⟩
          · exact ⟨core.1, by simpa using core.2.1⟩
          · exact ⟨core.1, by simpa using core.2.1⟩

/-! ### remove at the market price -/

theorem removeCore_sound_val (F : FrozenPos K pool row sqrt A) {s : State} (hs : Sound row s) (lo up : Int) (p : Pos)
    (hf : findPos s.positions lo up = some p) (delta : Int) (dd : Bool) (hd : 0 ≤ delta ∧ delta ≤ p.liq) :
    Sound row (removeCore K s lo up p delta dd (A lo up delta).1 (A lo up delta).2) ∧
    allVal pool row A (removeCore K s lo up p delta dd (A lo up delta).1 (A lo up delta).2) = allVal pool row A s := by
  obtain ⟨l, r, e, hl, hr, hk⟩ := uniqueKey_of_nodup hs.keys hf
  obtain ⟨hlo, hup⟩ := hasKey_eq hk
  have hpn := hs.pos_nonneg p (by rw [e]; exact List.mem_append_right _ (List.mem_cons_self ..))
  have hAn := F.A_nonneg lo up delta hd.1
  have hpos : (removeCore K s lo up p delta dd (A lo up delta).1 (A lo up delta).2).positions =
      l ++ removePos K.cx p delta dd (A lo up delta).1 (A lo up delta).2 :: r := by
    simp only [removeCore, markUpdate, e, mapPos_decomp l r p lo up _ hl hr hk]
  have hq : 0 ≤ (removePos K.cx p delta dd (A lo up delta).1 (A lo up delta).2).liq ∧
      0 ≤ (removePos K.cx p delta dd (A lo up delta).1 (A lo up delta).2).pending0 ∧
      0 ≤ (removePos K.cx p delta dd (A lo up delta).1 (A lo up delta).2).pending1 := by
    simp only [removePos, F.base.cx, NumCtx.exact_add]
    exact ⟨by linarith [hd.2], add_nonneg hpn.2.1 hAn.1, add_nonneg hpn.2.2 hAn.2⟩
  refine ⟨hs.replace (q := removePos K.cx p delta dd (A lo up delta).1 (A lo up delta).2) e rfl hq rfl rfl hpos
    hs.wallet_nonneg, ?_⟩
  unfold allVal
  rw [hpos, e, sumAll_mid, sumAll_mid]
  have hadd := F.base.additive lo up (p.liq - delta) delta
  rw [sub_add_cancel] at hadd
  have : (posValue pool row.price (fun p => A p.lower p.upper p.liq)) (removePos K.cx p delta dd (A lo up delta).1 (A lo up delta).2) = (posValue pool row.price (fun p => A p.lower p.upper p.liq)) p := by
    simp only [posValue_eq_tokVal, removePos, F.base.cx, NumCtx.exact_add, hlo, hup]
    rw [hadd]
    congr 1 <;> simp only [] <;> ring
  rw [this]
  rfl

theorem removeNoCollect_noGain (F : FrozenPos K pool row sqrt A) (s : State) (lo up : Int) (l : Option Int) :
    NoGain pool row A 0 s (removeNoCollect K pool s lo up l none).2 := by
  intro hs
  have keep := NoGain.keep F hs 0
  unfold removeNoCollect
  rw [resolveSqrt_frozen F.base hs.row_eq]
  simp only []
  split
  · exact keep
  · rename_i hnl
    split
    · exact keep
    · split
      · exact keep
      · split
        · exact keep
        · rename_i p hf
          split
          · exact keep
          · rename_i g0 g1 hamt
            have hpn := hs.pos_nonneg p (List.mem_of_find?_eq_some hf)
            have hb := C03_uni_remove_bounded l p (by simpa using hnl) hpn.1
            have hg := F.base.amounts _ _ _ _ _ hamt
            have hg0 : g0 = (A lo up (removeDelta l p).1).1 := congrArg Prod.fst hg
            have hg1 : g1 = (A lo up (removeDelta l p).1).2 := congrArg Prod.snd hg
            have core := removeCore_sound_val F hs lo up p hf (removeDelta l p).1 (removeDelta l p).2 hb
            rw [← hg0, ← hg1] at core
            split
            · exact ⟨core.1.of_same rfl rfl rfl rfl, by simp only [pow_zero, one_mul]; exact le_of_eq core.2⟩
            · exact ⟨core.1, by simp only [pow_zero, one_mul]; exact le_of_eq core.2⟩
            · exact ⟨core.1, by simp only [pow_zero, one_mul]; exact le_of_eq core.2⟩

theorem remove_noGain (F : FrozenPos K pool row sqrt A) (s : State) (lo up : Int) (l : Option Int) (c rd : Bool) :
    NoGain pool row A 0 s (remove K pool s lo up l c none rd).2 := by
  unfold remove
  have h := removeNoCollect_noGain F s lo up l
  split
  · rename_i heq; rw [heq] at h; exact h
  · rename_i heq; rw [heq] at h
    split
    · intro hs
      obtain ⟨h1, v1⟩ := h hs
      obtain ⟨h2, v2⟩ := collect_noGain F _ lo up none none rd true h1
      exact ⟨h2, le_trans v2 (by simpa using v1)⟩
    · exact h

/-! ### transfers -/

theorem flag_noGain (s : State) (lo up : Int) (b : Bool) :
    NoGain pool row A 0 s { s with positions := mapPos s.positions lo up (fun p => { p with transferred := b }) } := by
  intro hs
  constructor
  · refine ⟨hs.row_eq, hs.noNeg, mapPos_keys_nodup _ _ _ _ (fun _ _ => rfl) hs.keys, hs.wallet_nonneg, ?_⟩
    intro x hx
    obtain ⟨q, hq, hx⟩ := mem_mapPos hx
    rcases hx with hx | hx <;> rw [hx] <;> exact hs.pos_nonneg q hq
  · unfold allVal
    simp only []
    rw [sumAll_mapPos_flag (posValue pool row.price (fun p => A p.lower p.upper p.liq)) s.positions lo up
      (fun p => { p with transferred := b }) (fun q => rfl)]
    simp

theorem transferOut_noGain (F : FrozenPos K pool row sqrt A) (s : State) (lo up : Int) :
    NoGain pool row A 0 s (transferOut s lo up).2 := by
  unfold transferOut
  repeat' split
  all_goals first
    | exact flag_noGain s lo up true
    | exact fun hs => NoGain.keep F hs 0

theorem transferIn_noGain (F : FrozenPos K pool row sqrt A) (s : State) (lo up : Int) :
    NoGain pool row A 0 s (transferIn s lo up).2 := by
  unfold transferIn
  repeat' split
  all_goals first
    | exact flag_noGain s lo up false
    | exact fun hs => NoGain.keep F hs 0

/-! ### swap at the market price -/

/-- the execution price of the swap is the market's: no price given, or the given one is what the market gives -/
def FairSwap (K : Kern) (pool : Pool) (s : State) (f : String) (p : Option Rat) : Prop :=
  swapPrice K pool s f (givenPrice p) = swapPrice K pool s f none

theorem swapWallet_base (F : FrozenPos K pool row sqrt A) {w w1 : Wallet} (hw : ∀ k, 0 ≤ bal w k) (a : Rat) (ha : 0 ≤ a)
    (hd : debit NumCtx.exact w pool.baseTok a false = .ok w1) :
    (∀ k, 0 ≤ bal (Wallet.credit NumCtx.exact w1 pool.quoteTok ((a - a * pool.feeRate) * row.price)) k) ∧
    walletVal pool row.price (Wallet.credit NumCtx.exact w1 pool.quoteTok ((a - a * pool.feeRate) * row.price)) ≤
      walletVal pool row.price w + assetDust * walletVal pool row.price w := by
  have hne := baseTok_ne_quoteTok F.base.tokens
  obtain ⟨b', hb, hbn, hbu⟩ := debit_exact hd (hw _)
  have hP := F.price_pos.le
  have hto : 0 ≤ (a - a * pool.feeRate) * row.price := by
    apply mul_nonneg _ hP
    have := mul_le_mul_of_nonneg_left F.fee_le_one ha
    linarith
  have hw1 : ∀ k, 0 ≤ bal w1 k := by
    intro k; rw [hb]; split
    · exact hbn
    · exact hw k
  refine ⟨fun k => bal_credit_nonneg hw1 hto k, ?_⟩
  rw [walletVal_bq, walletVal_bq, bal_credit_other _ _ _ _ _ hne, bal_credit_self, hb pool.baseTok, if_pos rfl,
    hb pool.quoteTok, if_neg hne.symm]
  have h1 : b' * row.price ≤ (bal w pool.baseTok - a + assetDust * bal w pool.baseTok) * row.price :=
    mul_le_mul_of_nonneg_right hbu hP
  have h2 : 0 ≤ a * pool.feeRate * row.price := mul_nonneg (mul_nonneg ha F.fee_nonneg) hP
  have h3 : 0 ≤ assetDust * bal w pool.quoteTok := mul_nonneg dust_pos.le (hw _)
  nlinarith [h1, h2, h3]

theorem swapWallet_quote (F : FrozenPos K pool row sqrt A) {w w1 : Wallet} (hw : ∀ k, 0 ≤ bal w k) (a : Rat) (ha : 0 ≤ a)
    (hd : debit NumCtx.exact w pool.quoteTok a false = .ok w1) :
    (∀ k, 0 ≤ bal (Wallet.credit NumCtx.exact w1 pool.baseTok ((a - a * pool.feeRate) * (1 / row.price))) k) ∧
    walletVal pool row.price (Wallet.credit NumCtx.exact w1 pool.baseTok ((a - a * pool.feeRate) * (1 / row.price))) ≤
      walletVal pool row.price w + assetDust * walletVal pool row.price w := by
  have hne := baseTok_ne_quoteTok F.base.tokens
  obtain ⟨b', hb, hbn, hbu⟩ := debit_exact hd (hw _)
  have hP := F.price_pos
  have hto : 0 ≤ (a - a * pool.feeRate) * (1 / row.price) := by
    apply mul_nonneg _ (by positivity)
    have := mul_le_mul_of_nonneg_left F.fee_le_one ha
    linarith
  have hw1 : ∀ k, 0 ≤ bal w1 k := by
    intro k; rw [hb]; split
    · exact hbn
    · exact hw k
  refine ⟨fun k => bal_credit_nonneg hw1 hto k, ?_⟩
  rw [walletVal_bq, walletVal_bq, bal_credit_other _ _ _ _ _ hne.symm, bal_credit_self, hb pool.quoteTok, if_pos rfl,
    hb pool.baseTok, if_neg hne]
  have h0 : (bal w pool.baseTok + (a - a * pool.feeRate) * (1 / row.price)) * row.price =
      bal w pool.baseTok * row.price + (a - a * pool.feeRate) := by
    field_simp
  rw [h0]
  have h2 : 0 ≤ a * pool.feeRate := mul_nonneg ha F.fee_nonneg
  have h3 : 0 ≤ assetDust * (bal w pool.baseTok * row.price) := mul_nonneg dust_pos.le (mul_nonneg (hw _) hP.le)
  nlinarith [h2, h3, hbu]

theorem swap_noGain (F : FrozenPos K pool row sqrt A) (s : State) (a : Rat) (f t : String) (p : Option Rat) (log : Bool)
    (hfair : FairSwap K pool s f p) : NoGain pool row A 1 s (swap K pool s a f t p log).2 := by
  intro hs
  have keep := NoGain.keep F hs 1
  unfold swap
  split
  · exact keep
  · rename_i hft
    split
    · exact keep
    · rename_i htok
      split
      · exact keep
      · rename_i hneg
        have ha : 0 ≤ a := not_lt.mp hneg
        unfold FairSwap at hfair
        rw [hfair]
        unfold swapPrice priceOf
        rw [hs.row_eq, F.base.cx, hs.noNeg]
        simp only [NumCtx.exact_mul, NumCtx.exact_sub, NumCtx.exact_div]
        have fin : ∀ (s1 : State) (act : Act), s1.positions = s.positions → s1.row = some row → s1.allowNeg = false →
            (∀ k, 0 ≤ bal s1.wallet k) →
            walletVal pool row.price s1.wallet ≤ walletVal pool row.price s.wallet + assetDust * walletVal pool row.price s.wallet →
            Sound row (if log = true then record s1 act else s1) ∧
            allVal pool row A (if log = true then record s1 act else s1) ≤ (1 + assetDust) ^ 1 * allVal pool row A s := by
          intro s1 act hp1 hr1 hn1 hw' hv
          have hs1 : Sound row s1 := ⟨hr1, hn1, by rw [hp1]; exact hs.keys, hw', by rw [hp1]; exact hs.pos_nonneg⟩
          have hv1 : allVal pool row A s1 ≤ (1 + assetDust) ^ 1 * allVal pool row A s := by
            apply NoGain.of_le F hs
            unfold allVal; rw [hp1]; linarith
          split
          · exact ⟨hs1.of_same rfl rfl rfl rfl, hv1⟩
          · exact ⟨hs1, hv1⟩
        simp only [Bool.or_eq_true, beq_iff_eq, Bool.not_eq_true', not_or, Bool.not_eq_false] at htok
        have hft' : f ≠ t := by simpa using hft
        by_cases hfb : f = pool.baseTok
        · have htq : t = pool.quoteTok := by
            rcases htok.2 with h | h
            · exact h
            · exact absurd (hfb.trans h.symm) hft'
          subst hfb; subst htq
          simp only [beq_self_eq_true, if_true]
          split
          · exact keep
          · rename_i w1 hd
            obtain ⟨h1, h2⟩ := swapWallet_base F hs.wallet_nonneg a ha hd
            exact fin _ _ rfl rfl rfl h1 h2
        · have hfq : f = pool.quoteTok := by
            rcases htok.1 with h | h
            · exact h
            · exact absurd h hfb
          have htb : t = pool.baseTok := by
            rcases htok.2 with h | h
            · exact absurd (hfq.trans h.symm) hft'
            · exact h
          have hbq : (pool.quoteTok == pool.baseTok) = false := by
            simpa using (baseTok_ne_quoteTok F.base.tokens).symm
          subst hfq; subst htb
          simp only [hbq, Bool.false_eq_true, if_false, ne_of_gt F.price_pos]
          split
          · exact keep
          · rename_i w1 hd
            obtain ⟨h1, h2⟩ := swapWallet_quote F hs.wallet_nonneg a ha hd
            exact fin _ _ rfl rfl rfl h1 h2

end Demeter.Uni
