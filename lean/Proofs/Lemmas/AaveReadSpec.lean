/-
  In a coherent state every public read returns the value recomputed from scratch (`specView`), whatever
  mixture of cold and filled caches it meets.
-/
import Proofs.Lemmas.AaveReads
namespace Demeter.Aave
open Demeter M

variable {cx : ACtx} {env : Env}

/-- `m` returns `spec positions` in every coherent state, keeps coherence and the positions -/
def Reads (cx : ACtx) (env : Env) {α : Type} (m : M α)
    (spec : AList String SupplyInfo → AList String BorrowInfo → Res α) : Prop :=
  ∀ s, Good cx env s →
    (m s).1 = spec s.supplies s.borrows ∧ Good cx env (m s).2 ∧
    (m s).2.supplies = s.supplies ∧ (m s).2.borrows = s.borrows

section
variable {α β : Type}

theorem Reads.bind {m : M α} {f : α → M β} {sm : AList String SupplyInfo → AList String BorrowInfo → Res α}
    {sf : α → AList String SupplyInfo → AList String BorrowInfo → Res β}
    (hm : Reads cx env m sm) (hf : ∀ a, Reads cx env (f a) (sf a)) :
    Reads cx env (m >>= f) (fun sup bor => sm sup bor >>= fun a => sf a sup bor) := by
  intro s hs
  obtain ⟨h1, h2, h3, h4⟩ := hm s hs
  rcases hms : m s with ⟨r, s1⟩
  rw [hms] at h1 h2 h3 h4
  dsimp only at h1 h2 h3 h4
  cases r with
  | ok a =>
    rw [run_bind_ok hms]
    obtain ⟨g1, g2, g3, g4⟩ := hf a s1 h2
    refine ⟨?_, g2, by rw [g3, h3], by rw [g4, h4]⟩
    rw [g1, h3, h4]
    show sf a s.supplies s.borrows = (sm s.supplies s.borrows >>= fun a => sf a s.supplies s.borrows)
    rw [← h1]; rfl
  | error e =>
    rw [run_bind_err hms]
    refine ⟨?_, h2, h3, h4⟩
    show (Except.error e : Res β) = (sm s.supplies s.borrows >>= fun a => sf a s.supplies s.borrows)
    rw [← h1]; rfl

theorem Reads.pure (a : α) : Reads cx env (pure a : M α) (fun _ _ => .ok a) :=
  fun _ hs => ⟨rfl, hs, rfl, rfl⟩

theorem Reads.ofRes (r : Res α) : Reads cx env (M.ofRes r) (fun _ _ => r) :=
  fun _ hs => ⟨rfl, hs, rfl, rfl⟩

theorem Reads.throw (e : Err) : Reads cx env (M.throw e : M α) (fun _ _ => .error e) :=
  fun _ hs => ⟨rfl, hs, rfl, rfl⟩

theorem Reads.queryPos (q : AList String SupplyInfo → AList String BorrowInfo → Res α) :
    Reads cx env (M.queryPos q) q :=
  fun _ hs => ⟨rfl, hs, rfl, rfl⟩

theorem Reads.mapM' (f : α → β) {m : M α} {sm : AList String SupplyInfo → AList String BorrowInfo → Res α}
    (h : Reads cx env m sm) : Reads cx env (mapM' f m) (fun sup bor => f <$> sm sup bor) := by
  intro s hs
  obtain ⟨h1, h2, h3, h4⟩ := h s hs
  unfold Aave.mapM'
  rcases hms : m s with ⟨r, s1⟩
  rw [hms] at h1 h2 h3 h4
  dsimp only at h1 h2 h3 h4 ⊢
  cases r with
  | ok a => exact ⟨by rw [← h1]; rfl, h2, h3, h4⟩
  | error e => exact ⟨by rw [← h1]; rfl, h2, h3, h4⟩

end

/-! ### the five cache-filling reads -/

theorem reads_suppliesValue : Reads cx env (suppliesValue cx env) (fun sup _ => specSupAmt cx env sup) := by
  intro s hs
  obtain ⟨vs, hvs, hrun⟩ := suppliesValue_run hs.1.nd hs.1.cv hs.1.sa
  have := readInv_good.sv s hs
  rw [hrun] at this ⊢
  exact ⟨hvs.symm, this, rfl, rfl⟩

theorem reads_borrowsValue : Reads cx env (borrowsValue cx env) (fun _ bor => specBorAmt cx env bor) := by
  intro s hs
  obtain ⟨vs, hvs, hrun⟩ := borrowsValue_run hs.2.nd hs.2.cv hs.2.ba
  have := readInv_good.bv s hs
  rw [hrun] at this ⊢
  exact ⟨hvs.symm, this, rfl, rfl⟩

theorem reads_collateralValue : Reads cx env (collateralValue cx env) (fun sup _ => specColl cx env sup) := by
  intro s hs
  obtain ⟨cs, c', hcs, _, hrun⟩ := collateralValue_run hs.1.nd hs.1.cv hs.1.sa hs.1.co
  have := readInv_good.cv s hs
  rw [hrun] at this ⊢
  exact ⟨hcs.symm, this, rfl, rfl⟩

theorem reads_suppliesView : Reads cx env (suppliesView cx env) (fun sup _ => specSupplies cx env sup) := by
  intro s hs
  obtain ⟨svs, c', hsvs, _, hrun⟩ := suppliesView_run hs.1.nd hs.1.cv hs.1.sa hs.1.su
  have := readInv_good.su s hs
  rw [hrun] at this ⊢
  exact ⟨hsvs.symm, this, rfl, rfl⟩

theorem reads_borrowsView : Reads cx env (borrowsView cx env) (fun _ bor => specBorrows cx env bor) := by
  intro s hs
  obtain ⟨bvs, c', hbvs, _, hrun⟩ := borrowsView_run hs.2.nd hs.2.cv hs.2.ba hs.2.bo
  have := readInv_good.bo s hs
  rw [hrun] at this ⊢
  exact ⟨hbvs.symm, this, rfl, rfl⟩

theorem reads_getSupply (k : String) : Reads cx env (getSupply cx env k) (fun sup _ => specGetSupply cx env sup k) := by
  intro s hs
  have hinv := readInv_good.toReadInv3.getSupply k s hs
  have hfr := (readInv_frame (cx := cx) (env := env) s.frame).toReadInv3.getSupply k s rfl
  refine ⟨?_, hinv, congrArg Frame.supplies hfr, congrArg Frame.borrows hfr⟩
  cases hk : AList.get? s.supplies k with
  | none =>
    unfold getSupply specGetSupply
    rw [run_bind_err (e := .keySupply) (s' := s) (by simp [hk, optRes])]
    simp [hk, optRes]
    rfl
  | some info =>
    obtain ⟨sv, vs, h1, _, hrun⟩ := getSupply_run hs.1.nd hs.1.cv hs.1.sa hk
    rw [hrun]
    unfold specGetSupply
    simp only [hk, optRes]
    exact h1.symm

theorem reads_getBorrow (k : String) : Reads cx env (getBorrow cx env k) (fun _ bor => specGetBorrow cx env bor k) := by
  intro s hs
  have hinv := readInv_good.toReadInv3.getBorrow k s hs
  have hfr := (readInv_frame (cx := cx) (env := env) s.frame).toReadInv3.getBorrow k s rfl
  refine ⟨?_, hinv, congrArg Frame.supplies hfr, congrArg Frame.borrows hfr⟩
  cases hk : AList.get? s.borrows k with
  | none =>
    unfold getBorrow specGetBorrow
    rw [run_bind_err (e := .keyBorrow) (s' := s) (by simp [hk, optRes])]
    simp [hk, optRes]
    rfl
  | some info =>
    obtain ⟨bv, vs, h1, _, hrun⟩ := getBorrow_run hs.2.nd hs.2.cv hs.2.ba hk
    rw [hrun]
    unfold specGetBorrow
    simp only [hk, optRes]
    exact h1.symm

/-! ### the derived reads: the spec is the same program over the recomputed dictionaries -/

theorem reads_totalSupplyValue : Reads cx env (totalSupplyValue cx env) (fun sup _ => specTotalSupply cx env sup) :=
  Reads.bind reads_suppliesValue (fun _ => Reads.pure _)

theorem reads_totalCollateralValue : Reads cx env (totalCollateralValue cx env) (fun sup _ => specTotalColl cx env sup) :=
  Reads.bind reads_collateralValue (fun _ => Reads.pure _)

theorem reads_totalBorrowsValue : Reads cx env (totalBorrowsValue cx env) (fun _ bor => specTotalBorrows cx env bor) :=
  Reads.bind reads_borrowsValue (fun _ => Reads.pure _)

theorem reads_healthFactor : Reads cx env (healthFactor cx env) (fun sup bor => specHealthFactor cx env sup bor) :=
  Reads.bind reads_collateralValue (fun _ => Reads.bind reads_borrowsValue (fun _ => Reads.ofRes _))

theorem reads_maxLtv : Reads cx env (maxLtv cx env) (fun sup _ => specMaxLtv cx env sup) :=
  Reads.bind reads_collateralValue (fun _ => Reads.ofRes _)

theorem reads_liquidationThreshold :
    Reads cx env (liquidationThreshold cx env) (fun sup _ => specLiqThreshold cx env sup) :=
  Reads.bind reads_collateralValue (fun _ => Reads.ofRes _)

theorem reads_ltvView : Reads cx env (ltvView cx env) (fun sup bor => specLtv cx env sup bor) := by
  unfold ltvView specLtv
  refine Reads.bind reads_totalSupplyValue (fun ts => ?_)
  by_cases h : ts = 0
  · simp only [h, if_true]; exact Reads.pure _
  · simp only [h, if_false]
    exact Reads.bind reads_totalBorrowsValue (fun _ => Reads.bind reads_totalSupplyValue (fun _ => Reads.pure _))

theorem reads_supplyApy : Reads cx env (supplyApy cx env) (fun sup _ => specSupplyApy cx env sup) :=
  Reads.bind reads_suppliesView (fun _ => Reads.bind (Reads.ofRes _) (fun _ =>
    Reads.bind reads_suppliesValue (fun _ => Reads.ofRes _)))

theorem reads_borrowApy : Reads cx env (borrowApy cx env) (fun _ bor => specBorrowApy cx env bor) :=
  Reads.bind (Reads.queryPos _) (fun _ => Reads.bind reads_borrowsValue (fun _ => Reads.ofRes _))

theorem reads_totalApy : Reads cx env (totalApy cx env) (fun sup bor => specTotalApy cx env sup bor) :=
  Reads.bind reads_totalSupplyValue (fun _ => Reads.bind reads_totalBorrowsValue (fun _ =>
    Reads.bind reads_supplyApy (fun _ => Reads.bind reads_borrowApy (fun _ => Reads.pure _))))

theorem reads_marketBalance : Reads cx env (marketBalance cx env) (fun sup bor => specBalance cx env sup bor) :=
  Reads.bind reads_totalSupplyValue (fun _ => Reads.bind (Reads.ofRes _) (fun _ =>
  Reads.bind reads_totalBorrowsValue (fun _ => Reads.bind (Reads.ofRes _) (fun _ =>
  Reads.bind reads_supplyApy (fun _ => Reads.bind (Reads.ofRes _) (fun _ =>
  Reads.bind reads_borrowApy (fun _ => Reads.bind (Reads.ofRes _) (fun _ =>
  Reads.bind (Reads.queryPos _) (fun _ =>
  Reads.bind reads_liquidationThreshold (fun _ => Reads.bind (Reads.ofRes _) (fun _ =>
  Reads.bind reads_healthFactor (fun _ => Reads.bind (Reads.ofRes _) (fun _ =>
  Reads.bind reads_totalCollateralValue (fun _ => Reads.bind (Reads.ofRes _) (fun _ =>
  Reads.bind reads_maxLtv (fun _ => Reads.bind (Reads.ofRes _) (fun _ =>
  Reads.bind reads_ltvView (fun _ => Reads.pure _))))))))))))))))))

theorem reads_maxBorrowAmount (k : String) :
    Reads cx env (maxBorrowAmount cx env k) (fun sup bor => specMaxBorrowAmount cx env sup bor k) := by
  unfold maxBorrowAmount specMaxBorrowAmount
  refine Reads.bind reads_collateralValue (fun cv => Reads.bind reads_borrowsValue (fun bv =>
    Reads.bind (Reads.ofRes _) (fun ml => ?_)))
  cases ml with
  | inf => exact Reads.throw _
  | fin l => exact Reads.bind (Reads.ofRes _) (fun _ => Reads.ofRes _)

/-- **every public read = recomputation from scratch**, in every coherent state -/
theorem reads_readView (v : View) : Reads cx env (readView cx env v) (fun sup bor => specView cx env sup bor v) := by
  cases v <;> unfold readView specView
  case suppliesValue => exact Reads.mapM' _ reads_suppliesValue
  case totalSupplyValue => exact Reads.mapM' _ reads_totalSupplyValue
  case collateralValue => exact Reads.mapM' _ reads_collateralValue
  case totalCollateralValue => exact Reads.mapM' _ reads_totalCollateralValue
  case borrowsValue => exact Reads.mapM' _ reads_borrowsValue
  case totalBorrowsValue => exact Reads.mapM' _ reads_totalBorrowsValue
  case supplies => exact Reads.mapM' _ reads_suppliesView
  case borrows => exact Reads.mapM' _ reads_borrowsView
  case liquidationThreshold => exact Reads.mapM' _ reads_liquidationThreshold
  case maxLtv => exact Reads.mapM' _ reads_maxLtv
  case ltv => exact Reads.mapM' _ reads_ltvView
  case healthFactor => exact Reads.mapM' _ reads_healthFactor
  case supplyApy => exact Reads.mapM' _ reads_supplyApy
  case borrowApy => exact Reads.mapM' _ reads_borrowApy
  case totalApy => exact Reads.mapM' _ reads_totalApy
  case marketBalance => exact Reads.mapM' _ reads_marketBalance
  case getSupply k => exact Reads.mapM' _ (reads_getSupply k)
  case getBorrow k => exact Reads.mapM' _ (reads_getBorrow k)
  case maxBorrowAmount k => exact Reads.mapM' _ (reads_maxBorrowAmount k)

end Demeter.Aave
