/-
  Wallet lemmas for the Uniswap proofs: keys are never lost, a successful debit or a credit leaves the token present.
-/
import Demeter.Uni.Ops
namespace Demeter.Uni
open Demeter

def Has (w : Wallet) (tok : String) : Prop := (AList.get? w tok).isSome = true

theorem alist_get_set_self (m : Wallet) (k : String) (v : Rat) : AList.get? (AList.set m k v) k = some v := by
  induction m with
  | nil => simp [AList.set, AList.get?]
  | cons p ps ih =>
    obtain ⟨k', v'⟩ := p
    simp only [AList.set]
    split
    · simp [AList.get?]
    · rename_i hne
      simp only [AList.get?, List.find?_cons] at ih ⊢
      simp [hne, ih]

theorem alist_get_set_other (m : Wallet) (k k' : String) (v : Rat) (h : k' ≠ k) :
    AList.get? (AList.set m k v) k' = AList.get? m k' := by
  induction m with
  | nil => simp [AList.set, AList.get?, h.symm]
  | cons p ps ih =>
    obtain ⟨k2, v2⟩ := p
    simp only [AList.set]
    split
    · rename_i heq; subst heq
      simp [AList.get?, h.symm]
    · simp only [AList.get?, List.find?_cons] at ih ⊢
      split <;> simp_all

theorem has_set (m : Wallet) (k k' : String) (v : Rat) (h : Has m k' ∨ k' = k) : Has (AList.set m k v) k' := by
  unfold Has
  by_cases e : k' = k
  · subst e; rw [alist_get_set_self]; rfl
  · rw [alist_get_set_other _ _ _ _ e]; rcases h with h | h
    · exact h
    · exact absurd h e

theorem has_credit (cx : NumCtx) (w : Wallet) (k k' : String) (a : Rat) (h : Has w k' ∨ k' = k) :
    Has (Wallet.credit cx w k a) k' := by
  unfold Wallet.credit; split <;> exact has_set _ _ _ _ h

theorem has_walletDebit {cx : NumCtx} {w w' : Wallet} {k : String} {a : Rat} {neg : Bool}
    (hd : Wallet.debit cx w k a neg = .ok w') (k' : String) (h : Has w k' ∨ k' = k) : Has w' k' := by
  unfold Wallet.debit at hd
  split at hd
  · split at hd
    · injection hd with hd; subst hd; exact has_set _ _ _ _ h
    · cases hd
  · split at hd
    · injection hd with hd; subst hd; exact has_set _ _ _ _ h
    · cases hd

theorem has_debit {cx : NumCtx} {w w' : Wallet} {k : String} {a : Rat} {neg : Bool}
    (hd : debit cx w k a neg = .ok w') (k' : String) (h : Has w k' ∨ k' = k) : Has w' k' := by
  unfold debit at hd
  split at hd
  · rename_i w2 heq; injection hd with hd; subst hd; exact has_walletDebit heq k' h
  · cases hd
  · cases hd

theorem has_debit2 {cx : NumCtx} {w w' : Wallet} {k1 k2 : String} {a1 a2 : Rat} {neg : Bool}
    (hd : debit2 cx w k1 a1 k2 a2 neg = .ok w') (k' : String) (h : Has w k' ∨ k' = k1 ∨ k' = k2) : Has w' k' := by
  unfold debit2 at hd
  split at hd
  · cases hd
  · rename_i w1 h1
    rcases h with h | h | h
    · exact has_debit hd _ (Or.inl (has_debit h1 _ (Or.inl h)))
    · exact has_debit hd _ (Or.inl (has_debit h1 _ (Or.inr h)))
    · exact has_debit hd _ (Or.inr h)

theorem balanceOf_of_has {w : Wallet} {k : String} (h : Has w k) : ∃ b, balanceOf w k = .ok b := by
  unfold Has at h; unfold balanceOf
  cases hg : AList.get? w k with
  | none => rw [hg] at h; cases h
  | some b => exact ⟨b, rfl⟩

/-- both pool tokens are in the wallet -/
def WalletHas (pool : Pool) (w : Wallet) : Prop := Has w pool.tok0 ∧ Has w pool.tok1

theorem WalletHas.base {pool : Pool} {w : Wallet} (h : WalletHas pool w) : Has w pool.baseTok := by
  unfold Pool.baseTok; split; exact h.2; exact h.1
theorem WalletHas.quote {pool : Pool} {w : Wallet} (h : WalletHas pool w) : Has w pool.quoteTok := by
  unfold Pool.quoteTok; split; exact h.1; exact h.2

end Demeter.Uni
