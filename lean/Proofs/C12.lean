/-
  C12 — Aave liquidation, one step: theorems about `Demeter.AaveRisk.doLiquidate` (the model of
  `AaveV3Market._do_liquidate` as repaired: the seized collateral is scaled with the collateral's own liquidity index).

  Exact context = rational semantics of the Decimal arithmetic.  `helper.sub_base_amount` snaps a remaining
  scaled balance below `MIN_TOKEN_VALUE = 1e-18 - 1e-27` to 0; that dust (`snapDust`, < MIN_TOKEN_VALUE scaled units)
  is explicit in the statements about the state change and the net value, and absent when nothing is snapped.
  The loop (`_liquidate`) is in `Proofs/C12/Loop.lean`.
-/
import Proofs.Lemmas.AaveRiskStep
import Mathlib.Tactic.LinearCombination
namespace Demeter
open AaveRisk

/-- hypotheses shared by the step theorems: the pair handed to `_do_liquidate` are entries of a well-formed portfolio,
    the value to cover is not negative (in `_liquidate` it is the debt's value), and the call went through -/
structure AaveRisk.StepOk (p : Portfolio) (c : Supply) (d : Debt) (cover : Rat) (p' : Portfolio) (a : LiqAction) : Prop where
  wf : p.WF
  hc : c ∈ p.supplies
  hd : d ∈ p.debts
  cover_nonneg : 0 ≤ cover
  run : doLiquidate NumCtx.exact p c d cover = .done p' a

namespace AaveRisk.StepOk
variable {p : Portfolio} {c : Supply} {d : Debt} {cover : Rat} {p' : Portfolio} {a : LiqAction}

set_option linter.defProp false in
def facts (h : StepOk p c d cover p' a) :=
  step_facts p (h.wf.sup c h.hc).1 (h.wf.sup c h.hc).2.1 (h.wf.deb d h.hd).1 (h.wf.deb d h.hd).2 h.cover_nonneg

set_option linter.defProp false in
def inv (h : StepOk p c d cover p' a) := doLiquidate_done_inv h.run

theorem collUsed_eq (h : StepOk p c d cover p' a) : a.collUsed = stepCollUsed p c d cover := by
  have := h.inv.2.2.2.2.2.2.2.2; rw [this]
theorem debtRepaid_eq (h : StepOk p c d cover p' a) : a.debtRepaid = stepRepaid p c d cover := by
  have := h.inv.2.2.2.2.2.2.2.2; rw [this]
theorem p'_eq (h : StepOk p c d cover p' a) :
    p' = { supplies := putSupplyBase p.supplies c.tok (stepCollBase p c d cover),
           debts := putDebtBase p.debts d.tok (stepDebtBase p c d cover) } := h.inv.2.2.2.2.2.2.2.1

theorem coll_div_le (h : StepOk p c d cover p' a) : stepCollUsed p c d cover / c.row.liqIndex ≤ c.base := by
  have hli := (h.wf.sup c h.hc).2.1.li_pos
  rw [div_le_iff₀ hli]; exact h.facts.2.2.2.2.1

theorem debt_div_le (h : StepOk p c d cover p' a) : stepRepaid p c d cover / d.row.borIndex ≤ d.base := by
  have hbi := (h.wf.deb d h.hd).2.bi_pos
  rw [div_le_iff₀ hbi]; exact h.inv.2.2.2.2.2.2.1

end AaveRisk.StepOk

/-- **Close factor.**  The step repays at most the close factor of the debt: 50 % if the health factor before the
    step was above 0.95, otherwise 100 % (the constants are the ones in `AaveV3CoreLib`). -/
theorem C12_close_factor {p : Portfolio} {c : Supply} {d : Debt} {cover : Rat} {p' : Portfolio} {a : LiqAction}
    (h : StepOk p c d cover p' a) :
    Gen.arCloseFactorHfThreshold = 95 / 100 ∧ Gen.arDefaultCloseFactor = 50 / 100 ∧ Gen.arMaxCloseFactor = 100 / 100
    ∧ a.half = (healthFactor NumCtx.exact p).gtB (95 / 100)
    ∧ a.debtRepaid ≤ (if a.half then (50 / 100 : Rat) else 100 / 100) * d.amount NumCtx.exact
    ∧ a.debtRepaid ≤ cover := by
  have ha := h.inv.2.2.2.2.2.2.2.2
  have hf := h.facts
  have hhalf : a.half = stepHalf p := by rw [ha]
  refine ⟨by unfold Gen.arCloseFactorHfThreshold; norm_num, by unfold Gen.arDefaultCloseFactor; norm_num,
    by unfold Gen.arMaxCloseFactor; norm_num, ?_, ?_, ?_⟩
  · rw [hhalf]; unfold stepHalf Gen.arCloseFactorHfThreshold; norm_num
  · rw [h.debtRepaid_eq, hhalf, Debt.amount_exact]
    have h1 : stepRepaid p c d cover ≤ d.base * d.row.borIndex * stepCf p := le_trans hf.2.2.2.2.2.2.1 hf.2.1
    rcases stepCf_cases p with ⟨hb, hcf⟩ | ⟨hb, hcf⟩ <;> rw [hb] <;> rw [hcf] at h1 <;> simp <;> linarith
  · rw [h.debtRepaid_eq]; exact le_trans hf.2.2.2.2.2.2.1 hf.2.2.1

/-- **Bonus.**  The seized collateral is worth the repaid value × (1 + the collateral's liquidation bonus) at the bar's
    prices; it never exceeds the collateral balance; when the balance caps it, all of the collateral is seized and the
    repayment is scaled down to `price_c × balance / (price_d × (1 + bonus))`. -/
theorem C12_seized_value {p : Portfolio} {c : Supply} {d : Debt} {cover : Rat} {p' : Portfolio} {a : LiqAction}
    (h : StepOk p c d cover p' a) :
    a.collUsed * c.row.price = a.debtRepaid * d.row.price * (1 + c.row.bonus)
    ∧ a.collUsed ≤ c.amount NumCtx.exact
    ∧ (a.capped = true → a.collUsed = c.amount NumCtx.exact
        ∧ a.debtRepaid = c.row.price * c.amount NumCtx.exact / (d.row.price * (1 + c.row.bonus)))
    ∧ (a.capped = false → a.debtRepaid = min cover ((if a.half then (1 / 2 : Rat) else 1) * d.amount NumCtx.exact)) := by
  have ha := h.inv.2.2.2.2.2.2.2.2
  have hf := h.facts
  have hcap : a.capped = stepCapped p c d cover := by rw [ha]
  have hhalf : a.half = stepHalf p := by rw [ha]
  rw [h.collUsed_eq, h.debtRepaid_eq, Supply.amount_exact, Debt.amount_exact, hcap, hhalf]
  refine ⟨hf.2.2.2.2.2.2.2, hf.2.2.2.2.1, ?_, ?_⟩
  · intro hc
    refine ⟨by unfold stepCollUsed; rw [hc]; simp, ?_⟩
    exact step_capped_repaid p (h.wf.sup c h.hc).2.1 (h.wf.deb d h.hd).2 hc
  · intro hc; unfold stepRepaid; rw [hc]
    simp only [Bool.false_eq_true, if_false]
    unfold stepToLiq
    have hmin : ∀ x m : Rat, (if x > m then m else x) = min x m := by
      intro x m
      split
      · rename_i hgt; exact (min_eq_right (le_of_lt hgt)).symm
      · rename_i hgt; exact (min_eq_left (not_lt.mp hgt)).symm
    rw [hmin]
    rcases stepCf_cases p with ⟨hb, hcf⟩ | ⟨hb, hcf⟩
    · rw [hb, hcf]; simp; congr 1; ring
    · rw [hb, hcf]; simp

/-- **Amounts stay non-negative**, and the step leaves a well-formed portfolio. -/
theorem C12_amounts_nonneg {p : Portfolio} {c : Supply} {d : Debt} {cover : Rat} {p' : Portfolio} {a : LiqAction}
    (h : StepOk p c d cover p' a) :
    0 ≤ a.collUsed ∧ 0 ≤ a.debtRepaid ∧ 0 ≤ a.collAfter ∧ 0 ≤ a.debtAfter ∧ p'.WF := by
  have ha := h.inv.2.2.2.2.2.2.2.2
  have hf := h.facts
  have hli := (h.wf.sup c h.hc).2.1.li_pos
  have hbi := (h.wf.deb d h.hd).2.bi_pos
  have hcb : 0 ≤ stepCollBase p c d cover := subBase_nonneg _ _
  have hdb : 0 ≤ stepDebtBase p c d cover := subBase_nonneg _ _
  refine ⟨by rw [h.collUsed_eq]; exact hf.2.2.2.1, by rw [h.debtRepaid_eq]; exact hf.2.2.2.2.2.1, ?_, ?_, ?_⟩
  · rw [ha]; show 0 ≤ stepCollBase p c d cover * c.row.liqIndex; positivity
  · rw [ha]; show 0 ≤ stepDebtBase p c d cover * d.row.borIndex; positivity
  · rw [h.p'_eq]
    refine ⟨?_, ?_, ?_, ?_⟩
    · intro s hs
      rcases mem_putSupplyBase hs with h1 | ⟨s0, hs0, _, rfl⟩
      · exact h.wf.sup s h1
      · obtain ⟨_, hr, hl⟩ := h.wf.sup s0 hs0
        exact ⟨hcb, hr, hl⟩
    · intro x hx
      rcases mem_putDebtBase hx with h1 | ⟨d0, hd0, _, rfl⟩
      · exact h.wf.deb x h1
      · exact ⟨hdb, (h.wf.deb d0 hd0).2⟩
    · exact (keys_putSupplyBase_sublist _ _ _).nodup h.wf.supKeys
    · exact (keys_putDebtBase_sublist _ _ _).nodup h.wf.debKeys

/-- **State change (collateral's own index).**  The collateral supply shrinks by the seized amount — measured with the
    collateral token's *own* liquidity index — and the debt by the repaid amount, up to the dust `sub_base_amount` snaps
    (`< MIN_TOKEN_VALUE` scaled units, zero unless the remainder is below `MIN_TOKEN_VALUE`); every other entry is
    untouched. -/
theorem C12_state_change {p : Portfolio} {c : Supply} {d : Debt} {cover : Rat} {p' : Portfolio} {a : LiqAction}
    (h : StepOk p c d cover p' a) :
    ∃ dustS dustD : Rat,
      dustS = snapDust c.base (a.collUsed / c.row.liqIndex) ∧ dustD = snapDust d.base (a.debtRepaid / d.row.borIndex)
      ∧ 0 ≤ dustS ∧ dustS < Gen.arMinTokenValue ∧ 0 ≤ dustD ∧ dustD < Gen.arMinTokenValue
      ∧ supplyAmountOf NumCtx.exact p' c.tok = c.amount NumCtx.exact - a.collUsed - dustS * c.row.liqIndex
      ∧ debtAmountOf NumCtx.exact p' d.tok = d.amount NumCtx.exact - a.debtRepaid - dustD * d.row.borIndex
      ∧ (∀ t, t ≠ c.tok → findSupply? p'.supplies t = findSupply? p.supplies t)
      ∧ (∀ t, t ≠ d.tok → findDebt? p'.debts t = findDebt? p.debts t) := by
  have hli := (h.wf.sup c h.hc).2.1.li_pos
  have hbi := (h.wf.deb d h.hd).2.bi_pos
  obtain ⟨hs0, hs1⟩ := snapDust_bounds h.coll_div_le
  obtain ⟨hd0, hd1⟩ := snapDust_bounds h.debt_div_le
  refine ⟨_, _, rfl, rfl, ?_, ?_, ?_, ?_, ?_, ?_, ?_, ?_⟩
  · rw [h.collUsed_eq]; exact hs0
  · rw [h.collUsed_eq]; exact hs1
  · rw [h.debtRepaid_eq]; exact hd0
  · rw [h.debtRepaid_eq]; exact hd1
  · rw [h.p'_eq, h.collUsed_eq]
    unfold supplyAmountOf
    simp only []
    rw [find_putSupplyBase_self h.wf.supKeys h.hc, Supply.amount_exact]
    by_cases hz : stepCollBase p c d cover = 0
    · rw [if_pos hz]
      rw [stepCollBase_eq] at hz
      have e : stepCollUsed p c d cover / c.row.liqIndex * c.row.liqIndex = stepCollUsed p c d cover := by field_simp
      simp only []
      linear_combination (-c.row.liqIndex) * hz - e
    · rw [if_neg hz]
      simp only [Supply.amount_exact]
      rw [stepCollBase_eq]; field_simp
  · rw [h.p'_eq, h.debtRepaid_eq]
    unfold debtAmountOf
    simp only []
    rw [find_putDebtBase_self h.wf.debKeys h.hd, Debt.amount_exact]
    by_cases hz : stepDebtBase p c d cover = 0
    · rw [if_pos hz]
      rw [stepDebtBase_eq] at hz
      have e : stepRepaid p c d cover / d.row.borIndex * d.row.borIndex = stepRepaid p c d cover := by field_simp
      simp only []
      linear_combination (-d.row.borIndex) * hz - e
    · rw [if_neg hz]
      simp only [Debt.amount_exact]
      rw [stepDebtBase_eq]; field_simp
  · intro t ht; rw [h.p'_eq]; exact find_putSupplyBase_ne _ ht _
  · intro t ht; rw [h.p'_eq]; exact find_putDebtBase_ne _ ht _

/-- **The recorded action matches the state change**: the `LiquidationAction` names the pair, and its
    `collateral_after` / `variable_debt_after` / `health_factor_before` / `health_factor_after` are the position's
    amounts and health factors recomputed from the portfolio before and after the step. -/
theorem C12_record_matches {p : Portfolio} {c : Supply} {d : Debt} {cover : Rat} {p' : Portfolio} {a : LiqAction}
    (h : StepOk p c d cover p' a) :
    a.collTok = c.tok ∧ a.debtTok = d.tok ∧ a.toCover = cover
    ∧ a.collAfter = supplyAmountOf NumCtx.exact p' c.tok
    ∧ a.debtAfter = debtAmountOf NumCtx.exact p' d.tok
    ∧ a.hfBefore = healthFactor NumCtx.exact p ∧ a.hfAfter = healthFactor NumCtx.exact p' := by
  have ha := h.inv.2.2.2.2.2.2.2.2
  refine ⟨by rw [ha], by rw [ha], by rw [ha], ?_, ?_, by rw [ha], by rw [ha]⟩
  · rw [ha, h.p'_eq]
    unfold supplyAmountOf
    simp only []
    rw [find_putSupplyBase_self h.wf.supKeys h.hc]
    by_cases hz : stepCollBase p c d cover = 0
    · rw [if_pos hz, hz]; simp
    · rw [if_neg hz]; rfl
  · rw [ha, h.p'_eq]
    unfold debtAmountOf
    simp only []
    rw [find_putDebtBase_self h.wf.debKeys h.hd]
    by_cases hz : stepDebtBase p c d cover = 0
    · rw [if_pos hz, hz]; simp
    · rw [if_neg hz]; rfl

/-- **Net value.**  A step lowers supplies − debts (USD) by exactly bonus × repaid value, up to the snapped dust. -/
theorem C12_net_value {p : Portfolio} {c : Supply} {d : Debt} {cover : Rat} {p' : Portfolio} {a : LiqAction}
    (h : StepOk p c d cover p' a) :
    netValue NumCtx.exact p' = netValue NumCtx.exact p - c.row.bonus * (a.debtRepaid * d.row.price)
      - snapDust c.base (a.collUsed / c.row.liqIndex) * c.row.liqIndex * c.row.price
      + snapDust d.base (a.debtRepaid / d.row.borIndex) * d.row.borIndex * d.row.price := by
  have hli := (h.wf.sup c h.hc).2.1.li_pos
  have hbi := (h.wf.deb d h.hd).2.bi_pos
  have hval := h.facts.2.2.2.2.2.2.2
  rw [h.collUsed_eq, h.debtRepaid_eq]
  unfold netValue totalSupply totalDebt
  simp only [dsum_exact, NumCtx.exact_sub]
  rw [h.p'_eq]
  simp only []
  rw [sum_putSupplyBase (fun s => s.value NumCtx.exact) (fun s => by simp [Supply.value_exact]) h.wf.supKeys h.hc,
      sum_putDebtBase (fun x => x.value NumCtx.exact) (fun x => by simp [Debt.value_exact]) h.wf.debKeys h.hd]
  simp only [Supply.value_exact, Debt.value_exact]
  rw [stepCollBase_eq, stepDebtBase_eq]
  have e1 : stepCollUsed p c d cover / c.row.liqIndex * c.row.liqIndex = stepCollUsed p c d cover := by field_simp
  have e2 : stepRepaid p c d cover / d.row.borIndex * d.row.borIndex = stepRepaid p c d cover := by field_simp
  linear_combination (-1 : Rat) * hval - c.row.price * e1 + d.row.price * e2

/-- … and by exactly bonus × repaid value when nothing is snapped (both remainders are at least `MIN_TOKEN_VALUE`
    scaled units — in particular whenever they are ≥ 1e-18). -/
theorem C12_net_value_exact {p : Portfolio} {c : Supply} {d : Debt} {cover : Rat} {p' : Portfolio} {a : LiqAction}
    (h : StepOk p c d cover p' a)
    (hs : Gen.arMinTokenValue ≤ c.base - a.collUsed / c.row.liqIndex)
    (hd : Gen.arMinTokenValue ≤ d.base - a.debtRepaid / d.row.borIndex) :
    netValue NumCtx.exact p' - netValue NumCtx.exact p = - (c.row.bonus * (a.debtRepaid * d.row.price))
    ∧ Gen.arMinTokenValue < 1 / 10 ^ 18 := by
  constructor
  · rw [C12_net_value h, snapDust_eq_zero hs, snapDust_eq_zero hd]; ring
  · unfold Gen.arMinTokenValue; norm_num

/-- **Wallet untouched.**  `update()` changes the market's positions only; the broker's balances are the same object
    before and after (in the code: `_liquidate`/`_do_liquidate` contain no broker call; the harness checks the real
    wallet). -/
theorem C12_wallet_untouched (cx : NumCtx) (acc : Account) : (update cx acc).1.wallet = acc.wallet := rfl

/-! ### non-vacuity: a concrete step (10 WETH at index 2 against 8400 USDC, WETH at 1000 USD: HF = 0.98) -/
namespace AaveRisk
def exRowW : Row := { liqIndex := 2, borIndex := 2, price := 1000, ltv := 8/10, lt := 825/1000, bonus := 5/100, canColl := true, canBorrow := true }
def exRowU : Row := { liqIndex := 1, borIndex := 1, price := 1, ltv := 8/10, lt := 85/100, bonus := 4/100, canColl := true, canBorrow := true }
def exC : Supply := { tok := "WETH", base := 5, coll := true, row := exRowW }
def exD : Debt := { tok := "USDC", base := 8400, row := exRowU }
def exP : Portfolio := { supplies := [exC], debts := [exD] }

/-- the step goes through: 4200 USDC (50 %) repaid, 4.41 WETH seized, 10 → 5.59 WETH left -/
def exStepCheck : Bool :=
  match doLiquidate NumCtx.exact exP exC exD 8400 with
  | .done p' a => decide (a.collUsed = 441 / 100) && decide (a.debtRepaid = 4200) && a.half && !a.capped
      && decide (supplyAmountOf NumCtx.exact p' "WETH" = 559 / 100) && decide (debtAmountOf NumCtx.exact p' "USDC" = 4200)
  | _ => false

example : exStepCheck = true := by decide +kernel

theorem exP_wf : exP.WF := by
  refine ⟨?_, ?_, by decide, by decide⟩
  · intro s hs
    simp only [exP, List.mem_singleton] at hs
    subst hs
    refine ⟨by decide +kernel, ⟨?_, ?_, ?_, ?_, ?_, ?_⟩, fun _ => ?_⟩ <;> decide +kernel
  · intro s hs
    simp only [exP, List.mem_singleton] at hs
    subst hs
    refine ⟨by decide +kernel, ⟨?_, ?_, ?_, ?_, ?_, ?_⟩⟩ <;> decide +kernel

/-- the hypotheses of the step theorems are satisfiable -/
example : ∃ p' a, StepOk exP exC exD (exD.value NumCtx.exact) p' a := by
  have hv : exD.value NumCtx.exact = 8400 := by decide +kernel
  have hchk : exStepCheck = true := by decide +kernel
  rw [hv]
  cases h : doLiquidate NumCtx.exact exP exC exD 8400 with
  | done p' a => exact ⟨p', a, exP_wf, by simp [exP], by simp [exP], by norm_num, h⟩
  | rejected => unfold exStepCheck at hchk; rw [h] at hchk; cases hchk
  | raised e q => unfold exStepCheck at hchk; rw [h] at hchk; cases hchk
end AaveRisk

end Demeter
