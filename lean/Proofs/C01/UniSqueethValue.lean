/-
  C01 — the two models of the oSQTH/WETH pool's valuation are the same function.

  `Demeter.Uni.getMarketBalance` is the model of `UniLpMarket.get_market_balance` (any pool, any kernel); `Demeter.Squeeth.uniNetValue`
  is the copy of that loop inside the Squeeth model (fixed pool: token0 = WETH = quote, token1 = oSQTH, 18/18 decimals), over the
  positions container the two markets share.  Here: for the pool the Squeeth market trades with (`Squeeth.longPool`) and the kernel of the
  code (`Kern.std`), with exact arithmetic, `getMarketBalance` on a pool state `u` answers exactly `uniNetValue` on the Squeeth-side
  state that carries `u`'s positions (`Uni.toSq`) — so the value-level once equation of `Proofs/C01/SqueethValue.lean` is a statement
  about `UniLpMarket.get_market_balance` as modelled by `Demeter.Uni`.
-/
import Proofs.C01.Uni
import Proofs.C01.UniSqueeth
import Proofs.C01.SqueethValue
import Mathlib.Tactic.Ring
import Mathlib.Tactic.Linarith
import Mathlib.Tactic.NormNum
namespace Demeter
open Demeter.Uni Gen

namespace Uni

/-- a position the pool can hold: ticks inside the TickMath range, liquidity not negative -/
def Pos.Sane (p : Pos) : Prop := tickOk p.lower = true ∧ tickOk p.upper = true ∧ 0 ≤ p.liq

/-- token amounts of a position as the Squeeth model computes them (`closePosition`, liquidity as a natural number) -/
def sqAmt (sqrt : Nat) (p : Pos) : Rat × Rat :=
  closePosition NumCtx.exact sqrt p.lower p.upper p.liq.toNat Gen.sqWethDecimals Gen.sqOsqthDecimals

theorem c01v_amount0Gen_exact (sa sb : Nat) (l : Int) (hl : 0 ≤ l) (dec : Bool) (d : Nat) :
    amount0Gen NumCtx.exact sa sb l dec d = getAmount0 NumCtx.exact sa sb l.toNat d := by
  unfold amount0Gen getAmount0
  have hc : ((l.toNat : Nat) : Rat) = (l : Rat) := by
    have := Int.toNat_of_nonneg hl
    exact_mod_cast congrArg (fun z : Int => (z : Rat)) this
  cases dec <;> simp only [NumCtx.exact_mul, NumCtx.exact_div, q96R, Bool.false_eq_true, if_false, if_true] <;> push_cast <;> rw [hc]

theorem c01v_amount1Gen_exact (sa sb : Nat) (l : Int) (hl : 0 ≤ l) (dec : Bool) (d : Nat) :
    amount1Gen NumCtx.exact sa sb l dec d = getAmount1 NumCtx.exact sa sb l.toNat d := by
  unfold amount1Gen getAmount1
  have hc : ((l.toNat : Nat) : Rat) = (l : Rat) := by
    have := Int.toNat_of_nonneg hl
    exact_mod_cast congrArg (fun z : Int => (z : Rat)) this
  cases dec <;> simp only [NumCtx.exact_mul, NumCtx.exact_div, q96R, Bool.false_eq_true, if_false, if_true] <;> push_cast <;> rw [hc]

/-- the kernel's `get_token_amounts` is `closePosition` on sane positions -/
theorem c01v_tokenAmountsStd_exact (pool : Pool) (sqrt : Nat) (p : Pos) (hp : p.Sane) :
    tokenAmountsStd NumCtx.exact pool sqrt p.lower p.upper p.liq p.liqDec =
      .ok (closePosition NumCtx.exact sqrt p.lower p.upper p.liq.toNat pool.d0 pool.d1) := by
  obtain ⟨h1, h2, h3⟩ := hp
  unfold tokenAmountsStd closePosition
  by_cases hl : p.liq = 0
  · simp [hl]
  · have hl' : p.liq.toNat ≠ 0 := by omega
    simp only [hl, hl', if_false]
    unfold amountsGen getAmounts getAmountsS sqrtAtE
    simp only [h1, h2, if_true]
    generalize sortPair (sqrtAt p.lower) (sqrtAt p.upper) = ab
    obtain ⟨a, b⟩ := ab
    simp only []
    split_ifs <;> simp only [c01v_amount0Gen_exact _ _ _ h3, c01v_amount1Gen_exact _ _ _ h3]

theorem c01v_priceToSqrt_long (e : Squeeth.Env) (hpos : 0 < e.uniPrice) :
    priceToSqrtStd NumCtx.exact (Squeeth.longPool e) e.uniPrice = .ok (Squeeth.uniSqrtP NumCtx.exact e.uniPrice) := by
  unfold priceToSqrtStd Squeeth.uniSqrtP
  have hne : (e.uniPrice == 0) = false := by
    have : e.uniPrice ≠ 0 := ne_of_gt hpos
    simpa using this
  have hnn : ¬ (1 / e.uniPrice / 1 < 0) := by
    have : 0 < 1 / e.uniPrice / 1 := by rw [div_one]; exact one_div_pos.mpr hpos
    exact not_lt.mpr (le_of_lt this)
  simp only [Squeeth.longPool, hne, Bool.and_false, Bool.false_eq_true, if_false, if_true, NumCtx.exact_div, NumCtx.exact_mul, hnn, q96R]

def sqOf (p : Pos) : Squeeth.PosKey × Squeeth.UPos := ((p.lower, p.upper), ⟨p.liq.toNat, p.pending0, p.pending1, p.transferred⟩)

theorem toSq_cons (p : Pos) (ps : List Pos) : toSq (p :: ps) = sqOf p :: toSq ps := rfl

/-- the plain sum of the Uniswap part over `u`'s positions is the plain sum of the Squeeth part over the same positions as the Squeeth
    model holds them -/
theorem sumOver_eq_sumIf (e : Squeeth.Env) (ps : List Pos) :
    sumOver (posValue (Squeeth.longPool e) e.uniPrice (sqAmt (Squeeth.uniSqrtP NumCtx.exact e.uniPrice))) ps =
      Squeeth.sumIf (fun kp => !kp.2.transferred) (Squeeth.poolVal e) (toSq ps) := by
  induction ps with
  | nil => simp [sumOver, Squeeth.sumIf, toSq]
  | cons p ps ih =>
    rw [toSq_cons, Squeeth.sumIf_cons, sumOver, ih]
    unfold sqOf
    cases p.transferred with
    | true => simp
    | false =>
      simp only [Bool.false_eq_true, if_false, Bool.not_false, if_true, posValue, Pool.conv, Squeeth.longPool, Squeeth.poolVal,
        Squeeth.cpos, sqAmt]
      ring

end Uni

/-- **`UniLpMarket.get_market_balance` of the oSQTH/WETH pool = the pool valuation inside the Squeeth model** (exact arithmetic, the
    code's kernel).  For a pool state `u` whose status row carries the pool price `e.uniPrice > 0` and whose positions are sane (ticks in
    range, liquidity ≥ 0): `getMarketBalance` returns, and its net value is `Squeeth.uniNetValue` of any Squeeth-side state holding the same
    positions; its position count is `Squeeth.uniCount`. -/
theorem C01_uni_balance_is_squeeth_pool_value (sq : Rat → Rat) (e : Squeeth.Env) (u : Uni.State) (row : Row) (s : Squeeth.State)
    (hrow : u.row = some row) (hprice : row.price = e.uniPrice) (hpos : 0 < e.uniPrice)
    (hsane : ∀ p ∈ u.positions, p.Sane) (hs : s.positions = toSq u.positions) :
    ∃ b, getMarketBalance (Kern.std NumCtx.exact sq) (Squeeth.longPool e) u = .ok b ∧
      b.netValue = Squeeth.uniNetValue NumCtx.exact e s ∧ b.positionCount = Squeeth.uniCount s := by
  have hsqrt : (Kern.std NumCtx.exact sq).priceToSqrt (Squeeth.longPool e) row.price = .ok (Squeeth.uniSqrtP NumCtx.exact e.uniPrice) := by
    rw [hprice]; exact c01v_priceToSqrt_long e hpos
  obtain ⟨b, hb, hnv, _, _, _, _, hcnt⟩ := C01_uni_balance_eq_spec (Kern.std NumCtx.exact sq) rfl (Squeeth.longPool e) u row
    (Squeeth.uniSqrtP NumCtx.exact e.uniPrice) (sqAmt (Squeeth.uniSqrtP NumCtx.exact e.uniPrice)) hrow hsqrt
    (fun p hp _ => c01v_tokenAmountsStd_exact (Squeeth.longPool e) _ p (hsane p hp))
  refine ⟨b, hb, ?_, ?_⟩
  · rw [hnv, hprice, sumOver_eq_sumIf, C01_squeeth_pool_value_is_sum_over_free, hs]
  · rw [hcnt]
    unfold Squeeth.uniCount
    rw [hs]
    have : ∀ ps : List Pos, (ps.filter (fun p => !p.transferred)).length = ((toSq ps).filter (fun kp => !kp.2.transferred)).length := by
      intro ps
      induction ps with
      | nil => rfl
      | cons p ps ih =>
        rw [toSq_cons, List.filter_cons, List.filter_cons]
        unfold sqOf
        cases p.transferred <;> simp [ih]
    exact this u.positions

/-- **C01, value level, stated for the Uniswap model's `get_market_balance`**: pool state `u` (model `Demeter.Uni`) and Squeeth state `s`
    over the same positions, `Once s`, dicts without duplicate keys: what `UniLpMarket.get_market_balance` reports for the pool,
    converted at the WETH price, plus what `SqueethMarket.get_market_balance` reports, is the plain sum — free positions at the pool
    price, lent positions at the index price inside the vaults' collateral, ETH collateral, minus the short at mark — every position
    exactly once. -/
theorem C01_uni_squeeth_value_counted_once (sq : Rat → Rat) (e : Squeeth.Env) (u : Uni.State) (row : Row) (s : Squeeth.State)
    (bs : Squeeth.Balance) (hrow : u.row = some row) (hprice : row.price = e.uniPrice) (hpos : 0 < e.uniPrice)
    (hsane : ∀ p ∈ u.positions, p.Sane) (hs : s.positions = toSq u.positions) (h : Squeeth.Once s)
    (hnv : (s.vaults.map (·.1)).Nodup) (hnp : (s.positions.map (·.1)).Nodup)
    (hb : Squeeth.marketBalance NumCtx.exact e s = .ok bs) :
    ∃ bu, getMarketBalance (Kern.std NumCtx.exact sq) (Squeeth.longPool e) u = .ok bu ∧
      bu.netValue * e.weth + bs.netValue =
        Squeeth.sumIf (fun kp => !kp.2.transferred) (Squeeth.poolVal e) s.positions * e.weth +
        (Squeeth.sumIf (fun kp => kp.2.transferred) (Squeeth.idxVal e) s.positions + (s.vaults.map (·.2.coll)).sum) * e.weth -
        (s.vaults.map (·.2.short)).sum * (e.osqth * e.weth) := by
  obtain ⟨bu, hbu, hnet, _⟩ := C01_uni_balance_is_squeeth_pool_value sq e u row s hrow hprice hpos hsane hs
  exact ⟨bu, hbu, by rw [hnet]; exact C01_squeeth_uni_value_counted_once e s bs h hnv hnp hb⟩

/-! ### non-vacuity -/
example : (∀ p ∈ Uni.c01State.positions, p.Sane) := by
  intro p hp
  simp only [Uni.c01State, List.mem_cons, List.not_mem_nil, or_false] at hp
  rcases hp with rfl | rfl <;> exact ⟨by decide, by decide, by decide⟩

end Demeter
