/-
  C01, Squeeth part — `SqueethMarket.get_market_balance` is the effective collateral (ETH + the lent LP position at
  the index price) minus the short at mark, computed from the raw vault state; every LP position is counted exactly
  once overall: by the Uniswap market while it is free, by exactly one vault (and skipped by the Uniswap market)
  while it is lent; no vault ever references a position that does not exist.
-/
import Proofs.Lemmas.SqueethOnce
import Proofs.C14.Amounts
import Proofs.C14
namespace Demeter
open Squeeth Gen

/-- **exactly once, one step**: every operation of the model — vault operations, liquidations, `update`, the pool's
    `remove_liquidity` —, accepted or rejected, in every arithmetic context, keeps the invariant `Once` -/
theorem C01_squeeth_counted_once_step (cx : NumCtx) (e : Env) (s : State) (op : Op) (h : Once s) : Once (step cx e s op).st := by
  unfold step
  split
  · exact atomic_once _ _ h (stepBody_once_of_ok cx e s op h)
  · rename_i hna
    cases op with
    | update => exact updateGo_once cx e _ s h
    | uniRemove pos => exact uniRemoveOp_once cx e s pos h
    | buy o q => exact h.of_sameRefs (sameRefs_of_frame (buy_frame cx e s o q))
    | sell o q => exact h.of_sameRefs (sameRefs_of_frame (sell_frame cx e s o q))
    | _ => simp [Op.isAtomic] at hna

/-- **exactly once, every history**: along any sequence of operations and any price / norm-factor path -/
theorem C01_squeeth_counted_once (cx : NumCtx) (s : State) (hist : List (Env × Op)) (h : Once s) : Once (runOps cx s hist) := by
  induction hist generalizing s with
  | nil => exact h
  | cons eo rest ih =>
    obtain ⟨e, op⟩ := eo
    unfold runOps
    exact ih _ (C01_squeeth_counted_once_step cx e s op h)

/-- the starting point: no vaults, no position flagged as lent -/
theorem C01_squeeth_initially_once (s : State) (hv : s.vaults = [])
    (hp : ∀ pos p, AList.get? s.positions pos = some p → p.transferred = false) : Once s := by
  constructor
  · intro vk v pos hg; rw [hv] at hg; cases hg
  · intro pos p hg ht; rw [hp pos p hg] at ht; cases ht
  · intro vk vk' v v' pos hg; rw [hv] at hg; cases hg
  · intro vk v hg; rw [hv] at hg; cases hg

/-- whatever the pool does to *free* positions (add liquidity creating a position, fee accrual, remove, collect) keeps
    the invariant, as long as it never raises a `transferred` flag itself -/
theorem C01_squeeth_pool_side_changes (s s' : State) (pos : PosKey) (h : Once s)
    (hfree : ∀ p, AList.get? s.positions pos = some p → p.transferred = false)
    (hv : s'.vaults = s.vaults) (hm : s'.maxId = s.maxId)
    (hp' : ∀ p', AList.get? s'.positions pos = some p' → p'.transferred = false)
    (hpo : ∀ k, k ≠ pos → AList.get? s'.positions k = AList.get? s.positions k) : Once s' :=
  h.dropFree pos hfree (fun k => by rw [hv]) hp' (fun k hk => by rw [hpo k hk]) hm

/-- **counted by the vault ⇔ skipped by the pool**: under `Once`, a position referenced by a vault exists, carries the
    `transferred` flag (so `UniLpMarket.get_market_balance` skips it) and is referenced by that vault only; a free
    position is referenced by no vault -/
theorem C01_squeeth_lent_xor_free (s : State) (h : Once s) (pos : PosKey) (p : UPos) (hp : AList.get? s.positions pos = some p) :
    (p.transferred = true → ∃ vk v, AList.get? s.vaults vk = some v ∧ v.nft = some pos ∧
        ∀ vk' v', AList.get? s.vaults vk' = some v' → v'.nft = some pos → vk' = vk) ∧
    (p.transferred = false → ∀ vk v, AList.get? s.vaults vk = some v → v.nft ≠ some pos) := by
  constructor
  · intro ht
    obtain ⟨vk, v, hv, hn⟩ := h.lent_ref pos p hp ht
    exact ⟨vk, v, hv, hn, fun vk' v' hv' hn' => h.inj vk' vk v' v pos hv' hv hn' hn⟩
  · intro hf vk v hv hn
    obtain ⟨q, hq, hqt⟩ := h.ref_lent vk v pos hv hn
    rw [hp] at hq; cases hq; rw [hf] at hqt; cases hqt

/-- **no dangling reference**: under `Once` the effective collateral of every vault is defined (the `KeyError` branch of
    `_get_effective_collateral_in_eth` is unreachable) -/
theorem C01_squeeth_no_dangling_reference (cx : NumCtx) (e : Env) (s : State) (h : Once s) (vk : Nat) (v : Vault)
    (hv : AList.get? s.vaults vk = some v) : ∃ c, effColl cx e s vk = .ok c := by
  unfold effColl
  rw [hv]
  cases hn : v.nft with
  | none => simp only [hn]; exact ⟨_, rfl⟩
  | some pos =>
    obtain ⟨p, hp, _⟩ := h.ref_lent vk v pos hv hn
    simp only [hn, hp]
    exact ⟨_, rfl⟩

/-- the pool's valuation loop passes over lent positions: it is the same loop over the free positions only -/
theorem C01_squeeth_pool_skips_lent (cx : NumCtx) (sp : Nat) (ps : AList PosKey UPos) (a : UniAcc) :
    ps.foldl (uniAccStep cx sp) a = (ps.filter (fun kp => !kp.2.transferred)).foldl (uniAccStep cx sp) a := by
  induction ps generalizing a with
  | nil => rfl
  | cons kp rest ih =>
    by_cases ht : kp.2.transferred = true
    · have : uniAccStep cx sp a kp = a := by unfold uniAccStep; simp [ht]
      simp only [List.foldl_cons, this, List.filter, ht, Bool.not_true]
      exact ih a
    · have hf : kp.2.transferred = false := by cases hx : kp.2.transferred with | false => rfl | true => exact absurd hx ht
      simp only [List.foldl_cons, List.filter, hf, Bool.not_false]
      exact ih _

namespace Squeeth
theorem dsum_exact (xs : List Rat) (a : Rat) : xs.foldl (fun a x => NumCtx.exact.add a x) a = a + xs.sum := by
  induction xs generalizing a with
  | nil => simp
  | cons x rest ih =>
    simp only [List.foldl_cons, List.sum_cons]
    rw [ih, NumCtx.exact_add]; ring

theorem forall2_map_left {α β γ : Type} (R : β → γ → Prop) (f : α → β) (l : List α) (cs : List γ)
    (h : List.Forall₂ R (l.map f) cs) : List.Forall₂ (fun a c => R (f a) c) l cs := by
  induction l generalizing cs with
  | nil => cases h; exact List.Forall₂.nil
  | cons a l ih =>
    cases h with
    | cons h1 h2 => exact List.Forall₂.cons h1 (ih _ h2)

theorem sumEffColl_exact (e : Env) (s : State) (ks : List Nat) (acc r : Rat) (h : sumEffColl NumCtx.exact e s ks acc = .ok r) :
    ∃ cs : List Rat, List.Forall₂ (fun k c => effColl NumCtx.exact e s k = .ok c) ks cs ∧ r = acc + cs.sum := by
  induction ks generalizing acc with
  | nil =>
    simp only [sumEffColl, Except.ok.injEq] at h
    exact ⟨[], List.Forall₂.nil, by simp [h]⟩
  | cons k rest ih =>
    unfold sumEffColl at h
    cases hc : effColl NumCtx.exact e s k with
    | error er => simp [hc] at h
    | ok c =>
      simp only [hc, NumCtx.exact_add] at h
      obtain ⟨cs, hcs, hr⟩ := ih _ h
      exact ⟨c :: cs, List.Forall₂.cons hc hcs, by rw [hr]; simp only [List.sum_cons]; ring⟩
end Squeeth

/-- **`get_market_balance` from the raw vault state** (exact arithmetic): with `cᵢ` the effective collateral of vault `i`
    (`C14_effective_collateral`: ETH + LP WETH + LP oSQTH at the index price),
    `net_value = (Σ cᵢ) · WETH − (Σ shortᵢ) · (OSQTH · WETH)`, collateral amount `Σ cᵢ`, short amount `Σ shortᵢ`,
    long amount = the wallet's oSQTH, and the count is the number of vaults -/
theorem C01_squeeth_balance_from_raw_state (e : Env) (s : State) (b : Balance) (h : marketBalance NumCtx.exact e s = .ok b) :
    ∃ cs : List Rat, List.Forall₂ (fun kv c => effColl NumCtx.exact e s kv.1 = .ok c) s.vaults cs ∧
      b.collEth = cs.sum ∧ b.short = (s.vaults.map (·.2.short)).sum ∧
      b.netValue = cs.sum * e.weth - (s.vaults.map (·.2.short)).sum * (e.osqth * e.weth) ∧
      b.collValue = cs.sum * e.weth ∧ AList.get? s.wallet sqOsqthName = some b.long ∧ b.net = b.long - b.short ∧
      b.shortEth = b.short * e.nf * twap e .weth / 10000 ∧ b.count = s.vaults.length := by
  unfold marketBalance at h
  cases hl : AList.get? s.wallet sqOsqthName with
  | none => simp [hl] at h
  | some long =>
    simp only [hl] at h
    cases hs : sumEffColl NumCtx.exact e s (s.vaults.map (·.1)) 0 with
    | error er => simp [hs] at h
    | ok r =>
      simp only [hs, Except.ok.injEq] at h
      obtain ⟨cs, hcs, hr⟩ := sumEffColl_exact e s _ 0 r hs
      have hshort : dsum NumCtx.exact (s.vaults.map (·.2.short)) = (s.vaults.map (·.2.short)).sum := by
        unfold dsum; rw [dsum_exact]; ring
      refine ⟨cs, forall2_map_left _ _ _ _ hcs, ?_⟩
      rw [← h]
      simp only [NumCtx.exact_mul, NumCtx.exact_sub, NumCtx.exact_div, hshort, C14_constants.2.2.2.2.2.2.2.1]
      rw [hr]
      exact ⟨by ring, trivial, by ring, by ring, trivial, trivial, trivial, trivial⟩

/-! ### the long side: a trade changes the wallet and nothing the markets value -/
namespace Squeeth
/-- the three views read the state through vaults and positions only (and the wallet's oSQTH entry for the long amount) -/
theorem effColl_of_frame (cx : NumCtx) (e : Env) {s s' : State} (hv : s'.vaults = s.vaults) (hp : s'.positions = s.positions)
    (vk : Nat) : effColl cx e s' vk = effColl cx e s vk := by
  unfold effColl posAmount; rw [hv, hp]

theorem sumEffColl_of_frame (cx : NumCtx) (e : Env) {s s' : State} (hv : s'.vaults = s.vaults) (hp : s'.positions = s.positions)
    (ks : List Nat) (acc : Rat) : sumEffColl cx e s' ks acc = sumEffColl cx e s ks acc := by
  induction ks generalizing acc with
  | nil => rfl
  | cons k rest ih => unfold sumEffColl; rw [effColl_of_frame cx e hv hp k]; cases effColl cx e s k <;> simp [ih]

end Squeeth

/-- **a trade of the long side moves no market value**: after `buy_squeeth` / `sell_squeeth` — accepted or rejected, any arguments, any
    arithmetic context — every vault's effective collateral, the pool's valuation of the free LP positions and its position count are
    what they were, and `get_market_balance` answers the same balance except for the long amount, which is the wallet's new oSQTH
    balance (`osqth_net_amount` follows it).  The account's value changes by the change of the wallet, and by nothing else. -/
theorem C01_squeeth_trade_moves_no_market_value (cx : NumCtx) (e : Env) (s : State) (op : Op) (hop : op.isTrade = true) :
    (∀ vk, effColl cx e (step cx e s op).st vk = effColl cx e s vk) ∧
    uniNetValue cx e (step cx e s op).st = uniNetValue cx e s ∧ uniCount (step cx e s op).st = uniCount s ∧
    (∀ b l, marketBalance cx e s = .ok b → AList.get? (step cx e s op).st.wallet sqOsqthName = some l →
      marketBalance cx e (step cx e s op).st = .ok { b with long := l, net := cx.sub l b.short }) := by
  obtain ⟨hv, hp, _⟩ := trade_frame cx e s op hop
  refine ⟨effColl_of_frame cx e hv hp, ?_, ?_, ?_⟩
  · unfold uniNetValue; rw [hp]
  · unfold uniCount; rw [hp]
  · intro b l hb hl
    unfold marketBalance at hb ⊢
    rw [hl, hv, sumEffColl_of_frame cx e hv hp]
    cases hw : AList.get? s.wallet sqOsqthName with
    | none => simp [hw] at hb
    | some l0 =>
      simp only [hw] at hb ⊢
      cases hs : sumEffColl cx e s (s.vaults.map (·.1)) 0 with
      | error er => simp [hs] at hb
      | ok r =>
        simp only [hs, Except.ok.injEq] at hb ⊢
        rw [← hb]

/-- **valuation after a trade = independent valuation** (exact arithmetic): whatever `get_market_balance` answers after
    `buy_squeeth` / `sell_squeeth` is the raw-state formula of `C01_squeeth_balance_from_raw_state` evaluated on the vaults as they were
    *before* the trade — `net_value = (Σ cᵢ)·WETH − (Σ shortᵢ)·(OSQTH·WETH)` with `cᵢ` the effective collateral of vault `i` before the
    trade — and the long amount is the wallet's oSQTH after it -/
theorem C01_squeeth_valuation_after_trade (e : Env) (s : State) (op : Op) (hop : op.isTrade = true) (b : Balance)
    (h : marketBalance NumCtx.exact e (step NumCtx.exact e s op).st = .ok b) :
    ∃ cs : List Rat, List.Forall₂ (fun kv c => effColl NumCtx.exact e s kv.1 = .ok c) s.vaults cs ∧
      b.collEth = cs.sum ∧ b.short = (s.vaults.map (·.2.short)).sum ∧
      b.netValue = cs.sum * e.weth - (s.vaults.map (·.2.short)).sum * (e.osqth * e.weth) ∧
      AList.get? (step NumCtx.exact e s op).st.wallet sqOsqthName = some b.long ∧ b.net = b.long - b.short ∧
      b.count = s.vaults.length := by
  obtain ⟨hv, hp, _⟩ := trade_frame NumCtx.exact e s op hop
  obtain ⟨cs, hcs, h1, h2, h3, _, h5, h6, _, h8⟩ := C01_squeeth_balance_from_raw_state e _ b h
  rw [hv] at hcs h2 h3 h8
  refine ⟨cs, ?_, h1, h2, h3, h5, h6, h8⟩
  have : (fun (kv : Nat × Vault) c => effColl NumCtx.exact e (step NumCtx.exact e s op).st kv.1 = .ok c) =
      (fun kv c => effColl NumCtx.exact e s kv.1 = .ok c) := by
    funext kv c; rw [effColl_of_frame NumCtx.exact e hv hp]
  rw [this] at hcs; exact hcs

/-! ### non-vacuity: lend a position, then value the state -/
namespace Squeeth
def c01Env : Env := { nf := 1/2, weth := 2000, osqth := 1/10, now := none, rows := [], uniPrice := 1/10, uniOpen := true, mean := fun _ => 0 }
def c01Start : State :=
  { wallet := [("WETH", 10), ("OSQTH", 5)], vaults := [], maxId := 0,
    positions := [((18000, 21000), { liquidity := 10^19, pending0 := 0, pending1 := 0, transferred := false })], log := [] }
def c01Hist : List (Env × Op) := [(c01Env, .openMint 2 1 none (some (18000, 21000))), (c01Env, .openMint 1 1 none none)]
/-- … then buy 3 oSQTH and sell the oSQTH that 0.2 ETH pay for -/
def c01Trades : List (Env × Op) := [(c01Env, .buy (some 3) none), (c01Env, .sell none (some (1/5)))]
end Squeeth

example : Once (runOps NumCtx.py c01Start c01Hist) :=
  C01_squeeth_counted_once _ _ _ (C01_squeeth_initially_once _ rfl (by
    intro pos p hp
    simp only [c01Start, get?_cons, get?_nil] at hp
    split_ifs at hp
    cases hp; rfl))
-- … and in that state the position really is lent: flagged in the pool, referenced by vault 1, skipped by the pool
example : (runOps NumCtx.py c01Start c01Hist).positions.map (fun kp => kp.2.transferred) = [true] := by decide +kernel
example : (runOps NumCtx.py c01Start c01Hist).vaults.map (fun kv => kv.2.nft) = [some (18000, 21000), none] := by decide +kernel
example : uniCount (runOps NumCtx.py c01Start c01Hist) = 0 := by decide +kernel
example : ((marketBalance NumCtx.py c01Env (runOps NumCtx.py c01Start c01Hist)).toOption.map (·.count)) = some 2 := by decide +kernel
-- the two trades are accepted, move the wallet's oSQTH from 7 to 8 and leave the market's net value where it was
example : (step NumCtx.exact c01Env (runOps NumCtx.exact c01Start c01Hist) (.buy (some 3) none)).err = none := by decide +kernel
example : ((marketBalance NumCtx.exact c01Env (runOps NumCtx.exact c01Start (c01Hist ++ c01Trades))).toOption.map (fun b => (b.long, b.count))) =
    some (8, 2) := by decide +kernel
example : ((marketBalance NumCtx.exact c01Env (runOps NumCtx.exact c01Start (c01Hist ++ c01Trades))).toOption.map (·.netValue)) =
    ((marketBalance NumCtx.exact c01Env (runOps NumCtx.exact c01Start c01Hist)).toOption.map (·.netValue)) := by decide +kernel

end Demeter
