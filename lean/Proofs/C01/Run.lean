/-
  C01, whole-run part — "at every bar of every backtest history".

  The bar loop (Demeter/Actuator.lean, `run`) appends one account row per bar; `Demeter/Actuator/Valued.lean` makes the row a
  value: `Broker.get_account_status` (`accountStatus`, Demeter/Broker.lean) applied to wallet and markets as the calls before
  the `row` call left them, for any interpretation `V` of what the calls do to wallet and markets.  The theorems tie C05's "one
  row per bar carrying that bar's prices" to C01's valuation: the row of bar k is `accountStatus` at bar k's price row of the
  world produced by exactly the calls with (bar, phase) before (k, account row) — every call of the earlier bars including
  their `notify` phase, and of bar k everything up to and including the market update and `after_bar` — and by none of the later
  ones (bar k's `notify` calls and what they do come after the row).  With exact arithmetic its net value is the plain sum
  "wallet at the bar's prices + every market once, converted" (`C01_broker_reported_eq_spec`).
-/
import Proofs.C05
import Proofs.C01.Broker
import Demeter.Actuator.Valued
namespace Demeter
open Core

namespace Core

theorem c01run_worldAfter_cons {W : Type} (V : Valuation W) (e : Ev) (l : List Ev) (w : W) :
    worldAfter V (e :: l) w = worldAfter V l (V.eff e w) := rfl

theorem c01run_valuedRows_eq_splits {W : Type} (cx : NumCtx) (V : Valuation W) : ∀ (l : List Ev) (w : W),
    valuedRows cx V l w = (rowSplits l).map (fun s => (s.2.1, acctRow cx V s.2.2 (worldAfter V s.1 w)))
  | [], _ => rfl
  | e :: l, w => by
    have ih := c01run_valuedRows_eq_splits cx V l (V.eff e w)
    cases e <;>
      (simp only [valuedRows, rowSplits, List.map_cons, List.map_map, ih, Function.comp_def, c01run_worldAfter_cons]; try rfl)

theorem c01run_rowSplits_spec : ∀ (l : List Ev), ∀ s ∈ rowSplits l, ∃ post, l = s.1 ++ Ev.row s.2.1 s.2.2 :: post
  | [], s, hs => by simp [rowSplits] at hs
  | e :: l, s, hs => by
    have ih := c01run_rowSplits_spec l
    have key : ∀ s ∈ (rowSplits l).map (fun s => (e :: s.1, s.2)), ∃ post, e :: l = s.1 ++ Ev.row s.2.1 s.2.2 :: post := by
      intro s hs
      obtain ⟨s', hs', rfl⟩ := List.mem_map.mp hs
      obtain ⟨post, hp⟩ := ih s' hs'
      exact ⟨post, by simp only [List.cons_append]; rw [← hp]⟩
    cases e with
    | row ts src =>
      simp only [rowSplits, List.mem_cons] at hs
      rcases hs with rfl | hs
      · exact ⟨l, rfl⟩
      · exact key s hs
    | _ => exact key s (by simpa only [rowSplits] using hs)

theorem c01run_rowSplits_snd : ∀ (l : List Ev), (rowSplits l).map (·.2) = l.filterMap rowOf
  | [] => rfl
  | e :: l => by
    have ih := c01run_rowSplits_snd l
    cases e <;> simp only [rowSplits, List.map_cons, List.map_map, Function.comp_def, List.filterMap_cons, rowOf, ih]

theorem c01run_map_zip {α β γ δ : Type} (g : β → γ) (G : γ → α → δ) : ∀ (splits : List (α × γ)) (bars : List β),
    splits.map (·.2) = bars.map g →
    splits.map (fun s => G s.2 s.1) = List.zipWith (fun b pre => G (g b) pre) bars (splits.map (·.1))
  | [], [], _ => rfl
  | [], _ :: _, h => by simp at h
  | _ :: _, [], h => by simp at h
  | s :: splits, b :: bars, h => by
    simp only [List.map_cons, List.cons.injEq] at h
    simp only [List.map_cons, List.zipWith_cons_cons, c01run_map_zip g G splits bars h.2, h.1]

/-- two elements of a list, the first before the second, survive a `filterMap` in that order -/
theorem c01run_sublist_pair {α β : Type} (f : α → Option β) {l pre post : List α} {x e : α} {a b : β}
    (hl : l = pre ++ x :: post) (he : e ∈ pre) (fa : f e = some a) (fb : f x = some b) : [a, b].Sublist (l.filterMap f) := by
  have h1 : [e].Sublist pre := List.singleton_sublist.mpr he
  have h2 : [x].Sublist (x :: post) := List.singleton_sublist.mpr (List.mem_cons_self ..)
  have h3 : ([e] ++ [x]).Sublist (pre ++ x :: post) := List.Sublist.append h1 h2
  have h4 := List.Sublist.filterMap f h3
  rw [← hl] at h4
  simpa [List.filterMap_cons, fa, fb] using h4

theorem c01run_sublist_pair' {α β : Type} (f : α → Option β) {l pre post : List α} {x e : α} {a b : β}
    (hl : l = pre ++ x :: post) (he : e ∈ post) (fa : f e = some a) (fb : f x = some b) : [b, a].Sublist (l.filterMap f) := by
  have h1 : [e].Sublist post := List.singleton_sublist.mpr he
  have h2 : ([x] ++ [e]).Sublist ([x] ++ post) := List.Sublist.append (List.Sublist.refl _) h1
  have h3 : ([] ++ ([x] ++ [e])).Sublist (pre ++ ([x] ++ post)) := List.Sublist.append (List.nil_sublist _) h2
  have h4 := List.Sublist.filterMap f h3
  have hl' : l = pre ++ ([x] ++ post) := by rw [hl]; rfl
  rw [← hl'] at h4
  simpa [List.filterMap_cons, fa, fb] using h4

theorem c01run_phase14 (e : Ev) (h : e.phase = 14) : ∃ ts src, e = Ev.row ts src := by
  cases e <;> simp [Ev.phase, Hook.phase] at h
  case set ts m stage o s => split at h <;> [omega; (split at h <;> omega)]
  case opOk ts hk m tag => cases hk <;> simp at h
  case opRej ts hk m tag c => cases hk <;> simp at h
  case opFree ts hk m tag c => cases hk <;> simp at h
  case row ts src => exact ⟨ts, src, rfl⟩

end Core

/-- a call that comes before the account row of the bar at `ts` in the fixed order: an earlier bar, or this bar up to and
    including what `after_bar` does (phases 3..13: refresh, before_bar, triggers, open callbacks, on_bar, second refresh, market update,
    after_bar) -/
def Core.BeforeRow (ts : Int) (e : Ev) : Prop := e.ts.getD 0 < ts ∨ (e.ts.getD 0 = ts ∧ e.phase ≤ 13)

/-- a call that comes after it: this bar's `notify` phase, a later bar, `finalize` -/
def Core.AfterRow (ts : Int) (e : Ev) : Prop := ts < e.ts.getD 0 ∨ (e.ts.getD 0 = ts ∧ 15 ≤ e.phase)

/-- **C01 — the account row of every bar of every run.**  For every configuration, trigger list, script and every interpretation
    `V` of what the calls do to wallet and markets: the rows appended by a run that ends normally are, bar by bar of the index,
    `Broker.get_account_status` (`accountStatus`) at *that bar's* price row, applied to the markets' balances and the wallet in the
    world `worldAfter V pre w0` left by the calls `pre` that precede the row in the trace; and `pre` consists exactly of the calls
    before the row in the (bar, phase) order — all earlier bars completely, and of this bar everything through the market update and
    `after_bar` —, everything else (`post`: this bar's notifications, later bars, finalize) comes after. -/
theorem C01_run_rows {W : Type} (cx : NumCtx) (V : Valuation W) (w0 : W) (cfg : Cfg) (trigs : List Trig) (sc : Script)
    (h : (run cfg trigs sc).err = none) (hidx : (barIndex cfg).Pairwise (· < ·)) :
    ∃ pres : List (List Ev),
      pres.length = (barIndex cfg).length ∧
      valuedRows cx V (run cfg trigs sc).trace w0 =
        List.zipWith (fun ts pre => (ts, accountStatus cx V.quote (V.prices (priceRow cfg ts))
          (V.balances (worldAfter V pre w0)) (V.wallet (worldAfter V pre w0)))) (barIndex cfg) pres ∧
      ∀ (k : Nat) pre ts, pres[k]? = some pre → (barIndex cfg)[k]? = some ts →
        ∃ post, (run cfg trigs sc).trace = pre ++ Ev.row ts (priceRow cfg ts) :: post ∧
          (∀ e ∈ pre, BeforeRow ts e) ∧ (∀ e ∈ post, AfterRow ts e) := by
  have hs := C05_phase_order cfg trigs sc h hidx
  have hr := (C05_each_bar_once_in_order cfg trigs sc h).2.2.2
  set T := (run cfg trigs sc).trace with hT
  have hsnd : (rowSplits T).map (·.2) = (barIndex cfg).map (fun ts => (ts, priceRow cfg ts)) := by
    rw [c01run_rowSplits_snd, hr]
  have hlen : ((rowSplits T).map (·.1)).length = (barIndex cfg).length := by
    have := congrArg List.length hsnd
    simpa using this
  refine ⟨(rowSplits T).map (·.1), hlen, ?_, ?_⟩
  · rw [c01run_valuedRows_eq_splits]
    exact c01run_map_zip (fun ts => (ts, priceRow cfg ts))
      (fun (p : Int × Option Int) pre => (p.1, acctRow cx V p.2 (worldAfter V pre w0))) (rowSplits T) (barIndex cfg) hsnd
  · intro k pre ts hpre hts
    rw [List.getElem?_map] at hpre
    obtain ⟨s, hsk, rfl⟩ := Option.map_eq_some_iff.mp hpre
    have h2 : ((rowSplits T).map (·.2))[k]? = some s.2 := by rw [List.getElem?_map, hsk]; rfl
    rw [hsnd, List.getElem?_map, hts] at h2
    have hs2 : s.2 = (ts, priceRow cfg ts) := by simpa using h2.symm
    obtain ⟨post, hpost⟩ := c01run_rowSplits_spec T s (List.mem_of_getElem? hsk)
    rw [hs2] at hpost
    refine ⟨post, hpost, ?_, ?_⟩
    · intro e he
      rw [hpost] at hs
      have hk := (List.pairwise_append.mp hs).2.2 e he (Ev.row ts (priceRow cfg ts)) (List.mem_cons_self ..)
      rcases hk with hk | ⟨hk1, hk2⟩
      · exact Or.inl (by simpa [Ev.ts] using hk)
      · have hk1' : e.ts.getD 0 = ts := by simpa [Ev.ts] using hk1
        have hk2' : e.phase ≤ 14 := by simpa [Ev.phase] using hk2
        refine Or.inr ⟨hk1', ?_⟩
        by_contra hc
        obtain ⟨ts', src', rfl⟩ := c01run_phase14 e (by omega)
        have hts' : ts' = ts := by simpa [Ev.ts] using hk1'
        have hsub := c01run_sublist_pair rowOf hpost he (a := (ts', src')) (b := (ts, priceRow cfg ts)) rfl rfl
        rw [hr] at hsub
        have hsub' := List.Sublist.map Prod.fst hsub
        simp only [List.map_cons, List.map_nil, List.map_map, Function.comp_def, List.map_id'] at hsub'
        have := List.Pairwise.sublist hsub' hidx
        simp at this
        omega
    · intro e he
      rw [hpost] at hs
      have hp := (List.pairwise_append.mp hs).2.1
      have hk := (List.pairwise_cons.mp hp).1 e he
      rcases hk with hk | ⟨hk1, hk2⟩
      · exact Or.inl (by simpa [Ev.ts] using hk)
      · have hk1' : e.ts.getD 0 = ts := by simpa [Ev.ts, eq_comm] using hk1
        have hk2' : 14 ≤ e.phase := by simpa [Ev.phase] using hk2
        refine Or.inr ⟨hk1', ?_⟩
        by_contra hc
        obtain ⟨ts', src', rfl⟩ := c01run_phase14 e (by omega)
        have hts' : ts' = ts := by simpa [Ev.ts] using hk1'
        have hsub := c01run_sublist_pair' rowOf hpost he (a := (ts', src')) (b := (ts, priceRow cfg ts)) rfl rfl
        rw [hr] at hsub
        have hsub' := List.Sublist.map Prod.fst hsub
        simp only [List.map_cons, List.map_nil, List.map_map, Function.comp_def, List.map_id'] at hsub'
        have := List.Pairwise.sublist hsub' hidx
        simp at this
        omega


theorem Core.c01run_zip_fst {α β γ : Type} (F : α → β → γ) : ∀ (as : List α) (bs : List β), bs.length = as.length →
    (List.zipWith (fun a b => (a, F a b)) as bs).map Prod.fst = as
  | [], _, _ => by simp
  | a :: as, [], h => by simp at h
  | a :: as, b :: bs, h => by
    simp only [List.zipWith_cons_cons, List.map_cons, List.cons.injEq, true_and]
    exact Core.c01run_zip_fst F as bs (by simpa using h)

/-- one valued row per bar, stamped with the bars of the index in order — the rows of C05 (`C05_account_rows`) -/
theorem C01_run_rows_are_the_bars {W : Type} (cx : NumCtx) (V : Valuation W) (w0 : W) (cfg : Cfg) (trigs : List Trig) (sc : Script)
    (h : (run cfg trigs sc).err = none) (hidx : (barIndex cfg).Pairwise (· < ·)) :
    (valuedRows cx V (run cfg trigs sc).trace w0).map Prod.fst = barIndex cfg ∧
    (valuedRows cx V (run cfg trigs sc).trace w0).map Prod.fst = (run cfg trigs sc).rows.map Prod.fst := by
  obtain ⟨pres, hlen, hv, _⟩ := C01_run_rows cx V w0 cfg trigs sc h hidx
  have h1 : (valuedRows cx V (run cfg trigs sc).trace w0).map Prod.fst = barIndex cfg := by
    rw [hv]; exact Core.c01run_zip_fst _ _ _ hlen
  refine ⟨h1, ?_⟩
  rw [h1, (C05_account_rows cfg trigs sc h).1, List.map_map]
  simp [Function.comp_def]

/-- with exact arithmetic the net value of such a row is the property's plain sum: wallet balances at the bar's prices plus
    every market's net value once, converted by the bar's price of its quote token (factor 1 for the account's own token);
    `none` on both sides exactly when a price is missing -/
theorem C01_run_row_is_plain_sum {W : Type} (V : Valuation W) (src : Option Int) (w : W) :
    (acctRow NumCtx.exact V src w).map (·.netValue) = specNetValue V.quote (V.prices src) (V.balances w) (V.wallet w) :=
  C01_broker_reported_eq_spec V.quote (V.prices src) (V.balances w) (V.wallet w)

/-- what `notify` of bar k does is not in row k: any two interpretations of the calls that agree on every call before a row
    (in the (bar, phase) order) produce the same row, whatever they do with the later calls -/
theorem C01_run_row_ignores_later_calls {W : Type} (cx : NumCtx) (V V' : Valuation W) (w0 : W) (pre : List Ev)
    (hq : V.quote = V'.quote) (hp : V.prices = V'.prices) (hb : V.balances = V'.balances) (hw : V.wallet = V'.wallet)
    (he : ∀ e ∈ pre, V.eff e = V'.eff e) (src : Option Int) :
    acctRow cx V src (worldAfter V pre w0) = acctRow cx V' src (worldAfter V' pre w0) := by
  have hwa : ∀ (l : List Ev) (w : W), (∀ e ∈ l, V.eff e = V'.eff e) → worldAfter V l w = worldAfter V' l w := by
    intro l
    induction l with
    | nil => intro w _; rfl
    | cons e l ih =>
      intro w hl
      rw [Core.c01run_worldAfter_cons, Core.c01run_worldAfter_cons, hl e (List.mem_cons_self ..)]
      exact ih _ (fun x hx => hl x (List.mem_cons_of_mem _ hx))
  unfold acctRow
  rw [hwa pre w0 he, hq, hp, hb, hw]

/-! ### non-vacuity: the run of `Proofs/C05.lean` (a minutely and an hourly market, bars 08:58 … 09:01) with a concrete world:
    a USDC wallet, two USDC- resp. ETH-quoted markets; every accepted operation moves 10 USDC from the wallet into its market,
    the liquidation recorded by `update()` of bar 3 costs market 0 half of its value, the ETH price is 2000 + source row / 60 -/

def Core.exWorld : Valuation (Rat × Rat × Rat) where
  quote := "USDC"
  eff := fun e w => match e with
    | .opOk _ _ m _ | .opFree _ _ m _ true => if m = 0 then (w.1 - 10, w.2.1 + 10, w.2.2) else (w.1 - 10, w.2.1, w.2.2 + 10 / 2000)
    | .uact _ 0 _ => (w.1, w.2.1 / 2, w.2.2)
    | _ => w
  prices := fun src => [("USDC", 1), ("ETH", 2000 + ((src.getD 0 : Int) : Rat) / 60)]
  balances := fun w => [⟨"m0", "USDC", w.2.1⟩, ⟨"m1", "ETH", w.2.2⟩]
  wallet := fun w => [("USDC", w.1)]

example : (valuedRows NumCtx.exact Core.exWorld (run Core.exCfg (install [("", .atTime 32400)]) Core.exScript).trace (1000, 0, 0)).map
      (fun r => (r.1, r.2.map (·.netValue))) =
    [(32280, some (980 + 10 + 10 / 2000 * (2000 + 538))), (32340, some (970 + 10 + 20 / 2000 * (2000 + 539))),
     (32400, some (950 + 10 + 40 / 2000 * (2000 + 540))), (32460, some (940 + 5 + 50 / 2000 * (2000 + 541)))] := by
  decide +kernel

example : (barIndex Core.exCfg).Pairwise (· < ·) := by decide

end Demeter
