/-
  C01 (broker part) — `Broker.get_account_status`: the reported net value is the plain sum "wallet balances at the
  bar's prices + each market's net value converted into the account's quote token", every market and every wallet
  entry entering exactly once.  The per-market valuations are the other C01 parts (Proofs/C01/<Market>.lean).
-/
import Demeter.Broker
import Proofs.Lemmas.Exact
import Mathlib.Tactic.Ring
import Mathlib.Tactic.Linarith
import Mathlib.Algebra.Order.Field.Rat
namespace Demeter
namespace BrokerProofs

theorem marketSum_exact (q : String) (p : Prices) : ∀ (ms : List MarketNV) (acc : Rat),
    marketSum NumCtx.exact q p ms acc = (specMarkets q p ms).map (fun r => acc + r) := by
  intro ms
  induction ms with
  | nil => intro acc; simp [marketSum, specMarkets]
  | cons m rest ih =>
    intro acc
    unfold marketSum specMarkets convFactor
    by_cases h : m.quote = q
    · simp only [h, if_true, ih, NumCtx.exact_add]
      cases specMarkets q p rest <;> simp [Option.map, bind, Option.bind]; ring
    · simp only [h, if_false]
      cases hp : AList.get? p m.quote with
      | none => simp [bind, Option.bind]
      | some pr =>
        simp only [ih, NumCtx.exact_add, NumCtx.exact_mul]
        cases specMarkets q p rest <;> simp [Option.map, bind, Option.bind]; ring

theorem assetSum_exact (p : Prices) : ∀ (w : Wallet) (acc : Rat),
    assetSum NumCtx.exact p w acc = (specWallet p w).map (fun r => acc + r) := by
  intro w
  induction w with
  | nil => intro acc; simp [assetSum, specWallet]
  | cons e rest ih =>
    intro acc
    obtain ⟨tok, bal⟩ := e
    unfold assetSum specWallet
    cases hp : AList.get? p tok with
    | none => simp [bind, Option.bind]
    | some pr =>
      simp only [ih, NumCtx.exact_add, NumCtx.exact_mul]
      cases specWallet p rest <;> simp [Option.map, bind, Option.bind]; ring

end BrokerProofs
open BrokerProofs

/-- **reported = independent valuation** (exact arithmetic): `get_account_status().net_value` is the plain sum of
    wallet balances at the bar's prices and the markets' net values converted by `prices[market quote]` (factor 1
    when the market quotes in the account's token); it raises `KeyError` exactly when the sum is undefined. -/
theorem C01_broker_reported_eq_spec (q : String) (p : Prices) (ms : List MarketNV) (w : Wallet) :
    (accountStatus NumCtx.exact q p ms w).map (·.netValue) = specNetValue q p ms w := by
  unfold accountStatus specNetValue
  rw [marketSum_exact, assetSum_exact]
  cases hm : specMarkets q p ms <;> cases hw : specWallet p w <;>
    simp [Option.map, bind, Option.bind]

/-- the reported asset value is the wallet part of that sum -/
theorem C01_broker_asset_value (q : String) (p : Prices) (ms : List MarketNV) (w : Wallet) (s : AccountStatus)
    (h : accountStatus NumCtx.exact q p ms w = some s) : specWallet p w = some s.assetValue := by
  unfold accountStatus at h
  rw [marketSum_exact, assetSum_exact] at h
  cases hm : specMarkets q p ms <;> cases hw : specWallet p w <;> simp [hm, hw, Option.map] at h
  subst h; simp

/-- **every market is counted exactly once**: wherever a market sits in the broker's dict, it contributes exactly
    `net_value × conversion` to the valuation and nothing else changes. -/
theorem C01_broker_market_counted_once (q : String) (p : Prices) (m : MarketNV) (c : Rat)
    (hc : convFactor q p m = some c) : ∀ (ms₁ ms₂ : List MarketNV),
    specMarkets q p (ms₁ ++ m :: ms₂) = (specMarkets q p (ms₁ ++ ms₂)).map (fun r => m.nv * c + r) := by
  intro ms₁ ms₂
  induction ms₁ with
  | nil =>
    simp only [List.nil_append]
    conv => lhs; unfold specMarkets
    rw [hc]; cases specMarkets q p ms₂ <;> simp [bind, Option.bind, Option.map]
  | cons a rest ih =>
    simp only [List.cons_append]
    unfold specMarkets
    rw [ih]
    cases convFactor q p a <;> cases specMarkets q p (rest ++ ms₂) <;> simp [bind, Option.bind, Option.map]
    ring

/-- **every wallet entry is counted exactly once** -/
theorem C01_broker_asset_counted_once (p : Prices) (tok : String) (bal pr : Rat)
    (hp : AList.get? p tok = some pr) : ∀ (w₁ w₂ : Wallet),
    specWallet p (w₁ ++ (tok, bal) :: w₂) = (specWallet p (w₁ ++ w₂)).map (fun r => bal * pr + r) := by
  intro w₁ w₂
  induction w₁ with
  | nil =>
    simp only [List.nil_append]
    conv => lhs; unfold specWallet
    rw [hp]; cases specWallet p w₂ <;> simp [bind, Option.bind, Option.map]
  | cons a rest ih =>
    obtain ⟨t, b⟩ := a
    simp only [List.cons_append]
    unfold specWallet
    rw [ih]
    cases AList.get? p t <;> cases specWallet p (rest ++ w₂) <;> simp [bind, Option.bind, Option.map]
    ring

/-- conversion: a market quoted in the account's token converts with factor 1, any other with the bar's price of
    its quote token -/
theorem C01_broker_conversion (q : String) (p : Prices) (m : MarketNV) :
    convFactor q p m = if m.quote = q then some 1 else AList.get? p m.quote := rfl

/-! non-vacuity: an ETH-quoted option market inside a USDC-quoted account next to a USDC-quoted LP market -/
example :
    accountStatus NumCtx.exact "USDC" [("USDC", 1), ("ETH", 2000)]
      [⟨"uni", "USDC", 1500⟩, ⟨"deribit", "ETH", 3 / 2⟩] [("USDC", 100), ("ETH", 2)]
      = some ⟨4100, 8600⟩ := by decide +kernel
example : specNetValue "USDC" [("USDC", 1), ("ETH", 2000)]
      [⟨"uni", "USDC", 1500⟩, ⟨"deribit", "ETH", 3 / 2⟩] [("USDC", 100), ("ETH", 2)] = some 8600 := by decide +kernel

end Demeter
