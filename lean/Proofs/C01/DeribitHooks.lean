/-
  C01 (Deribit part), the bar the driver replays — `runBarX`: the strategy may also act from `after_bar` (after `update()`, before
  the bar's account row) and from `Strategy.notify` (after the row).  The account row of the bar is `get_market_balance()` on the
  state the `after_bar` calls left (`rowState`); the calls made from `notify` come after it and are reported from the next bar on.

  The invariant that carries the closed minutes of an hour is `Pre`: no cached valuation, or a coherent one (its premium is the value
  of the CURRENT positions at the marks of the CURRENT book).  A trade made from `notify` on the hourly bar changes the positions after
  the hour's valuation was cached: `buy`/`sell` drop the cache (/repo 7a93584), which is what `Deribit.step_pre` needs — with the
  cache kept, `Pre` fails after the trade and the rows of the following 59 closed minutes are short by amount × mark.
-/
import Proofs.C01.Deribit
import Proofs.C16.Hooks
namespace Demeter
open Demeter.Deribit

namespace Deribit

/-- the state the bar's account row is taken from: after `update()`, the `after_bar` calls and the row's own `get_market_balance` -/
def rowState (cx : DCtx) (c : TokenCfg) (s : DState) (b : Bar) (after : List Op) : DState :=
  (getMarketBalance cx c (runOpsO cx c (postUpdate cx c s b) after).2.1).2

theorem runBarX_balance (cx : DCtx) (c : TokenCfg) (s : DState) (b : Bar) (after notify : List Op) :
    (runBarX cx c s b after notify).balance =
      match (getMarketBalance cx c (runOpsO cx c (postUpdate cx c s b) after).2.1).1 with
      | .ok (.balance bal) => bal
      | _ => none := rfl

theorem runBarX_final (cx : DCtx) (c : TokenCfg) (s : DState) (b : Bar) (after notify : List Op) :
    (runBarX cx c s b after notify).state = rowState cx c s b after ∨
    (runBarX cx c s b after notify).state = (runOpsO cx c (rowState cx c s b after) notify).2.1 := by
  have h : (runBarX cx c s b after notify).state =
      (if fires cx c s b after = true then runOpsO cx c (rowState cx c s b after) notify
        else ([], rowState cx c s b after, false)).2.1 := rfl
  rw [h]
  by_cases hf : fires cx c s b after = true
  · rw [if_pos hf]; exact Or.inr rfl
  · rw [if_neg hf]; exact Or.inl rfl

/-- **one call of the strategy keeps the cache absent-or-coherent** (exact arithmetic): a trade drops it, cash movements do not
    touch what it is about, a balance read refreshes it -/
theorem step_pre (c : TokenCfg) (s : DState) (o : Op) (ho : o ≠ .update) (hp : Pre c s) : Pre c (step DCtx.exact c s o).2 := by
  cases o with
  | update => exact absurd rfl ho
  | buy r =>
    rcases hb : buy DCtx.exact c s r with ⟨out, s'⟩
    simp only [step, hb]
    cases out with
    | error e => rw [buy_err hb]; exact hp
    | ok res =>
      obtain ⟨_, ck, _, fills, prem, fee, _, _, _, _, _, _, hs'⟩ := buy_ok hb
      rw [hs']; exact Or.inl rfl
  | sell r =>
    rcases hb : sell DCtx.exact c s r with ⟨out, s'⟩
    simp only [step, hb]
    cases out with
    | error e => rw [sell_err hb]; exact hp
    | ok res =>
      obtain ⟨_, ck, p0, bids, _, _, _, _, fills, prem, fee, _, _, _, _, hs'⟩ := sell_ok hb
      rw [hs']; exact Or.inl rfl
  | deposit a =>
    simp only [step, deposit]
    split
    · exact hp
    · split <;> exact hp
  | withdraw a =>
    simp only [step, withdraw]
    split
    · exact hp
    · split <;> exact hp
  | balance =>
    obtain ⟨_, _, _, _, _, hci, _⟩ := gmb_report c s (Or.inr hp)
    exact Or.inr hci

theorem runOpsO_pre (c : TokenCfg) (ops : List Op) (s : DState) (hops : ∀ o ∈ ops, o ≠ Op.update) (hp : Pre c s) :
    Pre c (runOpsO DCtx.exact c s ops).2.1 := by
  induction ops generalizing s with
  | nil => exact hp
  | cons o os ih =>
    rw [runOpsO_cons]
    exact ih _ (fun o' h => hops o' (List.mem_cons_of_mem _ h)) (step_pre c s o (hops o List.mem_cons_self) hp)

theorem runOpsO_now (cx : DCtx) (c : TokenCfg) (ops : List Op) (s : DState) (hops : ∀ o ∈ ops, o ≠ Op.update) :
    (runOpsO cx c s ops).2.1.now = s.now := by
  induction ops generalizing s with
  | nil => rfl
  | cons o os ih =>
    rw [runOpsO_cons, ih _ (fun o' h => hops o' (List.mem_cons_of_mem _ h))]
    exact (step_frame cx c s o (hops o List.mem_cons_self)).1

theorem midState_now (cx : DCtx) (c : TokenCfg) (s : DState) (b : Bar) (hops : NoUpdate b) : (midState cx c s b).now = b.now := by
  unfold midState; split
  · rfl
  · exact runOpsO_now cx c b.ops (setStatus s b) hops

end Deribit

/-- **every bar with late hooks reports cash + options at mark, and hands a usable cache on** (exact arithmetic).  A bar on the hourly
    grid unconditionally; a closed bar (off the grid, trade gate shut, sharing the hour's marks) whenever the cache it inherits is
    absent or coherent.  The row is about `rowState` — the market after `update()` and the `after_bar` calls; whatever `notify` does
    afterwards (trades included, on an open bar) leaves the cache absent or coherent for the next bar. -/
theorem C01_deribit_barX_reports_value (c : TokenCfg) (s : DState) (x : Deribit.XBar) (hx : Deribit.NoUpdateX x)
    (h : (x.1.now % (Gen.deribitFreqMinutes : Int) == 0) = true ∨
         ((x.1.now % (Gen.deribitFreqMinutes : Int) == 0) = false ∧ x.1.flagOpen = false ∧ Deribit.SameMarks x.1.book s.book ∧
            Deribit.Pre c s)) :
    ∃ bal, (runBarX DCtx.exact c s x.1 x.2.1 x.2.2).balance = some bal ∧
      bal.netValue = (Deribit.rowState DCtx.exact c s x.1 x.2.1).cash +
        markValue c (Deribit.rowState DCtx.exact c s x.1 x.2.1).book (Deribit.rowState DCtx.exact c s x.1 x.2.1).positions ∧
      bal.cash = (Deribit.rowState DCtx.exact c s x.1 x.2.1).cash ∧
      Deribit.CInv c (Deribit.rowState DCtx.exact c s x.1 x.2.1) ∧
      Deribit.Pre c (runBarX DCtx.exact c s x.1 x.2.1 x.2.2).state ∧
      ((x.1.now % (Gen.deribitFreqMinutes : Int) == 0) = false →
        (runBarX DCtx.exact c s x.1 x.2.1 x.2.2).state.positions = s.positions ∧
        Deribit.SameMarks (runBarX DCtx.exact c s x.1 x.2.1 x.2.2).state.book x.1.book) := by
  obtain ⟨hb, ha, hnf⟩ := hx
  set u := Deribit.postUpdate DCtx.exact c s x.1 with hu
  set a := (runOpsO DCtx.exact c u x.2.1).2.1 with hadef
  have hrow : Deribit.rowState DCtx.exact c s x.1 x.2.1 = (getMarketBalance DCtx.exact c a).2 := rfl
  have hunow : u.now = x.1.now := by
    rw [hu]; unfold Deribit.postUpdate
    rw [(C16_update_frame DCtx.exact c _).2.2.2.1, Deribit.midState_now DCtx.exact c s x.1 hb]
  have hanow : a.now = x.1.now := by rw [hadef, Deribit.runOpsO_now DCtx.exact c x.2.1 u ha, hunow]
  -- whichever way the row state was reached, if the row is coherent the rest follows
  have finish : ∀ bal, (getMarketBalance DCtx.exact c a).1 = .ok (.balance (some bal)) →
      Deribit.CInv c (getMarketBalance DCtx.exact c a).2 →
      (runBarX DCtx.exact c s x.1 x.2.1 x.2.2).balance = some bal ∧
      Deribit.Pre c (runBarX DCtx.exact c s x.1 x.2.1 x.2.2).state := by
    intro bal h1 hci
    constructor
    · rw [Deribit.runBarX_balance]
      show (match (getMarketBalance DCtx.exact c a).1 with
        | .ok (.balance bal) => bal
        | _ => none) = some bal
      rw [h1]
    · rcases Deribit.runBarX_final DCtx.exact c s x.1 x.2.1 x.2.2 with hf | hf
      · rw [hf, hrow]; exact Or.inr hci
      · rw [hf, hrow]; exact Deribit.runOpsO_pre c x.2.2 _ hnf (Or.inr hci)
  rcases h with hg | ⟨hg, hfo, hsm, hpre⟩
  · -- on the grid: the row is recomputed
    have hga : a.onGrid = true := by unfold DState.onGrid; rw [hanow]; exact hg
    obtain ⟨bal, h1, h2, h3, _, h5, h6, h7, h8⟩ := Deribit.gmb_report c a (Or.inl hga)
    obtain ⟨f1, f2⟩ := finish bal h1 h5
    refine ⟨bal, f1, by rw [hrow, h6, h7, h8]; exact h2, by rw [hrow, h6]; exact h3, by rw [hrow]; exact h5, f2,
      fun hng => by rw [hg] at hng; exact absurd hng (by simp)⟩
  · -- closed bar: nothing but cash can move, before and after the row
    have hgs : (setStatus s x.1).onGrid = false := by rw [Deribit.onGrid_setStatus]; exact hg
    have hpre1 : Deribit.Pre c (setStatus s x.1) := by
      rcases hpre with hn | ⟨b0, hb0, hcoh, hprem⟩
      · exact Or.inl hn
      · exact Or.inr ⟨b0, hb0, hcoh, by rw [hprem]; exact (Deribit.markValue_sameMarks c hsm s.positions).symm⟩
    obtain ⟨c1, c2, c3, c4, c5⟩ := Deribit.closed_ops c x.1.ops (setStatus s x.1) hgs hfo hpre1
    have hmid : Deribit.midState DCtx.exact c s x.1 = (runOpsO DCtx.exact c (setStatus s x.1) x.1.ops).2.1 := by
      unfold Deribit.midState; rw [c5]; simp
    have hgm : (Deribit.midState DCtx.exact c s x.1).onGrid = false := by
      rw [hmid]; unfold DState.onGrid; rw [c4]; exact hg
    have hueq : u = (runOpsO DCtx.exact c (setStatus s x.1) x.1.ops).2.1 := by
      rw [hu]; unfold Deribit.postUpdate
      rw [C16_update_off_grid_noop DCtx.exact c _ hgm, hmid]
    have hgu : u.onGrid = false := by unfold DState.onGrid; rw [hunow]; exact hg
    have hfu : u.flagOpen = false := by
      rw [hueq]
      -- the trade gate is not touched by any call
      have : ∀ (ops : List Op) (s0 : DState), s0.onGrid = false → s0.flagOpen = false → Deribit.Pre c s0 →
          (runOpsO DCtx.exact c s0 ops).2.1.flagOpen = false := by
        intro ops
        induction ops with
        | nil => intro s0 _ h _; exact h
        | cons o os ih =>
          intro s0 hg0 hf0 hp0
          obtain ⟨k1, _, _, k4, k5, _⟩ := Deribit.closed_step c s0 o hg0 hf0 hp0
          rw [Deribit.runOpsO_cons]
          exact ih _ (by unfold DState.onGrid at hg0 ⊢; rw [k4]; exact hg0) (by rw [k5]; exact hf0) k1
      exact this x.1.ops (setStatus s x.1) hgs hfo hpre1
    have hpu : Deribit.Pre c u := by rw [hueq]; exact c1
    obtain ⟨d1, d2, d3, d4, _⟩ := Deribit.closed_ops c x.2.1 u hgu hfu hpu
    obtain ⟨bal, h1, h2, h3, _, h5, h6, h7, h8⟩ := Deribit.gmb_report c a (Or.inr d1)
    obtain ⟨f1, f2⟩ := finish bal h1 h5
    refine ⟨bal, f1, by rw [hrow, h6, h7, h8]; exact h2, by rw [hrow, h6]; exact h3, by rw [hrow]; exact h5, f2, fun _ => ?_⟩
    -- positions and book at the end of the bar
    have hrpos : (Deribit.rowState DCtx.exact c s x.1 x.2.1).positions = s.positions := by
      rw [hrow, h7, hadef, d2, hueq, c2]; rfl
    have hrbook : (Deribit.rowState DCtx.exact c s x.1 x.2.1).book = x.1.book := by
      rw [hrow, h8, hadef, d3, hueq, c3]; rfl
    rcases Deribit.runBarX_final DCtx.exact c s x.1 x.2.1 x.2.2 with hf | hf
    · rw [hf, hrpos, hrbook]; exact ⟨rfl, fun _ => rfl⟩
    · have hgr : (Deribit.rowState DCtx.exact c s x.1 x.2.1).onGrid = false := by
        unfold DState.onGrid; rw [hrow, Deribit.gmb_now, hanow]; exact hg
      have hfr : (Deribit.rowState DCtx.exact c s x.1 x.2.1).flagOpen = false := by
        have : (getMarketBalance DCtx.exact c a).2.flagOpen = a.flagOpen := by
          unfold getMarketBalance
          split
          · rfl
          · split
            · rfl
            · split <;> rfl
        rw [hrow, this]
        have : ∀ (ops : List Op) (s0 : DState), s0.onGrid = false → s0.flagOpen = false → Deribit.Pre c s0 →
            (runOpsO DCtx.exact c s0 ops).2.1.flagOpen = false := by
          intro ops
          induction ops with
          | nil => intro s0 _ h _; exact h
          | cons o os ih =>
            intro s0 hg0 hf0 hp0
            obtain ⟨k1, _, _, k4, k5, _⟩ := Deribit.closed_step c s0 o hg0 hf0 hp0
            rw [Deribit.runOpsO_cons]
            exact ih _ (by unfold DState.onGrid at hg0 ⊢; rw [k4]; exact hg0) (by rw [k5]; exact hf0) k1
        exact this x.2.1 u hgu hfu hpu
      obtain ⟨e1, e2, e3, _, _⟩ := Deribit.closed_ops c x.2.2 _ hgr hfr (Or.inr (by rw [hrow]; exact h5))
      rw [hf, e2, e3, hrpos, hrbook]; exact ⟨rfl, fun _ => rfl⟩

namespace Deribit
/-- the bar lists the Actuator produces for an hourly market, with the strategy's late hooks -/
def GoodBarsX (c : TokenCfg) : DState → List XBar → Prop
  | _, [] => True
  | s, x :: xs =>
    (NoUpdateX x ∧
      ((x.1.now % (Gen.deribitFreqMinutes : Int) == 0) = true ∨
        ((x.1.now % (Gen.deribitFreqMinutes : Int) == 0) = false ∧ x.1.flagOpen = false ∧ SameMarks x.1.book s.book))) ∧
    GoodBarsX c (runBarX DCtx.exact c s x.1 x.2.1 x.2.2).state xs

/-- at every bar of the run the reported value is the cash + options at mark of the market the row is taken from -/
def AllReportedX (c : TokenCfg) : DState → List XBar → Prop
  | _, [] => True
  | s, x :: xs =>
    (∃ bal, (runBarX DCtx.exact c s x.1 x.2.1 x.2.2).balance = some bal ∧
      bal.netValue = (rowState DCtx.exact c s x.1 x.2.1).cash +
        markValue c (rowState DCtx.exact c s x.1 x.2.1).book (rowState DCtx.exact c s x.1 x.2.1).positions) ∧
    AllReportedX c (runBarX DCtx.exact c s x.1 x.2.1 x.2.2).state xs
end Deribit

/-- **at every bar of every run the driver replays** (induction over the bars, `Pre` is the invariant): starting with no cached
    valuation, or a coherent one, the option market's reported value is cash + Σ amount × round(mark) at each bar — whatever the
    strategy trades on open bars from `on_bar`, `after_bar` AND `notify`, and deposits or withdraws on closed ones — and the cache
    handed from bar to bar stays absent or coherent -/
theorem C01_deribit_runX_reports_value (c : TokenCfg) (xs : List Deribit.XBar) (s : DState) (hp : Deribit.Pre c s)
    (hg : Deribit.GoodBarsX c s xs) :
    Deribit.AllReportedX c s xs ∧ Deribit.Pre c (Deribit.runBarsX DCtx.exact c s xs) := by
  induction xs generalizing s with
  | nil => exact ⟨trivial, hp⟩
  | cons x xs ih =>
    obtain ⟨⟨hx, hb⟩, hrest⟩ := hg
    have hbar : (x.1.now % (Gen.deribitFreqMinutes : Int) == 0) = true ∨
        ((x.1.now % (Gen.deribitFreqMinutes : Int) == 0) = false ∧ x.1.flagOpen = false ∧ Deribit.SameMarks x.1.book s.book ∧
          Deribit.Pre c s) := by
      rcases hb with h | ⟨h1, h2, h3⟩
      · exact Or.inl h
      · exact Or.inr ⟨h1, h2, h3, hp⟩
    obtain ⟨bal, h1, h2, _, _, hpre', _⟩ := C01_deribit_barX_reports_value c s x hx hbar
    obtain ⟨i1, i2⟩ := ih _ hpre' hrest
    exact ⟨⟨⟨bal, h1, h2⟩, i1⟩, i2⟩

/-! ### non-vacuity: the hour bar of Proofs/C01/Deribit.lean with a deposit in `on_bar`, a buy from `after_bar` (in the row) and a buy
    from `notify` (after the row: reported from the next, closed, minute on) -/

namespace Deribit
def c01Req (a : Rat) : Req := { name := "ETH-22SEP23-1650-C", amount := a, priceTok := none, priceUsd := none, mult := none }
def c01XBars : List XBar :=
  [ ({ now := 60, flagOpen := true, book := [c01Instr], price := 1650, priceDec := true, ops := [.deposit 1] }, [.buy (c01Req 10)], [.buy (c01Req 5)]),
    ({ now := 61, flagOpen := false, book := [c01Instr], price := 1650, priceDec := true, ops := [] }, [], [.buy (c01Req 1)]) ]
end Deribit

section
open Deribit
-- minute 60: the row holds the 10 contracts bought in after_bar (4 − 0.293 + 10 × 0.0287), not yet the 5 bought from notify …
example : (runBarX DCtx.exact ethCfg c01State c01XBars[0].1 c01XBars[0].2.1 c01XBars[0].2.2).balance.map (·.netValue) =
    some (4 - (29 / 100 + 3 / 1000) + 287 / 1000) := by decide +kernel
-- … which dropped the cache, so minute 61 (closed) revalues: 15 contracts at mark, cash less 5 × 0.029 + 0.0015
example : (runBarX DCtx.exact ethCfg c01State c01XBars[0].1 c01XBars[0].2.1 c01XBars[0].2.2).state.cache = none := by decide +kernel
example : (runBarX DCtx.exact ethCfg (runBarsX DCtx.exact ethCfg c01State (c01XBars.take 1)) c01XBars[1].1 c01XBars[1].2.1 c01XBars[1].2.2).balance.map (·.netValue) =
    some (4 - (29 / 100 + 3 / 1000) - (145 / 1000 + 15 / 10000) + 15 * (287 / 10000)) := by decide +kernel
example : GoodBarsX ethCfg c01State c01XBars := by
  have hsm : SameMarks [c01Instr] [{ c01Instr with asks := [⟨29 / 1000, 590, true⟩] }] := by
    intro n
    simp only [findInstr, List.find?, c01Instr]
    by_cases h : "ETH-22SEP23-1650-C" = n <;> simp [h]
  -- the two late buys took 15 of the 605 contracts offered at 0.029; the mark is what it was
  have h1 : (runBarX DCtx.exact ethCfg c01State c01XBars[0].1 c01XBars[0].2.1 c01XBars[0].2.2).state.book =
      [{ c01Instr with asks := [⟨29 / 1000, 590, true⟩] }] := by decide +kernel
  refine ⟨⟨by simp only [NoUpdateX, NoUpdate]; decide +kernel, Or.inl (by decide)⟩,
    ⟨by simp only [NoUpdateX, NoUpdate]; decide +kernel, Or.inr ⟨by decide, rfl, ?_⟩⟩, trivial⟩
  show SameMarks [c01Instr] (runBarX DCtx.exact ethCfg c01State c01XBars[0].1 c01XBars[0].2.1 c01XBars[0].2.2).state.book
  rw [h1]
  exact hsm
end

end Demeter
