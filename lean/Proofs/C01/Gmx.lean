/-
  C01, GMX part — what `get_market_balance` reports is the raw holding valued at the bar's row:
  v1  glp × glp_price + reward × wavax_price / 10³⁰      (GmxMarket, market.py:186-193)
  v2  amount × poolValue / supply, 0 without a holding    (GmxV2Market, market2.py:81-96), which is also the value of the
      long/short token amounts the balance reports.
  It depends on nothing but the share holding, the pending reward and the row — not on the wallet or the log, so a holding
  is counted once: what moves between wallet and market is accounted by C03's theorems.
-/
import Proofs.Lemmas.GmxV2Spec
import Demeter.Gen.ConstsGmx
namespace Demeter
open Demeter.Gmx Demeter.Gmx2

/-- **v1 valuation = pool shares × share price + rewards × reward-token price**, in closed form -/
theorem C01_gmx_v1_balance (env : GmxV1.Env) (s : GmxV1.State) :
    GmxV1.netValue NumCtx.exact env s = s.glp * env.glpPrice + s.reward * (env.wavaxPrice / 10 ^ 30) ∧
      Gen.gmxPricePrecision = 10 ^ 30 := by
  refine ⟨?_, by norm_num [Gen.gmxPricePrecision]⟩
  unfold GmxV1.netValue
  simp only [NumCtx.exact_add, NumCtx.exact_mul, NumCtx.exact_div, Gen.gmxPricePrecision]
  norm_num; ring

/-- it is computed from the raw state: only the GLP holding and the pending reward enter (every arithmetic context) -/
theorem C01_gmx_v1_balance_raw_state (cx : NumCtx) (env : GmxV1.Env) (s1 s2 : GmxV1.State)
    (hg : s1.glp = s2.glp) (hr : s1.reward = s2.reward) : GmxV1.netValue cx env s1 = GmxV1.netValue cx env s2 := by
  unfold GmxV1.netValue; rw [hg, hr]

/-- the valuation is additive in the holding: a position of `a + b` GLP is worth the two parts — nothing is counted twice -/
theorem C01_gmx_v1_balance_additive (env : GmxV1.Env) (s : GmxV1.State) (a b : Rat) :
    GmxV1.netValue NumCtx.exact env { s with glp := a + b, reward := 0 }
      = GmxV1.netValue NumCtx.exact env { s with glp := a, reward := 0 } + GmxV1.netValue NumCtx.exact env { s with glp := b, reward := 0 } := by
  unfold GmxV1.netValue
  simp only [NumCtx.exact_add, NumCtx.exact_mul, NumCtx.exact_div]
  ring

variable {pw : Rat → Rat → Rat}

/-- **v2 valuation = GM amount × pool value / GM supply** (0 without a holding); the reported long/short token amounts
    are that same value split in the pool's proportions, and the reported GM amount is the raw holding -/
theorem C01_gmx_v2_balance {ps : GmxV2.Pool Rat} {s : GmxV2.State Rat} {nv gm l sh : Rat}
    (h : GmxV2.balance (GmxV2.ratOps pw) ps s = .ok (nv, gm, l, sh)) :
    nv = (if s.amount > 0 then s.amount * ps.poolValue / ps.supply else 0) ∧ gm = s.amount ∧
      (s.amount > 0 → l * ps.longPrice + sh * ps.shortPrice = nv) ∧ (¬ s.amount > 0 → l = 0 ∧ sh = 0) := by
  unfold GmxV2.balance at h
  by_cases ha : s.amount > 0
  · simp only [ha, if_true, bind_ok] at h ⊢
    obtain ⟨⟨l', s'⟩, hls, nv', hnv, hp⟩ := h
    simp only [pure, Except.pure, Except.ok.injEq, Prod.mk.injEq] at hp
    obtain ⟨rfl, rfl, rfl, rfl⟩ := hp
    obtain ⟨hsup, rfl⟩ := fdiv_ok hnv
    refine ⟨rfl, rfl, fun _ => ?_, fun hc => absurd trivial hc⟩
    unfold GmxV2.tokenAmountsFromGm at hls
    simp only [bind_ok] at hls
    obtain ⟨gu, hgu, lo, hlo, so, hso, l2, hl2, s2, hs2, hp2⟩ := hls
    obtain ⟨_, rfl⟩ := fdiv_ok hgu
    obtain ⟨htot, rfl⟩ := fdiv_ok hlo
    obtain ⟨_, rfl⟩ := fdiv_ok hso
    obtain ⟨hlp, rfl⟩ := fdiv_ok hl2
    obtain ⟨hsp, rfl⟩ := fdiv_ok hs2
    simp only [pure, Except.pure, Except.ok.injEq, Prod.mk.injEq] at hp2
    obtain ⟨rfl, rfl⟩ := hp2
    field_simp
  · simp only [ha, if_false, pure, Except.pure, Except.ok.injEq, Prod.mk.injEq] at h ⊢
    obtain ⟨rfl, rfl, rfl, rfl⟩ := h
    exact ⟨rfl, rfl, fun hc => absurd hc (by simp), fun _ => ⟨rfl, rfl⟩⟩

/-- the v2 valuation reads only the holding and the row (not the wallet, not the log) -/
theorem C01_gmx_v2_balance_raw_state {α : Type} [Add α] [Sub α] [Mul α] [Div α] [Neg α] [LT α] [LE α] [OfNat α 0]
    [DecidableLT α] [DecidableLE α] (o : GmxV2.Ops α) (ps : GmxV2.Pool α) (s1 s2 : GmxV2.State α) (h : s1.amount = s2.amount) :
    GmxV2.balance o ps s1 = GmxV2.balance o ps s2 := by
  unfold GmxV2.balance; rw [h]

/-- a holding on a row without supply cannot be valued: the code raises (ZeroDivisionError), it does not report 0 -/
theorem C01_gmx_v2_balance_zero_supply {ps : GmxV2.Pool Rat} {s : GmxV2.State Rat} (ha : s.amount > 0) (hs : ps.supply = 0) :
    GmxV2.balance (GmxV2.ratOps pw) ps s = .error .zeroDiv := by
  unfold GmxV2.balance GmxV2.tokenAmountsFromGm
  simp only [ha, if_true]
  have : GmxV2.fdiv (GmxV2.ratOps pw) (ps.poolValue * s.amount) ps.supply = .error .zeroDiv := by
    unfold GmxV2.fdiv GmxV2.ratOps; simp [hs]
  simp [this, bind, Except.bind]

/-! ### non-vacuity -/
example : GmxV1.netValue NumCtx.exact
    { rows := [], tokenSet := [], glpSupply := 8 * 10 ^ 24, aum := 10 ^ 37, usdgSupply := 10 ^ 25, interval := 10 ^ 15, glpPrice := 5 / 4,
      wavaxPrice := 30 * 10 ^ 30 } { glp := 8, reward := 1 / 2, wallet := [("WETH", 3)], actions := [] } = 25 := by decide +kernel

example : GmxV2.balance (GmxV2.ratOps (fun x _ => x * x))
    { longAmount := 5000, shortAmount := 30000000, virtualLong := none, virtualShort := none, poolValue := 40000000, supply := 20000000,
      impactPool := 0, longPrice := 2000, shortPrice := 1 } { amount := 10, wallet := [], actions := [] }
    = .ok (20, 10, 1 / 400, 15) := by decide +kernel

end Demeter
