/-
  C01, end to end — market 0 (the stand-alone Uniswap LP market of `Demeter/Actuator/Markets.lean`) counts EVERY position it holds.

  `UniLpMarket.get_market_balance` skips positions flagged `transferred`; nothing in the world of `marketsValuation` can hold a position of
  market 0 (the Squeeth market lends positions of ITS pool, market 1).  So "every holding exactly once" for market 0 needs: no position of
  market 0 is ever flagged.  That is false when the strategy calls `transfer_position_out` directly (known finding
  `uni.direct-transfer.flagged-position-without-vault`, `C01_fails_direct_transfer`) and true otherwise — for every run, every script and
  every decoding of labels that never yields one of the two transfer calls.
-/
import Proofs.C01.EndToEnd
import Proofs.C01.UniLent
namespace Demeter
open Core Demeter.Uni

namespace Core

theorem e2e_updateFee_flag {cx : NumCtx} {pool : Pool} {last : Option Int} {row : Row} {p p' : Pos}
    (h : updateFee cx pool last row p = .ok p') : (p'.lower, p'.upper, p'.transferred) = (p.lower, p.upper, p.transferred) := by
  have hc : ∀ w, calcAmounts cx pool row p w = .ok p' → (p'.lower, p'.upper, p'.transferred) = (p.lower, p.upper, p.transferred) := by
    intro w hw
    unfold calcAmounts at hw
    split at hw
    · cases hw
    · injection hw with hw; subst hw; rfl
  unfold updateFee at h
  split at h
  · injection h with h; subst h; rfl
  · exact hc _ h
  · cases h
  · simp only [] at h
    split at h
    · cases h
    · exact hc _ h

theorem e2e_updateLoop_flag (cx : NumCtx) (pool : Pool) (last : Option Int) (row : Row) : ∀ ps : List Pos,
    (updateLoop cx pool last row ps).1.map (fun p => (p.lower, p.upper, p.transferred)) = ps.map (fun p => (p.lower, p.upper, p.transferred))
  | [] => rfl
  | p :: ps => by
    unfold updateLoop
    cases h : updateFee cx pool last row p with
    | error e => rfl
    | ok p' =>
      simp only [List.map_cons, e2e_updateLoop_flag cx pool last row ps, e2e_updateFee_flag h]

theorem e2e_isTransferred_congr : ∀ (ps qs : List Pos),
    ps.map (fun p => (p.lower, p.upper, p.transferred)) = qs.map (fun p => (p.lower, p.upper, p.transferred)) →
    ∀ lo up, isTransferred ps lo up = isTransferred qs lo up
  | [], [], _, _, _ => rfl
  | [], _ :: _, h, _, _ => by simp at h
  | _ :: _, [], h, _, _ => by simp at h
  | p :: ps, q :: qs, h, lo, up => by
    simp only [List.map_cons, List.cons.injEq, Prod.mk.injEq] at h
    obtain ⟨⟨h1, h2, h3⟩, ht⟩ := h
    have ih := e2e_isTransferred_congr ps qs ht lo up
    unfold isTransferred at ih ⊢
    rw [findPos_cons, findPos_cons]
    have hk : p.hasKey lo up = q.hasKey lo up := by unfold Pos.hasKey; rw [h1, h2]
    rw [hk]
    by_cases hq : q.hasKey lo up = true
    · simp only [hq, if_true, h3]
    · simp only [hq, Bool.false_eq_true, if_false]; exact ih

/-- no position of market 0 carries the `transferred` flag -/
def NoFlag0 (w : World) : Prop := ∀ lo up, isTransferred w.uni.positions lo up = false

theorem e2e_eff_noflag (S : Setup) (hS : ∀ tag op, S.uniOp tag = some op → op.isTransfer = false) (e : Ev) (w : World)
    (h : NoFlag0 w) : NoFlag0 (marketsEff S e w) := by
  have hcall : ∀ m tag, NoFlag0 (opCall S w m tag) := by
    intro m tag
    unfold opCall uniCall
    repeat' split
    all_goals first
      | exact h
      | (rename_i op hop
         intro lo up
         have := C01_uni_ops_keep_lent_positions S.K S.pool S.minError w.uniIn [op]
           (fun o ho => by rw [List.mem_singleton.mp ho]; exact hS _ _ hop) lo up
         exact this.trans (h lo up))
  cases e with
  | set ts m stage o src =>
    simp only [marketsEff, setCall]
    repeat' split
    all_goals exact h
  | update ts m =>
    simp only [marketsEff, updCall]
    repeat' split
    all_goals first
      | exact h
      | (intro lo up
         have hp : (Uni.update S.K.cx S.pool w.uni).1.positions.map (fun p => (p.lower, p.upper, p.transferred)) =
             w.uni.positions.map (fun p => (p.lower, p.upper, p.transferred)) := by
           unfold Uni.update
           split
           · rfl
           · rfl
           · exact e2e_updateLoop_flag _ _ _ _ _
         exact (e2e_isTransferred_congr _ _ hp lo up).trans (h lo up))
  | opOk ts hk m tag => exact hcall m tag
  | opRej ts hk m tag c => cases c <;> [exact hcall m tag; exact h]
  | opFree ts hk m tag ok => exact hcall m tag
  | _ => exact h

end Core

/-- **market 0 counts every position it holds, along every run without direct transfer calls**: if no label decodes to
    `transfer_position_out` / `transfer_position_in` and no position of market 0 is flagged at the start, none is flagged after any calls of
    the loop — so the market-0 term `sumOver …` of `C01_e2e_row_value` ranges over ALL its positions (`sumOver` skips flagged ones only). -/
theorem C01_e2e_market0_counts_every_position (S : Setup) (hS : ∀ tag op, S.uniOp tag = some op → op.isTransfer = false)
    (w0 : World) (h0 : ∀ lo up, isTransferred w0.uni.positions lo up = false) (calls : List Ev) :
    ∀ lo up, isTransferred (worldAfter (marketsValuation S) calls w0).uni.positions lo up = false := by
  induction calls generalizing w0 with
  | nil => exact h0
  | cons e l ih => exact ih _ (Core.e2e_eff_noflag S hS e w0 h0)

/-- … and the hypothesis is needed: with a label that decodes to `transfer_position_out` the run leaves a flagged position that nobody
    counts (the setup of the non-vacuity run with one more label) -/
theorem C01_e2e_market0_fails_with_direct_transfer :
    ∃ (S : Setup) (w0 : World) (calls : List Ev), (∀ lo up, isTransferred w0.uni.positions lo up = false) ∧
      isTransferred (worldAfter (marketsValuation S) calls w0).uni.positions 20 30 = true :=
  ⟨{ e2eSetup with uniOp := fun tag => if tag = "add" then some (.addRaw 1 1 20 30 none) else if tag = "out" then some (.transferOut 20 30) else none },
   e2eWorld, [.set 0 0 1 true (some 0), .opOk 0 .on 0 "add", .opOk 0 .on 0 "out"], fun _ _ => rfl, by decide +kernel⟩

/-- non-vacuity: the decoding of the example run has no transfer label -/
example : ∀ tag op, e2eSetup.uniOp tag = some op → op.isTransfer = false := by
  intro tag op h
  simp only [e2eSetup] at h
  split_ifs at h
  cases h; rfl

end Demeter
