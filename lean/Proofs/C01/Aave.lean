/-
  C01 (Aave part) — `get_market_balance().net_value` is supplies − debts recomputed from the raw scaled balances,
  the bar's indices and prices (every position exactly once), up to the quantisation the code applies:
  `net_value = quantize(Σ supplies, 0.0001) − quantize(Σ debts, 0.0001)`, hence within 1e-4 (two half-quanta) of the
  unquantised difference.  The first theorem holds for every arithmetic context and every mixture of cold and
  filled caches (C13); the bound and the sum formula are for exact arithmetic.
-/
import Proofs.C10
import Proofs.C13
import Proofs.C04.Aave
import Proofs.Lemmas.AaveQuant
namespace Demeter
open Aave

variable {cx : ACtx} {env : Env}

theorem aave_res_bind_ok {α β : Type} {r : Res α} {f : α → Res β} {b : β} (h : (r >>= f) = .ok b) :
    ∃ a, r = .ok a ∧ f a = .ok b := by
  cases r with
  | error e => cases h
  | ok a => exact ⟨a, rfl, h⟩

theorem aave_balQuant_ok {x q : Rat} (h : balQuant x = .ok q) :
    q = quantHalfEven Gen.aaveBalanceQuantDigits x := by
  unfold balQuant quantE at h
  simp only [] at h
  split at h
  · cases h; rfl
  · cases h

/-- the reported figures: quantised totals recomputed from raw positions, and their difference -/
theorem C01_aave_balance_net_value (s : St) (hs : Good cx env s) (b : Balance)
    (h : (step cx env s (.read .marketBalance)).1 = .ok (.bal b)) :
    ∃ ts tb, specTotalSupply cx env s.supplies = .ok ts ∧ specTotalBorrows cx env s.borrows = .ok tb ∧
      b.suppliesValue = quantHalfEven Gen.aaveBalanceQuantDigits ts ∧
      b.borrowsValue = quantHalfEven Gen.aaveBalanceQuantDigits tb ∧
      b.netValue = cx.sub b.suppliesValue b.borrowsValue ∧
      b.suppliesCount = s.supplies.length ∧ b.borrowsCount = s.borrows.length := by
  have h1 := (C13_read_eq_scratch s hs .marketBalance).1
  rw [h] at h1
  have h2 : specBalance cx env s.supplies s.borrows = .ok b := by
    unfold specView at h1
    cases hb : specBalance cx env s.supplies s.borrows with
    | error e => rw [hb] at h1; cases h1
    | ok b' => rw [hb] at h1; cases h1; rfl
  unfold specBalance at h2
  obtain ⟨ts, hts, h2⟩ := aave_res_bind_ok h2
  obtain ⟨tsq, htsq, h2⟩ := aave_res_bind_ok h2
  obtain ⟨tb, htb, h2⟩ := aave_res_bind_ok h2
  obtain ⟨tbq, htbq, h2⟩ := aave_res_bind_ok h2
  try dsimp only at h2
  obtain ⟨sa, _, h2⟩ := aave_res_bind_ok h2
  obtain ⟨saq, _, h2⟩ := aave_res_bind_ok h2
  obtain ⟨ba, _, h2⟩ := aave_res_bind_ok h2
  obtain ⟨baq, _, h2⟩ := aave_res_bind_ok h2
  try dsimp only at h2
  obtain ⟨cnt, hcnt, h2⟩ := aave_res_bind_ok h2
  obtain ⟨lt, _, h2⟩ := aave_res_bind_ok h2
  obtain ⟨ltq, _, h2⟩ := aave_res_bind_ok h2
  obtain ⟨hf, _, h2⟩ := aave_res_bind_ok h2
  obtain ⟨hfq, _, h2⟩ := aave_res_bind_ok h2
  obtain ⟨tc, _, h2⟩ := aave_res_bind_ok h2
  obtain ⟨tcq, _, h2⟩ := aave_res_bind_ok h2
  obtain ⟨ml, _, h2⟩ := aave_res_bind_ok h2
  obtain ⟨mlq, _, h2⟩ := aave_res_bind_ok h2
  obtain ⟨ltv, _, h2⟩ := aave_res_bind_ok h2
  cases hcnt
  have e1 := aave_balQuant_ok htsq
  have e2 := aave_balQuant_ok htbq
  refine ⟨ts, tb, hts, htb, ?_⟩
  cases h2
  exact ⟨e1, e2, rfl, rfl, rfl⟩

/-- the quantum of `get_market_balance` is 1e-4 -/
theorem C01_aave_quantum : (1 : Rat) / (2 * 10 ^ Gen.aaveBalanceQuantDigits) = 1 / 20000 := by
  unfold Gen.aaveBalanceQuantDigits; norm_num

/-- **reported net value = supplies − debts up to the 1e-4 quantisation** (exact arithmetic): each total is within
    half a quantum (0.5e-4) of the recomputed one, the net value within one quantum. -/
theorem C01_aave_net_value_within_quantum (s : St) (hs : Good aaveExact env s) (b : Balance)
    (h : (step aaveExact env s (.read .marketBalance)).1 = .ok (.bal b)) :
    ∃ ts tb, specTotalSupply aaveExact env s.supplies = .ok ts ∧ specTotalBorrows aaveExact env s.borrows = .ok tb ∧
      |b.suppliesValue - ts| ≤ 1 / 20000 ∧ |b.borrowsValue - tb| ≤ 1 / 20000 ∧ |b.netValue - (ts - tb)| ≤ 1 / 10000 := by
  obtain ⟨ts, tb, hts, htb, e1, e2, e3, _, _⟩ := C01_aave_balance_net_value s hs b h
  have q1 := aave_quant_err Gen.aaveBalanceQuantDigits ts
  have q2 := aave_quant_err Gen.aaveBalanceQuantDigits tb
  rw [C01_aave_quantum] at q1 q2
  rw [← e1] at q1; rw [← e2] at q2
  refine ⟨ts, tb, hts, htb, q1, q2, ?_⟩
  rw [e3, aaveExact_sub]
  have : b.suppliesValue - b.borrowsValue - (ts - tb) = (b.suppliesValue - ts) - (b.borrowsValue - tb) := by ring
  rw [this]
  calc |b.suppliesValue - ts - (b.borrowsValue - tb)| ≤ |b.suppliesValue - ts| + |b.borrowsValue - tb| := abs_sub _ _
    _ ≤ 1 / 20000 + 1 / 20000 := add_le_add q1 q2
    _ = 1 / 10000 := by norm_num

theorem aave_dsum_exact (xs : List Rat) : dsum aaveExact xs = xs.sum := by
  unfold dsum
  have : ∀ (a : Rat), List.foldl (fun acc x => aaveExact.add acc x) a xs = a + xs.sum := by
    induction xs with
    | nil => intro a; simp
    | cons x xs ih => intro a; simp only [List.foldl_cons, List.sum_cons]; rw [ih]; simp only [aaveExact_add]; ring
  rw [this]; simp

theorem aave_forall2_supAmt : ∀ (sup : AList String SupplyInfo) (vs : AList String Rat),
    scratchMap (supValOf aaveExact env) sup = .ok vs →
    List.Forall₂ (fun (p : String × SupplyInfo) (x : Rat) =>
      ∃ st pr, env.statusOf p.1 = .ok st ∧ env.priceOf p.1 = .ok pr ∧ x = p.2.base * st.liqIdx * pr) sup (vals vs) := by
  intro sup
  induction sup with
  | nil => intro vs hvs; simp at hvs; cases hvs; exact List.Forall₂.nil
  | cons p rest ih =>
    intro vs hvs
    obtain ⟨k, v⟩ := p
    obtain ⟨x, r, h1, h2, h3⟩ := scratchMap_cons_inv hvs
    subst h3
    refine List.Forall₂.cons ?_ (ih r h2)
    unfold supValOf at h1
    cases hst : env.statusOf k with
    | error e => rw [hst] at h1; cases h1
    | ok st =>
      cases hp : env.priceOf k with
      | error e => rw [hst, hp] at h1; cases h1
      | ok pr =>
        rw [hst, hp] at h1
        refine ⟨st, pr, rfl, rfl, ?_⟩
        cases h1; rfl

theorem aave_forall2_borAmt : ∀ (bor : AList String BorrowInfo) (vs : AList String Rat),
    scratchMap (borValOf aaveExact env) bor = .ok vs →
    List.Forall₂ (fun (p : String × BorrowInfo) (x : Rat) =>
      ∃ st pr, env.statusOf p.1 = .ok st ∧ env.priceOf p.1 = .ok pr ∧ x = p.2.base * st.varIdx * pr) bor (vals vs) := by
  intro bor
  induction bor with
  | nil => intro vs hvs; simp at hvs; cases hvs; exact List.Forall₂.nil
  | cons p rest ih =>
    intro vs hvs
    obtain ⟨k, v⟩ := p
    obtain ⟨x, r, h1, h2, h3⟩ := scratchMap_cons_inv hvs
    subst h3
    refine List.Forall₂.cons ?_ (ih r h2)
    unfold borValOf at h1
    cases hst : env.statusOf k with
    | error e => rw [hst] at h1; cases h1
    | ok st =>
      cases hp : env.priceOf k with
      | error e => rw [hst, hp] at h1; cases h1
      | ok pr =>
        rw [hst, hp] at h1
        refine ⟨st, pr, rfl, rfl, ?_⟩
        cases h1; rfl

/-- **every supply is counted exactly once, at base × liquidity index × price**: the recomputed total is the sum,
    over the entries of `_supplies` in order, of those products. -/
theorem C01_aave_total_supply_is_sum (sup : AList String SupplyInfo) (ts : Rat)
    (h : specTotalSupply aaveExact env sup = .ok ts) :
    ∃ xs : List Rat, List.Forall₂ (fun (p : String × SupplyInfo) (x : Rat) =>
        ∃ st pr, env.statusOf p.1 = .ok st ∧ env.priceOf p.1 = .ok pr ∧ x = p.2.base * st.liqIdx * pr) sup xs ∧
      ts = xs.sum := by
  unfold specTotalSupply at h
  obtain ⟨vs, hvs, h⟩ := aave_res_bind_ok h
  refine ⟨vals vs, aave_forall2_supAmt sup vs hvs, ?_⟩
  rw [← aave_dsum_exact]
  cases h; rfl

/-- the same for debts: base × variable borrow index × price -/
theorem C01_aave_total_borrows_is_sum (bor : AList String BorrowInfo) (tb : Rat)
    (h : specTotalBorrows aaveExact env bor = .ok tb) :
    ∃ xs : List Rat, List.Forall₂ (fun (p : String × BorrowInfo) (x : Rat) =>
        ∃ st pr, env.statusOf p.1 = .ok st ∧ env.priceOf p.1 = .ok pr ∧ x = p.2.base * st.varIdx * pr) bor xs ∧
      tb = xs.sum := by
  unfold specTotalBorrows at h
  obtain ⟨vs, hvs, h⟩ := aave_res_bind_ok h
  refine ⟨vals vs, aave_forall2_borAmt bor vs hvs, ?_⟩
  rw [← aave_dsum_exact]
  cases h; rfl

/-! ### non-vacuity -/

-- quantisation really moves a value, and by no more than half a quantum
example : quantHalfEven 4 (123456789 / 1000000) = 1234568 / 10000 := by decide +kernel
example : specTotalSupply aaveExact c04AaveEnv c04AaveSt.supplies = .ok 11000 := by decide +kernel
example : specTotalBorrows aaveExact c04AaveEnv c04AaveSt.borrows = .ok 7000 := by decide +kernel

end Demeter
