/-
  C01, Squeeth + its oSQTH/WETH pool — the VALUE-level "exactly once" equation over the one shared positions container.

  `Demeter.Squeeth.State` is the joint state of the two markets: `positions` is the pool's `_positions` dict (the very object the
  Squeeth market reaches through `self._squeeth_uni_pool`), `vaults` the Squeeth side.  `uniNetValue` is the pool's
  `get_market_balance().net_value` (in WETH), `marketBalance` the Squeeth market's (in USD).  The count-level invariant `Once`
  (Proofs/Lemmas/SqueethOnce.lean) says which container counts a position; here the two reported numbers are added up and shown to be
  the plain sum in which every position appears exactly once: a free position at the pool (mark) price, a lent position at the index
  price inside its vault's collateral, plus the vaults' ETH collateral minus the short at mark.
-/
import Proofs.C01.Squeeth
import Mathlib.Tactic.Ring
import Mathlib.Tactic.Linarith
namespace Demeter
open Squeeth Gen

namespace Squeeth

/-- (WETH, oSQTH) held by the liquidity of a position at the pool's price -/
def cpos (e : Env) (kp : PosKey × UPos) : Rat × Rat :=
  closePosition NumCtx.exact (uniSqrtP NumCtx.exact e.uniPrice) kp.1.1 kp.1.2 kp.2.liquidity sqWethDecimals sqOsqthDecimals

/-- value of a position in WETH as the POOL values it: oSQTH (liquidity + uncollected) at the pool price, plus WETH -/
def poolVal (e : Env) (kp : PosKey × UPos) : Rat :=
  ((cpos e kp).2 + kp.2.pending1) * e.uniPrice + ((cpos e kp).1 + kp.2.pending0)

/-- value of a position in ETH as a VAULT values it: WETH plus oSQTH at the index price `norm_factor · twap(ETH) / INDEX_SCALE` -/
def idxVal (e : Env) (kp : PosKey × UPos) : Rat :=
  ((cpos e kp).1 + kp.2.pending0) + ((cpos e kp).2 + kp.2.pending1) / sqIndexScale * e.nf * twap e .weth

/-- plain sum of `f` over the elements that satisfy `c`: each of them once -/
def sumIf {α : Type} (c : α → Bool) (f : α → Rat) (l : List α) : Rat := (l.map (fun a => if c a then f a else 0)).sum

theorem sumIf_cons {α : Type} (c : α → Bool) (f : α → Rat) (a : α) (l : List α) :
    sumIf c f (a :: l) = (if c a then f a else 0) + sumIf c f l := by simp [sumIf]

theorem sum_all_zero {α : Type} (G : α → Rat) : ∀ (l : List α), (∀ x ∈ l, G x = 0) → (l.map G).sum = 0
  | [], _ => by simp
  | a :: l, h => by
    simp only [List.map_cons, List.sum_cons, h a (List.mem_cons_self ..), zero_add]
    exact sum_all_zero G l (fun x hx => h x (List.mem_cons_of_mem _ hx))

/-- the one element with property `P` in a list without duplicate keys -/
theorem sum_unique {α κ : Type} [DecidableEq κ] (key : α → κ) (P : α → Bool) (F : α → Rat) (x0 : α) :
    ∀ l : List α, (l.map key).Nodup → x0 ∈ l → P x0 = true → (∀ x ∈ l, P x = true → key x = key x0) →
      (l.map (fun x => if P x then F x else 0)).sum = F x0
  | [], _, hm, _, _ => by cases hm
  | a :: l, hn, hm, hp, hall => by
    simp only [List.map_cons, List.nodup_cons] at hn
    rcases List.mem_cons.mp hm with rfl | hm'
    · have hrest : (l.map (fun x => if P x then F x else 0)).sum = 0 := by
        apply sum_all_zero
        intro x hx
        by_cases hpx : P x = true
        · exact absurd (by rw [← hall x (List.mem_cons_of_mem _ hx) hpx]; exact List.mem_map_of_mem hx) hn.1
        · simp [hpx]
      simp [hp, hrest]
    · have hna : ¬ (P a = true) := by
        intro hpa
        have := hall a (List.mem_cons_self ..) hpa
        exact hn.1 (by rw [this]; exact List.mem_map_of_mem hm')
      have ih := sum_unique key P F x0 l hn.2 hm' hp (fun x hx => hall x (List.mem_cons_of_mem _ hx))
      simp [hna, ih]

/-- exchanging two finite sums -/
theorem sum_swap {α β : Type} (G : α → β → Rat) : ∀ (as : List α) (bs : List β),
    (as.map (fun a => (bs.map (G a)).sum)).sum = (bs.map (fun b => (as.map (fun a => G a b)).sum)).sum
  | [], bs => by
    simp only [List.map_nil, List.sum_nil]
    exact (sum_all_zero _ bs (fun _ _ => rfl)).symm
  | a :: as, bs => by
    have ih := sum_swap G as bs
    have add : ∀ (f g : β → Rat) (l : List β), (l.map (fun b => f b + g b)).sum = (l.map f).sum + (l.map g).sum := by
      intro f g l
      induction l with
      | nil => simp
      | cons b l ihl => simp only [List.map_cons, List.sum_cons, ihl]; ring
    simp only [List.map_cons, List.sum_cons, ih]
    rw [add]

theorem sum_map_add {α : Type} (f g : α → Rat) (l : List α) : (l.map (fun b => f b + g b)).sum = (l.map f).sum + (l.map g).sum := by
  induction l with
  | nil => simp
  | cons b l ihl => simp only [List.map_cons, List.sum_cons, ihl]; ring

/-- in a dict (no duplicate keys) every stored pair is what the lookup of its key returns -/
theorem get?_of_mem {κ ν : Type} [DecidableEq κ] : ∀ (l : AList κ ν), (l.map (·.1)).Nodup → ∀ kv ∈ l, AList.get? l kv.1 = some kv.2
  | [], _, _, hm => by cases hm
  | a :: l, hn, kv, hm => by
    rw [get?_cons]
    simp only [List.map_cons, List.nodup_cons] at hn
    rcases List.mem_cons.mp hm with rfl | hm'
    · simp
    · have hne : a.1 ≠ kv.1 := fun e => hn.1 (by rw [e]; exact List.mem_map_of_mem hm')
      simp only [hne, if_false]
      exact get?_of_mem l hn.2 kv hm'

/-! ### the pool side -/

/-- what the four accumulators of the pool's loop are worth -/
def accVal (e : Env) (a : UniAcc) : Rat := (a.baseFee * e.uniPrice + a.quoteFee) + (a.dep1 * e.uniPrice + a.dep0)

theorem uniFold_value (e : Env) : ∀ (ps : AList PosKey UPos) (a : UniAcc),
    accVal e (ps.foldl (uniAccStep NumCtx.exact (uniSqrtP NumCtx.exact e.uniPrice)) a) =
      accVal e a + sumIf (fun kp => !kp.2.transferred) (poolVal e) ps
  | [], a => by simp [sumIf]
  | kp :: ps, a => by
    rw [List.foldl_cons, uniFold_value e ps, sumIf_cons]
    by_cases ht : kp.2.transferred = true
    · simp [uniAccStep, ht]
    · have hf : kp.2.transferred = false := by simpa using ht
      simp only [uniAccStep, hf, Bool.false_eq_true, if_false, Bool.not_false, if_true, accVal, NumCtx.exact_add, poolVal, cpos]
      ring

end Squeeth

/-- **the pool's reported value = the plain sum over the FREE positions**, each once at the pool price (exact arithmetic) -/
theorem C01_squeeth_pool_value_is_sum_over_free (e : Env) (s : State) :
    uniNetValue NumCtx.exact e s = sumIf (fun kp => !kp.2.transferred) (poolVal e) s.positions := by
  have h := uniFold_value e s.positions {}
  unfold uniNetValue
  simp only [NumCtx.exact_add, NumCtx.exact_mul, mul_one]
  simp only [accVal] at h
  linarith [h]

namespace Squeeth

/-- what a vault's lent position contributes to its collateral -/
def lentPart (e : Env) (s : State) (kv : Nat × Vault) : Rat :=
  match kv.2.nft with
  | none => 0
  | some pos =>
    match AList.get? s.positions pos with
    | some p => idxVal e (pos, p)
    | none => 0

theorem effColl_exact (e : Env) (s : State) (kv : Nat × Vault) (c : Rat) (hg : AList.get? s.vaults kv.1 = some kv.2)
    (hc : effColl NumCtx.exact e s kv.1 = .ok c) : c = kv.2.coll + lentPart e s kv := by
  unfold effColl at hc
  rw [hg] at hc
  unfold lentPart
  cases hn : kv.2.nft with
  | none => simp only [hn, Except.ok.injEq] at hc ⊢; rw [← hc]; ring
  | some pos =>
    simp only [hn] at hc ⊢
    cases hp : AList.get? s.positions pos with
    | none => simp [hp] at hc
    | some p =>
      simp only [hp, Except.ok.injEq] at hc ⊢
      rw [← hc]
      simp only [lpCollateral, posAmount, hp, NumCtx.exact_add, NumCtx.exact_mul, NumCtx.exact_div, idxVal, cpos]
      ring

theorem sum_effColl (e : Env) (s : State) : ∀ (vs : List (Nat × Vault)) (cs : List Rat),
    (∀ kv ∈ vs, AList.get? s.vaults kv.1 = some kv.2) →
    List.Forall₂ (fun kv c => effColl NumCtx.exact e s kv.1 = .ok c) vs cs →
    cs.sum = (vs.map (·.2.coll)).sum + (vs.map (lentPart e s)).sum
  | [], _, _, h => by cases h; simp
  | kv :: vs, _, hg, h => by
    cases h with
    | cons h1 h2 =>
      have ih := sum_effColl e s vs _ (fun x hx => hg x (List.mem_cons_of_mem _ hx)) h2
      have := effColl_exact e s kv _ (hg kv (List.mem_cons_self ..)) h1
      simp only [List.sum_cons, List.map_cons, ih, this]
      ring

/-- **the bijection between vaults that hold a position and lent positions, at the level of sums**: under `Once`, what the vaults count as
    LP collateral is the plain sum over the positions flagged `transferred`, each once -/
theorem sum_lentPart (e : Env) (s : State) (h : Once s) (hnv : (s.vaults.map (·.1)).Nodup) (hnp : (s.positions.map (·.1)).Nodup) :
    (s.vaults.map (lentPart e s)).sum = sumIf (fun kp => kp.2.transferred) (idxVal e) s.positions := by
  -- G kv kp: kv's position is kp and it is flagged
  let G : Nat × Vault → PosKey × UPos → Rat := fun kv kp =>
    if (decide (kv.2.nft = some kp.1) && kp.2.transferred) then idxVal e kp else 0
  have hL : ∀ kv ∈ s.vaults, lentPart e s kv = (s.positions.map (G kv)).sum := by
    intro kv hkv
    unfold lentPart
    cases hn : kv.2.nft with
    | none =>
      symm; apply sum_all_zero
      intro kp _
      simp [G, hn]
    | some pos =>
      obtain ⟨p, hp, ht⟩ := h.ref_lent kv.1 kv.2 pos (get?_of_mem _ hnv kv hkv) hn
      simp only [hp]
      symm
      have := sum_unique (fun kp : PosKey × UPos => kp.1) (fun kp => decide (some pos = some kp.1) && kp.2.transferred) (idxVal e) (pos, p)
        s.positions hnp (mem_of_get? hp) (by simp [ht]) (by
          intro x _ hx
          simp only [Bool.and_eq_true, decide_eq_true_eq, Option.some.injEq] at hx
          exact hx.1.symm)
      simpa [G, hn] using this
  have hR : ∀ kp ∈ s.positions, (s.vaults.map (fun kv => G kv kp)).sum = if kp.2.transferred then idxVal e kp else 0 := by
    intro kp hkp
    by_cases ht : kp.2.transferred = true
    · obtain ⟨vk, v, hv, hn⟩ := h.lent_ref kp.1 kp.2 (get?_of_mem _ hnp kp hkp) ht
      have := sum_unique (fun kv : Nat × Vault => kv.1) (fun kv => decide (kv.2.nft = some kp.1) && kp.2.transferred) (fun _ => idxVal e kp) (vk, v)
        s.vaults hnv (mem_of_get? hv) (by simp [hn, ht]) (by
          intro x hx hpx
          simp only [Bool.and_eq_true, decide_eq_true_eq] at hpx
          exact h.inj x.1 vk x.2 v kp.1 (get?_of_mem _ hnv x hx) hv hpx.1 hn)
      simpa [G, ht] using this
    · have hf : kp.2.transferred = false := by simpa using ht
      rw [sum_all_zero _ _ (fun kv _ => by simp [G, hf])]
      simp [hf]
  calc (s.vaults.map (lentPart e s)).sum
      = (s.vaults.map (fun kv => (s.positions.map (G kv)).sum)).sum := by
        congr 1; exact List.map_congr_left hL
    _ = (s.positions.map (fun kp => (s.vaults.map (fun kv => G kv kp)).sum)).sum := sum_swap G _ _
    _ = sumIf (fun kp => kp.2.transferred) (idxVal e) s.positions := by
        unfold sumIf; congr 1; exact List.map_congr_left hR

end Squeeth

/-- **C01, value level: every holding of the pool + Squeeth pair is in the account's value exactly once** (exact arithmetic).
    On the joint state (one positions container, the vaults), under the count invariant `Once` (kept by every operation:
    `C01_squeeth_counted_once`) and with both containers being dicts (no key twice), the two reported values add up — the pool's
    `net_value` (WETH) converted at the bar's WETH price, plus the Squeeth market's — to the plain sum

      Σ_{free positions} poolVal · WETH  +  (Σ_{lent positions} idxVal + Σ_{vaults} collateral) · WETH  −  (Σ short) · (OSQTH · WETH):

    a free position once at the pool price, a lent position once at the index price (inside its vault's collateral, not at the pool),
    never both, never neither. -/
theorem C01_squeeth_uni_value_counted_once (e : Env) (s : State) (b : Balance) (h : Once s)
    (hnv : (s.vaults.map (·.1)).Nodup) (hnp : (s.positions.map (·.1)).Nodup) (hb : marketBalance NumCtx.exact e s = .ok b) :
    uniNetValue NumCtx.exact e s * e.weth + b.netValue =
      sumIf (fun kp => !kp.2.transferred) (poolVal e) s.positions * e.weth +
      (sumIf (fun kp => kp.2.transferred) (idxVal e) s.positions + (s.vaults.map (·.2.coll)).sum) * e.weth -
      (s.vaults.map (·.2.short)).sum * (e.osqth * e.weth) := by
  obtain ⟨cs, hcs, _, _, hnet, _⟩ := C01_squeeth_balance_from_raw_state e s b hb
  have hsum := sum_effColl e s s.vaults cs (get?_of_mem _ hnv) hcs
  rw [sum_lentPart e s h hnv hnp] at hsum
  rw [C01_squeeth_pool_value_is_sum_over_free, hnet, hsum]
  ring

/-- vault 1 references a position that is not flagged: the pool counts it and the vault counts it -/
def Squeeth.c01Twice : State :=
  { wallet := [("WETH", 10), ("OSQTH", 5)], vaults := [(1, { coll := 1, short := 0, nft := some (0, 0) })], maxId := 1,
    positions := [((0, 0), { liquidity := 0, pending0 := 3, pending1 := 0, transferred := false })], log := [] }

/-- without `Once` the equation is false: after a direct `transfer_position_in` (see `C01_fails_direct_transfer`) a position is both in the
    pool's sum and in a vault's collateral — concretely, a state whose vault references an unflagged position -/
theorem C01_squeeth_value_equation_needs_once :
    ∃ (e : Env) (s : State) (b : Balance), marketBalance NumCtx.exact e s = .ok b ∧ (s.vaults.map (·.1)).Nodup ∧ (s.positions.map (·.1)).Nodup ∧
      uniNetValue NumCtx.exact e s * e.weth + b.netValue ≠
        sumIf (fun kp => !kp.2.transferred) (poolVal e) s.positions * e.weth +
        (sumIf (fun kp => kp.2.transferred) (idxVal e) s.positions + (s.vaults.map (·.2.coll)).sum) * e.weth -
        (s.vaults.map (·.2.short)).sum * (e.osqth * e.weth) := by
  refine ⟨c01Env, c01Twice, ?_⟩
  refine ⟨_, rfl, by decide, by decide, ?_⟩
  decide +kernel

/-! ### non-vacuity: the state of `Proofs/C01/Squeeth.lean` (a lent position in vault 1, a second vault) satisfies the hypotheses -/
example : ((runOps NumCtx.exact c01Start c01Hist).vaults.map (·.1)).Nodup ∧ ((runOps NumCtx.exact c01Start c01Hist).positions.map (·.1)).Nodup := by
  decide +kernel
example : Once (runOps NumCtx.exact c01Start c01Hist) :=
  C01_squeeth_counted_once _ _ _ (C01_squeeth_initially_once _ rfl (by
    intro pos p hp
    simp only [c01Start, get?_cons, get?_nil] at hp
    split_ifs at hp
    cases hp; rfl))

end Demeter
