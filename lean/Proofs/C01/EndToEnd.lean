/-
  C01, end to end — the account row of every bar of a run over REAL market models.

  `Proofs/C01/Run.lean` proves, for an arbitrary interpretation `V` of the calls, that row k is `Broker.get_account_status` of the world
  left by exactly the calls before it.  `Demeter/Actuator/Markets.lean` gives a concrete `V` (`marketsValuation`): the world is the
  wallet plus a Uniswap LP market (`Demeter.Uni`), the oSQTH/WETH pool and the Squeeth market (`Demeter.Squeeth`, one shared positions
  container), a GMX v1 market (`Demeter.GmxV1`) and a Deribit option market (`Demeter.Deribit`); a call does what those models'
  `step` / `update` / `set_market_status` / `get_market_balance` (cache) do.  Here the per-market theorems (`C01_uni_balance_eq_spec`,
  `C01_squeeth_balance_from_raw_state` + the value-level once equation, `C01_gmx_v1_balance`, `C01_deribit_open_bar_value`) are
  composed with the broker sum (`C01_broker_reported_eq_spec`); the Aave market (`Demeter.Aave`, market 5) enters with its reported
  value, which `C01_aave_net_value_within_quantum` ties to supplies − debts within the 1e-4 quantisation.  Not composed: GMX v2 (float
  valuation):

    net value of row k  =  Σ wallet·price  +  conv₀ · Σ_{free positions of market 0} value
                          +  conv₁ · Σ_{free positions of the oSQTH/WETH pool} value at the pool price
                          +  conv₂ · ((Σ_{lent positions} value at the index price + Σ vault collateral) · WETH − Σ short · mark)
                          +  conv₃ · (GLP · glp_price + reward · wavax_price / 10³⁰)
                          +  conv₄ · (option cash + Σ amount · round(mark))          [on a bar of the hourly grid; off the grid the cached premium]
                          +  conv₅ · (Aave: quantised supplies − debts, within 1e-4 of the recomputed totals)

  with `conv_m = 1` if market m's quote token is the account's, else the bar's price of that token — every holding once: the count
  invariant `Once` of the shared container is carried along the whole run (`C01_e2e_once_along_the_run`).
-/
import Proofs.C01.Run
import Proofs.C01.Uni
import Proofs.C01.SqueethValue
import Proofs.C01.SqueethDict
import Proofs.C01.Gmx
import Proofs.C01.Deribit
import Proofs.C01.Aave
import Demeter.Actuator.Markets
import Proofs.C01.UniSqueeth
namespace Demeter
open Core

namespace Core

theorem e2e_once_wallet {s : Squeeth.State} (h : Squeeth.Once s) (wl : Wallet) : Squeeth.Once { s with wallet := wl } :=
  h.of_sameRefs (Squeeth.sameRefs_of_frame ⟨rfl, rfl, rfl⟩)

theorem e2e_sqCall_once (S : Setup) (w : World) (op : Squeeth.Op) (h : Squeeth.Once w.sq) : Squeeth.Once (sqCall S w op).sq :=
  C01_squeeth_counted_once_step S.cx w.env w.sqIn op (e2e_once_wallet h w.wallet)

theorem e2e_opCall_once (S : Setup) (w : World) (m : Nat) (tag : String) (h : Squeeth.Once w.sq) : Squeeth.Once (opCall S w m tag).sq := by
  unfold opCall uniCall
  repeat' split
  all_goals first | exact h | exact e2e_sqCall_once S w _ h

theorem e2e_eff_once (S : Setup) (e : Ev) (w : World) (h : Squeeth.Once w.sq) : Squeeth.Once (marketsEff S e w).sq := by
  cases e with
  | set ts m stage o src =>
    simp only [marketsEff, setCall]
    repeat' split
    all_goals exact h
  | update ts m =>
    simp only [marketsEff, updCall]
    repeat' split
    all_goals first | exact h | exact e2e_sqCall_once S w _ h
  | opOk ts hk m tag => exact e2e_opCall_once S w m tag h
  | opRej ts hk m tag c => cases c <;> [exact e2e_opCall_once S w m tag h; exact h]
  | opFree ts hk m tag ok => exact e2e_opCall_once S w m tag h
  | _ => exact h

theorem e2e_worldAfter_once (S : Setup) : ∀ (l : List Ev) (w : World), Squeeth.Once w.sq →
    Squeeth.Once (worldAfter (marketsValuation S) l w).sq
  | [], _, h => h
  | e :: l, w, h => e2e_worldAfter_once S l _ (e2e_eff_once S e w h)

theorem e2e_sqCall_dict (S : Setup) (w : World) (op : Squeeth.Op) (h : Squeeth.Dict w.sq) : Squeeth.Dict (sqCall S w op).sq :=
  C01_squeeth_dict_step S.cx w.env w.sqIn op (Squeeth.keeps_of_fields (s := w.sq) (s' := w.sqIn) rfl rfl h)

theorem e2e_opCall_dict (S : Setup) (w : World) (m : Nat) (tag : String) (h : Squeeth.Dict w.sq) : Squeeth.Dict (opCall S w m tag).sq := by
  unfold opCall uniCall
  repeat' split
  all_goals first | exact h | exact e2e_sqCall_dict S w _ h

theorem e2e_eff_dict (S : Setup) (e : Ev) (w : World) (h : Squeeth.Dict w.sq) : Squeeth.Dict (marketsEff S e w).sq := by
  cases e with
  | set ts m stage o src =>
    simp only [marketsEff, setCall]
    repeat' split
    all_goals exact h
  | update ts m =>
    simp only [marketsEff, updCall]
    repeat' split
    all_goals first | exact h | exact e2e_sqCall_dict S w _ h
  | opOk ts hk m tag => exact e2e_opCall_dict S w m tag h
  | opRej ts hk m tag c => cases c <;> [exact e2e_opCall_dict S w m tag h; exact h]
  | opFree ts hk m tag ok => exact e2e_opCall_dict S w m tag h
  | _ => exact h

theorem e2e_worldAfter_dict (S : Setup) : ∀ (l : List Ev) (w : World), Squeeth.Dict w.sq →
    Squeeth.Dict (worldAfter (marketsValuation S) l w).sq
  | [], _, h => h
  | e :: l, w, h => e2e_worldAfter_dict S l _ (e2e_eff_dict S e w h)

/-- conversion of a market quoted in `tok` into the account's quote token at the price row `src` -/
def Setup.conv (S : Setup) (src : Option Int) (tok : String) : Option Rat :=
  if tok = S.quote then some 1 else AList.get? (S.prices src) tok

end Core

/-- **the count invariant holds in the world of every account row**: starting from a world whose shared container counts every position
    once, after ANY list of calls of the loop (any script, any decoding of labels into operations of the three markets, accepted or
    failing, any data) it still does -/
theorem C01_e2e_once_along_the_run (S : Setup) (w0 : World) (h0 : Squeeth.Once w0.sq) (calls : List Ev) :
    Squeeth.Once (worldAfter (marketsValuation S) calls w0).sq := e2e_worldAfter_once S calls w0 h0

/-- … and its two containers stay dicts (no key twice) -/
theorem C01_e2e_dict_along_the_run (S : Setup) (w0 : World) (h0 : Squeeth.Dict w0.sq) (calls : List Ev) :
    Squeeth.Dict (worldAfter (marketsValuation S) calls w0).sq := e2e_worldAfter_dict S calls w0 h0

/-- **the account row = wallet + the three markets' reported values, converted** (exact arithmetic): `Broker.get_account_status` over
    the concrete markets; `none` on both sides exactly when a price is missing -/
theorem C01_e2e_row_is_wallet_plus_markets (S : Setup) (src : Option Int) (w : World) :
    (acctRow NumCtx.exact (marketsValuation S) src w).map (·.netValue) =
      (do let a ← specWallet (S.prices src) w.wallet
          let c0 ← S.conv src S.pool.quoteTok
          let c1 ← S.conv src Gen.sqWethName
          let c2 ← S.conv src S.sqQuote
          let c3 ← S.conv src S.gmxQuote
          let c4 ← S.conv src S.derCfg.token
          let c5 ← S.conv src S.aaveQuote
          pure (a + (nvOfUni (Uni.getMarketBalance S.K S.pool w.uniIn) * c0 +
            (Squeeth.uniNetValue S.cx w.env w.sqIn * c1 + (nvOfSq (Squeeth.marketBalance S.cx w.env w.sqIn) * c2 +
              (GmxV1.netValue S.cx w.genv w.gmxIn * c3 +
                (nvOfDer (Deribit.getMarketBalance S.derCx S.derCfg w.derIn).1 * c4 +
                  (nvOfAave (Aave.step S.aaveCx w.aenv w.aaveIn (.read .marketBalance)).1 * c5 + 0)))))))) := by
  rw [C01_run_row_is_plain_sum]
  simp only [marketsValuation, marketsBalances, specNetValue, specMarkets, convFactor, Setup.conv]
  generalize specWallet (S.prices src) w.wallet = oa
  generalize (if S.pool.quoteTok = S.quote then some (1 : Rat) else AList.get? (S.prices src) S.pool.quoteTok) = o0
  generalize (if Gen.sqWethName = S.quote then some (1 : Rat) else AList.get? (S.prices src) Gen.sqWethName) = o1
  generalize (if S.sqQuote = S.quote then some (1 : Rat) else AList.get? (S.prices src) S.sqQuote) = o2
  generalize (if S.gmxQuote = S.quote then some (1 : Rat) else AList.get? (S.prices src) S.gmxQuote) = o3
  generalize (if S.derCfg.token = S.quote then some (1 : Rat) else AList.get? (S.prices src) S.derCfg.token) = o4
  generalize (if S.aaveQuote = S.quote then some (1 : Rat) else AList.get? (S.prices src) S.aaveQuote) = o5
  cases oa <;> cases o0 <;> cases o1 <;> cases o2 <;> cases o3 <;> cases o4 <;> cases o5 <;> rfl

/-- the independent valuation of a world: wallet value `a`, then every market's raw holdings converted by `c_m`; `dv` = what the option
    market is worth (cash + options at mark on the hourly grid, see the two corollaries), `av` = the Aave market's quantised value -/
def Core.e2eSum (S : Setup) (w : World) (row : Uni.Row) (amt : Uni.Pos → Rat × Rat) (a c0 c1 c2 c3 c4 c5 dv av : Rat) : Rat :=
  a + Uni.sumOver (Uni.posValue S.pool row.price amt) w.uni.positions * c0 +
        Squeeth.sumIf (fun kp => !kp.2.transferred) (Squeeth.poolVal w.env) w.sq.positions * c1 +
        ((Squeeth.sumIf (fun kp => kp.2.transferred) (Squeeth.idxVal w.env) w.sq.positions + (w.sq.vaults.map (·.2.coll)).sum) * w.env.weth -
          (w.sq.vaults.map (·.2.short)).sum * (w.env.osqth * w.env.weth)) * c2 +
        (w.gmx.glp * w.genv.glpPrice + w.gmx.reward * (w.genv.wavaxPrice / 10 ^ 30)) * c3 +
        dv * c4 +
        av * c5

/-- the general form: `dv` is whatever the option market's `get_market_balance` reports in `w` -/
theorem C01_e2e_row_value_gen (S : Setup) (hK : S.K.cx = NumCtx.exact) (hcx : S.cx = NumCtx.exact) (hder : S.derCx = Deribit.DCtx.exact)
    (haave : S.aaveCx = aaveExact) (src : Option Int) (w : World)
    (dv : Rat) (hdv : nvOfDer (Deribit.getMarketBalance Deribit.DCtx.exact S.derCfg w.derIn).1 = dv)
    (hgood : Aave.Good aaveExact w.aenv w.aaveIn) (ab : Aave.Balance)
    (hab : (Aave.step aaveExact w.aenv w.aaveIn (.read .marketBalance)).1 = .ok (.bal ab))
    (row : Uni.Row) (sqrt : Nat) (amt : Uni.Pos → Rat × Rat) (hrow : w.uni.row = some row)
    (hsqrt : S.K.priceToSqrt S.pool row.price = .ok sqrt)
    (hamt : ∀ p ∈ w.uni.positions, p.transferred = false → S.K.amounts S.pool sqrt p.lower p.upper p.liq p.liqDec = .ok (amt p))
    (bs : Squeeth.Balance) (hbs : Squeeth.marketBalance NumCtx.exact w.env w.sqIn = .ok bs)
    (honce : Squeeth.Once w.sq) (hnv : (w.sq.vaults.map (·.1)).Nodup) (hnp : (w.sq.positions.map (·.1)).Nodup)
    (a c0 c1 c2 c3 c4 c5 : Rat) (ha : specWallet (S.prices src) w.wallet = some a) (h0 : S.conv src S.pool.quoteTok = some c0)
    (h1 : S.conv src Gen.sqWethName = some c1) (h2 : S.conv src S.sqQuote = some c2) (h3 : S.conv src S.gmxQuote = some c3)
    (h4 : S.conv src S.derCfg.token = some c4) (h5 : S.conv src S.aaveQuote = some c5) :
    (∃ ts tb, Aave.specTotalSupply aaveExact w.aenv w.aave.supplies = .ok ts ∧ Aave.specTotalBorrows aaveExact w.aenv w.aave.borrows = .ok tb ∧
      |ab.netValue - (ts - tb)| ≤ 1 / 10000) ∧
    (acctRow NumCtx.exact (marketsValuation S) src w).map (·.netValue) =
      some (e2eSum S w row amt a c0 c1 c2 c3 c4 c5 dv ab.netValue) := by
  refine ⟨by
    obtain ⟨ts, tb, h1, h2, _, _, h3⟩ := C01_aave_net_value_within_quantum w.aaveIn hgood ab hab
    exact ⟨ts, tb, h1, h2, h3⟩, ?_⟩
  obtain ⟨b, hb, hnet, _⟩ := C01_uni_balance_eq_spec S.K hK S.pool w.uniIn row sqrt amt hrow hsqrt hamt
  -- the Squeeth side: raw-state formula, then the lent positions instead of the vaults' references
  obtain ⟨cs, hcs, _, _, hsnet, _⟩ := C01_squeeth_balance_from_raw_state w.env w.sqIn bs hbs
  have hsum := Squeeth.sum_effColl w.env w.sqIn w.sqIn.vaults cs (Squeeth.get?_of_mem _ hnv) hcs
  rw [Squeeth.sum_lentPart w.env w.sqIn (e2e_once_wallet honce w.wallet) hnv hnp] at hsum
  rw [C01_e2e_row_is_wallet_plus_markets, ha, h0, h1, h2, h3, h4, h5, hcx, hder, hdv, haave, hb, hbs, hab,
    C01_squeeth_pool_value_is_sum_over_free, (C01_gmx_v1_balance w.genv w.gmxIn).1]
  simp only [nvOfUni, nvOfSq, nvOfAave, hnet, hsnet, hsum]
  show some _ = some _
  congr 1
  show _ = _
  unfold e2eSum
  simp only [World.sqIn, World.uniIn, World.gmxIn]
  ring

/-- **C01 end to end, one row.**  In any world `w` in which the three `get_market_balance` calls return (market 0: a status row, its
    price converts, every free position's amounts compute; Squeeth: the balance `bs`), with the count invariant and dict-shaped
    containers, and with the prices present: the row's net value is the independent valuation — wallet at the bar's prices, plus every
    position of market 0 that is not lent out, plus every free position of the oSQTH/WETH pool at the pool price, plus every lent
    position at the index price inside its vault's collateral, plus the ETH collateral, minus the short at mark, each converted by
    its market's quote-token price — every holding exactly once. -/
theorem C01_e2e_row_value (S : Setup) (hK : S.K.cx = NumCtx.exact) (hcx : S.cx = NumCtx.exact) (hder : S.derCx = Deribit.DCtx.exact)
    (haave : S.aaveCx = aaveExact) (src : Option Int) (w : World) (hgrid : w.der.onGrid = true)
    (hgood : Aave.Good aaveExact w.aenv w.aaveIn) (ab : Aave.Balance)
    (hab : (Aave.step aaveExact w.aenv w.aaveIn (.read .marketBalance)).1 = .ok (.bal ab))
    (row : Uni.Row) (sqrt : Nat) (amt : Uni.Pos → Rat × Rat) (hrow : w.uni.row = some row)
    (hsqrt : S.K.priceToSqrt S.pool row.price = .ok sqrt)
    (hamt : ∀ p ∈ w.uni.positions, p.transferred = false → S.K.amounts S.pool sqrt p.lower p.upper p.liq p.liqDec = .ok (amt p))
    (bs : Squeeth.Balance) (hbs : Squeeth.marketBalance NumCtx.exact w.env w.sqIn = .ok bs)
    (honce : Squeeth.Once w.sq) (hnv : (w.sq.vaults.map (·.1)).Nodup) (hnp : (w.sq.positions.map (·.1)).Nodup)
    (a c0 c1 c2 c3 c4 c5 : Rat) (ha : specWallet (S.prices src) w.wallet = some a) (h0 : S.conv src S.pool.quoteTok = some c0)
    (h1 : S.conv src Gen.sqWethName = some c1) (h2 : S.conv src S.sqQuote = some c2) (h3 : S.conv src S.gmxQuote = some c3)
    (h4 : S.conv src S.derCfg.token = some c4) (h5 : S.conv src S.aaveQuote = some c5) :
    (∃ ts tb, Aave.specTotalSupply aaveExact w.aenv w.aave.supplies = .ok ts ∧ Aave.specTotalBorrows aaveExact w.aenv w.aave.borrows = .ok tb ∧
      |ab.netValue - (ts - tb)| ≤ 1 / 10000) ∧
    (acctRow NumCtx.exact (marketsValuation S) src w).map (·.netValue) =
      some (a + Uni.sumOver (Uni.posValue S.pool row.price amt) w.uni.positions * c0 +
        Squeeth.sumIf (fun kp => !kp.2.transferred) (Squeeth.poolVal w.env) w.sq.positions * c1 +
        ((Squeeth.sumIf (fun kp => kp.2.transferred) (Squeeth.idxVal w.env) w.sq.positions + (w.sq.vaults.map (·.2.coll)).sum) * w.env.weth -
          (w.sq.vaults.map (·.2.short)).sum * (w.env.osqth * w.env.weth)) * c2 +
        (w.gmx.glp * w.genv.glpPrice + w.gmx.reward * (w.genv.wavaxPrice / 10 ^ 30)) * c3 +
        (w.der.cash + Deribit.markValue S.derCfg w.der.book w.der.positions) * c4 +
        ab.netValue * c5) := by
  obtain ⟨bd, hbd, hdnet, _⟩ := C01_deribit_open_bar_value S.derCfg w.derIn hgrid
  exact C01_e2e_row_value_gen S hK hcx hder haave src w _ (by rw [hbd]; exact hdnet) hgood ab hab row sqrt amt hrow hsqrt hamt bs hbs
    honce hnv hnp a c0 c1 c2 c3 c4 c5 ha h0 h1 h2 h3 h4 h5

/-- … and on a bar OFF the hourly grid (most bars of a minutely backtest) the option market reports its cache: the premium of the last
    valuation, with the current cash — the design the property text records ("cached value on bars where the market is closed");
    everything else as above -/
theorem C01_e2e_row_value_off_grid (S : Setup) (hK : S.K.cx = NumCtx.exact) (hcx : S.cx = NumCtx.exact) (hder : S.derCx = Deribit.DCtx.exact)
    (haave : S.aaveCx = aaveExact) (src : Option Int) (w : World) (hgrid : w.der.onGrid = false) (bc : Deribit.Balance)
    (hcache : w.der.cache = some bc)
    (hgood : Aave.Good aaveExact w.aenv w.aaveIn) (ab : Aave.Balance)
    (hab : (Aave.step aaveExact w.aenv w.aaveIn (.read .marketBalance)).1 = .ok (.bal ab))
    (row : Uni.Row) (sqrt : Nat) (amt : Uni.Pos → Rat × Rat) (hrow : w.uni.row = some row)
    (hsqrt : S.K.priceToSqrt S.pool row.price = .ok sqrt)
    (hamt : ∀ p ∈ w.uni.positions, p.transferred = false → S.K.amounts S.pool sqrt p.lower p.upper p.liq p.liqDec = .ok (amt p))
    (bs : Squeeth.Balance) (hbs : Squeeth.marketBalance NumCtx.exact w.env w.sqIn = .ok bs)
    (honce : Squeeth.Once w.sq) (hnv : (w.sq.vaults.map (·.1)).Nodup) (hnp : (w.sq.positions.map (·.1)).Nodup)
    (a c0 c1 c2 c3 c4 c5 : Rat) (ha : specWallet (S.prices src) w.wallet = some a) (h0 : S.conv src S.pool.quoteTok = some c0)
    (h1 : S.conv src Gen.sqWethName = some c1) (h2 : S.conv src S.sqQuote = some c2) (h3 : S.conv src S.gmxQuote = some c3)
    (h4 : S.conv src S.derCfg.token = some c4) (h5 : S.conv src S.aaveQuote = some c5) :
    (acctRow NumCtx.exact (marketsValuation S) src w).map (·.netValue) =
      some (e2eSum S w row amt a c0 c1 c2 c3 c4 c5 (if bc.cash = w.der.cash then bc.netValue else w.der.cash + bc.premium) ab.netValue) := by
  obtain ⟨b', hb', _, _, _, _, hnet'⟩ := C01_deribit_closed_bar_value Deribit.DCtx.exact S.derCfg w.derIn bc hgrid hcache
  exact (C01_e2e_row_value_gen S hK hcx hder haave src w _ (by rw [hb']; exact hnet') hgood ab hab row sqrt amt hrow hsqrt hamt bs hbs
    honce hnv hnp a c0 c1 c2 c3 c4 c5 ha h0 h1 h2 h3 h4 h5).2

/-- **C01 end to end, every bar of every run.**  For every configuration, trigger list, script, setup (pool, kernel, data, price rows,
    decoding of labels) and start world: the rows of a run that ends normally are, bar by bar, `get_account_status` at that bar's price
    row of the world `worldAfter … pre w0` that the three market models are in after exactly the calls before the row (`C01_run_rows`
    says which those are); and in every one of those worlds the shared positions container counts every position once. -/
theorem C01_e2e_run_rows (S : Setup) (w0 : World) (h0 : Squeeth.Once w0.sq) (hd : Squeeth.Dict w0.sq) (cfg : Cfg) (trigs : List Trig) (sc : Script)
    (h : (run cfg trigs sc).err = none) (hidx : (barIndex cfg).Pairwise (· < ·)) :
    ∃ pres : List (List Ev),
      pres.length = (barIndex cfg).length ∧
      valuedRows NumCtx.exact (marketsValuation S) (run cfg trigs sc).trace w0 =
        List.zipWith (fun ts pre => (ts, acctRow NumCtx.exact (marketsValuation S) (priceRow cfg ts)
          (worldAfter (marketsValuation S) pre w0))) (barIndex cfg) pres ∧
      (∀ pre ∈ pres, Squeeth.Once (worldAfter (marketsValuation S) pre w0).sq ∧ Squeeth.Dict (worldAfter (marketsValuation S) pre w0).sq) ∧
      ∀ (k : Nat) pre ts, pres[k]? = some pre → (barIndex cfg)[k]? = some ts →
        ∃ post, (run cfg trigs sc).trace = pre ++ Ev.row ts (priceRow cfg ts) :: post ∧
          (∀ e ∈ pre, BeforeRow ts e) ∧ (∀ e ∈ post, AfterRow ts e) := by
  obtain ⟨pres, hlen, hv, hsplit⟩ := C01_run_rows NumCtx.exact (marketsValuation S) w0 cfg trigs sc h hidx
  exact ⟨pres, hlen, hv, fun pre _ => ⟨C01_e2e_once_along_the_run S w0 h0 pre, C01_e2e_dict_along_the_run S w0 hd pre⟩, hsplit⟩

theorem Core.e2e_zip_get {α β γ : Type} (f : α → β → γ) : ∀ (as : List α) (bs : List β) (k : Nat) (a : α) (b : β),
    as[k]? = some a → bs[k]? = some b → (List.zipWith f as bs)[k]? = some (f a b)
  | [], _, _, _, _, h, _ => by simp at h
  | _ :: _, [], _, _, _, _, h => by simp at h
  | x :: as, y :: bs, 0, a, b, ha, hb => by
    simp only [List.getElem?_cons_zero, Option.some.injEq] at ha hb
    simp [ha, hb]
  | x :: as, y :: bs, k + 1, a, b, ha, hb => by
    simp only [List.getElem?_cons_succ] at ha hb
    simp only [List.zipWith_cons_cons, List.getElem?_cons_succ]
    exact Core.e2e_zip_get f as bs k a b ha hb

/-- **C01 end to end, row k of a run, by index.**  Row k of the account history of a run that ends normally IS `get_account_status` at
    bar k's price row of the world the six market models are in after exactly the calls `pre` before it; that world satisfies the count
    invariant and has dict-shaped containers, so `C01_e2e_row_value` applies to it with no hypotheses left but "the balance calls return"
    and "the prices are there" (`C01_e2e_row_value_after_calls` with this `pre`). -/
theorem C01_e2e_run_row_k (S : Setup) (w0 : World) (h0 : Squeeth.Once w0.sq) (hd : Squeeth.Dict w0.sq) (cfg : Cfg) (trigs : List Trig)
    (sc : Script) (h : (run cfg trigs sc).err = none) (hidx : (barIndex cfg).Pairwise (· < ·)) :
    ∃ pres : List (List Ev), pres.length = (barIndex cfg).length ∧
      ∀ (k : Nat) pre ts, pres[k]? = some pre → (barIndex cfg)[k]? = some ts →
        (valuedRows NumCtx.exact (marketsValuation S) (run cfg trigs sc).trace w0)[k]? =
          some (ts, acctRow NumCtx.exact (marketsValuation S) (priceRow cfg ts) (worldAfter (marketsValuation S) pre w0)) ∧
        Squeeth.Once (worldAfter (marketsValuation S) pre w0).sq ∧ Squeeth.Dict (worldAfter (marketsValuation S) pre w0).sq ∧
        ∃ post, (run cfg trigs sc).trace = pre ++ Ev.row ts (priceRow cfg ts) :: post ∧
          (∀ e ∈ pre, BeforeRow ts e) ∧ (∀ e ∈ post, AfterRow ts e) := by
  obtain ⟨pres, hlen, hv, hinv, hsplit⟩ := C01_e2e_run_rows S w0 h0 hd cfg trigs sc h hidx
  refine ⟨pres, hlen, fun k pre ts hpre hts => ⟨?_, (hinv pre (List.mem_of_getElem? hpre)).1, (hinv pre (List.mem_of_getElem? hpre)).2,
    hsplit k pre ts hpre hts⟩⟩
  rw [hv]
  exact Core.e2e_zip_get _ _ _ k ts pre hts hpre

/-- **C01 end to end, the value of the row after any calls of a run**: start from a world whose shared container counts every position
    once and is a dict; after ANY calls (`pre`: in particular the calls before the row of bar k, `C01_e2e_run_rows`) the only guards left
    are "the three `get_market_balance` calls return" and "the prices are there" — then the row's net value is the independent valuation,
    every holding exactly once. -/
theorem C01_e2e_row_value_after_calls (S : Setup) (hK : S.K.cx = NumCtx.exact) (hcx : S.cx = NumCtx.exact)
    (hder : S.derCx = Deribit.DCtx.exact) (haave : S.aaveCx = aaveExact) (w0 : World)
    (h0 : Squeeth.Once w0.sq) (hd : Squeeth.Dict w0.sq) (pre : List Ev) (src : Option Int)
    (hgrid : (worldAfter (marketsValuation S) pre w0).der.onGrid = true)
    (hgood : Aave.Good aaveExact (worldAfter (marketsValuation S) pre w0).aenv (worldAfter (marketsValuation S) pre w0).aaveIn)
    (ab : Aave.Balance)
    (hab : (Aave.step aaveExact (worldAfter (marketsValuation S) pre w0).aenv (worldAfter (marketsValuation S) pre w0).aaveIn
      (.read .marketBalance)).1 = .ok (.bal ab))
    (row : Uni.Row) (sqrt : Nat) (amt : Uni.Pos → Rat × Rat) (hrow : (worldAfter (marketsValuation S) pre w0).uni.row = some row)
    (hsqrt : S.K.priceToSqrt S.pool row.price = .ok sqrt)
    (hamt : ∀ p ∈ (worldAfter (marketsValuation S) pre w0).uni.positions, p.transferred = false →
      S.K.amounts S.pool sqrt p.lower p.upper p.liq p.liqDec = .ok (amt p))
    (bs : Squeeth.Balance)
    (hbs : Squeeth.marketBalance NumCtx.exact (worldAfter (marketsValuation S) pre w0).env (worldAfter (marketsValuation S) pre w0).sqIn = .ok bs)
    (a c0 c1 c2 c3 c4 c5 : Rat) (ha : specWallet (S.prices src) (worldAfter (marketsValuation S) pre w0).wallet = some a)
    (hc0 : S.conv src S.pool.quoteTok = some c0) (hc1 : S.conv src Gen.sqWethName = some c1) (hc2 : S.conv src S.sqQuote = some c2)
    (hc3 : S.conv src S.gmxQuote = some c3) (hc4 : S.conv src S.derCfg.token = some c4) (hc5 : S.conv src S.aaveQuote = some c5) :
    let w := worldAfter (marketsValuation S) pre w0
    (∃ ts tb, Aave.specTotalSupply aaveExact w.aenv w.aave.supplies = .ok ts ∧ Aave.specTotalBorrows aaveExact w.aenv w.aave.borrows = .ok tb ∧
      |ab.netValue - (ts - tb)| ≤ 1 / 10000) ∧
    (acctRow NumCtx.exact (marketsValuation S) src w).map (·.netValue) =
      some (a + Uni.sumOver (Uni.posValue S.pool row.price amt) w.uni.positions * c0 +
        Squeeth.sumIf (fun kp => !kp.2.transferred) (Squeeth.poolVal w.env) w.sq.positions * c1 +
        ((Squeeth.sumIf (fun kp => kp.2.transferred) (Squeeth.idxVal w.env) w.sq.positions + (w.sq.vaults.map (·.2.coll)).sum) * w.env.weth -
          (w.sq.vaults.map (·.2.short)).sum * (w.env.osqth * w.env.weth)) * c2 +
        (w.gmx.glp * w.genv.glpPrice + w.gmx.reward * (w.genv.wavaxPrice / 10 ^ 30)) * c3 +
        (w.der.cash + Deribit.markValue S.derCfg w.der.book w.der.positions) * c4 +
        ab.netValue * c5) :=
  C01_e2e_row_value S hK hcx hder haave src _ hgrid hgood ab hab row sqrt amt hrow hsqrt hamt bs hbs (C01_e2e_once_along_the_run S w0 h0 pre)
    (C01_e2e_dict_along_the_run S w0 hd pre).1 (C01_e2e_dict_along_the_run S w0 hd pre).2 a c0 c1 c2 c3 c4 c5 ha hc0 hc1 hc2 hc3 hc4 hc5

/-! ### non-vacuity: three bars, five markets (the GMX market holds 50 GLP of a supply of 100 and accrues its reward in `update()` every bar; the
    option market holds 2 ETH of cash, `on_bar` of bar 2 deposits 1 ETH more).  Bar 0: `on_bar` adds liquidity on market 0 and opens a vault with the LP position
    (18000, 21000) of the oSQTH/WETH pool as collateral, minting 1 oSQTH; bar 1: `on_bar` buys 3 oSQTH through the pool (not a `write_func`).
    Market 0 is quoted in token "a" (price 3), the pool in WETH, the Squeeth market in USD = the account's quote token. -/
namespace Core
def e2eSetup : Setup :=
  { quote := "USD", K := Uni.c01Kern, pool := Uni.c01Pool, minError := 0, cx := NumCtx.exact,
    uniRow := fun src => some { closeTick := 0, curLiq := 1000, in0 := 0, in1 := 0, price := 2 + ((src.getD 0 : Int) : Rat) / 60 },
    sqEnv := fun src => { Squeeth.c01Env with weth := 2000 + ((src.getD 0 : Int) : Rat) },
    prices := fun src => [("USD", 1), ("a", 3), ("b", 1), ("WETH", 2000 + ((src.getD 0 : Int) : Rat)), ("OSQTH", 200), ("ETH", 2100)],
    uniOp := fun tag => if tag = "add" then some (.addRaw 1 1 20 30 none) else none,
    sqOp := fun tag => if tag = "open" then some (.openMint 2 1 none (some (18000, 21000))) else if tag = "buy" then some (.buy (some 3) none) else none,
    gmxEnv := fun _ => { rows := [], tokenSet := [], glpSupply := 100, aum := 0, usdgSupply := 0, interval := 1, glpPrice := 3 / 2,
                         wavaxPrice := 20 * 10 ^ 30 },
    derCx := Deribit.DCtx.exact,
    derBar := fun ts _ => { now := ts, flagOpen := true, book := [], price := 2100, priceDec := true, ops := [] },
    derOp := fun tag => if tag = "dep" then some (.deposit 1) else none }

def e2eWorld : World :=
  { wallet := [("a", 10), ("b", 10), ("WETH", 10), ("OSQTH", 5), ("ETH", 4)], uni := { Uni.c01State with positions := [], wallet := [] },
    sq := { Squeeth.c01Start with wallet := [] }, env := Squeeth.c01Env, gmx := { glp := 50, reward := 0, wallet := [], actions := [] },
    der := { cash := 2, positions := [], book := [], wallet := [], allowNeg := false, actions := [], cache := none, flagOpen := true, now := 0,
             price := 2100, priceDec := true } }

def e2eCfg : Cfg :=
  { markets := [{ idx := [0, 60, 120], openCb := false }, { idx := [0, 60, 120], openCb := false }, { idx := [0, 60, 120], openCb := false },
                { idx := [0, 60, 120], openCb := false }, { idx := [0, 60, 120], openCb := false }],
    priceIdx := [0, 60, 120], Δ := 60, resample := false }

def e2eScript : Script :=
  { init := [], before := fun _ => [], fire := fun _ _ => [], openCb := fun _ _ => [],
    on := fun r => if r = 0 then [⟨0, true, "add", true⟩, ⟨2, true, "open", true⟩] else if r = 1 then [⟨1, true, "buy", false⟩] else [⟨4, true, "dep", false⟩],
    after := fun _ => [], upd := fun _ _ => [] }

/-- the world after the whole run -/
def e2eEnd : World := worldAfter (marketsValuation e2eSetup) (run e2eCfg [] e2eScript).trace e2eWorld
end Core

example : (run e2eCfg [] e2eScript).err = none ∧ (barIndex e2eCfg).Pairwise (· < ·) := by decide
-- the run moves five of the six markets (the Aave market of this example is empty) and the wallet …
example : e2eEnd.wallet = [("a", 9), ("b", 9), ("WETH", 7676 / 997), ("OSQTH", 9), ("ETH", 3)] := by decide +kernel
example : e2eEnd.sq.vaults = [(1, { coll := 2, short := 1, nft := some (18000, 21000) })] ∧
    e2eEnd.sq.positions.map (fun kp => kp.2.transferred) = [true] := by decide +kernel
example : e2eEnd.uni.positions.map (fun p => (p.lower, p.upper, p.liq, p.transferred)) = [(20, 30, 3, false)] := by decide +kernel
example : (e2eEnd.gmx.glp, e2eEnd.gmx.reward) = (50, 90) := by decide +kernel
example : (e2eEnd.der.cash, e2eEnd.der.onGrid) = (3, true) := by decide +kernel
example : (marketsBalances e2eSetup e2eEnd).map (·.nv) =
    [15, 0, 243745693287264562601009273476519 / 49517601571415210995964968960, 1875, 3, 0] := by decide +kernel
-- … and the hypotheses of `C01_e2e_row_value` hold in it: the balances return, the prices are there, the containers are dicts, `Once`
example : (Squeeth.marketBalance NumCtx.exact e2eEnd.env e2eEnd.sqIn).toOption.isSome = true ∧
    (e2eEnd.sq.vaults.map (·.1)).Nodup ∧ (e2eEnd.sq.positions.map (·.1)).Nodup ∧
    (specWallet (e2eSetup.prices (some 120)) e2eEnd.wallet).isSome = true ∧
    e2eSetup.conv (some 120) e2eSetup.pool.quoteTok = some 3 ∧ e2eSetup.conv (some 120) Gen.sqWethName = some 2120 ∧
    e2eSetup.conv (some 120) e2eSetup.sqQuote = some 1 ∧ e2eSetup.conv (some 120) e2eSetup.gmxQuote = some 1 ∧
    e2eSetup.conv (some 120) e2eSetup.derCfg.token = some 2100 := by decide +kernel
example : Squeeth.Dict e2eWorld.sq := ⟨by decide, by decide⟩
example : Squeeth.Once e2eEnd.sq :=
  C01_e2e_once_along_the_run e2eSetup e2eWorld (C01_squeeth_initially_once _ rfl (by
    intro pos p hp
    simp only [e2eWorld, Squeeth.c01Start, Squeeth.get?_cons, Squeeth.get?_nil] at hp
    split_ifs at hp
    cases hp; rfl)) _
-- the script's accept/refuse flags are what the market models decide in the worlds the operations are issued in
example : coherent e2eSetup (run e2eCfg [] e2eScript).trace e2eWorld = true := by decide +kernel
-- the three account rows (USD)
example : (valuedRows NumCtx.exact (marketsValuation e2eSetup) (run e2eCfg [] e2eScript).trace e2eWorld).map (fun r => (r.1, r.2.isSome)) =
    [(0, true), (60, true), (120, true)] := by decide +kernel

end Demeter
