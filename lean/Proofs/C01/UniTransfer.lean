/-
  C01, Uniswap part — the clause "every holding is counted exactly once, including a liquidity position that has been lent" is
  FALSE of `UniLpMarket`'s public interface: `transfer_position_out` / `transfer_position_in` (uniswap/market.py, public methods; the
  Squeeth market calls them when a position is deposited into / withdrawn from a vault) only flip the `transferred` flag.  Called
  directly by a strategy,
    * `transfer_position_out(free position)` leaves a position nobody counts (the pool skips it, no vault references it) — counted 0 times;
    * `transfer_position_in(lent position)` leaves a position that the pool counts and the vault still counts — counted twice.
  This is the design of the hand-over between the two markets (known finding `uni.direct-transfer.*`), so the once-theorems of
  `Proofs/C01/UniLent.lean` / `UniSqueeth.lean` are stated for operation lists WITHOUT the two calls and carry `_partial` in their
  names; here the full statement is refuted on a concrete state, and the count is made a number (`countedTimes`) so that the three
  cases 0 / 1 / 2 are visible.
-/
import Proofs.C01.UniSqueeth
namespace Demeter
open Demeter.Uni

/-- how often the account's net value counts the position under the key `(lo, up)`: once by the pool's `get_market_balance` unless the
    position is flagged `transferred`, and once by every vault whose `uni_nft_id` is that key (`_get_effective_collateral_in_eth`) -/
def Uni.countedTimes (ps : List Pos) (vaults : AList Nat Squeeth.Vault) (lo up : Int) : Nat :=
  (match findPos ps lo up with
   | some p => if p.transferred then 0 else 1
   | none => 0) + (vaults.filter (fun kv => kv.2.nft == some (lo, up))).length

/-- the full statement (what the property demands of EVERY operation list of the pool's public interface) -/
def Uni.OnceUnderAllPoolOps : Prop :=
  ∀ (K : Kern) (pool : Pool) (minError : Rat) (u : Uni.State) (ops : List Op) (sq : Squeeth.State),
    Squeeth.Once sq → sq.positions = toSq u.positions →
    Squeeth.Once { sq with positions := toSq (runOps K pool minError u ops).positions }

namespace Uni
/-- the Squeeth side of `c01State`: vault 1 holds the lent position (0, 10) -/
def c01Sq : Squeeth.State :=
  { wallet := [], vaults := [(1, { coll := 1, short := 0, nft := some (0, 10) })], maxId := 1,
    positions := toSq c01State.positions, log := [] }

theorem c01Sq_once : Squeeth.Once c01Sq := by
  have hv : ∀ vk v, AList.get? c01Sq.vaults vk = some v → vk = 1 ∧ v.nft = some (0, 10) := by
    intro vk v h
    simp only [c01Sq, Squeeth.get?_cons, Squeeth.get?_nil] at h
    split_ifs at h with hk
    cases h
    exact ⟨hk.symm, rfl⟩
  constructor
  · intro vk v pos hg hn
    obtain ⟨_, h2⟩ := hv vk v hg
    rw [h2] at hn; cases hn
    exact ⟨{ liquidity := 7, pending0 := (default : Pos).pending0, pending1 := (default : Pos).pending1, transferred := true },
      by decide, rfl⟩
  · intro pos p hg ht
    simp only [c01Sq, toSq, c01State, List.map_cons, List.map_nil, Squeeth.get?_cons, Squeeth.get?_nil] at hg
    split_ifs at hg with h1 h2
    · cases hg
      exact ⟨1, { coll := 1, short := 0, nft := some (0, 10) }, by decide, by rw [← h1]⟩
    · cases hg; cases ht
  · intro vk vk' v v' pos hg hg' _ _
    rw [(hv vk v hg).1, (hv vk' v' hg').1]
  · intro vk v hg
    rw [(hv vk v hg).1]; decide
end Uni

/-- **C01 fails for direct calls of the hand-over methods** (kernel-checked).  On the state `Uni.c01State` (a lent position (0,10) held by
    vault 1, a free position (10,20)), where every position is counted exactly once:
    `transfer_position_out(10, 20)` is accepted and leaves the free position counted 0 times,
    `transfer_position_in(0, 10)` is accepted and leaves the lent position counted twice;
    the wallet and every other field are untouched (`C01_uni_transfer_flag_only`), so the account's net value loses resp. gains the
    position's value out of nothing. -/
theorem C01_fails_direct_transfer :
    (countedTimes c01State.positions c01Sq.vaults 0 10 = 1 ∧ countedTimes c01State.positions c01Sq.vaults 10 20 = 1) ∧
    ((transferOut c01State 10 20).1 = .ok [] ∧ countedTimes (transferOut c01State 10 20).2.positions c01Sq.vaults 10 20 = 0) ∧
    ((transferIn c01State 0 10).1 = .ok [] ∧ countedTimes (transferIn c01State 0 10).2.positions c01Sq.vaults 0 10 = 2) ∧
    ¬ OnceUnderAllPoolOps := by
  refine ⟨by decide, by decide, by decide, ?_⟩
  intro hall
  have h := hall c01Kern c01Pool 0 c01State [.transferOut 10 20] c01Sq c01Sq_once rfl
  obtain ⟨vk, v, hg, hn⟩ := h.lent_ref (10, 20)
    { liquidity := 4, pending0 := (default : Pos).pending0, pending1 := (default : Pos).pending1, transferred := true } (by decide) rfl
  simp only [c01Sq, Squeeth.get?_cons, Squeeth.get?_nil] at hg
  split_ifs at hg
  cases hg
  cases hn

/-- the same refutation through `transfer_position_in`: afterwards vault 1 references a position the pool counts as well -/
theorem C01_fails_direct_transfer_in :
    ¬ Squeeth.Once { c01Sq with positions := toSq (runOps c01Kern c01Pool 0 c01State [.transferIn 0 10]).positions } := by
  intro h
  obtain ⟨p, hp, ht⟩ := h.ref_lent 1 { coll := 1, short := 0, nft := some (0, 10) } (0, 10) (by decide) rfl
  have : p.transferred = false := by
    have hp' : AList.get? (toSq (runOps c01Kern c01Pool 0 c01State [.transferIn 0 10]).positions) ((0, 10) : Squeeth.PosKey) =
        some { liquidity := 7, pending0 := (default : Pos).pending0, pending1 := (default : Pos).pending1, transferred := false } := by decide
    rw [show ({ c01Sq with positions := toSq (runOps c01Kern c01Pool 0 c01State [.transferIn 0 10]).positions } : Squeeth.State).positions =
      toSq (runOps c01Kern c01Pool 0 c01State [.transferIn 0 10]).positions from rfl, hp'] at hp
    cases hp; rfl
  rw [this] at ht; cases ht

/-- **counted exactly once, as a number** (the positive statement the `_partial` theorems give): under `Once`, with the Squeeth side
    holding the pool's positions and vault keys distinct, every position of the pool is counted exactly once — by the pool if it is free,
    by exactly one vault if it is lent -/
theorem C01_uni_counted_exactly_once (u : Uni.State) (sq : Squeeth.State) (h : Squeeth.Once sq) (hpos : sq.positions = toSq u.positions)
    (hnd : (sq.vaults.map (·.1)).Nodup) (lo up : Int) (p : Pos) (hp : findPos u.positions lo up = some p) :
    countedTimes u.positions sq.vaults lo up = 1 := by
  have hget : ∀ kv ∈ sq.vaults, AList.get? sq.vaults kv.1 = some kv.2 := by
    intro kv hkv
    have : ∀ (l : AList Nat Squeeth.Vault), (l.map (·.1)).Nodup → kv ∈ l → AList.get? l kv.1 = some kv.2 := by
      intro l
      induction l with
      | nil => intro _ hm; cases hm
      | cons a l ih =>
        intro hn hm
        rw [Squeeth.get?_cons]
        simp only [List.map_cons, List.nodup_cons] at hn
        rcases List.mem_cons.mp hm with rfl | hm'
        · simp
        · have hne : a.1 ≠ kv.1 := fun e => hn.1 (by rw [e]; exact List.mem_map_of_mem hm')
          simp only [hne, if_false]
          exact ih hn.2 hm'
    exact this sq.vaults hnd hkv
  have hlent : Uni.sqLent sq.positions (lo, up) = p.transferred := by
    rw [hpos, Uni.sqLent_toSq]; exact isTransferred_of_find hp
  unfold countedTimes
  rw [hp]
  by_cases ht : p.transferred = true
  · -- lent: exactly one vault references it
    simp only [ht, if_true, Nat.zero_add]
    have hex : ∃ q, AList.get? sq.positions (lo, up) = some q ∧ q.transferred = true := by
      unfold Uni.sqLent at hlent
      cases hg : AList.get? sq.positions (lo, up) with
      | none => rw [hg, ht] at hlent; cases hlent
      | some q => rw [hg, ht] at hlent; exact ⟨q, rfl, hlent⟩
    obtain ⟨q, hq, hqt⟩ := hex
    obtain ⟨vk, v, hv, hn⟩ := h.lent_ref (lo, up) q hq hqt
    -- the filtered list has pairwise equal keys and no duplicate keys, and contains (vk, v)
    have hmem : (vk, v) ∈ sq.vaults := by
      unfold AList.get? at hv
      obtain ⟨a, ha, ha2⟩ := Option.map_eq_some_iff.mp hv
      have h1 := List.find?_some ha
      have h2 := List.mem_of_find?_eq_some ha
      have : a = (vk, v) := Prod.ext (by simpa using h1) ha2
      rw [← this]; exact h2
    have key : ∀ (l : AList Nat Squeeth.Vault), (l.map (·.1)).Nodup → (∀ kv ∈ l, kv.2.nft = some (lo, up) → kv.1 = vk) → (vk, v) ∈ l →
        (l.filter (fun kv => kv.2.nft == some (lo, up))).length = 1 := by
      intro l
      induction l with
      | nil => intro _ _ hm; cases hm
      | cons a l ih =>
        intro hnd' hall hm
        simp only [List.map_cons, List.nodup_cons] at hnd'
        rcases List.mem_cons.mp hm with rfl | hm'
        · have hrest : l.filter (fun kv => kv.2.nft == some (lo, up)) = [] := by
            rw [List.filter_eq_nil_iff]
            intro kv hkv hc
            have hk := hall kv (List.mem_cons_of_mem _ hkv) (by simpa using hc)
            have hh : kv.1 ∈ l.map (·.1) := List.mem_map_of_mem hkv
            rw [hk] at hh
            exact hnd'.1 hh
          simp [hn, hrest]
        · have hne : ¬ (a.2.nft = some (lo, up)) := by
            intro hc
            have hk := hall a (List.mem_cons_self ..) hc
            have hh : (vk, v).1 ∈ l.map (·.1) := List.mem_map_of_mem hm'
            exact hnd'.1 (by rw [hk]; exact hh)
          have : (a.2.nft == some (lo, up)) = false := by simpa using hne
          rw [List.filter_cons, this]
          exact ih hnd'.2 (fun kv hkv => hall kv (List.mem_cons_of_mem _ hkv)) hm'
    exact key sq.vaults hnd (fun kv hkv hnft => h.inj kv.1 vk kv.2 v (lo, up) (hget kv hkv) hv hnft hn) hmem
  · -- free: no vault references it
    have hf : p.transferred = false := by simpa using ht
    simp only [hf, Bool.false_eq_true, if_false]
    have : sq.vaults.filter (fun kv => kv.2.nft == some (lo, up)) = [] := by
      rw [List.filter_eq_nil_iff]
      intro kv hkv hc
      obtain ⟨q, hq, hqt⟩ := h.ref_lent kv.1 kv.2 (lo, up) (hget kv hkv) (by simpa using hc)
      simp only [Uni.sqLent, hq] at hlent
      rw [hqt, hf] at hlent
      cases hlent
    rw [this]; rfl

/-- non-vacuity: the hypotheses hold on `c01State` / `c01Sq` -/
example : (c01Sq.vaults.map (·.1)).Nodup ∧ findPos c01State.positions 0 10 ≠ none ∧ c01Sq.positions = toSq c01State.positions :=
  ⟨by decide, by decide, rfl⟩

end Demeter
