/-
  C01, Uniswap part — `UniLpMarket.get_market_balance` = an independent valuation of the raw positions:
  the sum, over the positions that are not transferred out, of (liquidity amounts at the bar's price + uncollected
  amounts), base side valued at the bar's price.  Each such position enters exactly once.
  Arithmetic statements are for the exact context.
-/
import Demeter.Uni.Views
import Proofs.Lemmas.Exact
import Mathlib.Tactic.Linarith
import Mathlib.Tactic.Ring
namespace Demeter.Uni
open Demeter

/-- the plain sum over the positions that are not transferred out: each of them once -/
def sumOver (f : Pos → Rat) : List Pos → Rat
  | [] => 0
  | p :: ps => (if p.transferred then 0 else f p) + sumOver f ps

/-- value in quote token of a position: (uncollected + liquidity amounts), base side at `price` -/
def posValue (pool : Pool) (price : Rat) (amt : Pos → Rat × Rat) (p : Pos) : Rat :=
  (pool.conv (p.pending0 + (amt p).1) (p.pending1 + (amt p).2)).1 * price +
  (pool.conv (p.pending0 + (amt p).1) (p.pending1 + (amt p).2)).2

theorem conv_fst_add (pool : Pool) (a b c d : Rat) : (pool.conv (a + b) (c + d)).1 = (pool.conv a c).1 + (pool.conv b d).1 := by
  unfold Pool.conv; cases pool.q0 <;> rfl
theorem conv_snd_add (pool : Pool) (a b c d : Rat) : (pool.conv (a + b) (c + d)).2 = (pool.conv a c).2 + (pool.conv b d).2 := by
  unfold Pool.conv; cases pool.q0 <;> rfl

/-- the accumulation loop adds, to each of its four accumulators, the plain sum over the non-transferred positions -/
theorem balanceLoop_exact (K : Kern) (hK : K.cx = NumCtx.exact) (pool : Pool) (sqrt : Nat) (amt : Pos → Rat × Rat) :
    ∀ (ps : List Pos) (bf qf d0 d1 : Rat),
      (∀ p ∈ ps, p.transferred = false → K.amounts pool sqrt p.lower p.upper p.liq p.liqDec = .ok (amt p)) →
      balanceLoop K pool sqrt ps (bf, qf, d0, d1) =
        .ok (bf + sumOver (fun p => (pool.conv p.pending0 p.pending1).1) ps,
             qf + sumOver (fun p => (pool.conv p.pending0 p.pending1).2) ps,
             d0 + sumOver (fun p => (amt p).1) ps, d1 + sumOver (fun p => (amt p).2) ps)
  | [], bf, qf, d0, d1, _ => by simp [balanceLoop, sumOver]
  | p :: ps, bf, qf, d0, d1, h => by
    unfold balanceLoop
    by_cases ht : p.transferred = true
    · rw [if_pos ht]
      rw [balanceLoop_exact K hK pool sqrt amt ps bf qf d0 d1 (fun q hq => h q (List.mem_cons_of_mem _ hq))]
      simp [sumOver, ht]
    · have ht' : p.transferred = false := by simpa using ht
      rw [if_neg ht]
      simp only [h p (List.mem_cons_self ..) ht', hK, NumCtx.exact_add]
      rw [balanceLoop_exact K hK pool sqrt amt ps _ _ _ _ (fun q hq => h q (List.mem_cons_of_mem _ hq))]
      simp only [sumOver, ht', Bool.false_eq_true, if_false]
      congr 1
      ext <;> simp <;> ring

theorem sumOver_add (f g : Pos → Rat) (ps : List Pos) : sumOver (fun p => f p + g p) ps = sumOver f ps + sumOver g ps := by
  induction ps with
  | nil => simp [sumOver]
  | cons p ps ih => simp only [sumOver, ih]; split <;> ring

theorem sumOver_mul (f : Pos → Rat) (c : Rat) (ps : List Pos) : sumOver (fun p => f p * c) ps = sumOver f ps * c := by
  induction ps with
  | nil => simp [sumOver]
  | cons p ps ih => simp only [sumOver, ih]; split <;> ring

theorem sumOver_posValue (pool : Pool) (price : Rat) (amt : Pos → Rat × Rat) (ps : List Pos) :
    sumOver (posValue pool price amt) ps =
      (sumOver (fun p => (pool.conv p.pending0 p.pending1).1) ps + sumOver (fun p => (pool.conv (amt p).1 (amt p).2).1) ps) * price +
      (sumOver (fun p => (pool.conv p.pending0 p.pending1).2) ps + sumOver (fun p => (pool.conv (amt p).1 (amt p).2).2) ps) := by
  induction ps with
  | nil => simp [sumOver]
  | cons p ps ih =>
    simp only [sumOver, ih]
    split
    · ring
    · simp only [posValue, conv_fst_add, conv_snd_add]; ring

end Demeter.Uni

namespace Demeter
open Demeter.Uni

/-- **Reported value = independent valuation.** Whenever `get_market_balance` returns, its net value is the plain
    sum, over the positions that are not transferred out, of each position's value (uncollected amounts plus the
    token amounts of its liquidity at the bar's price, base side valued at the bar's price) — every such position
    exactly once, transferred positions not at all; the reported parts (base/quote in positions, base/quote
    uncollected) are the corresponding plain sums and the position count is the number of non-transferred
    positions. For every kernel; arithmetic exact. -/
theorem C01_uni_balance_eq_spec (K : Kern) (hK : K.cx = NumCtx.exact) (pool : Pool) (s : State) (row : Row) (sqrt : Nat)
    (amt : Pos → Rat × Rat) (hrow : s.row = some row) (hsqrt : K.priceToSqrt pool row.price = .ok sqrt)
    (hamt : ∀ p ∈ s.positions, p.transferred = false → K.amounts pool sqrt p.lower p.upper p.liq p.liqDec = .ok (amt p)) :
    ∃ b, getMarketBalance K pool s = .ok b ∧
      b.netValue = sumOver (posValue pool row.price amt) s.positions ∧
      b.baseUncollected = sumOver (fun p => (pool.conv p.pending0 p.pending1).1) s.positions ∧
      b.quoteUncollected = sumOver (fun p => (pool.conv p.pending0 p.pending1).2) s.positions ∧
      b.baseInPosition = sumOver (fun p => (pool.conv (amt p).1 (amt p).2).1) s.positions ∧
      b.quoteInPosition = sumOver (fun p => (pool.conv (amt p).1 (amt p).2).2) s.positions ∧
      b.positionCount = (s.positions.filter (fun p => !p.transferred)).length := by
  have hloop := balanceLoop_exact K hK pool sqrt amt s.positions 0 0 0 0 hamt
  unfold getMarketBalance
  simp only [priceOf, hrow, hsqrt, hloop, hK, NumCtx.exact_add, NumCtx.exact_mul, zero_add, mul_one]
  refine ⟨_, rfl, ?_, rfl, rfl, ?_, ?_, rfl⟩
  · -- net value
    rw [sumOver_posValue]
    have h1 : (pool.conv (sumOver (fun p => (amt p).1) s.positions) (sumOver (fun p => (amt p).2) s.positions)).1 =
        sumOver (fun p => (pool.conv (amt p).1 (amt p).2).1) s.positions := by
      unfold Pool.conv; cases pool.q0 <;> rfl
    have h2 : (pool.conv (sumOver (fun p => (amt p).1) s.positions) (sumOver (fun p => (amt p).2) s.positions)).2 =
        sumOver (fun p => (pool.conv (amt p).1 (amt p).2).2) s.positions := by
      unfold Pool.conv; cases pool.q0 <;> rfl
    rw [h1, h2]; ring
  · unfold Pool.conv; cases pool.q0 <;> rfl
  · unfold Pool.conv; cases pool.q0 <;> rfl

/-- **Transferred positions are skipped, everything else is not**: the valuation sum does not change when a
    transferred position is removed from (or added to) the list, and it changes by exactly the position's value when
    a non-transferred one is. -/
theorem C01_uni_transferred_skipped (f : Pos → Rat) (ps qs : List Pos) (p : Pos) :
    sumOver f (ps ++ p :: qs) = sumOver f (ps ++ qs) + (if p.transferred then 0 else f p) := by
  induction ps with
  | nil => simp only [List.nil_append, sumOver]; ring
  | cons q ps ih => simp only [List.cons_append, sumOver, ih]; ring

/-- lending a position out removes exactly its value from the market's balance, taking it back restores it
    (`transfer_position_out` / `_in` change nothing but the flag) -/
theorem C01_uni_transfer_flag_only (s : State) (lo up : Int) (s' : State)
    (h : transferOut s lo up = (.ok [], s') ∨ transferIn s lo up = (.ok [], s')) :
    s'.wallet = s.wallet ∧ s'.positions.length = s.positions.length ∧
    s'.positions.map (fun p => (p.lower, p.upper, p.liq, p.pending0, p.pending1)) =
      s.positions.map (fun p => (p.lower, p.upper, p.liq, p.pending0, p.pending1)) := by
  have key : ∀ (b : Bool), (mapPos s.positions lo up (fun p => { p with transferred := b })).map
      (fun p => (p.lower, p.upper, p.liq, p.pending0, p.pending1)) =
      s.positions.map (fun p => (p.lower, p.upper, p.liq, p.pending0, p.pending1)) := by
    intro b
    unfold mapPos
    induction s.positions with
    | nil => rfl
    | cons q qs ih => simp only [List.map_cons, ih]; split <;> rfl
  rcases h with h | h
  · unfold transferOut at h
    split at h
    · split at h
      · injection h with _ h2; subst h2
        exact ⟨rfl, by simp [mapPos], key true⟩
      · simp [fail] at h
    · simp [fail] at h
  · unfold transferIn at h
    split at h
    · split at h
      · injection h with _ h2; subst h2
        exact ⟨rfl, by simp [mapPos], key false⟩
      · simp [fail] at h
    · simp [fail] at h

/-- non-vacuity: two positions, one lent out; only the other is valued -/
example : sumOver (fun p => (p.liq : Rat)) [{ (default : Pos) with liq := 5 }, { (default : Pos) with liq := 7, transferred := true }] = 5 := by
  simp [sumOver]; rfl

end Demeter
