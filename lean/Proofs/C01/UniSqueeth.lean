/-
  C01, composition of the Uniswap part with the Squeeth part.

  `Proofs/C01/Squeeth.lean` proves "every LP position is counted exactly once" (`Once`) for the Squeeth model and
  leaves the pool's own operations as a hypothesis (`C01_squeeth_pool_side_changes`: a pool-side change that never
  raises a `transferred` flag keeps the invariant).  This file discharges that hypothesis for the model of
  `UniLpMarket` (`Demeter.Uni`): every operation of the pool's public interface other than
  `transfer_position_out` / `transfer_position_in` — accepted or rejected, for every kernel and arithmetic context,
  including the multi-transaction helpers — leaves the `transferred` flag under every key as it was, never creates a
  flagged position and never deletes one; `remove_liquidity` / `collect_fee` on a lent position are rejected with the
  state intact (the guards of ce449ad).
-/
import Proofs.C01.UniLent
import Proofs.C01.Squeeth
namespace Demeter.Uni
open Demeter

/-- the lent flag of a Squeeth-side positions container, as the pool model reads it -/
def sqLent (ps : AList Squeeth.PosKey Squeeth.UPos) (k : Squeeth.PosKey) : Bool :=
  match AList.get? ps k with
  | some p => p.transferred
  | none => false

/-- `Once` only depends on the positions through which keys are flagged as lent -/
theorem once_of_lent_eq {s s' : Squeeth.State} (h : Squeeth.Once s) (hv : s'.vaults = s.vaults) (hm : s'.maxId = s.maxId)
    (hl : ∀ k, sqLent s'.positions k = sqLent s.positions k) : Squeeth.Once s' := by
  have toNew : ∀ k p, AList.get? s.positions k = some p → p.transferred = true →
      ∃ p', AList.get? s'.positions k = some p' ∧ p'.transferred = true := by
    intro k p hp ht
    have h1 : sqLent s.positions k = true := by unfold sqLent; rw [hp]; exact ht
    rw [← hl k] at h1
    unfold sqLent at h1
    cases hg : AList.get? s'.positions k with
    | none => rw [hg] at h1; cases h1
    | some p' => rw [hg] at h1; exact ⟨p', rfl, h1⟩
  have toOld : ∀ k p', AList.get? s'.positions k = some p' → p'.transferred = true →
      ∃ p, AList.get? s.positions k = some p ∧ p.transferred = true := by
    intro k p' hp ht
    have h1 : sqLent s'.positions k = true := by unfold sqLent; rw [hp]; exact ht
    rw [hl k] at h1
    unfold sqLent at h1
    cases hg : AList.get? s.positions k with
    | none => rw [hg] at h1; cases h1
    | some p => rw [hg] at h1; exact ⟨p, rfl, h1⟩
  constructor
  · intro vk v pos hg hn
    rw [hv] at hg
    obtain ⟨p, hp, ht⟩ := h.ref_lent vk v pos hg hn
    exact toNew pos p hp ht
  · intro pos p' hp ht
    obtain ⟨p, hp0, ht0⟩ := toOld pos p' hp ht
    rw [hv]
    exact h.lent_ref pos p hp0 ht0
  · intro vk vk' v v' pos hg hg'
    rw [hv] at hg hg'
    exact h.inj vk vk' v v' pos hg hg'
  · intro vk v hg
    rw [hv] at hg; rw [hm]
    exact h.kbound vk v hg

end Demeter.Uni

namespace Demeter
open Demeter.Uni

/-- the pool's positions as the Squeeth model holds them (`Demeter.Squeeth.State.positions`) -/
def Uni.toSq (ps : List Pos) : AList Squeeth.PosKey Squeeth.UPos :=
  ps.map (fun p => ((p.lower, p.upper),
    { liquidity := p.liq.toNat, pending0 := p.pending0, pending1 := p.pending1, transferred := p.transferred }))

theorem Uni.sqLent_toSq (ps : List Pos) (k : Squeeth.PosKey) : sqLent (toSq ps) k = isTransferred ps k.1 k.2 := by
  unfold sqLent isTransferred toSq
  induction ps with
  | nil => rfl
  | cons q qs ih =>
    rw [List.map_cons, Squeeth.get?_cons, findPos_cons]
    by_cases hq : q.hasKey k.1 k.2 = true
    · have hk : (q.lower, q.upper) = k := by
        unfold Pos.hasKey at hq
        simp only [Bool.and_eq_true, beq_iff_eq] at hq
        exact Prod.ext hq.1 hq.2
      simp only [hk, hq, if_true]
    · have hk : ¬ ((q.lower, q.upper) = k) := by
        intro e; apply hq
        unfold Pos.hasKey; rw [← e]; simp
      simp only [hk, hq, if_false, Bool.false_eq_true]
      exact ih

/-- **Composition with the Squeeth part: the hypothesis of `C01_squeeth_pool_side_changes`, discharged.**
    PARTIAL (`hops`): operation lists that contain a direct `transfer_position_out` / `transfer_position_in` are excluded, and for those
    the statement is false (`C01_fails_direct_transfer`, Proofs/C01/UniTransfer.lean; known finding `uni.direct-transfer.*`).  Let a
    Squeeth-side state satisfy `Once` (every LP position counted exactly once) and agree with a pool state on which
    keys are lent. After any list of pool operations other than the two transfers — which the Squeeth market itself
    performs and accounts for —, any Squeeth-side state with the same vaults and id counter that agrees with the new
    pool state on the lent keys satisfies `Once` again. -/
theorem C01_uni_squeeth_once_preserved_partial (K : Kern) (pool : Pool) (minError : Rat) (u : Uni.State) (ops : List Op)
    (hops : ∀ op ∈ ops, op.isTransfer = false) (sq sq' : Squeeth.State) (h : Squeeth.Once sq)
    (hagree : ∀ k, sqLent sq.positions k = isTransferred u.positions k.1 k.2)
    (hagree' : ∀ k, sqLent sq'.positions k = isTransferred (runOps K pool minError u ops).positions k.1 k.2)
    (hv : sq'.vaults = sq.vaults) (hm : sq'.maxId = sq.maxId) : Squeeth.Once sq' :=
  once_of_lent_eq h hv hm (fun k => by
    rw [hagree' k, hagree k]; exact C01_uni_ops_keep_lent_positions K pool minError u ops hops k.1 k.2)

/-- … in particular for the Squeeth state that carries the pool's positions themselves -/
theorem C01_uni_squeeth_once_projected_partial (K : Kern) (pool : Pool) (minError : Rat) (u : Uni.State) (ops : List Op)
    (hops : ∀ op ∈ ops, op.isTransfer = false) (sq : Squeeth.State) (h : Squeeth.Once sq)
    (hpos : sq.positions = toSq u.positions) :
    Squeeth.Once { sq with positions := toSq (runOps K pool minError u ops).positions } :=
  C01_uni_squeeth_once_preserved_partial K pool minError u ops hops sq _ h
    (fun k => by rw [hpos]; exact sqLent_toSq _ k) (fun k => sqLent_toSq _ k) rfl rfl

/-! ### non-vacuity: a pool with a lent and a free position; operations that touch both keys -/
namespace Uni
def c01Pool : Pool := { tok0 := "a", tok1 := "b", d0 := 6, d1 := 18, feeRate := 3 / 1000, spacing := 10, q0 := true, decFac := 1 }
def c01Kern : Kern :=
  { cx := NumCtx.exact
    priceToSqrt := fun _ _ => .ok 5
    sqrtToPrice := fun _ _ => .ok 1
    tickToPrice := fun _ _ => .ok 1
    newPos := fun _ _ _ _ a0 a1 => .ok (a0, a1, 3)
    amounts := fun _ _ _ _ l _ => .ok ((l : Rat), (l : Rat))
    tickToSqrt := fun _ => .ok 5 }
def c01State : State :=
  { positions := [{ (default : Pos) with lower := 0, upper := 10, liq := 7, transferred := true },
                  { (default : Pos) with lower := 10, upper := 20, liq := 4 }], lastTick := none,
    row := some { closeTick := 0, curLiq := 1000, in0 := 0, in1 := 0, price := 2 }, ts := none, isOpen := true,
    hasUpdate := false, wallet := [("a", 10), ("b", 10)], allowNeg := false, actions := [] }
def c01Ops : List Op :=
  [.remove 0 10 none true none true, .collect 0 10 none none true true, .addRaw 1 1 0 10 none, .addRaw 1 1 20 30 none,
   .remove 10 20 none true none true, .removeAll, .swap 1 "a" "b" none true]
end Uni

example : (∀ op ∈ c01Ops, op.isTransfer = false) ∧
    (runOps c01Kern c01Pool 0 c01State c01Ops).positions.map (fun p => (p.lower, p.upper, p.liq, p.transferred)) =
      [(0, 10, 10, true)] ∧ (runOps c01Kern c01Pool 0 c01State c01Ops).wallet = [("a", 14), ("b", 30997 / 2000)] := by
  decide +kernel

end Demeter
