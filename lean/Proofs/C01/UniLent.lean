/-
  C01, Uniswap part — lent positions.  Every operation of `UniLpMarket`'s public interface other than
  `transfer_position_out` / `transfer_position_in` — accepted or rejected, for every kernel and arithmetic context,
  including the multi-transaction helpers — leaves the `transferred` flag under every key as it was, never creates a
  flagged position and never deletes one; `remove_liquidity` / `collect_fee` on a lent position are rejected with the
  state intact (the guards of ce449ad).  `Proofs/C01/UniSqueeth.lean` composes this with the Squeeth part.
-/
import Proofs.Lemmas.UniStepRelG
namespace Demeter.Uni
open Demeter

/-! ### lookups after the list operations of the model -/

theorem hasKey_other {q : Pos} {lo up lo' up' : Int} (h : q.hasKey lo up = true) (hne : ¬ (lo' = lo ∧ up' = up)) :
    q.hasKey lo' up' = false := by
  unfold Pos.hasKey at *
  simp only [Bool.and_eq_true, beq_iff_eq] at h
  obtain ⟨h1, h2⟩ := h
  rw [h1, h2]
  by_cases e1 : lo = lo'
  · by_cases e2 : up = up'
    · exact absurd ⟨e1.symm, e2.symm⟩ hne
    · simp [e2]
  · simp [e1]

theorem findPos_cons (q : Pos) (ps : List Pos) (lo up : Int) :
    findPos (q :: ps) lo up = if q.hasKey lo up then some q else findPos ps lo up := by
  unfold findPos; rw [List.find?_cons]; cases q.hasKey lo up <;> rfl

theorem findPos_mapPos_other (ps : List Pos) (lo up : Int) (f : Pos → Pos) (lo' up' : Int)
    (hne : ¬ (lo' = lo ∧ up' = up)) (hf : ∀ q, q.hasKey lo up = true → (f q).hasKey lo up = true) :
    findPos (mapPos ps lo up f) lo' up' = findPos ps lo' up' := by
  induction ps with
  | nil => rfl
  | cons q qs ih =>
    have e : mapPos (q :: qs) lo up f = (if q.hasKey lo up then f q else q) :: mapPos qs lo up f := rfl
    rw [e, findPos_cons, findPos_cons, ih]
    by_cases hq : q.hasKey lo up = true
    · simp only [hq, if_true, hasKey_other (hf q hq) hne, hasKey_other hq hne, Bool.false_eq_true, if_false]
    · simp only [hq, Bool.false_eq_true, if_false]

theorem findPos_mapPos_self (ps : List Pos) (lo up : Int) (f : Pos → Pos)
    (hf : ∀ q, q.hasKey lo up = true → (f q).hasKey lo up = true) :
    findPos (mapPos ps lo up f) lo up = (findPos ps lo up).map f := by
  induction ps with
  | nil => rfl
  | cons q qs ih =>
    have e : mapPos (q :: qs) lo up f = (if q.hasKey lo up then f q else q) :: mapPos qs lo up f := rfl
    rw [e, findPos_cons, findPos_cons, ih]
    by_cases hq : q.hasKey lo up = true
    · simp only [hq, if_true, hf q hq, Option.map_some]
    · simp only [hq, Bool.false_eq_true, if_false]

theorem findPos_erasePos_other (ps : List Pos) (lo up lo' up' : Int) (hne : ¬ (lo' = lo ∧ up' = up)) :
    findPos (erasePos ps lo up) lo' up' = findPos ps lo' up' := by
  induction ps with
  | nil => rfl
  | cons q qs ih =>
    unfold erasePos at ih ⊢
    rw [List.filter_cons]
    by_cases hq : q.hasKey lo up = true
    · simp only [hq, Bool.not_true, Bool.false_eq_true, if_false, findPos_cons, hasKey_other hq hne, ih]
    · simp only [hq, Bool.not_false, if_true, findPos_cons, ih]

theorem findPos_erasePos_self (ps : List Pos) (lo up : Int) : findPos (erasePos ps lo up) lo up = none := by
  unfold findPos erasePos
  rw [List.find?_eq_none]
  intro q hq
  have := (List.mem_filter.mp hq).2
  simpa using this

theorem findPos_append_one (ps : List Pos) (p : Pos) (lo up : Int) :
    findPos (ps ++ [p]) lo up = match findPos ps lo up with
      | some q => some q
      | none => if p.hasKey lo up then some p else none := by
  induction ps with
  | nil => simp [findPos]
  | cons q qs ih =>
    rw [List.cons_append, findPos_cons, findPos_cons, ih]
    by_cases hq : q.hasKey lo up = true
    · simp only [hq, if_true]
    · simp only [hq, Bool.false_eq_true, if_false]

/-- the `transferred` flag under every key is what it was -/
def LentSame (s s' : State) : Prop :=
  ∀ lo up, isTransferred s'.positions lo up = isTransferred s.positions lo up

theorem lentSame_of_positions {s s' : State} (h : s'.positions = s.positions) : LentSame s s' := by
  intro lo up; rw [h]

/-- replacing the entry under a key by one that carries the same flag -/
theorem isTransferred_mapPos_const (ps : List Pos) (lo up : Int) (p p' : Pos) (hfind : findPos ps lo up = some p)
    (hk : p'.hasKey lo up = true) (hfl : p'.transferred = p.transferred) (lo' up' : Int) :
    isTransferred (mapPos ps lo up (fun _ => p')) lo' up' = isTransferred ps lo' up' := by
  unfold isTransferred
  by_cases hne : lo' = lo ∧ up' = up
  · obtain ⟨e1, e2⟩ := hne; subst e1; subst e2
    rw [findPos_mapPos_self _ _ _ _ (fun _ _ => hk), hfind]
    simp only [Option.map_some, hfl]
  · rw [findPos_mapPos_other _ _ _ _ _ _ hne (fun _ _ => hk)]

theorem isTransferred_mapPos_field (ps : List Pos) (lo up : Int) (f : Pos → Pos)
    (hk : ∀ q, q.hasKey lo up = true → (f q).hasKey lo up = true) (hfl : ∀ q, (f q).transferred = q.transferred)
    (lo' up' : Int) : isTransferred (mapPos ps lo up f) lo' up' = isTransferred ps lo' up' := by
  unfold isTransferred
  by_cases hne : lo' = lo ∧ up' = up
  · obtain ⟨e1, e2⟩ := hne; subst e1; subst e2
    rw [findPos_mapPos_self _ _ _ _ hk]
    cases findPos ps lo' up' with
    | none => rfl
    | some q => simp only [Option.map_some, hfl]
  · rw [findPos_mapPos_other _ _ _ _ _ _ hne hk]

/-- deleting a free position -/
theorem isTransferred_erasePos (ps : List Pos) (lo up : Int) (hfree : isTransferred ps lo up = false) (lo' up' : Int) :
    isTransferred (erasePos ps lo up) lo' up' = isTransferred ps lo' up' := by
  by_cases hne : lo' = lo ∧ up' = up
  · obtain ⟨e1, e2⟩ := hne; subst e1; subst e2
    rw [hfree]; unfold isTransferred; rw [findPos_erasePos_self]
  · unfold isTransferred; rw [findPos_erasePos_other _ _ _ _ _ hne]

theorem isTransferred_of_find {ps : List Pos} {lo up : Int} {p : Pos} (h : findPos ps lo up = some p) :
    isTransferred ps lo up = p.transferred := by
  unfold isTransferred; rw [h]

theorem hasKey_of_find {ps : List Pos} {lo up : Int} {p : Pos} (h : findPos ps lo up = some p) : p.hasKey lo up = true := by
  unfold findPos at h
  have := List.find?_some h
  simpa using this

/-! ### the primitive transactions -/

theorem addToPositions_lentSame {K : Kern} {pool : Pool} {s : State} {lo up liq : Int} {sqrt : Nat} {ent : Option Pos}
    (hent : newEntity K pool s lo up liq sqrt = .ok ent) (lo' up' : Int) :
    isTransferred (addToPositions s.positions lo up liq ent) lo' up' = isTransferred s.positions lo' up' := by
  unfold newEntity at hent
  cases hf : findPos s.positions lo up with
  | some p0 =>
    rw [hf] at hent
    injection hent with hent; subst hent
    exact isTransferred_mapPos_field s.positions lo up (fun p => { p with liq := p.liq + liq }) (fun _ h => h)
      (fun _ => rfl) lo' up'
  | none =>
    rw [hf] at hent
    simp only [] at hent
    split at hent
    · injection hent with hent; subst hent
      unfold addToPositions isTransferred
      rw [findPos_append_one]
      cases hf' : findPos s.positions lo' up' with
      | some q => rfl
      | none =>
        simp only []
        rename_i lp1 up1 ip1 _ _ _
        by_cases hk : (if pool.q0 = true then mkPos lo up liq up1 lp1 ip1 else mkPos lo up liq lp1 up1 ip1).hasKey lo' up' = true
        · simp only [hk, if_true]; split <;> rfl
        · simp only [hk, Bool.false_eq_true, if_false]
    · cases hent
    · cases hent
    · cases hent

theorem addRaw_lentSame (K : Kern) (pool : Pool) (s : State) (a0 a1 : Rat) (lo up : Int) (sq : Option Nat) :
    LentSame s (addRaw K pool s a0 a1 lo up sq).2 := by
  unfold addRaw
  repeat' split
  all_goals first
    | exact fun _ _ => rfl
    | skip
  rename_i ent hent _ _ _
  exact fun lo' up' => addToPositions_lentSame hent lo' up'

theorem collect_lentSame (K : Kern) (pool : Pool) (s : State) (lo up : Int) (m0 m1 : Option Rat) (rd tu : Bool) :
    LentSame s (collect K pool s lo up m0 m1 rd tu).2 := by
  unfold collect
  split
  · exact fun _ _ => rfl
  · split
    · exact fun _ _ => rfl
    · rename_i p hf
      have hk := hasKey_of_find hf
      split
      · exact fun _ _ => rfl
      · rename_i hfree
        have hfree' : p.transferred = false := by simpa using hfree
        have hmap : ∀ lo' up', isTransferred (mapPos s.positions lo up
            (fun _ => collectPos K.cx p (capAt m0 p.pending0) (capAt m1 p.pending1))) lo' up' =
            isTransferred s.positions lo' up' :=
          fun lo' up' => isTransferred_mapPos_const s.positions lo up p
            (collectPos K.cx p (capAt m0 p.pending0) (capAt m1 p.pending1)) hf hk rfl lo' up'
        split
        · exact fun _ _ => rfl
        · split
          · intro lo' up'
            show isTransferred (collectFinish K pool s lo up p _ _ rd tu _ _).positions lo' up' = _
            unfold collectFinish
            simp only [Uni.record, collectCore, markUpdate]
            split
            · rw [isTransferred_erasePos _ _ _ _ lo' up', hmap]
              rw [hmap, isTransferred_of_find hf, hfree']
            · exact hmap lo' up'
          · exact hmap
          · exact hmap

theorem removeNoCollect_lentSame (K : Kern) (pool : Pool) (s : State) (lo up : Int) (l : Option Int) (sq : Option Nat) :
    LentSame s (removeNoCollect K pool s lo up l sq).2 := by
  unfold removeNoCollect
  split
  · exact fun _ _ => rfl
  · split
    · exact fun _ _ => rfl
    · split
      · exact fun _ _ => rfl
      · split
        · exact fun _ _ => rfl
        · split
          · exact fun _ _ => rfl
          · rename_i p hf
            have hk := hasKey_of_find hf
            split
            · exact fun _ _ => rfl
            · have hmap : ∀ g0 g1 lo' up', isTransferred (mapPos s.positions lo up
                  (fun _ => removePos K.cx p (removeDelta l p).1 (removeDelta l p).2 g0 g1)) lo' up' =
                  isTransferred s.positions lo' up' :=
                fun g0 g1 lo' up' => isTransferred_mapPos_const s.positions lo up p
                  (removePos K.cx p (removeDelta l p).1 (removeDelta l p).2 g0 g1) hf hk rfl lo' up'
              split <;> exact hmap _ _

theorem remove_lentSame (K : Kern) (pool : Pool) (s : State) (lo up : Int) (l : Option Int) (c : Bool) (sq : Option Nat)
    (rd : Bool) : LentSame s (remove K pool s lo up l c sq rd).2 := by
  unfold remove
  have h := removeNoCollect_lentSame K pool s lo up l sq
  split
  · rename_i heq; rw [heq] at h; exact h
  · rename_i heq; rw [heq] at h
    split
    · intro lo' up'
      rw [collect_lentSame K pool _ lo up none none rd true lo' up', h lo' up']
    · exact h

theorem swap_lentSame (K : Kern) (pool : Pool) (s : State) (a : Rat) (f t : String) (p : Option Rat) (log : Bool) :
    LentSame s (swap K pool s a f t p log).2 := by
  unfold swap
  repeat' split
  all_goals exact fun _ _ => rfl

/-- everything but the two transfers -/
def Allow.noTransfer : Allow :=
  { addSqrt := fun _ => True, remSqrt := fun _ => True, swapPx := fun _ _ _ => True, transfer := False }

theorem lentSame_gstepRel (K : Kern) (pool : Pool) : GStepRel K pool Allow.noTransfer (fun _ => LentSame) :=
  { refl := fun _ _ _ => rfl
    trans := fun h1 h2 lo up => (h2 lo up).trans (h1 lo up)
    mono := fun _ h => h
    record := fun _ _ _ _ => rfl
    addRaw := fun s a0 a1 lo up sq _ => addRaw_lentSame K pool s a0 a1 lo up sq
    collect := collect_lentSame K pool
    remove := fun s lo up l c sq rd _ => remove_lentSame K pool s lo up l c sq rd
    swap := fun s a f t p log _ => swap_lentSame K pool s a f t p log
    transferOut := fun h => h.elim
    transferIn := fun h => h.elim
    px_none := fun _ _ => trivial
    px_buy := fun _ _ _ _ => trivial
    px_sell := fun _ _ _ => trivial }

/-- an operation other than `transfer_position_out` / `transfer_position_in` -/
def Op.isTransfer : Op → Bool
  | .transferOut .. => true
  | .transferIn .. => true
  | _ => false

theorem allowed_noTransfer (op : Op) (h : op.isTransfer = false) : op.allowed Allow.noTransfer := by
  cases op <;> simp [Op.allowed, Allow.noTransfer, Op.isTransfer] at h ⊢

end Demeter.Uni

namespace Demeter
open Demeter.Uni

/-- **The pool's own operations keep lent positions lent and free positions free.** For every kernel and arithmetic
    context, every state and every list of `UniLpMarket` operations other than `transfer_position_out` /
    `transfer_position_in` (add by tick / price / value, remove, collect, remove all, swap, buy, sell, even rebalance;
    accepted or rejected, helpers that fail half-way included): the `transferred` flag found under every key is the
    same before and after — no flag is raised or cleared, no flagged position is created (a new position is created
    unflagged) and none is deleted (a dry position is only deleted by `collect_fee`, which rejects lent positions). -/
theorem C01_uni_ops_keep_lent_positions (K : Kern) (pool : Pool) (minError : Rat) (s : State) (ops : List Op)
    (hops : ∀ op ∈ ops, op.isTransfer = false) (lo up : Int) :
    isTransferred (runOps K pool minError s ops).positions lo up = isTransferred s.positions lo up :=
  (lentSame_gstepRel K pool).runOps minError ops s (fun op h => allowed_noTransfer op (hops op h)) lo up

/-- **The guards of ce449ad.** `remove_liquidity` and `collect_fee` on a position that is lent out are rejected with
    `DemeterError` and leave the state exactly as it was, whatever the other arguments. -/
theorem C01_uni_lent_position_rejected (K : Kern) (pool : Pool) (s : State) (lo up : Int)
    (hl : isTransferred s.positions lo up = true) :
    (∀ l c sq rd, remove K pool s lo up l c sq rd = (.error .demeter, s)) ∧
    (∀ m0 m1 rd tu, collect K pool s lo up m0 m1 rd tu = (.error .demeter, s)) := by
  constructor
  · intro l c sq rd
    unfold remove removeNoCollect
    by_cases hn : negLiq l = true
    · simp [hn, fail]
    · simp [hn, hl, fail]
  · intro m0 m1 rd tu
    unfold collect
    unfold isTransferred at hl
    cases hf : findPos s.positions lo up with
    | none => rw [hf] at hl; cases hl
    | some p =>
      rw [hf] at hl
      simp only [] at hl
      by_cases hn : (negGiven m0 || negGiven m1) = true
      · simp [hn, fail]
      · simp [hn, hl, fail]

/-- for an operation on a single key the literal hypotheses of `C01_squeeth_pool_side_changes` hold: the key is free
    before and after, every other key keeps its flag -/
theorem C01_uni_single_key_side_conditions (K : Kern) (pool : Pool) (minError : Rat) (u : Uni.State) (op : Op)
    (hop : op.isTransfer = false) (lo up : Int) (hfree : isTransferred u.positions lo up = false) :
    isTransferred (step K pool minError u op).2.positions lo up = false ∧
    ∀ lo' up', isTransferred (step K pool minError u op).2.positions lo' up' = isTransferred u.positions lo' up' := by
  have h := fun a b => C01_uni_ops_keep_lent_positions K pool minError u [op]
    (fun o ho => by rw [List.mem_singleton.mp ho]; exact hop) a b
  exact ⟨by rw [← hfree]; exact h lo up, h⟩

/-! ### non-vacuity: a lent position, and operations aimed at it -/
example : ∃ (s : State), isTransferred s.positions 0 10 = true ∧ isTransferred s.positions 10 20 = false :=
  ⟨{ (default : State) with positions := [{ (default : Pos) with lower := 0, upper := 10, liq := 7, transferred := true },
      { (default : Pos) with lower := 10, upper := 20, liq := 4 }] }, by decide, by decide⟩

end Demeter
