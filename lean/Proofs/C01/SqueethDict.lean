/-
  C01, Squeeth + pool — the two containers of the joint state stay dicts.

  `Demeter.Squeeth.State` holds `vaults` and `positions` as association lists (`AList`, the model of a Python dict in insertion order).
  A Python dict has no key twice; the value-level once equation (`C01_squeeth_uni_value_counted_once`) needs exactly that (`Dict`).
  Here: every operation of the model — accepted or rejected, every arithmetic context — keeps it, so it holds in every reachable state
  and in the world of every account row of a run (`C01_e2e_dict_along_the_run`, Proofs/C01/EndToEnd.lean).
-/
import Proofs.C01.Squeeth
namespace Demeter.Squeeth
open Demeter Gen

/-- no vault key and no position key occurs twice -/
def Dict (s : State) : Prop := (s.vaults.map (·.1)).Nodup ∧ (s.positions.map (·.1)).Nodup

theorem mem_keys_set {κ ν : Type} [DecidableEq κ] (m : AList κ ν) (k : κ) (v : ν) (x : κ) :
    x ∈ (AList.set m k v).map (·.1) ↔ x ∈ m.map (·.1) ∨ x = k := by
  induction m with
  | nil => simp [AList.set]
  | cons a m ih =>
    obtain ⟨k', v'⟩ := a
    unfold AList.set
    by_cases h : k' = k
    · subst h
      rw [if_pos rfl]
      simp only [List.map_cons, List.mem_cons]
      tauto
    · rw [if_neg h]
      simp only [List.map_cons, List.mem_cons, ih]
      tauto

theorem nodup_keys_set {κ ν : Type} [DecidableEq κ] (m : AList κ ν) (k : κ) (v : ν) :
    ((AList.set m k v).map (·.1)).Nodup ↔ (m.map (·.1)).Nodup := by
  induction m with
  | nil => simp [AList.set]
  | cons a m ih =>
    obtain ⟨k', v'⟩ := a
    unfold AList.set
    by_cases h : k' = k
    · subst h
      rw [if_pos rfl]
      simp only [List.map_cons]
    · rw [if_neg h]
      simp only [List.map_cons, List.nodup_cons, ih, mem_keys_set]
      constructor
      · rintro ⟨h1, h2⟩; exact ⟨fun hc => h1 (Or.inl hc), h2⟩
      · rintro ⟨h1, h2⟩; exact ⟨fun hc => hc.elim h1 h, h2⟩

theorem nodup_keys_erase {κ ν : Type} [DecidableEq κ] (m : AList κ ν) (k : κ) (h : (m.map (·.1)).Nodup) :
    ((AList.erase m k).map (·.1)).Nodup :=
  List.Nodup.sublist (List.Sublist.map _ List.filter_sublist) h

/-- `Dict s → Dict s'` -/
def Keeps (s s' : State) : Prop := Dict s → Dict s'

theorem Keeps.refl (s : State) : Keeps s s := id
theorem Keeps.trans {a b c : State} (h1 : Keeps a b) (h2 : Keeps b c) : Keeps a c := fun h => h2 (h1 h)

theorem keeps_of_fields {s s' : State} (hv : s'.vaults = s.vaults) (hp : s'.positions = s.positions) : Keeps s s' := by
  intro h; unfold Dict; rw [hv, hp]; exact h

theorem keeps_setVault (s : State) (k : Nat) (v : Vault) : Keeps s (s.setVault k v) :=
  fun h => ⟨(nodup_keys_set _ _ _).mpr h.1, h.2⟩
theorem keeps_setPos (s : State) (k : PosKey) (p : UPos) : Keeps s (s.setPos k p) :=
  fun h => ⟨h.1, (nodup_keys_set _ _ _).mpr h.2⟩
theorem keeps_record (s : State) (a : Action) : Keeps s (s.record a) := keeps_of_fields rfl rfl
theorem keeps_creditW (cx : NumCtx) (s : State) (t : String) (x : Rat) : Keeps s (creditW cx s t x) := keeps_of_fields rfl rfl
theorem keeps_erasePos (s : State) (k : PosKey) : Keeps s { s with positions := AList.erase s.positions k } :=
  fun h => ⟨h.1, nodup_keys_erase _ _ h.2⟩

theorem keeps_debitW {cx : NumCtx} {s s' : State} {t : String} {x : Rat} (h : debitW cx s t x = .ok s') : Keeps s s' := by
  unfold debitW at h
  cases hw : Wallet.debit cx s.wallet t x false with
  | error er => cases er <;> simp [hw] at h
  | ok w => simp only [hw, Except.ok.injEq] at h; subst h; exact keeps_of_fields rfl rfl

theorem keeps_checked (cx : NumCtx) (e : Env) (s : State) (vk : Nat) (o : List Rat) : Keeps s (checked cx e s vk o).st := by
  unfold checked; cases checkVault cx e s vk <;> exact Keeps.refl s

theorem keeps_andThen (s : State) (r : Res) (f : State → Res) (hr : Keeps s r.st) (hf : ∀ t, Keeps t (f t).st) :
    Keeps s (r.andThen f).st := by
  unfold Res.andThen
  cases r.err with
  | some er => exact hr
  | none => exact hr.trans (hf _)

theorem keeps_mintBody (cx : NumCtx) (s : State) (vk : Nat) (m : Rat) : Keeps s (mintBody cx s vk m).st := by
  unfold mintBody
  split_ifs
  · cases AList.get? s.vaults vk with
    | none => exact Keeps.refl s
    | some v => exact ((keeps_setVault s vk _).trans (keeps_creditW cx _ _ _)).trans (keeps_record _ _)
  · exact Keeps.refl s

theorem keeps_depositBody (cx : NumCtx) (s : State) (vk : Nat) (eth : Rat) : Keeps s (depositBody cx s vk eth).st := by
  unfold depositBody
  split_ifs
  · exact Keeps.refl s
  · cases AList.get? s.vaults vk with
    | none => exact Keeps.refl s
    | some v =>
      simp only []
      cases hd : debitW cx (s.setVault vk { v with coll := cx.add v.coll eth }) sqWethName eth with
      | error er => exact keeps_setVault s vk _
      | ok s2 => exact ((keeps_setVault s vk _).trans (keeps_debitW hd)).trans (keeps_record _ _)

theorem keeps_depositUniBody (s : State) (vk : Nat) (pos : PosKey) : Keeps s (depositUniBody s vk pos).st := by
  unfold depositUniBody
  repeat' split
  all_goals first
    | exact Keeps.refl s
    | exact keeps_setVault s vk _
    | exact ((keeps_setVault s vk _).trans (keeps_setPos _ _ _)).trans (keeps_record _ _)

theorem keeps_withdrawCollBody (cx : NumCtx) (e : Env) (s : State) (vk : Nat) (a : Rat) :
    Keeps s (withdrawCollBody cx e s vk a).st := by
  unfold withdrawCollBody
  cases AList.get? s.vaults vk with
  | none => exact Keeps.refl s
  | some v =>
    simp only []
    apply keeps_andThen
    · exact ((keeps_setVault s vk _).trans (keeps_creditW cx _ _ _)).trans (keeps_checked cx e _ vk _)
    · intro t; exact keeps_record _ _

theorem keeps_withdrawUniBody (cx : NumCtx) (e : Env) (s : State) (vk : Nat) (pos : PosKey) :
    Keeps s (withdrawUniBody cx e s vk pos).st := by
  unfold withdrawUniBody
  cases AList.get? s.vaults vk with
  | none => exact Keeps.refl s
  | some v =>
    simp only []
    split_ifs
    · exact Keeps.refl s
    · cases AList.get? (s.setVault vk { v with nft := none }).positions pos with
      | none => exact keeps_setVault s vk _
      | some p =>
        simp only []
        split_ifs
        · exact keeps_setVault s vk _
        · apply keeps_andThen
          · exact ((keeps_setVault s vk _).trans (keeps_setPos _ _ _)).trans (keeps_checked cx e _ vk _)
          · intro t; exact keeps_record _ _

theorem keeps_burnBody (cx : NumCtx) (s : State) (vk : Nat) (b : Rat) : Keeps s (burnBody cx s vk b).st := by
  unfold burnBody
  cases AList.get? s.vaults vk with
  | none => exact Keeps.refl s
  | some v =>
    simp only []
    by_cases hb : b > 0
    · simp only [hb, if_true]
      generalize (if v.short ≥ b then cx.sub v.short b else 0) = sh
      generalize (if v.short ≥ b then b else v.short) = removed
      cases hd : debitW cx (s.setVault vk { v with short := sh }) sqOsqthName removed with
      | error er => exact keeps_setVault s vk _
      | ok s2 => exact ((keeps_setVault s vk _).trans (keeps_debitW hd)).trans (keeps_record _ _)
    · simp only [hb, if_false]; exact Keeps.refl s

theorem keeps_burnWithdrawBody (cx : NumCtx) (e : Env) (s : State) (vk : Nat) (b w : Rat) :
    Keeps s (burnWithdrawBody cx e s vk b w).st := by
  unfold burnWithdrawBody
  apply keeps_andThen _ _ _ (keeps_burnBody cx s vk b)
  intro t
  apply keeps_andThen
  · split_ifs
    · exact keeps_withdrawCollBody cx e t vk w
    · exact Keeps.refl t
  · intro t2; exact keeps_checked cx e t2 vk _

theorem keeps_openVault (s : State) (vk? : Option Nat) : Keeps s (openVault s vk?).1 := by
  unfold openVault
  cases vk? with
  | some k => exact Keeps.refl s
  | none => exact fun h => ⟨(nodup_keys_set _ _ _).mpr h.1, h.2⟩

theorem keeps_openBody (cx : NumCtx) (e : Env) (s : State) (d m : Rat) (vk? : Option Nat) (pos? : Option PosKey) :
    Keeps s (openBody cx e s d m vk? pos?).st := by
  unfold openBody
  have h0 := keeps_openVault s vk?
  generalize openVault s vk? = ov at h0
  obtain ⟨s0, vk⟩ := ov
  simp only []
  refine h0.trans ?_
  apply keeps_andThen _ _ _ (keeps_mintBody cx s0 vk m)
  intro s1
  apply keeps_andThen
  · split_ifs
    · exact keeps_depositBody cx s1 vk d
    · exact Keeps.refl s1
  · intro s2
    apply keeps_andThen
    · cases pos? with
      | none => exact Keeps.refl s2
      | some p => exact keeps_depositUniBody s2 vk p
    · intro s3; exact keeps_checked cx e s3 vk _

theorem keeps_uniRedeem (cx : NumCtx) (e : Env) (s : State) (pos : PosKey) (toUser : Bool) :
    Keeps s (uniRedeem cx e s pos toUser).1.st := by
  unfold uniRedeem
  split
  · exact Keeps.refl s
  · split
    · exact Keeps.refl s
    · simp only []
      split
      · split
        · cases toUser <;> simp only [Bool.false_eq_true, if_false, if_true] <;> split <;>
            first
            | exact ((((keeps_setPos s _ _).trans (keeps_record _ _)).trans (keeps_setPos _ _ _)).trans (keeps_record _ _)).trans (keeps_erasePos _ _)
            | exact (((keeps_setPos s _ _).trans (keeps_record _ _)).trans (keeps_setPos _ _ _)).trans (keeps_record _ _)
            | exact ((((((keeps_setPos s _ _).trans (keeps_record _ _)).trans (keeps_setPos _ _ _)).trans (keeps_creditW cx _ _ _)).trans (keeps_creditW cx _ _ _)).trans (keeps_record _ _)).trans (keeps_erasePos _ _)
            | exact (((((keeps_setPos s _ _).trans (keeps_record _ _)).trans (keeps_setPos _ _ _)).trans (keeps_creditW cx _ _ _)).trans (keeps_creditW cx _ _ _)).trans (keeps_record _ _)
        · cases toUser <;> simp only [Bool.false_eq_true, if_false, if_true] <;>
            first
            | exact ((keeps_setPos s _ _).trans (keeps_record _ _)).trans (keeps_setPos _ _ _)
      · exact keeps_setPos s _ _

theorem keeps_reduceDebtBody (cx : NumCtx) (e : Env) (s : State) (vk : Nat) (pb : Bool) :
    Keeps s (reduceDebtBody cx e s vk pb).1.st := by
  unfold reduceDebtBody
  cases AList.get? s.vaults vk with
  | none => exact Keeps.refl s
  | some v =>
    simp only []
    cases v.nft with
    | none => exact Keeps.refl s
    | some pos =>
      simp only []
      cases AList.get? s.positions pos with
      | none => exact Keeps.refl s
      | some p =>
        simp only []
        cases hpt : p.transferred with
        | false => simp only [Bool.not_false, if_true]; exact Keeps.refl s
        | true =>
          simp only [Bool.not_true, Bool.false_eq_true, if_false]
          have hr := (keeps_setPos s pos { p with transferred := false }).trans (keeps_uniRedeem cx e _ pos false)
          generalize uniRedeem cx e (s.setPos pos { p with transferred := false }) pos false = r at hr ⊢
          obtain ⟨⟨err, s1, out⟩, f0, f1⟩ := r
          cases err with
          | some er => exact hr
          | none =>
            simp only []
            refine hr.trans ?_
            split_ifs <;>
              first
              | exact ((keeps_setVault s1 vk _).trans (keeps_creditW cx _ _ _)).trans (keeps_record _ _)
              | exact (keeps_setVault s1 vk _).trans (keeps_record _ _)

theorem keeps_liquidateInner (cx : NumCtx) (e : Env) (s : State) (vk : Nat) (m : Rat) :
    Keeps s (liquidateInner cx e s vk m).st := by
  unfold liquidateInner
  cases AList.get? s.vaults vk with
  | none => exact Keeps.refl s
  | some v =>
    simp only []
    generalize liquidationResult cx e m v.short v.coll = r
    by_cases hlt : m < r.1
    · simp only [hlt, if_true]; exact Keeps.refl s
    · simp only [hlt, if_false]
      have h1 := keeps_setVault s vk { v with short := cx.sub v.short r.1, coll := cx.sub v.coll r.2 }
      generalize s.setVault vk { v with short := cx.sub v.short r.1, coll := cx.sub v.coll r.2 } = s1 at h1 ⊢
      cases vaultStatus cx e s1 vk with
      | error er => exact h1
      | ok p =>
        obtain ⟨a, d⟩ := p
        simp only []
        cases d with
        | true => exact h1
        | false => exact h1.trans (keeps_record _ _)

theorem keeps_liquidateBody (cx : NumCtx) (e : Env) (s : State) (vk : Nat) : Keeps s (liquidateBody cx e s vk).st := by
  unfold liquidateBody
  cases AList.get? s.vaults vk with
  | none => exact Keeps.refl s
  | some v0 =>
    simp only []
    cases vaultStatus cx e s vk with
    | error er => exact Keeps.refl s
    | ok p =>
      obtain ⟨safe, d⟩ := p
      simp only []
      cases safe with
      | true => exact Keeps.refl s
      | false =>
        simp only [Bool.false_eq_true, if_false]
        apply keeps_andThen _ _ _ (keeps_reduceDebtBody cx e s vk true)
        intro s1
        cases vaultStatus cx e s1 vk with
        | error er => exact Keeps.refl s1
        | ok p1 =>
          obtain ⟨safe1, d1⟩ := p1
          simp only []
          cases safe1 with
          | true => exact Keeps.refl s1
          | false =>
            simp only [Bool.false_eq_true, if_false]
            cases AList.get? s1.vaults vk with
            | none => exact Keeps.refl s1
            | some v => exact (keeps_setVault s1 vk _).trans (keeps_liquidateInner cx e _ vk _)

theorem keeps_atomic (s : State) (r : Res) (hr : Keeps s r.st) : Keeps s (atomic s r).st := by
  unfold atomic
  cases r.err with
  | some er => exact Keeps.refl s
  | none => exact hr

theorem keeps_updateGo (cx : NumCtx) (e : Env) : ∀ (ks : List Nat) (s : State), Keeps s (updateGo (liquidateOp cx e) cx e ks s).st
  | [], s => Keeps.refl s
  | vk :: rest, s => by
    unfold updateGo
    cases vaultStatus cx e s vk with
    | error er => exact Keeps.refl s
    | ok p =>
      obtain ⟨safe, d⟩ := p
      simp only []
      cases safe with
      | true => exact keeps_updateGo cx e rest s
      | false =>
        simp only [Bool.false_eq_true, if_false]
        apply keeps_andThen
        · exact keeps_atomic s _ (keeps_liquidateBody cx e s vk)
        · intro t; exact keeps_updateGo cx e rest t

theorem keeps_uniRemoveOp (cx : NumCtx) (e : Env) (s : State) (pos : PosKey) : Keeps s (uniRemoveOp cx e s pos).st := by
  unfold uniRemoveOp
  cases AList.get? s.positions pos with
  | none => exact keeps_uniRedeem cx e s pos true
  | some p =>
    simp only []
    split_ifs
    · exact Keeps.refl s
    · exact keeps_uniRedeem cx e s pos true

theorem keeps_stepBody (cx : NumCtx) (e : Env) (s : State) (op : Op) : Keeps s (stepBody cx e s op).st := by
  cases op with
  | openMint d m vk pos => exact keeps_openBody cx e s d m vk pos
  | deposit vk eth => exact keeps_depositBody cx s vk eth
  | depositUni vk pos => exact keeps_depositUniBody s vk pos
  | withdrawUni vk pos => exact keeps_withdrawUniBody cx e s vk pos
  | burnWithdraw vk b w => exact keeps_burnWithdrawBody cx e s vk b w
  | liquidate vk => exact keeps_liquidateBody cx e s vk
  | update => exact keeps_updateGo cx e _ s
  | reduceDebt vk pb => exact keeps_reduceDebtBody cx e s vk pb
  | uniRemove pos => exact keeps_uniRemoveOp cx e s pos
  | buy o q => exact keeps_of_fields (buy_frame cx e s o q).1 (buy_frame cx e s o q).2.1
  | sell o q => exact keeps_of_fields (sell_frame cx e s o q).1 (sell_frame cx e s o q).2.1

end Demeter.Squeeth

namespace Demeter
open Squeeth

/-- **the containers stay dicts, one step**: every operation of the model, accepted or rejected, every arithmetic context -/
theorem C01_squeeth_dict_step (cx : NumCtx) (e : Env) (s : State) (op : Op) (h : Dict s) : Dict (step cx e s op).st := by
  unfold step
  split
  · exact keeps_atomic s _ (keeps_stepBody cx e s op) h
  · exact keeps_stepBody cx e s op h

/-- … every history -/
theorem C01_squeeth_dict (cx : NumCtx) (s : State) (hist : List (Env × Op)) (h : Dict s) : Dict (runOps cx s hist) := by
  induction hist generalizing s with
  | nil => exact h
  | cons eo rest ih =>
    obtain ⟨e, op⟩ := eo
    unfold runOps
    exact ih _ (C01_squeeth_dict_step cx e s op h)

/-- non-vacuity, and the hypothesis excludes something: a list with a key twice is not a dict -/
example : Dict (runOps NumCtx.exact c01Start c01Hist) :=
  C01_squeeth_dict _ _ _ ⟨by decide, by decide⟩
example : ¬ Dict { c01Start with vaults := [(1, ⟨0, 0, none⟩), (1, ⟨1, 0, none⟩)] } := by
  intro h; exact absurd h.1 (by decide)

end Demeter
