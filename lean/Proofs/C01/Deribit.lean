/-
  C01 (Deribit part) — placeholder while the harness is brought up; real theorems follow.
-/
import Proofs.C15
namespace Demeter
open Demeter.Deribit

/-- on an open (on-grid) bar the reported value is cash + options at rounded mark -/
theorem C01_deribit_open_bar_value (c : TokenCfg) (s : DState) (hg : s.onGrid = true) :
    ∃ b, (getMarketBalance DCtx.exact c s).1 = .ok (.balance (some b)) ∧
      b.netValue = s.cash + Deribit.markValue c s.book s.positions := by
  obtain ⟨b, h1, h2, _⟩ := C15_equity c s hg
  exact ⟨b, h1, h2⟩

end Demeter
