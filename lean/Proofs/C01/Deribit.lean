/-
  C01 (Deribit part) — what the option market reports at every bar is its cash plus its options at mark (mark
  rounded to the fee step, as coded).  On the hourly grid the valuation is recomputed; on the closed minutes in
  between the premium of the hour is reused (positions cannot change there: trades are gated, expiry runs on the
  grid only) and the cash part is the current one, so deposits and withdrawals made between two hours are
  reflected; a market that has no valuation yet makes one.

  Model: Demeter/Deribit.lean `getMarketBalance` (repaired code: /repo c97518c current cash on closed bars,
  7955ce6 first valuation off the hour), Demeter/Deribit/Run.lean (bar loop).  Exact arithmetic.
-/
import Proofs.C15
import Proofs.C16.Run
namespace Demeter
open Demeter.Deribit

namespace Deribit

/-- the cached valuation is coherent with the state: it is `cash-at-that-time + premium` and its premium is the
    value of the *current* positions at the marks of the *current* book -/
def CInv (c : TokenCfg) (s : DState) : Prop :=
  ∃ b, s.cache = some b ∧ b.netValue = b.cash + b.premium ∧ b.premium = markValue c s.book s.positions

/-- nothing cached yet, or a coherent cache -/
def Pre (c : TokenCfg) (s : DState) : Prop := s.cache = none ∨ CInv c s

/-- two books carry the same marks for the same names (the 60 bars of one hour share the hour's rows) -/
def SameMarks (b1 b2 : List Instr) : Prop :=
  ∀ n, (findInstr b1 n).map (·.mark) = (findInstr b2 n).map (·.mark)

theorem markValue_sameMarks (c : TokenCfg) {b1 b2 : List Instr} (h : SameMarks b1 b2) (ps : List (String × Position)) :
    markValue c b1 ps = markValue c b2 ps := by
  unfold markValue
  congr 1
  apply List.map_congr_left
  intro kp _
  have := h kp.2.name
  cases h1 : findInstr b1 kp.2.name <;> cases h2 : findInstr b2 kp.2.name <;> simp_all

theorem freshBalance_spec (c : TokenCfg) (s : DState) :
    (freshBalance DCtx.exact c s).netValue = s.cash + markValue c s.book s.positions ∧
    (freshBalance DCtx.exact c s).cash = s.cash ∧
    (freshBalance DCtx.exact c s).premium = markValue c s.book s.positions := by
  simp only [freshBalance]
  have := valueLoop_fst c s.book s.positions 0 0 0
  rcases hv : valueLoop DCtx.exact c s.book s.positions (0, 0, 0) with ⟨tp, dl, gm⟩
  rw [hv] at this
  simp only [] at this
  simp only [exact_num, NumCtx.exact_add]
  refine ⟨by rw [this]; ring, trivial, by rw [this]; ring⟩

/-- the heart of the matter: whenever the valuation is recomputed (grid bar / nothing cached) or the cache is
    coherent, `get_market_balance` reports current cash + options at mark and leaves a coherent cache -/
theorem gmb_report (c : TokenCfg) (s : DState) (h : s.onGrid = true ∨ Pre c s) :
    ∃ bal, (getMarketBalance DCtx.exact c s).1 = .ok (.balance (some bal)) ∧
      bal.netValue = s.cash + markValue c s.book s.positions ∧ bal.cash = s.cash ∧
      bal.premium = markValue c s.book s.positions ∧
      CInv c (getMarketBalance DCtx.exact c s).2 ∧
      (getMarketBalance DCtx.exact c s).2.cash = s.cash ∧ (getMarketBalance DCtx.exact c s).2.positions = s.positions ∧
      (getMarketBalance DCtx.exact c s).2.book = s.book := by
  obtain ⟨f1, f2, f3⟩ := freshBalance_spec c s
  unfold getMarketBalance
  by_cases hfresh : (s.onGrid || s.cache.isNone) = true
  · simp only [hfresh, if_true]
    exact ⟨_, (by first | rfl | trivial), f1, f2, f3, ⟨_, (by first | rfl | trivial), by rw [f1, f2, f3], f3⟩, (by first | rfl | trivial), (by first | rfl | trivial), (by first | rfl | trivial)⟩
  · simp only [hfresh, Bool.false_eq_true, if_false]
    have hg : s.onGrid = false := by
      cases hh : s.onGrid <;> simp_all
    have hcn : s.cache.isNone = false := by
      cases hh : s.cache.isNone <;> simp_all
    rcases h with h | h | ⟨b, hb, hcoh, hprem⟩
    · rw [hg] at h; exact absurd h (by simp)
    · rw [h] at hcn; simp at hcn
    · simp only [hb]
      split
      · rename_i hc
        exact ⟨b, (by first | rfl | trivial), by rw [hcoh, hc, hprem], hc, hprem, ⟨b, hb, hcoh, hprem⟩, (by first | rfl | trivial), (by first | rfl | trivial), (by first | rfl | trivial)⟩
      · refine ⟨{ b with netValue := DCtx.exact.num.add s.cash b.premium, cash := s.cash }, (by first | rfl | trivial), ?_, (by first | rfl | trivial), hprem,
          ⟨{ b with netValue := DCtx.exact.num.add s.cash b.premium, cash := s.cash }, (by first | rfl | trivial), (by first | rfl | trivial), hprem⟩, (by first | rfl | trivial), (by first | rfl | trivial), (by first | rfl | trivial)⟩
        simp only [exact_num, NumCtx.exact_add, hprem]

/-- on a closed bar (off the grid, trade gate shut) no operation can move positions or book, and the cache stays
    absent-or-coherent -/
theorem closed_step (c : TokenCfg) (s : DState) (op : Op) (hg : s.onGrid = false) (hf : s.flagOpen = false) (hp : Pre c s) :
    Pre c (step DCtx.exact c s op).2 ∧ (step DCtx.exact c s op).2.positions = s.positions ∧
    (step DCtx.exact c s op).2.book = s.book ∧ (step DCtx.exact c s op).2.now = s.now ∧
    (step DCtx.exact c s op).2.flagOpen = s.flagOpen ∧ (op.isWrite = true → ∃ e, (step DCtx.exact c s op).1 = .error e) := by
  cases op with
  | buy r =>
    have := (C15_trades_need_open_market DCtx.exact c s r hf).1
    simp only [step, this]
    exact ⟨hp, (by first | rfl | trivial), (by first | rfl | trivial), (by first | rfl | trivial), (by first | rfl | trivial), fun _ => ⟨_, (by first | rfl | trivial)⟩⟩
  | sell r =>
    have := (C15_trades_need_open_market DCtx.exact c s r hf).2
    simp only [step, this]
    exact ⟨hp, (by first | rfl | trivial), (by first | rfl | trivial), (by first | rfl | trivial), (by first | rfl | trivial), fun _ => ⟨_, (by first | rfl | trivial)⟩⟩
  | deposit a =>
    simp only [step, deposit]
    split
    · exact ⟨hp, (by first | rfl | trivial), (by first | rfl | trivial), (by first | rfl | trivial), (by first | rfl | trivial), fun h => by simp [Op.isWrite] at h⟩
    · split <;> exact ⟨hp, (by first | rfl | trivial), (by first | rfl | trivial), (by first | rfl | trivial), (by first | rfl | trivial), fun h => by simp [Op.isWrite] at h⟩
  | withdraw a =>
    simp only [step, withdraw]
    split
    · exact ⟨hp, (by first | rfl | trivial), (by first | rfl | trivial), (by first | rfl | trivial), (by first | rfl | trivial), fun h => by simp [Op.isWrite] at h⟩
    · split <;> exact ⟨hp, (by first | rfl | trivial), (by first | rfl | trivial), (by first | rfl | trivial), (by first | rfl | trivial), fun h => by simp [Op.isWrite] at h⟩
  | balance =>
    obtain ⟨_, _, _, _, _, hci, _, hpos, hbook⟩ := gmb_report c s (Or.inr hp)
    refine ⟨Or.inr hci, hpos, hbook, ?_, ?_, fun h => by simp [Op.isWrite] at h⟩
    all_goals
      simp only [step, getMarketBalance]
      split
      · rfl
      · split
        · rfl
        · split <;> rfl
  | update =>
    simp only [step, update, hg, Bool.false_eq_true, if_false]
    exact ⟨hp, (by first | rfl | trivial), (by first | rfl | trivial), (by first | rfl | trivial), (by first | rfl | trivial), fun h => by simp [Op.isWrite] at h⟩

theorem closed_ops (c : TokenCfg) (ops : List Op) (s : DState) (hg : s.onGrid = false) (hf : s.flagOpen = false) (hp : Pre c s) :
    Pre c (runOpsO DCtx.exact c s ops).2.1 ∧ (runOpsO DCtx.exact c s ops).2.1.positions = s.positions ∧
    (runOpsO DCtx.exact c s ops).2.1.book = s.book ∧ (runOpsO DCtx.exact c s ops).2.1.now = s.now ∧
    (runOpsO DCtx.exact c s ops).2.2 = false := by
  induction ops generalizing s with
  | nil => exact ⟨hp, rfl, rfl, rfl, rfl⟩
  | cons o os ih =>
    obtain ⟨h1, h2, h3, h4, h5, h6⟩ := closed_step c s o hg hf hp
    have hg' : (step DCtx.exact c s o).2.onGrid = false := by unfold DState.onGrid at hg ⊢; rw [h4]; exact hg
    obtain ⟨i1, i2, i3, i4, i5⟩ := ih (step DCtx.exact c s o).2 hg' (by rw [h5]; exact hf) h1
    simp only [runOpsO]
    refine ⟨i1, by rw [i2, h2], by rw [i3, h3], by rw [i4, h4], ?_⟩
    rw [i5]
    simp only [Bool.false_or, Bool.and_eq_false_imp]
    intro hw
    obtain ⟨e, he⟩ := h6 hw
    rw [he]; rfl

end Deribit

/-- **open bar**: the reported value is cash + Σ amount × round(mark), recomputed -/
theorem C01_deribit_open_bar_value (c : TokenCfg) (s : DState) (hg : s.onGrid = true) :
    ∃ b, (getMarketBalance DCtx.exact c s).1 = .ok (.balance (some b)) ∧
      b.netValue = s.cash + markValue c s.book s.positions ∧ b.cash = s.cash := by
  obtain ⟨b, h1, h2, h3, _⟩ := gmb_report c s (Or.inl hg)
  exact ⟨b, h1, h2, h3⟩

/-- **first valuation**: a market that has no cached valuation yet values itself, on the grid or not -/
theorem C01_deribit_first_valuation (c : TokenCfg) (s : DState) (hn : s.cache = none) :
    ∃ b, (getMarketBalance DCtx.exact c s).1 = .ok (.balance (some b)) ∧
      b.netValue = s.cash + markValue c s.book s.positions := by
  obtain ⟨b, h1, h2, _⟩ := gmb_report c s (Or.inr (Or.inl hn))
  exact ⟨b, h1, h2⟩

/-- **closed bar**: the cached premium is kept, the cash is the current one — whatever was deposited or withdrawn
    since the valuation was cached -/
theorem C01_deribit_closed_bar_value (cx : DCtx) (c : TokenCfg) (s : DState) (b : Balance) (hg : s.onGrid = false)
    (hc : s.cache = some b) :
    ∃ b', (getMarketBalance cx c s).1 = .ok (.balance (some b')) ∧ b'.cash = s.cash ∧ b'.premium = b.premium ∧
      b'.delta = b.delta ∧ b'.gamma = b.gamma ∧
      b'.netValue = (if b.cash = s.cash then b.netValue else cx.num.add s.cash b.premium) := by
  unfold getMarketBalance
  simp only [hg, hc, Option.isNone_some, Bool.or_self, Bool.false_eq_true, if_false]
  split
  · rename_i h; exact ⟨b, rfl, h, rfl, rfl, rfl, rfl⟩
  · exact ⟨_, rfl, rfl, rfl, rfl, rfl, rfl⟩

/-- **every bar of the loop reports cash + options at mark**: a bar on the hourly grid unconditionally; a closed bar
    (off the grid, trade gate shut, sharing the hour's marks) whenever the cache it inherits is absent or coherent —
    and every bar hands a coherent cache on.  `st` is the state the bar leaves. -/
theorem C01_deribit_bar_reports_value (c : TokenCfg) (s : DState) (b : Bar)
    (h : (b.now % (Gen.deribitFreqMinutes : Int) == 0) = true ∨
         ((b.now % (Gen.deribitFreqMinutes : Int) == 0) = false ∧ b.flagOpen = false ∧ SameMarks b.book s.book ∧ Pre c s)) :
    ∃ bal, (runBar DCtx.exact c s b).balance = some bal ∧
      bal.netValue = (runBar DCtx.exact c s b).state.cash +
        markValue c (runBar DCtx.exact c s b).state.book (runBar DCtx.exact c s b).state.positions ∧
      bal.cash = (runBar DCtx.exact c s b).state.cash ∧
      CInv c (runBar DCtx.exact c s b).state ∧
      ((b.now % (Gen.deribitFreqMinutes : Int) == 0) = false → (runBar DCtx.exact c s b).state.positions = s.positions) := by
  unfold runBar
  simp only []
  rcases hro : runOpsO DCtx.exact c (setStatus s b) b.ops with ⟨outs, s2, upd⟩
  simp only []
  -- the state handed to the final `get_market_balance`
  set s3 : DState := if upd = true then setStatus s2 b else s2 with hs3
  set s4 : DState := update DCtx.exact c s3 with hs4
  have hnow3 : s3.now = b.now ∨ s3.now = s2.now := by
    rw [hs3]; split
    · exact Or.inl rfl
    · exact Or.inr rfl
  rcases h with hg | ⟨hg, hfo, hsm, hpre⟩
  · -- on the grid: recomputed whatever happened in the bar
    have hs2now : s2.now = b.now := by
      have : ∀ (ops : List Op) (s0 : DState), (runOpsO DCtx.exact c s0 ops).2.1.now = s0.now := by
        intro ops
        induction ops with
        | nil => intro s0; rfl
        | cons o os ih =>
          intro s0
          simp only [runOpsO]
          rw [ih]
          cases o with
          | buy r =>
            rcases hb : buy DCtx.exact c s0 r with ⟨oc, s'⟩
            cases oc with
            | error e => simp only [step, hb]; rw [buy_err hb]
            | ok res => obtain ⟨_, _, _, _, _, _, _, _, _, _, _, _, hs'⟩ := buy_ok hb; simp only [step, hb]; rw [hs']
          | sell r =>
            rcases hb : sell DCtx.exact c s0 r with ⟨oc, s'⟩
            cases oc with
            | error e => simp only [step, hb]; rw [sell_err hb]
            | ok res => obtain ⟨_, _, _, _, _, _, _, _, _, _, _, _, _, _, _, hs'⟩ := sell_ok hb; simp only [step, hb]; rw [hs']
          | deposit a => simp only [step, deposit]; split; rfl; split <;> rfl
          | withdraw a => simp only [step, withdraw]; split; rfl; split <;> rfl
          | balance => simp only [step, getMarketBalance]; split; rfl; split; rfl; split <;> rfl
          | update => exact (C16_update_frame DCtx.exact c s0).2.2.2.1
      have := this b.ops (setStatus s b)
      rw [hro] at this
      exact this
    have hg4 : s4.onGrid = true := by
      have h3 : s3.now = b.now := by rcases hnow3 with h | h; exact h; rw [h, hs2now]
      unfold DState.onGrid
      rw [hs4, (C16_update_frame DCtx.exact c s3).2.2.2.1, h3]; exact hg
    obtain ⟨bal, h1, h2, h3, _, h5, h6, h7, h8⟩ := gmb_report c s4 (Or.inl hg4)
    rcases hgm : getMarketBalance DCtx.exact c s4 with ⟨o, s5⟩
    rw [hgm] at h1 h5 h6 h7 h8
    simp only [] at h1 h5 h6 h7 h8 ⊢
    subst h1
    refine ⟨bal, rfl, by rw [h6, h7, h8]; exact h2, by rw [h6]; exact h3, h5, fun hng => by rw [hg] at hng; exact absurd hng (by simp)⟩
  · -- closed bar
    have hgs : (setStatus s b).onGrid = false := by rw [onGrid_setStatus]; exact hg
    have hpre1 : Pre c (setStatus s b) := by
      rcases hpre with hn | ⟨b0, hb0, hcoh, hprem⟩
      · exact Or.inl hn
      · exact Or.inr ⟨b0, hb0, hcoh, by rw [hprem]; exact (markValue_sameMarks c hsm s.positions).symm⟩
    obtain ⟨c1, c2, c3, c4, c5⟩ := closed_ops c b.ops (setStatus s b) hgs hfo hpre1
    rw [hro] at c1 c2 c3 c4 c5
    simp only [] at c1 c2 c3 c4 c5
    have hs3eq : s3 = s2 := by rw [hs3, c5]; simp
    have hg3 : s3.onGrid = false := by
      rw [hs3eq]; unfold DState.onGrid; rw [c4]; exact hg
    have hs4eq : s4 = s2 := by rw [hs4, C16_update_off_grid_noop DCtx.exact c s3 hg3, hs3eq]
    obtain ⟨bal, h1, h2, h3, _, h5, h6, h7, h8⟩ := gmb_report c s4 (Or.inr (hs4eq ▸ c1))
    rcases hgm : getMarketBalance DCtx.exact c s4 with ⟨o, s5⟩
    rw [hgm] at h1 h5 h6 h7 h8
    simp only [] at h1 h5 h6 h7 h8 ⊢
    subst h1
    refine ⟨bal, rfl, by rw [h6, h7, h8]; exact h2, by rw [h6]; exact h3, h5, fun _ => by rw [h7, hs4eq, c2]; rfl⟩


namespace Deribit
/-- the bar lists the Actuator produces for an hourly market: every bar is on the grid, or is a closed minute
    (trade gate shut) whose book carries the marks of the book the market currently shows (same hour) -/
def GoodBars (c : TokenCfg) : DState → List Bar → Prop
  | _, [] => True
  | s, b :: bs =>
    ((b.now % (Gen.deribitFreqMinutes : Int) == 0) = true ∨
      ((b.now % (Gen.deribitFreqMinutes : Int) == 0) = false ∧ b.flagOpen = false ∧ SameMarks b.book s.book)) ∧
    GoodBars c (runBar DCtx.exact c s b).state bs

/-- at every bar of the run the reported value is the bar's final cash + options at mark -/
def AllReported (c : TokenCfg) : DState → List Bar → Prop
  | _, [] => True
  | s, b :: bs =>
    (∃ bal, (runBar DCtx.exact c s b).balance = some bal ∧
      bal.netValue = (runBar DCtx.exact c s b).state.cash +
        markValue c (runBar DCtx.exact c s b).state.book (runBar DCtx.exact c s b).state.positions) ∧
    AllReported c (runBar DCtx.exact c s b).state bs
end Deribit

/-- **at every bar of every run** (induction over the bar list): starting with no cached valuation, or a coherent
    one, the option market's reported value is cash + Σ amount × round(mark) at each bar — whatever the strategy
    trades on open bars and deposits or withdraws on closed ones -/
theorem C01_deribit_run_reports_value (c : TokenCfg) (bs : List Bar) (s : DState) (hp : Pre c s) (hg : GoodBars c s bs) :
    AllReported c s bs := by
  induction bs generalizing s with
  | nil => trivial
  | cons b bs ih =>
    obtain ⟨hb, hrest⟩ := hg
    have hbar : (b.now % (Gen.deribitFreqMinutes : Int) == 0) = true ∨
        ((b.now % (Gen.deribitFreqMinutes : Int) == 0) = false ∧ b.flagOpen = false ∧ SameMarks b.book s.book ∧ Pre c s) := by
      rcases hb with h | ⟨h1, h2, h3⟩
      · exact Or.inl h
      · exact Or.inr ⟨h1, h2, h3, hp⟩
    obtain ⟨bal, h1, h2, _, hci, _⟩ := C01_deribit_bar_reports_value c s b hbar
    exact ⟨⟨bal, h1, h2⟩, ih _ (Or.inr hci) hrest⟩

/-! ### non-vacuity: an hour bar with a trade, then two closed minutes with a deposit and a withdrawal -/

namespace Deribit
def c01Instr : Instr :=
  { name := "ETH-22SEP23-1650-C", stateOpen := true, kind := .call, strike := 1650, expiry := 30000,
    mark := 287 / 10000, underlying := 165194 / 100, delta := 52071 / 100000, gamma := 342 / 100000,
    asks := [⟨29 / 1000, 605, false⟩], bids := [⟨28 / 1000, 51, false⟩] }
def c01State : DState :=
  { cash := 3, positions := [], book := [], wallet := [("ETH", 5)], allowNeg := false, actions := [],
    cache := none, flagOpen := true, now := 0, price := 0, priceDec := true }
def c01Bars : List Bar :=
  [ { now := 60, flagOpen := true, book := [c01Instr], price := 1650, priceDec := true,
      ops := [.buy { name := "ETH-22SEP23-1650-C", amount := 10, priceTok := none, priceUsd := none, mult := none }] },
    { now := 61, flagOpen := false, book := [c01Instr], price := 1650, priceDec := true, ops := [.deposit 2] },
    { now := 62, flagOpen := false, book := [c01Instr], price := 1650, priceDec := true,
      ops := [.withdraw 1, .buy { name := "ETH-22SEP23-1650-C", amount := 1, priceTok := none, priceUsd := none, mult := none }] } ]
end Deribit

section
open Deribit
example : Pre ethCfg c01State := Or.inl rfl
-- minute 60: 3 − (10 × 0.029 + 0.003) + 10 × 0.0287; minute 61: + 2 deposited; minute 62: − 1 withdrawn, the buy is refused
example : (runBar DCtx.exact ethCfg c01State c01Bars[0]).balance.map (·.netValue) = some (3 - (29 / 100 + 3 / 1000) + 287 / 1000) := by
  decide +kernel
example : (runBar DCtx.exact ethCfg (runBars DCtx.exact ethCfg c01State (c01Bars.take 1)) c01Bars[1]).balance.map (·.netValue) =
    some (5 - (29 / 100 + 3 / 1000) + 287 / 1000) := by decide +kernel
example : (runBar DCtx.exact ethCfg (runBars DCtx.exact ethCfg c01State (c01Bars.take 2)) c01Bars[2]).balance.map (·.netValue) =
    some (4 - (29 / 100 + 3 / 1000) + 287 / 1000) := by decide +kernel
example : GoodBars ethCfg c01State c01Bars := by
  have h1 : (runBar DCtx.exact ethCfg c01State c01Bars[0]).state.book = [c01Instr] := by decide +kernel
  have h2 : (runBar DCtx.exact ethCfg (runBar DCtx.exact ethCfg c01State c01Bars[0]).state c01Bars[1]).state.book = [c01Instr] := by
    decide +kernel
  refine ⟨Or.inl (by decide), Or.inr ⟨by decide, rfl, ?_⟩, Or.inr ⟨by decide, rfl, ?_⟩, trivial⟩
  · show SameMarks [c01Instr] (runBar DCtx.exact ethCfg c01State c01Bars[0]).state.book
    rw [h1]; intro n; rfl
  · show SameMarks [c01Instr] (runBar DCtx.exact ethCfg (runBar DCtx.exact ethCfg c01State c01Bars[0]).state c01Bars[1]).state.book
    rw [h2]; intro n; rfl
end

end Demeter
