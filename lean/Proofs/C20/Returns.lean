/-
  C20, part 2 — return series, total return and annualised return across their input forms.

  `returnMultiple`, `returnRateSeries`, `annualizedReturn` mirror calculator.py (pandas `shift`/`pct_change`/`fillna`/
  `replace`/`prod`), `pow` is an oracle parameter: the statements hold for *every* `Orc`, they only use that the same
  function is applied to equal arguments.  Exact rational semantics.
-/
import Proofs.Lemmas.Metrics
namespace Demeter
open Metrics

/-- days per year used by every branch of `annualized_return`, as read from the source on this run -/
theorem C20_days_per_year_pinned : daysPerYear = 365 ∧ Gen.metricsDaysPerYear = 365 := by
  decide +kernel

/-! ### return series = definition -/

theorem Metrics.length_multiplesFrom (prev : Rat) (xs : List Rat) : (multiplesFrom prev xs).length = xs.length := by
  induction xs generalizing prev with
  | nil => rfl
  | cons x r ih => simp [multiplesFrom, ih]

theorem Metrics.length_ratesFrom (prev : Rat) (xs : List Rat) : (ratesFrom prev xs).length = xs.length := by
  induction xs generalizing prev with
  | nil => rfl
  | cons x r ih => simp [ratesFrom, ih]

theorem Metrics.nth_multiplesFrom (prev : Rat) (xs : List Rat) (hp : AllPos (prev :: xs)) (k : Nat) (hk : k < xs.length) :
    nth (multiplesFrom prev xs) k = nth (prev :: xs) (k + 1) / nth (prev :: xs) k := by
  induction xs generalizing prev k with
  | nil => simp at hk
  | cons x r ih =>
    have hprev : prev ≠ 0 := ne_of_gt hp.head
    cases k with
    | zero => simp [multiplesFrom, hprev, nth_zero_cons, nth_succ_cons]
    | succ k =>
      simp only [multiplesFrom, nth_succ_cons]
      exact ih x hp.tail k (by simpa using hk)

theorem Metrics.nth_ratesFrom (prev : Rat) (xs : List Rat) (hp : AllPos (prev :: xs)) (k : Nat) (hk : k < xs.length) :
    nth (ratesFrom prev xs) k = (nth (prev :: xs) (k + 1) - nth (prev :: xs) k) / nth (prev :: xs) k := by
  induction xs generalizing prev k with
  | nil => simp at hk
  | cons x r ih =>
    have hprev : prev ≠ 0 := ne_of_gt hp.head
    cases k with
    | zero =>
      simp only [ratesFrom, hprev, if_false, nth_zero_cons, nth_succ_cons]
      field_simp
    | succ k =>
      simp only [ratesFrom, nth_succ_cons]
      exact ih x hp.tail k (by simpa using hk)

/-- **return multiple series = its definition**: same length, first entry 1, then `value(t) / value(t-1)` -/
theorem C20_return_multiple_def (xs : List Rat) (hp : AllPos xs) :
    (returnMultiple xs).length = xs.length ∧
    (0 < xs.length → nth (returnMultiple xs) 0 = 1) ∧
    (∀ k, 0 < k → k < xs.length → nth (returnMultiple xs) k = nth xs k / nth xs (k - 1)) := by
  cases xs with
  | nil => simp [returnMultiple]
  | cons x r =>
    refine ⟨by simp [returnMultiple, length_multiplesFrom], fun _ => rfl, ?_⟩
    intro k hk0 hk
    obtain ⟨k, rfl⟩ := Nat.exists_eq_succ_of_ne_zero (by omega : k ≠ 0)
    simp only [returnMultiple, nth_succ_cons]
    exact nth_multiplesFrom x r hp k (by simpa using hk)

/-- **return rate series = its definition**: same length, first entry 0, then `(value(t) - value(t-1)) / value(t-1)` -/
theorem C20_return_rate_series_def (xs : List Rat) (hp : AllPos xs) :
    (returnRateSeries xs).length = xs.length ∧
    (0 < xs.length → nth (returnRateSeries xs) 0 = 0) ∧
    (∀ k, 0 < k → k < xs.length → nth (returnRateSeries xs) k = (nth xs k - nth xs (k - 1)) / nth xs (k - 1)) := by
  cases xs with
  | nil => simp [returnRateSeries]
  | cons x r =>
    refine ⟨by simp [returnRateSeries, length_ratesFrom], fun _ => rfl, ?_⟩
    intro k hk0 hk
    obtain ⟨k, rfl⟩ := Nat.exists_eq_succ_of_ne_zero (by omega : k ≠ 0)
    simp only [returnRateSeries, nth_succ_cons]
    exact nth_ratesFrom x r hp k (by simpa using hk)

/-! ### telescoping -/

theorem Metrics.prod_multiplesFrom (prev : Rat) (xs : List Rat) (hp : AllPos (prev :: xs)) :
    prod (multiplesFrom prev xs) = nth (prev :: xs) xs.length / prev := by
  induction xs generalizing prev with
  | nil => simp [multiplesFrom, prod, nth_zero_cons, div_self (ne_of_gt hp.head)]
  | cons x r ih =>
    have hprev : prev ≠ 0 := ne_of_gt hp.head
    have hx : x ≠ 0 := ne_of_gt hp.tail.head
    simp only [multiplesFrom, hprev, if_false, prod, List.length_cons, nth_succ_cons]
    rw [ih x hp.tail]
    field_simp

theorem Metrics.map_rates_add_one (prev : Rat) (xs : List Rat) (hp : AllPos (prev :: xs)) :
    (ratesFrom prev xs).map (· + 1) = multiplesFrom prev xs := by
  induction xs generalizing prev with
  | nil => rfl
  | cons x r ih =>
    have hprev : prev ≠ 0 := ne_of_gt hp.head
    simp only [ratesFrom, multiplesFrom, hprev, if_false, List.map_cons, ih x hp.tail]
    congr 1
    ring

/-- the last element, as `net_values.iloc[-1]` -/
def Metrics.lastOf (xs : List Rat) : Rat := nth xs (xs.length - 1)

/-- **telescoping product**: the product of the return multiples, and of `1 + rate`, is `last / first` -/
theorem C20_product_telescopes (xs : List Rat) (hp : AllPos xs) (hne : xs ≠ []) :
    prod (returnMultiple xs) = lastOf xs / nth xs 0 ∧
    prod ((returnRateSeries xs).map (· + 1)) = lastOf xs / nth xs 0 := by
  cases xs with
  | nil => exact absurd rfl hne
  | cons x r =>
    have h1 : prod (returnMultiple (x :: r)) = lastOf (x :: r) / nth (x :: r) 0 := by
      simp only [returnMultiple, prod, one_mul, lastOf, List.length_cons, Nat.add_sub_cancel, nth_zero_cons]
      exact prod_multiplesFrom x r hp
    refine ⟨h1, ?_⟩
    rw [← h1]
    simp only [returnRateSeries, returnMultiple, List.map_cons, zero_add, map_rates_add_one x r hp]

/-- **total return agrees across its input forms**: end points, net-value series, return-rate series -/
theorem C20_total_return_forms_agree (xs : List Rat) (hp : AllPos xs) (hne : xs ≠ []) :
    returnRate (nth xs 0) (lastOf xs) = .ok (prod (returnMultiple xs) - 1) ∧
    returnRate (nth xs 0) (lastOf xs) = .ok (prod ((returnRateSeries xs).map (· + 1)) - 1) ∧
    returnRate (nth xs 0) (lastOf xs) = .ok ((lastOf xs - nth xs 0) / nth xs 0) := by
  have h0 : 0 < nth xs 0 := nth_pos hp (List.length_pos_iff.mpr hne)
  obtain ⟨t1, t2⟩ := C20_product_telescopes xs hp hne
  unfold returnRate
  rw [if_pos h0, t1, t2]
  refine ⟨rfl, rfl, ?_⟩
  congr 1
  field_simp

/-- **annualised (compound) return agrees across its three input forms**, for every `pow` oracle and every duration
    (including the rejected duration 0) -/
theorem C20_annualized_compound_forms_agree (o : Orc) (d : Rat) (xs : List Rat) (hp : AllPos xs) (hne : xs ≠ []) :
    annualizedReturn o .compound d { nets := some xs } =
      annualizedReturn o .compound d { init := some (nth xs 0), final := some (lastOf xs) } ∧
    annualizedReturn o .compound d { rates := some (returnRateSeries xs) } =
      annualizedReturn o .compound d { init := some (nth xs 0), final := some (lastOf xs) } := by
  have h0 : nth xs 0 ≠ 0 := ne_of_gt (nth_pos hp (List.length_pos_iff.mpr hne))
  obtain ⟨t1, t2⟩ := C20_product_telescopes xs hp hne
  simp only [annualizedReturn, t1, t2, h0, if_false]
  by_cases hd : d = 0
  · simp [compoundOf, hd]
  · simp [hd]

/-- the compound form is `(final / init) ** (365 / duration) - 1` -/
theorem C20_annualized_compound_formula (o : Orc) (d i f : Rat) (hd : d ≠ 0) (hi : i ≠ 0) :
    annualizedReturn o .compound d { init := some i, final := some f } =
      match o.pow (f / i) (365 / d) with
      | some p => .ok (p - 1)
      | none => .error .nonfinite := by
  simp only [annualizedReturn, hd, hi, if_false, compoundOf, C20_days_per_year_pinned.1]
  cases o.pow (f / i) (365 / d) <;> rfl

/-- **annualised (single-interest) return agrees across its two input forms** and is `(final - init) / init * 365 / duration` -/
theorem C20_annualized_single_forms_agree (o : Orc) (d : Rat) (hd : d ≠ 0) (xs : List Rat) (hp : AllPos xs) (hne : xs ≠ []) :
    annualizedReturn o .single d { nets := some xs } =
      annualizedReturn o .single d { init := some (nth xs 0), final := some (lastOf xs) } ∧
    annualizedReturn o .single d { nets := some xs } = .ok ((lastOf xs - nth xs 0) / nth xs 0 * 365 / d) := by
  have h0 : nth xs 0 ≠ 0 := ne_of_gt (nth_pos hp (List.length_pos_iff.mpr hne))
  have hl : xs.length ≠ 0 := by
    intro h; exact hne (List.length_eq_zero_iff.mp h)
  simp only [annualizedReturn, hl, h0, hd, if_false, or_self, lastOf, C20_days_per_year_pinned.1, true_and]
  congr 1
  field_simp

/-- a return-rate series under single interest is refused, as is a call without any input form -/
theorem C20_annualized_rejections (o : Orc) (d : Rat) (rs : List Rat) :
    annualizedReturn o .single d { rates := some rs } = .error .demeter ∧
    annualizedReturn o .single d {} = .error .demeter ∧
    annualizedReturn o .compound d {} = .error .demeter := by
  simp [annualizedReturn]

/-! ### non-vacuity -/
example : AllPos [1, 11/10, 121/100] := by
  intro x hx; simp at hx; rcases hx with rfl | rfl | rfl <;> norm_num
example : returnRateSeries [1, 11/10, 121/100] = [0, 1/10, 1/10] ∧ returnMultiple [1, 11/10, 121/100] = [1, 11/10, 11/10] := by
  decide +kernel
example : prod (returnMultiple [1, 11/10, 121/100]) = 121/100 := by decide +kernel
example : annualizedReturn ⟨fun b _ => some (b * b), fun _ => none⟩ .compound (365/2) { init := some 1, final := some (11/10) }
    = .ok (21/100) := by decide +kernel

end Demeter
