/-
  C20, part 4 — the benchmark entries of `performance_metrics` (alpha, beta, benchmark rate, benchmark APR) against
  direct recomputation from the two series; the default risk-free rate; and concrete instances of every
  `performance_metrics` theorem (non-vacuity).  `pow` and `sqrt` are oracle parameters as in part 3.
-/
import Proofs.C20.Stats
namespace Demeter
open Metrics

/-- the benchmark's own two entries: `return_rate(b₀, b_last)` and `annualized_return(d, b₀, b_last)` -/
theorem Metrics.perfBenchRest_pos (o : Orc) (d y : Rat) (t : List Rat) (hb : AllPos (y :: t)) (hd : d ≠ 0) (alpha beta : Val) :
    ∃ ba, soft (compoundOf o d (lastOf (y :: t) / y)) = .ok ba ∧
      perfBenchRest o d (y :: t) alpha beta = .ok (alpha, beta, some ((lastOf (y :: t) - y) / y), ba) := by
  have hy : 0 < y := hb.head
  have hy0 : y ≠ 0 := ne_of_gt hy
  have hrr : returnRate y (lastOf (y :: t)) = .ok ((lastOf (y :: t) - y) / y) := by
    unfold returnRate
    rw [if_pos hy]
    congr 1
    field_simp
  have hsoft : ∃ v, soft (compoundOf o d (lastOf (y :: t) / y)) = .ok v := by
    unfold compoundOf
    rw [if_neg hd]
    cases o.pow (lastOf (y :: t) / y) (daysPerYear / d) with
    | none => exact ⟨none, rfl⟩
    | some v => exact ⟨some (v - 1), rfl⟩
  obtain ⟨ba, hba⟩ := hsoft
  refine ⟨ba, hba, ?_⟩
  have hann : annualizedReturn o .compound d { init := some y, final := some (lastOf (y :: t)) } =
      compoundOf o d (lastOf (y :: t) / y) := by
    simp only [annualizedReturn, hd, hy0, if_false]
  unfold perfBenchRest
  rw [if_neg (by simp)]
  simp only [nth_zero_cons]
  have hl : nth (y :: t) ((y :: t).length - 1) = lastOf (y :: t) := rfl
  rw [hl, hrr, hann, hba]
  rfl

/-- **the benchmark entries of `performance_metrics`** for a positive series and a positive benchmark of the same length
    (at least two returns, benchmark returns not constant), with `d` the duration derived from the index:
    `beta = Σ(p − p̄)(b − b̄) / Σ(b − b̄)²` over the two return series, `alpha = APR(values) − beta · APR(benchmark)`,
    `benchmark rate = (b_last − b₀)/b₀`, `benchmark APR = (b_last/b₀)^(365/d) − 1` — both APRs by end points -/
theorem C20_perf_bench_entries (o : Orc) (t0 t1 tEnd : Int) (x y : Rat) (r t : List Rat) (rf : Rat) (p : Perf)
    (h : performanceMetrics o t0 t1 tEnd (x :: r) rf (some (y :: t)) = .ok p)
    (hp : AllPos (x :: r)) (hb : AllPos (y :: t)) (hlen : r.length = t.length) (hn : 2 ≤ r.length)
    (hd : p.durationInDay ≠ 0) (pa ba : Rat)
    (hpa : o.pow (lastOf (x :: r) / x) (365 / p.durationInDay) = some pa)
    (hba : o.pow (lastOf (y :: t) / y) (365 / p.durationInDay) = some ba)
    (hvar : devProd (multiplesFrom y t) (multiplesFrom y t) ≠ 0) :
    let β := devProd (multiplesFrom x r) (multiplesFrom y t) / devProd (multiplesFrom y t) (multiplesFrom y t)
    p.beta = some β ∧ p.alpha = some ((pa - 1) - β * (ba - 1)) ∧
    p.benchRate = some ((lastOf (y :: t) - y) / y) ∧ p.benchApr = some (ba - 1) := by
  intro β
  have hall := C20_perf_entries o t0 t1 tEnd (x :: r) rf (some (y :: t)) p h
  have hbench := hall.2.2.2.2.2.2.2.2.2.2
  have hab := C20_alpha_beta_formula o p.durationInDay x y r t hp hb hlen hn hd pa ba hpa hba hvar
  obtain ⟨ba', hba', hrest⟩ := perfBenchRest_pos o p.durationInDay y t hb hd (some ((pa - 1) - β * (ba - 1))) (some β)
  simp only [compoundOf, hd, if_false, C20_days_per_year_pinned.1, hba, soft, Except.ok.injEq] at hba'
  unfold perfBench at hbench
  simp only [hab] at hbench
  rw [hrest, ← hba'] at hbench
  simp only [Except.ok.injEq, Prod.mk.injEq] at hbench
  exact ⟨hbench.2.1.symm, hbench.1.symm, hbench.2.2.1.symm, hbench.2.2.2.symm⟩

/-- the same entries **whatever `pow` answers** (a minute index makes the APR exponent ~10⁵ and `pow` overflow to inf):
    beta and the benchmark rate are reported as above, alpha is finite exactly when both APRs are -/
theorem C20_perf_beta_entry_independent_of_apr (o : Orc) (t0 t1 tEnd : Int) (x y : Rat) (r t : List Rat) (rf : Rat) (p : Perf)
    (h : performanceMetrics o t0 t1 tEnd (x :: r) rf (some (y :: t)) = .ok p)
    (hp : AllPos (x :: r)) (hb : AllPos (y :: t)) (hlen : r.length = t.length) (hn : 2 ≤ r.length)
    (hd : p.durationInDay ≠ 0) (hvar : devProd (multiplesFrom y t) (multiplesFrom y t) ≠ 0) :
    p.beta = some (devProd (multiplesFrom x r) (multiplesFrom y t) / devProd (multiplesFrom y t) (multiplesFrom y t)) ∧
    p.benchRate = some ((lastOf (y :: t) - y) / y) ∧
    (p.alpha.isSome ↔ (o.pow (lastOf (x :: r) / x) (365 / p.durationInDay)).isSome ∧
                       (o.pow (lastOf (y :: t) / y) (365 / p.durationInDay)).isSome) ∧
    (p.benchApr.isSome ↔ (o.pow (lastOf (y :: t) / y) (365 / p.durationInDay)).isSome) := by
  have hall := C20_perf_entries o t0 t1 tEnd (x :: r) rf (some (y :: t)) p h
  have hbench := hall.2.2.2.2.2.2.2.2.2.2
  obtain ⟨alpha, hab, halpha⟩ := C20_beta_independent_of_apr o p.durationInDay x y r t hp hb hlen hn hd hvar
  obtain ⟨ba', hba', hrest⟩ := perfBenchRest_pos o p.durationInDay y t hb hd alpha
    (some (devProd (multiplesFrom x r) (multiplesFrom y t) / devProd (multiplesFrom y t) (multiplesFrom y t)))
  unfold perfBench at hbench
  simp only [hab] at hbench
  rw [hrest] at hbench
  simp only [Except.ok.injEq, Prod.mk.injEq] at hbench
  obtain ⟨e1, e2, e3, e4⟩ := hbench
  refine ⟨e2.symm, e3.symm, by rw [← e1]; exact halpha, ?_⟩
  rw [← e4]
  simp only [compoundOf, hd, if_false, C20_days_per_year_pinned.1] at hba'
  cases hbw : o.pow (lastOf (y :: t) / y) (365 / p.durationInDay) <;>
    simp only [hbw, soft, Except.ok.injEq] at hba' <;> subst hba' <;> simp

/-- **without a benchmark the four benchmark entries are nan** -/
theorem C20_perf_no_benchmark (o : Orc) (t0 t1 tEnd : Int) (values : List Rat) (rf : Rat) (p : Perf)
    (h : performanceMetrics o t0 t1 tEnd values rf none = .ok p) :
    p.alpha = none ∧ p.beta = none ∧ p.benchRate = none ∧ p.benchApr = none := by
  have hall := C20_perf_entries o t0 t1 tEnd values rf none p h
  have hbench := hall.2.2.2.2.2.2.2.2.2.2
  simp only [perfBench, Except.ok.injEq, Prod.mk.injEq] at hbench
  exact ⟨hbench.1.symm, hbench.2.1.symm, hbench.2.2.1.symm, hbench.2.2.2.symm⟩

/-- the benchmark does not enter any of the other entries -/
theorem C20_perf_benchmark_only_in_benchmark_entries (o : Orc) (t0 t1 tEnd : Int) (values : List Rat) (rf : Rat)
    (bench : Option (List Rat)) (p q : Perf)
    (h : performanceMetrics o t0 t1 tEnd values rf bench = .ok p) (h' : performanceMetrics o t0 t1 tEnd values rf none = .ok q) :
    q = { p with alpha := none, beta := none, benchRate := none, benchApr := none } := by
  obtain ⟨a1, a2, a3, a4, a5, a6, a7, a8, a9, a10, _⟩ := C20_perf_entries o t0 t1 tEnd values rf bench p h
  obtain ⟨b1, b2, b3, b4, b5, b6, b7, b8, b9, b10, _⟩ := C20_perf_entries o t0 t1 tEnd values rf none q h'
  obtain ⟨c1, c2, c3, c4⟩ := C20_perf_no_benchmark o t0 t1 tEnd values rf q h'
  have ed : q.durationInDay = p.durationInDay := by rw [a2, b2]
  have ei : q.intervalInDay = p.intervalInDay := by rw [a1, b1]
  rw [ed] at b7 b9
  rw [ei] at b9 b10
  rw [a6] at b6; rw [a7] at b7; rw [a8] at b8; rw [a9] at b9; rw [a10] at b10
  simp only [Except.ok.injEq] at b6 b7 b8 b9 b10
  cases p; cases q
  simp only [Perf.mk.injEq] at *
  simp_all

/-! ### the default risk-free rate -/

/-- the signature's default `annualized_risk_free_rate=0.03`, as read from the source on this run: the double nearest to
    3/100 (`1080863910568919 / 2^55`); a call without the argument is the call with that value -/
theorem C20_perf_default_risk_free (o : Orc) (t0 t1 tEnd : Int) (values : List Rat) (bench : Option (List Rat)) :
    Gen.metricsDefaultRiskFree = 1080863910568919 / 36028797018963968 ∧
    |Gen.metricsDefaultRiskFree - 3 / 100| ≤ 1 / 2 ^ 58 ∧
    performanceMetricsOpt o t0 t1 tEnd values none bench =
      performanceMetrics o t0 t1 tEnd values (1080863910568919 / 36028797018963968) bench ∧
    ∀ rf, performanceMetricsOpt o t0 t1 tEnd values (some rf) bench = performanceMetrics o t0 t1 tEnd values rf bench := by
  have e : Gen.metricsDefaultRiskFree = 1080863910568919 / 36028797018963968 := by
    unfold Gen.metricsDefaultRiskFree; norm_num
  refine ⟨e, ?_, ?_, fun rf => rfl⟩
  · rw [e, abs_le]; constructor <;> norm_num
  · unfold performanceMetricsOpt defaultRiskFree
    rw [e]; rfl

/-! ### non-vacuity: every `performance_metrics` theorem on a concrete run

  values `[1, 2, 3, 6]`, benchmark `[1, 2, 3, 5]`, a daily index of four stamps, rf = 3/100; the oracle answers
  `pow b e = b`, `sqrt v = v` (any answers do: the theorems are for an arbitrary `Orc`). -/
namespace C20Demo
deriving instance DecidableEq for Metrics.Perf

def orc : Orc := ⟨fun b _ => some b, fun v => some v⟩
def orcInf : Orc := ⟨fun _ _ => none, fun v => some v⟩      -- every `pow` overflows
def day : Int := 86400000000000
def vals : List Rat := [1, 2, 3, 6]
def bench : List Rat := [1, 2, 3, 5]
def perf : Perf :=
  { startVal := 1, endVal := 6, intervalInDay := 1, durationInDay := 4, returnValue := 5, returnRate := some 5,
    annualized := some 5, mdd := some 0, sharpe := some (1491 / 9125), volatility := some (365 / 12),
    alpha := some (11 / 7), beta := some (6 / 7), benchRate := some 4, benchApr := some 4 }
def perfNoBench : Perf := { perf with alpha := none, beta := none, benchRate := none, benchApr := none }

theorem run : performanceMetrics orc 0 day (3 * day) vals (3 / 100) (some bench) = .ok perf := by decide +kernel
theorem runNoBench : performanceMetrics orc 0 day (3 * day) vals (3 / 100) none = .ok perfNoBench := by decide +kernel
theorem posVals : AllPos [1, 2, 3, 6] := by
  intro x hx; simp at hx; rcases hx with rfl | rfl | rfl | rfl <;> norm_num
theorem posBench : AllPos [1, 2, 3, 5] := by
  intro x hx; simp at hx; rcases hx with rfl | rfl | rfl | rfl <;> norm_num

-- C20_perf_entries, with and without a benchmark
example := C20_perf_entries orc 0 day (3 * day) vals (3 / 100) (some bench) perf run
example := C20_perf_entries orc 0 day (3 * day) vals (3 / 100) none perfNoBench runNoBench
-- C20_perf_reports_definitions
example : perf.mdd = some (mddSpec vals) ∧ perf.returnRate = some ((lastOf vals - nth vals 0) / nth vals 0) :=
  C20_perf_reports_definitions orc 0 day (3 * day) vals (3 / 100) (some bench) posVals perf run
example : perfNoBench.mdd = some (mddSpec vals) ∧ perfNoBench.returnRate = some ((lastOf vals - nth vals 0) / nth vals 0) :=
  C20_perf_reports_definitions orc 0 day (3 * day) vals (3 / 100) none posVals perfNoBench runNoBench
-- C20_perf_sharpe_and_volatility: pow = 6, variance of the multiples [2, 3/2, 2] = 1/12, s = 1/12, q = 365
example : perf.sharpe = some ((6 - 1 - 3 / 100) / (1 / 12 * 365)) ∧ perf.volatility = some (1 / 12 * 365) :=
  C20_perf_sharpe_and_volatility orc 0 day (3 * day) 1 [2, 3, 6] (3 / 100) (some bench) perf run posVals
    (by decide +kernel) (by decide +kernel) 6 (1 / 12) (1 / 12) 365 (by decide +kernel) (by decide +kernel) (by decide +kernel)
    (by decide +kernel) (by norm_num)
example : perfNoBench.sharpe = some ((6 - 1 - 3 / 100) / (1 / 12 * 365)) ∧ perfNoBench.volatility = some (1 / 12 * 365) :=
  C20_perf_sharpe_and_volatility orc 0 day (3 * day) 1 [2, 3, 6] (3 / 100) none perfNoBench runNoBench posVals
    (by decide +kernel) (by decide +kernel) 6 (1 / 12) (1 / 12) 365 (by decide +kernel) (by decide +kernel) (by decide +kernel)
    (by decide +kernel) (by norm_num)
-- C20_perf_duration_regular_index: four stamps one day apart, duration 4 days
example : perf.durationInDay = vals.length * perf.intervalInDay :=
  C20_perf_duration_regular_index orc 0 day (3 * day) vals (3 / 100) (some bench) perf run (by decide +kernel)
-- … and an irregular index (stamps 0, 1 d, …, 7 d): the duration is span + first gap = 8 d, not n · interval = 4 d
example : (performanceMetrics orc 0 day (7 * day) vals (3 / 100) none).toOption.map (fun p => (p.intervalInDay, p.durationInDay))
    = some (1, 8) := by decide +kernel
-- C20_perf_bench_entries: beta 6/7, alpha (6 − 1) − 6/7 · (5 − 1) = 11/7, benchmark rate and APR 4
example := C20_perf_bench_entries orc 0 day (3 * day) 1 1 [2, 3, 6] [2, 3, 5] (3 / 100) perf run posVals posBench rfl
    (by decide) (by decide +kernel) 6 5 (by decide +kernel) (by decide +kernel) (by decide +kernel)
example : perf.beta = some (6 / 7) ∧ perf.alpha = some ((6 - 1) - 6 / 7 * (5 - 1)) ∧ perf.benchRate = some ((5 - 1) / 1) ∧
    perf.benchApr = some (5 - 1) := by decide +kernel
example := C20_perf_beta_entry_independent_of_apr orc 0 day (3 * day) 1 1 [2, 3, 6] [2, 3, 5] (3 / 100) perf run posVals posBench rfl
    (by decide) (by decide +kernel) (by decide +kernel)
-- C20_perf_beta_entry_independent_of_apr with an oracle whose every `pow` overflows: beta is still 6/7, alpha and the APRs are nan
example : (performanceMetrics orcInf 0 day (3 * day) vals (3 / 100) (some bench)).toOption.map
    (fun p => (p.beta, p.alpha, p.annualized, p.benchRate, p.benchApr)) = some (some (6 / 7), none, none, some 4, none) := by
  decide +kernel
-- C20_perf_no_benchmark
example : perfNoBench.alpha = none ∧ perfNoBench.beta = none ∧ perfNoBench.benchRate = none ∧ perfNoBench.benchApr = none :=
  C20_perf_no_benchmark orc 0 day (3 * day) vals (3 / 100) perfNoBench runNoBench
-- a call that raises is not `.ok`: one value only (IndexError on `values.index[1]`)
example : performanceMetrics orc 0 0 0 [1] (3 / 100) none = .error .index := by decide +kernel
end C20Demo

end Demeter
