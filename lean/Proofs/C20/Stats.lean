/-
  C20, part 3 — volatility, Sharpe ratio, alpha / beta and `performance_metrics` against direct recomputation from
  the net-value series.  `sqrt` and `pow` are oracle parameters (every statement is for an arbitrary `Orc` and names
  the oracle values it uses), exact rational semantics otherwise.
-/
import Proofs.C20.Returns
import Proofs.C20
namespace Demeter
open Metrics

theorem C20_stat_constants_pinned :
    Gen.metricsVolDaysPerYear = 365 ∧ Gen.metricsNsPerSec = 1000000000 ∧ Gen.metricsSecPerDay = 86400 := by
  decide +kernel

/-! ### sums -/

theorem Metrics.sum_zipWith_dev (a b : Rat) (xs ys : List Rat) (h : xs.length = ys.length) :
    sum (List.zipWith (fun x y => (x - a) * (y - b)) xs ys) =
      sum (List.zipWith (· * ·) xs ys) - b * sum xs - a * sum ys + xs.length * a * b := by
  induction xs generalizing ys with
  | nil =>
    cases ys with
    | nil => simp [sum]
    | cons y r' => simp at h
  | cons x r ih =>
    cases ys with
    | nil => simp at h
    | cons y r' =>
      simp only [List.zipWith_cons_cons, sum, List.length_cons, Nat.cast_succ]
      rw [ih r' (by simpa using h)]
      ring

/-- the sum of products of deviations is `Σ xy − (Σ x)(Σ y)/n` -/
theorem Metrics.devProd_eq (xs ys : List Rat) (h : xs.length = ys.length) (hn : 0 < xs.length) :
    devProd xs ys = sum (List.zipWith (· * ·) xs ys) - sum xs * sum ys / xs.length := by
  unfold devProd mean
  simp only []
  rw [sum_zipWith_dev _ _ xs ys h, ← h]
  have : (xs.length : Rat) ≠ 0 := by exact_mod_cast (ne_of_gt hn)
  field_simp
  ring

theorem Metrics.sum_map_add (c : Rat) (xs : List Rat) : sum (xs.map (· + c)) = sum xs + xs.length * c := by
  induction xs with
  | nil => simp [sum]
  | cons x r ih => simp only [List.map_cons, sum, ih, List.length_cons, Nat.cast_succ]; ring

theorem Metrics.mean_map_add (c : Rat) (xs : List Rat) (hn : 0 < xs.length) : mean (xs.map (· + c)) = mean xs + c := by
  unfold mean
  rw [sum_map_add, List.length_map]
  have : (xs.length : Rat) ≠ 0 := by exact_mod_cast (ne_of_gt hn)
  field_simp

/-- deviations from the mean do not see a shift of the data -/
theorem Metrics.devProd_shift (c c' : Rat) (xs ys : List Rat) :
    devProd (xs.map (· + c)) (ys.map (· + c')) = devProd xs ys := by
  by_cases hx : xs.length = 0
  · have : xs = [] := List.length_eq_zero_iff.mp hx
    subst this; simp [devProd, sum]
  by_cases hy : ys.length = 0
  · have : ys = [] := List.length_eq_zero_iff.mp hy
    subst this; simp [devProd, sum]
  unfold devProd
  simp only []
  rw [mean_map_add c xs (by omega), mean_map_add c' ys (by omega), List.zipWith_map]
  congr 1
  congr 1
  funext x y
  ring

/-! ### volatility -/

/-- **sample variance = its definition and its textbook recomputation** (`ddof = 1`): for at least two returns
    `var = Σ (r − mean)² / (n − 1) = (Σ r² − (Σ r)²/n) / (n − 1)`; fewer than two returns give nan -/
theorem C20_sample_variance_def (rs : List Rat) :
    (2 ≤ rs.length →
      sampleVar rs = .ok (sum (rs.map (fun r => (r - mean rs) * (r - mean rs))) / ((rs.length : Rat) - 1)) ∧
      sampleVar rs = .ok ((sum (rs.map (fun r => r * r)) - sum rs * sum rs / rs.length) / ((rs.length : Rat) - 1))) ∧
    (rs.length ≤ 1 → sampleVar rs = .error .nonfinite) := by
  constructor
  · intro hn
    have hz : ∀ (f : Rat → Rat → Rat) (l : List Rat), List.zipWith f l l = l.map (fun r => f r r) := by
      intro f l; induction l with
      | nil => rfl
      | cons a t ih => simp
    constructor
    · unfold sampleVar cov
      rw [if_neg (by simp), if_neg (by omega)]
      unfold devProd
      simp only [hz]
    · unfold sampleVar cov
      rw [if_neg (by simp), if_neg (by omega), devProd_eq rs rs rfl (by omega), hz]
  · intro hn
    unfold sampleVar cov
    rw [if_neg (by simp), if_pos hn]

/-- **volatility = sample standard deviation of the returns × sqrt(365 / interval)** -/
theorem C20_volatility_formula (o : Orc) (rs : List Rat) (interval v s q : Rat) (hi : interval ≠ 0)
    (hv : sampleVar rs = .ok v) (hs : o.sqrt v = some s) (hq : o.sqrt (365 / interval) = some q) :
    volatility o rs interval = .ok (s * q) := by
  unfold volatility stdDev
  rw [if_neg hi, hv, C20_stat_constants_pinned.1]
  simp only [hs, hq, ofOpt]

/-- the variance of the return *rates* (`pct_change`, used for the reported volatility) is the variance of the
    return *multiples* (`v / v.shift(1)`, used inside the Sharpe ratio): the reported volatility is the Sharpe denominator -/
theorem C20_volatility_rates_eq_multiples (o : Orc) (ms : List Rat) (interval : Rat) :
    volatility o (ms.map (· - 1)) interval = volatility o ms interval := by
  have h : sampleVar (ms.map (· - 1)) = sampleVar ms := by
    unfold sampleVar cov
    have e : (ms.map (· - 1)) = ms.map (· + (-1)) := by
      apply List.map_congr_left; intro a _; ring
    rw [e, devProd_shift, List.length_map]
  unfold volatility stdDev
  rw [h]

/-! ### Sharpe ratio -/

theorem Metrics.allSome_ratiosFrom (prev : Rat) (xs : List Rat) (hp : AllPos (prev :: xs)) :
    allSome (ratiosFrom prev xs) = some (multiplesFrom prev xs) := by
  induction xs generalizing prev with
  | nil => rfl
  | cons x r ih =>
    have hprev : prev ≠ 0 := ne_of_gt hp.head
    simp only [ratiosFrom, multiplesFrom, hprev, if_false, allSome, ih x hp.tail, Option.map_some]

theorem Metrics.map_sub_add_one (ms : List Rat) : (ms.map (· - 1)).map (· + 1) = ms := by
  rw [List.map_map]
  conv_rhs => rw [← List.map_id ms]
  apply List.map_congr_left
  intro a _
  simp

/-- the compound annualised return of a positive series computed from its return multiples minus one is the one
    computed from its end points -/
theorem Metrics.annualized_of_multiples (o : Orc) (d x : Rat) (r : List Rat) (hp : AllPos (x :: r)) :
    annualizedReturn o .compound d { rates := some ((multiplesFrom x r).map (· - 1)) } =
      compoundOf o d (lastOf (x :: r) / x) := by
  simp only [annualizedReturn, map_sub_add_one, prod_multiplesFrom x r hp, lastOf, List.length_cons, Nat.add_sub_cancel]

/-- **Sharpe ratio = (APR − risk-free) / volatility**, with the APR by end points
    `(last/first) ** (365/duration) − 1` and the volatility `std(multiples) · sqrt(365/interval)` -/
theorem C20_sharpe_formula (o : Orc) (interval duration rf x : Rat) (r : List Rat) (hp : AllPos (x :: r))
    (hi : interval ≠ 0) (hd : duration ≠ 0) (p v s q : Rat)
    (hpow : o.pow (lastOf (x :: r) / x) (365 / duration) = some p)
    (hv : sampleVar (multiplesFrom x r) = .ok v) (hs : o.sqrt v = some s) (hq : o.sqrt (365 / interval) = some q)
    (hsq : s * q ≠ 0) :
    sharpeRatio o interval duration (x :: r) rf = .ok ((p - 1 - rf) / (s * q)) := by
  have hvol := C20_volatility_formula o (multiplesFrom x r) interval v s q hi hv hs hq
  unfold sharpeRatio
  simp only [shiftRatios, allSome_ratiosFrom x r hp, annualized_of_multiples o duration x r hp, compoundOf, hd, if_false,
    C20_days_per_year_pinned.1, hpow, hvol, hsq]

/-- the Sharpe ratio, like every ratio-based metric, does not change when the series is rescaled -/
theorem Metrics.ratiosFrom_scale (c : Rat) (hc : c ≠ 0) (prev : Rat) (xs : List Rat) :
    ratiosFrom (c * prev) (xs.map (c * ·)) = ratiosFrom prev xs := by
  induction xs generalizing prev with
  | nil => rfl
  | cons x r ih =>
    simp only [List.map_cons, ratiosFrom, ih, mul_eq_zero, hc, false_or, mul_div_mul_left _ _ hc]

theorem Metrics.shiftRatios_scale (c : Rat) (hc : c ≠ 0) (xs : List Rat) :
    shiftRatios (xs.map (c * ·)) = shiftRatios xs := by
  cases xs with
  | nil => rfl
  | cons x r => simp only [List.map_cons, shiftRatios, ratiosFrom_scale c hc]

theorem C20_sharpe_scale_invariant (o : Orc) (interval duration rf c : Rat) (hc : c ≠ 0) (xs : List Rat) :
    sharpeRatio o interval duration (xs.map (c * ·)) rf = sharpeRatio o interval duration xs rf := by
  unfold sharpeRatio
  rw [shiftRatios_scale c hc]

/-! ### alpha / beta -/

theorem Metrics.allSome_length (l : List (Option Rat)) (m : List Rat) (h : allSome l = some m) : l.length = m.length := by
  induction l generalizing m with
  | nil => simp [allSome] at h; subst h; rfl
  | cons a l ih =>
    cases a with
    | none => simp [allSome] at h
    | some a =>
      simp only [allSome, Option.map_eq_some_iff] at h
      obtain ⟨m', hm', rfl⟩ := h
      simp [ih m' hm']

/-- **beta = Σ(p − p̄)(b − b̄) / Σ(b − b̄)²** over two return series of equal length ≥ 2 (the `n − 1` of `np.cov` cancels);
    no oracle, no duration: beta does not depend on the APRs -/
theorem Metrics.betaOf_formula (p b : List Rat) (hlen : p.length = b.length) (hn : 2 ≤ b.length) (hvar : devProd b b ≠ 0) :
    betaOf p b = .ok (some (devProd p b / devProd b b)) := by
  have hn1 : ((b.length : Rat) - 1) ≠ 0 := by
    have : (2 : Rat) ≤ (b.length : Rat) := by exact_mod_cast hn
    intro h; linarith
  have hc1 : cov p b = .ok (devProd p b / ((b.length : Rat) - 1)) := by
    unfold cov
    rw [if_neg (by simp [hlen]), if_neg (by omega), hlen]
  have hc2 : cov b b = .ok (devProd b b / ((b.length : Rat) - 1)) := by
    unfold cov
    rw [if_neg (by simp), if_neg (by omega)]
  have hne : devProd b b / ((b.length : Rat) - 1) ≠ 0 := div_ne_zero hvar hn1
  unfold betaOf
  simp only [hc1, hc2, soft, hne, if_false]
  congr 2
  field_simp

/-- with fewer than two returns (`np.cov` answers nan) or a benchmark of zero variance beta is nan/inf -/
theorem Metrics.betaOf_degenerate (p b : List Rat) (hlen : p.length = b.length) (h : b.length ≤ 1 ∨ devProd b b = 0) :
    betaOf p b = .ok none := by
  by_cases h1 : b.length ≤ 1
  · have hc1 : cov p b = .error .nonfinite := by
      unfold cov; rw [if_neg (by simp [hlen]), if_pos (by omega)]
    have hc2 : cov b b = .error .nonfinite := by
      unfold cov; rw [if_neg (by simp), if_pos h1]
    simp only [betaOf, hc1, hc2, soft]
  · have h0 : devProd b b = 0 := by
      rcases h with h | h
      · exact absurd h h1
      · exact h
    have hc1 : cov p b = .ok (devProd p b / ((b.length : Rat) - 1)) := by
      unfold cov; rw [if_neg (by simp [hlen]), if_neg (by omega), hlen]
    have hc2 : cov b b = .ok 0 := by
      unfold cov; rw [if_neg (by simp), if_neg h1, h0, zero_div]
    simp only [betaOf, hc1, hc2, soft, if_true]

/-- the shape of `alpha_beta` on two positive series of equal length: `(alphaOf APR_p APR_b beta, beta)` with
    `beta = betaOf` of the two multiple series and the APRs by end points, each a value of its own -/
theorem Metrics.alphaBeta_pos (o : Orc) (duration x y : Rat) (r t : List Rat)
    (hp : AllPos (x :: r)) (hb : AllPos (y :: t)) (hlen : r.length = t.length) (hd : duration ≠ 0) (beta : Val)
    (hbeta : betaOf (multiplesFrom x r) (multiplesFrom y t) = .ok beta) :
    ∃ pa ba, soft (compoundOf o duration (lastOf (x :: r) / x)) = .ok pa ∧
      soft (compoundOf o duration (lastOf (y :: t) / y)) = .ok ba ∧
      alphaBeta o (x :: r) (y :: t) duration = .ok (alphaOf pa ba beta, beta) := by
  have hsome1 := allSome_ratiosFrom x r hp
  have hsome2 := allSome_ratiosFrom y t hb
  have hlr : (ratiosFrom x r).length = (ratiosFrom y t).length := by
    rw [allSome_length _ _ hsome1, allSome_length _ _ hsome2, length_multiplesFrom, length_multiplesFrom, hlen]
  have hsoft : ∀ base : Rat, ∃ v, soft (compoundOf o duration base) = .ok v := by
    intro base
    unfold compoundOf
    rw [if_neg hd]
    cases o.pow base (daysPerYear / duration) with
    | none => exact ⟨none, rfl⟩
    | some v => exact ⟨some (v - 1), rfl⟩
  obtain ⟨pa, hpa⟩ := hsoft (lastOf (x :: r) / x)
  obtain ⟨ba, hba⟩ := hsoft (lastOf (y :: t) / y)
  refine ⟨pa, ba, hpa, hba, ?_⟩
  unfold alphaBeta
  simp only [shiftRatios, hlr, ne_eq, not_true_eq_false, if_false, hd, hsome1, hsome2, hbeta,
    annualized_of_multiples o duration x r hp, annualized_of_multiples o duration y t hb, hpa, hba]

/-- **beta = Σ(p − p̄)(b − b̄) / Σ(b − b̄)²** over the two return series (the `n − 1` of `np.cov` cancels) and
    **alpha = APR(portfolio) − beta · APR(benchmark)**, both APRs by end points -/
theorem C20_alpha_beta_formula (o : Orc) (duration x y : Rat) (r t : List Rat)
    (hp : AllPos (x :: r)) (hb : AllPos (y :: t)) (hlen : r.length = t.length) (hn : 2 ≤ r.length)
    (hd : duration ≠ 0) (pa ba : Rat)
    (hpa : o.pow (lastOf (x :: r) / x) (365 / duration) = some pa)
    (hba : o.pow (lastOf (y :: t) / y) (365 / duration) = some ba)
    (hvar : devProd (multiplesFrom y t) (multiplesFrom y t) ≠ 0) :
    let beta := devProd (multiplesFrom x r) (multiplesFrom y t) / devProd (multiplesFrom y t) (multiplesFrom y t)
    alphaBeta o (x :: r) (y :: t) duration = .ok (some ((pa - 1) - beta * (ba - 1)), some beta) := by
  intro beta
  have hbeta := betaOf_formula (multiplesFrom x r) (multiplesFrom y t)
    (by rw [length_multiplesFrom, length_multiplesFrom, hlen]) (by rw [length_multiplesFrom]; omega) hvar
  obtain ⟨pa', ba', h1, h2, h3⟩ := alphaBeta_pos o duration x y r t hp hb hlen hd _ hbeta
  simp only [compoundOf, hd, if_false, C20_days_per_year_pinned.1, hpa, hba, soft, Except.ok.injEq] at h1 h2
  rw [h3, ← h1, ← h2]
  rfl

/-- **beta is computed before, and independently of, the two APRs**: whatever `pow` answers — finite or overflowing to
    inf (`none`) — beta of two positive series with a non-constant benchmark is the covariance ratio; alpha is finite
    exactly when both APRs are, and nan/inf otherwise (the code returns `(inf, beta)`, not `(nan, nan)`) -/
theorem C20_beta_independent_of_apr (o : Orc) (duration x y : Rat) (r t : List Rat)
    (hp : AllPos (x :: r)) (hb : AllPos (y :: t)) (hlen : r.length = t.length) (hn : 2 ≤ r.length)
    (hd : duration ≠ 0) (hvar : devProd (multiplesFrom y t) (multiplesFrom y t) ≠ 0) :
    ∃ alpha : Val, alphaBeta o (x :: r) (y :: t) duration =
        .ok (alpha, some (devProd (multiplesFrom x r) (multiplesFrom y t) / devProd (multiplesFrom y t) (multiplesFrom y t))) ∧
      (alpha.isSome ↔ (o.pow (lastOf (x :: r) / x) (365 / duration)).isSome ∧
                      (o.pow (lastOf (y :: t) / y) (365 / duration)).isSome) := by
  have hbeta := betaOf_formula (multiplesFrom x r) (multiplesFrom y t)
    (by rw [length_multiplesFrom, length_multiplesFrom, hlen]) (by rw [length_multiplesFrom]; omega) hvar
  obtain ⟨pa, ba, h1, h2, h3⟩ := alphaBeta_pos o duration x y r t hp hb hlen hd _ hbeta
  refine ⟨_, h3, ?_⟩
  simp only [compoundOf, hd, if_false, C20_days_per_year_pinned.1] at h1 h2
  cases hpw : o.pow (lastOf (x :: r) / x) (365 / duration) <;> cases hbw : o.pow (lastOf (y :: t) / y) (365 / duration) <;>
    simp only [hpw, hbw, soft, Except.ok.injEq] at h1 h2 <;> subst h1 <;> subst h2 <;> simp [alphaOf]

/-- fewer than two returns or a constant benchmark: beta **and** alpha are nan/inf (never a silently wrong number) -/
theorem C20_alpha_beta_degenerate (o : Orc) (duration x y : Rat) (r t : List Rat)
    (hp : AllPos (x :: r)) (hb : AllPos (y :: t)) (hlen : r.length = t.length) (hd : duration ≠ 0)
    (hdeg : r.length ≤ 1 ∨ devProd (multiplesFrom y t) (multiplesFrom y t) = 0) :
    alphaBeta o (x :: r) (y :: t) duration = .ok (none, none) := by
  have hbeta := betaOf_degenerate (multiplesFrom x r) (multiplesFrom y t)
    (by rw [length_multiplesFrom, length_multiplesFrom, hlen]) (by rw [length_multiplesFrom, ← hlen]; exact hdeg)
  obtain ⟨pa, ba, _, _, h3⟩ := alphaBeta_pos o duration x y r t hp hb hlen hd _ hbeta
  rw [h3]
  cases pa <;> cases ba <;> rfl

/-- a portfolio measured against itself has beta 1 and alpha 0 -/
theorem C20_beta_of_self (o : Orc) (duration x : Rat) (r : List Rat) (hp : AllPos (x :: r)) (hn : 2 ≤ r.length)
    (hd : duration ≠ 0) (pa : Rat) (hpa : o.pow (lastOf (x :: r) / x) (365 / duration) = some pa)
    (hvar : devProd (multiplesFrom x r) (multiplesFrom x r) ≠ 0) :
    alphaBeta o (x :: r) (x :: r) duration = .ok (some 0, some 1) := by
  have h := C20_alpha_beta_formula o duration x x r r hp hp rfl hn hd pa pa hpa hpa hvar
  simp only [div_self hvar, one_mul, sub_self] at h
  exact h

/-! ### performance_metrics -/

/-- **every entry of `performance_metrics` is the corresponding metric function** applied to the series, to the
    interval `(t1 − t0) / 1e9 / 86400` days and the duration `(tEnd − t0 + (t1 − t0)) / 1e9 / 86400` days derived
    from the index (n · interval for a regular index); a nan/inf entry is reported as `none` -/
theorem C20_perf_entries (o : Orc) (t0 t1 tEnd : Int) (values : List Rat) (rf : Rat) (bench : Option (List Rat))
    (p : Perf) (h : performanceMetrics o t0 t1 tEnd values rf bench = .ok p) :
    p.intervalInDay = ((t1 - t0 : Int) : Rat) / 1000000000 / 86400 ∧
    p.durationInDay = ((tEnd - t0 + (t1 - t0) : Int) : Rat) / 1000000000 / 86400 ∧
    p.startVal = nth values 0 ∧ p.endVal = lastOf values ∧ p.returnValue = lastOf values - nth values 0 ∧
    soft (returnRate (nth values 0) (lastOf values)) = .ok p.returnRate ∧
    soft (annualizedReturn o .compound p.durationInDay { init := some (nth values 0), final := some (lastOf values) })
      = .ok p.annualized ∧
    soft (maxDrawDown values) = .ok p.mdd ∧
    soft (sharpeRatio o p.intervalInDay p.durationInDay values rf) = .ok p.sharpe ∧
    soft (perfVolatility o values p.intervalInDay) = .ok p.volatility ∧
    perfBench o values p.durationInDay bench = .ok (p.alpha, p.beta, p.benchRate, p.benchApr) := by
  unfold performanceMetrics at h
  split at h
  · exact absurd h (by simp)
  · simp only [] at h
    split at h
    all_goals (try (simp only [reduceCtorEq] at h))
    rename_i h1 h2 h3 h4 h5 h6
    simp only [Except.ok.injEq] at h
    subst h
    simp only [C20_stat_constants_pinned.2.1, C20_stat_constants_pinned.2.2] at h1 h2 h3 h4 h5 h6 ⊢
    simp only [lastOf, returnValue, h1, h2, h3, h4, h5, h6, and_self]

/-- for a positive series with at least two points the reported drawdown and rate of return are their definitions -/
theorem C20_perf_reports_definitions (o : Orc) (t0 t1 tEnd : Int) (values : List Rat) (rf : Rat) (bench : Option (List Rat))
    (hp : AllPos values) (p : Perf) (h : performanceMetrics o t0 t1 tEnd values rf bench = .ok p) :
    p.mdd = some (mddSpec values) ∧ p.returnRate = some ((lastOf values - nth values 0) / nth values 0) := by
  have hne : values ≠ [] := by
    intro e; subst e; simp [performanceMetrics] at h
  obtain ⟨_, _, _, _, _, hr, _, hm, _⟩ := C20_perf_entries o t0 t1 tEnd values rf bench p h
  rw [C20_mdd_code_eq_definition values hp hne] at hm
  rw [(C20_total_return_forms_agree values hp hne).2.2] at hr
  simp only [soft, Except.ok.injEq] at hm hr
  exact ⟨hm.symm, hr.symm⟩

/-- the Sharpe ratio and the volatility **as reported by `performance_metrics`** for a positive series: with
    `d`, `i` the duration and interval derived from the index, `sharpe = ((last/first)^(365/d) − 1 − rf) / volatility` and
    `volatility = std(return multiples) · sqrt(365/i)` — the reported volatility (computed from `pct_change`) is exactly
    the Sharpe denominator -/
theorem C20_perf_sharpe_and_volatility (o : Orc) (t0 t1 tEnd : Int) (x : Rat) (r : List Rat) (rf : Rat)
    (bench : Option (List Rat)) (p : Perf) (h : performanceMetrics o t0 t1 tEnd (x :: r) rf bench = .ok p)
    (hp : AllPos (x :: r)) (hi : p.intervalInDay ≠ 0) (hd : p.durationInDay ≠ 0) (pw v s q : Rat)
    (hpow : o.pow (lastOf (x :: r) / x) (365 / p.durationInDay) = some pw)
    (hv : sampleVar (multiplesFrom x r) = .ok v) (hs : o.sqrt v = some s) (hq : o.sqrt (365 / p.intervalInDay) = some q)
    (hsq : s * q ≠ 0) :
    p.sharpe = some ((pw - 1 - rf) / (s * q)) ∧ p.volatility = some (s * q) := by
  obtain ⟨_, _, _, _, _, _, _, _, hsh, hvol, _⟩ := C20_perf_entries o t0 t1 tEnd (x :: r) rf bench p h
  rw [C20_sharpe_formula o p.intervalInDay p.durationInDay rf x r hp hi hd pw v s q hpow hv hs hq hsq] at hsh
  have hvol' : perfVolatility o (x :: r) p.intervalInDay = .ok (s * q) := by
    unfold perfVolatility
    simp only [shiftRatios, allSome_ratiosFrom x r hp]
    rw [C20_volatility_rates_eq_multiples]
    exact C20_volatility_formula o (multiplesFrom x r) p.intervalInDay v s q hi hv hs hq
  rw [hvol'] at hvol
  simp only [soft, Except.ok.injEq] at hsh hvol
  exact ⟨hsh.symm, hvol.symm⟩

/-- for a regular index (`tEnd − t0 = (n − 1)·(t1 − t0)`) the duration is `n` sampling intervals, whatever the interval -/
theorem C20_perf_duration_regular_index (o : Orc) (t0 t1 tEnd : Int) (values : List Rat) (rf : Rat) (bench : Option (List Rat))
    (p : Perf) (h : performanceMetrics o t0 t1 tEnd values rf bench = .ok p)
    (hreg : tEnd - t0 = ((values.length : Int) - 1) * (t1 - t0)) :
    p.durationInDay = values.length * p.intervalInDay := by
  obtain ⟨hi, hd, _⟩ := C20_perf_entries o t0 t1 tEnd values rf bench p h
  rw [hi, hd, hreg]
  push_cast
  ring

/-- alpha/beta and the reported volatility, like the Sharpe ratio, are unchanged when the series (and the benchmark)
    are rescaled: they depend on the ratio series only -/
theorem C20_ratio_metrics_scale_invariant (o : Orc) (interval duration c c' : Rat) (hc : c ≠ 0) (hc' : c' ≠ 0)
    (xs bs : List Rat) :
    alphaBeta o (xs.map (c * ·)) (bs.map (c' * ·)) duration = alphaBeta o xs bs duration ∧
    perfVolatility o (xs.map (c * ·)) interval = perfVolatility o xs interval := by
  unfold alphaBeta perfVolatility
  rw [shiftRatios_scale c hc, shiftRatios_scale c' hc']
  exact ⟨rfl, rfl⟩

/-! ### non-vacuity -/
example : sampleVar [1, 2, 4] = .ok (7/3) ∧ cov [1, 2, 4] [1, 3, 2] = .ok (1/2) := by decide +kernel
example : sampleVar [1] = .error .nonfinite := by decide +kernel
example : devProd (multiplesFrom 1 [2, 3, 6]) (multiplesFrom 1 [2, 3, 6]) ≠ 0 := by decide +kernel
example : alphaBeta ⟨fun b _ => some b, fun _ => none⟩ [1, 2, 3, 6] [1, 2, 3, 6] 365 = .ok (some 0, some 1) := by decide +kernel
-- an overflowing APR (`pow` answers inf) leaves beta finite: the hypotheses of `C20_beta_independent_of_apr` with `pow = none`
example : alphaBeta ⟨fun _ _ => none, fun _ => none⟩ [1, 2, 3, 6] [1, 2, 3, 5] 365 = .ok (none, some (6/7)) := by decide +kernel
example : alphaBeta ⟨fun b _ => some b, fun _ => none⟩ [1, 2, 3, 6] [1, 2, 4, 8] 365 = .ok (none, none) := by decide +kernel

end Demeter
