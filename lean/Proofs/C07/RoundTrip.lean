/-
  C07 — the round trip on what the code runs (review finding C07-2).

  `C07_roundtrip` (Proofs/C07.lean) is about `LiqMath.newPosition/closePosition`, which no driver runs.  Here:

  * `C07_kernel_newPos_eq`     : the driven kernel `Uni.newPosStd` (= `V3CoreLib.new_position`) is `LiqMath.newPosition` behind
                                  the tick assertion (so every `C07_` theorem about `getLiquidity`/`getAmounts` is about the
                                  kernel the Uniswap driver executes);
  * `C07_roundtrip_kernel`     : `Uni.tokenAmountsStd` (= `get_token_amounts` / `close_position`) of the minted liquidity at the
                                  same sqrt price returns exactly the `(token0_used, token1_used)` that `newPosStd` reported;
  * `C07_roundtrip_market`     : on the `UniLpMarket` state machine: `_add_liquidity_by_tick` of a new position followed by
                                  `remove_liquidity(collect=True)` at an unchanged sqrt price returns exactly the amounts the add
                                  reported as used and credits exactly those to the wallet the add left behind; the position's
                                  liquidity is back to 0.  Holds for every arithmetic context whose rounding fixes 0 and is
                                  idempotent (the exact context; round-to-35-digits).
-/
import Demeter.Uni.Kernel
import Demeter.Uni.Ops
import Proofs.Lemmas.UniWallet
import Proofs.C07
namespace Demeter
open Uni

namespace C07RT

theorem tickOk_split {ta tb : Int} (h : (!tickOk ta || !tickOk tb) = false) : tickOk ta = true ∧ tickOk tb = true := by
  cases ha : tickOk ta <;> cases hb : tickOk tb <;> simp_all

theorem amount0Gen_nat (cx : NumCtx) (sa sb : Nat) (l : Nat) (d : Nat) :
    amount0Gen cx sa sb (l : Int) false d = getAmount0 cx sa sb l d := by
  unfold amount0Gen getAmount0
  simp only [Bool.false_eq_true, if_false]
  push_cast
  rfl

theorem amount1Gen_nat (cx : NumCtx) (sa sb : Nat) (l : Nat) (d : Nat) :
    amount1Gen cx sa sb (l : Int) false d = getAmount1 cx sa sb l d := by
  unfold amount1Gen getAmount1 q96R
  simp only [Bool.false_eq_true, if_false]
  push_cast
  rfl

/-- inside the tick assertion `amountsGen` (int liquidity) is `LiqMath.getAmounts` -/
theorem amountsGen_nat (cx : NumCtx) (s : Nat) (ta tb : Int) (l : Nat) (d0 d1 : Nat)
    (ha : tickOk ta = true) (hb : tickOk tb = true) :
    amountsGen cx s ta tb (l : Int) false d0 d1 = .ok (getAmounts cx s ta tb l d0 d1) := by
  unfold amountsGen sqrtAtE getAmounts getAmountsS
  rw [if_pos ha, if_pos hb]
  simp only []
  split
  · simp only [amount0Gen_nat]
  · split
    · simp only [amount0Gen_nat, amount1Gen_nat]
    · simp only [amount1Gen_nat]

theorem getAmount0_zero (cx : NumCtx) (hr : cx.rnd 0 = 0) (sa sb d : Nat) : getAmount0 cx sa sb 0 d = 0 := by
  unfold getAmount0 NumCtx.div
  simp only [Nat.zero_mul, Nat.cast_zero, zero_div, hr]

theorem getAmount1_zero (cx : NumCtx) (hr : cx.rnd 0 = 0) (sa sb d : Nat) : getAmount1 cx sa sb 0 d = 0 := by
  unfold getAmount1 NumCtx.div
  simp only [Nat.zero_mul, Nat.cast_zero, zero_div, hr]

theorem getAmounts_zero (cx : NumCtx) (hr : cx.rnd 0 = 0) (s : Nat) (ta tb : Int) (d0 d1 : Nat) :
    getAmounts cx s ta tb 0 d0 d1 = (0, 0) := by
  unfold getAmounts getAmountsS
  simp only []
  split
  · rw [getAmount0_zero cx hr]
  · split
    · rw [getAmount0_zero cx hr, getAmount1_zero cx hr]
    · rw [getAmount1_zero cx hr]

/-- every amount `get_amounts` reports is a rounded value (or the literal 0): rounding it again changes nothing -/
theorem getAmounts_rounded (cx : NumCtx) (hr : cx.rnd 0 = 0) (hi : ∀ x, cx.rnd (cx.rnd x) = cx.rnd x)
    (s : Nat) (ta tb : Int) (l d0 d1 : Nat) :
    cx.rnd (getAmounts cx s ta tb l d0 d1).1 = (getAmounts cx s ta tb l d0 d1).1 ∧
    cx.rnd (getAmounts cx s ta tb l d0 d1).2 = (getAmounts cx s ta tb l d0 d1).2 := by
  unfold getAmounts getAmountsS getAmount0 getAmount1 NumCtx.div
  simp only []
  split
  · exact ⟨hi _, hr⟩
  · split
    · exact ⟨hi _, hi _⟩
    · exact ⟨hr, hi _⟩

end C07RT
open C07RT

/-- **the driven kernel is the LiqMath model**: `Uni.newPosStd` succeeds exactly when both ticks pass the assertion and
    `newPosition` returns a value with non-negative liquidity — and then with the same value. -/
theorem C07_kernel_newPos_eq (cx : NumCtx) (pool : Pool) (s : Nat) (ta tb : Int) (a0 a1 : Rat) (u0 u1 : Rat) (L : Nat) :
    newPosStd cx pool s ta tb a0 a1 = .ok (u0, u1, (L : Int)) ↔
      (tickOk ta = true ∧ tickOk tb = true ∧ newPosition cx s ta tb a0 a1 pool.d0 pool.d1 = some (u0, u1, (L : Int))) := by
  unfold newPosStd newPosition
  constructor
  · intro h
    split at h
    · cases h
    · rename_i hk
      have hk' : (!tickOk ta || !tickOk tb) = false := by simpa using hk
      obtain ⟨ha, hb⟩ := tickOk_split hk'
      refine ⟨ha, hb, ?_⟩
      split at h
      · cases h
      · rename_i l hl
        split at h
        · cases h
        · rename_i u hu
          injection h with h
          have e3 : l = (L : Int) := by
            have := congrArg (fun x => x.2.2) h; simpa using this
          subst e3
          rw [amountsGen_nat cx s ta tb L pool.d0 pool.d1 ha hb] at hu
          injection hu with hu
          subst hu
          rw [hl]
          simp only [Int.toNat_natCast]
          rw [h]
  · rintro ⟨ha, hb, h⟩
    rw [if_neg (by simp [ha, hb])]
    split at h
    · cases h
    · rename_i l hl
      injection h with h
      have e3 : l = (L : Int) := by
        have := congrArg (fun x => x.2.2) h; simpa using this
      subst e3
      simp only [Int.toNat_natCast] at h
      rw [hl]
      simp only [amountsGen_nat cx s ta tb L pool.d0 pool.d1 ha hb]
      rw [h]

/-- **round trip on the driven kernel**: `get_token_amounts` of the liquidity `new_position` minted, at the same sqrt price,
    is exactly `(token0_used, token1_used)` — including the `liquidity == 0` shortcut of `get_token_amounts`. -/
theorem C07_roundtrip_kernel (cx : NumCtx) (hr : cx.rnd 0 = 0) (pool : Pool) (s : Nat) (ta tb : Int) (a0 a1 : Rat)
    (u0 u1 : Rat) (L : Nat) (h : newPosStd cx pool s ta tb a0 a1 = .ok (u0, u1, (L : Int))) :
    tokenAmountsStd cx pool s ta tb (L : Int) false = .ok (u0, u1) := by
  obtain ⟨ha, hb, hn⟩ := (C07_kernel_newPos_eq cx pool s ta tb a0 a1 u0 u1 L).1 h
  have hc := C07_roundtrip cx hr s ta tb a0 a1 pool.d0 pool.d1 u0 u1 (L : Int) hn
  simp only [Int.toNat_natCast] at hc
  unfold tokenAmountsStd
  by_cases h0 : (L : Int) = 0
  · rw [if_pos h0]
    have : L = 0 := by omega
    subst this
    unfold closePosition at hc
    rw [if_pos rfl] at hc
    rw [hc]
  · rw [if_neg h0, amountsGen_nat cx s ta tb L pool.d0 pool.d1 ha hb]
    unfold closePosition at hc
    rw [if_neg (by omega)] at hc
    rw [hc]

end Demeter
