/-
  C07 — ε-robust versions: the amounts the code reports are Decimals (`get_amount0` rounds three quotients, `get_amount1`
  two), the theorems of Proofs/C07.lean are about the exact rationals `amount0Wei / amount1Wei`.  Here the two are tied
  together for every arithmetic context whose rounding has relative error ≤ ε, and instantiated with the *proved* error
  of the model's 35-digit arithmetic (`NumCtx.pyG`, Proofs/Numerics.lean: ε = 5·10⁻³⁵): the reported amounts agree with
  the closed-form Uniswap v3 formulas to 10⁻³⁰ relative (the property's figure), never exceed the offered amounts by more
  than that, and stay one-sided / non-negative exactly.  (The liquidity itself is integer arithmetic: no rounding.)
-/
import Proofs.C07
import Proofs.Numerics
namespace Demeter

/-- relative rounding error ≤ ε on non-negative values (the shape `Num_pyG_rnd` proves for the 35-digit context) -/
def LiqRelRnd (cx : NumCtx) (ε : Rat) : Prop :=
  ∀ x : Rat, 0 ≤ x → x * (1 - ε) ≤ cx.rnd x ∧ cx.rnd x ≤ x * (1 + ε)

namespace LiqRound

/-- one rounded quotient by a positive constant keeps a two-sided relative enclosure, one factor (1 ± ε) wider -/
theorem div_step {cx : NumCtx} {ε : Rat} (h : LiqRelRnd cx ε) (hε0 : 0 ≤ ε) (hε1 : ε ≤ 1) {x lo hi c : Rat}
    (hlo : 0 ≤ lo) (hx1 : lo ≤ x) (hx2 : x ≤ hi) (hc : 0 < c) :
    0 ≤ lo / c * (1 - ε) ∧ lo / c * (1 - ε) ≤ cx.div x c ∧ cx.div x c ≤ hi / c * (1 + ε) := by
  have hx0 : 0 ≤ x := le_trans hlo hx1
  have hq : 0 ≤ x / c := div_nonneg hx0 (le_of_lt hc)
  obtain ⟨r1, r2⟩ := h (x / c) hq
  have h1 : lo / c ≤ x / c := div_le_div_of_nonneg_right hx1 (le_of_lt hc)
  have h2 : x / c ≤ hi / c := div_le_div_of_nonneg_right hx2 (le_of_lt hc)
  have e1 : 0 ≤ 1 - ε := by linarith
  have e2 : 0 ≤ 1 + ε := by linarith
  refine ⟨mul_nonneg (div_nonneg hlo (le_of_lt hc)) e1, ?_, ?_⟩
  · calc lo / c * (1 - ε) ≤ x / c * (1 - ε) := mul_le_mul_of_nonneg_right h1 e1
      _ ≤ cx.div x c := r1
  · calc cx.div x c ≤ x / c * (1 + ε) := r2
      _ ≤ hi / c * (1 + ε) := mul_le_mul_of_nonneg_right h2 e2

end LiqRound

open LiqRound

/-- `get_amount0` (three rounded quotients) encloses the exact amount within `(1 ± ε)³` -/
theorem C07_amount0_rounded (cx : NumCtx) (ε : Rat) (h : LiqRelRnd cx ε) (hε0 : 0 ≤ ε) (hε1 : ε ≤ 1)
    (sa sb l d : Nat) (h0 : 0 < sa) (hab : sa < sb) :
    amount0Wei sa sb l / ((pow10 d : Nat) : Rat) * (1 - ε) ^ 3 ≤ getAmount0 cx sa sb l d ∧
    getAmount0 cx sa sb l d ≤ amount0Wei sa sb l / ((pow10 d : Nat) : Rat) * (1 + ε) ^ 3 := by
  have hsa : (0 : Rat) < (sa : Rat) := by exact_mod_cast h0
  have hsb : (0 : Rat) < (sb : Rat) := by exact_mod_cast (by omega : 0 < sb)
  have hp : (0 : Rat) < ((pow10 d : Nat) : Rat) := by
    have : 0 < pow10 d := by unfold pow10; positivity
    exact_mod_cast this
  set N : Rat := ((l * Q96 * (sb - sa) : Nat) : Rat) with hN
  have hN0 : (0 : Rat) ≤ N := by rw [hN]; exact_mod_cast Nat.zero_le _
  obtain ⟨a0, a1, a2⟩ := div_step h hε0 hε1 hN0 (le_refl N) (le_refl N) hsb
  obtain ⟨b0, b1, b2⟩ := div_step h hε0 hε1 a0 a1 a2 hsa
  obtain ⟨_, c1, c2⟩ := div_step h hε0 hε1 b0 b1 b2 hp
  have hg : getAmount0 cx sa sb l d = cx.div (cx.div (cx.div N sb) sa) ((pow10 d : Nat) : Rat) := by
    unfold getAmount0; rw [sortPair_lt hab]
  have he : amount0Wei sa sb l = N / ((sb : Rat) * sa) := amount0Wei_eq sa sb l hab
  rw [hg, he]
  constructor
  · calc N / ((sb : Rat) * sa) / ((pow10 d : Nat) : Rat) * (1 - ε) ^ 3
        = N / sb * (1 - ε) / sa * (1 - ε) / ((pow10 d : Nat) : Rat) * (1 - ε) := by field_simp
      _ ≤ _ := c1
  · calc cx.div (cx.div (cx.div N sb) sa) ((pow10 d : Nat) : Rat)
        ≤ N / sb * (1 + ε) / sa * (1 + ε) / ((pow10 d : Nat) : Rat) * (1 + ε) := c2
      _ = N / ((sb : Rat) * sa) / ((pow10 d : Nat) : Rat) * (1 + ε) ^ 3 := by field_simp

/-- `get_amount1` (two rounded quotients) encloses the exact amount within `(1 ± ε)²` -/
theorem C07_amount1_rounded (cx : NumCtx) (ε : Rat) (h : LiqRelRnd cx ε) (hε0 : 0 ≤ ε) (hε1 : ε ≤ 1)
    (sa sb l d : Nat) (hab : sa < sb) :
    amount1Wei sa sb l / ((pow10 d : Nat) : Rat) * (1 - ε) ^ 2 ≤ getAmount1 cx sa sb l d ∧
    getAmount1 cx sa sb l d ≤ amount1Wei sa sb l / ((pow10 d : Nat) : Rat) * (1 + ε) ^ 2 := by
  have hq : (0 : Rat) < ((Q96 : Nat) : Rat) := by exact_mod_cast Q96_pos
  have hp : (0 : Rat) < ((pow10 d : Nat) : Rat) := by
    have : 0 < pow10 d := by unfold pow10; positivity
    exact_mod_cast this
  set N : Rat := ((l * (sb - sa) : Nat) : Rat) with hN
  have hN0 : (0 : Rat) ≤ N := by rw [hN]; exact_mod_cast Nat.zero_le _
  obtain ⟨a0, a1, a2⟩ := div_step h hε0 hε1 hN0 (le_refl N) (le_refl N) hq
  obtain ⟨_, b1, b2⟩ := div_step h hε0 hε1 a0 a1 a2 hp
  have hg : getAmount1 cx sa sb l d = cx.div (cx.div N ((Q96 : Nat) : Rat)) ((pow10 d : Nat) : Rat) := by
    unfold getAmount1; rw [sortPair_lt hab]
  have he : amount1Wei sa sb l = N / ((Q96 : Nat) : Rat) := amount1Wei_eq sa sb l hab
  rw [hg, he]
  constructor
  · calc N / ((Q96 : Nat) : Rat) / ((pow10 d : Nat) : Rat) * (1 - ε) ^ 2
        = N / ((Q96 : Nat) : Rat) * (1 - ε) / ((pow10 d : Nat) : Rat) * (1 - ε) := by ring
      _ ≤ _ := b1
  · calc cx.div (cx.div N ((Q96 : Nat) : Rat)) ((pow10 d : Nat) : Rat)
        ≤ N / ((Q96 : Nat) : Rat) * (1 + ε) / ((pow10 d : Nat) : Rat) * (1 + ε) := b2
      _ = N / ((Q96 : Nat) : Rat) / ((pow10 d : Nat) : Rat) * (1 + ε) ^ 2 := by ring

open Numerics in
/-- the 35-digit context has `LiqRelRnd` with ε = 5·10⁻³⁵ (proved in Proofs/Numerics.lean) -/
theorem C07_pyG_relRnd : LiqRelRnd NumCtx.pyG EPS35 := Num_pyG_rnd

open Numerics

theorem liqRound_eps35_cube : (1 + EPS35) ^ 3 ≤ 1 + 1 / 10 ^ 30 ∧ 1 - 1 / 10 ^ 30 ≤ (1 - EPS35) ^ 3 ∧
    (1 + EPS35) ^ 2 ≤ 1 + 1 / 10 ^ 30 ∧ 1 - 1 / 10 ^ 30 ≤ (1 - EPS35) ^ 2 := by
  rw [Num_EPS35.1]; norm_num

/-- **Agreement with the closed form to 10⁻³⁰ relative, in the code's own 35-digit arithmetic.**  Inside the range
    (`sa < s < sb`) the Decimals `get_amounts` reports for liquidity `L` differ from `L·(2⁹⁶/s − 2⁹⁶/sb)/10^d0` and
    `L·(s − sa)/2⁹⁶/10^d1` by at most 10⁻³⁰ of those values. -/
theorem C07_closed_form_round35 (s sa sb l d0 d1 : Nat) (h0 : 0 < sa) (h1 : sa < s) (h2 : s < sb) :
    let c0 := (l : Rat) * ((Q96 : Rat) / s - (Q96 : Rat) / sb) / ((pow10 d0 : Nat) : Rat)
    let c1 := (l : Rat) * ((s : Rat) / Q96 - (sa : Rat) / Q96) / ((pow10 d1 : Nat) : Rat)
    c0 * (1 - 1 / 10 ^ 30) ≤ (getAmountsS NumCtx.pyG s sa sb l d0 d1).1 ∧
    (getAmountsS NumCtx.pyG s sa sb l d0 d1).1 ≤ c0 * (1 + 1 / 10 ^ 30) ∧
    c1 * (1 - 1 / 10 ^ 30) ≤ (getAmountsS NumCtx.pyG s sa sb l d0 d1).2 ∧
    (getAmountsS NumCtx.pyG s sa sb l d0 d1).2 ≤ c1 * (1 + 1 / 10 ^ 30) := by
  intro c0 c1
  have hε := Num_EPS35
  have hs0 : 0 < s := by omega
  have e0 : EPS35 ≤ 1 := le_trans hε.2.2 (by norm_num)
  obtain ⟨A1, A2⟩ := C07_amount0_rounded NumCtx.pyG EPS35 C07_pyG_relRnd (le_of_lt hε.2.1) e0 s sb l d0 hs0 h2
  obtain ⟨B1, B2⟩ := C07_amount1_rounded NumCtx.pyG EPS35 C07_pyG_relRnd (le_of_lt hε.2.1) e0 sa s l d1 h1
  have hg : getAmountsS NumCtx.pyG s sa sb l d0 d1 = (getAmount0 NumCtx.pyG s sb l d0, getAmount1 NumCtx.pyG sa s l d1) := by
    unfold getAmountsS
    rw [sortPair_lt (by omega : sa < sb)]
    simp only []
    rw [if_neg (by omega), if_pos h2]
  have hc0 : c0 = amount0Wei s sb l / ((pow10 d0 : Nat) : Rat) := by rw [C07_closed_form0 s sb l hs0 h2]
  have hc1 : c1 = amount1Wei sa s l / ((pow10 d1 : Nat) : Rat) := by rw [C07_closed_form1 sa s l h1]
  have hp0 : (0 : Rat) ≤ c0 := by
    rw [hc0]; exact div_nonneg (amount0Wei_nonneg _ _ _) (by exact_mod_cast Nat.zero_le _)
  have hp1 : (0 : Rat) ≤ c1 := by
    rw [hc1]; exact div_nonneg (amount1Wei_nonneg _ _ _) (by exact_mod_cast Nat.zero_le _)
  obtain ⟨k1, k2, k3, k4⟩ := liqRound_eps35_cube
  rw [hg]
  simp only []
  rw [← hc0] at A1 A2
  rw [← hc1] at B1 B2
  refine ⟨?_, ?_, ?_, ?_⟩
  · exact le_trans (mul_le_mul_of_nonneg_left k2 hp0) A1
  · exact le_trans A2 (mul_le_mul_of_nonneg_left k1 hp0)
  · exact le_trans (mul_le_mul_of_nonneg_left k4 hp1) B1
  · exact le_trans B2 (mul_le_mul_of_nonneg_left k3 hp1)

/-- **No over-spend in the code's own arithmetic** (inside the range; the one-sided cases have one literal zero and the
    same bound on the other side): the Decimal amounts reported for the minted liquidity exceed the offered amounts
    (`a0`, `a1` in wei) by at most 10⁻³⁰ relative — three, resp. two, roundings of 5·10⁻³⁵. -/
theorem C07_no_overspend_round35 (s sa sb a0 a1 d0 d1 : Nat) (h0 : 0 < sa) (h1 : sa < s) (h2 : s < sb) :
    let L := getLiquidityWei s sa sb a0 a1
    (getAmountsS NumCtx.pyG s sa sb L d0 d1).1 ≤ (a0 : Rat) / ((pow10 d0 : Nat) : Rat) * (1 + 1 / 10 ^ 30) ∧
    (getAmountsS NumCtx.pyG s sa sb L d0 d1).2 ≤ (a1 : Rat) / ((pow10 d1 : Nat) : Rat) * (1 + 1 / 10 ^ 30) := by
  intro L
  have hε := Num_EPS35
  have hs0 : 0 < s := by omega
  have e0 : EPS35 ≤ 1 := le_trans hε.2.2 (by norm_num)
  obtain ⟨_, A2⟩ := C07_amount0_rounded NumCtx.pyG EPS35 C07_pyG_relRnd (le_of_lt hε.2.1) e0 s sb L d0 hs0 h2
  obtain ⟨_, B2⟩ := C07_amount1_rounded NumCtx.pyG EPS35 C07_pyG_relRnd (le_of_lt hε.2.1) e0 sa s L d1 h1
  have hg : getAmountsS NumCtx.pyG s sa sb L d0 d1 = (getAmount0 NumCtx.pyG s sb L d0, getAmount1 NumCtx.pyG sa s L d1) := by
    unfold getAmountsS
    rw [sortPair_lt (by omega : sa < sb)]
    simp only []
    rw [if_neg (by omega), if_pos h2]
  have hno := C07_no_overspend s sa sb a0 a1 h0 (by omega : sa < sb)
  have hw : amountsWei s sa sb L = (amount0Wei s sb L, amount1Wei sa s L) := by
    unfold amountsWei; rw [if_neg (by omega), if_pos h2]
  rw [hw] at hno
  have hp0 : (0 : Rat) < ((pow10 d0 : Nat) : Rat) := by
    have : 0 < pow10 d0 := by unfold pow10; positivity
    exact_mod_cast this
  have hp1 : (0 : Rat) < ((pow10 d1 : Nat) : Rat) := by
    have : 0 < pow10 d1 := by unfold pow10; positivity
    exact_mod_cast this
  obtain ⟨k1, _, k3, _⟩ := liqRound_eps35_cube
  have q0 : amount0Wei s sb L / ((pow10 d0 : Nat) : Rat) ≤ (a0 : Rat) / ((pow10 d0 : Nat) : Rat) :=
    div_le_div_of_nonneg_right hno.1 (le_of_lt hp0)
  have q1 : amount1Wei sa s L / ((pow10 d1 : Nat) : Rat) ≤ (a1 : Rat) / ((pow10 d1 : Nat) : Rat) :=
    div_le_div_of_nonneg_right hno.2 (le_of_lt hp1)
  have n0 : (0 : Rat) ≤ amount0Wei s sb L / ((pow10 d0 : Nat) : Rat) := div_nonneg (amount0Wei_nonneg _ _ _) (le_of_lt hp0)
  have n1 : (0 : Rat) ≤ amount1Wei sa s L / ((pow10 d1 : Nat) : Rat) := div_nonneg (amount1Wei_nonneg _ _ _) (le_of_lt hp1)
  rw [hg]
  simp only []
  constructor
  · calc getAmount0 NumCtx.pyG s sb L d0 ≤ amount0Wei s sb L / ((pow10 d0 : Nat) : Rat) * (1 + EPS35) ^ 3 := A2
      _ ≤ amount0Wei s sb L / ((pow10 d0 : Nat) : Rat) * (1 + 1 / 10 ^ 30) := mul_le_mul_of_nonneg_left k1 n0
      _ ≤ (a0 : Rat) / ((pow10 d0 : Nat) : Rat) * (1 + 1 / 10 ^ 30) := mul_le_mul_of_nonneg_right q0 (by norm_num)
  · calc getAmount1 NumCtx.pyG sa s L d1 ≤ amount1Wei sa s L / ((pow10 d1 : Nat) : Rat) * (1 + EPS35) ^ 2 := B2
      _ ≤ amount1Wei sa s L / ((pow10 d1 : Nat) : Rat) * (1 + 1 / 10 ^ 30) := mul_le_mul_of_nonneg_left k3 n1
      _ ≤ (a1 : Rat) / ((pow10 d1 : Nat) : Rat) * (1 + 1 / 10 ^ 30) := mul_le_mul_of_nonneg_right q1 (by norm_num)

/-- one-sidedness is exact in every context: the vanishing side is the literal `0`, not a rounded difference -/
theorem C07_one_sided_any_ctx (cx : NumCtx) (s sa sb l d0 d1 : Nat) (hab : sa < sb) :
    (s ≤ sa → (getAmountsS cx s sa sb l d0 d1).2 = 0) ∧ (sb ≤ s → (getAmountsS cx s sa sb l d0 d1).1 = 0) := by
  unfold getAmountsS
  rw [sortPair_lt hab]
  simp only []
  constructor
  · intro h; rw [if_pos h]
  · intro h; rw [if_neg (by omega), if_neg (by omega)]

/-- non-vacuity: a position of liquidity 10¹⁸ in [2⁹⁶, 2·2⁹⁶] at price 1.5·2⁹⁶ meets the hypotheses -/
example : (0 : Nat) < 2 ^ 96 ∧ 2 ^ 96 < 3 * 2 ^ 95 ∧ 3 * 2 ^ 95 < 2 * 2 ^ 96 := by decide

end Demeter
