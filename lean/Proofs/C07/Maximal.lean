/-
  C07 — maximality of the minted liquidity, in all three price regimes (wei level; Proofs/C07/Token.lean lifts it to
  `get_liquidity` on token amounts and ticks).

  `C07_maximal0/1` (Proofs/C07.lean) bound each one-sided formula.  Here:
   * `C07_maximal_in_range` : inside the range the minted liquidity `min(L0, L1)` is short of the real-valued maximum
        `min(realMax0, realMax1)` by less than `1 + a0/(sb − s)` — the property's slack;
   * `C07_maximal_regimes`  : the three regimes in one statement;
   * `C07_succ_overspends`  : one more unit of liquidity over-spends: `L+1` needs more than `a1` of token1, or more than
        `a0·(1 − 2⁹⁶/(s·sb))` of token0 (the factor is the loss of `mul_div(sqrtA, sqrtB, 2**96)`'s floor, the `a0/(sb − s)`
        of the slack expressed as an amount; strictly more than `a0` cannot be claimed: `C07_succ_not_strict`).
-/
import Proofs.C07
namespace Demeter

theorem getLiquidityWei_below (s sa sb a0 a1 : Nat) (h : sa < sb) (hs : s ≤ sa) :
    getLiquidityWei s sa sb a0 a1 = liqForAmount0 sa sb a0 := by
  unfold getLiquidityWei; rw [sortPair_lt h]; simp only []; rw [if_pos hs]

theorem getLiquidityWei_above (s sa sb a0 a1 : Nat) (h : sa < sb) (hs : sb ≤ s) :
    getLiquidityWei s sa sb a0 a1 = liqForAmount1 sa sb a1 := by
  unfold getLiquidityWei; rw [sortPair_lt h]; simp only []; rw [if_neg (by omega), if_neg (by omega)]

theorem getLiquidityWei_inside (s sa sb a0 a1 : Nat) (h1 : sa < s) (h2 : s < sb) :
    getLiquidityWei s sa sb a0 a1 = min (liqForAmount0 s sb a0) (liqForAmount1 sa s a1) := by
  unfold getLiquidityWei; rw [sortPair_lt (by omega : sa < sb)]; simp only []
  rw [if_neg (by omega), if_pos h2]
  split <;> omega

/-- **maximality inside the range**: short of the real-valued maximum by less than one unit plus
    offered token0 / sqrt-price span -/
theorem C07_maximal_in_range (s sa sb a0 a1 : Nat) (h1 : sa < s) (h2 : s < sb) :
    min (realMax0 s sb a0) (realMax1 sa s a1) - (getLiquidityWei s sa sb a0 a1 : Rat)
      < 1 + (a0 : Rat) / ((sb : Rat) - s) := by
  rw [getLiquidityWei_inside s sa sb a0 a1 h1 h2]
  have m0 := C07_maximal0 s sb a0 h2
  have m1 := C07_maximal1 sa s a1 h1
  have hd : (0 : Rat) < (sb : Rat) - s := by
    have : (s : Rat) < sb := by exact_mod_cast h2
    linarith
  have hq : (0 : Rat) ≤ (a0 : Rat) / ((sb : Rat) - s) := div_nonneg (by positivity) hd.le
  by_cases hc : liqForAmount0 s sb a0 ≤ liqForAmount1 sa s a1
  · rw [Nat.min_eq_left hc]
    have := min_le_left (realMax0 s sb a0) (realMax1 sa s a1)
    linarith
  · rw [Nat.min_eq_right (by omega)]
    have := min_le_right (realMax0 s sb a0) (realMax1 sa s a1)
    linarith

/-- **maximality, all regimes**: below the range only token0 counts, above it only token1, inside both -/
theorem C07_maximal_regimes (s sa sb a0 a1 : Nat) (h : sa < sb) :
    (s ≤ sa → realMax0 sa sb a0 - (getLiquidityWei s sa sb a0 a1 : Rat) < 1 + (a0 : Rat) / ((sb : Rat) - sa)) ∧
    (sa < s → s < sb → min (realMax0 s sb a0) (realMax1 sa s a1) - (getLiquidityWei s sa sb a0 a1 : Rat)
        < 1 + (a0 : Rat) / ((sb : Rat) - s)) ∧
    (sb ≤ s → realMax1 sa sb a1 - (getLiquidityWei s sa sb a0 a1 : Rat) < 1) := by
  refine ⟨fun hs => ?_, fun h1 h2 => C07_maximal_in_range s sa sb a0 a1 h1 h2, fun hs => ?_⟩
  · rw [getLiquidityWei_below s sa sb a0 a1 h hs]; exact C07_maximal0 sa sb a0 h
  · rw [getLiquidityWei_above s sa sb a0 a1 h hs]; exact C07_maximal1 sa sb a1 h

/-! ### `L + 1` over-spends -/

theorem liq1_succ_overspends (sa sb a : Nat) (h : sa < sb) :
    (a : Rat) < amount1Wei sa sb (liqForAmount1 sa sb a + 1) := by
  rw [amount1Wei_eq _ _ _ h]
  have hq : (0 : Rat) < (Q96 : Rat) := by exact_mod_cast Q96_pos
  rw [lt_div_iff₀ hq]
  unfold liqForAmount1 mulDiv
  rw [sortPair_lt h]
  simp only []
  have := Nat.lt_div_mul_add (a := a * Q96) (b := sb - sa) (by omega)
  have e : (a * Q96 / (sb - sa) + 1) * (sb - sa) = a * Q96 / (sb - sa) * (sb - sa) + (sb - sa) := by ring
  exact_mod_cast (by omega : a * Q96 < (a * Q96 / (sb - sa) + 1) * (sb - sa))

theorem liq0_succ_overspends (sa sb a : Nat) (h0 : 0 < sa) (h : sa < sb) :
    (a : Rat) * (1 - (Q96 : Rat) / ((sa : Rat) * sb)) < amount0Wei sa sb (liqForAmount0 sa sb a + 1) := by
  rw [amount0Wei_eq _ _ _ h]
  have hsa : (0 : Rat) < (sa : Rat) := by exact_mod_cast h0
  have hsb : (0 : Rat) < (sb : Rat) := by exact_mod_cast (by omega : 0 < sb)
  have hp : (0 : Rat) < (sb : Rat) * sa := by positivity
  have hq : (0 : Rat) < (Q96 : Rat) := by exact_mod_cast Q96_pos
  rw [lt_div_iff₀ hp]
  unfold liqForAmount0 mulDiv
  rw [sortPair_lt h]
  simp only []
  set I := sa * sb / Q96 with hI
  set L := a * I / (sb - sa) with hL
  have k1 : a * I < (L + 1) * (sb - sa) := by
    have := Nat.lt_div_mul_add (a := a * I) (b := sb - sa) (by omega)
    rw [← hL] at this
    have e : (L + 1) * (sb - sa) = L * (sb - sa) + (sb - sa) := by ring
    omega
  have k2 : sa * sb < I * Q96 + Q96 := Nat.lt_div_mul_add Q96_pos
  have k1q : (a : Rat) * I < ((L + 1 : Nat) : Rat) * ((sb - sa : Nat) : Rat) := by exact_mod_cast k1
  have k2q : (sa : Rat) * sb < (I : Rat) * Q96 + Q96 := by exact_mod_cast k2
  have ha : (0 : Rat) ≤ (a : Rat) := by positivity
  have e1 : (a : Rat) * (1 - (Q96 : Rat) / ((sa : Rat) * sb)) * ((sb : Rat) * sa) = (a : Rat) * ((sa : Rat) * sb - Q96) := by
    field_simp
  rw [e1]
  have e2 : (((L + 1) * Q96 * (sb - sa) : Nat) : Rat) = ((L + 1 : Nat) : Rat) * ((sb - sa : Nat) : Rat) * Q96 := by
    push_cast; ring
  rw [e2]
  have s1 : (a : Rat) * ((sa : Rat) * sb - Q96) ≤ (a : Rat) * I * Q96 := by
    have : (sa : Rat) * sb - Q96 ≤ (I : Rat) * Q96 := by linarith
    calc (a : Rat) * ((sa : Rat) * sb - Q96) ≤ (a : Rat) * ((I : Rat) * Q96) := mul_le_mul_of_nonneg_left this ha
      _ = (a : Rat) * I * Q96 := by ring
  have s2 : (a : Rat) * I * Q96 < ((L + 1 : Nat) : Rat) * ((sb - sa : Nat) : Rat) * Q96 := mul_lt_mul_of_pos_right k1q hq
  linarith

/-- **`L + 1` over-spends** (up to the slack): one more unit of liquidity than `get_liquidity` mints needs more token1 than
    offered, or more token0 than `a0·(1 − 2⁹⁶/(lo·sb))` where `lo` is the lower sqrt price of the token0 leg. -/
theorem C07_succ_overspends (s sa sb a0 a1 : Nat) (h0 : 0 < sa) (h : sa < sb) :
    let L := getLiquidityWei s sa sb a0 a1
    (s ≤ sa → (a0 : Rat) * (1 - (Q96 : Rat) / ((sa : Rat) * sb)) < (amountsWei s sa sb (L + 1)).1) ∧
    (sa < s → s < sb → ((a0 : Rat) * (1 - (Q96 : Rat) / ((s : Rat) * sb)) < (amountsWei s sa sb (L + 1)).1 ∨
                        (a1 : Rat) < (amountsWei s sa sb (L + 1)).2)) ∧
    (sb ≤ s → (a1 : Rat) < (amountsWei s sa sb (L + 1)).2) := by
  intro L
  refine ⟨fun hs => ?_, fun h1 h2 => ?_, fun hs => ?_⟩
  · have hL : L = liqForAmount0 sa sb a0 := getLiquidityWei_below s sa sb a0 a1 h hs
    unfold amountsWei; rw [if_pos hs, hL]
    exact liq0_succ_overspends sa sb a0 h0 h
  · have hL : L = min (liqForAmount0 s sb a0) (liqForAmount1 sa s a1) := getLiquidityWei_inside s sa sb a0 a1 h1 h2
    unfold amountsWei; rw [if_neg (by omega), if_pos h2]
    simp only []
    by_cases hc : liqForAmount0 s sb a0 ≤ liqForAmount1 sa s a1
    · left; rw [hL, Nat.min_eq_left hc]; exact liq0_succ_overspends s sb a0 (by omega) h2
    · right; rw [hL, Nat.min_eq_right (by omega)]; exact liq1_succ_overspends sa s a1 h1
  · have hL : L = liqForAmount1 sa sb a1 := getLiquidityWei_above s sa sb a0 a1 h hs
    unfold amountsWei; rw [if_neg (by omega), if_neg (by omega), hL]
    exact liq1_succ_overspends sa sb a1 h

/-- the factor cannot be dropped: at the lowest ticks `mul_div(sqrtA, sqrtB, 2**96)` is 0, so `get_liquidity_for_amount0`
    mints nothing whatever is offered, and `L + 1 = 1` needs far less than the offered token0 -/
theorem C07_succ_not_strict :
    getLiquidityWei 4295128739 4295128739 4295343490 (10 ^ 18) 0 = 0 ∧
    (amountsWei 4295128739 4295128739 4295343490 1).1 < ((10 ^ 18 : Nat) : Rat) := by
  refine ⟨by decide +kernel, ?_⟩
  unfold amountsWei
  rw [if_pos (Nat.le_refl _), amount0Wei_eq _ _ _ (by decide)]
  unfold Q96
  norm_num

/-! ### non-vacuity -/
example : min (realMax0 (3 * 2 ^ 95) (2 * 2 ^ 96) 1000000) (realMax1 (2 ^ 96) (3 * 2 ^ 95) 1000000)
    - (getLiquidityWei (3 * 2 ^ 95) (2 ^ 96) (2 * 2 ^ 96) 1000000 1000000 : Rat) < 1 + (1000000 : Nat) / (((2 * 2 ^ 96 : Nat) : Rat) - (3 * 2 ^ 95 : Nat)) :=
  C07_maximal_in_range _ _ _ _ _ (by decide) (by decide)
example : getLiquidityWei (3 * 2 ^ 95) (2 ^ 96) (2 * 2 ^ 96) 1000000 1000000 = 2000000 := by decide +kernel

end Demeter
