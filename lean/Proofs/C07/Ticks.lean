/-
  C07 — the position-amount clauses on TICKS (review finding C07-4): `getAmounts cx s ta tb l d0 d1` is the model of
  `get_amounts(sqrt_price_x96, tickA, tickB, liquidity, decimal0, decimal1)`; the theorems of Proofs/C07.lean take sqrt prices
  `sa < sb`.  For valid ticks `MIN_TICK ≤ ta < tb ≤ MAX_TICK` (either order of the arguments: `C07_getAmounts_tick_order`) the
  hypotheses are discharged by the C06 monotonicity sweep (`C07_tick_bounds`), so every clause holds on ticks, MIN/MAX included.
-/
import Proofs.C07.Token
namespace Demeter
open TickInv Numerics

/-- exact semantics of `get_amounts` on ticks -/
theorem C07_getAmounts_exact_ticks (s : Nat) (ta tb : Int) (l d0 d1 : Nat)
    (h1 : minTick ≤ ta) (h2 : ta < tb) (h3 : tb ≤ maxTick) :
    getAmounts NumCtx.exact s ta tb l d0 d1 =
      ((amountsWei s (sqrtAt ta) (sqrtAt tb) l).1 / ((pow10 d0 : Nat) : Rat),
       (amountsWei s (sqrtAt ta) (sqrtAt tb) l).2 / ((pow10 d1 : Nat) : Rat)) := by
  unfold getAmounts
  exact getAmountsS_exact _ _ _ _ _ _ (C07_tick_bounds ta tb h1 h2 h3).2.1

/-- **one-sidedness on ticks, in every arithmetic context**: only token0 at or below the lower tick's sqrt price, only token1
    at or above the upper tick's -/
theorem C07_one_sided_ticks (cx : NumCtx) (s : Nat) (ta tb : Int) (l d0 d1 : Nat)
    (h1 : minTick ≤ ta) (h2 : ta < tb) (h3 : tb ≤ maxTick) :
    (s ≤ sqrtAt ta → (getAmounts cx s ta tb l d0 d1).2 = 0) ∧ (sqrtAt tb ≤ s → (getAmounts cx s ta tb l d0 d1).1 = 0) := by
  unfold getAmounts
  exact C07_one_sided_any_ctx cx s _ _ l d0 d1 (C07_tick_bounds ta tb h1 h2 h3).2.1

/-- both tokens strictly inside the range (exact semantics), non-negative everywhere -/
theorem C07_both_inside_ticks (s : Nat) (ta tb : Int) (l d0 d1 : Nat)
    (h1 : minTick ≤ ta) (h2 : ta < tb) (h3 : tb ≤ maxTick) :
    (0 ≤ (getAmounts NumCtx.exact s ta tb l d0 d1).1 ∧ 0 ≤ (getAmounts NumCtx.exact s ta tb l d0 d1).2) ∧
    (sqrtAt ta < s → s < sqrtAt tb → 0 < l →
      0 < (getAmounts NumCtx.exact s ta tb l d0 d1).1 ∧ 0 < (getAmounts NumCtx.exact s ta tb l d0 d1).2) := by
  rw [C07_getAmounts_exact_ticks s ta tb l d0 d1 h1 h2 h3]
  have hb := C07_tick_bounds ta tb h1 h2 h3
  have n := C07_nonneg s (sqrtAt ta) (sqrtAt tb) l
  refine ⟨⟨div_nonneg n.1 (le_of_lt (pow10_cast_pos d0)), div_nonneg n.2 (le_of_lt (pow10_cast_pos d1))⟩, fun c1 c2 hl => ?_⟩
  obtain ⟨p0, p1⟩ := C07_both_inside s (sqrtAt ta) (sqrtAt tb) l c1 c2 hl hb.1
  exact ⟨div_pos p0 (pow10_cast_pos d0), div_pos p1 (pow10_cast_pos d1)⟩

/-- monotone in the price on ticks: token0 non-increasing, token1 non-decreasing, across the range bounds -/
theorem C07_mono_price_ticks (s s' : Nat) (ta tb : Int) (l d0 d1 : Nat)
    (h1 : minTick ≤ ta) (h2 : ta < tb) (h3 : tb ≤ maxTick) (hss : s ≤ s') :
    (getAmounts NumCtx.exact s' ta tb l d0 d1).1 ≤ (getAmounts NumCtx.exact s ta tb l d0 d1).1 ∧
    (getAmounts NumCtx.exact s ta tb l d0 d1).2 ≤ (getAmounts NumCtx.exact s' ta tb l d0 d1).2 := by
  rw [C07_getAmounts_exact_ticks s ta tb l d0 d1 h1 h2 h3, C07_getAmounts_exact_ticks s' ta tb l d0 d1 h1 h2 h3]
  have hb := C07_tick_bounds ta tb h1 h2 h3
  obtain ⟨m0, m1⟩ := C07_mono_price s s' (sqrtAt ta) (sqrtAt tb) l hb.1 hb.2.1 hss
  exact ⟨div_le_div_of_nonneg_right m0 (le_of_lt (pow10_cast_pos d0)),
         div_le_div_of_nonneg_right m1 (le_of_lt (pow10_cast_pos d1))⟩

/-- proportional to liquidity on ticks -/
theorem C07_linear_ticks (s : Nat) (ta tb : Int) (l k d0 d1 : Nat)
    (h1 : minTick ≤ ta) (h2 : ta < tb) (h3 : tb ≤ maxTick) :
    getAmounts NumCtx.exact s ta tb (k * l) d0 d1 =
      ((k : Rat) * (getAmounts NumCtx.exact s ta tb l d0 d1).1, (k : Rat) * (getAmounts NumCtx.exact s ta tb l d0 d1).2) := by
  rw [C07_getAmounts_exact_ticks s ta tb (k * l) d0 d1 h1 h2 h3, C07_getAmounts_exact_ticks s ta tb l d0 d1 h1 h2 h3,
    C07_linear]
  simp only [mul_div_assoc]

/-- the Decimals reported under 35-digit arithmetic agree with the exact amounts to 10⁻³⁰ relative, on ticks, every regime -/
theorem C07_amounts_round35_ticks (s : Nat) (ta tb : Int) (l d0 d1 : Nat)
    (h1 : minTick ≤ ta) (h2 : ta < tb) (h3 : tb ≤ maxTick) :
    let c := getAmounts NumCtx.exact s ta tb l d0 d1
    c.1 * (1 - 1 / 10 ^ 30) ≤ (getAmounts NumCtx.pyG s ta tb l d0 d1).1 ∧
    (getAmounts NumCtx.pyG s ta tb l d0 d1).1 ≤ c.1 * (1 + 1 / 10 ^ 30) ∧
    c.2 * (1 - 1 / 10 ^ 30) ≤ (getAmounts NumCtx.pyG s ta tb l d0 d1).2 ∧
    (getAmounts NumCtx.pyG s ta tb l d0 d1).2 ≤ c.2 * (1 + 1 / 10 ^ 30) := by
  intro c
  have hc : c = _ := C07_getAmounts_exact_ticks s ta tb l d0 d1 h1 h2 h3
  have hb := C07_tick_bounds ta tb h1 h2 h3
  rw [hc]
  exact C07_amounts_round35 s (sqrtAt ta) (sqrtAt tb) l d0 d1 hb.1 hb.2.1

/-! ### non-vacuity: the full range MIN_TICK..MAX_TICK -/
example : (getAmounts NumCtx.exact (sqrtAt (-887272)) (-887272) 887272 (10 ^ 12) 6 18).2 = 0 :=
  (C07_one_sided_ticks NumCtx.exact _ _ _ _ _ _ (by decide) (by decide) (by decide)).1 (Nat.le_refl _)
example : (getAmounts NumCtx.exact (sqrtAt 887272) (-887272) 887272 (10 ^ 12) 6 18).1 = 0 :=
  (C07_one_sided_ticks NumCtx.exact _ _ _ _ _ _ (by decide) (by decide) (by decide)).2 (Nat.le_refl _)

end Demeter
