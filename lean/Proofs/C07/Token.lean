/-
  C07 — the property's clauses on the driven function `getLiquidity` / `getAmounts` / `newPosition`, in TOKEN amounts and on
  TICKS (MIN/MAX tick included), and the 35-digit theorems in all price regimes (below / on a bound / inside / above).

  * `C07_getLiquidity_spec`               : under the code's guards `get_liquidity` returns `getLiquidityWei` of wei amounts
                                            `w` with `a·10^d − 1 < w ≤ a·10^d`
  * `C07_getLiquidity_no_overspend`       : the amounts the minted liquidity needs (exact semantics, token units) are ≤ offered
  * `C07_newPosition_no_overspend_exact`  : … as reported by `V3CoreLib.new_position` in the exact context
  * `C07_getLiquidity_maximal`            : short of the real-valued maximum for the offered TOKEN amounts by less than
                                            `1 + a0·10^d0/(sb − lo)` plus the liquidity of the one wei `to_wei` may truncate
  * `C07_amounts_round35`                 : the Decimals `get_amounts` reports under 35-digit arithmetic are within 10⁻³⁰
                                            relative of the exact amounts in EVERY regime (`C07_closed_form_round35_below/above`
                                            spell the closed forms out); `C07_no_overspend_round35_all` likewise
  * `C07_getLiquidity_no_overspend_round35`: end to end in the code's arithmetic: reported ≤ offered·(1 + 10⁻³⁰), any amounts
-/
import Proofs.C07.Wei
import Proofs.C07.Maximal
import Proofs.C07.Round
namespace Demeter
open TickInv Numerics

/-! ### `get_liquidity` on token amounts -/

/-- what `get_liquidity` returns under the guards the code has (valid ordered ticks, non-negative representable amounts) -/
theorem C07_getLiquidity_spec (cx : NumCtx) (s : Nat) (ta tb : Int) (a0 a1 : Rat) (d0 d1 : Nat)
    (h1 : minTick ≤ ta) (h2 : ta < tb) (h3 : tb ≤ maxTick) (ha0 : 0 ≤ a0) (ha1 : 0 ≤ a1)
    (hr0 : cx.rnd (a0 * ((pow10 d0 : Nat) : Rat)) = a0 * ((pow10 d0 : Nat) : Rat))
    (hr1 : cx.rnd (a1 * ((pow10 d1 : Nat) : Rat)) = a1 * ((pow10 d1 : Nat) : Rat)) :
    ∃ w0 w1 : Nat,
      (w0 : Rat) ≤ a0 * ((pow10 d0 : Nat) : Rat) ∧ a0 * ((pow10 d0 : Nat) : Rat) < (w0 : Rat) + 1 ∧
      (w1 : Rat) ≤ a1 * ((pow10 d1 : Nat) : Rat) ∧ a1 * ((pow10 d1 : Nat) : Rat) < (w1 : Rat) + 1 ∧
      getLiquidity cx s ta tb a0 a1 d0 d1 = some ((getLiquidityWei s (sqrtAt ta) (sqrtAt tb) w0 w1 : Nat) : Int) := by
  obtain ⟨p0, l0, u0⟩ := toWei_le cx a0 d0 ha0 hr0
  obtain ⟨p1, l1, u1⟩ := toWei_le cx a1 d1 ha1 hr1
  have hb := C07_tick_bounds ta tb h1 h2 h3
  have hg := C07_getLiquidity_wei cx s ta tb a0 a1 d0 d1 (by omega) p0 p1
  obtain ⟨w0, hw0⟩ : ∃ w : Nat, toWei cx a0 d0 = (w : Int) := ⟨_, (Int.toNat_of_nonneg p0).symm⟩
  obtain ⟨w1, hw1⟩ : ∃ w : Nat, toWei cx a1 d1 = (w : Int) := ⟨_, (Int.toNat_of_nonneg p1).symm⟩
  rw [hw0] at l0 u0
  rw [hw1] at l1 u1
  rw [hw0, hw1] at hg
  simp only [Int.toNat_natCast] at hg
  exact ⟨w0, w1, by exact_mod_cast l0, by exact_mod_cast u0, by exact_mod_cast l1, by exact_mod_cast u1, hg⟩

/-- **no over-spend, token amounts, ticks**: the liquidity `get_liquidity` mints needs (exact semantics of `get_amounts`,
    token units) no more than either offered amount — in all three price regimes, MIN/MAX tick included. -/
theorem C07_getLiquidity_no_overspend (cx : NumCtx) (s : Nat) (ta tb : Int) (a0 a1 : Rat) (d0 d1 : Nat)
    (h1 : minTick ≤ ta) (h2 : ta < tb) (h3 : tb ≤ maxTick) (ha0 : 0 ≤ a0) (ha1 : 0 ≤ a1)
    (hr0 : cx.rnd (a0 * ((pow10 d0 : Nat) : Rat)) = a0 * ((pow10 d0 : Nat) : Rat))
    (hr1 : cx.rnd (a1 * ((pow10 d1 : Nat) : Rat)) = a1 * ((pow10 d1 : Nat) : Rat)) :
    ∃ L : Nat, getLiquidity cx s ta tb a0 a1 d0 d1 = some (L : Int) ∧
      (amountsWei s (sqrtAt ta) (sqrtAt tb) L).1 / ((pow10 d0 : Nat) : Rat) ≤ a0 ∧
      (amountsWei s (sqrtAt ta) (sqrtAt tb) L).2 / ((pow10 d1 : Nat) : Rat) ≤ a1 := by
  obtain ⟨w0, w1, l0, _, l1, _, hg⟩ := C07_getLiquidity_spec cx s ta tb a0 a1 d0 d1 h1 h2 h3 ha0 ha1 hr0 hr1
  have hb := C07_tick_bounds ta tb h1 h2 h3
  obtain ⟨n0, n1⟩ := C07_no_overspend s (sqrtAt ta) (sqrtAt tb) w0 w1 hb.1 hb.2.1
  refine ⟨_, hg, ?_, ?_⟩
  · rw [div_le_iff₀ (pow10_cast_pos d0)]; linarith
  · rw [div_le_iff₀ (pow10_cast_pos d1)]; linarith

/-- … as `V3CoreLib.new_position` reports it (exact context): `token0_used ≤ offered0 ∧ token1_used ≤ offered1` -/
theorem C07_newPosition_no_overspend_exact (s : Nat) (ta tb : Int) (a0 a1 : Rat) (d0 d1 : Nat)
    (h1 : minTick ≤ ta) (h2 : ta < tb) (h3 : tb ≤ maxTick) (ha0 : 0 ≤ a0) (ha1 : 0 ≤ a1) :
    ∃ u0 u1 L, newPosition NumCtx.exact s ta tb a0 a1 d0 d1 = some (u0, u1, L) ∧ 0 ≤ L ∧ u0 ≤ a0 ∧ u1 ≤ a1 := by
  obtain ⟨L, hg, n0, n1⟩ := C07_getLiquidity_no_overspend NumCtx.exact s ta tb a0 a1 d0 d1 h1 h2 h3 ha0 ha1 rfl rfl
  have hb := C07_tick_bounds ta tb h1 h2 h3
  refine ⟨_, _, (L : Int), by unfold newPosition; rw [hg], Int.natCast_nonneg _, ?_, ?_⟩
  · simp only [Int.toNat_natCast, getAmounts]; rw [getAmountsS_exact _ _ _ _ _ _ hb.2.1]; exact n0
  · simp only [Int.toNat_natCast, getAmounts]; rw [getAmountsS_exact _ _ _ _ _ _ hb.2.1]; exact n1

/-! ### maximality in token amounts -/

/-- real-valued maximal liquidity for `x` wei (a rational: `a·10^d`) of token0 / token1 -/
def realMax0R (sa sb : Nat) (x : Rat) : Rat := x * sa * sb / (Q96 * ((sb : Rat) - sa))
def realMax1R (sa sb : Nat) (x : Rat) : Rat := x * Q96 / ((sb : Rat) - sa)

theorem realMax0R_nat (sa sb a : Nat) : realMax0R sa sb (a : Rat) = realMax0 sa sb a := rfl
theorem realMax1R_nat (sa sb a : Nat) : realMax1R sa sb (a : Rat) = realMax1 sa sb a := rfl

/-- liquidity bought by one wei of token0 / token1 on `[sa, sb]` -/
def perWei0 (sa sb : Nat) : Rat := (sa : Rat) * sb / (Q96 * ((sb : Rat) - sa))
def perWei1 (sa sb : Nat) : Rat := (Q96 : Rat) / ((sb : Rat) - sa)

theorem realMax0R_step (sa sb : Nat) (h : sa < sb) (x : Rat) (w : Nat) (hx : x < (w : Rat) + 1) :
    realMax0R sa sb x ≤ realMax0 sa sb w + perWei0 sa sb := by
  have hd : (0 : Rat) < (sb : Rat) - sa := by
    have : (sa : Rat) < sb := by exact_mod_cast h
    linarith
  have hq : (0 : Rat) < (Q96 : Rat) := by exact_mod_cast Q96_pos
  have e : realMax0 sa sb w + perWei0 sa sb = ((w : Rat) + 1) * sa * sb / (Q96 * ((sb : Rat) - sa)) := by
    unfold realMax0 perWei0; field_simp
  rw [e]; unfold realMax0R
  apply div_le_div_of_nonneg_right _ (by positivity)
  have : (0 : Rat) ≤ (sa : Rat) * sb := by positivity
  nlinarith

theorem realMax1R_step (sa sb : Nat) (h : sa < sb) (x : Rat) (w : Nat) (hx : x < (w : Rat) + 1) :
    realMax1R sa sb x ≤ realMax1 sa sb w + perWei1 sa sb := by
  have hd : (0 : Rat) < (sb : Rat) - sa := by
    have : (sa : Rat) < sb := by exact_mod_cast h
    linarith
  have hq : (0 : Rat) < (Q96 : Rat) := by exact_mod_cast Q96_pos
  have e : realMax1 sa sb w + perWei1 sa sb = ((w : Rat) + 1) * Q96 / ((sb : Rat) - sa) := by
    unfold realMax1 perWei1; field_simp
  rw [e]; unfold realMax1R
  apply div_le_div_of_nonneg_right _ hd.le
  nlinarith

/-- **maximality in token amounts, on ticks**: with `X0 = a0·10^d0`, `X1 = a1·10^d1` the offered amounts in (fractional) wei,
    the liquidity `get_liquidity` mints is short of the real-valued maximum by less than the property's slack
    `1 + X0/(sb − lo)` plus the liquidity of the (less than) one wei that `to_wei` truncates. -/
theorem C07_getLiquidity_maximal (cx : NumCtx) (s : Nat) (ta tb : Int) (a0 a1 : Rat) (d0 d1 : Nat)
    (h1 : minTick ≤ ta) (h2 : ta < tb) (h3 : tb ≤ maxTick) (ha0 : 0 ≤ a0) (ha1 : 0 ≤ a1)
    (hr0 : cx.rnd (a0 * ((pow10 d0 : Nat) : Rat)) = a0 * ((pow10 d0 : Nat) : Rat))
    (hr1 : cx.rnd (a1 * ((pow10 d1 : Nat) : Rat)) = a1 * ((pow10 d1 : Nat) : Rat)) :
    let sa := sqrtAt ta
    let sb := sqrtAt tb
    let X0 := a0 * ((pow10 d0 : Nat) : Rat)
    let X1 := a1 * ((pow10 d1 : Nat) : Rat)
    ∃ L : Nat, getLiquidity cx s ta tb a0 a1 d0 d1 = some (L : Int) ∧
      (s ≤ sa → realMax0R sa sb X0 - L < 1 + X0 / ((sb : Rat) - sa) + perWei0 sa sb) ∧
      (sa < s → s < sb → min (realMax0R s sb X0) (realMax1R sa s X1) - L
          < 1 + X0 / ((sb : Rat) - s) + max (perWei0 s sb) (perWei1 sa s)) ∧
      (sb ≤ s → realMax1R sa sb X1 - L < 1 + perWei1 sa sb) := by
  intro sa sb X0 X1
  obtain ⟨w0, w1, l0, u0, l1, u1, hg⟩ := C07_getLiquidity_spec cx s ta tb a0 a1 d0 d1 h1 h2 h3 ha0 ha1 hr0 hr1
  have hb := C07_tick_bounds ta tb h1 h2 h3
  have hab : sa < sb := hb.2.1
  obtain ⟨m1, m2, m3⟩ := C07_maximal_regimes s sa sb w0 w1 hab
  refine ⟨_, hg, fun hs => ?_, fun c1 c2 => ?_, fun hs => ?_⟩
  · have hd : (0 : Rat) < (sb : Rat) - sa := by
      have : (sa : Rat) < sb := by exact_mod_cast hab
      linarith
    have := realMax0R_step sa sb hab X0 w0 u0
    have q : (w0 : Rat) / ((sb : Rat) - sa) ≤ X0 / ((sb : Rat) - sa) := div_le_div_of_nonneg_right l0 hd.le
    have := m1 hs
    linarith
  · have hd : (0 : Rat) < (sb : Rat) - s := by
      have : (s : Rat) < sb := by exact_mod_cast c2
      linarith
    have r0 := realMax0R_step s sb c2 X0 w0 u0
    have r1 := realMax1R_step sa s c1 X1 w1 u1
    have q : (w0 : Rat) / ((sb : Rat) - s) ≤ X0 / ((sb : Rat) - s) := div_le_div_of_nonneg_right l0 hd.le
    have := m2 c1 c2
    have k0 := le_max_left (perWei0 s sb) (perWei1 sa s)
    have k1 := le_max_right (perWei0 s sb) (perWei1 sa s)
    have hmin : min (realMax0R s sb X0) (realMax1R sa s X1)
        ≤ min (realMax0 s sb w0) (realMax1 sa s w1) + max (perWei0 s sb) (perWei1 sa s) := by
      rcases le_total (realMax0 s sb w0) (realMax1 sa s w1) with hle | hle
      · rw [min_eq_left hle]
        exact le_trans (min_le_left _ _) (by linarith)
      · rw [min_eq_right hle]
        exact le_trans (min_le_right _ _) (by linarith)
    linarith
  · have := realMax1R_step sa sb hab X1 w1 u1
    have := m3 hs
    linarith

/-! ### C07-3: the 35-digit theorems in every regime -/

theorem getAmountsS_regimes (cx : NumCtx) (s sa sb l d0 d1 : Nat) (h : sa < sb) :
    (s ≤ sa → getAmountsS cx s sa sb l d0 d1 = (getAmount0 cx sa sb l d0, 0)) ∧
    (sa < s → s < sb → getAmountsS cx s sa sb l d0 d1 = (getAmount0 cx s sb l d0, getAmount1 cx sa s l d1)) ∧
    (sb ≤ s → getAmountsS cx s sa sb l d0 d1 = (0, getAmount1 cx sa sb l d1)) := by
  unfold getAmountsS
  rw [sortPair_lt h]
  simp only []
  refine ⟨fun hs => by rw [if_pos hs], fun c1 c2 => by rw [if_neg (by omega), if_pos c2],
    fun hs => by rw [if_neg (by omega), if_neg (by omega)]⟩

theorem amountsWei_nonneg (s sa sb l : Nat) : 0 ≤ (amountsWei s sa sb l).1 ∧ 0 ≤ (amountsWei s sa sb l).2 :=
  C07_nonneg s sa sb l

/-- **35-digit amounts, every regime**: below the range, on either bound, inside and above, the Decimals `get_amounts`
    reports are within 10⁻³⁰ relative of the exact amounts `amountsWei / 10^decimals` (zero stays the literal zero). -/
theorem C07_amounts_round35 (s sa sb l d0 d1 : Nat) (h0 : 0 < sa) (h : sa < sb) :
    let c0 := (amountsWei s sa sb l).1 / ((pow10 d0 : Nat) : Rat)
    let c1 := (amountsWei s sa sb l).2 / ((pow10 d1 : Nat) : Rat)
    c0 * (1 - 1 / 10 ^ 30) ≤ (getAmountsS NumCtx.pyG s sa sb l d0 d1).1 ∧
    (getAmountsS NumCtx.pyG s sa sb l d0 d1).1 ≤ c0 * (1 + 1 / 10 ^ 30) ∧
    c1 * (1 - 1 / 10 ^ 30) ≤ (getAmountsS NumCtx.pyG s sa sb l d0 d1).2 ∧
    (getAmountsS NumCtx.pyG s sa sb l d0 d1).2 ≤ c1 * (1 + 1 / 10 ^ 30) := by
  intro c0 c1
  have hε := Num_EPS35
  have e0 : EPS35 ≤ 1 := le_trans hε.2.2 (by norm_num)
  obtain ⟨k1, k2, k3, k4⟩ := liqRound_eps35_cube
  obtain ⟨g1, g2, g3⟩ := getAmountsS_regimes NumCtx.pyG s sa sb l d0 d1 h
  -- generic one-leg bounds
  have A : ∀ x y : Nat, 0 < x → x < y →
      amount0Wei x y l / ((pow10 d0 : Nat) : Rat) * (1 - 1 / 10 ^ 30) ≤ getAmount0 NumCtx.pyG x y l d0 ∧
      getAmount0 NumCtx.pyG x y l d0 ≤ amount0Wei x y l / ((pow10 d0 : Nat) : Rat) * (1 + 1 / 10 ^ 30) := by
    intro x y hx hxy
    obtain ⟨A1, A2⟩ := C07_amount0_rounded NumCtx.pyG EPS35 C07_pyG_relRnd (le_of_lt hε.2.1) e0 x y l d0 hx hxy
    have n : (0 : Rat) ≤ amount0Wei x y l / ((pow10 d0 : Nat) : Rat) :=
      div_nonneg (amount0Wei_nonneg _ _ _) (le_of_lt (pow10_cast_pos d0))
    exact ⟨le_trans (mul_le_mul_of_nonneg_left k2 n) A1, le_trans A2 (mul_le_mul_of_nonneg_left k1 n)⟩
  have B : ∀ x y : Nat, x < y →
      amount1Wei x y l / ((pow10 d1 : Nat) : Rat) * (1 - 1 / 10 ^ 30) ≤ getAmount1 NumCtx.pyG x y l d1 ∧
      getAmount1 NumCtx.pyG x y l d1 ≤ amount1Wei x y l / ((pow10 d1 : Nat) : Rat) * (1 + 1 / 10 ^ 30) := by
    intro x y hxy
    obtain ⟨B1, B2⟩ := C07_amount1_rounded NumCtx.pyG EPS35 C07_pyG_relRnd (le_of_lt hε.2.1) e0 x y l d1 hxy
    have n : (0 : Rat) ≤ amount1Wei x y l / ((pow10 d1 : Nat) : Rat) :=
      div_nonneg (amount1Wei_nonneg _ _ _) (le_of_lt (pow10_cast_pos d1))
    exact ⟨le_trans (mul_le_mul_of_nonneg_left k4 n) B1, le_trans B2 (mul_le_mul_of_nonneg_left k3 n)⟩
  by_cases c1' : s ≤ sa
  · have hw : amountsWei s sa sb l = (amount0Wei sa sb l, 0) := by unfold amountsWei; rw [if_pos c1']
    simp only [c0, c1, hw, g1 c1']
    exact ⟨(A sa sb h0 h).1, (A sa sb h0 h).2, by simp, by simp⟩
  · by_cases c2' : s < sb
    · have hw : amountsWei s sa sb l = (amount0Wei s sb l, amount1Wei sa s l) := by
        unfold amountsWei; rw [if_neg c1', if_pos c2']
      simp only [c0, c1, hw, g2 (by omega) c2']
      exact ⟨(A s sb (by omega) c2').1, (A s sb (by omega) c2').2, (B sa s (by omega)).1, (B sa s (by omega)).2⟩
    · have hw : amountsWei s sa sb l = (0, amount1Wei sa sb l) := by
        unfold amountsWei; rw [if_neg c1', if_neg c2']
      simp only [c0, c1, hw, g3 (by omega)]
      exact ⟨by simp, by simp, (B sa sb h).1, (B sa sb h).2⟩

/-- below the range and on its lower bound (`s ≤ sa`): token0 side = `L·(2⁹⁶/sa − 2⁹⁶/sb)/10^d0` to 10⁻³⁰, token1 = 0 -/
theorem C07_closed_form_round35_below (s sa sb l d0 d1 : Nat) (h0 : 0 < sa) (h : sa < sb) (hs : s ≤ sa) :
    let c0 := (l : Rat) * ((Q96 : Rat) / sa - (Q96 : Rat) / sb) / ((pow10 d0 : Nat) : Rat)
    c0 * (1 - 1 / 10 ^ 30) ≤ (getAmountsS NumCtx.pyG s sa sb l d0 d1).1 ∧
    (getAmountsS NumCtx.pyG s sa sb l d0 d1).1 ≤ c0 * (1 + 1 / 10 ^ 30) ∧
    (getAmountsS NumCtx.pyG s sa sb l d0 d1).2 = 0 := by
  intro c0
  obtain ⟨a1, a2, _, _⟩ := C07_amounts_round35 s sa sb l d0 d1 h0 h
  have hw : amountsWei s sa sb l = (amount0Wei sa sb l, 0) := by unfold amountsWei; rw [if_pos hs]
  rw [hw, C07_closed_form0 sa sb l h0 h] at a1 a2
  exact ⟨a1, a2, (C07_one_sided_any_ctx NumCtx.pyG s sa sb l d0 d1 h).1 hs⟩

/-- above the range and on its upper bound (`sb ≤ s`): token1 side = `L·(sb − sa)/2⁹⁶/10^d1` to 10⁻³⁰, token0 = 0 -/
theorem C07_closed_form_round35_above (s sa sb l d0 d1 : Nat) (h0 : 0 < sa) (h : sa < sb) (hs : sb ≤ s) :
    let c1 := (l : Rat) * ((sb : Rat) / Q96 - (sa : Rat) / Q96) / ((pow10 d1 : Nat) : Rat)
    c1 * (1 - 1 / 10 ^ 30) ≤ (getAmountsS NumCtx.pyG s sa sb l d0 d1).2 ∧
    (getAmountsS NumCtx.pyG s sa sb l d0 d1).2 ≤ c1 * (1 + 1 / 10 ^ 30) ∧
    (getAmountsS NumCtx.pyG s sa sb l d0 d1).1 = 0 := by
  intro c1
  obtain ⟨_, _, b1, b2⟩ := C07_amounts_round35 s sa sb l d0 d1 h0 h
  have hw : amountsWei s sa sb l = (0, amount1Wei sa sb l) := by
    unfold amountsWei; rw [if_neg (by omega), if_neg (by omega)]
  rw [hw, C07_closed_form1 sa sb l h] at b1 b2
  exact ⟨b1, b2, (C07_one_sided_any_ctx NumCtx.pyG s sa sb l d0 d1 h).2 hs⟩

/-- **no over-spend in the code's own arithmetic, every regime** (wei offers) -/
theorem C07_no_overspend_round35_all (s sa sb a0 a1 d0 d1 : Nat) (h0 : 0 < sa) (h : sa < sb) :
    let L := getLiquidityWei s sa sb a0 a1
    (getAmountsS NumCtx.pyG s sa sb L d0 d1).1 ≤ (a0 : Rat) / ((pow10 d0 : Nat) : Rat) * (1 + 1 / 10 ^ 30) ∧
    (getAmountsS NumCtx.pyG s sa sb L d0 d1).2 ≤ (a1 : Rat) / ((pow10 d1 : Nat) : Rat) * (1 + 1 / 10 ^ 30) := by
  intro L
  obtain ⟨_, a2, _, b2⟩ := C07_amounts_round35 s sa sb L d0 d1 h0 h
  obtain ⟨n0, n1⟩ := C07_no_overspend s sa sb a0 a1 h0 h
  have q0 : (amountsWei s sa sb L).1 / ((pow10 d0 : Nat) : Rat) ≤ (a0 : Rat) / ((pow10 d0 : Nat) : Rat) :=
    div_le_div_of_nonneg_right n0 (le_of_lt (pow10_cast_pos d0))
  have q1 : (amountsWei s sa sb L).2 / ((pow10 d1 : Nat) : Rat) ≤ (a1 : Rat) / ((pow10 d1 : Nat) : Rat) :=
    div_le_div_of_nonneg_right n1 (le_of_lt (pow10_cast_pos d1))
  exact ⟨le_trans a2 (mul_le_mul_of_nonneg_right q0 (by norm_num)),
         le_trans b2 (mul_le_mul_of_nonneg_right q1 (by norm_num))⟩

/-! ### end to end in the code's arithmetic: `get_liquidity` then `get_amounts`, token amounts, ticks -/

/-- `to_wei` under a rounding context with relative error ≤ ε: at most `a·10^d·(1+ε)` -/
theorem toWei_le_rel (cx : NumCtx) (ε : Rat) (hc : LiqRelRnd cx ε) (hε1 : ε ≤ 1) (a : Rat) (d : Nat) (ha : 0 ≤ a) :
    0 ≤ toWei cx a d ∧ ((toWei cx a d : Int) : Rat) ≤ a * ((pow10 d : Nat) : Rat) * (1 + ε) := by
  have hx : 0 ≤ a * ((pow10 d : Nat) : Rat) := mul_nonneg ha (le_of_lt (pow10_cast_pos d))
  obtain ⟨r1, r2⟩ := hc _ hx
  have hr : 0 ≤ cx.rnd (a * ((pow10 d : Nat) : Rat)) := le_trans (mul_nonneg hx (by linarith)) r1
  obtain ⟨b1, _, b3⟩ := truncInt_bounds _ hr
  unfold toWei NumCtx.mul
  exact ⟨b3, le_trans b1 r2⟩

theorem liqRound_eps35_four : (1 + EPS35) ^ 4 ≤ 1 + 1 / 10 ^ 30 := by
  rw [Num_EPS35.1]; norm_num

/-- upper bounds of the reported amounts in every regime, for any context with relative rounding error ≤ ε -/
theorem getAmountsS_upper (cx : NumCtx) (ε : Rat) (hc : LiqRelRnd cx ε) (hε0 : 0 ≤ ε) (hε1 : ε ≤ 1)
    (s sa sb l d0 d1 : Nat) (h0 : 0 < sa) (h : sa < sb) :
    (getAmountsS cx s sa sb l d0 d1).1 ≤ (amountsWei s sa sb l).1 / ((pow10 d0 : Nat) : Rat) * (1 + ε) ^ 3 ∧
    (getAmountsS cx s sa sb l d0 d1).2 ≤ (amountsWei s sa sb l).2 / ((pow10 d1 : Nat) : Rat) * (1 + ε) ^ 3 := by
  obtain ⟨g1, g2, g3⟩ := getAmountsS_regimes cx s sa sb l d0 d1 h
  have B : ∀ x y : Nat, x < y →
      getAmount1 cx x y l d1 ≤ amount1Wei x y l / ((pow10 d1 : Nat) : Rat) * (1 + ε) ^ 3 := by
    intro x y hxy
    have b := (C07_amount1_rounded cx ε hc hε0 hε1 x y l d1 hxy).2
    have n : (0 : Rat) ≤ amount1Wei x y l / ((pow10 d1 : Nat) : Rat) :=
      div_nonneg (amount1Wei_nonneg _ _ _) (le_of_lt (pow10_cast_pos d1))
    have k : (1 + ε) ^ 2 ≤ (1 + ε) ^ 3 := pow_le_pow_right₀ (by linarith) (by norm_num)
    exact le_trans b (mul_le_mul_of_nonneg_left k n)
  by_cases c1 : s ≤ sa
  · have hw : amountsWei s sa sb l = (amount0Wei sa sb l, 0) := by unfold amountsWei; rw [if_pos c1]
    rw [hw, g1 c1]
    exact ⟨(C07_amount0_rounded cx ε hc hε0 hε1 sa sb l d0 h0 h).2, by simp⟩
  · by_cases c2 : s < sb
    · have hw : amountsWei s sa sb l = (amount0Wei s sb l, amount1Wei sa s l) := by
        unfold amountsWei; rw [if_neg c1, if_pos c2]
      rw [hw, g2 (by omega) c2]
      exact ⟨(C07_amount0_rounded cx ε hc hε0 hε1 s sb l d0 (by omega) c2).2, B sa s (by omega)⟩
    · have hw : amountsWei s sa sb l = (0, amount1Wei sa sb l) := by
        unfold amountsWei; rw [if_neg c1, if_neg c2]
      rw [hw, g3 (by omega)]
      exact ⟨by simp, B sa sb h⟩

/-- **no over-spend, end to end under 35-digit arithmetic**: for ANY non-negative offered token amounts (no
    representability assumption: `to_wei`'s own rounding is included — four roundings of 5·10⁻³⁵ in all) and valid ticks, the
    Decimals `get_amounts` reports for the liquidity `get_liquidity` minted exceed the offers by at most 10⁻³⁰ relative. -/
theorem C07_getLiquidity_no_overspend_round35 (s : Nat) (ta tb : Int) (a0 a1 : Rat) (d0 d1 : Nat)
    (h1 : minTick ≤ ta) (h2 : ta < tb) (h3 : tb ≤ maxTick) (ha0 : 0 ≤ a0) (ha1 : 0 ≤ a1) :
    ∃ L : Nat, getLiquidity NumCtx.pyG s ta tb a0 a1 d0 d1 = some (L : Int) ∧
      (getAmounts NumCtx.pyG s ta tb L d0 d1).1 ≤ a0 * (1 + 1 / 10 ^ 30) ∧
      (getAmounts NumCtx.pyG s ta tb L d0 d1).2 ≤ a1 * (1 + 1 / 10 ^ 30) := by
  have hε := Num_EPS35
  have e0 : EPS35 ≤ 1 := le_trans hε.2.2 (by norm_num)
  have e1 : 0 ≤ EPS35 := le_of_lt hε.2.1
  obtain ⟨p0, l0⟩ := toWei_le_rel NumCtx.pyG EPS35 C07_pyG_relRnd e0 a0 d0 ha0
  obtain ⟨p1, l1⟩ := toWei_le_rel NumCtx.pyG EPS35 C07_pyG_relRnd e0 a1 d1 ha1
  have hb := C07_tick_bounds ta tb h1 h2 h3
  have hg := C07_getLiquidity_wei NumCtx.pyG s ta tb a0 a1 d0 d1 (by omega) p0 p1
  obtain ⟨w0, hw0⟩ : ∃ w : Nat, toWei NumCtx.pyG a0 d0 = (w : Int) := ⟨_, (Int.toNat_of_nonneg p0).symm⟩
  obtain ⟨w1, hw1⟩ : ∃ w : Nat, toWei NumCtx.pyG a1 d1 = (w : Int) := ⟨_, (Int.toNat_of_nonneg p1).symm⟩
  rw [hw0] at l0
  rw [hw1] at l1
  rw [hw0, hw1] at hg
  simp only [Int.toNat_natCast] at hg
  have l0' : (w0 : Rat) ≤ a0 * ((pow10 d0 : Nat) : Rat) * (1 + EPS35) := by exact_mod_cast l0
  have l1' : (w1 : Rat) ≤ a1 * ((pow10 d1 : Nat) : Rat) * (1 + EPS35) := by exact_mod_cast l1
  set L := getLiquidityWei s (sqrtAt ta) (sqrtAt tb) w0 w1 with hL
  obtain ⟨u0, u1⟩ := getAmountsS_upper NumCtx.pyG EPS35 C07_pyG_relRnd e1 e0 s (sqrtAt ta) (sqrtAt tb) L d0 d1 hb.1 hb.2.1
  obtain ⟨n0, n1⟩ := C07_no_overspend s (sqrtAt ta) (sqrtAt tb) w0 w1 hb.1 hb.2.1
  rw [← hL] at n0 n1
  have k := liqRound_eps35_four
  have hp0 := pow10_cast_pos d0
  have hp1 := pow10_cast_pos d1
  have hcube : (0 : Rat) ≤ (1 + EPS35) ^ 3 := by positivity
  refine ⟨_, hg, ?_, ?_⟩
  · unfold getAmounts
    have q : (amountsWei s (sqrtAt ta) (sqrtAt tb) L).1 / ((pow10 d0 : Nat) : Rat) ≤ a0 * (1 + EPS35) := by
      rw [div_le_iff₀ hp0]; linarith
    calc (getAmountsS NumCtx.pyG s (sqrtAt ta) (sqrtAt tb) L d0 d1).1
        ≤ (amountsWei s (sqrtAt ta) (sqrtAt tb) L).1 / ((pow10 d0 : Nat) : Rat) * (1 + EPS35) ^ 3 := u0
      _ ≤ a0 * (1 + EPS35) * (1 + EPS35) ^ 3 := mul_le_mul_of_nonneg_right q hcube
      _ = a0 * (1 + EPS35) ^ 4 := by ring
      _ ≤ a0 * (1 + 1 / 10 ^ 30) := mul_le_mul_of_nonneg_left k ha0
  · unfold getAmounts
    have q : (amountsWei s (sqrtAt ta) (sqrtAt tb) L).2 / ((pow10 d1 : Nat) : Rat) ≤ a1 * (1 + EPS35) := by
      rw [div_le_iff₀ hp1]; linarith
    calc (getAmountsS NumCtx.pyG s (sqrtAt ta) (sqrtAt tb) L d0 d1).2
        ≤ (amountsWei s (sqrtAt ta) (sqrtAt tb) L).2 / ((pow10 d1 : Nat) : Rat) * (1 + EPS35) ^ 3 := u1
      _ ≤ a1 * (1 + EPS35) * (1 + EPS35) ^ 3 := mul_le_mul_of_nonneg_right q hcube
      _ = a1 * (1 + EPS35) ^ 4 := by ring
      _ ≤ a1 * (1 + 1 / 10 ^ 30) := mul_le_mul_of_nonneg_left k ha1

/-! ### non-vacuity: the full range MIN..MAX tick, price at tick 0, 1000 USDC (6 decimals) and 1 ETH (18 decimals) -/
example : ∃ u0 u1 L, newPosition NumCtx.exact (2 ^ 96) (-887272) 887272 1000 1 6 18 = some (u0, u1, L) ∧ 0 ≤ L ∧
    u0 ≤ 1000 ∧ u1 ≤ 1 :=
  C07_newPosition_no_overspend_exact _ _ _ _ _ _ _ (by decide) (by decide) (by decide) (by norm_num) (by norm_num)
example : getLiquidity NumCtx.exact (2 ^ 96) (-887272) 887272 1000 1 6 18 = some 1000000000 := by decide +kernel

end Demeter
