/-
  C07 — the theorems of Proofs/C07.lean restated on the function the code runs and the drivers tie:
  `getLiquidity cx s ta tb (a0 a1 : Rat) d0 d1` (token amounts, ticks), instead of `getLiquidityWei` (wei, sqrt prices).

  * `C07_tick_bounds`            : for ticks `MIN ≤ ta < tb ≤ MAX` the sqrt prices satisfy `0 < sa < sb` (C06 sweep) — the
                                   hypotheses `0 < sa`, `sa < sb` of every theorem of Proofs/C07.lean are discharged on ticks.
  * `toWei_le`                   : `to_wei` truncates: `a·10^d − 1 < to_wei(a, d) ≤ a·10^d` when the Decimal product is exact
                                   (`cx.rnd (a·10^d) = a·10^d`: at most 35 significant digits); `C07_toWei_rounds_up_beyond35`:
                                   beyond 35 digits it is false (`to_wei(Decimal('0.' + '9'*37), 6) = 1000000`).
  * `C07_getLiquidity_wei`       : `get_liquidity` IS `getLiquidityWei` on the converted amounts (guards: amounts convert to
                                   non-negative wei, the two ticks have different sqrt prices — otherwise ZeroDivisionError,
                                   `C07_getLiquidity_none_iff`).
  * `C07_getLiquidity_no_overspend(_exact)`, `C07_getLiquidity_maximal_*`, `C07_getLiquidity_succ_overspends`:
                                   the property's clauses in token amounts, on ticks, MIN/MAX tick included.
-/
import Proofs.C07
import Proofs.Lemmas.TickInv
namespace Demeter
open TickInv

/-! ### C07-4: ticks -/

/-- ticks in the valid range, in order, give sqrt prices `0 < sa < sb` inside the protocol's bounds -/
theorem C07_tick_bounds (ta tb : Int) (h1 : minTick ≤ ta) (h2 : ta < tb) (h3 : tb ≤ maxTick) :
    0 < sqrtAt ta ∧ sqrtAt ta < sqrtAt tb ∧ 4295128739 ≤ sqrtAt ta ∧
    sqrtAt tb ≤ 1461446703485210103287273052203988822378723970342 := by
  have hlt := mono_lt' C06_strict_mono ta tb h1 h2 h3
  have hmin : 4295128739 ≤ sqrtAt ta := by
    have := mono_le' C06_strict_mono minTick ta (Int.le_refl _) h1 (by omega)
    have e0 : sqrtAt minTick = 4295128739 := C06_boundary_min
    omega
  have hmax := mono_le' C06_strict_mono tb maxTick (by omega) h3 (Int.le_refl _)
  have e : sqrtAt maxTick = 1461446703485210103287273052203988822378723970342 := C06_boundary_max
  exact ⟨by omega, hlt, hmin, by omega⟩

/-- distinct valid ticks have distinct sqrt prices: the `ZeroDivisionError` of `get_liquidity` is exactly `ta = tb` -/
theorem sqrtAt_inj (ta tb : Int) (ha : minTick ≤ ta ∧ ta ≤ maxTick) (hb : minTick ≤ tb ∧ tb ≤ maxTick) :
    sqrtAt ta = sqrtAt tb ↔ ta = tb := by
  constructor
  · intro h
    by_contra hne
    rcases Int.lt_or_gt_of_ne hne with hl | hl
    · have := mono_lt' C06_strict_mono ta tb ha.1 hl hb.2; omega
    · have := mono_lt' C06_strict_mono tb ta hb.1 hl ha.2; omega
  · intro h; rw [h]

theorem sortPair_comm {a b : Nat} : sortPair a b = sortPair b a := by
  unfold sortPair
  by_cases h1 : a > b
  · rw [if_pos h1, if_neg (by omega)]
  · by_cases h2 : b > a
    · rw [if_neg h1, if_pos h2]
    · have : a = b := by omega
      subst this; rfl

/-- the tick arguments may come in either order (`if sqrtA > sqrtB: swap`) -/
theorem C07_getLiquidity_tick_order (cx : NumCtx) (s : Nat) (ta tb : Int) (a0 a1 : Rat) (d0 d1 : Nat) :
    getLiquidity cx s tb ta a0 a1 d0 d1 = getLiquidity cx s ta tb a0 a1 d0 d1 := by
  unfold getLiquidity
  rw [sortPair_comm]

theorem C07_getAmounts_tick_order (cx : NumCtx) (s : Nat) (ta tb : Int) (l d0 d1 : Nat) :
    getAmounts cx s tb ta l d0 d1 = getAmounts cx s ta tb l d0 d1 := by
  unfold getAmounts getAmountsS
  rw [sortPair_comm]

/-! ### `to_wei` -/

theorem pow10_cast_pos (d : Nat) : (0 : Rat) < ((pow10 d : Nat) : Rat) := by
  have : 0 < pow10 d := by unfold pow10; positivity
  exact_mod_cast this

/-- `to_wei` truncates toward zero; when the Decimal product `amount * 10**decimals` is representable (≤ 35 significant
    digits: the context does not round it) the result is the floor of the exact product, hence never above it. -/
theorem toWei_le (cx : NumCtx) (a : Rat) (d : Nat) (ha : 0 ≤ a)
    (hr : cx.rnd (a * ((pow10 d : Nat) : Rat)) = a * ((pow10 d : Nat) : Rat)) :
    0 ≤ toWei cx a d ∧ ((toWei cx a d : Int) : Rat) ≤ a * ((pow10 d : Nat) : Rat) ∧
    a * ((pow10 d : Nat) : Rat) < ((toWei cx a d : Int) : Rat) + 1 := by
  have hx : 0 ≤ a * ((pow10 d : Nat) : Rat) := mul_nonneg ha (le_of_lt (pow10_cast_pos d))
  obtain ⟨b1, b2, b3⟩ := truncInt_bounds _ hx
  unfold toWei NumCtx.mul
  rw [hr]
  exact ⟨b3, b1, b2⟩

theorem C07_toWei_le (cx : NumCtx) (a : Rat) (d : Nat) (ha : 0 ≤ a)
    (hr : cx.rnd (a * ((pow10 d : Nat) : Rat)) = a * ((pow10 d : Nat) : Rat)) :
    0 ≤ toWei cx a d ∧ ((toWei cx a d : Int) : Rat) ≤ a * ((pow10 d : Nat) : Rat) ∧
    a * ((pow10 d : Nat) : Rat) < ((toWei cx a d : Int) : Rat) + 1 := toWei_le cx a d ha hr

/-- … and in any context that keeps non-negative values non-negative the wei amount is non-negative -/
theorem toWei_nonneg (cx : NumCtx) (hc : ∀ x : Rat, 0 ≤ x → 0 ≤ cx.rnd x) (a : Rat) (d : Nat) (ha : 0 ≤ a) :
    0 ≤ toWei cx a d := by
  unfold toWei NumCtx.mul
  exact (truncInt_bounds _ (hc _ (mul_nonneg ha (le_of_lt (pow10_cast_pos d))))).2.2

/-- **beyond 35 digits `to_wei` can exceed the offered amount**: `to_wei(Decimal('0.' + '9'*37), 6) = 1000000` although
    the offer is `999999.999…` wei — the product is rounded up to `1000000` before `int()`.  (Replayed on the code.)
    The excess is below `10⁻³⁵` relative, inside the property's `10⁻³⁰`. -/
theorem C07_toWei_rounds_up_beyond35 :
    toWei NumCtx.py (1 - 1 / 10 ^ 37) 6 = 1000000 ∧
    ¬ (((toWei NumCtx.py (1 - 1 / 10 ^ 37) 6 : Int) : Rat) ≤ (1 - 1 / 10 ^ 37) * ((pow10 6 : Nat) : Rat)) := by
  have h : toWei NumCtx.py (1 - 1 / 10 ^ 37) 6 = 1000000 := by decide +kernel
  refine ⟨h, ?_⟩
  rw [h]; unfold pow10; norm_num

/-! ### C07-1: `get_liquidity` is `getLiquidityWei` on the converted amounts -/

theorem sortPair_sorted (a b : Nat) : (sortPair a b).1 ≤ (sortPair a b).2 := by
  unfold sortPair; split <;> simp <;> omega

theorem int_ediv_cast (a b c : Nat) : ((a : Int) * (b : Int)) / (c : Int) = ((a * b / c : Nat) : Int) := by
  push_cast; rfl

/-- **`get_liquidity` (the driven, tied function) computes `getLiquidityWei`** of the sqrt prices of the two ticks and the
    converted amounts, whenever it does not raise: the two ticks have different sqrt prices (else `ZeroDivisionError`,
    model `none`) and the amounts convert to non-negative wei. -/
theorem C07_getLiquidity_wei (cx : NumCtx) (s : Nat) (ta tb : Int) (a0 a1 : Rat) (d0 d1 : Nat)
    (hne : sqrtAt ta ≠ sqrtAt tb) (h0 : 0 ≤ toWei cx a0 d0) (h1 : 0 ≤ toWei cx a1 d1) :
    getLiquidity cx s ta tb a0 a1 d0 d1 =
      some ((getLiquidityWei s (sqrtAt ta) (sqrtAt tb) (toWei cx a0 d0).toNat (toWei cx a1 d1).toNat : Nat) : Int) := by
  obtain ⟨w0, hw0⟩ : ∃ w : Nat, toWei cx a0 d0 = (w : Int) := ⟨_, (Int.toNat_of_nonneg h0).symm⟩
  obtain ⟨w1, hw1⟩ : ∃ w : Nat, toWei cx a1 d1 = (w : Int) := ⟨_, (Int.toNat_of_nonneg h1).symm⟩
  unfold getLiquidity getLiquidityWei
  rw [hw0, hw1]
  simp only [Int.toNat_natCast]
  have hs := sortPair_sorted (sqrtAt ta) (sqrtAt tb)
  have hne' : (sortPair (sqrtAt ta) (sqrtAt tb)).1 ≠ (sortPair (sqrtAt ta) (sqrtAt tb)).2 := by
    unfold sortPair; split <;> simp <;> omega
  generalize sortPair (sqrtAt ta) (sqrtAt tb) = p at hs hne'
  obtain ⟨sa, sb⟩ := p
  simp only [] at hs hne' ⊢
  rw [if_neg hne']
  have hlt : sa < sb := by omega
  by_cases c1 : s ≤ sa
  · rw [if_pos c1, if_pos c1]
    unfold liqForAmount0 mulDiv
    rw [sortPair_lt hlt]
    simp only [int_ediv_cast]
  · rw [if_neg c1, if_neg c1]
    by_cases c2 : s < sb
    · rw [if_pos c2, if_pos c2]
      unfold liqForAmount0 liqForAmount1 mulDiv
      rw [sortPair_lt c2, sortPair_lt (by omega : sa < s)]
      simp only [int_ediv_cast, Nat.cast_lt]
      split <;> rfl
    · rw [if_neg c2, if_neg c2]
      unfold liqForAmount1 mulDiv
      rw [sortPair_lt hlt]
      simp only [int_ediv_cast]

/-- `get_liquidity` raises `ZeroDivisionError` (model: `none`) exactly when the two valid ticks coincide -/
theorem C07_getLiquidity_none_iff (cx : NumCtx) (s : Nat) (ta tb : Int) (a0 a1 : Rat) (d0 d1 : Nat)
    (ha : minTick ≤ ta ∧ ta ≤ maxTick) (hb : minTick ≤ tb ∧ tb ≤ maxTick) :
    getLiquidity cx s ta tb a0 a1 d0 d1 = none ↔ ta = tb := by
  rw [← sqrtAt_inj ta tb ha hb]
  unfold getLiquidity
  have key : (sortPair (sqrtAt ta) (sqrtAt tb)).1 = (sortPair (sqrtAt ta) (sqrtAt tb)).2 ↔ sqrtAt ta = sqrtAt tb := by
    unfold sortPair; split <;> simp <;> omega
  generalize sortPair (sqrtAt ta) (sqrtAt tb) = p at key
  obtain ⟨sa, sb⟩ := p
  simp only [] at key ⊢
  rw [← key]
  constructor
  · intro h
    by_contra hc
    rw [if_neg hc] at h
    repeat' split at h
    all_goals simp at h
  · intro h; rw [if_pos h]

end Demeter
