/-
  C07 — the round trip on the `UniLpMarket` state machine (review finding C07-2, second half): add, then remove with
  collect at an unchanged sqrt price, returns and credits exactly `token0_used` / `token1_used`.
-/
import Proofs.C07.RoundTrip
import Proofs.Lemmas.Round35Ctx
namespace Demeter
open Uni C07RT

namespace C07RT

theorem amountsGen_zero (cx : NumCtx) (hr : cx.rnd 0 = 0) (s : Nat) (ta tb : Int) (d0 d1 : Nat) (u : Rat × Rat)
    (h : amountsGen cx s ta tb 0 false d0 d1 = .ok u) : u = (0, 0) := by
  unfold amountsGen at h
  split at h
  · cases h
  · cases h
  · rename_i sa0 sb0 ha hb
    have ha' : tickOk ta = true := by
      unfold sqrtAtE at ha; by_contra hc; rw [if_neg hc] at ha; cases ha
    have hb' : tickOk tb = true := by
      unfold sqrtAtE at hb; by_contra hc; rw [if_neg hc] at hb; cases hb
    have := amountsGen_nat cx s ta tb 0 d0 d1 ha' hb'
    rw [getAmounts_zero cx hr] at this
    have h2 : amountsGen cx s ta tb 0 false d0 d1 = .ok u := by
      unfold amountsGen; rw [ha, hb]; exact h
    have e : ((0 : Nat) : Int) = 0 := rfl
    rw [e, h2] at this
    injection this

/-- every amount the kernel reports is a rounded value or the literal 0 -/
theorem amountsGen_rounded (cx : NumCtx) (hr : cx.rnd 0 = 0) (hi : ∀ x, cx.rnd (cx.rnd x) = cx.rnd x)
    (s : Nat) (ta tb : Int) (l : Int) (dec : Bool) (d0 d1 : Nat) (u : Rat × Rat)
    (h : amountsGen cx s ta tb l dec d0 d1 = .ok u) : cx.rnd u.1 = u.1 ∧ cx.rnd u.2 = u.2 := by
  unfold amountsGen at h
  split at h
  · cases h
  · cases h
  · simp only [] at h
    split at h
    · injection h with h; subst h; exact ⟨by unfold amount0Gen NumCtx.div; exact hi _, hr⟩
    · split at h
      · injection h with h; subst h
        exact ⟨by unfold amount0Gen NumCtx.div; exact hi _, by unfold amount1Gen NumCtx.div; exact hi _⟩
      · injection h with h; subst h; exact ⟨hr, by unfold amount1Gen NumCtx.div; exact hi _⟩

/-- what a successful `new_position` of the driven kernel gives: the amounts are `get_amounts` of the minted liquidity -/
theorem newPosStd_ok (cx : NumCtx) (pool : Pool) (s : Nat) (ta tb : Int) (a0 a1 u0 u1 : Rat) (L : Int)
    (h : newPosStd cx pool s ta tb a0 a1 = .ok (u0, u1, L)) :
    amountsGen cx s ta tb L false pool.d0 pool.d1 = .ok (u0, u1) := by
  unfold newPosStd at h
  split at h
  · cases h
  · split at h
    · cases h
    · rename_i l hl
      split at h
      · cases h
      · rename_i u hu
        injection h with h
        have e1 : u.1 = u0 := by have := congrArg (fun x => x.1) h; simpa using this
        have e2 : u.2 = u1 := by have := congrArg (fun x => x.2.1) h; simpa using this
        have e3 : l = L := by have := congrArg (fun x => x.2.2) h; simpa using this
        subst e3
        rw [hu, ← e1, ← e2]

/-- round trip on the driven kernel, any integer liquidity `new_position` returned -/
theorem roundtrip_kernel_int (cx : NumCtx) (hr : cx.rnd 0 = 0) (pool : Pool) (s : Nat) (ta tb : Int) (a0 a1 u0 u1 : Rat) (L : Int)
    (h : newPosStd cx pool s ta tb a0 a1 = .ok (u0, u1, L)) :
    tokenAmountsStd cx pool s ta tb L false = .ok (u0, u1) := by
  have hu := newPosStd_ok cx pool s ta tb a0 a1 u0 u1 L h
  unfold tokenAmountsStd
  by_cases h0 : L = 0
  · subst h0
    rw [if_pos rfl, amountsGen_zero cx hr s ta tb pool.d0 pool.d1 _ hu]
  · rw [if_neg h0, hu]

theorem findPos_append_new (ps : List Pos) (p : Pos) (lo up : Int) (h : findPos ps lo up = none)
    (hp : p.hasKey lo up = true) : findPos (ps ++ [p]) lo up = some p := by
  unfold findPos at *
  rw [List.find?_append, h]
  simp [hp]

theorem mapPos_append_new (ps : List Pos) (p : Pos) (lo up : Int) (f : Pos → Pos) (h : findPos ps lo up = none)
    (hp : p.hasKey lo up = true) : mapPos (ps ++ [p]) lo up f = ps ++ [f p] := by
  unfold mapPos
  rw [List.map_append]
  have hall : ∀ q ∈ ps, q.hasKey lo up = false := by
    intro q hq
    unfold findPos at h
    have := List.find?_eq_none.1 h q hq
    simpa using this
  have e1 : ps.map (fun q => if q.hasKey lo up then f q else q) = ps := by
    conv => rhs; rw [← List.map_id ps]
    apply List.map_congr_left
    intro q hq
    simp [hall q hq]
  rw [e1]
  simp [hp]

theorem mkPos_key (lo up liq : Int) (a b c : Rat) : (mkPos lo up liq a b c).hasKey lo up = true := by
  unfold Pos.hasKey mkPos; simp

end C07RT

/-- **round trip on the market state machine.**  `_add_liquidity_by_tick` creates a new position `(lo, up)` at sqrt price `x`
    and reports `(token0_used, token1_used, liquidity)`; `remove_liquidity(position, collect=True)` at the same sqrt price then
    returns exactly `(token0_used, token1_used)` (as base/quote) and the wallet it leaves is the wallet after the add credited
    with exactly `token0_used` of token0 and `token1_used` of token1. -/
theorem C07_roundtrip_market (cx : NumCtx) (sq : Rat → Rat) (hr : cx.rnd 0 = 0) (hi : ∀ x, cx.rnd (cx.rnd x) = cx.rnd x)
    (pool : Pool) (s s1 : State) (a0 a1 : Rat) (lo up : Int) (x : Nat) (rd : Bool)
    (lo' up' : Int) (u0 u1 : Rat) (L : Int)
    (hnew : findPos s.positions lo up = none)
    (hadd : addRaw (Kern.std cx sq) pool s a0 a1 lo up (some x) = (.ok (lo', up', u0, u1, L), s1)) :
    ∃ s3, remove (Kern.std cx sq) pool s1 lo up none true (some x) rd =
            (.ok [(pool.conv u0 u1).1, (pool.conv u0 u1).2], s3) ∧
      s3.wallet = Wallet.credit cx (Wallet.credit cx s1.wallet pool.tok0 u0) pool.tok1 u1 ∧
      s3.isOpen = s1.isOpen := by
  -- take the successful add apart
  unfold addRaw at hadd
  simp only [resolveSqrt] at hadd
  split at hadd
  · cases hadd
  rename_i hopen
  split at hadd
  · cases hadd
  split at hadd
  · cases hadd
  split at hadd
  · cases hadd
  split at hadd
  · cases hadd
  rename_i v0 v1 liq hnp
  split at hadd
  · cases hadd
  rename_i ent hent
  split at hadd
  · cases hadd
  rename_i w2 hdeb
  injection hadd with hv hs1
  injection hv with hv
  have e0 : v0 = u0 := by have := congrArg (fun x => x.2.2.1) hv; simpa using this
  have e1 : v1 = u1 := by have := congrArg (fun x => x.2.2.2.1) hv; simpa using this
  have e2 : liq = L := by have := congrArg (fun x => x.2.2.2.2) hv; simpa using this
  subst e0 e1 e2
  have hopen' : s.isOpen = true := by simpa using hopen
  -- the new entity
  have hnp' : newPosStd cx pool x lo up a0 a1 = .ok (v0, v1, liq) := hnp
  obtain ⟨p0, hp0, hk0, hl0, hpe0, hpe1, htr0, hdec0⟩ :
      ∃ p0, ent = some p0 ∧ p0.hasKey lo up = true ∧ p0.liq = liq ∧ p0.pending0 = 0 ∧ p0.pending1 = 0 ∧
        p0.transferred = false ∧ p0.liqDec = false := by
    unfold newEntity at hent
    rw [hnew] at hent
    simp only [] at hent
    split at hent
    · injection hent with hent
      split at hent
      · exact ⟨_, hent.symm, mkPos_key _ _ _ _ _ _, rfl, rfl, rfl, rfl, rfl⟩
      · exact ⟨_, hent.symm, mkPos_key _ _ _ _ _ _, rfl, rfl, rfl, rfl, rfl⟩
    · cases hent
    · cases hent
    · cases hent
  subst hp0
  have hs1' : s1 = markUpdate { s with wallet := w2, positions := s.positions ++ [p0] } := by
    rw [← hs1]; rfl
  have hpos1 : s1.positions = s.positions ++ [p0] := by rw [hs1']; rfl
  have hw1 : s1.wallet = w2 := by rw [hs1']; rfl
  have hop1 : s1.isOpen = true := by rw [hs1']; exact hopen'
  have hfind1 : findPos s1.positions lo up = some p0 := by
    rw [hpos1]; exact findPos_append_new _ _ _ _ hnew hk0
  have hH0 : Has w2 pool.tok0 := has_debit2 hdeb _ (Or.inr (Or.inl rfl))
  have hH1 : Has w2 pool.tok1 := has_debit2 hdeb _ (Or.inr (Or.inr rfl))
  have hWH : WalletHas pool s1.wallet := by rw [hw1]; exact ⟨hH0, hH1⟩
  obtain ⟨bb, hbb⟩ := balanceOf_of_has hWH.base
  obtain ⟨qb, hqb⟩ := balanceOf_of_has hWH.quote
  -- the kernel round trip
  have hamt : tokenAmountsStd cx pool x lo up liq false = .ok (v0, v1) :=
    roundtrip_kernel_int cx hr pool x lo up a0 a1 v0 v1 liq hnp'
  have hrnd := amountsGen_rounded cx hr hi x lo up liq false pool.d0 pool.d1 (v0, v1)
    (newPosStd_ok cx pool x lo up a0 a1 v0 v1 liq hnp')
  have hadd0 : cx.add 0 v0 = v0 := by unfold NumCtx.add; rw [zero_add]; exact hrnd.1
  have hadd1 : cx.add 0 v1 = v1 := by unfold NumCtx.add; rw [zero_add]; exact hrnd.2
  -- `remove_liquidity` without the collect
  set K := Kern.std cx sq with hK
  have hKa : K.amounts = tokenAmountsStd cx := rfl
  have hKc : K.cx = cx := rfl
  set p1 : Pos := removePos cx p0 liq false v0 v1 with hp1
  have hrem : removeNoCollect K pool s1 lo up none (some x) =
      (.ok [(pool.conv v0 v1).1, (pool.conv v0 v1).2],
        record (removeCore K s1 lo up p0 liq false v0 v1) (removeAct pool p1 liq v0 v1 bb qb)) := by
    unfold removeNoCollect
    have ht : isTransferred s1.positions lo up = false := by unfold isTransferred; rw [hfind1]; exact htr0
    have hd : removeDelta none p0 = (liq, false) := by
      show (p0.liq, p0.liqDec) = (liq, false)
      rw [hl0, hdec0]
    simp only [negLiq, decide_false, Bool.false_eq_true, if_false, ht, hop1, Bool.not_true, resolveSqrt, hfind1, hd, hKa, hamt,
      hbb, hqb, hKc, ← hp1]
  -- the state after it
  set s2 := record (removeCore K s1 lo up p0 liq false v0 v1) (removeAct pool p1 liq v0 v1 bb qb) with hs2
  have hpos2 : s2.positions = s.positions ++ [p1] := by
    show mapPos s1.positions lo up (fun _ => removePos K.cx p0 liq false v0 v1) = _
    rw [hpos1, mapPos_append_new _ _ _ _ _ hnew hk0]
    rfl
  have hw2 : s2.wallet = s1.wallet := rfl
  have hop2 : s2.isOpen = true := hop1
  have hk1 : p1.hasKey lo up = true := hk0
  have hfind2 : findPos s2.positions lo up = some p1 := by
    rw [hpos2]; exact findPos_append_new _ _ _ _ hnew hk1
  have hp1pe0 : p1.pending0 = v0 := by rw [hp1]; show cx.add p0.pending0 v0 = v0; rw [hpe0]; exact hadd0
  have hp1pe1 : p1.pending1 = v1 := by rw [hp1]; show cx.add p0.pending1 v1 = v1; rw [hpe1]; exact hadd1
  have hp1tr : p1.transferred = false := htr0
  -- the collect
  have hHc0 : Has (collectWallet cx pool s2.wallet true v0 v1) pool.tok0 := by
    unfold collectWallet; rw [if_pos rfl]
    exact has_credit _ _ _ _ _ (Or.inl (has_credit _ _ _ _ _ (Or.inl hWH.1)))
  have hHc1 : Has (collectWallet cx pool s2.wallet true v0 v1) pool.tok1 := by
    unfold collectWallet; rw [if_pos rfl]
    exact has_credit _ _ _ _ _ (Or.inr rfl)
  have hWHc : WalletHas pool (collectWallet cx pool s2.wallet true v0 v1) := ⟨hHc0, hHc1⟩
  obtain ⟨bb2, hbb2⟩ := balanceOf_of_has hWHc.base
  obtain ⟨qb2, hqb2⟩ := balanceOf_of_has hWHc.quote
  have hcol : collect K pool s2 lo up none none rd true =
      (.ok [(pool.conv v0 v1).1, (pool.conv v0 v1).2], collectFinish K pool s2 lo up p1 v0 v1 rd true bb2 qb2) := by
    unfold collect
    simp only [negGiven, Bool.or_self, Bool.false_eq_true, if_false, hfind2, hp1tr, hop2, Bool.not_true, capAt, hp1pe0, hp1pe1,
      hKc, hbb2, hqb2]
  refine ⟨collectFinish K pool s2 lo up p1 v0 v1 rd true bb2 qb2, ?_, ?_, ?_⟩
  · unfold remove
    rw [hrem]
    simp only [if_true]
    exact hcol
  · unfold collectFinish
    simp only []
    split <;> (show collectWallet K.cx pool s2.wallet true v0 v1 = _; unfold collectWallet; rw [if_pos rfl, hw2]; rfl)
  · unfold collectFinish
    simp only []
    split <;> rfl

/-! ### the same with the sqrt price taken from the market row (`sqrt_price_x96` not given), unchanged between the two calls -/

namespace C07RT

theorem resolveSqrt_row (K : Kern) (pool : Pool) (s s' : State) (h : s'.row = s.row) (sq : Option Nat) :
    resolveSqrt K pool s' sq = resolveSqrt K pool s sq := by
  cases sq with
  | some x => rfl
  | none => simp only [resolveSqrt, priceOf, h]

theorem addRaw_sqrt_congr (K : Kern) (pool : Pool) (s : State) (a0 a1 : Rat) (lo up : Int) (sq : Option Nat) (x : Nat)
    (h : resolveSqrt K pool s sq = .ok x) : addRaw K pool s a0 a1 lo up sq = addRaw K pool s a0 a1 lo up (some x) := by
  unfold addRaw
  rw [h]
  simp only [resolveSqrt]

theorem remove_sqrt_congr (K : Kern) (pool : Pool) (s : State) (lo up : Int) (l : Option Int) (c : Bool) (sq : Option Nat)
    (x : Nat) (rd : Bool) (h : resolveSqrt K pool s sq = .ok x) :
    remove K pool s lo up l c sq rd = remove K pool s lo up l c (some x) rd := by
  unfold remove removeNoCollect
  rw [h]
  simp only [resolveSqrt]

theorem addRaw_ok_row (K : Kern) (pool : Pool) (s s1 : State) (a0 a1 : Rat) (lo up : Int) (sq : Option Nat)
    (v : Int × Int × Rat × Rat × Int) (h : addRaw K pool s a0 a1 lo up sq = (.ok v, s1)) : s1.row = s.row := by
  unfold addRaw at h
  repeat' split at h
  all_goals first
    | (injection h with _ h2; rw [← h2]; rfl)
    | (cases h)

theorem addRaw_ok_resolves (K : Kern) (pool : Pool) (s s1 : State) (a0 a1 : Rat) (lo up : Int) (sq : Option Nat)
    (v : Int × Int × Rat × Rat × Int) (h : addRaw K pool s a0 a1 lo up sq = (.ok v, s1)) :
    ∃ x, resolveSqrt K pool s sq = .ok x := by
  cases hres : resolveSqrt K pool s sq with
  | ok x => exact ⟨x, rfl⟩
  | error e =>
    exfalso
    unfold addRaw at h
    rw [hres] at h
    repeat' split at h
    all_goals (try cases h)
    all_goals simp_all

end C07RT

/-- **round trip on the market state machine, sqrt price from the market** (`sqrt_price_x96` argument omitted or given, the
    same in both calls; the market row is not changed by the add): remove-with-collect returns and credits exactly the
    amounts the add reported as used. -/
theorem C07_roundtrip_market_price (cx : NumCtx) (sq : Rat → Rat) (hr : cx.rnd 0 = 0) (hi : ∀ x, cx.rnd (cx.rnd x) = cx.rnd x)
    (pool : Pool) (s s1 : State) (a0 a1 : Rat) (lo up : Int) (sq? : Option Nat) (rd : Bool)
    (lo' up' : Int) (u0 u1 : Rat) (L : Int)
    (hnew : findPos s.positions lo up = none)
    (hadd : addRaw (Kern.std cx sq) pool s a0 a1 lo up sq? = (.ok (lo', up', u0, u1, L), s1)) :
    ∃ s3, remove (Kern.std cx sq) pool s1 lo up none true sq? rd =
            (.ok [(pool.conv u0 u1).1, (pool.conv u0 u1).2], s3) ∧
      s3.wallet = Wallet.credit cx (Wallet.credit cx s1.wallet pool.tok0 u0) pool.tok1 u1 ∧
      s3.isOpen = s1.isOpen := by
  obtain ⟨x, hres⟩ := addRaw_ok_resolves _ pool s s1 a0 a1 lo up sq? _ hadd
  have hrow := addRaw_ok_row _ pool s s1 a0 a1 lo up sq? _ hadd
  have hres1 : resolveSqrt (Kern.std cx sq) pool s1 sq? = .ok x := by rw [resolveSqrt_row _ pool s s1 hrow]; exact hres
  rw [addRaw_sqrt_congr _ pool s a0 a1 lo up sq? x hres] at hadd
  rw [remove_sqrt_congr _ pool s1 lo up none true sq? x rd hres1]
  exact C07_roundtrip_market cx sq hr hi pool s s1 a0 a1 lo up x rd lo' up' u0 u1 L hnew hadd

/-! ### the two contexts of interest satisfy the hypotheses -/

open Numerics in
theorem C07RT.pyG_rnd_zero : NumCtx.pyG.rnd 0 = 0 := by
  show (if InRange 0 then round35 0 else 0) = 0
  split
  · exact round35_zero
  · rfl

open Numerics in
theorem C07RT.pyG_rnd_idem (x : Rat) : NumCtx.pyG.rnd (NumCtx.pyG.rnd x) = NumCtx.pyG.rnd x := by
  show (if InRange (if InRange x then round35 x else x) then round35 (if InRange x then round35 x else x)
        else (if InRange x then round35 x else x)) = (if InRange x then round35 x else x)
  by_cases h : InRange x
  · simp only [if_pos h]
    by_cases h' : InRange (round35 x)
    · rw [if_pos h']; exact round35_idem x h h'
    · rw [if_neg h']
  · simp only [if_neg h]

/-- the round trip in the exact context and under 35-digit arithmetic (`** 2` as libmpdec computes it) -/
theorem C07_roundtrip_market_round35 (pool : Pool) (s s1 : State) (a0 a1 : Rat) (lo up : Int) (x : Nat) (rd : Bool)
    (lo' up' : Int) (u0 u1 : Rat) (L : Int) (hnew : findPos s.positions lo up = none)
    (hadd : addRaw (Kern.std NumCtx.pyG (fun x => dpowNat 35 x 2)) pool s a0 a1 lo up (some x) = (.ok (lo', up', u0, u1, L), s1)) :
    ∃ s3, remove (Kern.std NumCtx.pyG (fun x => dpowNat 35 x 2)) pool s1 lo up none true (some x) rd =
            (.ok [(pool.conv u0 u1).1, (pool.conv u0 u1).2], s3) ∧
      s3.wallet = Wallet.credit NumCtx.pyG (Wallet.credit NumCtx.pyG s1.wallet pool.tok0 u0) pool.tok1 u1 ∧
      s3.isOpen = s1.isOpen :=
  C07_roundtrip_market NumCtx.pyG _ C07RT.pyG_rnd_zero C07RT.pyG_rnd_idem pool s s1 a0 a1 lo up x rd lo' up' u0 u1 L hnew hadd

/-! ### non-vacuity: a 1000 USDC / 1 ETH add over the full range of a spacing-60 pool at tick 0 succeeds -/

def C07RT.demoPool : Pool :=
  { tok0 := "usdc", tok1 := "eth", d0 := 6, d1 := 18, feeRate := 3 / 1000, spacing := 60, q0 := true, decFac := 1 / 10 ^ 12 }

def C07RT.demoState : State :=
  { positions := [], lastTick := none, row := none, ts := none, isOpen := true, hasUpdate := false,
    wallet := [("usdc", 5000), ("eth", 3)], allowNeg := false, actions := [] }

example : (match (addRaw (Kern.std NumCtx.exact (fun x => x * x)) C07RT.demoPool C07RT.demoState 1000 1 (-887220) 887220 (some (2 ^ 96))).1 with
    | .ok v => decide (v.2.2.2.2 = 1000000000)
    | .error _ => false) = true := by decide +kernel
example : findPos C07RT.demoState.positions (-887220) 887220 = none := rfl

end Demeter
