/-
  C02 — no look-ahead: bars 0..k depend only on the data of bars 0..k.

  Model: Demeter/Actuator/Causal.lean.  The bar loop is a fold over the supplied history whose per-bar *view* is what the
  code reads at bar k; one bar of the loop (strategy hooks, triggers, market updates, account row, notify) is an arbitrary
  function of the state so far and the view — so the theorem holds for every strategy, every market and every
  configuration.  What is proved: (1) each view of the code (row of bar k, Uniswap's shifted price column, Squeeth's TWAP
  window, Deribit's hourly row, `resample().first()`) reads rows 0..k only; (2) a loop over such a view produces the same
  outputs and the same state for bars 0..k on any two histories that agree on bars 0..k.  For the abstract-market bar loop
  of Demeter/Actuator.lean the same is proved concretely (`C02_actuator_*`).

  Not in the model (decided by measurement in harness/c02.py, labelled so): that the implementation's lookups *are* these
  views (two-suffix runs of the real Actuator), that the supplied pandas frames are not mutated in place (hashing), and that
  a rerun reproduces (a pure function trivially does).
-/
import Demeter.Actuator.Causal
import Proofs.Lemmas.CoreCausal
import Proofs.Lemmas.CoreActuator5
namespace Demeter
open Core

/-- a view reads rows 0..k only -/
def Core.ViewFn.Local {D V : Type} (v : ViewFn D V) : Prop :=
  ∀ (h₁ h₂ : List D) (k : Nat), h₁.take (k + 1) = h₂.take (k + 1) → v h₁ k = v h₂ k

theorem core_getElem?_of_take {D : Type} {h₁ h₂ : List D} {k j : Nat} (h : h₁.take (k + 1) = h₂.take (k + 1)) (hj : j ≤ k) :
    h₁[j]? = h₂[j]? := by
  have e1 : (h₁.take (k + 1))[j]? = h₁[j]? := by rw [List.getElem?_take]; simp; omega
  have e2 : (h₂.take (k + 1))[j]? = h₂[j]? := by rw [List.getElem?_take]; simp; omega
  rw [← e1, ← e2, h]

/-! ### the views of the code are local -/

theorem C02_row_view_local {D : Type} : (rowView : ViewFn D (Option D)).Local := by
  intro h₁ h₂ k h
  exact core_getElem?_of_take h (le_refl k)

/-- Uniswap's `price` column (`close.shift(1)`, first bar from its own open) reads bar k-1 (bar 0 for k = 0) -/
theorem C02_shift_view_local {D E : Type} (openOf closeOf : D → E) : (shiftView openOf closeOf).Local := by
  intro h₁ h₂ k h
  cases k with
  | zero => simp only [shiftView]; rw [core_getElem?_of_take h (le_refl 0)]
  | succ j => simp only [shiftView]; rw [core_getElem?_of_take h (Nat.le_succ j)]

/-- Squeeth's TWAP window ends at the current bar -/
theorem C02_twap_view_local {D : Type} (ts : D → Int) : (twapView ts).Local := by
  intro h₁ h₂ k h
  simp only [twapView]
  rw [core_getElem?_of_take h (le_refl k), h]

/-- the window is exactly the rows of bars `j ≤ k` not older than 6 minutes = `TWAP_PERIOD − 1` with `TWAP_PERIOD = 7` -/
theorem C02_twap_window_is_last_7_minutes {D : Type} (ts : D → Int) (h : List D) (k : Nat) (d : D) (hk : h[k]? = some d) (x : D) :
    Gen.coreTwapPeriodMin = 7 ∧ (x ∈ twapView ts h k ↔ x ∈ h.take (k + 1) ∧ ts d - 360 ≤ ts x) := by
  refine ⟨rfl, ?_⟩
  simp only [twapView, hk, List.mem_filter]
  constructor
  · rintro ⟨h1, h2⟩
    have := of_decide_eq_true h2
    simp only [Gen.coreTwapPeriodMin] at this
    exact ⟨h1, by omega⟩
  · rintro ⟨h1, h2⟩
    refine ⟨h1, decide_eq_true ?_⟩
    simp only [Gen.coreTwapPeriodMin]
    omega

/-- Deribit's hourly row is looked up among bars 0..k -/
theorem C02_hour_view_local {D : Type} (ts : D → Int) : (hourView ts).Local := by
  intro h₁ h₂ k h
  simp only [hourView]
  rw [core_getElem?_of_take h (le_refl k), h]

/-- against Deribit's own frame: the lookup at a bar with time `now` reads only rows stamped `≤ now` — two books that agree on
    those rows give the same answer -/
theorem C02_hour_lookup_reads_past_only {R : Type} (b₁ b₂ : List (Int × R)) (now : Int)
    (h : b₁.filter (fun x => decide (x.1 ≤ now)) = b₂.filter (fun x => decide (x.1 ≤ now))) :
    hourLookup b₁ now = hourLookup b₂ now := by
  have key : ∀ b : List (Int × R), hourLookup b now = (b.filter (fun x => decide (x.1 ≤ now))).find? (fun x => x.1 == now - now % 3600) := by
    intro b
    unfold hourLookup
    induction b with
    | nil => rfl
    | cons x b ih =>
      by_cases hx : x.1 = now - now % 3600
      · have hle : x.1 ≤ now := by have := Int.emod_nonneg now (by norm_num : (3600 : Int) ≠ 0); omega
        have hb : (x.1 == now - now % 3600) = true := by simpa using hx
        simp only [List.filter_cons, hle, decide_true, if_true, List.find?_cons, hb]
      · by_cases hle : x.1 ≤ now
        · simp only [List.filter_cons, hle, decide_true, if_true, List.find?_cons]
          have : (x.1 == now - now % 3600) = false := by simpa using hx
          rw [this]; exact ih
        · simp only [List.filter_cons, hle, decide_false, List.find?_cons]
          have : (x.1 == now - now % 3600) = false := by simpa using hx
          simp only [this]
          exact ih
  rw [key b₁, key b₂, h]

theorem C02_pair_view_local {D V W : Type} (v : ViewFn D V) (w : ViewFn D W) (hv : v.Local) (hw : w.Local) :
    (pairView v w).Local := by
  intro h₁ h₂ k h
  simp only [pairView, hv h₁ h₂ k h, hw h₁ h₂ k h]

/-- a view that peeks one bar ahead is *not* local: the hypothesis of the main theorem excludes something -/
theorem C02_peeking_view_not_local : ¬ ViewFn.Local (fun (h : List Nat) k => h[k + 1]? : ViewFn Nat (Option Nat)) := by
  intro hl
  have := hl [0, 1] [0, 2] 0 rfl
  simp at this

/-- `resample(freq).first()`: the coarse bars 0..j are determined by the raw rows of bins 0..j (raw rows in time order) -/
theorem C02_resample_first_prefix {D : Type} (bin : D → Nat) (pre suf₁ suf₂ : List D) (j n₁ n₂ : Nat)
    (h₁ : ∀ x ∈ suf₁, j < bin x) (h₂ : ∀ x ∈ suf₂, j < bin x) (hn₁ : j < n₁) (hn₂ : j < n₂) :
    (coarsen bin (pre ++ suf₁) n₁).take (j + 1) = (coarsen bin (pre ++ suf₂) n₂).take (j + 1) := by
  apply List.ext_getElem?
  intro i
  simp only [coarsen, List.getElem?_take, List.getElem?_map]
  by_cases hi : i < j + 1
  · simp only [hi, if_true]
    have r1 : (List.range n₁)[i]? = some i := by rw [List.getElem?_range]; omega
    have r2 : (List.range n₂)[i]? = some i := by rw [List.getElem?_range]; omega
    rw [r1, r2]
    simp only [Option.map_some, List.find?_append]
    have s1 : suf₁.find? (fun x => bin x == i) = none := by
      apply List.find?_eq_none.mpr; intro x hx; have := h₁ x hx; simp; omega
    have s2 : suf₂.find? (fun x => bin x == i) = none := by
      apply List.find?_eq_none.mpr; intro x hx; have := h₂ x hx; simp; omega
    rw [s1, s2]
  · simp [hi]

/-! ### the main statement -/

theorem core_runFrom_take {D V S O : Type} (L : Loop D V S O) (h₁ h₂ : List D) :
    ∀ (m n₁ n₂ k : Nat) (s : S), m ≤ n₁ → m ≤ n₂ → (∀ j, k ≤ j → j < k + m → L.view h₁ j = L.view h₂ j) →
      (L.runFrom h₁ n₁ k s).take m = (L.runFrom h₂ n₂ k s).take m
  | 0, _, _, _, _, _, _, _ => by simp
  | m + 1, n₁ + 1, n₂ + 1, k, s, h1, h2, hv => by
    have e := hv k (le_refl k) (by omega)
    simp only [Loop.runFrom, List.take_succ_cons, e]
    congr 1
    exact core_runFrom_take L h₁ h₂ m n₁ n₂ (k + 1) _ (by omega) (by omega) (fun j hj1 hj2 => hv j (by omega) (by omega))

/-- **C02.**  For every loop whose view is local — every strategy, every market behaviour, every configuration, all of it
    inside `step` — and any two histories that agree on their first `pre.length` bars, the outputs (account rows, recorded
    actions, snapshots handed to the strategy) of those bars are identical, whatever comes later. -/
theorem C02_prefix {D V S O : Type} (L : Loop D V S O) (hloc : L.view.Local) (pre suf₁ suf₂ : List D) (s0 : S) :
    (L.run (pre ++ suf₁) s0).take pre.length = (L.run (pre ++ suf₂) s0).take pre.length := by
  unfold Loop.run
  apply core_runFrom_take L _ _ pre.length _ _ 0 s0 (by simp) (by simp)
  intro j _ hj
  apply hloc
  rw [List.take_append_of_le_length (by omega), List.take_append_of_le_length (by omega)]

/-- the same for every single bar `k` of the common prefix (all `k` at once) -/
theorem C02_prefix_each_bar {D V S O : Type} (L : Loop D V S O) (hloc : L.view.Local) (pre suf₁ suf₂ : List D) (s0 : S)
    (k : Nat) (hk : k < pre.length) : (L.run (pre ++ suf₁) s0)[k]? = (L.run (pre ++ suf₂) s0)[k]? := by
  have h := C02_prefix L hloc pre suf₁ suf₂ s0
  have e1 : ((L.run (pre ++ suf₁) s0).take pre.length)[k]? = (L.run (pre ++ suf₁) s0)[k]? := by
    rw [List.getElem?_take]; simp [hk]
  have e2 : ((L.run (pre ++ suf₂) s0).take pre.length)[k]? = (L.run (pre ++ suf₂) s0)[k]? := by
    rw [List.getElem?_take]; simp [hk]
  rw [← e1, ← e2, h]

/-- the loop's internal state (positions, balances, trigger state, …) after the common prefix is the same too -/
def Core.Loop.stateAfter {D V S O : Type} (L : Loop D V S O) (h : List D) : Nat → Nat → S → S
  | 0, _, s => s
  | n + 1, k, s => L.stateAfter h n (k + 1) (L.step s k (L.view h k)).1

theorem C02_state_prefix {D V S O : Type} (L : Loop D V S O) (hloc : L.view.Local) (pre suf₁ suf₂ : List D) (s0 : S) :
    L.stateAfter (pre ++ suf₁) pre.length 0 s0 = L.stateAfter (pre ++ suf₂) pre.length 0 s0 := by
  have key : ∀ (m k : Nat) (s : S), k + m ≤ pre.length →
      L.stateAfter (pre ++ suf₁) m k s = L.stateAfter (pre ++ suf₂) m k s := by
    intro m
    induction m with
    | zero => intro k s _; rfl
    | succ m ih =>
      intro k s hk
      have e : L.view (pre ++ suf₁) k = L.view (pre ++ suf₂) k := by
        apply hloc
        rw [List.take_append_of_le_length (by omega), List.take_append_of_le_length (by omega)]
      simp only [Loop.stateAfter, e]
      exact ih (k + 1) _ (by omega)
  exact key pre.length 0 s0 (by omega)

/-! ### the abstract-market bar loop of Demeter/Actuator.lean, concretely -/

/-- the bar loop consults the supplied data (market frames, price frame, resampled or not) only through the rows of the bars
    it visits: two configurations that supply the same data for the bars `bars` (`AgreeAt`: same price row, and per market
    the same `is_open`, the same row and the same open callback) produce the same trace, rows, actions and final state —
    whatever else their frames contain (in particular: later rows) -/
theorem C02_actuator_reads_own_bars_only (c₁ c₂ : Cfg) (sc : Script) (bars : List Int) (row : Nat) (st : St)
    (h : ∀ t ∈ bars, AgreeAt c₁ c₂ t) : runBars c₁ sc row bars st = runBars c₂ sc row bars st :=
  runBars_agree c₁ c₂ sc bars row st h

/-- **C02 for the bar loop of Demeter/Actuator.lean.**  Two runs whose bar indexes share the prefix `pre` and whose data agree
    on the bars of `pre` have the same call trace (hook calls with their snapshots, refreshes, operations and their outcomes,
    recorded actions, account rows, notifications) for those bars, and are in the same state after them — whatever comes later. -/
theorem C02_actuator_prefix (c₁ c₂ : Cfg) (sc : Script) (pre suf₁ suf₂ : List Int) (row : Nat) (st : St)
    (hag : ∀ t ∈ pre, AgreeAt c₁ c₂ t) (hok : (runBars c₁ sc row pre st).2.2 = none) :
    ∃ later₁ later₂,
      (runBars c₁ sc row (pre ++ suf₁) st).1 = (runBars c₁ sc row pre st).1 ++ later₁ ∧
      (runBars c₂ sc row (pre ++ suf₂) st).1 = (runBars c₁ sc row pre st).1 ++ later₂ ∧
      later₁ = (runBars c₁ sc (row + pre.length) suf₁ (runBars c₁ sc row pre st).2.1).1 ∧
      later₂ = (runBars c₂ sc (row + pre.length) suf₂ (runBars c₁ sc row pre st).2.1).1 := by
  have e := runBars_agree c₁ c₂ sc pre row st hag
  have hok₂ : (runBars c₂ sc row pre st).2.2 = none := by rw [← e]; exact hok
  refine ⟨_, _, ?_, ?_, rfl, rfl⟩
  · rw [runBars_append c₁ sc pre suf₁ row st hok]
  · rw [runBars_append c₂ sc pre suf₂ row st hok₂, ← e]

/-- **C02 — the triggers' state is causal too.**  After the bars `pre` (of a run that got through them) the installed trigger objects — with
    their private state: `PeriodTrigger._next_match`, `PeriodsTrigger._next_matches`, who has been retired — are exactly what the pure trigger
    fold `trigRun` leaves over the timestamps of `pre`: a function of the bars visited so far and the triggers as installed, and of nothing
    else — not of the market data, the prices, what the hooks do (from `notify` included), nor of any later bar. -/
theorem C02_trigger_state_after_k_bars (cfg : Cfg) (sc : Script) (pre : List Int) (row : Nat) (st : St)
    (hok : (runBars cfg sc row pre st).2.2 = none) :
    (runBars cfg sc row pre st).2.1.trigs = (trigRun pre st.trigs).2.1 ∧
    (runBars cfg sc row pre st).1.filterMap fireOfEv = (trigRun pre st.trigs).1 :=
  ⟨(runBars_trig cfg sc pre row st hok).2.1, (runBars_trig cfg sc pre row st hok).1⟩

/-- … hence two runs over different data, different scripts and different futures that share the bar prefix `pre` hold identical trigger
    objects after it and have called the same trigger actions on the same bars -/
theorem C02_trigger_state_prefix (c₁ c₂ : Cfg) (sc₁ sc₂ : Script) (pre : List Int) (row₁ row₂ : Nat) (st₁ st₂ : St)
    (htr : st₁.trigs = st₂.trigs)
    (h₁ : (runBars c₁ sc₁ row₁ pre st₁).2.2 = none) (h₂ : (runBars c₂ sc₂ row₂ pre st₂).2.2 = none) :
    (runBars c₁ sc₁ row₁ pre st₁).2.1.trigs = (runBars c₂ sc₂ row₂ pre st₂).2.1.trigs ∧
    (runBars c₁ sc₁ row₁ pre st₁).1.filterMap fireOfEv = (runBars c₂ sc₂ row₂ pre st₂).1.filterMap fireOfEv := by
  obtain ⟨a1, a2⟩ := C02_trigger_state_after_k_bars c₁ sc₁ pre row₁ st₁ h₁
  obtain ⟨b1, b2⟩ := C02_trigger_state_after_k_bars c₂ sc₂ pre row₂ st₂ h₂
  rw [a1, a2, b1, b2, htr]
  exact ⟨rfl, rfl⟩

/-- a frame supplies the same data for a bar whenever its index and its rows up to the end of the bar's bin are the same:
    `is_open` and the row read at `ts` (first row of `[ts, ts + Δ)` after resampling, the row stamped `ts` otherwise) depend on
    the raw rows `< ts + Δ` only, given the same resampled index up to `ts` -/
theorem C02_frame_row_reads_own_bin_only (resample : Bool) (Δ ts : Int) (hΔ : 0 < Δ) (pre suf₁ suf₂ : List Int)
    (h₁ : ∀ x ∈ suf₁, ts + Δ ≤ x) (h₂ : ∀ x ∈ suf₂, ts + Δ ≤ x) :
    frameSrc resample Δ (pre ++ suf₁) ts = frameSrc resample Δ (pre ++ suf₂) ts := by
  unfold frameSrc
  cases resample with
  | true =>
    simp only [if_true, List.find?_append]
    have s1 : suf₁.find? (fun t => decide (ts ≤ t) && decide (t < ts + Δ)) = none := by
      apply List.find?_eq_none.mpr; intro x hx; have := h₁ x hx; simp; omega
    have s2 : suf₂.find? (fun t => decide (ts ≤ t) && decide (t < ts + Δ)) = none := by
      apply List.find?_eq_none.mpr; intro x hx; have := h₂ x hx; simp; omega
    rw [s1, s2]
  | false =>
    have c1 : (pre ++ suf₁).contains ts = pre.contains ts := by
      have : ts ∉ suf₁ := fun hx => by have := h₁ ts hx; omega
      simp [this]
    have c2 : (pre ++ suf₂).contains ts = pre.contains ts := by
      have : ts ∉ suf₂ := fun hx => by have := h₂ ts hx; omega
      simp [this]
    simp only [Bool.false_eq_true, if_false, c1, c2]

/-! ### non-vacuity: a loop over Uniswap-like rows with the shifted price column and a 3-bar history -/

/-- rows `(timestamp, open, close)`; the view is (row, shifted price); the step accumulates the prices seen -/
def Core.exLoop : Loop (Int × Nat × Nat) (Option (Int × Nat × Nat) × Option Nat) (List Nat) (Nat × List Nat) :=
  { view := pairView rowView (shiftView (fun d => d.2.1) (fun d => d.2.2)),
    step := fun s k v => (s ++ v.2.toList, (k, s ++ v.2.toList)) }

example : Core.exLoop.view.Local := C02_pair_view_local _ _ C02_row_view_local (C02_shift_view_local _ _)

example : Core.exLoop.run [(0, 10, 11), (60, 11, 12), (120, 12, 9)] [] = [(0, [10]), (1, [10, 11]), (2, [10, 11, 12])] := by decide

example : (Core.exLoop.run ([(0, 10, 11), (60, 11, 12)] ++ [(120, 12, 9)]) []).take 2 =
    (Core.exLoop.run ([(0, 10, 11), (60, 11, 12)] ++ [(120, 500, 1), (180, 1, 1)]) []).take 2 :=
  C02_prefix Core.exLoop (C02_pair_view_local _ _ C02_row_view_local (C02_shift_view_local _ _))
    [(0, 10, 11), (60, 11, 12)] [(120, 12, 9)] [(120, 500, 1), (180, 1, 1)] []

/-- two configurations that differ only after the first two bars (a market frame and a price frame with different futures) -/
def Core.exC1 : Cfg := ⟨[{ idx := [0, 60, 120], openCb := false }], [0, 60, 120], 60, false⟩
def Core.exC2 : Cfg := ⟨[{ idx := [0, 60, 180, 240], openCb := false }], [0, 60, 180, 240], 60, false⟩

example : ∀ t ∈ [(0 : Int), 60], AgreeAt Core.exC1 Core.exC2 t := by
  intro t ht
  simp only [List.mem_cons, List.not_mem_nil, or_false] at ht
  rcases ht with rfl | rfl <;> exact ⟨by decide, .cons ⟨rfl, by decide, by decide⟩ .nil⟩

example : ¬ AgreeAt Core.exC1 Core.exC2 120 := by
  intro h
  have := h.1
  revert this
  decide

end Demeter
