/-
  C05 — "a run visits each bar of the (optionally resampled) time index exactly once": which timestamps ARE the bars.

  `runBars` recurses over `barIndex cfg`, so "once per element of `barIndex`" holds by the shape of the recursion (Proofs/C05.lean states it
  for the hooks and the account rows).  What is not by construction is that `barIndex cfg` is the right list: this file proves that it COVERS
  the data of the driving market — every timestamp of that market's frame is a bar (raw interval), or lies in the bin `[b, b + Δ)` of exactly
  the bar `b = binLabel …` (coarser interval) — and contains nothing else: every bar is a timestamp of the frame (raw), or a bin label between the
  bin of the first and the bin of the last row (resampled; empty bins in between are bars too, as pandas' `resample().first()` keeps them).
  `core_distinctTimes_mem` (Proofs/C05.lean) was one direction only.
-/
import Proofs.C05
namespace Demeter
open Core

/-- the distinct timestamps of a frame are exactly its timestamps (both directions) -/
theorem core_distinctTimes_mem_iff : ∀ (l : List Int) (x : Int), x ∈ distinctTimes l ↔ x ∈ l
  | [], _ => Iff.rfl
  | [_], _ => Iff.rfl
  | a :: b :: l, x => by
    have ih := core_distinctTimes_mem_iff (b :: l) x
    unfold distinctTimes
    split
    · rename_i hab
      rw [ih]
      constructor
      · exact List.mem_cons_of_mem _
      · intro h
        rcases List.mem_cons.mp h with rfl | h'
        · rw [hab]; exact List.mem_cons_self ..
        · exact h'
    · rw [List.mem_cons, ih, List.mem_cons (a := x) (b := a)]

/-- in a non-decreasing list everything lies between the first and the last element -/
theorem core_sorted_bounds : ∀ (d : List Int), d.Pairwise (· ≤ ·) → ∀ a b, d.head? = some a → d.getLast? = some b → ∀ t ∈ d, a ≤ t ∧ t ≤ b
  | [], _, _, _, h, _, _, _ => by cases h
  | [x], _, a, b, hh, hl, t, ht => by
    simp at hh hl ht
    omega
  | x :: y :: r, hs, a, b, hh, hl, t, ht => by
    have hs' := List.pairwise_cons.mp hs
    have hl' : (y :: r).getLast? = some b := by rw [List.getLast?_cons_cons] at hl; exact hl
    have ih := core_sorted_bounds (y :: r) hs'.2 y b rfl hl'
    simp only [List.head?_cons, Option.some.injEq] at hh
    subst hh
    have hxy : x ≤ y := hs'.1 y (List.mem_cons_self ..)
    have hyb := (ih y (List.mem_cons_self ..)).2
    rcases List.mem_cons.mp ht with rfl | ht'
    · exact ⟨le_refl _, by omega⟩
    · have := ih t ht'
      exact ⟨by omega, this.2⟩

/-- `resample(Δ).first()` looks at the first and the last row only -/
theorem core_resampleIdx_ends (Δ : Int) (d : List Int) (a b : Int) (hh : d.head? = some a) (hl : d.getLast? = some b) :
    resampleIdx Δ d = resampleIdx Δ (a :: ([] ++ [b])) := by
  have h2 : (a :: ([] ++ [b])).getLast? = some b := by simp
  simp only [resampleIdx, hh, hl, h2, List.head?_cons]

/-- **C05 — the bar index covers the driving market's data, and nothing else.**  For every configuration with at least one market whose frames
    have a non-decreasing time index there is a market `mc` — one with the largest number of distinct timestamps (`get_test_range`) — such that
      * raw interval: the bars are exactly the timestamps of `mc`'s frame (`t` is a bar ⇔ the frame has a row at `t`);
      * coarser interval `Δ`: every row of `mc`'s frame at `t` lies in the bin `[b, b + Δ)` of the bar `b = binLabel Δ (midnight of the first row) t`,
        and every bar is a bin label `first bin + i·Δ` not after the last row. -/
theorem C05_bar_index_covers (cfg : Cfg) (hΔ : 0 < cfg.Δ) (hne : cfg.markets ≠ []) (hraw : ∀ mc ∈ cfg.markets, mc.idx.Pairwise (· ≤ ·)) :
    ∃ mc ∈ cfg.markets, (∀ m' ∈ cfg.markets, (distinctTimes m'.idx).length ≤ (distinctTimes mc.idx).length) ∧
      (cfg.resample = false → ∀ t, t ∈ barIndex cfg ↔ t ∈ mc.idx) ∧
      (cfg.resample = true → ∀ a b, mc.idx.head? = some a → mc.idx.getLast? = some b →
        (∀ t ∈ mc.idx, binLabel cfg.Δ (dayStart a) t ∈ barIndex cfg ∧ binLabel cfg.Δ (dayStart a) t ≤ t ∧ t < binLabel cfg.Δ (dayStart a) t + cfg.Δ) ∧
        (∀ x ∈ barIndex cfg, ∃ i : Nat, x = binLabel cfg.Δ (dayStart a) a + (i : Int) * cfg.Δ ∧ x ≤ b)) := by
  have hm : ∃ mc ∈ cfg.markets, longestIdx cfg.markets = distinctTimes mc.idx := by
    rcases core_longestIdx_mem cfg.markets with h | h
    · cases hms : cfg.markets with
      | nil => exact absurd hms hne
      | cons m rest =>
        rw [hms] at h
        unfold longestIdx at h
        split at h
        · rename_i hlt; rw [h] at hlt; simp at hlt
        · rename_i hnlt
          exact ⟨m, List.mem_cons_self .., by unfold longestIdx; rw [if_neg hnlt]⟩
    · exact h
  obtain ⟨mc, hmc, he⟩ := hm
  refine ⟨mc, hmc, ?_, ?_, ?_⟩
  · intro m' hm'
    have := C05_bar_index_market_has_most_timestamps cfg.markets m' hm'
    rw [he] at this; exact this
  · intro hr t
    unfold barIndex frameIdx
    rw [hr, he]
    simp only [Bool.false_eq_true, if_false]
    exact core_distinctTimes_mem_iff mc.idx t
  · intro hr a b hh hl
    have hbar : barIndex cfg = resampleIdx cfg.Δ (a :: ([] ++ [b])) := by
      unfold barIndex frameIdx
      rw [hr, he]
      simp only [if_true]
      -- the distinct timestamps have the same first and last element as the rows
      have hd : ∀ l : List Int, (distinctTimes l).head? = l.head? ∧ (distinctTimes l).getLast? = l.getLast? := by
        intro l
        induction l with
        | nil => exact ⟨rfl, rfl⟩
        | cons x r ih =>
          cases r with
          | nil => exact ⟨rfl, rfl⟩
          | cons y r' =>
            unfold distinctTimes
            split
            · rename_i hxy
              refine ⟨by rw [ih.1, hxy]; rfl, by rw [ih.2, List.getLast?_cons_cons]⟩
            · refine ⟨rfl, ?_⟩
              have hne' : distinctTimes (y :: r') ≠ [] := by
                intro h0
                have := ih.1; rw [h0] at this; simp at this
              obtain ⟨z, zs, hz⟩ := List.exists_cons_of_ne_nil hne'
              rw [hz, List.getLast?_cons_cons, ← hz, ih.2, List.getLast?_cons_cons]
      exact core_resampleIdx_ends cfg.Δ _ a b (by rw [(hd mc.idx).1, hh]) (by rw [(hd mc.idx).2, hl])
    have hb := core_sorted_bounds mc.idx (hraw mc hmc) a b hh hl
    have hab : a ≤ b := by
      cases hidx : mc.idx with
      | nil => rw [hidx] at hh; cases hh
      | cons x r =>
        have hx : a ∈ mc.idx := by rw [hidx] at hh ⊢; simp at hh; rw [hh]; exact List.mem_cons_self ..
        exact (hb a hx).2
    obtain ⟨_, _, c3, c4⟩ := C05_resampled_index cfg.Δ hΔ a b [] hab
    rw [hbar]
    exact ⟨fun t ht => c3 t (hb t ht).1 (hb t ht).2, c4⟩

/-- non-vacuity: a driving market with rows at 08:03, 08:04, 08:11 under 5-minute bars: bars 08:00, 08:05, 08:10 (the empty bin included) -/
example : barIndex { markets := [{ idx := [29040, 29040], openCb := false }, { idx := [28980, 29040, 29460], openCb := false }], priceIdx := [28980, 29460],
                     Δ := 300, resample := true } = [28800, 29100, 29400] := by decide
example : barIndex { markets := [{ idx := [28980, 28980, 29040, 29460, 29460], openCb := false }], priceIdx := [28980, 29460], Δ := 60, resample := false }
    = [28980, 29040, 29460] := by decide

end Demeter
