/-
  C05 — hooks that raise, hooks that trade from inside `notify()`, hooks that change `strategy.triggers`.

  Model: Demeter/Actuator/Hooks.lean (`runG`): the bar loop of demeter/core/actuator.py for scripted strategies whose hooks — `initialize`,
  `before_bar`, a trigger's `do`, a market's `open` callback, `on_bar`, `after_bar`, `notify` — run a list of statements: issue an operation,
  append a trigger to `strategy.triggers`, remove one, raise.  `run` (Demeter/Actuator.lean, the subject of Proofs/C05.lean) is the same loop
  for hooks that only issue operations; the first theorem says so, and with it every theorem of Proofs/C05.lean is a theorem about `runG` on
  such scripts.  The other theorems hold for every script.

  What the property demands of a failing run is not said in its text ("a run visits each bar … exactly once"); what is proved here is what
  the code does: the calls made, the action list and the account history of a run that a hook ended with an exception are a PREFIX of those of
  the same strategy without the raise, nothing is recorded twice or out of order, and the next `run()` starts from scratch.
-/
import Proofs.Lemmas.CoreHooks6
namespace Demeter
open Core

/-- **the general model extends the basic one**: on a script whose hooks only issue operations (from every hook, `notify` included) `runG` is
    `run` — call trace, account rows, action list, triggers left, outcome -/
theorem C05_general_run_of_plain_script_is_run (cfg : Cfg) (trigs : List Trig) (sc : Script) :
    runG cfg trigs (ofScript sc) = run cfg trigs sc := runG_plain cfg trigs sc

/-! ### the shape of a run -/

/-- what `run()` returns, from the calls made (`c.1`), whether the bar loop was entered (`c.2`) and the last bar -/
def Core.finishG (c : Res × Bool) (last : Int) : RunResult :=
  match c.1.2.2 with
  | none => ⟨c.1.1 ++ [Ev.finalize last], c.1.2.1.rows, c.1.2.1.all, c.1.2.1.trigs, none⟩
  | some e =>
    ⟨c.1.1 ++ [.raised (if c.2 then loopExit c.1.2.1.rows e else e)], c.1.2.1.rows, c.1.2.1.all, c.1.2.1.trigs,
     some (if c.2 then loopExit c.1.2.1.rows e else e)⟩

/-- a run either stops before `initialize()` (configuration, empty index, no price row for the first bar) or is `finishG` of its calls -/
theorem core_runG_cases (cfg : Cfg) (trigs : List Trig) (g : GScript) :
    (∃ e, ∀ g' : GScript, runG cfg trigs g' = ⟨[.raised e], [], [], trigs, some e⟩) ∨
    ∃ ts0 bars, ∀ g' : GScript, runG cfg trigs g' = finishG (runCore cfg trigs g' ts0 bars) ((ts0 :: bars).getLast?.getD ts0) := by
  cases hc : checkBacktest cfg with
  | some e => exact Or.inl ⟨e, fun g' => by unfold runG; rw [hc]⟩
  | none =>
    cases hb : barIndex cfg with
    | nil => exact Or.inl ⟨.indexError, fun g' => by unfold runG; rw [hc]; simp only [hb]⟩
    | cons ts0 bars =>
      cases hp : priceAt cfg ts0 with
      | none => exact Or.inl ⟨.keyError, fun g' => by unfold runG; rw [hc]; simp only [hb, hp]⟩
      | some pr => exact Or.inr ⟨ts0, bars, fun g' => by unfold runG; rw [hc]; simp only [hb, hp]; rfl⟩

theorem core_runCore_err {cfg : Cfg} {trigs : List Trig} {g : GScript} {ts0 : Int} {bars : List Int} {e : PyErr}
    (h : (initG cfg trigs g ts0).2.2 = some e) : runCore cfg trigs g ts0 bars = (initG cfg trigs g ts0, false) := by
  unfold runCore; simp only [h]

theorem core_runCore_ok {cfg : Cfg} {trigs : List Trig} {g : GScript} {ts0 : Int} {bars : List Int}
    (h : (initG cfg trigs g ts0).2.2 = none) :
    runCore cfg trigs g ts0 bars = ((initG cfg trigs g ts0).andThen (runBarsG cfg g 0 (ts0 :: bars)), true) := by
  unfold runCore; simp only [h]

/-! ### the books of any run, failed or not -/

/-- the bookkeeping of the part of a run that made calls -/
theorem core_runCore_books (cfg : Cfg) (trigs : List Trig) (g : GScript) (ts0 : Int) (bars : List Int) :
    (runCore cfg trigs g ts0 bars).1.2.1.all = recOf (runCore cfg trigs g ts0 bars).1.1 ∧
    (runCore cfg trigs g ts0 bars).1.2.1.rows = (runCore cfg trigs g ts0 bars).1.1.filterMap rowOf ∧
    (runCore cfg trigs g ts0 bars).1.1.filterMap notifyAct <+: (runCore cfg trigs g ts0 bars).1.2.1.all ∧
    ((runCore cfg trigs g ts0 bars).1.2.2 = none →
      (runCore cfg trigs g ts0 bars).1.1.filterMap notifyAct = (runCore cfg trigs g ts0 bars).1.2.1.all) := by
  have hi := initG_books cfg trigs g ts0
  have hp : Pending [] (⟨(setAllFrom cfg ts0 0 0 cfg.markets).2, trigs, [], [], []⟩ : St) := rfl
  cases hie : (initG cfg trigs g ts0).2.2 with
  | some e =>
    rw [core_runCore_err hie]
    obtain ⟨b1, b2, b3⟩ := hi
    obtain ⟨d1, _⟩ := b3 [] hp
    simp only [List.nil_append] at b1 b2 d1
    exact ⟨b1, b2, d1, fun h => by rw [hie] at h; cases h⟩
  | none =>
    rw [core_runCore_ok hie]
    obtain ⟨b1, b2, b3⟩ := Books.andThen hi (fun st' => runBarsG_books cfg g (ts0 :: bars) 0 st')
    obtain ⟨d1, d2⟩ := b3 [] hp
    simp only [List.nil_append] at b1 b2 d1 d2
    refine ⟨b1, b2, d1, fun h => ?_⟩
    have hpend := d2 h
    unfold Pending at hpend
    obtain ⟨_, h2, h3⟩ := andThen_none h
    have hcur := runBarsG_cur_nil cfg g (ts0 :: bars) 0 _ (by simp) h2
    rw [← h3] at hcur
    rw [hpend, hcur, List.append_nil]

/-- **C05 — what a run leaves behind, however it ends.**  For every configuration, trigger list and scripted strategy — hooks that trade (also
    from inside `notify`), install and remove triggers, raise — and whether `run()` returns or raises:
    `Actuator.actions` is, in order, exactly what the call trace shows as recorded; the account history is, in order, exactly the rows the
    trace shows as appended; the actions handed to `Strategy.notify` are — in order, once each — an initial stretch of `Actuator.actions`, and
    all of it if the run ended normally.  No action is delivered twice, none out of order, none that was not recorded. -/
theorem C05_hook_raises_books_of_any_run (cfg : Cfg) (trigs : List Trig) (g : GScript) :
    (runG cfg trigs g).actions = recOf (runG cfg trigs g).trace ∧
    (runG cfg trigs g).rows = (runG cfg trigs g).trace.filterMap rowOf ∧
    (runG cfg trigs g).trace.filterMap notifyAct <+: (runG cfg trigs g).actions ∧
    ((runG cfg trigs g).err = none → (runG cfg trigs g).trace.filterMap notifyAct = (runG cfg trigs g).actions) := by
  rcases core_runG_cases cfg trigs g with ⟨e, he⟩ | ⟨ts0, bars, hr⟩
  · rw [he g]; exact ⟨rfl, rfl, List.prefix_refl _, fun h => by cases h⟩
  · rw [hr g]
    obtain ⟨c1, c2, c3, c4⟩ := core_runCore_books cfg trigs g ts0 bars
    have m1 : ∀ (l : List Ev) (e : Ev), recordedAct e = none → recOf (l ++ [e]) = recOf l := by
      intro l e he; rw [recOf_append]; simp [recOf, he]
    have m2 : ∀ (l : List Ev) (e : Ev), rowOf e = none → (l ++ [e]).filterMap rowOf = l.filterMap rowOf := by
      intro l e he; simp [List.filterMap_append, he]
    have m3 : ∀ (l : List Ev) (e : Ev), notifyAct e = none → (l ++ [e]).filterMap notifyAct = l.filterMap notifyAct := by
      intro l e he; simp [List.filterMap_append, he]
    unfold finishG
    cases hc : (runCore cfg trigs g ts0 bars).1.2.2 with
    | none =>
      dsimp only
      rw [m1 _ _ rfl, m2 _ _ rfl, m3 _ _ rfl]
      exact ⟨c1, c2, c3, fun _ => c4 hc⟩
    | some e =>
      dsimp only
      rw [m1 _ _ rfl, m2 _ _ rfl, m3 _ _ rfl]
      exact ⟨c1, c2, c3, fun h => by cases h⟩

/-! ### a hook raises: the run is a prefix of the run without the raise -/

/-- the calls of `g'` against those of `g` -/
theorem core_runCore_cut (cfg : Cfg) (trigs : List Trig) (g' g : GScript) (hg : GCut g' g) (ts0 : Int) (bars : List Int) :
    runCore cfg trigs g' ts0 bars = runCore cfg trigs g ts0 bars ∨
    ((runCore cfg trigs g' ts0 bars).1.2.2 ≠ none ∧ (runCore cfg trigs g' ts0 bars).1.1 <+: (runCore cfg trigs g ts0 bars).1.1) := by
  rcases initG_cut hg cfg trigs ts0 with heq | ⟨hne, hpre⟩
  · cases hie : (initG cfg trigs g ts0).2.2 with
    | some e => rw [core_runCore_err hie, core_runCore_err (heq ▸ hie), heq]; exact Or.inl rfl
    | none =>
      rw [core_runCore_ok hie, core_runCore_ok (heq ▸ hie), heq]
      rcases Cut.andThen (Cut.refl (initG cfg trigs g ts0)) (fun st => runBarsG_cut hg cfg (ts0 :: bars) 0 st) with hb | ⟨hbe, hbp⟩
      · rw [hb]; exact Or.inl rfl
      · exact Or.inr ⟨hbe, hbp⟩
  · cases hie' : (initG cfg trigs g' ts0).2.2 with
    | none => exact absurd hie' hne
    | some e =>
      rw [core_runCore_err hie']
      refine Or.inr ⟨by rw [hie']; simp, ?_⟩
      cases hie : (initG cfg trigs g ts0).2.2 with
      | some e2 => rw [core_runCore_err hie]; exact hpre
      | none =>
        rw [core_runCore_ok hie, andThen_ok hie]
        exact hpre.trans (List.prefix_append _ _)

/-- **C05 — prefix.**  Let `g'` be `g` with hook bodies cut short by a `raise` (`GCut`: any hooks, any bars, any positions inside the bodies, any
    exception classes).  Then the run of `g'` is the run of `g` (no cut was reached), or it ends in an exception `e` and
      * the calls it made are an initial stretch of the calls of the run of `g`,
      * its account history is an initial stretch of that run's account history,
      * its action list is an initial stretch of that run's action list:
    everything recorded up to the failing statement is what the run without the raise records, in the same order, and nothing else is. -/
theorem C05_hook_raises_prefix_of_full_run (cfg : Cfg) (trigs : List Trig) (g' g : GScript) (hg : GCut g' g) :
    runG cfg trigs g' = runG cfg trigs g ∨
    ∃ e p, (runG cfg trigs g').err = some e ∧ (runG cfg trigs g').trace = p ++ [.raised e] ∧ p <+: (runG cfg trigs g).trace ∧
      (runG cfg trigs g').rows <+: (runG cfg trigs g).rows ∧ (runG cfg trigs g').actions <+: (runG cfg trigs g).actions := by
  -- the statement about the traces first; rows and actions follow from the books
  have key : runG cfg trigs g' = runG cfg trigs g ∨
      ∃ e p, (runG cfg trigs g').err = some e ∧ (runG cfg trigs g').trace = p ++ [.raised e] ∧ p <+: (runG cfg trigs g).trace := by
    rcases core_runG_cases cfg trigs g with ⟨e, he⟩ | ⟨ts0, bars, hr⟩
    · exact Or.inl (by rw [he g', he g])
    · rw [hr g', hr g]
      rcases core_runCore_cut cfg trigs g' g hg ts0 bars with heq | ⟨hne, hpre⟩
      · exact Or.inl (by rw [heq])
      · cases hce : (runCore cfg trigs g' ts0 bars).1.2.2 with
        | none => exact absurd hce hne
        | some e =>
          refine Or.inr ⟨_, (runCore cfg trigs g' ts0 bars).1.1, by unfold finishG; rw [hce], by unfold finishG; rw [hce], ?_⟩
          refine hpre.trans ?_
          unfold finishG
          cases (runCore cfg trigs g ts0 bars).1.2.2 <;> exact List.prefix_append _ _
  rcases key with h | ⟨e, p, h1, h2, h3⟩
  · exact Or.inl h
  · refine Or.inr ⟨e, p, h1, h2, h3, ?_, ?_⟩
    · rw [(C05_hook_raises_books_of_any_run cfg trigs g').2.1, (C05_hook_raises_books_of_any_run cfg trigs g).2.1, h2]
      have : (p ++ [Ev.raised e]).filterMap rowOf = p.filterMap rowOf := by simp [List.filterMap_append, rowOf]
      rw [this]
      exact List.IsPrefix.filterMap _ h3
    · rw [(C05_hook_raises_books_of_any_run cfg trigs g').1, (C05_hook_raises_books_of_any_run cfg trigs g).1, h2]
      have : recOf (p ++ [Ev.raised e]) = recOf p := by rw [recOf_append]; simp [recOf, recordedAct]
      rw [this]
      exact List.IsPrefix.filterMap _ h3

/-! ### one raise, placed anywhere -/

/-- `b` with the body of hook `h` (for `notify`: the answer to the delivery of `tag`) replaced by its first `j` statements followed by `raise e` -/
def Core.BarScript.raiseIn (b : BarScript) (h : Hook) (tag : String) (j : Nat) (e : PyErr) : BarScript :=
  match h with
  | .init => b
  | .before => { b with before := cutBody j e b.before }
  | .fire id => { b with fire := fun i => if i = id then cutBody j e (b.fire i) else b.fire i }
  | .openCb m => { b with openCb := fun i => if i = m then cutBody j e (b.openCb i) else b.openCb i }
  | .on => { b with on := cutBody j e b.on }
  | .after => { b with after := cutBody j e b.after }
  | .notify => { b with notify := fun t => if t = tag then cutBody j e (b.notify t) else b.notify t }

/-- `g` with one raise: in hook `h` on bar `row` (`initialize` has no bar), after `j` statements of its body -/
def Core.GScript.raiseAt (g : GScript) (row : Nat) (h : Hook) (tag : String) (j : Nat) (e : PyErr) : GScript :=
  match h with
  | .init => { g with init := cutBody j e g.init }
  | _ => { g with bar := fun r => if r = row then (g.bar r).raiseIn h tag j e else g.bar r }

theorem core_raiseIn_cut (b : BarScript) (h : Hook) (tag : String) (j : Nat) (e : PyErr) : BarCut (b.raiseIn h tag j e) b := by
  cases h with
  | init => exact BarCut.refl b
  | before => exact { BarCut.refl b with before := fun ts st => runStmts_cut ts _ e j _ st }
  | fire id =>
    refine { BarCut.refl b with fire := fun ts i st => ?_ }
    show Cut (runStmts ts (.fire i) (if i = id then cutBody j e (b.fire i) else b.fire i) st) _
    split
    · exact runStmts_cut ts _ e j _ st
    · exact Cut.refl _
  | openCb m =>
    refine { BarCut.refl b with openCb := fun ts i st => ?_ }
    show Cut (runStmts ts (.openCb i) (if i = m then cutBody j e (b.openCb i) else b.openCb i) st) _
    split
    · exact runStmts_cut ts _ e j _ st
    · exact Cut.refl _
  | on => exact { BarCut.refl b with on := fun ts st => runStmts_cut ts _ e j _ st }
  | after => exact { BarCut.refl b with after := fun ts st => runStmts_cut ts _ e j _ st }
  | notify =>
    refine { BarCut.refl b with notify := fun ts t st => ?_ }
    show Cut (runStmts ts .notify (if t = tag then cutBody j e (b.notify t) else b.notify t) st) _
    split
    · exact runStmts_cut ts _ e j _ st
    · exact Cut.refl _

theorem core_raiseAt_cut (g : GScript) (row : Nat) (h : Hook) (tag : String) (j : Nat) (e : PyErr) : GCut (g.raiseAt row h tag j e) g := by
  have hbar : ∀ h', GCut { g with bar := fun r => if r = row then (g.bar r).raiseIn h' tag j e else g.bar r } g := by
    intro h'
    refine ⟨fun _ _ => Cut.refl _, fun r => ?_, rfl, rfl⟩
    show BarCut (if r = row then (g.bar r).raiseIn h' tag j e else g.bar r) (g.bar r)
    split
    · exact core_raiseIn_cut _ _ _ _ _
    · exact BarCut.refl _
  cases h with
  | init => exact ⟨fun ts st => runStmts_cut ts _ e j _ st, fun r => BarCut.refl _, rfl, rfl⟩
  | before => exact hbar _
  | fire id => exact hbar _
  | openCb m => exact hbar _
  | on => exact hbar _
  | after => exact hbar _
  | notify => exact hbar _

/-- **C05 — a hook raises at bar `k`** (`on_bar`, `before_bar`, `after_bar`, the `do` of trigger `id`, a market's `open` callback, `notify`
    answering the delivery of the action labelled `tag`, or `initialize`), after `j` statements of its body, with exception `e`: the run is the run
    without the raise (the hook is not called on that bar: the trigger is not due, the market closed, the action never delivered, or the run
    ends earlier for a reason of its own) or it ends in an exception and calls, account history and action list are initial stretches of the run
    without the raise -/
theorem C05_hook_raises_prefix_single_raise (cfg : Cfg) (trigs : List Trig) (g : GScript) (k : Nat) (h : Hook) (tag : String) (j : Nat)
    (e : PyErr) :
    runG cfg trigs (g.raiseAt k h tag j e) = runG cfg trigs g ∨
    ∃ e' p, (runG cfg trigs (g.raiseAt k h tag j e)).err = some e' ∧ (runG cfg trigs (g.raiseAt k h tag j e)).trace = p ++ [.raised e'] ∧
      p <+: (runG cfg trigs g).trace ∧
      (runG cfg trigs (g.raiseAt k h tag j e)).rows <+: (runG cfg trigs g).rows ∧
      (runG cfg trigs (g.raiseAt k h tag j e)).actions <+: (runG cfg trigs g).actions :=
  C05_hook_raises_prefix_of_full_run cfg trigs _ g (core_raiseAt_cut g k h tag j e)

/-! ### which exception leaves `run()` -/

/-- the source still wraps the bar loop in `except RuntimeError` whose handler builds the account frame before re-raising, and `DemeterError`
    still derives from `RuntimeError` (generated from demeter/core/actuator.py and demeter/_typing.py) -/
theorem C05_hook_raises_handler_in_source :
    Gen.coreRuntimeErrorHandlerBuildsFrame = true ∧ Gen.coreDemeterErrorIsRuntimeError = true := ⟨rfl, rfl⟩

/-- **what leaves `run()`** when `e` comes out of the bar loop: `e` itself — unless it is a `RuntimeError` (a `DemeterError`, e.g. the uncaught
    refusal of an operation) and no account row exists yet (the first bar), then pandas' `IndexError` from the handler's
    `_generate_account_status_df()` replaces it -/
theorem C05_hook_raises_exception_class (rows : List (Int × Option Int)) (e : PyErr) :
    loopExit rows e = if e.isRuntime = true ∧ rows = [] then PyErr.indexError else e := by
  unfold loopExit
  rw [C05_hook_raises_handler_in_source.1]
  cases e <;> cases rows <;> simp [PyErr.isRuntime, C05_hook_raises_handler_in_source.2]

/-! ### the next run starts from scratch -/

/-- **C05 — a second `run()` after a failed one.**  `Actuator.run` hands `strategy.triggers` back as it found it (`finally`), `reset()` empties the
    action list and the account history, the first refresh sets every market's flags, the triggers are reset: whatever the first run's hooks did
    — traded, installed NEW trigger objects, removed triggers, raised — and however it ended, the second run (any script `g₂`) is the run of a
    fresh Actuator on the same strategy: same calls, account history, actions, outcome. -/
theorem C05_hook_raises_next_run_starts_clean (cfg : Cfg) (trigs : List Trig) (g₁ g₂ : GScript)
    (hn : (trigs.map (·.id)).Nodup) (hfresh : g₁.Fresh (trigs.map (·.id))) :
    actuatorRunG cfg (trigsAfterRunG cfg trigs g₁) g₂ = actuatorRunG cfg trigs g₂ := by
  have hs : ∀ T, startTrigs T = T.map Trig.reset := by
    intro T; unfold startTrigs; rw [C02_run_resets_triggers_in_source]; rfl
  unfold actuatorRunG trigsAfterRunG
  rw [C02_run_resets_triggers_in_source]
  simp only [if_true, hs]
  have hinv := runG_tinv cfg (trigs.map Trig.reset) g₁ (by rw [rerun_map_reset_ids]; exact hn) (by rw [rerun_map_reset_ids]; exact hfresh)
  unfold actuatorRunG
  rw [hs, handBack_reset_of_tinv _ _ hinv, rerun_map_reset_idem]

/-! ### operations issued from inside `notify()` -/

/-- every call of a bar carries the bar's timestamp (any script, any state, any outcome) -/
theorem C05_notify_ops_stamped_with_their_bar (cfg : Cfg) (b : BarScript) (fuel tfuel row : Nat) (ts : Int) (st : St) :
    (∀ e ∈ (barStepG cfg b fuel tfuel row ts st).1, e.ts = some ts) ∧
    (∀ e ∈ (barStepG cfg b fuel tfuel row ts st).1, ∀ a, recordedAct e = some a → a.stamp = ts) := by
  have h := barStepG_ts cfg b fuel tfuel row ts st
  refine ⟨h, fun e he a ha => ?_⟩
  have h1 := recordedAct_stamp ha
  have h2 := h e he
  rw [h1] at h2
  exact (Option.some.inj h2)

/-- **C05 — an operation accepted inside `notify()`** (any bar, any state the bar starts in): the `notify` loop runs over the live list of the
    bar's actions, so the action such an operation records is appended to `Actuator.actions` (stamped with the bar, previous theorem), and — the
    loop having come to an end — is delivered later in the SAME loop: the deliveries of the bar are exactly the bar's pending actions followed by
    everything recorded while the loop ran, once each, in order; the account row of the bar was appended before the first delivery and is not
    touched.  If the hook raises in the middle, the deliveries made are an initial stretch of that list. -/
theorem C05_notify_ops_delivered_in_the_same_bar (b : BarScript) (fuel : Nat) (ts : Int) (price : Option Int) (st : St) :
    (barTailG b fuel ts price st).2.1.all = st.all ++ recOf (barTailG b fuel ts price st).1 ∧
    (barTailG b fuel ts price st).2.1.rows = st.rows ++ [(ts, price)] ∧
    (barTailG b fuel ts price st).1.filterMap notifyAct <+: st.cur ++ recOf (barTailG b fuel ts price st).1 ∧
    ((barTailG b fuel ts price st).2.2 = none →
      (barTailG b fuel ts price st).1.filterMap notifyAct = st.cur ++ recOf (barTailG b fuel ts price st).1) := by
  obtain ⟨t1, t2, t3, _⟩ := barTailG_books b fuel ts price st
  obtain ⟨d1, d2⟩ := barTailG_deliveries b fuel ts price st
  exact ⟨t1, by rw [t2, t3], d1, d2⟩

/-- the deliveries of a whole bar are an initial stretch of: what was pending when the bar began, then everything the bar records -/
theorem core_barStepG_deliveries (cfg : Cfg) (b : BarScript) (fuel tfuel row : Nat) (ts : Int) (st : St) :
    (barStepG cfg b fuel tfuel row ts st).1.filterMap notifyAct <+: st.cur ++ recOf (barStepG cfg b fuel tfuel row ts st).1 := by
  unfold barStepG
  split
  · exact List.nil_prefix
  · rename_i price _
    obtain ⟨q1, _, _, q4, _⟩ := barHeadG_quiet cfg b tfuel row ts price st
    cases hh : (barHeadG cfg b tfuel row ts price st).2.2 with
    | some e => rw [andThen_err hh, q4]; exact List.nil_prefix
    | none =>
      rw [andThen_ok hh]
      obtain ⟨d1, _⟩ := barTailG_deliveries b fuel ts price (barHeadG cfg b tfuel row ts price st).2.1
      show List.filterMap notifyAct ((barHeadG cfg b tfuel row ts price st).1 ++
          (barTailG b fuel ts price (barHeadG cfg b tfuel row ts price st).2.1).1) <+:
        st.cur ++ recOf ((barHeadG cfg b tfuel row ts price st).1 ++ (barTailG b fuel ts price (barHeadG cfg b tfuel row ts price st).2.1).1)
      rw [List.filterMap_append, q4, List.nil_append, recOf_append, ← List.append_assoc, ← q1]
      exact d1

theorem core_barStepG_onTime (cfg : Cfg) (b : BarScript) (fuel tfuel row : Nat) (ts : Int) (st : St) (hcur : ∀ a ∈ st.cur, a.stamp = ts) :
    ∀ e ∈ (barStepG cfg b fuel tfuel row ts st).1, NotifyOnTime e := by
  intro e he
  have hts := barStepG_ts cfg b fuel tfuel row ts st
  cases e with
  | notify t tag stamp m =>
    have hmem : (⟨tag, stamp, m⟩ : Act) ∈ (barStepG cfg b fuel tfuel row ts st).1.filterMap notifyAct :=
      List.mem_filterMap.mpr ⟨_, he, rfl⟩
    have hin := (core_barStepG_deliveries cfg b fuel tfuel row ts st).subset hmem
    have ht : t = ts := by simpa [Ev.ts] using hts _ he
    show t = stamp
    rw [ht]
    rcases List.mem_append.mp hin with h' | h'
    · exact (hcur _ h').symm
    · exact (recOf_stamp hts _ h').symm
  | _ => trivial

theorem core_runBarsG_onTime (cfg : Cfg) (g : GScript) : ∀ (bars : List Int) (row : Nat) (st : St),
    (∀ a ∈ st.cur, ∀ t ∈ bars.head?, a.stamp = t) → ∀ e ∈ (runBarsG cfg g row bars st).1, NotifyOnTime e
  | [], _, _, _ => fun e he => nomatch he
  | ts :: bars, row, st, hcur => by
    have h1 := core_barStepG_onTime cfg (g.bar row) g.fuel g.tfuel row ts st (fun a ha => hcur a ha ts rfl)
    simp only [runBarsG]
    cases hb : (barStepG cfg (g.bar row) g.fuel g.tfuel row ts st).2.2 with
    | some e => rw [andThen_err hb]; exact h1
    | none =>
      rw [andThen_ok hb]
      intro e he
      rcases List.mem_append.mp he with h | h
      · exact h1 e h
      · refine core_runBarsG_onTime cfg g bars (row + 1) _ ?_ e h
        intro a ha
        rw [barStepG_cur_nil cfg _ _ _ row ts st hb] at ha
        cases ha

/-- **C05 — every delivery happens in the bar its action is stamped with**, for every script (hooks that trade from `notify`, change the trigger
    list, raise) and every outcome: a `notify` call made at bar `t` hands over an action stamped `t` — the action was recorded in this very bar
    (for the first bar: or by `initialize()`, which runs under the first bar's timestamp) -/
theorem C05_notify_ops_every_delivery_in_its_own_bar (cfg : Cfg) (trigs : List Trig) (g : GScript) :
    ∀ e ∈ (runG cfg trigs g).trace, NotifyOnTime e := by
  rcases core_runG_cases cfg trigs g with ⟨e, he⟩ | ⟨ts0, bars, hr⟩
  · rw [he g]; intro x hx; rw [List.mem_singleton.mp hx]; trivial
  · rw [hr g]
    have hinit : ∀ e ∈ (initG cfg trigs g ts0).1, NotifyOnTime e ∧ e.ts = some ts0 := by
      unfold initG
      rw [andThen_okRes]
      intro e he
      rcases List.mem_append.mp he with h | h
      · rcases List.mem_append.mp h with h' | h'
        · have := (setAllFrom_at cfg ts0 0 0 cfg.markets e h')
          exact ⟨by cases e <;> first | trivial | (simp [Ev.phase, stagePhase] at this), this.1⟩
        · rw [List.mem_singleton.mp h']; exact ⟨trivial, rfl⟩
      · have hq := (runStmts_quiet ts0 .init g.init ⟨(setAllFrom cfg ts0 0 0 cfg.markets).2, trigs, [], [], []⟩).2.2.2.1
        have ht := runStmts_ts ts0 .init g.init ⟨(setAllFrom cfg ts0 0 0 cfg.markets).2, trigs, [], [], []⟩ e h
        refine ⟨?_, ht⟩
        cases e with
        | notify t tag stamp m =>
          have : (⟨tag, stamp, m⟩ : Act) ∈ (runStmts ts0 .init g.init ⟨(setAllFrom cfg ts0 0 0 cfg.markets).2, trigs, [], [], []⟩).1.filterMap notifyAct :=
            List.mem_filterMap.mpr ⟨_, h, rfl⟩
          rw [hq] at this; cases this
        | _ => trivial
    have hcore : ∀ e ∈ (runCore cfg trigs g ts0 bars).1.1, NotifyOnTime e := by
      cases hie : (initG cfg trigs g ts0).2.2 with
      | some e => rw [core_runCore_err hie]; exact fun e he => (hinit e he).1
      | none =>
        rw [core_runCore_ok hie, andThen_ok hie]
        intro e he
        rcases List.mem_append.mp he with h | h
        · exact (hinit e h).1
        · refine core_runBarsG_onTime cfg g (ts0 :: bars) 0 _ ?_ e h
          intro a ha t ht
          simp only [List.head?_cons, Option.mem_def, Option.some.injEq] at ht
          rw [← ht]
          have hq : (initG cfg trigs g ts0).2.1.cur = recOf (initG cfg trigs g ts0).1 := by
            have := (initG_quiet cfg trigs g ts0).1
            simpa using this
          rw [hq] at ha
          exact recOf_stamp (fun e he => (hinit e he).2) a ha
    unfold finishG
    cases (runCore cfg trigs g ts0 bars).1.2.2 with
    | none =>
      intro e he
      rcases List.mem_append.mp he with h | h
      · exact hcore e h
      · rw [List.mem_singleton.mp h]; trivial
    | some x =>
      intro e he
      rcases List.mem_append.mp he with h | h
      · exact hcore e h
      · rw [List.mem_singleton.mp h]; trivial

/-! ### non-vacuity: concrete runs (the two markets of `Core.exCfg`: a minutely one with four bars from 08:58 and an hourly one) -/

/-- trades in `on_bar` of every bar, answers the delivery of `o2` from inside `notify` with another trade; a trigger due on every bar whose action
    removes the trigger itself on bar 1 and installs a new one on bar 2 -/
def Core.exG : GScript :=
  { init := [.op ⟨0, true, "i", true⟩],
    bar := fun r =>
      { before := [], fire := fun i => if i = 0 ∧ r = 1 then [.tdel 0] else if i = 1 ∧ r = 2 then [.tadd ⟨7, "", .range 0 100000⟩] else [],
        openCb := fun _ => [], on := [.op ⟨0, true, s!"o{r}", true⟩], after := [], upd := fun _ => [],
        notify := fun t => if t == "o2" then [.op ⟨0, true, "n2", false⟩] else [] },
    fuel := 4, tfuel := 4 }

def Core.exTrigs : List Trig := install [("", .range 0 100000), ("", .range 0 100000)]

/-- the full run: four account rows, nine actions, every one delivered; the trigger 1 is passed over on bar 1 (trigger 0 removed itself in front of
    it), trigger 7 fires on the bar it is installed on -/
example : (runG Core.exCfg Core.exTrigs Core.exG).err = none ∧
    (runG Core.exCfg Core.exTrigs Core.exG).rows.map (·.1) = [32280, 32340, 32400, 32460] ∧
    (runG Core.exCfg Core.exTrigs Core.exG).actions.map (·.tag) = ["i", "o0", "o1", "o2", "n2", "o3"] ∧
    (runG Core.exCfg Core.exTrigs Core.exG).trace.filterMap fireOfEv =
      [⟨32280, 0, ""⟩, ⟨32280, 1, ""⟩, ⟨32340, 0, ""⟩, ⟨32400, 1, ""⟩, ⟨32400, 7, ""⟩, ⟨32460, 1, ""⟩, ⟨32460, 7, ""⟩] := by decide

/-- `on_bar` raises on bar 2 after its trade: two account rows (the bars before), the trade of bar 2 is in the action list and never delivered -/
example : (runG Core.exCfg Core.exTrigs (Core.exG.raiseAt 2 .on "" 1 .hookError)).err = some .hookError ∧
    (runG Core.exCfg Core.exTrigs (Core.exG.raiseAt 2 .on "" 1 .hookError)).rows.map (·.1) = [32280, 32340] ∧
    (runG Core.exCfg Core.exTrigs (Core.exG.raiseAt 2 .on "" 1 .hookError)).actions.map (·.tag) = ["i", "o0", "o1", "o2"] ∧
    (runG Core.exCfg Core.exTrigs (Core.exG.raiseAt 2 .on "" 1 .hookError)).trace.filterMap notifyAct =
      [⟨"i", 32280, 0⟩, ⟨"o0", 32280, 0⟩, ⟨"o1", 32340, 0⟩] := by decide

/-- `notify` raises while answering the delivery of `o2`, after its own trade: the row of bar 2 is there (appended before the deliveries) -/
example : (runG Core.exCfg Core.exTrigs (Core.exG.raiseAt 2 .notify "o2" 1 .hookRuntimeError)).err = some .hookRuntimeError ∧
    (runG Core.exCfg Core.exTrigs (Core.exG.raiseAt 2 .notify "o2" 1 .hookRuntimeError)).rows.map (·.1) = [32280, 32340, 32400] ∧
    (runG Core.exCfg Core.exTrigs (Core.exG.raiseAt 2 .notify "o2" 1 .hookRuntimeError)).actions.map (·.tag) = ["i", "o0", "o1", "o2", "n2"] := by
  decide

/-- an uncaught `DemeterError` on the first bar leaves `run()` as `IndexError`; on a later bar, or another class on the first bar, as itself -/
example : (runG Core.exCfg Core.exTrigs (Core.exG.raiseAt 0 .before "" 0 .demeterError)).err = some .indexError ∧
    (runG Core.exCfg Core.exTrigs (Core.exG.raiseAt 1 .before "" 0 .demeterError)).err = some .demeterError ∧
    (runG Core.exCfg Core.exTrigs (Core.exG.raiseAt 0 .before "" 0 .hookError)).err = some .hookError ∧
    (runG Core.exCfg Core.exTrigs (Core.exG.raiseAt 0 .init "" 0 .demeterError)).err = some .demeterError := by decide

/-- the action of trigger 0 raises on bar 1 (after removing the trigger): one row; and the next run of the same Actuator is the full run -/
example : (runG Core.exCfg Core.exTrigs (Core.exG.raiseAt 1 (.fire 0) "" 1 .hookError)).rows.map (·.1) = [32280] ∧
    (actuatorRunG Core.exCfg (trigsAfterRunG Core.exCfg Core.exTrigs (Core.exG.raiseAt 1 (.fire 0) "" 1 .hookError)) Core.exG).rows =
      (actuatorRunG Core.exCfg Core.exTrigs Core.exG).rows ∧
    Core.exG.Fresh (Core.exTrigs.map (·.id)) := by
  refine ⟨by decide, by decide, ?_⟩
  refine ⟨by intro s hs; simp [Core.exG] at hs; subst hs; trivial,
    fun row => ⟨by simp [Core.exG], fun i s hs => ?_, by simp [Core.exG], by simp [Core.exG, HStmt.fresh], by simp [Core.exG],
    fun t s hs => ?_⟩⟩
  · simp only [Core.exG] at hs
    split at hs
    · simp at hs; subst hs; trivial
    · split at hs
      · simp at hs; subst hs
        show (7 : Nat) ∉ Core.exTrigs.map (·.id)
        decide
      · simp at hs
  · simp only [Core.exG] at hs
    split at hs
    · simp at hs; subst hs; trivial
    · simp at hs

end Demeter
