/-
  C05 — "its action record stamped with the bar in which it ran": the stamp comes from `_currents.timestamp`, not from an argument.

  Model: Demeter/Actuator/Clock.lean.  `clockActions c cur trace` is the action list `_record_action_list` builds when the calls of `trace` are
  made and the clock field is treated as `c` says.  For the source as it is — the three flags `Gen.coreActionStampedFromCurrents`,
  `Gen.coreClockSetBeforeBeforeBar`, `Gen.coreClockSetBeforeInitialize` — it is the action list of `runG`, for every configuration, trigger list
  and scripted strategy, however the run ends: the argument `ts` that `doOp` receives in the model IS the value of the field at that moment.
  With the assignment one statement later (seeded change C05-m6) it is not.
-/
import Proofs.C05.Hooks
import Demeter.Actuator.Clock
namespace Demeter
open Core

/-- the flags as read from the source today -/
theorem C05_clock_in_source : ClockCfg.current = ⟨true, true, true⟩ := by decide

namespace Core

def cNow : ClockCfg := ⟨true, true, true⟩

/-- what the model's action list looks like in the clock's terms -/
def actView (a : Act) : String × Option Int × Nat := (a.tag, some a.stamp, a.m)

/-- a stretch of calls along which the clock-built list is the model's list, whatever the field held before -/
def Synced (l : List Ev) : Prop := ∀ cur, clockActions cNow cur l = (recOf l).map actView

theorem clockActions_append (c : ClockCfg) : ∀ (l1 l2 : List Ev) (cur : Option Int),
    clockActions c cur (l1 ++ l2) = clockActions c cur l1 ++ clockActions c (clockAfter c cur l1) l2
  | [], _, _ => rfl
  | e :: l1, l2, cur => by
    simp only [List.cons_append, clockActions, clockAfter, List.foldl_cons]
    have ih := clockActions_append c l1 l2 (clockStep c cur e)
    unfold clockAfter at ih
    cases e.record with
    | none => exact ih
    | some p => simp only [ih, List.cons_append]

theorem Synced.nil : Synced [] := fun _ => rfl

theorem Synced.append {l1 l2 : List Ev} (h1 : Synced l1) (h2 : Synced l2) : Synced (l1 ++ l2) := by
  intro cur
  rw [clockActions_append, h1 cur, h2, recOf_append, List.map_append]

theorem Synced.andThen {r : Res} {k : St → Res} (h1 : Synced r.1) (h2 : ∀ st, Synced (k st).1) : Synced (r.andThen k).1 := by
  cases hr : r.2.2 with
  | some e => rw [andThen_err hr]; exact h1
  | none => rw [andThen_ok hr]; exact Synced.append h1 (h2 _)

/-- a call that is neither `initialize` nor `before_bar` leaves the field alone (source as it is) -/
theorem clockStep_other (cur : Option Int) (e : Ev) (h1 : ∀ ts, e ≠ .initialize ts) (h2 : ∀ ts r p, e ≠ .before ts r p) :
    clockStep cNow cur e = cur := by
  cases e <;> first | rfl | (exact absurd rfl (h1 _)) | (exact absurd rfl (h2 _ _ _))

theorem record_eq (e : Ev) : e.record = (recordedAct e).map (fun a => (a.tag, a.m)) := by
  cases e <;> try rfl
  rename_i ts h m tag ok
  cases ok <;> rfl

/-- calls of one bar `t` made while the field shows `t`: the clock-built list is the model's, and the field still shows `t` -/
theorem synced_at (t : Int) : ∀ (l : List Ev), (∀ e ∈ l, e.ts = some t) →
    clockActions cNow (some t) l = (recOf l).map actView ∧ clockAfter cNow (some t) l = some t
  | [], _ => ⟨rfl, rfl⟩
  | e :: l, h => by
    have he : e.ts = some t := h e (List.mem_cons_self ..)
    have hstep : clockStep cNow (some t) e = some t := by
      cases e <;> first | rfl | (simp only [Ev.ts, Option.some.injEq] at he; subst he; rfl)
    obtain ⟨ih1, ih2⟩ := synced_at t l (fun x hx => h x (List.mem_cons_of_mem _ hx))
    refine ⟨?_, by simp only [clockAfter, List.foldl_cons, hstep]; exact ih2⟩
    simp only [clockActions, hstep, record_eq]
    cases hr : recordedAct e with
    | none =>
      simp only [Option.map_none, recOf, List.filterMap_cons, hr]
      exact ih1
    | some a =>
      have hs : a.stamp = t := by
        have := recordedAct_stamp hr
        rw [he] at this
        exact (Option.some.inj this).symm
      have ih1' : clockActions ⟨true, true, true⟩ (some t) l = List.map actView (List.filterMap recordedAct l) := ih1
      simp only [Option.map_some, recOf, List.filterMap_cons, hr, List.map_cons, cNow, if_true, ih1']
      simp [actView, hs]

/-- a stretch `pre ++ [a] ++ rest` of one bar `t`: `pre` makes no record and leaves the field alone (status refreshes), `a` is the call in
    front of which the field is assigned (`initialize` / `before_bar` of `t`), `rest` are calls of `t` -/
theorem synced_segment (t : Int) (pre rest : List Ev) (a : Ev)
    (hpre : ∀ e ∈ pre, recordedAct e = none ∧ (∀ ts, e ≠ .initialize ts) ∧ (∀ ts r p, e ≠ .before ts r p))
    (ha : (a = .initialize t) ∨ (∃ r p, a = .before t r p)) (hrest : ∀ e ∈ rest, e.ts = some t) :
    Synced (pre ++ a :: rest) := by
  intro cur
  have hq : ∀ (l : List Ev) (c0 : Option Int), (∀ e ∈ l, recordedAct e = none ∧ (∀ ts, e ≠ .initialize ts) ∧ (∀ ts r p, e ≠ .before ts r p)) →
      clockActions cNow c0 l = [] ∧ clockAfter cNow c0 l = c0 ∧ recOf l = [] := by
    intro l
    induction l with
    | nil => intro c0 _; exact ⟨rfl, rfl, rfl⟩
    | cons e l ih =>
      intro c0 h
      obtain ⟨h1, h2, h3⟩ := h e (List.mem_cons_self ..)
      obtain ⟨i1, i2, i3⟩ := ih c0 (fun x hx => h x (List.mem_cons_of_mem _ hx))
      have hs := clockStep_other c0 e h2 h3
      refine ⟨?_, ?_, ?_⟩
      · simp only [clockActions, record_eq, h1, Option.map_none, hs]; exact i1
      · simp only [clockAfter, List.foldl_cons, hs]; exact i2
      · simp only [recOf, List.filterMap_cons, h1]; exact i3
  obtain ⟨q1, q2, q3⟩ := hq pre cur hpre
  rw [clockActions_append, q1, q2, recOf_append, q3, List.nil_append, List.nil_append]
  have hstep : clockStep cNow cur a = some t := by
    rcases ha with rfl | ⟨r, p, rfl⟩ <;> rfl
  have hrec : recordedAct a = none := by
    rcases ha with rfl | ⟨r, p, rfl⟩ <;> rfl
  obtain ⟨s1, _⟩ := synced_at t rest hrest
  simp only [clockActions, record_eq, hrec, Option.map_none, hstep, recOf, List.filterMap_cons]
  exact s1

/-- status refreshes make no record and are neither `initialize` nor `before_bar` -/
theorem setAllFrom_quiet (cfg : Cfg) (ts : Int) (stage : Nat) : ∀ (i : Nat) (ms : List MarketCfg),
    ∀ e ∈ (setAllFrom cfg ts stage i ms).1, recordedAct e = none ∧ (∀ t, e ≠ .initialize t) ∧ (∀ t r p, e ≠ .before t r p)
  | _, [], e, he => by cases he
  | i, mc :: rest, e, he => by
    simp only [setAllFrom, List.mem_cons] at he
    rcases he with rfl | h
    · exact ⟨rfl, fun _ => by simp [setEv], fun _ _ _ => by simp [setEv]⟩
    · exact setAllFrom_quiet cfg ts stage (i + 1) rest e h

theorem andThen_fst_prefix (r : Res) (k : St → Res) : r.1 <+: (r.andThen k).1 := by
  cases hr : r.2.2 with
  | some e => rw [andThen_err hr]; exact List.prefix_refl _
  | none => rw [andThen_ok hr]; exact List.prefix_append _ _

/-- the calls of a bar start with the first refresh of every market and the `before_bar` call (or there are none: no price row) -/
theorem barStepG_shape (cfg : Cfg) (b : BarScript) (fuel tfuel row : Nat) (ts : Int) (st : St) :
    (barStepG cfg b fuel tfuel row ts st).1 = [] ∨
    ∃ price rest, (barStepG cfg b fuel tfuel row ts st).1 = (setAllFrom cfg ts 1 0 cfg.markets).1 ++ Ev.before ts row price :: rest := by
  unfold barStepG
  split
  · exact Or.inl rfl
  · rename_i price _
    refine Or.inr ⟨price, ?_⟩
    have h : ((setAllFrom cfg ts 1 0 cfg.markets).1 ++ [Ev.before ts row price]) <+:
        ((barHeadG cfg b tfuel row ts price st).andThen (barTailG b fuel ts price)).1 := by
      refine List.IsPrefix.trans ?_ (andThen_fst_prefix _ _)
      unfold barHeadG
      refine List.IsPrefix.trans ?_ (andThen_fst_prefix _ _)
      refine List.IsPrefix.trans ?_ (andThen_fst_prefix _ _)
      refine List.IsPrefix.trans ?_ (andThen_fst_prefix _ _)
      refine List.IsPrefix.trans ?_ (andThen_fst_prefix _ _)
      refine List.IsPrefix.trans ?_ (andThen_fst_prefix _ _)
      refine List.IsPrefix.trans ?_ (andThen_fst_prefix _ _)
      refine List.IsPrefix.trans ?_ (andThen_fst_prefix _ _)
      exact andThen_fst_prefix (Res.ok ((setAllFrom cfg ts 1 0 cfg.markets).1 ++ [Ev.before ts row price]) _) _
    obtain ⟨rest, hrest⟩ := h
    exact ⟨rest, by rw [← hrest, List.append_assoc]; rfl⟩

theorem barStepG_synced (cfg : Cfg) (b : BarScript) (fuel tfuel row : Nat) (ts : Int) (st : St) :
    Synced (barStepG cfg b fuel tfuel row ts st).1 := by
  rcases barStepG_shape cfg b fuel tfuel row ts st with h | ⟨price, rest, h⟩
  · rw [h]; exact Synced.nil
  · have hts := barStepG_ts cfg b fuel tfuel row ts st
    rw [h]
    refine synced_segment ts _ rest _ (setAllFrom_quiet cfg ts 1 0 cfg.markets) (Or.inr ⟨row, price, rfl⟩) ?_
    intro e he
    exact hts e (by rw [h]; exact List.mem_append_right _ (List.mem_cons_of_mem _ he))

theorem runBarsG_synced (cfg : Cfg) (g : GScript) : ∀ (bars : List Int) (row : Nat) (st : St), Synced (runBarsG cfg g row bars st).1
  | [], _, _ => Synced.nil
  | ts :: bars, row, st => by
    simp only [runBarsG]
    exact Synced.andThen (barStepG_synced cfg _ _ _ row ts st) (fun st' => runBarsG_synced cfg g bars (row + 1) st')

theorem initG_synced (cfg : Cfg) (trigs : List Trig) (g : GScript) (ts0 : Int) : Synced (initG cfg trigs g ts0).1 := by
  unfold initG
  rw [andThen_okRes]
  show Synced (((setAllFrom cfg ts0 0 0 cfg.markets).1 ++ [Ev.initialize ts0]) ++ _)
  rw [List.append_assoc]
  exact synced_segment ts0 _ _ _ (setAllFrom_quiet cfg ts0 0 0 cfg.markets) (Or.inl rfl) (runStmts_ts ts0 .init g.init _)

theorem runCore_synced (cfg : Cfg) (trigs : List Trig) (g : GScript) (ts0 : Int) (bars : List Int) :
    Synced (runCore cfg trigs g ts0 bars).1.1 := by
  cases hie : (initG cfg trigs g ts0).2.2 with
  | some e => rw [core_runCore_err hie]; exact initG_synced cfg trigs g ts0
  | none =>
    rw [core_runCore_ok hie]
    exact Synced.andThen (initG_synced cfg trigs g ts0) (fun st' => runBarsG_synced cfg g (ts0 :: bars) 0 st')

end Core

/-- **C05 — the records are stamped from the clock, and the clock shows the bar.**  For every configuration, trigger list and scripted strategy
    (hooks that trade from every hook, `notify` included, install and remove triggers, raise), however the run ends: the action list that
    `_record_action_list` builds by stamping each record with `_currents.timestamp` — the field being assigned where the source assigns it, starting
    from an unassigned field — is exactly `Actuator.actions` of the model, record by record: label, market, and the stamp, which is the bar in
    which the operation ran. -/
theorem C05_records_stamped_from_the_clock (cfg : Cfg) (trigs : List Trig) (g : GScript) :
    clockActions ClockCfg.current none (runG cfg trigs g).trace = (runG cfg trigs g).actions.map (fun a => (a.tag, some a.stamp, a.m)) := by
  rw [C05_clock_in_source, (C05_hook_raises_books_of_any_run cfg trigs g).1]
  have key : Synced (runG cfg trigs g).trace := by
    rcases core_runG_cases cfg trigs g with ⟨e, he⟩ | ⟨ts0, bars, hr⟩
    · rw [he g]; intro cur; rfl
    · rw [hr g]
      unfold finishG
      cases hc : (runCore cfg trigs g ts0 bars).1.2.2 with
      | none => exact Synced.append (runCore_synced cfg trigs g ts0 bars) (fun cur => rfl)
      | some e => exact Synced.append (runCore_synced cfg trigs g ts0 bars) (fun cur => rfl)
  exact key none

/-- a strategy whose `before_bar` trades on bar 1 -/
def Core.exGBefore : GScript :=
  { Core.exG with bar := fun r => { (Core.exG.bar r) with before := if r = 1 then [.op ⟨0, true, "b1", true⟩] else [] } }

/-- **witness** (seeded change C05-m6: `self._currents.timestamp = …` moved behind `before_bar()`): the record of the operation `before_bar`
    issues on the bar 08:59 is stamped 08:58, the bar before — the clock-built list is no longer the list of records stamped with their bar -/
theorem C05_fails_when_clock_is_set_after_before_bar :
    clockActions ⟨true, false, true⟩ none (runG Core.exCfg Core.exTrigs Core.exGBefore).trace ≠
      (runG Core.exCfg Core.exTrigs Core.exGBefore).actions.map (fun a => (a.tag, some a.stamp, a.m)) ∧
    ("b1", some 32280, 0) ∈ clockActions ⟨true, false, true⟩ none (runG Core.exCfg Core.exTrigs Core.exGBefore).trace ∧
    (⟨"b1", 32340, 0⟩ : Act) ∈ (runG Core.exCfg Core.exTrigs Core.exGBefore).actions := by decide

/-- non-vacuity: the same run under the source as it is -/
example : clockActions ClockCfg.current none (runG Core.exCfg Core.exTrigs Core.exGBefore).trace =
    [("i", some 32280, 0), ("o0", some 32280, 0), ("b1", some 32340, 0), ("o1", some 32340, 0), ("o2", some 32400, 0), ("n2", some 32400, 0),
     ("o3", some 32460, 0)] := by decide

end Demeter
