/-
  C05 — "… then on-bar, then the market update …": the update of a bar runs on a market status that contains the strategy's own writes
  of that bar.

  A concrete market keeps the status it was last refreshed with (`UniLpMarket.set_market_status` re-reads the pool row and adds the
  strategy's own liquidity to it; `write_func` operations set `has_update`).  What `update()` computes (fee share own/(pool+own), C08) is
  right only if every accepted write of the bar is followed by a refresh of THAT market before its `update()`.  The theorems below say
  so for the bar loop of Demeter/Actuator.lean, for every number of markets and every position of the written market in the broker —
  an early `return` at the first market without pending writes (instead of skipping it) falsifies them.
-/
import Proofs.C05
namespace Demeter
open Core

/-- the part of a bar's trace before the second refresh: first refresh, `before_bar`, triggers, open callbacks, `on_bar` and what they do -/
def Core.BarParts.early (p : BarParts) (row : Nat) (ts : Int) : List Ev :=
  p.s1.1 ++ .before ts row p.price :: p.b.1 ++ p.f.1 ++ p.o.1 ++ .on ts row p.price :: p.n.1

/-- … and the part after it: `market.update()` of every market, `after_bar`, the account row, `notify` -/
def Core.BarParts.late (p : BarParts) (row : Nat) (ts : Int) : List Ev :=
  p.u.1 ++ .after ts row p.price :: p.a.1 ++ .row ts p.price :: p.nt.1

theorem core_trace_split (p : BarParts) (row : Nat) (ts : Int) : p.trace row ts = p.early row ts ++ p.s2.1 ++ p.late row ts := by
  simp [BarParts.trace, BarParts.early, BarParts.late, List.append_assoc]

theorem core_any_okEarly_low : ∀ {l : List Ev}, (∀ e ∈ l, e.phase ≤ 9) → ∀ m : Nat, l.any (okEarly m) = l.any (okOn m)
  | [], _, _ => rfl
  | e :: l, h, m => by
    have he := h e (List.mem_cons_self ..)
    have ih := core_any_okEarly_low (l := l) (fun x hx => h x (List.mem_cons_of_mem _ hx)) m
    simp only [List.any_cons, ih, okEarly, he, decide_true, Bool.and_true]

theorem core_any_okEarly_high : ∀ {l : List Ev}, (∀ e ∈ l, 10 ≤ e.phase) → ∀ m : Nat, l.any (okEarly m) = false
  | [], _, _ => rfl
  | e :: l, h, m => by
    have he := h e (List.mem_cons_self ..)
    have ih := core_any_okEarly_high (l := l) (fun x hx => h x (List.mem_cons_of_mem _ hx)) m
    have : decide (e.phase ≤ 9) = false := by simp; omega
    simp only [List.any_cons, ih, okEarly, this, Bool.and_false, Bool.or_false]

theorem core_allAt_le {ts : Int} {c : Nat} {l : List Ev} (h : AllAt ts c l) : ∀ e ∈ l, e.phase = c := fun e he => (h e he).2

/-- the phases of the three parts of a bar -/
theorem core_bar_part_phases (cfg : Cfg) (sc : Script) (row : Nat) (ts : Int) (st : St) (price : Option Int) :
    let p := barParts cfg sc row ts st price
    (∀ e ∈ p.early row ts, e.phase ≤ 9) ∧ (∀ e ∈ p.s2.1, e.phase = 10) ∧ (∀ e ∈ p.late row ts, 11 ≤ e.phase) := by
  intro p
  have h1 := core_allAt_le (setAllFrom_at cfg ts 1 0 cfg.markets)
  have h2 := fun ops st' => core_allAt_le (runOps_at ts .before ops st')
  have h3 := fun fs st' => core_allAt_le (runFires_at sc ts row fs st')
  have h4 := fun ms st' => core_allAt_le (runOpenFrom_at sc ts row 0 ms st')
  have h5 := fun ops st' => core_allAt_le (runOps_at ts .on ops st')
  have h6 := fun ms ss => core_allAt_le (setUpdatedFrom_at cfg ts 0 ms ss)
  have h7 := fun ms st' => core_allAt_le (runUpdFrom_at sc ts row 0 ms st')
  have h8 := fun ops st' => core_allAt_le (runOps_at ts .after ops st')
  have h9 := fun f i st' => core_allAt_le (runNotify_at sc ts row f i st')
  refine ⟨?_, ?_, ?_⟩
  · intro e he
    simp only [BarParts.early, List.mem_append, List.mem_cons] at he
    rcases he with (((h' | rfl | h') | h') | h') | rfl | h'
    · have := h1 e h'; simp [stagePhase] at this; omega
    · simp [Ev.phase]
    · have := h2 _ _ e h'; simp [Hook.phase] at this; omega
    · have := h3 _ _ e h'; omega
    · have := h4 _ _ e h'; omega
    · simp [Ev.phase]
    · have := h5 _ _ e h'; simp [Hook.phase] at this; omega
  · intro e he
    exact h6 _ _ e he
  · intro e he
    simp only [BarParts.late, List.mem_append, List.mem_cons] at he
    rcases he with (h' | rfl | h') | rfl | h'
    · have := h7 _ _ e h'; omega
    · simp [Ev.phase]
    · have := h8 _ _ e h'; simp [Hook.phase] at this; omega
    · simp [Ev.phase]
    · have := h9 _ _ _ e h'; omega

/-- **C05 — a market written to in a bar is refreshed again before the market update of that bar.**  The trace of one iteration of the
    loop, from every state, splits into `early ++ second refresh ++ late` with phases ≤ 9, = 10, ≥ 11; for every market `m` of the broker,
    whatever its position: the second refresh contains a `set_market_status` of `m` if and only if `early` contains an accepted
    `write_func` operation on `m`; and `late` contains the `update()` of `m`.  So every accepted write of `before_bar`, a trigger action, an
    open callback or `on_bar` is followed — after all writes of the bar's head, before `update()` — by a refresh of the market it went to. -/
theorem C05_written_market_refreshed_before_update (cfg : Cfg) (sc : Script) (row : Nat) (ts : Int) (st : St) (price : Option Int) :
    let p := barParts cfg sc row ts st price
    p.trace row ts = p.early row ts ++ p.s2.1 ++ p.late row ts ∧
    (∀ e ∈ p.early row ts, e.phase ≤ 9) ∧ (∀ e ∈ p.s2.1, e.phase = 10) ∧ (∀ e ∈ p.late row ts, 11 ≤ e.phase) ∧
    (∀ m, m < cfg.markets.length → ((ts, m) ∈ p.s2.1.filterMap set2Of ↔ (p.early row ts).any (okOn m) = true)) ∧
    (∀ m, m < cfg.markets.length → (ts, m) ∈ (p.late row ts).filterMap updateOf) := by
  intro p
  obtain ⟨pe, ps, pl⟩ := core_bar_part_phases cfg sc row ts st price
  have hsplit := core_trace_split p row ts
  refine ⟨hsplit, pe, ps, pl, ?_, ?_⟩
  · intro m hm
    have h2 := barTrace_second_refresh cfg sc row ts st price
    have hseg : (p.trace row ts).filterMap set2Of = p.s2.1.filterMap set2Of := by
      have := barTrace_fm_seg set2Of 10 set2Of_phase (by omega) cfg sc row ts st price
      rw [segOf_10] at this
      exact this
    have hany : (p.trace row ts).any (okEarly m) = (p.early row ts).any (okOn m) := by
      rw [hsplit]
      simp only [List.any_append]
      rw [core_any_okEarly_low pe m, core_any_okEarly_high (fun e he => by rw [ps e he]) m,
        core_any_okEarly_high (fun e he => by have := pl e he; omega) m]
      simp only [Bool.or_false]
      rfl
    rw [← hseg, h2]
    simp only [List.mem_map, List.mem_filter, List.mem_range, Prod.mk.injEq, true_and]
    constructor
    · rintro ⟨k, ⟨_, hk⟩, rfl⟩
      have : (p.trace row ts).any (okEarly k) = true := hk
      rw [← hany]; exact this
    · intro h
      exact ⟨m, ⟨hm, by show (p.trace row ts).any (okEarly m) = true; rw [hany]; exact h⟩, rfl⟩
  · intro m hm
    have hu := barTrace_updates cfg sc row ts st price
    have hseg : (p.trace row ts).filterMap updateOf = (p.late row ts).filterMap updateOf := by
      rw [hsplit]
      simp only [List.filterMap_append]
      have z1 : (p.early row ts).filterMap updateOf = [] := by
        apply List.filterMap_eq_nil_iff.mpr
        intro e he
        cases hq : updateOf e with
        | none => rfl
        | some x => have := updateOf_phase e (by rw [hq]; rfl); have := pe e he; omega
      have z2 : p.s2.1.filterMap updateOf = [] := by
        apply List.filterMap_eq_nil_iff.mpr
        intro e he
        cases hq : updateOf e with
        | none => rfl
        | some x => have := updateOf_phase e (by rw [hq]; rfl); have := ps e he; omega
      rw [z1, z2]; simp
    rw [← hseg, hu]
    exact List.mem_map.mpr ⟨m, List.mem_range.mpr hm, rfl⟩

/-! ### a concrete market status: what `update()` sees

  `own` = the strategy's liquidity in the market, `seen` = the own liquidity contained in the status row the market holds (the row is
  rebuilt as pool + own by every `set_market_status`).  `update()` computes the fee share from the row: it is right iff `seen = own`. -/

structure Core.LpView where
  own : Nat
  seen : Nat
  stale : List Int      -- timestamps of `update()` calls that ran on a row not containing all of `own`
deriving Repr, DecidableEq

/-- how the events of market `m` move that view; `amt` = the liquidity an accepted operation with a given label adds -/
def Core.lpStep (m : Nat) (amt : String → Nat) (v : LpView) : Ev → LpView
  | .set _ m' _ _ _ => if m' = m then { v with seen := v.own } else v
  | .opOk _ _ m' tag => if m' = m then { v with own := v.own + amt tag } else v
  | .update ts m' => if m' = m ∧ v.seen ≠ v.own then { v with stale := v.stale ++ [ts] } else v
  | _ => v

def Core.lpRun (m : Nat) (amt : String → Nat) (v : LpView) (l : List Ev) : LpView := l.foldl (lpStep m amt) v

/-- non-vacuity and the defect the theorem excludes, on the run of `Core.exCfg` (market 1 is the hourly one, written to at 09:00 by a
    trigger action and by `on_bar`): the faithful trace never updates on a stale row; the same trace with the second refresh of market 1
    removed (what an early `return` at market 0, which has no pending write, produces) does -/
example : (lpRun 1 (fun _ => 5) ⟨0, 0, []⟩ (run Core.exCfg (install [("", .atTime 32400)]) Core.exScript).trace).stale = [] := by decide

example : (lpRun 1 (fun _ => 5) ⟨0, 0, []⟩
    ((run Core.exCfg (install [("", .atTime 32400)]) Core.exScript).trace.filter (fun e => (set2Of e).isNone))).stale = [32400] := by decide

end Demeter
