/-
  C05 — operations issued by `finalize()` (after the last bar) are recorded AND delivered.

  Model: Demeter/Actuator/Finalize.lean (`runFull` = `runG` + what `finalize()` does + the deliveries after it).  The property says "every
  accepted operation produces its action record … and is delivered to the strategy's notification hook exactly once".  Up to fix 0438378 an
  operation accepted from `finalize()` was recorded (stamped with the last bar — the clock still shows it) and never delivered: the
  statement below held only with `_partial` ("for strategies whose finalize() issues no operation").  The source flag
  `Gen.coreFinalizeDeliversActions` (tools/consts_core.py) says whether `_run` hands `_currents.actions` to `notify()` after `finalize()`.
-/
import Proofs.C05.Hooks
import Demeter.Actuator.Finalize
namespace Demeter
open Core

/-- the flag as read from the source today -/
theorem C05_finalize_delivery_in_source : Gen.coreFinalizeDeliversActions = true := by decide

/-- **what follows the `finalize` call** (from a state with an empty `_currents.actions`, deliveries switched on, the `notify` loop ending):
    the deliveries are — in order, once each — exactly the records made by `finalize()`'s own operations followed by the records made by the
    answers from `notify()`; `Actuator.actions` grows by exactly these; nothing is left in `_currents.actions`; the account history is
    untouched; every such record is stamped with the last bar; `finalize()`'s own operations deliver nothing themselves. -/
theorem C05_finalize_tail_delivered_exactly_once (f : FinScript) (ts : Int) (st : St) (hcur : st.cur = [])
    (hend : (finalizeTail true f ts st).ended = true) :
    (finalizeTail true f ts st).deliveries.filterMap notifyAct =
      recOf (finalizeTail true f ts st).own ++ recOf (finalizeTail true f ts st).deliveries ∧
    (finalizeTail true f ts st).st.all = st.all ++ (recOf (finalizeTail true f ts st).own ++ recOf (finalizeTail true f ts st).deliveries) ∧
    (finalizeTail true f ts st).st.cur = [] ∧
    (finalizeTail true f ts st).st.rows = st.rows ∧
    (∀ a ∈ recOf (finalizeTail true f ts st).own ++ recOf (finalizeTail true f ts st).deliveries, a.stamp = ts) ∧
    (finalizeTail true f ts st).own.filterMap notifyAct = [] := by
  unfold finalizeTail at hend ⊢
  simp only [if_true] at hend ⊢
  have f0 := runOps_frame ts .after f.ops st
  obtain ⟨f1, f2⟩ := runNotify_book f.asScript ts 0 _ 0 _ hend
  obtain ⟨a1, _, a3, a4⟩ := f0
  obtain ⟨b1, _, b3, b4⟩ := f1
  simp only [] at a1 a3 a4 b1 b3 b4
  rw [hcur, List.nil_append] at a3
  refine ⟨?_, ?_, trivial, ?_, ?_, runOps_noNotify ts .after f.ops st⟩
  · rw [f2, List.drop_zero, b3, a3]
  · show (runNotify f.asScript ts 0 _ 0 _).2.1.all = _
    rw [b4, a4, List.append_assoc]
  · show (runNotify f.asScript ts 0 _ 0 _).2.1.rows = _
    rw [b1, a1]
  · intro a ha
    rcases List.mem_append.mp ha with h | h
    · exact recOf_stamp (fun e he => ((runOps_at ts .after f.ops st) e he).1) a h
    · exact recOf_stamp (fun e he => ((runNotify_at f.asScript ts 0 _ 0 _) e he).1) a h

/-- without the deliveries (the code before fix 0438378): whatever `finalize()` records stays in `_currents.actions` -/
theorem C05_finalize_tail_undelivered_without_the_fix (f : FinScript) (ts : Int) (st : St) (hcur : st.cur = []) :
    (finalizeTail false f ts st).deliveries = [] ∧ (finalizeTail false f ts st).st.cur = recOf (finalizeTail false f ts st).own ∧
    (finalizeTail false f ts st).st.all = st.all ++ recOf (finalizeTail false f ts st).own := by
  unfold finalizeTail
  simp only [Bool.false_eq_true, ↓reduceIte]
  obtain ⟨_, _, a3, a4⟩ := runOps_frame ts .after f.ops st
  rw [hcur, List.nil_append] at a3
  exact ⟨trivial, a3, a4⟩

/-- the state in which a run reaches `finalize()`: exists exactly when the loop ended normally; its books are those of the run, and
    `_currents.actions` is empty -/
theorem core_finalSt_spec (cfg : Cfg) (trigs : List Trig) (g : GScript) :
    ((runG cfg trigs g).err = none ↔ (finalSt cfg trigs g).isSome) ∧
    ∀ st last, finalSt cfg trigs g = some (st, last) →
      st.all = (runG cfg trigs g).actions ∧ st.rows = (runG cfg trigs g).rows ∧ st.cur = [] ∧ (barIndex cfg).getLast? = some last := by
  cases hcb : checkBacktest cfg with
  | some e =>
    have h1 : runG cfg trigs g = ⟨[.raised e], [], [], trigs, some e⟩ := by unfold runG; rw [hcb]
    have h2 : finalSt cfg trigs g = none := by unfold finalSt; rw [hcb]
    rw [h1, h2]; exact ⟨by simp, by intro st last h; cases h⟩
  | none =>
    cases hb : barIndex cfg with
    | nil =>
      have h1 : runG cfg trigs g = ⟨[.raised .indexError], [], [], trigs, some .indexError⟩ := by unfold runG; rw [hcb]; simp only [hb]
      have h2 : finalSt cfg trigs g = none := by unfold finalSt; rw [hcb]; simp only [hb]
      rw [h1, h2]; exact ⟨by simp, by intro st last h; cases h⟩
    | cons ts0 bars =>
      cases hp : priceAt cfg ts0 with
      | none =>
        have h1 : runG cfg trigs g = ⟨[.raised .keyError], [], [], trigs, some .keyError⟩ := by unfold runG; rw [hcb]; simp only [hb, hp]
        have h2 : finalSt cfg trigs g = none := by unfold finalSt; rw [hcb]; simp only [hb, hp]
        rw [h1, h2]; exact ⟨by simp, by intro st last h; cases h⟩
      | some pr =>
        have h1 : runG cfg trigs g = finishG (runCore cfg trigs g ts0 bars) ((ts0 :: bars).getLast?.getD ts0) := by
          unfold runG; rw [hcb]; simp only [hb, hp]; rfl
        have h2 : finalSt cfg trigs g = (match (runCore cfg trigs g ts0 bars).1.2.2 with
            | none => some ((runCore cfg trigs g ts0 bars).1.2.1, (ts0 :: bars).getLast?.getD ts0)
            | some _ => none) := by
          unfold finalSt; rw [hcb]; simp only [hb, hp]; rfl
        rw [h1, h2]
        unfold finishG
        cases hc : (runCore cfg trigs g ts0 bars).1.2.2 with
        | some e => exact ⟨by simp, by intro st last h; cases h⟩
        | none =>
          refine ⟨by simp, ?_⟩
          intro st last h
          simp only [Option.some.injEq, Prod.mk.injEq] at h
          obtain ⟨h1', h2'⟩ := h
          subst h1'
          refine ⟨rfl, rfl, ?_, ?_⟩
          · cases hie : (initG cfg trigs g ts0).2.2 with
            | some e => rw [core_runCore_err hie] at hc; rw [hie] at hc; cases hc
            | none =>
              rw [core_runCore_ok hie] at hc ⊢
              obtain ⟨_, h2'', h3⟩ := andThen_none hc
              have hcur := runBarsG_cur_nil cfg g (ts0 :: bars) 0 _ (by simp) h2''
              rw [← h3] at hcur
              exact hcur
          · rw [← h2']
            cases hl : (ts0 :: bars).getLast? with
            | none => simp at hl
            | some x => rfl

/-- **C05 — every accepted operation is delivered exactly once, `finalize()` included.**  For every configuration, trigger list, scripted
    strategy (hooks that trade — also from `notify` —, install and remove triggers) and every `finalize()` that issues operations (accepted,
    refused, ungated; answered from `notify()`), with the source as it is today: if the run ends normally (and the `notify` loop after
    `finalize()` ends), then the actions handed to `notify()` over the whole run — the bars and what follows `finalize()` — are, in order and
    once each, exactly `Actuator.actions`; these are exactly what the call trace shows as recorded; nothing is left in `_currents.actions`. -/
theorem C05_finalize_operations_delivered_exactly_once (cfg : Cfg) (trigs : List Trig) (g : GScript) (f : FinScript)
    (hok : (runFull Gen.coreFinalizeDeliversActions cfg trigs g f).loop.err = none)
    (hend : ∀ t, (runFull Gen.coreFinalizeDeliversActions cfg trigs g f).tail = some t → t.ended = true) :
    (runFull Gen.coreFinalizeDeliversActions cfg trigs g f).trace.filterMap notifyAct = (runFull Gen.coreFinalizeDeliversActions cfg trigs g f).actions ∧
    (runFull Gen.coreFinalizeDeliversActions cfg trigs g f).actions = recOf (runFull Gen.coreFinalizeDeliversActions cfg trigs g f).trace ∧
    (runFull Gen.coreFinalizeDeliversActions cfg trigs g f).undelivered = [] ∧
    (∃ t, (runFull Gen.coreFinalizeDeliversActions cfg trigs g f).tail = some t) := by
  rw [C05_finalize_delivery_in_source] at hok hend ⊢
  obtain ⟨s1, s2⟩ := core_finalSt_spec cfg trigs g
  have hsome := s1.mp hok
  unfold runFull at hend ⊢
  cases hf : finalSt cfg trigs g with
  | none => rw [hf] at hsome; cases hsome
  | some p =>
    obtain ⟨st, last⟩ := p
    obtain ⟨e1, _, e3, _⟩ := s2 st last hf
    have hend' := hend (finalizeTail true f last st) (by simp [hf])
    obtain ⟨t1, t2, t3, _, _, t6⟩ := C05_finalize_tail_delivered_exactly_once f last st e3 hend'
    obtain ⟨k1, _, _, k4⟩ := C05_hook_raises_books_of_any_run cfg trigs g
    simp only [FullRun.trace, FullRun.actions, FullRun.undelivered, Option.map_some]
    refine ⟨?_, ?_, t3, ⟨_, rfl⟩⟩
    · rw [List.filterMap_append, List.filterMap_append, k4 hok, t6, List.append_nil, t1, t2, e1]
    · rw [t2, e1, recOf_append, recOf_append, ← k1, List.append_assoc]

/-- the same for `Actuator.run` as called (triggers started afresh) -/
theorem C05_finalize_operations_delivered_exactly_once_actuator (cfg : Cfg) (trigs : List Trig) (g : GScript) (f : FinScript)
    (hok : (actuatorRunFull cfg trigs g f).loop.err = none)
    (hend : ∀ t, (actuatorRunFull cfg trigs g f).tail = some t → t.ended = true) :
    (actuatorRunFull cfg trigs g f).trace.filterMap notifyAct = (actuatorRunFull cfg trigs g f).actions ∧
    (actuatorRunFull cfg trigs g f).undelivered = [] :=
  let h := C05_finalize_operations_delivered_exactly_once cfg (startTrigs trigs) g f hok hend
  ⟨h.1, h.2.2.1⟩

/-- a `finalize()` that issues no operation adds nothing: `runFull` is `runG` (every theorem about `runG` speaks about such strategies) -/
theorem C05_finalize_without_operations_is_runG (deliver : Bool) (cfg : Cfg) (trigs : List Trig) (g : GScript) (fuel : Nat) :
    (runFull deliver cfg trigs g { ops := [], fuel := fuel }).trace = (runG cfg trigs g).trace ∧
    (runFull deliver cfg trigs g { ops := [], fuel := fuel }).actions = (runG cfg trigs g).actions := by
  obtain ⟨_, s2⟩ := core_finalSt_spec cfg trigs g
  unfold runFull
  cases hf : finalSt cfg trigs g with
  | none => exact ⟨rfl, rfl⟩
  | some p =>
    obtain ⟨st, last⟩ := p
    obtain ⟨e1, _, e3, _⟩ := s2 st last hf
    have hn : ∀ n, runNotify ({ ops := [], fuel := fuel } : FinScript).asScript last 0 n 0 st = ([], st, true) := by
      intro n
      cases n with
      | zero => simp [runNotify, e3]
      | succ n => simp [runNotify, e3]
    cases deliver with
    | false => simp [FullRun.trace, FullRun.actions, finalizeTail, runOps, e1]
    | true => simp [FullRun.trace, FullRun.actions, finalizeTail, runOps, hn, e1]

/-! ### the defect repaired by 0438378, and non-vacuity -/

/-- `finalize()` of the example strategy closes its position (an accepted operation on market 0), tries one on the hourly market (closed at
    09:01: refused) and `notify()` answers the delivery of the first with one more trade -/
def Core.exFin : FinScript :=
  { ops := [⟨0, true, "fin1", true⟩, ⟨1, true, "fin2", true⟩], notify := fun t => if t == "fin1" then [⟨0, true, "fin3", false⟩] else [], fuel := 4 }

/-- **witness**: without the deliveries after `finalize()` (the code up to 0438378) the run of the example strategy ends normally with `fin1`
    in `Actuator.actions`, stamped with the last bar, never handed to `notify()` and left in `_currents.actions` -/
theorem C05_fails_finalize_operation_never_delivered_before_fix :
    (runFull false Core.exCfg Core.exTrigs Core.exG Core.exFin).loop.err = none ∧
    (runFull false Core.exCfg Core.exTrigs Core.exG Core.exFin).actions.map (·.tag) = ["i", "o0", "o1", "o2", "n2", "o3", "fin1"] ∧
    (runFull false Core.exCfg Core.exTrigs Core.exG Core.exFin).trace.filterMap notifyAct ≠
      (runFull false Core.exCfg Core.exTrigs Core.exG Core.exFin).actions ∧
    (runFull false Core.exCfg Core.exTrigs Core.exG Core.exFin).undelivered = [⟨"fin1", 32460, 0⟩] := by decide

/-- the same run with the source as it is: `fin1` and the answer `fin3` are delivered, in that order, stamped with the last bar 09:01; `fin2` is
    refused (the hourly market is closed) -/
example : (actuatorRunFull Core.exCfg Core.exTrigs Core.exG Core.exFin).loop.err = none ∧
    (actuatorRunFull Core.exCfg Core.exTrigs Core.exG Core.exFin).actions.map (·.tag) = ["i", "o0", "o1", "o2", "n2", "o3", "fin1", "fin3"] ∧
    (actuatorRunFull Core.exCfg Core.exTrigs Core.exG Core.exFin).trace.filterMap notifyAct =
      (actuatorRunFull Core.exCfg Core.exTrigs Core.exG Core.exFin).actions ∧
    ((actuatorRunFull Core.exCfg Core.exTrigs Core.exG Core.exFin).actions.drop 6).map (·.stamp) = [32460, 32460] ∧
    (actuatorRunFull Core.exCfg Core.exTrigs Core.exG Core.exFin).undelivered = [] ∧
    ((actuatorRunFull Core.exCfg Core.exTrigs Core.exG Core.exFin).tail.map (·.ended)) = some true := by decide

end Demeter
