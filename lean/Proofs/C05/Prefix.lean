/-
  C05 — the account history of ANY run, failed or not, is an initial stretch of the bar index.

  `C05_account_rows` (Proofs/C05.lean) says "one row per bar, in order" for runs that end normally (`err = none`).  For a run that a hook, a
  trigger or a missing price row ended, `C05_hook_raises_books_of_any_run` says what the rows are in terms of the trace, and
  `C05_hook_raises_prefix_of_full_run` compares with the run without the raise; this file states it against the bar index directly:
  the timestamps of the account rows are the first k bars, in order, each once — for every scripted strategy and however the run ends.
  (The deliveries to `notify` are an initial stretch of `Actuator.actions` for every run: `C05_hook_raises_books_of_any_run`.)
-/
import Proofs.C05.Hooks
namespace Demeter
open Core

namespace Core

/-- a bar appends its one account row, or the run ends in it before the row -/
theorem barStepG_rows (cfg : Cfg) (b : BarScript) (fuel tfuel row : Nat) (ts : Int) (st : St) :
    ((barStepG cfg b fuel tfuel row ts st).1.filterMap rowOf = [] ∧ (barStepG cfg b fuel tfuel row ts st).2.2 ≠ none) ∨
    ∃ price, (barStepG cfg b fuel tfuel row ts st).1.filterMap rowOf = [(ts, price)] := by
  unfold barStepG
  split
  · exact Or.inl ⟨rfl, by simp⟩
  · rename_i price _
    have hq := (barHeadG_quiet cfg b tfuel row ts price st).2.2.2.2
    cases hh : (barHeadG cfg b tfuel row ts price st).2.2 with
    | some e => rw [andThen_err hh]; exact Or.inl ⟨hq, by rw [hh]; simp⟩
    | none =>
      rw [andThen_ok hh]
      refine Or.inr ⟨price, ?_⟩
      simp only [List.filterMap_append, hq, List.nil_append]
      exact (barTailG_books b fuel ts price _).2.2.1

theorem runBarsG_rows_prefix (cfg : Cfg) (g : GScript) : ∀ (bars : List Int) (row : Nat) (st : St),
    ((runBarsG cfg g row bars st).1.filterMap rowOf).map (·.1) <+: bars ∧
    ((runBarsG cfg g row bars st).2.2 = none → ((runBarsG cfg g row bars st).1.filterMap rowOf).map (·.1) = bars)
  | [], _, _ => ⟨List.prefix_refl _, fun _ => rfl⟩
  | ts :: bars, row, st => by
    simp only [runBarsG]
    cases hs : (barStepG cfg (g.bar row) g.fuel g.tfuel row ts st).2.2 with
    | some e =>
      rw [andThen_err hs]
      refine ⟨?_, fun h => by rw [hs] at h; cases h⟩
      rcases barStepG_rows cfg (g.bar row) g.fuel g.tfuel row ts st with ⟨h, _⟩ | ⟨price, h⟩
      · rw [h]; exact List.nil_prefix
      · rw [h]; simp
    | none =>
      rw [andThen_ok hs]
      rcases barStepG_rows cfg (g.bar row) g.fuel g.tfuel row ts st with ⟨_, h⟩ | ⟨price, h⟩
      · exact absurd hs h
      · obtain ⟨i1, i2⟩ := runBarsG_rows_prefix cfg g bars (row + 1) (barStepG cfg (g.bar row) g.fuel g.tfuel row ts st).2.1
        simp only [List.filterMap_append, h, List.map_cons, List.singleton_append]
        exact ⟨(List.prefix_cons_inj ts).mpr i1, fun hn => by rw [i2 hn]⟩

end Core

/-- **C05 — the account history of any run is an initial stretch of the bar index.**  For every configuration, trigger list and scripted strategy
    (hooks that trade, change the trigger list, raise) and however the run ends: the timestamps of the account rows are — in order, once each — the
    first bars of the run's bar index; all of them if the run ended normally. -/
theorem C05_account_rows_prefix_of_bar_index (cfg : Cfg) (trigs : List Trig) (g : GScript) :
    (runG cfg trigs g).rows.map (·.1) <+: barIndex cfg ∧
    ((runG cfg trigs g).err = none → (runG cfg trigs g).rows.map (·.1) = barIndex cfg) := by
  cases hcb : checkBacktest cfg with
  | some e =>
    have h1 : runG cfg trigs g = ⟨[.raised e], [], [], trigs, some e⟩ := by unfold runG; rw [hcb]
    rw [h1]; exact ⟨List.nil_prefix, fun h => by cases h⟩
  | none =>
    cases hb : barIndex cfg with
    | nil =>
      have h1 : runG cfg trigs g = ⟨[.raised .indexError], [], [], trigs, some .indexError⟩ := by unfold runG; rw [hcb]; simp only [hb]
      rw [h1]; exact ⟨List.nil_prefix, fun h => by cases h⟩
    | cons ts0 bars =>
      cases hp : priceAt cfg ts0 with
      | none =>
        have h1 : runG cfg trigs g = ⟨[.raised .keyError], [], [], trigs, some .keyError⟩ := by unfold runG; rw [hcb]; simp only [hb, hp]
        rw [h1]; exact ⟨List.nil_prefix, fun h => by cases h⟩
      | some pr =>
        have h1 : runG cfg trigs g = finishG (runCore cfg trigs g ts0 bars) ((ts0 :: bars).getLast?.getD ts0) := by
          unfold runG; rw [hcb]; simp only [hb, hp]; rfl
        have hrows := (core_runCore_books cfg trigs g ts0 bars).2.1
        have key : ((runCore cfg trigs g ts0 bars).1.1.filterMap rowOf).map (·.1) <+: ts0 :: bars ∧
            ((runCore cfg trigs g ts0 bars).1.2.2 = none → ((runCore cfg trigs g ts0 bars).1.1.filterMap rowOf).map (·.1) = ts0 :: bars) := by
          have hi := (initG_quiet cfg trigs g ts0).2.2.2.2
          cases hie : (initG cfg trigs g ts0).2.2 with
          | some e =>
            rw [core_runCore_err hie, hi]
            exact ⟨List.nil_prefix, fun h => by rw [hie] at h; cases h⟩
          | none =>
            rw [core_runCore_ok hie, andThen_ok hie]
            simp only [List.filterMap_append, hi, List.nil_append]
            exact runBarsG_rows_prefix cfg g (ts0 :: bars) 0 _
        rw [h1]
        unfold finishG
        cases hc : (runCore cfg trigs g ts0 bars).1.2.2 with
        | none =>
          simp only []
          rw [hrows]
          exact ⟨key.1, fun _ => key.2 hc⟩
        | some e =>
          simp only []
          rw [hrows]
          exact ⟨key.1, fun h => by cases h⟩

/-- non-vacuity: `on_bar` raises on bar 2 of four — the rows are the first two bars -/
example : (runG Core.exCfg Core.exTrigs (Core.exG.raiseAt 2 .on "" 1 .hookError)).rows.map (·.1) = [32280, 32340] ∧
    barIndex Core.exCfg = [32280, 32340, 32400, 32460] := by decide

end Demeter
