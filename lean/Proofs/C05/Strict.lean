/-
  C05 — markets that cannot be closed (`MarketCfg.strict`).

  `run` / `runG` treat a market whose frame has no row for a bar as CLOSED on that bar (`setEv … isOpen = false, src = none`) and go on.  That is
  what the code does for a `DeribitOptionMarket` only.  `UniLpMarket`, `AaveV3Market`, `SqueethMarket`, `GmxMarket`, `GmxV2Market` look the row up
  unguarded and raise `KeyError` (flags `Gen.coreStrictStatus…`, read from the six `set_market_status` bodies by tools/consts_core.py and compared
  with the behaviour of the real objects by harness/c05.py on every run).  Model: Demeter/Actuator/Strict.lean (`runStrict`).

  So the theorems of Proofs/C05*.lean about `runG` are theorems about the code under the guard the code has: every strict market has a row on
  every bar (`strictFails cfg ts = false` on the bar index) — then `runStrict = runG`; without the guard the run raises, which is proved too.
-/
import Proofs.C05.Hooks
import Demeter.Actuator.Strict
namespace Demeter
open Core

/-- which classes are strict, as read from the source today: all but the option market -/
theorem C05_strict_classes_in_source :
    MarketClass.uni.strict = true ∧ MarketClass.aave.strict = true ∧ MarketClass.squeeth.strict = true ∧ MarketClass.gmx.strict = true ∧
    MarketClass.gmxV2.strict = true ∧ MarketClass.deribit.strict = false := by decide

theorem core_split_none (cfg : Cfg) : ∀ bars : List Int, (∀ ts ∈ bars, strictFails cfg ts = false) → (splitAtStrictFail cfg bars).2 = none
  | [], _ => rfl
  | ts :: bars, h => by
    unfold splitAtStrictFail
    rw [h ts (List.mem_cons_self ..)]
    simp only [Bool.false_eq_true, if_false]
    exact core_split_none cfg bars (fun t ht => h t (List.mem_cons_of_mem _ ht))

theorem core_split_some (cfg : Cfg) : ∀ bars : List Int, (∃ ts ∈ bars, strictFails cfg ts = true) →
    ∃ bad, (splitAtStrictFail cfg bars).2 = some bad ∧ bad ∈ bars ∧ strictFails cfg bad = true ∧
      (∀ t ∈ (splitAtStrictFail cfg bars).1, strictFails cfg t = false) ∧ (splitAtStrictFail cfg bars).1 <+: bars
  | [], h => by obtain ⟨_, h, _⟩ := h; cases h
  | ts :: bars, h => by
    unfold splitAtStrictFail
    cases hf : strictFails cfg ts with
    | true => exact ⟨ts, by simp, List.mem_cons_self .., hf, by simp, by simp⟩
    | false =>
      simp only [Bool.false_eq_true, if_false]
      obtain ⟨t, ht, htf⟩ := h
      have ht' : t ∈ bars := by
        rcases List.mem_cons.mp ht with rfl | h'
        · rw [hf] at htf; cases htf
        · exact h'
      obtain ⟨bad, b1, b2, b3, b4, b5⟩ := core_split_some cfg bars ⟨t, ht', htf⟩
      refine ⟨bad, b1, List.mem_cons_of_mem _ b2, b3, ?_, ?_⟩
      · intro x hx
        rcases List.mem_cons.mp hx with rfl | hx'
        · exact hf
        · exact b4 x hx'
      · exact (List.prefix_cons_inj ts).mpr b5

/-- **C05 — under the guard the code has, the strict loop is the loop of Proofs/C05*.lean.**  If every market whose `set_market_status` raises on
    a missing row has a row on every bar of the run, then `runStrict` is `runG`: call trace, account rows, action list, triggers left, outcome —
    for every trigger list and scripted strategy. -/
theorem C05_strict_run_is_runG_when_rows_exist (cfg : Cfg) (trigs : List Trig) (g : GScript)
    (hrows : ∀ ts ∈ barIndex cfg, strictFails cfg ts = false) : runStrict cfg trigs g = runG cfg trigs g := by
  unfold runStrict
  cases hcb : checkBacktest cfg with
  | some e => unfold runG; rw [hcb]
  | none =>
    cases hb : barIndex cfg with
    | nil => unfold runG; rw [hcb]; simp only [hb]
    | cons ts0 bars =>
      rw [hb] at hrows
      cases hp : priceAt cfg ts0 with
      | none => simp only [hp]; unfold runG; rw [hcb]; simp only [hb, hp]
      | some pr =>
        simp only [hp, hrows ts0 (List.mem_cons_self ..), Bool.false_eq_true, if_false]
        have hn := core_split_none cfg bars (fun t ht => hrows t (List.mem_cons_of_mem _ ht))
        cases hs : splitAtStrictFail cfg bars with
        | mk good o =>
          rw [hs] at hn
          simp only at hn
          subst hn
          rfl

/-- a configuration without strict markets (option markets, the probe markets of the harness): nothing to guard -/
theorem C05_strict_run_is_runG_without_strict_markets (cfg : Cfg) (trigs : List Trig) (g : GScript)
    (h : ∀ mc ∈ cfg.markets, mc.strict = false) : runStrict cfg trigs g = runG cfg trigs g := by
  refine C05_strict_run_is_runG_when_rows_exist cfg trigs g (fun ts _ => ?_)
  unfold strictFails
  rw [List.any_eq_false]
  intro mc hmc
  simp [h mc hmc]

/-- **C05 — without the guard the run raises.**  If on some bar of the run a strict market has no row, `run()` does not return normally: it
    ends in an exception (the `KeyError` of that market's `set_market_status`, unless something else ended the run on an earlier bar), and the
    account history has rows only for bars before that one. -/
theorem C05_strict_market_without_row_ends_the_run (cfg : Cfg) (trigs : List Trig) (g : GScript)
    (hbad : ∃ ts ∈ barIndex cfg, strictFails cfg ts = true) : (runStrict cfg trigs g).err ≠ none := by
  unfold runStrict
  cases hcb : checkBacktest cfg with
  | some e => simp
  | none =>
    cases hb : barIndex cfg with
    | nil => simp
    | cons ts0 bars =>
      rw [hb] at hbad
      simp only []
      cases priceAt cfg ts0 with
      | none => simp
      | some p =>
        simp only []
        cases h0 : strictFails cfg ts0 with
        | true => simp
        | false =>
          simp only [Bool.false_eq_true, if_false]
          obtain ⟨t, ht, htf⟩ := hbad
          have ht' : t ∈ bars := by
            rcases List.mem_cons.mp ht with rfl | h'
            · rw [h0] at htf; cases htf
            · exact h'
          obtain ⟨bad, b1, _⟩ := core_split_some cfg bars ⟨t, ht', htf⟩
          cases hs : splitAtStrictFail cfg bars with
          | mk good o =>
            rw [hs] at b1
            simp only at b1
            subst b1
            simp only []
            cases (runCore cfg trigs g ts0 good).1.2.2 with
            | some e => simp
            | none =>
              simp only []
              cases priceAt cfg bad <;> simp

/-- a refresh that a strict market stopped touched exactly the markets registered before it -/
theorem C05_strict_refresh_stops_at_the_failing_market (cfg : Cfg) (ts : Int) (stage : Nat) : ∀ (i : Nat) (ms : List MarketCfg),
    (setAllStrictFrom cfg ts stage i ms).2 = false → (setAllStrictFrom cfg ts stage i ms).1 = (setAllFrom cfg ts stage i ms).1
  | _, [], _ => rfl
  | i, mc :: rest, h => by
    unfold setAllStrictFrom at h ⊢
    split at h
    · cases h
    · rename_i hc
      simp only [hc, Bool.false_eq_true, if_false, setAllFrom]
      rw [C05_strict_refresh_stops_at_the_failing_market cfg ts stage (i + 1) rest h]

/-! ### the totalisation, exposed; non-vacuity -/

/-- the two markets of `Core.exCfg` with the hourly one (rows at 09:00 only) of a strict class -/
def Core.exCfgStrict : Cfg :=
  { Core.exCfg with markets := [{ idx := [32280, 32340, 32400, 32460], openCb := true }, { idx := [32400], openCb := false, strict := true }] }

/-- **witness**: with an hourly market of a strict class next to a minutely one, the code raises `KeyError` from the very first refresh (08:58 has
    no hourly row) after refreshing the first market — while the loop that treats the market as closed runs all four bars -/
theorem C05_fails_strict_market_is_not_merely_closed :
    (runStrict Core.exCfgStrict Core.exTrigs Core.exG).err = some .keyError ∧
    (runStrict Core.exCfgStrict Core.exTrigs Core.exG).trace = [.set 32280 0 0 true (some 32280), .raised .keyError] ∧
    (runG Core.exCfgStrict Core.exTrigs Core.exG).err = none ∧
    (runG Core.exCfgStrict Core.exTrigs Core.exG).rows.length = 4 := by decide

/-- non-vacuity of the guard: the minutely market strict, the hourly one tolerant — every bar has its row, the run is the run of `runG` -/
example : (∀ ts ∈ barIndex { Core.exCfg with markets := [{ idx := [32280, 32340, 32400, 32460], openCb := true, strict := true }, { idx := [32400], openCb := false }] },
    strictFails { Core.exCfg with markets := [{ idx := [32280, 32340, 32400, 32460], openCb := true, strict := true }, { idx := [32400], openCb := false }] } ts = false) := by
  decide

/-- a strict market that loses its row on a later bar (09:00 missing): two account rows, then `KeyError` -/
example : (runStrict { Core.exCfg with markets := [{ idx := [32280, 32340, 32400, 32460], openCb := true }, { idx := [32280, 32340, 32460], openCb := false, strict := true }] }
      Core.exTrigs Core.exG).err = some .keyError ∧
    (runStrict { Core.exCfg with markets := [{ idx := [32280, 32340, 32400, 32460], openCb := true }, { idx := [32280, 32340, 32460], openCb := false, strict := true }] }
      Core.exTrigs Core.exG).rows.map (·.1) = [32280, 32340] := by decide

end Demeter
