/-
  C02 (rerun clause), closing the loop of Proofs/C02/Rerun2.lean: the "same strategy object at a later time" is COMPUTED from the first run
  (`strategyAfterRun2`: `initialize()` appends the same trigger objects in the state the first run left them in; `trigsAfterRun2`: the list
  handed back) and the second run `rerun2` is proved to show what the first showed — no `SameInit` hypothesis left.
-/
import Proofs.C02.Rerun2
namespace Demeter
open Core

namespace Core

/-- the trigger objects `initialize()` appends -/
def initTadds : List HStmt → List Trig
  | [] => []
  | .tadd t :: l => t :: initTadds l
  | _ :: l => initTadds l

theorem mem_initTadds {t : Trig} : ∀ {l : List HStmt}, HStmt.tadd t ∈ l → t ∈ initTadds l
  | [], h => by cases h
  | s :: l, h => by
    rcases List.mem_cons.mp h with rfl | h'
    · simp [initTadds]
    · have := mem_initTadds h'
      cases s <;> simp [initTadds, this]

/-- a statement of `initialize()`: it appends one of the strategy's own objects (`T`) or, for the invariant, anything that is not one of them -/
def HStmt.own (T : List Trig) : HStmt → Prop
  | .tadd t => t ∈ T
  | _ => True

theorem tinv_of_subset (T l : List Trig) (hn : (T.map (·.id)).Nodup) (hsub : ∀ t ∈ l, t ∈ T) : TInv T l := by
  intro t' ht' t ht hid
  have := rerun_nodup_inj (·.id) T hn t' (hsub t' ht') t ht hid
  subst this
  exact ⟨rfl, rfl, rfl⟩

theorem doStmt_tinv_own (T : List Trig) (hn : (T.map (·.id)).Nodup) (ts : Int) (h : Hook) (s : HStmt) (hs : s.own T) :
    Pres (fun st => TInv T st.trigs) (doStmt ts h s) := by
  intro st hinv
  cases s with
  | op o => show TInv T (doOp ts h o st).2.trigs; rw [doOp_trigs]; exact hinv
  | tadd t =>
    intro t' ht' t0 ht0 hid
    rcases List.mem_append.mp ht' with h1 | h1
    · exact hinv t' h1 t0 ht0 hid
    · rw [List.mem_singleton.mp h1] at hid ⊢
      have := rerun_nodup_inj (·.id) T hn t hs t0 ht0 hid
      subst this
      exact ⟨rfl, rfl, rfl⟩
  | tdel id => exact fun t' ht' => hinv t' (eraseId_sub id _ t' ht')
  | boom e => exact hinv

theorem runStmts_tinv_own (T : List Trig) (hn : (T.map (·.id)).Nodup) (ts : Int) (h : Hook) : ∀ (body : List HStmt), (∀ s ∈ body, s.own T) →
    Pres (fun st => TInv T st.trigs) (runStmts ts h body)
  | [], _ => fun _ h => h
  | s :: ss, hb => fun st hinv => by
    simp only [runStmts]
    exact Pres.andThen (doStmt_tinv_own T hn ts h s (hb s (List.mem_cons_self ..)) st hinv)
      (runStmts_tinv_own T hn ts h ss (fun x hx => hb x (List.mem_cons_of_mem _ hx)))

/-- all trigger objects of the strategy — the installed ones and the ones `initialize()` appends — along a run: whatever is installed under the
    id of one of them is that object -/
theorem runG2_tinv_own (cfg : Cfg) (trigs : List Trig) (g : GScript) (hn : ((trigs ++ initTadds g.init).map (·.id)).Nodup)
    (hbar : ∀ row, (g.bar row).Fresh ((trigs ++ initTadds g.init).map (·.id))) :
    TInv (trigs ++ initTadds g.init) (runG2 cfg trigs g).trigsLeft := by
  have h0 : TInv (trigs ++ initTadds g.init) trigs := tinv_of_subset _ _ hn (fun t ht => List.mem_append_left _ ht)
  have hown : ∀ s ∈ g.init, s.own (trigs ++ initTadds g.init) := by
    intro s hs
    cases s with
    | tadd t => exact List.mem_append_right _ (mem_initTadds hs)
    | _ => trivial
  have hfresh : ({ g with init := [] } : GScript).Fresh ((trigs ++ initTadds g.init).map (·.id)) :=
    ⟨(by intro s hs; cases hs), hbar⟩
  unfold runG2
  cases checkBacktest cfg with
  | some e => exact h0
  | none =>
    dsimp only
    cases barIndex cfg with
    | nil => exact h0
    | cons ts0 bars =>
      dsimp only
      cases priceAt cfg ts0 with
      | none => exact h0
      | some pr =>
        dsimp only
        have hi0 : TInv (trigs ++ initTadds g.init) (initG cfg trigs g ts0).2.1.trigs := by
          unfold initG
          exact Pres.andThen (P := fun st => TInv (trigs ++ initTadds g.init) st.trigs) (r := Res.ok _ _) h0
            (runStmts_tinv_own _ hn ts0 .init g.init hown)
        have hi : TInv (trigs ++ initTadds g.init) (initG2 cfg trigs g ts0).2.1.trigs := by
          unfold initG2
          simp only [C02_source_saves_trigger_list_by_copy.2.1, C02_source_saves_trigger_list_by_copy.2.2, if_true, Bool.false_eq_true, if_false]
          split
          · exact hi0
          · exact tinv_map_reset _ _ hi0
        have hc : TInv (trigs ++ initTadds g.init) (runCore2 cfg trigs g ts0 bars).1.2.1.trigs := by
          unfold runCore2
          simp only []
          split
          · exact hi
          · rw [← runBarsG_congr cfg { g with init := [] } g rfl rfl rfl]
            exact Pres.andThen (P := fun st => TInv (trigs ++ initTadds g.init) st.trigs) hi
              (runBarsG_tinv _ cfg { g with init := [] } hfresh (ts0 :: bars) 0)
        split <;> exact hc

theorem sameBody_leftover (T live : List Trig) (hinv : TInv T live) : ∀ (body : List HStmt), (∀ t ∈ initTadds body, t ∈ T) →
    SameBody (body.map (leftoverStmt live)) body
  | [], _ => trivial
  | s :: l, h => by
    simp only [List.map_cons, SameBody]
    refine ⟨?_, sameBody_leftover T live hinv l (fun t ht => h t (by cases s <;> simp [initTadds, ht]))⟩
    cases s with
    | tadd t =>
      simp only [leftoverStmt, SameStmt]
      cases hf : live.find? (fun t' => t'.id == t.id) with
      | none => rfl
      | some t' =>
        have hid : t'.id = t.id := by simpa using List.find?_some hf
        obtain ⟨a, b, c⟩ := hinv t' (List.mem_of_find?_eq_some hf) t (h t (by simp [initTadds])) hid
        simp only [Option.getD_some]
        cases t'; cases t
        simp only [Trig.reset, Trig.mk.injEq] at a b c ⊢
        exact ⟨a, b, c⟩
    | op o => simp [leftoverStmt, SameStmt]
    | tdel i => simp [leftoverStmt, SameStmt]
    | boom e => simp [leftoverStmt, SameStmt]

end Core

/-- **C02 — the second run of the same strategy object reproduces the first.**  The strategy owns its trigger objects (`trigs`: in
    `strategy.triggers` when `run` is called; the `tadd`s of `g.init`: appended by `initialize()` on every run) — distinct objects (`hn`) — and
    whatever its other hooks install is new (`hbar`).  After `Actuator.run` — however it ended — the second run (`rerun2`: the list `run` handed
    back, `initialize()` appending the same objects in the state the first run left them in, fresh Actuator) shows the same calls, account rows,
    actions and outcome; and hands back the same list again. -/
theorem C02_rerun2 (cfg : Cfg) (trigs : List Trig) (g : GScript) (hn : ((trigs ++ initTadds g.init).map (·.id)).Nodup)
    (hbar : ∀ row, (g.bar row).Fresh ((trigs ++ initTadds g.init).map (·.id))) :
    (rerun2 cfg trigs g).obs = (runG2 cfg trigs g).obs ∧
    (trigsAfterRun2 cfg trigs g).map Trig.reset = trigs.map Trig.reset := by
  have hinv := Core.runG2_tinv_own cfg trigs g hn hbar
  have hsame : SameInit (strategyAfterRun2 cfg trigs g) g :=
    ⟨Core.sameBody_leftover _ _ hinv g.init (fun t ht => List.mem_append_right _ ht), rfl, rfl, rfl⟩
  have hback : (trigsAfterRun2 cfg trigs g).map Trig.reset = trigs.map Trig.reset := by
    unfold trigsAfterRun2 trigsAfterRun2Copy handBack2
    simp only [C02_source_saves_trigger_list_by_copy.1, C02_source_saves_trigger_list_by_copy.2.1, if_true, Bool.true_or]
    have hsub : TInv trigs (runG2 cfg trigs g).trigsLeft := fun t' ht' t ht hid => hinv t' ht' t (List.mem_append_left _ ht) hid
    rw [handBack_reset_of_tinv _ _ (tinv_of_reset _ _ hsub), rerun_map_reset_idem]
  exact ⟨(C02_rerun2_any_leftover_state cfg _ trigs _ g hback hsame).1, hback⟩

/-! ### non-vacuity: `Core.rr2G` of Rerun2.lean (a caller-installed period trigger, `initialize()` appends a period trigger and trades) -/

example : ((Core.rr2Trigs ++ Core.initTadds Core.rr2G.init).map (·.id)).Nodup := by decide

example : Core.initTadds (strategyAfterRun2 Core.aliasCfg Core.rr2Trigs Core.rr2G).init = [⟨7, "late", .period 60 false 0 (some 180)⟩] := by decide

example : (rerun2 Core.aliasCfg Core.rr2Trigs Core.rr2G).trace.filterMap fireOfEv =
    [⟨0, 0, ""⟩, ⟨60, 7, "late"⟩, ⟨120, 0, ""⟩, ⟨120, 7, "late"⟩] := by decide

example : (rerun2 Core.aliasCfg Core.rr2Trigs Core.rr2G).obs = (runG2 Core.aliasCfg Core.rr2Trigs Core.rr2G).obs :=
  (C02_rerun2 Core.aliasCfg Core.rr2Trigs Core.rr2G (by decide) (fun _ => by
    refine ⟨?_, fun _ => ?_, fun _ => ?_, ?_, ?_, fun _ => ?_⟩ <;> (intro s hs; cases hs))).1

/-- the older order (reset on entry only) would leave object 7 silent in the second run -/
example : (rerun2ResetBeforeInit Core.aliasCfg Core.rr2Trigs Core.rr2G).trace.filterMap fireOfEv = [⟨0, 0, ""⟩, ⟨120, 0, ""⟩] := by decide

/-! ### the older model (reset when `run` is entered) as a corollary -/

namespace Core

/-- a statement that does not touch `strategy.triggers` -/
def HStmt.noTrig : HStmt → Prop
  | .tadd _ => False
  | .tdel _ => False
  | _ => True

theorem sameStmt_refl : ∀ s : HStmt, SameStmt s s
  | .op _ => rfl
  | .tadd _ => rfl
  | .tdel _ => rfl
  | .boom _ => rfl

theorem sameBody_refl : ∀ b : List HStmt, SameBody b b
  | [] => trivial
  | s :: b => ⟨sameStmt_refl s, sameBody_refl b⟩

theorem runStmts_noTrig (X : List Trig) (ts : Int) (h : Hook) : ∀ (body : List HStmt), (∀ s ∈ body, s.noTrig) →
    Pres (fun st => st.trigs = X) (runStmts ts h body)
  | [], _ => fun _ h => h
  | s :: ss, hb => fun st hinv => by
    simp only [runStmts]
    refine Pres.andThen (P := fun st => st.trigs = X) ?_ (runStmts_noTrig X ts h ss (fun x hx => hb x (List.mem_cons_of_mem _ hx)))
    have hs := hb s (List.mem_cons_self ..)
    cases s with
    | op o => show (doOp ts h o st).2.trigs = X; rw [doOp_trigs]; exact hinv
    | tadd t => exact absurd hs (by simp [HStmt.noTrig])
    | tdel i => exact absurd hs (by simp [HStmt.noTrig])
    | boom e => exact hinv

end Core

/-- **the older model as a corollary.**  When `initialize()` does not touch `strategy.triggers` (it trades, or raises), resetting the triggers
    after it is resetting them before it: `runG2` shows what `actuatorRunG` (Demeter/Actuator/Hooks.lean: reset when `run` is entered) shows —
    so every theorem about `actuatorRunG` / `actuatorRun` (C05, C18, Proofs/C02/Rerun.lean) is a theorem about the code's order for such
    strategies. -/
theorem C02_run2_is_reset_on_entry_when_initialize_installs_nothing (cfg : Cfg) (trigs : List Trig) (g : GScript)
    (h : ∀ s ∈ g.init, s.noTrig) : (runG2 cfg trigs g).obs = (actuatorRunG cfg trigs g).obs := by
  have hs : startTrigs trigs = trigs.map Trig.reset := by
    unfold startTrigs; rw [C02_source_saves_trigger_list_by_copy.2.1]; rfl
  unfold actuatorRunG
  rw [hs]
  unfold runG2 runG RunResult.obs
  cases checkBacktest cfg with
  | some e => rfl
  | none =>
    dsimp only
    cases barIndex cfg with
    | nil => rfl
    | cons ts0 bars =>
      dsimp only
      cases priceAt cfg ts0 with
      | none => rfl
      | some pr =>
        dsimp only
        obtain ⟨h1, h2, h3⟩ := initG_same cfg (trigs.map Trig.reset) trigs g g ts0 (rerun_map_reset_idem trigs) (sameBody_refl _)
        unfold runCore2 runCore
        cases hr : (initG cfg trigs g ts0).2.2 with
        | some e =>
          have hr' : (initG cfg (trigs.map Trig.reset) g ts0).2.2 = some e := by rw [h3, hr]
          obtain ⟨q1, q2, q3, q4, q5⟩ := (resetTrigs_eq_iff _ _).mp h2
          rw [Core.initG2_err hr]
          simp only [hr, hr', h1, q3, q4, Bool.false_eq_true, if_false]
        | none =>
          have hr' : (initG cfg (trigs.map Trig.reset) g ts0).2.2 = none := by rw [h3, hr]
          have htr : (initG cfg (trigs.map Trig.reset) g ts0).2.1.trigs = trigs.map Trig.reset := by
            unfold initG
            exact Pres.andThen (P := fun st => st.trigs = trigs.map Trig.reset) (r := Res.ok _ _) rfl (runStmts_noTrig _ ts0 .init g.init h)
          have hfix : resetTrigs (initG cfg (trigs.map Trig.reset) g ts0).2.1 = (initG cfg (trigs.map Trig.reset) g ts0).2.1 := by
            generalize (initG cfg (trigs.map Trig.reset) g ts0).2.1 = q at htr
            cases q
            simp only [resetTrigs] at htr ⊢
            rw [htr, rerun_map_reset_idem]
          have heq : initG2 cfg trigs g ts0 = initG cfg (trigs.map Trig.reset) g ts0 := by
            rw [Core.initG2_ok hr, ← h1, ← h2, hfix, ← hr']
          rw [heq]
          rfl

/-- non-vacuity: a strategy whose `initialize()` trades and whose caller installed a period trigger -/
def Core.oldG : GScript := { Core.aliasG with init := [.op ⟨0, true, "x", true⟩] }

example : (runG2 Core.aliasCfg Core.rr2Trigs Core.oldG).obs = (actuatorRunG Core.aliasCfg Core.rr2Trigs Core.oldG).obs :=
  C02_run2_is_reset_on_entry_when_initialize_installs_nothing _ _ _ (by
    intro s hs
    simp only [Core.oldG, List.mem_cons, List.not_mem_nil, or_false] at hs
    subst hs
    trivial)

example : (runG2 Core.aliasCfg Core.rr2Trigs Core.oldG).trace.filterMap fireOfEv = [⟨0, 0, ""⟩, ⟨120, 0, ""⟩] := by decide

end Demeter
