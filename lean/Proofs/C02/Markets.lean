/-
  C02 — the two halves composed (review finding E-6): the loop of Demeter/Actuator/CausalMarkets.lean — the oSQTH/WETH `UniLpMarket` and the
  `SqueethMarket`, stepped by their own model functions (`Uni.setStatus`, `Uni.step`, `Uni.update`, `Squeeth.step`), reading the supplied
  history only through the concrete view (row of bar k, Uniswap's shifted `price` column, Squeeth's TWAP window), driven by a closed-loop
  strategy (`Hooks`: the operations of bar k are a function of the bar number, the view of bar k and the strategy's own state) — has no
  look-ahead: `Local` is PROVED for its view, `C02_prefix` applies, for every strategy, every kernel, every starting state.

  Also: `Squeeth.window` — the model of `get_twap_price`'s `self.data[start:now]` on the WHOLE supplied frame, future rows included — selects
  exactly the rows of the view's TWAP window (`C02_squeeth_window_of_whole_frame_is_the_view`), for a frame in time order.
-/
import Demeter.Actuator.CausalMarkets
import Proofs.C02
import Proofs.Lemmas.Exact
namespace Demeter
open Core

/-- the view of the pair loop reads rows 0..k only -/
theorem C02_pair_market_view_local : pairMarketView.Local :=
  C02_pair_view_local _ _ (C02_pair_view_local _ _ C02_row_view_local (C02_shift_view_local _ _)) (C02_twap_view_local _)

/-- **C02 for the Uniswap + Squeeth pair, closed-loop strategies.**  Any kernel / pool / TWAP oracle `c`, any strategy `hooks` (it sees the bar
    number, the view of the bar and its own state), any starting state: two histories that share their first `pre.length` minutes give the same
    market states, wallets, vaults, positions and action logs after each of those bars — whatever comes later. -/
theorem C02_pair_markets_prefix (c : PairCfg) (hooks : Hooks) (pre suf₁ suf₂ : List PairRow) (s0 : PairSt) :
    ((pairLoop c hooks).run (pre ++ suf₁) s0).take pre.length = ((pairLoop c hooks).run (pre ++ suf₂) s0).take pre.length :=
  C02_prefix (pairLoop c hooks) C02_pair_market_view_local pre suf₁ suf₂ s0

theorem C02_pair_markets_prefix_each_bar (c : PairCfg) (hooks : Hooks) (pre suf₁ suf₂ : List PairRow) (s0 : PairSt) (k : Nat)
    (hk : k < pre.length) : ((pairLoop c hooks).run (pre ++ suf₁) s0)[k]? = ((pairLoop c hooks).run (pre ++ suf₂) s0)[k]? :=
  C02_prefix_each_bar (pairLoop c hooks) C02_pair_market_view_local pre suf₁ suf₂ s0 k hk

/-- what `SqueethMarket` reads during bar k (`Squeeth.Env`: the row's numbers, `now`, the rows its TWAP looks at, the pool's price) and the
    pool's `market_status.data` are functions of the view, hence of rows 0..k -/
theorem C02_pair_markets_env_prefix (h₁ h₂ : List PairRow) (k : Nat) (he : h₁.take (k + 1) = h₂.take (k + 1)) :
    pairMarketView h₁ k = pairMarketView h₂ k := C02_pair_market_view_local h₁ h₂ k he

/-! ### `get_twap_price` on the whole frame selects the rows of the view -/

namespace Core

theorem pair_head_le : ∀ (l : List PairRow) (a : PairRow), l.Pairwise (fun a b => a.t < b.t) → l.head? = some a → ∀ x ∈ l, a.t ≤ x.t
  | [], _, _, h, _, _ => by cases h
  | b :: l, a, hs, h, x, hx => by
    simp only [List.head?_cons, Option.some.injEq] at h
    subst h
    rcases List.mem_cons.mp hx with rfl | hx'
    · exact le_refl _
    · exact le_of_lt ((List.pairwise_cons.mp hs).1 x hx')

/-- in a frame in time order the rows up to bar k are the rows stamped at most like bar k -/
theorem pair_take_eq_filter : ∀ (h : List PairRow) (k : Nat) (r : PairRow), h.Pairwise (fun a b => a.t < b.t) → h[k]? = some r →
    h.take (k + 1) = h.filter (fun x => decide (x.t ≤ r.t))
  | [], _, _, _, hk => by simp at hk
  | a :: l, 0, r, hs, hk => by
    simp only [List.getElem?_cons_zero, Option.some.injEq] at hk
    subst hk
    have hl : l.filter (fun x => decide (x.t ≤ a.t)) = [] := by
      apply List.filter_eq_nil_iff.mpr
      intro x hx
      have := (List.pairwise_cons.mp hs).1 x hx
      simp only [decide_eq_true_eq]; omega
    simp [hl]
  | a :: l, j + 1, r, hs, hk => by
    simp only [List.getElem?_cons_succ] at hk
    have hr : r ∈ l := List.mem_of_getElem? hk
    have hlt := (List.pairwise_cons.mp hs).1 r hr
    have ih := pair_take_eq_filter l j r (List.pairwise_cons.mp hs).2 hk
    have ha : decide (a.t ≤ r.t) = true := by simp only [decide_eq_true_eq]; omega
    rw [List.take_succ_cons, ih, List.filter_cons, ha]
    rfl

/-- `Squeeth.window` on a frame in time order: the rows stamped within the last `TWAP_PERIOD − 1 = 6` minutes up to `now` -/
theorem window_sorted (e : Squeeth.Env) (l : List PairRow) (hs : l.Pairwise (fun a b => a.t < b.t)) (now : Int) :
    Squeeth.window { e with rows := l.map sqRowOf } now = (l.filter (fun x => decide (now - 6 ≤ x.t) && decide (x.t ≤ now))).map sqRowOf := by
  unfold Squeeth.window
  rw [List.filter_map]
  congr 1
  apply List.filter_congr
  intro x hx
  simp only [Function.comp]
  congr 1
  rw [decide_eq_decide]
  have hxt : (sqRowOf x).t = x.t := rfl
  rw [hxt]
  unfold Squeeth.winStart
  simp only [List.head?_map]
  have h6 : now - ((Gen.sqTwapPeriod : Int) - (Gen.sqTwapBack : Int)) = now - 6 := by simp [Gen.sqTwapPeriod, Gen.sqTwapBack]
  cases hh : l.head? with
  | none => simp only [Option.map_none]; rw [h6]
  | some a =>
    have hle := pair_head_le l a hs hh x hx
    have hat : (sqRowOf a).t = a.t := rfl
    simp only [Option.map_some]
    rw [h6, hat]
    split <;> constructor <;> intro _ <;> omega

end Core

/-- **the TWAP window of the code's model is the view's window.**  For a supplied frame in time order (`h`, future rows included) and bar `k`
    (row `r`): `Squeeth.window` — `self.data[start:now]` with `start = now − (TWAP_PERIOD − 1) min` clamped to the first row — evaluated on the WHOLE
    frame selects exactly the rows `twapView` hands the loop (`7 = Gen.sqTwapPeriod = Gen.coreTwapPeriodMin`); and evaluated on the view's rows —
    what `pairStep` puts into `Squeeth.Env.rows` — it selects all of them.  So `SqueethMarket.get_twap_price` in `pairStep` computes what the code
    computes on the whole frame, from rows 0..k alone. -/
theorem C02_squeeth_window_of_whole_frame_is_the_view (h : List PairRow) (k : Nat) (r : PairRow) (hk : h[k]? = some r)
    (hs : h.Pairwise (fun a b => a.t < b.t)) (e : Squeeth.Env) :
    Gen.sqTwapPeriod = 7 ∧ Gen.coreTwapPeriodMin = 7 ∧
    Squeeth.window { e with rows := h.map sqRowOf } r.t = (twapView (fun x => x.t * 60) h k).map sqRowOf ∧
    Squeeth.window { e with rows := (twapView (fun x => x.t * 60) h k).map sqRowOf } r.t = (twapView (fun x => x.t * 60) h k).map sqRowOf := by
  have hview : twapView (fun x => x.t * 60) h k = h.filter (fun x => decide (r.t - 6 ≤ x.t) && decide (x.t ≤ r.t)) := by
    simp only [twapView, hk, pair_take_eq_filter h k r hs hk, List.filter_filter, Gen.coreTwapPeriodMin]
    apply List.filter_congr
    intro x _
    rw [Bool.eq_iff_iff]
    simp only [Bool.and_eq_true, decide_eq_true_eq]
    constructor
    · rintro ⟨h1, h2⟩
      have h3 := of_decide_eq_true h1
      exact ⟨by omega, h2⟩
    · rintro ⟨h1, h2⟩
      exact ⟨decide_eq_true (by omega), h2⟩
  refine ⟨rfl, rfl, ?_, ?_⟩
  · rw [window_sorted e h hs r.t, hview]
  · have hsub : (twapView (fun x => x.t * 60) h k).Pairwise (fun a b => a.t < b.t) := by
      rw [hview]; exact hs.sublist List.filter_sublist
    rw [window_sorted e _ hsub r.t]
    congr 1
    rw [hview, List.filter_filter]
    apply List.filter_congr
    intro x _
    rw [Bool.eq_iff_iff]
    simp only [Bool.and_eq_true, decide_eq_true_eq]
    constructor <;> rintro ⟨h1, h2⟩ <;> constructor <;> omega

/-! ### non-vacuity: a closed-loop strategy on a concrete history -/

def Core.exPool : Uni.Pool := { tok0 := "WETH", tok1 := "oSQTH", d0 := 18, d1 := 18, feeRate := 3 / 1000, spacing := 60, q0 := true, decFac := 1 }
def Core.exPC : PairCfg :=
  { K := Uni.Kern.std NumCtx.exact (fun x => x), pool := Core.exPool, minError := 0, priceOf := fun t => (t : Rat) / 100000,
    mean := fun l => l.sum / l.length }
/-- opens a vault with 1 WETH on the first bar whose close tick is even, if it has none yet: reads the bar's row AND its own state -/
def Core.exHooks : Hooks := fun _ v st =>
  match v.1.1 with
  | some r => if r.closeTick % 2 = 0 ∧ st.sq.vaults.length < 1 then [.sq (.openMint 1 0 none none)] else []
  | none => []
def Core.exU0 : Uni.State :=
  { positions := [], lastTick := none, row := none, ts := none, isOpen := false, hasUpdate := false, wallet := [("WETH", 10), ("oSQTH", 0)],
    allowNeg := false, actions := [] }
def Core.exS0 : PairSt := { uni := Core.exU0, sq := { wallet := [("WETH", 10), ("oSQTH", 0)], vaults := [], maxId := 0, positions := [], log := [] } }
def Core.exRow (t : Int) (o cl : Int) (w : Rat) : PairRow := ⟨t, o, cl, 1000, 5, 7, 3 / 10, w, 1 / 10⟩
def Core.exPre : List PairRow := [Core.exRow 0 23001 23003 1800, Core.exRow 1 23003 23004 1810]
def Core.exSuf₁ : List PairRow := [Core.exRow 2 23004 23001 1790]
def Core.exSuf₂ : List PairRow := [Core.exRow 2 23004 23010 1500, Core.exRow 3 23010 23020 1400]

/-- what a bar shows of the state: the pool's `last_tick`, close tick and `price`, the number of vaults, the WETH balance -/
def Core.PairSt.show (s : PairSt) : Option Int × Option Int × Option Rat × Nat × Option Rat :=
  (s.uni.lastTick, s.uni.row.map (·.closeTick), s.uni.row.map (·.price), s.sq.vaults.length, AList.get? s.sq.wallet "WETH")

/-- the loop does something: bar 0 is priced from its own open tick, bar 1 from the close of bar 0 (the shifted column), the strategy opens its
    vault on bar 1 (close tick 23004 is even) and 1 WETH leaves the wallet -/
example : ((pairLoop Core.exPC Core.exHooks).run (Core.exPre ++ Core.exSuf₁) Core.exS0).map Core.PairSt.show =
    [(none, some 23003, some (23001 / 100000), 0, some 10), (some 23003, some 23004, some (23003 / 100000), 1, some 9),
     (some 23004, some 23001, some (23004 / 100000), 1, some 9)] := by
  decide +kernel

/-- … and the first two bars do not depend on what follows (an instance of the theorem) -/
example : ((pairLoop Core.exPC Core.exHooks).run (Core.exPre ++ Core.exSuf₁) Core.exS0).take 2 =
    ((pairLoop Core.exPC Core.exHooks).run (Core.exPre ++ Core.exSuf₂) Core.exS0).take 2 :=
  C02_pair_markets_prefix Core.exPC Core.exHooks Core.exPre Core.exSuf₁ Core.exSuf₂ Core.exS0

/-- … while bar 2, where the histories differ, does -/
example : ((pairLoop Core.exPC Core.exHooks).run (Core.exPre ++ Core.exSuf₂) Core.exS0).map Core.PairSt.show =
    [(none, some 23003, some (23001 / 100000), 0, some 10), (some 23003, some 23004, some (23003 / 100000), 1, some 9),
     (some 23004, some 23010, some (23004 / 100000), 1, some 9), (some 23010, some 23020, some (23010 / 100000), 1, some 9)] := by
  decide +kernel

/-- nine minutes of data: at bar 7 the window is minutes 1..7 — minute 0 is too old, minute 8 is the future — also when the code's model is
    handed the whole frame -/
def Core.exLong : List PairRow := (List.range 9).map (fun (i : Nat) => Core.exRow (i : Int) 23000 23000 1800)

example : (twapView (fun x => x.t * 60) Core.exLong 7).map (·.t) = [1, 2, 3, 4, 5, 6, 7] := by decide

theorem Core.exLong_sorted : Core.exLong.Pairwise (fun a b => a.t < b.t) := by
  have h : (List.range 9).Pairwise (· < ·) := List.pairwise_lt_range
  exact List.pairwise_map.mpr (h.imp (by intro a b hab; show (a : Int) < (b : Int); exact_mod_cast hab))

example (e : Squeeth.Env) : Squeeth.window { e with rows := Core.exLong.map sqRowOf } 7 = (twapView (fun x => x.t * 60) Core.exLong 7).map sqRowOf :=
  (C02_squeeth_window_of_whole_frame_is_the_view Core.exLong 7 (Core.exRow 7 23000 23000 1800) rfl Core.exLong_sorted e).2.2.1

end Demeter
