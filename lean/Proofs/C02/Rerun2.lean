/-
  C02 (rerun clause) for `Actuator.run` in the order the code has (review finding E-7): `initialize()` FIRST, then `reset()` of whatever is
  installed; the list handed back is the COPY taken before `_run`.  Model: Demeter/Actuator/Rerun.lean (`runG2`, `trigsAfterRun2`).

    * `C02_rerun2_any_leftover_state` — the run does not depend on the state the strategy's trigger objects are in, neither the ones the caller
      installed nor the ones `initialize()` installs (the same objects on every run: fix 7afdd12);
    * `C02_rerun2_same_strategy_object` — after any run (hooks that trade, install new triggers, remove triggers, raise), running the same strategy
      object again gives the same calls, account rows, actions and outcome, and leaves the trigger list in the same state again;
    * `C02_alias_variant_breaks_rerun` — with `triggers_before_run = self._strategy.triggers` (a reference; generated flag
      `coreRunSavesTriggerListByCopy` false; seeded C02-m7 / C05-m12) the theorem is FALSE: kernel-checked on a strategy whose `initialize()`
      installs one at-time trigger: the second run calls its action twice;
    * `C02_source_saves_trigger_list_by_copy` — the source has the copy (the rerun theorem is stated for `trigsAfterRun2`, which follows the
      flag: with the reference in the source this file does not build).
-/
import Demeter.Actuator.Rerun
import Proofs.Lemmas.CoreHooks6
namespace Demeter
open Core

namespace Core

theorem resetTrigs_eq_iff (a b : St) : resetTrigs a = resetTrigs b ↔
    a.ms = b.ms ∧ a.cur = b.cur ∧ a.all = b.all ∧ a.rows = b.rows ∧ a.trigs.map Trig.reset = b.trigs.map Trig.reset := by
  cases a; cases b
  simp only [resetTrigs, St.mk.injEq]
  constructor
  · rintro ⟨h1, h2, h3, h4, h5⟩; exact ⟨h1, h3, h4, h5, h2⟩
  · rintro ⟨h1, h2, h3, h4, h5⟩; exact ⟨h1, h5, h2, h3, h4⟩

theorem resetTrigs_idem (a : St) : resetTrigs (resetTrigs a) = resetTrigs a := by
  rw [resetTrigs_eq_iff]
  exact ⟨rfl, rfl, rfl, rfl, rerun_map_reset_idem _⟩

/-- an operation neither reads nor writes the triggers -/
theorem doOp_resetTrigs (ts : Int) (h : Hook) (o : OpSpec) (st : St) :
    doOp ts h o (resetTrigs st) = ((doOp ts h o st).1, resetTrigs (doOp ts h o st).2) := by
  have e : resetTrigs st = { st with trigs := st.trigs.map Trig.reset, rows := st.rows } := rfl
  rw [e, doOp_with]
  have f1 : (doOp ts h o st).2.rows = st.rows := (doOp_frame ts h o st).1
  have f2 : (doOp ts h o st).2.trigs = st.trigs := (doOp_frame ts h o st).2.1
  congr 1
  generalize (doOp ts h o st).2 = q at f1 f2
  cases q
  simp only [resetTrigs] at f1 f2 ⊢
  rw [f1, f2]

theorem eraseId_map_reset (id : Nat) : ∀ l : List Trig, (eraseId id l).map Trig.reset = eraseId id (l.map Trig.reset)
  | [] => rfl
  | t :: l => by
    have ht : t.reset.id = t.id := rfl
    simp only [eraseId, List.map_cons, ht]
    split
    · rfl
    · simp only [List.map_cons, eraseId_map_reset id l]

/-- two results that a next `reset()` makes equal -/
def ResR (r' r : Res) : Prop := r'.1 = r.1 ∧ resetTrigs r'.2.1 = resetTrigs r.2.1 ∧ r'.2.2 = r.2.2

theorem doStmt_same (ts : Int) (h : Hook) (s' s : HStmt) (hs : SameStmt s' s) (st' st : St) (hst : resetTrigs st' = resetTrigs st) :
    ResR (doStmt ts h s' st') (doStmt ts h s st) := by
  cases s' <;> cases s <;> simp only [SameStmt] at hs
  case op.op o' o =>
    subst hs
    have e1 := doOp_resetTrigs ts h o' st'
    have e2 := doOp_resetTrigs ts h o' st
    rw [hst] at e1
    rw [e1] at e2
    refine ⟨?_, ?_, rfl⟩
    · exact (Prod.mk.inj e2).1
    · exact (Prod.mk.inj e2).2
  case tadd.tadd t' t =>
    refine ⟨rfl, ?_, rfl⟩
    rw [resetTrigs_eq_iff] at hst ⊢
    obtain ⟨h1, h2, h3, h4, h5⟩ := hst
    refine ⟨h1, h2, h3, h4, ?_⟩
    show (st'.trigs ++ [t']).map Trig.reset = (st.trigs ++ [t]).map Trig.reset
    rw [List.map_append, List.map_append, h5]
    simp only [List.map_cons, List.map_nil, hs]
  case tdel.tdel i' i =>
    subst hs
    refine ⟨rfl, ?_, rfl⟩
    rw [resetTrigs_eq_iff] at hst ⊢
    obtain ⟨h1, h2, h3, h4, h5⟩ := hst
    refine ⟨h1, h2, h3, h4, ?_⟩
    show (eraseId i' st'.trigs).map Trig.reset = (eraseId i' st.trigs).map Trig.reset
    rw [eraseId_map_reset, eraseId_map_reset, h5]
  case boom.boom e' e =>
    subst hs
    exact ⟨rfl, hst, rfl⟩

theorem ResR.andThen {r' r : Res} {k' k : St → Res} (h : ResR r' r)
    (hk : ∀ st' st, resetTrigs st' = resetTrigs st → ResR (k' st') (k st)) : ResR (r'.andThen k') (r.andThen k) := by
  obtain ⟨h1, h2, h3⟩ := h
  cases hr : r.2.2 with
  | some e =>
    have hr' : r'.2.2 = some e := by rw [h3, hr]
    rw [andThen_err hr, andThen_err hr']
    exact ⟨h1, h2, h3⟩
  | none =>
    have hr' : r'.2.2 = none := by rw [h3, hr]
    rw [andThen_ok hr, andThen_ok hr']
    obtain ⟨q1, q2, q3⟩ := hk _ _ h2
    exact ⟨by rw [h1, q1], q2, q3⟩

theorem runStmts_same (ts : Int) (h : Hook) : ∀ (b' b : List HStmt), SameBody b' b → ∀ st' st, resetTrigs st' = resetTrigs st →
    ResR (runStmts ts h b' st') (runStmts ts h b st)
  | [], [], _, st', st, hst => ⟨rfl, hst, rfl⟩
  | [], _ :: _, hb, _, _, _ => by simp [SameBody] at hb
  | _ :: _, [], hb, _, _, _ => by simp [SameBody] at hb
  | s' :: b', s :: b, hb, st', st, hst => by
    simp only [SameBody] at hb
    simp only [runStmts]
    exact ResR.andThen (doStmt_same ts h s' s hb.1 st' st hst) (runStmts_same ts h b' b hb.2)

theorem initG_same (cfg : Cfg) (T' T : List Trig) (g' g : GScript) (ts0 : Int) (hT : T'.map Trig.reset = T.map Trig.reset)
    (hg : SameBody g'.init g.init) : ResR (initG cfg T' g' ts0) (initG cfg T g ts0) := by
  unfold initG
  simp only []
  apply ResR.andThen
  · refine ⟨rfl, ?_, rfl⟩
    rw [resetTrigs_eq_iff]
    exact ⟨rfl, rfl, rfl, rfl, hT⟩
  · exact runStmts_same ts0 .init _ _ hg

theorem runBarsG_congr (cfg : Cfg) (g' g : GScript) (hb : g'.bar = g.bar) (hf : g'.fuel = g.fuel) (ht : g'.tfuel = g.tfuel) :
    ∀ (bars : List Int) (row : Nat), runBarsG cfg g' row bars = runBarsG cfg g row bars
  | [], _ => by funext st; simp [runBarsG]
  | ts :: bars, row => by
    funext st
    simp only [runBarsG, hb, hf, ht, runBarsG_congr cfg g' g hb hf ht bars (row + 1)]

theorem tinv_map_reset (T0 l : List Trig) (h : TInv T0 l) : TInv T0 (l.map Trig.reset) := by
  intro t' ht' t ht hid
  obtain ⟨x, hx, rfl⟩ := List.mem_map.mp ht'
  obtain ⟨a, b, c⟩ := h x hx t ht hid
  exact ⟨a, b, by show x.k.reset.reset = t.k.reset; rw [rerun_reset_idem]; exact c⟩

theorem tinv_of_reset (T0 l : List Trig) (h : TInv T0 l) : TInv (T0.map Trig.reset) l := by
  intro t' ht' t ht hid
  obtain ⟨x, hx, rfl⟩ := List.mem_map.mp ht
  obtain ⟨a, b, c⟩ := h t' ht' x hx hid
  exact ⟨a, b, by show t'.k.reset = x.k.reset.reset; rw [rerun_reset_idem]; exact c⟩

end Core

/-- the source still takes a COPY of the trigger list before `_run` (generated from demeter/core/actuator.py: `list(self._strategy.triggers)`),
    resets after `initialize()`, and does not use the older reset-before variant -/
theorem C02_source_saves_trigger_list_by_copy :
    Gen.coreRunSavesTriggerListByCopy = true ∧ Gen.coreRunResetsTriggers = true ∧ Gen.coreRunResetsGivenTriggersOnly = false := ⟨rfl, rfl, rfl⟩

theorem Core.initG2_err {cfg : Cfg} {T : List Trig} {g : GScript} {ts0 : Int} {e : PyErr} (h : (initG cfg T g ts0).2.2 = some e) :
    initG2 cfg T g ts0 = initG cfg T g ts0 := by
  unfold initG2
  simp only [C02_source_saves_trigger_list_by_copy.2.2, Bool.false_eq_true, if_false, h]

theorem Core.initG2_ok {cfg : Cfg} {T : List Trig} {g : GScript} {ts0 : Int} (h : (initG cfg T g ts0).2.2 = none) :
    initG2 cfg T g ts0 = ((initG cfg T g ts0).1, resetTrigs (initG cfg T g ts0).2.1, none) := by
  unfold initG2
  simp only [C02_source_saves_trigger_list_by_copy.2.1, C02_source_saves_trigger_list_by_copy.2.2, Bool.false_eq_true, if_false, if_true, h]

theorem Core.initG2_same (cfg : Cfg) (T' T : List Trig) (g' g : GScript) (ts0 : Int) (hT : T'.map Trig.reset = T.map Trig.reset)
    (hg : SameBody g'.init g.init) :
    (initG2 cfg T' g' ts0).1 = (initG2 cfg T g ts0).1 ∧ (initG2 cfg T' g' ts0).2.2 = (initG2 cfg T g ts0).2.2 ∧
    resetTrigs (initG2 cfg T' g' ts0).2.1 = resetTrigs (initG2 cfg T g ts0).2.1 ∧
    ((initG2 cfg T g ts0).2.2 = none → initG2 cfg T' g' ts0 = initG2 cfg T g ts0) := by
  obtain ⟨h1, h2, h3⟩ := initG_same cfg T' T g' g ts0 hT hg
  cases hr : (initG cfg T g ts0).2.2 with
  | some e =>
    have hr' : (initG cfg T' g' ts0).2.2 = some e := by rw [h3, hr]
    rw [Core.initG2_err hr, Core.initG2_err hr']
    exact ⟨h1, h3, h2, fun h => by rw [hr] at h; cases h⟩
  | none =>
    have hr' : (initG cfg T' g' ts0).2.2 = none := by rw [h3, hr]
    rw [Core.initG2_ok hr, Core.initG2_ok hr']
    exact ⟨h1, rfl, by show resetTrigs (resetTrigs _) = resetTrigs (resetTrigs _); rw [h2], fun _ => by rw [h1, h2]⟩

/-- **C02 — a run does not depend on the state an earlier run left in the strategy's trigger objects** — the ones installed when `run` is called
    (`T'` versus `T`: the same objects, equal after `reset()`) AND the ones `initialize()` installs (`g'` versus `g`: the same hooks, `initialize()`
    appends the same objects in other states): same calls, account rows, actions, outcome, and the same trigger objects left (up to their state). -/
theorem C02_rerun2_any_leftover_state (cfg : Cfg) (T' T : List Trig) (g' g : GScript) (hT : T'.map Trig.reset = T.map Trig.reset)
    (hg : SameInit g' g) :
    (runG2 cfg T' g').obs = (runG2 cfg T g).obs ∧ (runG2 cfg T' g').trigsLeft.map Trig.reset = (runG2 cfg T g).trigsLeft.map Trig.reset := by
  obtain ⟨hi, hb, hf, ht⟩ := hg
  unfold runG2 RunResult.obs
  cases checkBacktest cfg with
  | some e => exact ⟨rfl, hT⟩
  | none =>
    dsimp only
    cases barIndex cfg with
    | nil => exact ⟨rfl, hT⟩
    | cons ts0 bars =>
      dsimp only
      cases priceAt cfg ts0 with
      | none => exact ⟨rfl, hT⟩
      | some pr =>
        dsimp only
        obtain ⟨e1, e2, e3, e4⟩ := Core.initG2_same cfg T' T g' g ts0 hT hi
        unfold runCore2
        simp only [runBarsG_congr cfg g' g hb hf ht]
        cases hr : (initG2 cfg T g ts0).2.2 with
        | some e =>
          have hr' : (initG2 cfg T' g' ts0).2.2 = some e := by rw [e2, hr]
          obtain ⟨q1, q2, q3, q4, q5⟩ := (resetTrigs_eq_iff _ _).mp e3
          simp only [hr, hr', e1, q3, q4, Bool.false_eq_true, if_false]
          exact ⟨trivial, q5⟩
        | none =>
          rw [e4 hr]
          constructor <;> simp only [hr]

theorem Core.runG2_tinv (cfg : Cfg) (T0 : List Trig) (g : GScript) (hn : (T0.map (·.id)).Nodup) (hg : g.Fresh (T0.map (·.id))) :
    TInv T0 (runG2 cfg T0 g).trigsLeft := by
  unfold runG2
  have h0 := tinv_self T0 hn
  cases checkBacktest cfg with
  | some e => exact h0
  | none =>
    dsimp only
    cases barIndex cfg with
    | nil => exact h0
    | cons ts0 bars =>
      dsimp only
      cases priceAt cfg ts0 with
      | none => exact h0
      | some pr =>
        dsimp only
        have hi0 : TInv T0 (initG cfg T0 g ts0).2.1.trigs := by
          unfold initG
          exact Pres.andThen (P := fun st => TInv T0 st.trigs) (r := Res.ok _ _) h0 (runStmts_tinv T0 ts0 .init g.init hg.1)
        have hi : TInv T0 (initG2 cfg T0 g ts0).2.1.trigs := by
          unfold initG2
          simp only [C02_source_saves_trigger_list_by_copy.2.1, C02_source_saves_trigger_list_by_copy.2.2, if_true, Bool.false_eq_true, if_false]
          split
          · exact hi0
          · exact tinv_map_reset T0 _ hi0
        have hc : TInv T0 (runCore2 cfg T0 g ts0 bars).1.2.1.trigs := by
          unfold runCore2
          simp only []
          split
          · exact hi
          · exact Pres.andThen (P := fun st => TInv T0 st.trigs) hi (runBarsG_tinv T0 cfg g hg (ts0 :: bars) 0)
        split <;> exact hc

/-- what `run` hands back is, reset, what it found — whatever the hooks did (traded, installed NEW trigger objects — `Fresh`: objects that are
    none of the caller's —, removed triggers, raised) and however the run ended -/
theorem C02_rerun2_list_handed_back (cfg : Cfg) (trigs : List Trig) (g : GScript)
    (hn : (trigs.map (·.id)).Nodup) (hfresh : g.Fresh (trigs.map (·.id))) :
    (trigsAfterRun2 cfg trigs g).map Trig.reset = trigs.map Trig.reset := by
  unfold trigsAfterRun2 trigsAfterRun2Copy handBack2
  simp only [C02_source_saves_trigger_list_by_copy.1, C02_source_saves_trigger_list_by_copy.2.1, if_true, Bool.true_or]
  rw [handBack_reset_of_tinv _ _ (tinv_of_reset _ _ (Core.runG2_tinv cfg trigs g hn hfresh)), rerun_map_reset_idem]

/-- **C02 — repeating the run with the same strategy object reproduces it.**  After `Actuator.run` — however it ended — the strategy holds
    `trigsAfterRun2` (the list it had, the objects in the state the run left them in) and its `initialize()` will install the same objects again
    (`SameInit g' g`: in whatever state).  The second run shows the same calls, account rows, actions and outcome as the first, and hands back the
    same list again. -/
theorem C02_rerun2_same_strategy_object (cfg : Cfg) (trigs : List Trig) (g g' : GScript)
    (hn : (trigs.map (·.id)).Nodup) (hfresh : g.Fresh (trigs.map (·.id))) (hg : SameInit g' g) :
    (runG2 cfg (trigsAfterRun2 cfg trigs g) g').obs = (runG2 cfg trigs g).obs ∧
    (trigsAfterRun2 cfg trigs g).map Trig.reset = trigs.map Trig.reset :=
  ⟨(C02_rerun2_any_leftover_state cfg _ trigs g' g (C02_rerun2_list_handed_back cfg trigs g hn hfresh) hg).1,
   C02_rerun2_list_handed_back cfg trigs g hn hfresh⟩

/-! ### the reference variant (seeded C02-m7 / C05-m12): kernel-checked witness

  A strategy whose `initialize()` does `self.triggers.append(self.t)` with `self.t = AtTimeTrigger(00:01)` built once, no trigger installed by
  the caller, three one-minute bars.  With the reference, the list handed back is the list object `initialize()` appended to — `[t]` — and the
  second run's `initialize()` appends `t` again: its action is called twice at 00:01.  (The model keeps one state per list SLOT, the code one per
  OBJECT; for a stateless class such as `AtTimeTrigger` there is no difference.) -/

def Core.aliasCfg : Cfg := { markets := [{ idx := [0, 60, 120], openCb := false }], priceIdx := [0, 60, 120], Δ := 60, resample := false }
def Core.aliasT : Trig := ⟨0, "", .atTime 60⟩
def Core.aliasG : GScript :=
  { init := [.tadd Core.aliasT],
    bar := fun _ => { before := [], fire := fun _ => [], openCb := fun _ => [], on := [], after := [], upd := fun _ => [], notify := fun _ => [] } }

theorem C02_alias_variant_breaks_rerun :
    trigsAfterRun2Alias Core.aliasCfg [] Core.aliasG = [Core.aliasT] ∧
    trigsAfterRun2Copy Core.aliasCfg [] Core.aliasG = [] ∧
    (runG2 Core.aliasCfg [] Core.aliasG).trace.filterMap fireOfEv = [⟨60, 0, ""⟩] ∧
    (runG2 Core.aliasCfg (trigsAfterRun2Alias Core.aliasCfg [] Core.aliasG) Core.aliasG).trace.filterMap fireOfEv = [⟨60, 0, ""⟩, ⟨60, 0, ""⟩] ∧
    ¬ ((runG2 Core.aliasCfg (trigsAfterRun2Alias Core.aliasCfg [] Core.aliasG) Core.aliasG).obs = (runG2 Core.aliasCfg [] Core.aliasG).obs) ∧
    (runG2 Core.aliasCfg (trigsAfterRun2Copy Core.aliasCfg [] Core.aliasG) Core.aliasG).obs = (runG2 Core.aliasCfg [] Core.aliasG).obs := by
  refine ⟨by decide, by decide, by decide, by decide, ?_, by decide⟩
  intro h
  have := congrArg (fun o => o.1.filterMap fireOfEv) h
  revert this
  decide

/-! ### non-vacuity: a strategy with a caller-installed period trigger AND triggers installed by `initialize()`; the rerun starts from leftover state -/

def Core.rr2Trigs : List Trig := [⟨0, "", .period 120 true 0 none⟩]
def Core.rr2G : GScript :=
  { init := [.tadd ⟨7, "late", .period 60 false 0 none⟩, .op ⟨0, true, "x", true⟩],
    bar := fun _ => { before := [], fire := fun _ => [], openCb := fun _ => [], on := [], after := [], upd := fun _ => [], notify := fun _ => [] } }
/-- the same strategy later: `initialize()` installs object 7 in the state the first run left it in (due at 180) -/
def Core.rr2G' : GScript := { Core.rr2G with init := [.tadd ⟨7, "late", .period 60 false 0 (some 180)⟩, .op ⟨0, true, "x", true⟩] }

example : SameInit Core.rr2G' Core.rr2G := ⟨⟨rfl, rfl, trivial⟩, rfl, rfl, rfl⟩
example : (Core.rr2Trigs.map (·.id)).Nodup := by decide
example : Core.rr2G.Fresh (Core.rr2Trigs.map (·.id)) := by
  refine ⟨?_, fun _ => ⟨?_, fun _ => ?_, fun _ => ?_, ?_, ?_, fun _ => ?_⟩⟩
  · intro s hs
    simp only [Core.rr2G, List.mem_cons, List.not_mem_nil, or_false] at hs
    rcases hs with rfl | rfl <;> simp [HStmt.fresh, Core.rr2Trigs]
  all_goals (intro s hs; cases hs)
example : (runG2 Core.aliasCfg Core.rr2Trigs Core.rr2G).trace.filterMap fireOfEv = [⟨0, 0, ""⟩, ⟨60, 7, "late"⟩, ⟨120, 0, ""⟩, ⟨120, 7, "late"⟩] := by decide
example : (trigsAfterRun2 Core.aliasCfg Core.rr2Trigs Core.rr2G) = [⟨0, "", .period 120 true 0 (some 240)⟩] := by decide
/-- resetting BEFORE `initialize()` (the older model) is not enough here: object 7 would stay silent in the second run -/
example : (runG Core.aliasCfg (Core.rr2Trigs.map Trig.reset) Core.rr2G').trace.filterMap fireOfEv = [⟨0, 0, ""⟩, ⟨120, 0, ""⟩] := by decide

end Demeter
